(* SpecScan.v — the scan-level properties (C01-C04, C06-C12, C15, C19, C20) as boolean checkers over one scan:
   the pre-scan snapshot and a journal of calls (the model's or the implementation's).  The theorems that the
   model's journal passes every checker for every input, and the Prop readings of the checkers, are in
   proofs/Scan*.v and Properties/Cxx.v. *)
From Esc Require Export Scan.

(* ---------- the context of one group's scan, computed from the snapshot only ---------- *)
Record gctx := {
  x_env : env; x_opts : opts; x_st : gstate; x_dry : bool; x_min : Z; x_max : Z; x_asg : option asg;
  x_nodes : list node; x_pods : list pod; x_cls : classes
}.

(* the context of group g scanned at instant now against cloud group a, from the listed objects *)
Definition ctx_of (now : Z) (gdry : bool) (api : list node) (g : group_in) (a : option asg)
           (all_nodes : list node) (all_pods : list pod) : gctx :=
  let o := gi_opts g in
  let mm := match a with Some a => effective_min_max o a | None => (o_min o, o_max o) end in
  let dry := gdry || o_dry o in
  let nodes := group_nodes o all_nodes in
  let st1 := match nodes with n :: _ => with_cache (gi_state g) (first_alloc n) | [] => gi_state g end in
  {| x_env := {| e_now := now; e_dry := gdry; e_api := api; e_korc := gi_korc g; e_aorc := gi_aorc g;
                 e_descinst_fail := gi_descinst_fail g |};
     x_opts := o; x_st := st1; x_dry := dry; x_min := fst mm; x_max := snd mm; x_asg := a;
     x_nodes := nodes; x_pods := group_pods o all_pods; x_cls := filter_nodes dry st1 nodes |}.

Definition mk_ctx (s : snapshot) (g : group_in) : gctx :=
  ctx_of (s_now s) (s_dry s) (s_api s) g (find_asg (s_cloud s) (o_asg (gi_opts g))) (s_nodes s) (s_pods s).

(* the model's scan of the group a context describes *)
Definition scan_of (now : Z) (gdry : bool) (api : list node) (g : group_in) (a : option asg)
           (all_nodes : list node) (all_pods : list pod) : gresult :=
  let x := ctx_of now gdry api g a all_nodes all_pods in
  scan_group (x_env x) (x_opts x) (x_min x) (x_max x) (gi_state g) a all_nodes all_pods.

Definition find_node (nodes : list node) (name : id) : option node := find (fun n => n_name n =? name) nodes.

(* ---------- which node of the view a call is about ---------- *)
(* Kubernetes calls name the node; a terminate call names the instance that backs it in the group's cloud group *)
Definition backs (x : gctx) (inst : bytes) (n : node) : bool :=
  match x_asg x with
  | Some a => match backing_instance a (n_pid n) with Some i => bytes_eqb (i_id i) inst | None => false end
  | None => false
  end.

Definition node_matches (x : gctx) (c : call) (n : node) : bool :=
  match c with
  | CK (KGet m _) | CK (KUpdate m _ _) | CK (KDelete m _) => n_name n =? m
  | CA (ATermInAsg inst _ _) => backs x inst n
  | _ => false
  end.

(* the call is about some node of the group's view that satisfies P *)
Definition targets (x : gctx) (P : node -> bool) (c : call) : bool :=
  existsb (fun n => node_matches x c n && P n) (x_nodes x).

(* ---------- projections of a journal ---------- *)
Definition is_removal (c : call) : bool :=
  match c with CK (KDelete _ _) => true | CA (ATermInAsg _ _ _) => true | _ => false end.
Definition is_node_write (c : call) : bool :=
  match c with CK (KUpdate _ _ _) => true | CK (KDelete _ _) => true | CA (ATermInAsg _ _ _) => true | _ => false end.
Definition is_cloud_increase (c : call) : bool :=
  match c with CA (ASetDesired _ _ _ _) => true | CA (ACreateFleet _ _ _ _ _ _ _ _) => true | _ => false end.
Definition writes (calls : list call) : list call := filter call_is_write calls.

Definition api_copy (x : gctx) (name : id) : option node := api_lookup (e_api (x_env x)) name.

(* an update that makes the taint list longer than the API server's copy adds a taint; any other update is an
   untaint write (a node may carry a second taint with the escalator key, so the key alone does not tell) *)
Definition longer_than_copy (x : gctx) (name : id) (p : node) : bool :=
  match api_copy x name with
  | Some u => Nat.ltb (length (n_taints u)) (length (n_taints p))
  | None => true
  end.
Definition is_taint_write (x : gctx) (c : call) : bool :=
  match c with CK (KUpdate n p _) => longer_than_copy x n p | _ => false end.
Definition is_untaint_write (x : gctx) (c : call) : bool :=
  match c with CK (KUpdate n p _) => negb (longer_than_copy x n p) | _ => false end.

Definition taint_ok_targets (x : gctx) (calls : list call) : list id :=
  concat (map (fun c => match c with CK (KUpdate n p true) => if longer_than_copy x n p then [n] else [] | _ => [] end) calls).
Definition untaint_ok_targets (x : gctx) (calls : list call) : list id :=
  concat (map (fun c => match c with CK (KUpdate n p true) => if longer_than_copy x n p then [] else [n] | _ => [] end) calls).

Fixpoint nodupb (l : list id) : bool := match l with [] => true | y :: l' => negb (mem_id y l') && nodupb l' end.

(* ---------- C01 / C10 ---------- *)
Definition grace_ok (x : gctx) (n : node) : bool :=
  match taint_time n with
  | None => false
  | Some ts =>
    let age := taint_age (x_env x) ts in
    ((o_soft (x_opts x) <? age) && (node_pods_remaining (x_pods x) n =? 0)) || (o_hard (x_opts x) <? age)
  end.

Definition removable (x : gctx) (n : node) : bool :=
  negb (x_dry x) && negb (n_unsched n)
  && ((has_esc n && grace_ok x n) || (has_force n && (node_pods_remaining (x_pods x) n =? 0))).

(* every terminate / delete call is about a node of the view that is removable *)
Definition check_C01_group (x : gctx) (calls : list call) : bool :=
  forallb (fun c => if is_removal c then targets x (removable x) c else true) calls.

(* C10: every removal call is about a node that is not protected (non-empty annotation and no force taint) *)
Definition protected (n : node) : bool := safe_from_deletion n && negb (has_force n).
Definition check_C10_group (x : gctx) (calls : list call) : bool :=
  forallb (fun c => if is_removal c then targets x (fun n => negb (protected n)) c else true) calls.

(* ---------- C02 ---------- *)
Definition in_cooldown (x : gctx) : bool := lock_since (g_lock (x_st x)) (e_now (x_env x)) <? o_cool (x_opts x).

(* the cloud accepted an increase: a successful SetDesiredCapacity *)
Definition set_desired_ok (calls : list call) : bool :=
  existsb (fun c => match c with CA (ASetDesired _ _ _ true) => true | _ => false end) calls.

(* a fleet request that went through: CreateFleet accepted, and after it at least one AttachInstances call and none refused
   (every instance acquired now sits in the group; a refused attach or a readiness time-out sends them to termination) *)
Definition is_attach (c : call) : bool := match c with CA (AAttach _ _ _) => true | _ => false end.
Definition is_attach_refused (c : call) : bool := match c with CA (AAttach _ _ false) => true | _ => false end.
Fixpoint fleet_done (calls : list call) : bool :=
  match calls with
  | [] => false
  | CA (ACreateFleet _ _ _ _ _ _ _ true) :: rest => existsb is_attach rest && negb (existsb is_attach_refused rest)
  | _ :: rest => fleet_done rest
  end.
(* the cloud completed an increase: the group grows by the whole request *)
Definition increase_done (calls : list call) : bool := set_desired_ok calls || fleet_done calls.

Definition time_is (t : option Z) (now : Z) : bool := match t with Some v => v =? now | None => false end.

(* the cloud accepted an increase: a successful SetDesiredCapacity or an accepted fleet request *)
Definition increase_accepted (calls : list call) : bool :=
  existsb (fun c => match c with CA (ASetDesired _ _ _ true) => true | CA (ACreateFleet _ _ _ _ _ _ _ true) => true | _ => false end) calls.

Definition optZ_eqb' (a b : option Z) : bool :=
  match a, b with Some x, Some y => x =? y | None, None => true | _, _ => false end.
Definition lock_same (a b : lock) : bool :=
  Bool.eqb (l_locked a) (l_locked b) && optZ_eqb' (l_time a) (l_time b) && (l_requested a =? l_requested b).

(* post: the group's in-memory state after the scan *)
Definition check_C02_group (x : gctx) (calls : list call) (post : gstate) : bool :=
  let pre := g_lock (x_st x) in
  (* inside the cool-down: no write of any kind, and the lock is left exactly as it was *)
  (if in_cooldown x then (match writes calls with [] => true | _ => false end) && lock_same (g_lock post) pre else true)
  (* the cool-down timer restarts only when an increase was accepted (or decided, in dry mode): otherwise the lock
     time is the one the scan found, so the lock cannot outlive the cool-down of the increase that armed it *)
  && (optZ_eqb' (l_time (g_lock post)) (l_time pre)
      || (time_is (l_time (g_lock post)) (e_now (x_env x)) && l_locked (g_lock post) && (x_dry x || increase_accepted calls)))
  (* a completed increase (an accepted SetDesiredCapacity, or a fleet request accepted and attached in full) arms the lock
     at the instant of the scan *)
  && (if increase_done calls then l_locked (g_lock post) && time_is (l_time (g_lock post)) (e_now (x_env x)) else true).

(* C18, controller side: no cool-down lock is taken for capacity that did not arrive — the lock time moves only when the
   cloud completed the increase (SetDesiredCapacity accepted; fleet request accepted and attached in full), or in dry mode *)
Definition check_C18_group (x : gctx) (calls : list call) (post : gstate) : bool :=
  optZ_eqb' (l_time (g_lock post)) (l_time (g_lock (x_st x))) || x_dry x || increase_done calls.

(* ---------- C03 ---------- *)
Definition in_class (l : list node) (name : id) : bool := existsb (fun n => n_name n =? name) l.

(* nodes the scan listed as untainted, read back successfully, and whose API-server copy already carries the escalator
   taint (the lister lags): they are not written, but they are no longer schedulable either *)
Definition ok_got_names (calls : list call) : list id :=
  concat (map (fun c => match c with CK (KGet n true) => [n] | _ => [] end) calls).
Definition api_has_esc (x : gctx) (name : id) : bool :=
  match api_copy x name with Some u => has_esc u | None => false end.
Definition found_tainted (x : gctx) (calls : list call) : list id :=
  filter (fun m => in_class (c_untainted (x_cls x)) m && api_has_esc x m) (ok_got_names calls).

Definition check_C03_group (x : gctx) (calls : list call) : bool :=
  let t := taint_ok_targets x calls in
  let u := zlen (c_untainted (x_cls x)) in
  (* taint receivers are distinct members of the untainted class of the view *)
  nodupb t && forallb (in_class (c_untainted (x_cls x))) t
  (* at least min_nodes of the nodes seen untainted stay untainted: neither written nor found already tainted on read-back *)
  && (match t with [] => true | _ => x_min x <=? u - zlen t - zlen (found_tainted x calls) end)
  (* below the minimum (node count within bounds): nothing is tainted *)
  && (if (x_min x <=? zlen (x_nodes x)) && (zlen (x_nodes x) <=? x_max x) && (u <? x_min x)
      then negb (existsb (is_taint_write x) calls) else true).

(* ---------- C04 ---------- *)
(* the cached desired size at the time of each call: it follows the scan's own accepted terminations *)
Fixpoint check_C04_calls (m : Z) (desired : Z) (calls : list call) : bool :=
  match calls with
  | [] => true
  | CA (ATermInAsg _ _ true) :: rest => check_C04_calls m (desired - 1) rest
  | CA (ASetDesired _ v _ _) :: rest => (v <=? m) && (desired <? v) && check_C04_calls m desired rest
  | CA (ACreateFleet total _ _ _ _ _ _ _) :: rest => (desired + total <=? m) && (0 <? total) && check_C04_calls m desired rest
  | _ :: rest => check_C04_calls m desired rest
  end.

Definition check_C04_group (x : gctx) (calls : list call) : bool :=
  match x_asg x with
  | None => negb (existsb is_cloud_increase calls)
  | Some a => check_C04_calls (Z.min (x_max x) (a_max a)) (a_desired a) calls
  end.

(* ---------- C06 ---------- *)
Inductive band := BLow | BMid | BQuiet | BUp | BNone.

Definition usage_of (x : gctx) : usage := pods_usage (x_pods x).
Definition capacity_of (x : gctx) : capacity := nodes_capacity (c_untainted (x_cls x)) (x_pods x).

Definition percents (x : gctx) : pct_result :=
  calc_percent (r_cpu (u_total (usage_of x))) (1000 * r_mem (u_total (usage_of x)))
               (r_cpu (k_total (capacity_of x))) (1000 * r_mem (k_total (capacity_of x))) (zlen (c_untainted (x_cls x))).

(* the band of an unlocked, in-bounds scan; BNone when the property does not speak about this scan *)
Definition band_of (x : gctx) : band :=
  let n := zlen (x_nodes x) in
  let u := zlen (c_untainted (x_cls x)) in
  if in_cooldown x then BNone
  else if (match x_nodes x, x_pods x with [], [] => true | _, _ => false end) then BNone
  else if (n <? x_min x) || (x_max x <? n) || (u <? x_min x) then BNone
  else match percents x with
       | PctErr => BNone
       | PctOk c m =>
         let mp := fmax c m in
         if flt mp (of_Z (o_lower (x_opts x))) then BLow
         else if flt mp (of_Z (o_upper (x_opts x))) then BMid
         else if fgt mp (of_Z (o_up (x_opts x))) then BUp
         else BQuiet
       end.

Definition trigger_fires (x : gctx) : bool :=
  scale_on_starve (x_opts x) (x_max x) (usage_of x) (capacity_of x) (c_untainted (x_cls x))
  || scale_on_max_age (x_env x) (x_opts x) (x_min x) (c_untainted (x_cls x)) (c_tainted (x_cls x)).

(* no API failure is injected for this group, every node's API copy equals its listed copy, and every tainted node
   of the view is an instance of the cloud group (so the reaper cannot stop the scan with not-in-group) *)
Definition api_faithful (x : gctx) : bool :=
  (match ko_get_fail (e_korc (x_env x)), ko_update_fail (e_korc (x_env x)) with [], [] => true | _, _ => false end)
  && forallb (fun n => match api_copy x (n_name n) with Some m => node_eqb m n | None => false end) (x_nodes x)
  && match x_asg x with Some a => forallb (fun n => belongs a (n_pid n)) (c_tainted (x_cls x)) | None => true end.

Definition check_C06_group (x : gctx) (calls : list call) : bool :=
  let u := zlen (c_untainted (x_cls x)) in
  let ntaint := zlen (taint_ok_targets x calls) in
  let quiet_up := negb (existsb (is_untaint_write x) calls) && negb (existsb is_cloud_increase calls) in
  let target rate := Z.max 0 (Z.min rate (u - x_min x)) in
  match band_of x with
  | BNone => true
  | b =>
    if trigger_fires x then negb (existsb (is_taint_write x) calls)
    else match b with
         | BLow => quiet_up && (ntaint <=? target (o_fast (x_opts x)))
                   && (if api_faithful x && negb (x_dry x) then ntaint =? target (o_fast (x_opts x)) else true)
         | BMid => quiet_up && (ntaint <=? target (o_slow (x_opts x)))
                   && (if api_faithful x && negb (x_dry x) then ntaint =? target (o_slow (x_opts x)) else true)
         | BQuiet => quiet_up && negb (existsb (is_taint_write x) calls)
         | _ => negb (existsb (is_taint_write x) calls)
         end
  end.

(* ---------- C07 ---------- *)
Fixpoint calls_before_increase (calls : list call) : list call :=
  match calls with
  | [] => []
  | c :: rest => if is_cloud_increase c then [] else c :: calls_before_increase rest
  end.

Definition got_names (calls : list call) : list id :=
  concat (map (fun c => match c with CK (KGet n _) => [n] | _ => [] end) calls).
Definition failed_names (calls : list call) : list id :=
  concat (map (fun c => match c with CK (KGet n false) => [n] | CK (KUpdate n _ false) => [n] | _ => [] end) calls).

Definition created_of (nodes : list node) (name : id) : Z :=
  match find_node nodes name with Some n => n_created n | None => 0 end.

Fixpoint non_increasing (l : list Z) : bool :=
  match l with
  | a :: rest => (match rest with b :: _ => b <=? a | [] => true end) && non_increasing rest
  | [] => true
  end.

Definition check_C07_group (x : gctx) (calls : list call) : bool :=
  if x_dry x then true
  else
    let tainted := c_tainted (x_cls x) in
    let before := calls_before_increase calls in
    let attempted := filter (in_class tainted) (got_names calls) in
    (* untaint attempts go newest-created first *)
    non_increasing (map (created_of tainted) attempted)
    && (if existsb is_cloud_increase calls then
          (* buying capacity: every tainted node of the view was tried first, and whatever stayed tainted failed *)
          forallb (fun n => mem_id (n_name n) (got_names before)
                            && (mem_id (n_name n) (untaint_ok_targets x before) || mem_id (n_name n) (failed_names before)
                                || (* the API copy carried no taint: nothing to write, counted as untainted *)
                                   match api_copy x (n_name n) with Some m => negb (has_esc m) | None => false end))
                  tainted
        else true).

(* C10, "can be tainted and untainted like any other node": when the scan buys capacity, every PROTECTED tainted node of the
   view had been tried for untainting first (the part of C07's reuse rule that speaks about annotated nodes) *)
Definition check_C10_reuse (x : gctx) (calls : list call) : bool :=
  if x_dry x then true
  else if existsb is_cloud_increase calls
       then forallb (fun n => if safe_from_deletion n && negb (has_force n)
                              then mem_id (n_name n) (got_names (calls_before_increase calls)) else true) (c_tainted (x_cls x))
       else true.

(* ---------- C08 ---------- *)
Definition check_C08_group (x : gctx) (calls : list call) : bool :=
  if x_dry x then true
  else
    let unt := c_untainted (x_cls x) in
    let t := taint_ok_targets x calls in
    forallb (fun y => if mem_id (n_name y) t then
        forallb (fun z => if mem_id (n_name z) t then true
                          else if n_created z <? n_created y
                               then mem_id (n_name z) (failed_names calls)
                                    || (* already tainted according to the API server: no write needed *)
                                       (mem_id (n_name z) (got_names calls)
                                        && match api_copy x (n_name z) with Some m => has_esc m | None => false end)
                               else true) unt
      else true) unt.

(* ---------- C09 ---------- *)
(* outside dry mode every update, delete and terminate is about a node of the view that is not cordoned *)
Definition check_C09_group (x : gctx) (calls : list call) : bool :=
  if x_dry x then true
  else forallb (fun c => if is_node_write c then targets x (fun n => negb (n_unsched n)) c else true) calls.

(* ---------- C11 ---------- *)
Definition check_C11_group (x : gctx) (calls : list call) : bool :=
  if x_dry x then match writes calls with [] => true | _ => false end else true.

(* ---------- C12 ---------- *)
Definition own_instance (x : gctx) (inst : bytes) : bool :=
  match x_asg x with Some a => existsb (fun i => bytes_eqb (i_id i) inst) (a_instances a) | None => false end.

Definition check_C12_group (x : gctx) (calls : list call) : bool :=
  forallb (fun c => match c with
                    | CK (KGet n _) | CK (KUpdate n _ _) | CK (KDelete n _) => in_class (x_nodes x) n
                    | CA (ASetDesired g _ _ _) | CA (AAttach g _ _) | CA (ADescribeAsg g _) => g =? o_asg (x_opts x)
                    | CA (ATermInAsg inst _ _) => own_instance x inst
                    | CA (ACreateFleet _ _ _ _ _ _ tmpl _) => match x_asg x with Some a => tmpl =? f_template (a_cfg a) | None => false end
                    | _ => true end) calls.

(* ---------- C15 ---------- *)
Fixpoint remove_one (t : taint) (l : list taint) : option (list taint) :=
  match l with
  | [] => None
  | y :: l' => if taint_eqb y t then Some l' else option_map (cons y) (remove_one t l')
  end.
Fixpoint perm_taints (a b : list taint) : bool :=
  match a with
  | [] => match b with [] => true | _ => false end
  | t :: a' => match remove_one t b with Some b' => perm_taints a' b' | None => false end
  end.

(* the first escalator taint removed, everything else kept *)
Fixpoint drop_first_esc (l : list taint) : list taint :=
  match l with [] => [] | t :: l' => if t_key t =? id_esc_key then l' else t :: drop_first_esc l' end.

Definition check_update (x : gctx) (name : id) (p : node) : bool :=
  match api_copy x name with
  | None => false
  | Some u =>
    if Nat.ltb (length (n_taints u)) (length (n_taints p)) then
      (* a taint write: exactly one taint appended to a copy that had none, nothing else touched *)
      negb (has_esc u)
      && node_eqb p (set_taints u (n_taints u ++ [new_taint (now_sec (x_env x)) (o_effect (x_opts x))]))
    else
      (* an untaint write: the first escalator taint removed (order of the others may change), nothing else touched *)
      has_esc u && node_eqb (set_taints p []) (set_taints u [])
      && perm_taints (n_taints p) (drop_first_esc (n_taints u))
  end.

Definition check_C15_group (x : gctx) (calls : list call) : bool :=
  forallb (fun c => match c with CK (KUpdate n p _) => check_update x n p | _ => true end) calls.

(* ---------- C19 (controller part): Kubernetes deletes only after the cloud accepted the whole batch ---------- *)
(* The journal is read as runs of terminate calls followed by blocks of Node deletes.  A delete block must name, in
   order, the nodes of a suffix of the terminate run directly before it, every terminate of that suffix accepted
   (a batch is a suffix of the run: an earlier batch that stopped early leaves its accepted terminates in front);
   the block may stop early only on a failed delete.  A terminate call is recorded by the provider id it stands
   for: the run holds, per call, the names of the view's nodes the instance backs and whether it was accepted. *)
Definition is_kdelete (c : call) : bool := match c with CK (KDelete _ _) => true | _ => false end.

Definition backed_names (x : gctx) (inst : bytes) : list id := map n_name (filter (backs x inst) (x_nodes x)).

(* the longest all-accepted suffix of a terminate run *)
Fixpoint ok_suffix (run : list (list id * bool)) : list (list id) :=
  match run with
  | [] => []
  | (n, ok) :: rest => let s := ok_suffix rest in
                       if ok && (Nat.eqb (length s) (length rest)) then n :: s else s
  end.

(* blk is a prefix of batch (each delete names a node the corresponding instance backs); all its deletes succeeded
   except possibly the last; it is shorter than the batch only if its last delete failed *)
Fixpoint block_matches (batch : list (list id)) (blk : list (id * bool)) : bool :=
  match blk with
  | [] => match batch with [] => true | _ => false end
  | (n, ok) :: blk' =>
    match batch with
    | [] => false
    | b :: batch' => mem_id n b && (if ok then block_matches batch' blk' else match blk' with [] => true | _ => false end)
    end
  end.

(* some suffix of the accepted run is the batch this block deletes *)
Fixpoint some_suffix_matches (batch : list (list id)) (blk : list (id * bool)) : bool :=
  block_matches batch blk || match batch with [] => false | _ :: batch' => some_suffix_matches batch' blk end.

Definition block_ok (run : list (list id * bool)) (blk : list (id * bool)) : bool :=
  match blk with
  | [] => true
  | _ => some_suffix_matches (ok_suffix run) blk
  end.

Fixpoint check_C19_calls (x : gctx) (calls : list call) (run : list (list id * bool)) (blk : list (id * bool)) : bool :=
  match calls with
  | [] => block_ok run blk
  | CA (ATermInAsg inst decr ok) :: rest =>
      decr && negb (match backed_names x inst with [] => true | _ => false end) &&
      match blk with
      | [] => check_C19_calls x rest (run ++ [(backed_names x inst, ok)]) []
      | _ => block_ok run blk && check_C19_calls x rest [(backed_names x inst, ok)] []
      end
  | CK (KDelete n ok) :: rest => check_C19_calls x rest run (blk ++ [(n, ok)])
  | _ :: rest => block_ok run blk && check_C19_calls x rest [] []
  end.

(* What C19 itself asks of the deletes ("only after the cloud accepted termination of the entire batch"): every Node delete
   names a node backed by an instance of the all-accepted terminate run directly before its block.  That the block follows the
   batch in order and stops at the first failed delete is how the code does it today (check_C19_calls, proved of the model);
   it is not demanded of the implementation. *)
Definition block_ok_w (run : list (list id * bool)) (blk : list (id * bool)) : bool :=
  forallb (fun p => existsb (fun b => mem_id (fst p) b) (ok_suffix run)) blk.

Fixpoint check_C19_calls_w (x : gctx) (calls : list call) (run : list (list id * bool)) (blk : list (id * bool)) : bool :=
  match calls with
  | [] => block_ok_w run blk
  | CA (ATermInAsg inst decr ok) :: rest =>
      decr && negb (match backed_names x inst with [] => true | _ => false end) &&
      match blk with
      | [] => check_C19_calls_w x rest (run ++ [(backed_names x inst, ok)]) []
      | _ => block_ok_w run blk && check_C19_calls_w x rest [(backed_names x inst, ok)] []
      end
  | CK (KDelete n ok) :: rest => check_C19_calls_w x rest run (blk ++ [(n, ok)])
  | _ :: rest => block_ok_w run blk && check_C19_calls_w x rest [] []
  end.

(* accepted terminations of the scan *)
Definition ok_terminations (calls : list call) : Z :=
  count_occ_b (fun c => match c with CA (ATermInAsg _ _ true) => true | _ => false end) calls.

(* never more than desired - min instances of the cloud group are terminated in one scan (desired as refreshed at
   the start of the scan) *)
Definition check_C19_budget (x : gctx) (calls : list call) : bool :=
  (ok_terminations calls =? 0)
  || match x_asg x with Some a => ok_terminations calls <=? a_desired a - a_min a | None => false end.

(* "The entire batch": a scan makes at most one removal request per path (force-tainted nodes, then grace-expired tainted
   nodes), so the Node deletes of a scan form at most two blocks separated by terminations — one of force-tainted nodes and one of
   tainted nodes of the view.  A request cut into pieces (terminate some, delete them, terminate more) shows as a further block,
   or as two blocks of the same class. *)
Definition removal_proj (calls : list call) : list (option id) :=
  concat (map (fun c => match c with CA (ATermInAsg _ _ _) => [None] | CK (KDelete n _) => [Some n] | _ => [] end) calls).
Fixpoint del_blocks (l : list (option id)) (cur : list id) : list (list id) :=
  match l with
  | [] => match cur with [] => [] | _ => [cur] end
  | None :: r => match cur with [] => del_blocks r [] | _ => cur :: del_blocks r [] end
  | Some n :: r => del_blocks r (cur ++ [n])
  end.
Definition names_in (cls : list node) (b : list id) : bool := forallb (in_class cls) b.
Definition check_C19_requests (x : gctx) (calls : list call) : bool :=
  match del_blocks (removal_proj calls) [] with
  | [] => true
  | [_] => true
  | [b1; b2] => (names_in (c_forced (x_cls x)) b1 && names_in (c_tainted (x_cls x)) b2)
                || (names_in (c_tainted (x_cls x)) b1 && names_in (c_forced (x_cls x)) b2)
  | _ => false
  end.

Definition check_C19_group (x : gctx) (calls : list call) : bool := check_C19_calls x calls [] [] && check_C19_budget x calls.
Definition check_C19_group_w (x : gctx) (calls : list call) : bool :=
  check_C19_calls_w x calls [] [] && check_C19_budget x calls && check_C19_requests x calls.

(* ---------- C07, the exact remainder ---------- *)
(* the decision after the two triggers (starvation, max node age): each raises it to at least 1 *)
Definition final_delta (e : env) (o : opts) (mn mx : Z) (us : usage) (cap : capacity) (unt tainted : list node) (d0 : Z) : Z :=
  let d1 := if scale_on_starve o mx us cap unt then Z.max d0 1 else d0 in
  if scale_on_max_age e o mn unt tainted then Z.max d1 1 else d1.

(* the group's memory once the scale lock has been looked at *)
Definition st2_of (x : gctx) : gstate :=
  with_lock (x_st x) (snd (lock_check (g_lock (x_st x)) (e_now (x_env x)) (o_cool (x_opts x)))).

(* N: the number of nodes the scan decides it needs more, from the snapshot only; None when the scan does not scale up *)
Definition need_of (x : gctx) : option Z :=
  let n := zlen (x_nodes x) in
  let unt := c_untainted (x_cls x) in
  if in_cooldown x then None
  else if (match x_nodes x, x_pods x with [], [] => true | _, _ => false end) then None
  else if (n <? x_min x) || (x_max x <? n) then None
  else if zlen unt <? x_min x then Some (x_min x - zlen unt)
  else match percents x with
       | PctErr => None
       | PctOk c m =>
         match decide (x_opts x) (st2_of x) c m (r_cpu (u_total (usage_of x))) (1000 * r_mem (u_total (usage_of x))) unt with
         | DeltaErr _ => None
         | DeltaOk d0 =>
           let d2 := final_delta (x_env x) (x_opts x) (x_min x) (x_max x) (usage_of x) (capacity_of x) unt (c_tainted (x_cls x)) d0 in
           if 0 <? d2 then Some d2 else None
         end
       end.

Fixpoint first_increase (calls : list call) : option acall :=
  match calls with
  | [] => None
  | c :: rest => if is_cloud_increase c then match c with CA a => Some a | CK _ => None end else first_increase rest
  end.

(* the nodes the scale-up counts as brought back: written untainted, or read back successfully with no escalator
   taint left on the API server's copy (nothing to write) *)
Definition counted_untainted (x : gctx) (before : list call) : Z :=
  zlen (untaint_ok_targets x before)
  + zlen (filter (fun m => in_class (c_tainted (x_cls x)) m && negb (api_has_esc x m)) (ok_got_names before)).

(* the first increase asks for exactly clamp(N - untainted) on top of the desired size as it stands after the scan's
   own accepted terminations *)
Definition check_C07_exact (x : gctx) (calls : list call) : bool :=
  if x_dry x then true
  else match first_increase calls with
       | None => true
       | Some c =>
         match need_of x, x_asg x with
         | Some N, Some a =>
           let before := calls_before_increase calls in
           let d := a_desired a - ok_terminations before in
           let m := Z.min (x_max x) (a_max a) in
           let add := nodes_to_add (N - counted_untainted x before) d m in
           (0 <? add) && match c with
                         | ASetDesired _ v _ _ => v =? d + add
                         | ACreateFleet total _ _ _ _ _ _ _ => total =? add
                         | _ => false
                         end
         | _, _ => false
         end
       end.

(* a scale-up the scan decides on is acted on: when, after the untaints that succeeded, nodes are still missing and the clamp
   leaves room, the journal shows the cloud request — or, in fleet mode, at least the describe call it starts with *)
Definition attempted_increase (calls : list call) : bool :=
  existsb (fun c => is_cloud_increase c || match c with CA (ADescribeAsg _ _) => true | _ => false end) calls.

Definition check_up_attempted (x : gctx) (calls : list call) : bool :=
  if x_dry x then true
  else match need_of x, x_asg x with
       | Some N, Some a =>
         let before := calls_before_increase calls in
         let rest := N - counted_untainted x before in
         let d := a_desired a - ok_terminations before in
         if (0 <? rest) && (0 <? nodes_to_add rest d (Z.min (x_max x) (a_max a))) then attempted_increase calls else true
       | _, _ => true
       end.

(* C03, recovery clause: a scan that sees fewer untainted nodes than the minimum (unlocked, node count within bounds)
   "restores capacity, untainting first and requesting the rest": the exact-remainder and acted-on rules in that situation *)
Definition below_min_recovery (x : gctx) : bool :=
  negb (in_cooldown x) && (x_min x <=? zlen (x_nodes x)) && (zlen (x_nodes x) <=? x_max x)
  && (zlen (c_untainted (x_cls x)) <? x_min x).
Definition check_C03_recover (x : gctx) (calls : list call) : bool :=
  if below_min_recovery x then check_C07_exact x calls && check_up_attempted x calls else true.

(* C04, second sentence: "a scale-up that would exceed the bound is clamped to land exactly on it, and when no headroom remains
   no request is made": the exact-remainder and acted-on rules whenever the decided need does not fit under the bound *)
Definition clamp_binds (x : gctx) (calls : list call) : bool :=
  match need_of x, x_asg x with
  | Some N, Some a =>
    let before := calls_before_increase calls in
    let rest := N - counted_untainted x before in
    (0 <? rest) && (Z.min (x_max x) (a_max a) <? a_desired a - ok_terminations before + rest)
  | _, _ => false
  end.
Definition check_C04_exact (x : gctx) (calls : list call) : bool :=
  if clamp_binds x calls then check_C07_exact x calls && check_up_attempted x calls else true.

(* ---------- well-formed views: node names are unique (a Kubernetes invariant the nodupb-style claims rest on) ---------- *)
Definition wf_ctx (x : gctx) : bool := nodupb (map n_name (x_nodes x)).

(* ---------- all groups of a scan ---------- *)
Definition find_group (s : snapshot) (name : id) : option group_in :=
  find (fun g => o_name (gi_opts g) =? name) (s_groups s).

Definition for_groups (f : gctx -> list call -> bool) (s : snapshot) (obs : list (id * list call)) : bool :=
  forallb (fun nc => match find_group s (fst nc) with Some g => f (mk_ctx s g) (snd nc) | None => false end) obs.

Definition wf_snapshot (s : snapshot) : bool := forallb (fun g => wf_ctx (mk_ctx s g)) (s_groups s).

(* ---------- C05 state anchor: the cached node size is the first listed node's allocatable of the last non-empty scan ---------- *)
Definition cache_pair (c : qty * qty) : Z * Z := (q_milli (fst c), q_value (snd c)).
Definition check_C05_cache (x : gctx) (pre post : gstate) : bool :=
  let want := match x_nodes x with n :: _ => first_alloc n | [] => g_cache pre end in
  pair_eqb Z.eqb Z.eqb (cache_pair (g_cache post)) (cache_pair want).
