(* SpecConfig.v — what property C16 demands of a configuration that passes validation (`safe`, a Prop written by hand
   from the property text, independent of the code), its boolean checker `safe_b` (evaluated on OBSERVED verdicts by
   the correspondence run), the hand-written MODEL of controller.ValidateNodeGroup (`model_rules`, one boolean per
   checkThat in source order), what validation demands beyond `safe`, and the finite key tables.  Definitions only.
   Nothing here depends on the generated file (coq/Generated.v): the model is tied to the code by the correspondence
   run (verdict AND number of problems on every case of the grid) and, as a supplement, by Properties/C16Src.v, which
   proves the rule list re-derived from the source equal to `model_rules`. *)
From Coq Require Import String ZArith List Bool.
From Esc Require Export Base Config.
Import ListNotations.
Open Scope string_scope.
Open Scope Z_scope.

(* ---- the documented sets ---- *)
Definition taint_effects : list string := [""; "NoSchedule"; "NoExecute"; "PreferNoSchedule"].
Definition lifecycles    : list string := [""; "on-demand"; "spot"].

(* max_node_age: empty (feature off) or a Go duration ("0" parses and also switches the feature off) *)
Definition max_node_age_valid (c : cfg) : Prop :=
  d_raw (c_max_node_age c) = "" \/ d_parse (c_max_node_age c) <> None.

(* the grace periods and the cool-down as the controller reads them: through the XDuration() accessors *)
Definition soft_ns (c : cfg) : Z := dur_value (c_soft c).
Definition hard_ns (c : cfg) : Z := dur_value (c_hard c).
Definition cooldown_ns (c : cfg) : Z := dur_value (c_cooldown c).

(* ---- C16, first sentence: every configuration that passes validation is safe to run ---- *)
Definition safe (c : cfg) : Prop :=
  c_name c <> "" /\ c_label_key c <> "" /\ c_label_value c <> "" /\ c_cloud_group c <> "" /\
  (0 < c_lower c /\ c_lower c < c_upper c /\ c_upper c < c_up c) /\
  (0 <= c_slow c /\ c_slow c <= c_fast c) /\
  (0 < soft_ns c /\ soft_ns c < hard_ns c) /\
  0 < cooldown_ns c /\
  ((0 <= c_min c /\ c_min c < c_max c) \/ (c_min c = 0 /\ c_max c = 0)) /\
  In (c_taint_effect c) taint_effects /\
  In (c_lifecycle c) lifecycles /\
  max_node_age_valid c.

(* ---- the same, as a boolean (proved equivalent in proofs/ConfigProofs.v: safe_b_iff) ---- *)
Definition nonempty (s : string) : bool := negb (String.eqb s "").
Definition mem_str (s : string) (l : list string) : bool := existsb (String.eqb s) l.

Definition safe_b (c : cfg) : bool :=
  nonempty (c_name c) && nonempty (c_label_key c) && nonempty (c_label_value c) && nonempty (c_cloud_group c) &&
  ((0 <? c_lower c) && (c_lower c <? c_upper c) && (c_upper c <? c_up c)) &&
  ((0 <=? c_slow c) && (c_slow c <=? c_fast c)) &&
  ((0 <? soft_ns c) && (soft_ns c <? hard_ns c)) &&
  (0 <? cooldown_ns c) &&
  (((0 <=? c_min c) && (c_min c <? c_max c)) || ((c_min c =? 0) && (c_max c =? 0))) &&
  mem_str (c_taint_effect c) taint_effects &&
  mem_str (c_lifecycle c) lifecycles &&
  (String.eqb (d_raw (c_max_node_age c)) "" || dur_parse_ok (c_max_node_age c)).

(* the property's checker on an observation: the implementation ACCEPTED this configuration => it must be safe *)
Definition check_C16 (c : cfg) (accepted : bool) : bool := if accepted then safe_b c else true.
Definition P_C16 (c : cfg) (accepted : bool) : Prop := accepted = true -> safe c.

(* which conjuncts of `safe` fail (for reports): 1 names, 2 thresholds, 3 rates, 4 grace periods, 5 cool-down, 6 min/max,
   7 taint effect, 8 lifecycle, 9 max_node_age *)
Definition unsafe_parts (c : cfg) : list Z :=
  (if nonempty (c_name c) && nonempty (c_label_key c) && nonempty (c_label_value c) && nonempty (c_cloud_group c) then [] else [1]) ++
  (if (0 <? c_lower c) && (c_lower c <? c_upper c) && (c_upper c <? c_up c) then [] else [2]) ++
  (if (0 <=? c_slow c) && (c_slow c <=? c_fast c) then [] else [3]) ++
  (if (0 <? soft_ns c) && (soft_ns c <? hard_ns c) then [] else [4]) ++
  (if 0 <? cooldown_ns c then [] else [5]) ++
  (if ((0 <=? c_min c) && (c_min c <? c_max c)) || ((c_min c =? 0) && (c_max c =? 0)) then [] else [6]) ++
  (if mem_str (c_taint_effect c) taint_effects then [] else [7]) ++
  (if mem_str (c_lifecycle c) lifecycles then [] else [8]) ++
  (if String.eqb (d_raw (c_max_node_age c)) "" || dur_parse_ok (c_max_node_age c) then [] else [9]).

(* ---- what validation demands BEYOND `safe`: the raw text of the three mandatory durations is present.
   (Redundant for any configuration whose `d_parse` really is time.ParseDuration of `d_raw` — the empty string does not
   parse — but the theorems quantify over every parse oracle.) ---- *)
Definition beyond_safe (c : cfg) : Prop :=
  d_raw (c_soft c) <> "" /\ d_raw (c_hard c) <> "" /\ d_raw (c_cooldown c) <> "".

(* ---- C16, second sentence (static half): every documented key is carried by a json tag, except the listed ones ---- *)
Definition known_unhonoured : list string := ["scale_up_cool_down_timeout"].

Definition keys_honoured (documented tags : list string) : bool :=
  forallb (fun k => mem_str k tags || mem_str k known_unhonoured) documented.

(* documented keys that no json tag carries (what `known_unhonoured` has to cover) *)
Definition unhonoured (documented tags : list string) : list string :=
  filter (fun k => negb (mem_str k tags)) documented.

(* rows of a tag table whose yaml name differs from the json name *)
Definition yaml_differs (tbl : list (string * (string * string))) : list (string * (string * string)) :=
  filter (fun r => negb (String.eqb (fst (snd r)) (snd (snd r)))) tbl.

(* ---- the validation MODEL: controller.ValidateNodeGroup, one boolean per checkThat(cond, …), in source order (the
   order matters only for reports; the NUMBER of false rules is compared with the number of problems the real validator
   returns).  Helpers mirror the Go helpers of pkg/controller/node_group.go. ---- *)
(* k8s.TaintEffectTypes (pkg/k8s/taint.go), a map[v1.TaintEffect]bool literal *)
Definition taint_effect_types : list (string * bool) :=
  [("NoExecute", true); ("NoSchedule", true); ("PreferNoSchedule", true)].
(* NodeGroupOptions.autoDiscoverMinMaxNodeOptions: both left at 0 = "discover them from the cloud provider" *)
Definition auto_discover_min_max (c : cfg) : bool := (c_min c =? 0) && (c_max c =? 0).
(* validTaintEffect: empty (AddToBeRemovedTaint then defaults to NoSchedule) or a key of TaintEffectTypes *)
Definition valid_taint_effect (e : string) : bool := (slen e =? 0) || str_map_get taint_effect_types e.
(* validAWSLifecycle: empty, aws.LifecycleOnDemand or aws.LifecycleSpot (exact, case-sensitive comparison) *)
Definition valid_aws_lifecycle (l : string) : bool := (slen l =? 0) || String.eqb l "on-demand" || String.eqb l "spot".
(* validMaxNodeAgeDuration: empty or accepted by time.ParseDuration (negative values included) *)
Definition valid_max_node_age (d : dur) : bool := String.eqb (d_raw d) "" || dur_parse_ok d.

Definition model_rules : list (cfg -> bool) := [
  (fun c => 0 <? slen (c_name c));
  (fun c => 0 <? slen (c_label_key c));
  (fun c => 0 <? slen (c_label_value c));
  (fun c => 0 <? slen (c_cloud_group c));
  (fun c => 0 <? c_upper c);
  (fun c => 0 <? c_lower c);
  (fun c => 0 <? c_up c);
  (fun c => c_lower c <? c_upper c);
  (fun c => c_upper c <? c_up c);
  (fun c => implb (negb (auto_discover_min_max c)) (c_min c <? c_max c));
  (fun c => implb (negb (auto_discover_min_max c)) (0 <? c_max c));
  (fun c => implb (negb (auto_discover_min_max c)) (0 <=? c_min c));
  (fun c => 0 <=? c_slow c);
  (fun c => c_slow c <=? c_fast c);
  (fun c => 0 <? slen (d_raw (c_soft c)));
  (fun c => 0 <? slen (d_raw (c_hard c)));
  (fun c => 0 <? dur_value (c_soft c));
  (fun c => 0 <? dur_value (c_hard c));
  (fun c => dur_value (c_soft c) <? dur_value (c_hard c));
  (fun c => 0 <? slen (d_raw (c_cooldown c)));
  (fun c => 0 <? dur_value (c_cooldown c));
  (fun c => valid_taint_effect (c_taint_effect c));
  (fun c => valid_aws_lifecycle (c_lifecycle c));
  (fun c => valid_max_node_age (c_max_node_age c))
].

(* what each rule stands for in pkg/controller/node_group.go, in the same order (for reports only; hand-written) *)
Definition model_rule_src : list string := [
  "name not empty";
  "label_key not empty";
  "label_value not empty";
  "cloud_provider_group_name not empty";
  "taint_upper_capacity_threshold_percent > 0";
  "taint_lower_capacity_threshold_percent > 0";
  "scale_up_threshold_percent > 0";
  "taint_lower_capacity_threshold_percent < taint_upper_capacity_threshold_percent";
  "taint_upper_capacity_threshold_percent < scale_up_threshold_percent";
  "unless min_nodes = max_nodes = 0: min_nodes < max_nodes";
  "unless min_nodes = max_nodes = 0: max_nodes > 0";
  "unless min_nodes = max_nodes = 0: min_nodes >= 0";
  "slow_node_removal_rate >= 0";
  "slow_node_removal_rate <= fast_node_removal_rate";
  "soft_delete_grace_period not empty";
  "hard_delete_grace_period not empty";
  "SoftDeleteGracePeriodDuration() > 0";
  "HardDeleteGracePeriodDuration() > 0";
  "SoftDeleteGracePeriodDuration() < HardDeleteGracePeriodDuration()";
  "scale_up_cool_down_period not empty";
  "ScaleUpCoolDownPeriodDuration() > 0";
  "validTaintEffect(taint_effect)";
  "validAWSLifecycle(aws.lifecycle)";
  "validMaxNodeAgeDuration(max_node_age)"
].

Definition model_validate (c : cfg) : bool := forallb (fun r => r c) model_rules.

(* ---- number of problems ValidateNodeGroup reports = number of rules that are false ---- *)
Definition problems_of (rules : list (cfg -> bool)) (c : cfg) : Z := Z.of_nat (length (filter (fun r => negb (r c)) rules)).
Definition model_problems (c : cfg) : Z := problems_of model_rules c.
