(* SpecConfig.v — what property C16 demands of a configuration that passes validation (`safe`, a Prop written by hand
   from the property text, independent of the code), its boolean checker `safe_b` (evaluated on OBSERVED verdicts by
   the correspondence run), what validation demands beyond `safe`, and the finite key tables.  Definitions only. *)
From Coq Require Import String ZArith List Bool.
From Esc Require Export Base Config Generated.
Import ListNotations.
Open Scope string_scope.
Open Scope Z_scope.

(* ---- the documented sets ---- *)
Definition taint_effects : list string := [""; "NoSchedule"; "NoExecute"; "PreferNoSchedule"].
Definition lifecycles    : list string := [""; "on-demand"; "spot"].

(* max_node_age: empty (feature off) or a Go duration ("0" parses and also switches the feature off) *)
Definition max_node_age_valid (c : cfg) : Prop :=
  d_raw (c_max_node_age c) = "" \/ d_parse (c_max_node_age c) <> None.

(* the grace periods and the cool-down as the controller reads them: through the XDuration() accessors *)
Definition soft_ns (c : cfg) : Z := dur_value (c_soft c).
Definition hard_ns (c : cfg) : Z := dur_value (c_hard c).
Definition cooldown_ns (c : cfg) : Z := dur_value (c_cooldown c).

(* ---- C16, first sentence: every configuration that passes validation is safe to run ---- *)
Definition safe (c : cfg) : Prop :=
  c_name c <> "" /\ c_label_key c <> "" /\ c_label_value c <> "" /\ c_cloud_group c <> "" /\
  (0 < c_lower c /\ c_lower c < c_upper c /\ c_upper c < c_up c) /\
  (0 <= c_slow c /\ c_slow c <= c_fast c) /\
  (0 < soft_ns c /\ soft_ns c < hard_ns c) /\
  0 < cooldown_ns c /\
  ((0 <= c_min c /\ c_min c < c_max c) \/ (c_min c = 0 /\ c_max c = 0)) /\
  In (c_taint_effect c) taint_effects /\
  In (c_lifecycle c) lifecycles /\
  max_node_age_valid c.

(* ---- the same, as a boolean (proved equivalent in proofs/ConfigProofs.v: safe_b_iff) ---- *)
Definition nonempty (s : string) : bool := negb (String.eqb s "").
Definition mem_str (s : string) (l : list string) : bool := existsb (String.eqb s) l.

Definition safe_b (c : cfg) : bool :=
  nonempty (c_name c) && nonempty (c_label_key c) && nonempty (c_label_value c) && nonempty (c_cloud_group c) &&
  ((0 <? c_lower c) && (c_lower c <? c_upper c) && (c_upper c <? c_up c)) &&
  ((0 <=? c_slow c) && (c_slow c <=? c_fast c)) &&
  ((0 <? soft_ns c) && (soft_ns c <? hard_ns c)) &&
  (0 <? cooldown_ns c) &&
  (((0 <=? c_min c) && (c_min c <? c_max c)) || ((c_min c =? 0) && (c_max c =? 0))) &&
  mem_str (c_taint_effect c) taint_effects &&
  mem_str (c_lifecycle c) lifecycles &&
  (String.eqb (d_raw (c_max_node_age c)) "" || dur_parse_ok (c_max_node_age c)).

(* the property's checker on an observation: the implementation ACCEPTED this configuration => it must be safe *)
Definition check_C16 (c : cfg) (accepted : bool) : bool := if accepted then safe_b c else true.
Definition P_C16 (c : cfg) (accepted : bool) : Prop := accepted = true -> safe c.

(* which conjuncts of `safe` fail (for reports): 1 names, 2 thresholds, 3 rates, 4 grace periods, 5 cool-down, 6 min/max,
   7 taint effect, 8 lifecycle, 9 max_node_age *)
Definition unsafe_parts (c : cfg) : list Z :=
  (if nonempty (c_name c) && nonempty (c_label_key c) && nonempty (c_label_value c) && nonempty (c_cloud_group c) then [] else [1]) ++
  (if (0 <? c_lower c) && (c_lower c <? c_upper c) && (c_upper c <? c_up c) then [] else [2]) ++
  (if (0 <=? c_slow c) && (c_slow c <=? c_fast c) then [] else [3]) ++
  (if (0 <? soft_ns c) && (soft_ns c <? hard_ns c) then [] else [4]) ++
  (if 0 <? cooldown_ns c then [] else [5]) ++
  (if ((0 <=? c_min c) && (c_min c <? c_max c)) || ((c_min c =? 0) && (c_max c =? 0)) then [] else [6]) ++
  (if mem_str (c_taint_effect c) taint_effects then [] else [7]) ++
  (if mem_str (c_lifecycle c) lifecycles then [] else [8]) ++
  (if String.eqb (d_raw (c_max_node_age c)) "" || dur_parse_ok (c_max_node_age c) then [] else [9]).

(* ---- what validation demands BEYOND `safe`: the raw text of the three mandatory durations is present.
   (Redundant for any configuration whose `d_parse` really is time.ParseDuration of `d_raw` — the empty string does not
   parse — but the theorems quantify over every parse oracle.) ---- *)
Definition beyond_safe (c : cfg) : Prop :=
  d_raw (c_soft c) <> "" /\ d_raw (c_hard c) <> "" /\ d_raw (c_cooldown c) <> "".

(* ---- C16, second sentence (static half): every documented key is carried by a json tag, except the listed ones ---- *)
Definition known_unhonoured : list string := ["scale_up_cool_down_timeout"].

Definition keys_honoured (documented tags : list string) : bool :=
  forallb (fun k => mem_str k tags || mem_str k known_unhonoured) documented.

(* documented keys that no json tag carries (what `known_unhonoured` has to cover) *)
Definition unhonoured (documented tags : list string) : list string :=
  filter (fun k => negb (mem_str k tags)) documented.

(* rows of a tag table whose yaml name differs from the json name *)
Definition yaml_differs (tbl : list (string * (string * string))) : list (string * (string * string)) :=
  filter (fun r => negb (String.eqb (fst (snd r)) (snd (snd r)))) tbl.

(* ---- number of problems ValidateNodeGroup reports = number of rules that are false ---- *)
Definition gen_problems (c : cfg) : Z := Z.of_nat (length (filter (fun r => negb (r c)) gen_rules)).
