(* CorrAws.v — correspondence records for the aws engine (C17, C18, C19 provider part). *)
From Esc Require Export SpecAws.

Inductive aws_op := OpIncrease (d : Z) | OpDelete (nodes : list node) | OpGetInstance (pid : bytes) (ok : bool).

Record aws_case := {
  ac_asg : asg; ac_op : aws_op; ac_orc : aorc;
  ac_obs_calls : list acall;     (* recorded calls, in order (readiness polls are not recorded) *)
  ac_obs_class : Z;              (* 0 ok | 1 error | 2 exit / not-in-group | 3 panic *)
  ac_obs_tries : Z;              (* the node group's clean-up counter afterwards *)
  ac_obs_desired : Z             (* the provider's cached desired capacity afterwards *)
}.

Definition aws_model (c : aws_case) : list acall * Z * Z * Z :=
  match ac_op c with
  | OpIncrease d => let '(calls, r, a') := aws_increase (ac_asg c) d (ac_orc c) in (calls, inc_class r, a_tries a', a_desired a')
  | OpDelete nodes => let '(calls, r, a') := aws_delete_nodes (ac_asg c) nodes (ao_terminasg_fail (ac_orc c)) in
                      (calls, del_class r, a_tries a', a_desired a')
  | OpGetInstance pid ok => (match get_instance_call pid ok with
                             | Some call => ([call], if ok then 0 else 1)
                             | None => ([], 1) end, a_tries (ac_asg c), a_desired (ac_asg c))
  end.

Definition aws_obs (c : aws_case) : list acall * Z * Z * Z := (ac_obs_calls c, ac_obs_class c, ac_obs_tries c, ac_obs_desired c).

(* what the provider DID is compared (requests that change the cloud, in order), with the result class and the provider's memory;
   read-only calls (DescribeAutoScalingGroups, DescribeInstances) are judged by the property checkers where they matter *)
Definition aws_eqb (x y : list acall * Z * Z * Z) : bool :=
  let '(c1, r1, t1, d1) := x in let '(c2, r2, t2, d2) := y in
  list_eqb acall_eqb (filter acall_is_write c1) (filter acall_is_write c2) && (r1 =? r2) && (t1 =? t2) && (d1 =? d2).

Definition is_increase (c : aws_case) : bool := match ac_op c with OpIncrease _ => true | _ => false end.
Definition is_delete (c : aws_case) : bool := match ac_op c with OpDelete _ => true | _ => false end.

(* the whole observable behaviour is compared for every case of the engine *)
Definition mismatches_aws (cs : list aws_case) : list nat :=
  indices_where (fun c => negb (aws_eqb (aws_model c) (aws_obs c))) cs 0.

Definition propfail_C17 (cs : list aws_case) : list nat :=
  indices_where (fun c => match ac_op c with
                          | OpIncrease d => negb (check_C17 (ac_asg c) d (ac_orc c) (ac_obs_calls c) (ac_obs_class c))
                          | _ => false end) cs 0.
Definition propfail_C18 (cs : list aws_case) : list nat :=
  indices_where (fun c => match ac_op c with
                          | OpIncrease d => negb (check_C18 (ac_asg c) d (ac_orc c) (ac_obs_calls c) (ac_obs_class c))
                          | _ => false end) cs 0.
Definition propfail_C19 (cs : list aws_case) : list nat :=
  indices_where (fun c => match ac_op c with
                          | OpDelete nodes => negb (check_C19 (ac_asg c) nodes (ac_obs_calls c) (ac_obs_class c))
                          | _ => false end) cs 0.

(* model-branch coverage: which return of aws_increase / aws_delete_nodes each case takes *)
Definition inc_tag (r : inc_result) : Z :=
  match r with
  | IncOk => 0 | IncExit => 1
  | IncErr e => match e with ENonPositive => 2 | EBreachMax => 3 | ESetDesired => 4 | EDescribe => 5 | ENoGroup => 6
                           | ENoSubnets => 7 | ECreateFleet => 8 | EFleetErrors => 9 | ENotReady => 10 | EAttach => 11 | EFuel => 12 end
  end.
Definition del_tag (r : del_result) : Z :=
  match r with DelOk => 13 | DelErrMin => 14 | DelErrBreach => 15 | DelNotInGroup _ => 16 | DelErrTerm => 17 | DelNoInstance => 18 end.
Definition aws_tag (c : aws_case) : Z :=
  match ac_op c with
  | OpIncrease d => let '(_, r, _) := aws_increase (ac_asg c) d (ac_orc c) in inc_tag r
  | OpDelete nodes => let '(_, r, _) := aws_delete_nodes (ac_asg c) nodes (ao_terminasg_fail (ac_orc c)) in del_tag r
  | OpGetInstance pid ok => match get_instance_call pid ok with Some _ => 19 | None => 20 end
  end.
Definition tags_aws (cs : list aws_case) : list Z :=
  map (fun k => count_occ_b (fun c => aws_tag c =? k) cs) [0;1;2;3;4;5;6;7;8;9;10;11;12;13;14;15;16;17;18;19;20].

Definition explain_aws (c : aws_case) := (aws_model c, aws_obs c).
