(* CorrFilter.v — correspondence records for the filter engine (C14). *)
From Esc Require Export SpecFilter.

Record filter_case := { fc_k : id; fc_v : id; fc_pod : pod; fc_node : node; fc_obs : bool * bool * bool }.

Definition model_C14 (c : filter_case) : bool * bool * bool :=
  (pod_in_group (fc_k c) (fc_v c) (fc_pod c), pod_in_default (fc_pod c), node_in_group (fc_k c) (fc_v c) (fc_node c)).

Definition obs3_eqb (a b : bool * bool * bool) : bool :=
  let '(a1, a2, a3) := a in let '(b1, b2, b3) := b in Bool.eqb a1 b1 && Bool.eqb a2 b2 && Bool.eqb a3 b3.

Definition mismatches_C14 (cs : list filter_case) : list nat :=
  indices_where (fun c => negb (obs3_eqb (model_C14 c) (fc_obs c))) cs 0.

Definition propfail_C14 (cs : list filter_case) : list nat :=
  indices_where (fun c => negb (check_C14 (fc_k c) (fc_v c) (fc_pod c) (fc_node c) (fc_obs c))) cs 0.

(* coverage: how many cases fall in each of the 8 answer classes *)
Definition class_C14 (c : filter_case) : Z :=
  let '(g, d, b) := model_C14 c in (if g then 4 else 0) + (if d then 2 else 0) + (if b then 1 else 0).
Definition tags_C14 (cs : list filter_case) : list Z :=
  map (fun k => count_occ_b (fun c => class_C14 c =? k) cs) [0;1;2;3;4;5;6;7].

(* model answers vs observed answers, for reports *)
Definition explain_C14 (c : filter_case) : (bool * bool * bool) * (bool * bool * bool) := (model_C14 c, fc_obs c).
