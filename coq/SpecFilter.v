(* SpecFilter.v — C14: the documented attribution rules as Prop statements and boolean checkers. *)
From Esc Require Export K8s.

(* "its nodeSelector maps the group's label key to its label value" *)
Definition selector_maps (k v : id) (p : pod) : Prop := assoc k (p_selector p) = Some v.

(* "one of its required node-affinity match expressions on that key uses operator In and lists that value" *)
Definition affinity_lists (k v : id) (p : pod) : Prop :=
  exists t e, In t (required_terms p) /\ In e (st_exprs t) /\ e_key e = k /\ e_op e = id_In /\ In v (e_vals e).

Definition daemonset_owned (p : pod) : Prop := In id_DaemonSet (p_owners p).
Definition static_pod (p : pod) : Prop := assoc id_cfgsrc (p_annots p) = Some id_file.

Definition no_affinity_rules (p : pod) : Prop :=
  match p_affinity p with
  | None => True
  | Some a => af_node a = None /\ af_pod a = false /\ af_anti a = false
  end.

Definition counts_toward_group (k v : id) (p : pod) : Prop :=
  ~ daemonset_owned p /\ (selector_maps k v p \/ affinity_lists k v p).

Definition counts_toward_default (p : pod) : Prop :=
  ~ daemonset_owned p /\ ~ static_pod p /\ p_selector p = [] /\ no_affinity_rules p.

Definition node_belongs (k v : id) (n : node) : Prop := assoc k (n_labels n) = Some v.

(* the property, for observed answers (g, d, b) of the three filters *)
Definition P_C14 (k v : id) (p : pod) (n : node) (obs : bool * bool * bool) : Prop :=
  let '(g, d, b) := obs in
  (g = true <-> counts_toward_group k v p) /\
  (d = true <-> counts_toward_default p) /\
  (b = true <-> node_belongs k v n).

(* boolean checker: decides P_C14 (proved in proofs/FilterProofs.v) *)
Definition check_C14 (k v : id) (p : pod) (n : node) (obs : bool * bool * bool) : bool :=
  let '(g, d, b) := obs in
  Bool.eqb g (pod_in_group k v p) && Bool.eqb d (pod_in_default p) && Bool.eqb b (node_in_group k v n).
