(* CorrConfig.v — correspondence records for the config engine (C16).
   A case is one configuration together with what the REAL controller.ValidateNodeGroup did with it: the number of
   problems it returned (accepted = 0 problems).  Depends on the hand-written validation model and the spec only (SpecConfig.v) — not on
   any proof and not on coq/Generated.v — so it evaluates whatever the source looks like. *)
From Coq Require Import String ZArith List Bool.
From Esc Require Export SpecConfig.
Import ListNotations.
Open Scope string_scope.
Open Scope Z_scope.

Record config_case := { cc_cfg : cfg; cc_errors : Z }.

Definition cc_accepted (k : config_case) : bool := cc_errors k =? 0.

(* model: the hand-written rule list evaluated on the configuration: (accepted?, number of problems) *)
Definition model_C16 (k : config_case) : bool * Z := (model_validate (cc_cfg k), model_problems (cc_cfg k)).
Definition obs_C16 (k : config_case) : bool * Z := (cc_accepted k, cc_errors k).

Definition mismatches_C16 (cs : list config_case) : list nat :=
  indices_where (fun k => negb (Bool.eqb (fst (model_C16 k)) (fst (obs_C16 k)) && (snd (model_C16 k) =? snd (obs_C16 k)))) cs 0.

(* the property's own checker on the OBSERVED verdict: accepted by the implementation but not safe *)
Definition propfail_C16 (cs : list config_case) : list nat :=
  indices_where (fun k => negb (check_C16 (cc_cfg k) (cc_accepted k))) cs 0.

(* coverage: [accepted&safe; accepted&unsafe; rejected&safe; rejected&unsafe; cases failing `safe` part 1..9;
              cases with 0 / 1 / 2 / 3+ problems (model)] *)
Definition tags_C16 (cs : list config_case) : list Z :=
  [ count_occ_b (fun k => cc_accepted k && safe_b (cc_cfg k)) cs;
    count_occ_b (fun k => cc_accepted k && negb (safe_b (cc_cfg k))) cs;
    count_occ_b (fun k => negb (cc_accepted k) && safe_b (cc_cfg k)) cs;
    count_occ_b (fun k => negb (cc_accepted k) && negb (safe_b (cc_cfg k))) cs ] ++
  map (fun p => count_occ_b (fun k => mem_id p (unsafe_parts (cc_cfg k))) cs) [1;2;3;4;5;6;7;8;9] ++
  [ count_occ_b (fun k => model_problems (cc_cfg k) =? 0) cs;
    count_occ_b (fun k => model_problems (cc_cfg k) =? 1) cs;
    count_occ_b (fun k => model_problems (cc_cfg k) =? 2) cs;
    count_occ_b (fun k => 3 <=? model_problems (cc_cfg k)) cs ].

(* per rule of the model: in how many cases it is false (every rule should be exercised) *)
Definition rule_fail_counts_C16 (cs : list config_case) : list Z :=
  map (fun r => count_occ_b (fun k => negb (r (cc_cfg k))) cs) model_rules.

(* for reports: model verdict, what the rules the model finds false stand for, observed problem count, failing parts of `safe` *)
Fixpoint select_src (bs : list bool) (srcs : list string) : list string :=
  match bs, srcs with
  | b :: bs', s :: srcs' => if b then select_src bs' srcs' else s :: select_src bs' srcs'
  | _, _ => []
  end.
Definition explain_C16 (k : config_case) : (bool * Z * list string) * (bool * Z) * list Z :=
  ((model_validate (cc_cfg k), model_problems (cc_cfg k), select_src (map (fun r => r (cc_cfg k)) model_rules) model_rule_src),
   obs_C16 k, unsafe_parts (cc_cfg k)).
