(* aws.go DeleteNodes, its two refusals, as translated on this run, are the guards of the model's aws_delete_nodes. *)
From Esc Require Import GeneratedCtl proofs.GenCtlAgree.
Open Scope Z_scope.

Theorem gen_DeleteNodes_guard_agree : forall a nodes fails,
  match gen_DeleteNodes_guard a nodes with
  | GRet [GE true] => exists er, aws_delete_nodes a nodes fails = ([], er, a) /\ (er = DelErrMin \/ er = DelErrBreach)
  | GFall [] => a_min a < a_desired a /\ a_min a <= a_desired a - zlen nodes /\ aws_delete_nodes a nodes fails = delete_loop a nodes fails
  | _ => False
  end.
Proof.
  intros. unfold gen_DeleteNodes_guard, aws_delete_nodes.
  repeat cmp_case; try lia;
    first [ solve [eexists; split; [reflexivity|]; auto] | solve [repeat split; first [lia | reflexivity]] ].
Qed.

Corollary gen_DeleteNodes_guard_iff : forall a nodes,
  gen_DeleteNodes_guard a nodes = GRet [GE true] <-> (a_desired a <= a_min a \/ a_desired a - zlen nodes < a_min a).
Proof. intros. unfold gen_DeleteNodes_guard. repeat cmp_case; split; intros; try discriminate; try lia; reflexivity. Qed.
