(* controller.go isScaleOnStarve, as translated on this run, is the model's scale_on_starve. *)
From Esc Require Import GeneratedCtl proofs.GenCtlAgree.
Open Scope Z_scope.

Theorem gen_isScaleOnStarve_agree : forall o maxn u k untainted,
  gen_isScaleOnStarve o maxn u k untainted = scale_on_starve o maxn u k untainted.
Proof. intros. unfold gen_isScaleOnStarve, scale_on_starve, res_empty. agree. Qed.
