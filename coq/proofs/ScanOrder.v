(* ScanOrder.v — C19 (controller part): Kubernetes deletes come only after the cloud accepted the termination of the
   whole batch; C20: how a scan can end. *)
From Esc Require Import SpecScan SpecAws proofs.BaseProofs proofs.AwsProofs proofs.ScanLemmas proofs.ScanChecks proofs.ScanState proofs.ScanTaint.

(* ---------- TryDeleteNodes, exactly ---------- *)
(* the cloud batch is attempted first; Node deletes are issued only when the provider returned success for the whole
   batch — then every candidate's instance was terminated, with decrement, each call accepted — and they name exactly
   the candidates, in order, stopping at the first failed delete *)
Theorem try_delete_order e g cands calls err a' :
  try_delete_nodes e (Some g) cands = (calls, err, a') ->
  exists ac kc, calls = liftA ac ++ liftK kc /\
    (forall c, In c ac -> exists inst ok, c = ATermInAsg inst true ok) /\
    (kc <> [] ->
       cands <> [] /\
       aws_delete_nodes g cands (ao_terminasg_fail (e_aorc e)) = (ac, DelOk, match a' with Some g' => g' | None => g end) /\
       length ac = length cands /\ (forall c, In c ac -> exists inst, c = ATermInAsg inst true true) /\
       exists k, map (fun c => match c with KDelete n _ => n | KGet n _ => n | KUpdate n _ _ => n end) kc = firstn k (map n_name cands) /\
                 forall c, In c kc -> exists n ok, c = KDelete n ok).
Proof.
  unfold try_delete_nodes. destruct cands as [|c0 cs] eqn:Ec.
  { intros H; inversion H; subst. exists [], []. splits; [reflexivity | intros c [] | congruence]. }
  rewrite <- Ec.
  destruct (aws_delete_nodes g cands (ao_terminasg_fail (e_aorc e))) as [[ac r] g'] eqn:Ed.
  destruct (aws_delete_nodes_calls _ _ _ _ _ _ Ed) as [_ [_ Hcalls]].
  assert (Hterm : forall c, In c ac -> exists inst ok, c = ATermInAsg inst true ok).
  { intros c Hc. destruct (Hcalls c Hc) as (n & i & ok & _ & _ & ->). eauto. }
  destruct r; try (intros H; inversion H; subst; exists ac, []; rewrite app_nil_r; splits; [reflexivity | exact Hterm | congruence]).
  destruct (delete_nodes (e_korc e) (map n_name cands)) as [kc ok] eqn:Ek.
  intros H; inversion H; subst calls err a'. exists ac, kc. splits; [reflexivity | exact Hterm |].
  intros _. splits.
  - rewrite Ec. discriminate.
  - reflexivity.
  - (* DelOk: the loop went through the whole list, every call accepted *)
    unfold aws_delete_nodes in Ed. destruct (a_desired g <=? a_min g); [discriminate|]. destruct (a_desired g - zlen cands <? a_min g); [discriminate|].
    clear -Ed. revert g ac g' Ed. induction cands as [|n rest IH]; intros g ac g' Ed; simpl in Ed; [inversion Ed; reflexivity|].
    destruct (belongs g (n_pid n)); cbn [negb] in Ed; [|discriminate]. destruct (backing_instance g (n_pid n)) as [i|]; [|discriminate].
    destruct (mem_bytes (i_id i) (ao_terminasg_fail (e_aorc e))); [discriminate|].
    destruct (delete_loop (set_desired g (a_desired g - 1)) rest (ao_terminasg_fail (e_aorc e))) as [[c1 r1] g1] eqn:E1.
    inversion Ed; subst. simpl. f_equal. eapply IH. exact E1.
  - unfold aws_delete_nodes in Ed. destruct (a_desired g <=? a_min g); [discriminate|]. destruct (a_desired g - zlen cands <? a_min g); [discriminate|].
    clear -Ed. revert g ac g' Ed. induction cands as [|n rest IH]; intros g ac g' Ed; simpl in Ed; [inversion Ed; intros c []|].
    destruct (belongs g (n_pid n)); cbn [negb] in Ed; [|discriminate]. destruct (backing_instance g (n_pid n)) as [i|]; [|discriminate].
    destruct (mem_bytes (i_id i) (ao_terminasg_fail (e_aorc e))); [discriminate|].
    destruct (delete_loop (set_desired g (a_desired g - 1)) rest (ao_terminasg_fail (e_aorc e))) as [[c1 r1] g1] eqn:E1.
    inversion Ed; subst. intros c [<-|Hc]; [eauto | eapply IH; eauto].
  - clear -Ek. revert kc ok Ek. induction (map n_name cands) as [|m names IH]; intros kc ok Ek; simpl in Ek.
    + inversion Ek; subst. exists 0%nat. split; [reflexivity | intros c []].
    + destruct (mem_id m (ko_delete_fail (e_korc e))).
      * inversion Ek; subst. exists 1%nat. split; [reflexivity | intros c [<-|[]]; eauto].
      * destruct (delete_nodes (e_korc e) names) as [kc0 ok0] eqn:E0. inversion Ek; subst.
        destruct (IH _ _ eq_refl) as [k [Hk1 Hk2]]. exists (S k). split; [simpl; rewrite Hk1; reflexivity|].
        intros c [<-|Hc]; [eauto | apply Hk2; exact Hc].
Qed.

(* ---------- how a group's scan can end ---------- *)
Lemma scale_up_out e o mx dry st a tainted want :
  let r := scale_up e o mx dry st a tainted want in
  up_out r <> OutFatal /\
  (up_out r = OutExit -> exists g d, a = Some g /\ dry = false /\ snd (fst (aws_increase g d (e_aorc e))) = IncExit).
Proof.
  unfold scale_up. destruct (match tainted with [] => _ | _ => _ end) as [[ucalls ucount] tr].
  destruct (0 <? want - ucount); [|simpl; split; [discriminate | discriminate]].
  destruct a as [g|]; [|simpl; split; discriminate].
  destruct (nodes_to_add _ _ _ <=? 0); [simpl; split; discriminate|].
  destruct dry; [simpl; split; discriminate|].
  destruct (aws_increase g _ (e_aorc e)) as [[ac r] g'] eqn:Ei. destruct r; simpl; split; try discriminate.
  intros _. eexists g, _. rewrite Ei. auto.
Qed.

(* a fatal end of scan_act stems from a tainted, grace-expired candidate that is not an instance of the cloud group;
   an exit from the third consecutive fleet clean-up *)
Theorem scan_act_out e o mn mx dry st2 a pods unt tainted forced lag tg us cap d0 fz :
  let r := scan_act e o mn mx dry st2 a pods unt tainted forced lag tg us cap d0 fz in
  (r_out r = OutFatal -> exists g1 n, oasg_rel a (Some g1) /\ In n (reap_candidates e o dry pods tainted) /\ belongs g1 (n_pid n) = false) /\
  (r_out r = OutExit -> exists g d, oasg_rel a (Some g) /\ dry = false /\ snd (fst (aws_increase g d (e_aorc e))) = IncExit).
Proof.
  unfold scan_act.
  destruct (try_delete_nodes e a (force_candidates dry pods forced)) as [[fcalls ferr] a1] eqn:Ef.
  destruct (try_delete_nodes_calls _ _ _ _ _ _ Ef) as [Hrel1 _].
  set (d2 := if scale_on_max_age e o mn unt tainted then _ else _).
  assert (Hreap : forall rcalls a2, try_delete_nodes e a1 (reap_candidates e o dry pods tainted) = (rcalls, Some ErrNotInGroup, a2) ->
            exists g1 n, oasg_rel a (Some g1) /\ In n (reap_candidates e o dry pods tainted) /\ belongs g1 (n_pid n) = false).
  { intros rcalls a2 Er. destruct (try_delete_notingroup _ _ _ _ _ Er) as (g1 & n & -> & Hn & Hb). exists g1, n. auto. }
  destruct (d2 <? 0).
  - destruct (try_delete_nodes e a1 (reap_candidates e o dry pods tainted)) as [[rcalls rerr] a2] eqn:Er.
    destruct (scale_down_taint e o mn dry st2 unt (- d2)) as [[tcalls terr] st3].
    destruct rerr as [[|]|]; simpl; split; try discriminate. intros _. eapply Hreap; reflexivity.
  - destruct (0 <? d2).
    + pose proof (scale_up_out e o mx dry st2 a1 tainted d2) as [Hu1 Hu2]. cbv zeta in Hu1, Hu2.
      destruct (up_out (scale_up e o mx dry st2 a1 tainted d2)) eqn:Eo; simpl; split; try discriminate.
      intros _. destruct (Hu2 eq_refl) as (g & d & -> & Hd & Hi). exists g, d. auto.
    + destruct (try_delete_nodes e a1 (reap_candidates e o dry pods tainted)) as [[rcalls rerr] a2] eqn:Er.
      destruct rerr as [[|]|]; simpl; split; try discriminate. intros _. eapply Hreap; reflexivity.
Qed.

Theorem scan_group_out e o mn mx st a all_nodes all_pods :
  let r := scan_group e o mn mx st a all_nodes all_pods in
  let dry := e_dry e || o_dry o in
  let nodes := group_nodes o all_nodes in
  let st1 := match nodes with n :: _ => with_cache st (first_alloc n) | [] => st end in
  let cls := filter_nodes dry st1 nodes in
  (r_out r = OutFatal -> exists g1 n, oasg_rel a (Some g1) /\ In n (reap_candidates e o dry (group_pods o all_pods) (c_tainted cls)) /\ belongs g1 (n_pid n) = false) /\
  (r_out r = OutExit -> exists g d, oasg_rel a (Some g) /\ dry = false /\ snd (fst (aws_increase g d (e_aorc e))) = IncExit).
Proof.
  intros r dry nodes st1 cls. subst r.
  apply (scan_group_frame (fun r =>
    (r_out r = OutFatal -> exists g1 n, oasg_rel a (Some g1) /\ In n (reap_candidates e o dry (group_pods o all_pods) (c_tainted cls)) /\ belongs g1 (n_pid n) = false) /\
    (r_out r = OutExit -> exists g d, oasg_rel a (Some g) /\ dry = false /\ snd (fst (aws_increase g d (e_aorc e))) = IncExit))).
  - intros Hr tags out ret st' [-> | ->]; simpl; split; discriminate.
  - intros _ _ _ tags. cbv zeta. simpl.
    pose proof (scale_up_out e o mx dry (with_lock st1 (snd (lock_check (g_lock st1) (e_now e) (o_cool o)))) a (c_tainted cls) (mn - zlen (c_untainted cls))) as [H1 H2].
    cbv zeta in H1, H2. split; [intros H; contradiction|].
    intros H. destruct (H2 H) as (g & d & -> & Hd & Hi). exists g, d. splits; auto. apply asg_rel_refl.
  - intros _ _ _ _ cpuP memP _. split.
    + intros tags d _. simpl. split; discriminate.
    + intros tags d0 _. apply scan_act_out.
Qed.
