(* ScanOrder.v — C19 (controller part): Kubernetes deletes come only after the cloud accepted the termination of the
   whole batch; C20: how a scan can end. *)
From Esc Require Import SpecScan SpecAws proofs.BaseProofs proofs.AwsProofs proofs.ScanLemmas proofs.ScanChecks proofs.ScanState proofs.ScanTaint.

(* ---------- TryDeleteNodes, exactly ---------- *)
(* the cloud batch is attempted first; Node deletes are issued only when the provider returned success for the whole
   batch — then every candidate's instance was terminated, with decrement, each call accepted — and they name exactly
   the candidates, in order, stopping at the first failed delete *)
Theorem try_delete_order e g cands calls err a' :
  try_delete_nodes e (Some g) cands = (calls, err, a') ->
  exists ac kc, calls = liftA ac ++ liftK kc /\
    (forall c, In c ac -> exists inst ok, c = ATermInAsg inst true ok) /\
    (kc <> [] ->
       cands <> [] /\
       aws_delete_nodes g cands (ao_terminasg_fail (e_aorc e)) = (ac, DelOk, match a' with Some g' => g' | None => g end) /\
       length ac = length cands /\ (forall c, In c ac -> exists inst, c = ATermInAsg inst true true) /\
       exists k, map (fun c => match c with KDelete n _ => n | KGet n _ => n | KUpdate n _ _ => n end) kc = firstn k (map n_name cands) /\
                 forall c, In c kc -> exists n ok, c = KDelete n ok).
Proof.
  unfold try_delete_nodes. destruct cands as [|c0 cs] eqn:Ec.
  { intros H; inversion H; subst. exists [], []. splits; [reflexivity | intros c [] | congruence]. }
  rewrite <- Ec.
  destruct (aws_delete_nodes g cands (ao_terminasg_fail (e_aorc e))) as [[ac r] g'] eqn:Ed.
  destruct (aws_delete_nodes_calls _ _ _ _ _ _ Ed) as [_ [_ Hcalls]].
  assert (Hterm : forall c, In c ac -> exists inst ok, c = ATermInAsg inst true ok).
  { intros c Hc. destruct (Hcalls c Hc) as (n & i & ok & _ & _ & ->). eauto. }
  destruct r; try (intros H; inversion H; subst; exists ac, []; rewrite app_nil_r; splits; [reflexivity | exact Hterm | congruence]).
  destruct (delete_nodes (e_korc e) (map n_name cands)) as [kc ok] eqn:Ek.
  intros H; inversion H; subst calls err a'. exists ac, kc. splits; [reflexivity | exact Hterm |].
  intros _. splits.
  - rewrite Ec. discriminate.
  - reflexivity.
  - (* DelOk: the loop went through the whole list, every call accepted *)
    unfold aws_delete_nodes in Ed. destruct (a_desired g <=? a_min g); [discriminate|]. destruct (a_desired g - zlen cands <? a_min g); [discriminate|].
    clear -Ed. revert g ac g' Ed. induction cands as [|n rest IH]; intros g ac g' Ed; simpl in Ed; [inversion Ed; reflexivity|].
    destruct (belongs g (n_pid n)); cbn [negb] in Ed; [|discriminate]. destruct (backing_instance g (n_pid n)) as [i|]; [|discriminate].
    destruct (mem_bytes (i_id i) (ao_terminasg_fail (e_aorc e))); [discriminate|].
    destruct (delete_loop (set_desired g (a_desired g - 1)) rest (ao_terminasg_fail (e_aorc e))) as [[c1 r1] g1] eqn:E1.
    inversion Ed; subst. simpl. f_equal. eapply IH. exact E1.
  - unfold aws_delete_nodes in Ed. destruct (a_desired g <=? a_min g); [discriminate|]. destruct (a_desired g - zlen cands <? a_min g); [discriminate|].
    clear -Ed. revert g ac g' Ed. induction cands as [|n rest IH]; intros g ac g' Ed; simpl in Ed; [inversion Ed; intros c []|].
    destruct (belongs g (n_pid n)); cbn [negb] in Ed; [|discriminate]. destruct (backing_instance g (n_pid n)) as [i|]; [|discriminate].
    destruct (mem_bytes (i_id i) (ao_terminasg_fail (e_aorc e))); [discriminate|].
    destruct (delete_loop (set_desired g (a_desired g - 1)) rest (ao_terminasg_fail (e_aorc e))) as [[c1 r1] g1] eqn:E1.
    inversion Ed; subst. intros c [<-|Hc]; [eauto | eapply IH; eauto].
  - clear -Ek. revert kc ok Ek. induction (map n_name cands) as [|m names IH]; intros kc ok Ek; simpl in Ek.
    + inversion Ek; subst. exists 0%nat. split; [reflexivity | intros c []].
    + destruct (mem_id m (ko_delete_fail (e_korc e))).
      * inversion Ek; subst. exists 1%nat. split; [reflexivity | intros c [<-|[]]; eauto].
      * destruct (delete_nodes (e_korc e) names) as [kc0 ok0] eqn:E0. inversion Ek; subst.
        destruct (IH _ _ eq_refl) as [k [Hk1 Hk2]]. exists (S k). split; [simpl; rewrite Hk1; reflexivity|].
        intros c [<-|Hc]; [eauto | apply Hk2; exact Hc].
Qed.

(* ---------- how a group's scan can end ---------- *)
Lemma scale_up_out e o mx dry st a tainted want :
  let r := scale_up e o mx dry st a tainted want in
  up_out r <> OutFatal /\
  (up_out r = OutExit -> exists g d, a = Some g /\ dry = false /\ snd (fst (aws_increase g d (e_aorc e))) = IncExit).
Proof.
  unfold scale_up. destruct (match tainted with [] => _ | _ => _ end) as [[ucalls ucount] tr].
  destruct (0 <? want - ucount); [|simpl; split; [discriminate | discriminate]].
  destruct a as [g|]; [|simpl; split; discriminate].
  destruct (nodes_to_add _ _ _ <=? 0); [simpl; split; discriminate|].
  destruct dry; [simpl; split; discriminate|].
  destruct (aws_increase g _ (e_aorc e)) as [[ac r] g'] eqn:Ei. destruct r; simpl; split; try discriminate.
  intros _. eexists g, _. rewrite Ei. auto.
Qed.

(* a fatal end of scan_act stems from a tainted, grace-expired candidate that is not an instance of the cloud group;
   an exit from the third consecutive fleet clean-up *)
Theorem scan_act_out e o mn mx dry st2 a pods unt tainted forced lag tg us cap d0 fz :
  let r := scan_act e o mn mx dry st2 a pods unt tainted forced lag tg us cap d0 fz in
  (r_out r = OutFatal -> exists g1 n, oasg_rel a (Some g1) /\ In n (reap_candidates e o dry pods tainted) /\ belongs g1 (n_pid n) = false) /\
  (r_out r = OutExit -> exists g d, oasg_rel a (Some g) /\ dry = false /\ snd (fst (aws_increase g d (e_aorc e))) = IncExit).
Proof.
  unfold scan_act.
  destruct (try_delete_nodes e a (force_candidates dry pods forced)) as [[fcalls ferr] a1] eqn:Ef.
  destruct (try_delete_nodes_calls _ _ _ _ _ _ Ef) as [Hrel1 _].
  set (d2 := if scale_on_max_age e o mn unt tainted then _ else _).
  assert (Hreap : forall rcalls a2, try_delete_nodes e a1 (reap_candidates e o dry pods tainted) = (rcalls, Some ErrNotInGroup, a2) ->
            exists g1 n, oasg_rel a (Some g1) /\ In n (reap_candidates e o dry pods tainted) /\ belongs g1 (n_pid n) = false).
  { intros rcalls a2 Er. destruct (try_delete_notingroup _ _ _ _ _ Er) as (g1 & n & -> & Hn & Hb). exists g1, n. auto. }
  destruct (d2 <? 0).
  - destruct (try_delete_nodes e a1 (reap_candidates e o dry pods tainted)) as [[rcalls rerr] a2] eqn:Er.
    destruct (scale_down_taint e o mn dry st2 unt (- d2)) as [[tcalls terr] st3].
    destruct rerr as [[|]|]; simpl; split; try discriminate. intros _. eapply Hreap; reflexivity.
  - destruct (0 <? d2).
    + pose proof (scale_up_out e o mx dry st2 a1 tainted d2) as [Hu1 Hu2]. cbv zeta in Hu1, Hu2.
      destruct (up_out (scale_up e o mx dry st2 a1 tainted d2)) eqn:Eo; simpl; split; try discriminate.
      intros _. destruct (Hu2 eq_refl) as (g & d & -> & Hd & Hi). exists g, d. auto.
    + destruct (try_delete_nodes e a1 (reap_candidates e o dry pods tainted)) as [[rcalls rerr] a2] eqn:Er.
      destruct rerr as [[|]|]; simpl; split; try discriminate. intros _. eapply Hreap; reflexivity.
Qed.

Theorem scan_group_out e o mn mx st a all_nodes all_pods :
  let r := scan_group e o mn mx st a all_nodes all_pods in
  let dry := e_dry e || o_dry o in
  let nodes := group_nodes o all_nodes in
  let st1 := match nodes with n :: _ => with_cache st (first_alloc n) | [] => st end in
  let cls := filter_nodes dry st1 nodes in
  (r_out r = OutFatal -> exists g1 n, oasg_rel a (Some g1) /\ In n (reap_candidates e o dry (group_pods o all_pods) (c_tainted cls)) /\ belongs g1 (n_pid n) = false) /\
  (r_out r = OutExit -> exists g d, oasg_rel a (Some g) /\ dry = false /\ snd (fst (aws_increase g d (e_aorc e))) = IncExit).
Proof.
  intros r dry nodes st1 cls. subst r.
  apply (scan_group_frame (fun r =>
    (r_out r = OutFatal -> exists g1 n, oasg_rel a (Some g1) /\ In n (reap_candidates e o dry (group_pods o all_pods) (c_tainted cls)) /\ belongs g1 (n_pid n) = false) /\
    (r_out r = OutExit -> exists g d, oasg_rel a (Some g) /\ dry = false /\ snd (fst (aws_increase g d (e_aorc e))) = IncExit))).
  - intros Hr tags out ret st' [-> | ->]; simpl; split; discriminate.
  - intros _ _ _ tags. cbv zeta. simpl.
    pose proof (scale_up_out e o mx dry (with_lock st1 (snd (lock_check (g_lock st1) (e_now e) (o_cool o)))) a (c_tainted cls) (mn - zlen (c_untainted cls))) as [H1 H2].
    cbv zeta in H1, H2. split; [intros H; contradiction|].
    intros H. destruct (H2 H) as (g & d & -> & Hd & Hi). exists g, d. splits; auto. apply asg_rel_refl.
  - intros _ _ _ _ cpuP memP _. split.
    + intros tags d _. simpl. split; discriminate.
    + intros tags d0 _. apply scan_act_out.
Qed.

(* ---------- C19: the scan's termination budget ---------- *)
Lemma ok_terminations_okterm calls : ok_terminations calls = okterm calls.
Proof. reflexivity. Qed.

Lemma ok_calls_le calls : ok_calls calls <= zlen calls.
Proof.
  unfold ok_calls. induction calls as [|c l IH]; [unfold zlen; simpl; lia|]. simpl. rewrite zlen_cons.
  destruct c; try lia. destruct ok; lia.
Qed.

Lemma try_delete_budget e g cands calls err a' :
  try_delete_nodes e (Some g) cands = (calls, err, a') ->
  exists g', a' = Some g' /\ asg_rel g g' /\ a_desired g' = a_desired g - okterm calls /\
             (okterm calls = 0 \/ a_min g <= a_desired g - okterm calls).
Proof.
  intros H. destruct (try_delete_c04 _ _ _ _ _ _ H) as (g' & -> & Hrel & Hd & _). exists g'. splits; auto.
  unfold try_delete_nodes in H. destruct cands as [|c0 cs] eqn:Ec; [inversion H; subst; left; reflexivity|]. rewrite <- Ec in H.
  destruct (aws_delete_nodes g cands (ao_terminasg_fail (e_aorc e))) as [[ac r] g1] eqn:Ed.
  assert (Hk : okterm calls = ok_calls ac).
  { rewrite okterm_acalls. destruct r; try (inversion H; subst; rewrite acalls_of_liftA; reflexivity).
    destruct (delete_nodes (e_korc e) (map n_name cands)) as [kc ok]. inversion H; subst.
    rewrite acalls_of_app, acalls_of_liftA, acalls_of_liftK, app_nil_r. reflexivity. }
  rewrite Hk. unfold aws_delete_nodes in Ed.
  destruct (a_desired g <=? a_min g) eqn:E1; [inversion Ed; subst; left; reflexivity|].
  destruct (a_desired g - zlen cands <? a_min g) eqn:E2; [inversion Ed; subst; left; reflexivity|].
  apply Z.ltb_ge in E2. right.
  pose proof (delete_loop_spec cands g (ao_terminasg_fail (e_aorc e))) as Hs. rewrite Ed in Hs. destruct Hs as (_ & Hlen & _).
  pose proof (ok_calls_le ac). lia.
Qed.

Lemma budget_quiet x calls : okterm calls = 0 -> check_C19_budget x calls = true.
Proof. intros H. unfold check_C19_budget. rewrite ok_terminations_okterm, H. reflexivity. Qed.

Lemma okterm_no_term calls : (forall c, In c calls -> match c with CA (ATermInAsg _ _ _) => False | _ => True end) -> okterm calls = 0.
Proof.
  intros H. unfold okterm. induction calls as [|c l IH]; [reflexivity|]. simpl.
  rewrite IH by (intros c' Hc'; apply H; right; exact Hc').
  specialize (H c (or_introl eq_refl)). destruct c as [k|[]]; try reflexivity. contradiction.
Qed.

Lemma liftK_okterm l : okterm (liftK l) = 0.
Proof. rewrite okterm_acalls, acalls_of_liftK. reflexivity. Qed.

Lemma scale_up_okterm e o mx dry st a tainted want : okterm (up_calls (scale_up e o mx dry st a tainted want)) = 0.
Proof.
  unfold scale_up. destruct (match tainted with [] => _ | _ => _ end) as [[ucalls ucount] tr].
  destruct (0 <? want - ucount); [|apply liftK_okterm]. destruct a as [g|]; [|apply liftK_okterm].
  destruct (nodes_to_add _ _ _ <=? 0); [apply liftK_okterm|]. destruct dry; [apply liftK_okterm|].
  pose proof (aws_increase_asks g (nodes_to_add (want - ucount) (a_desired g) (Z.min mx (a_max g))) (e_aorc e)) as Ha.
  destruct (aws_increase g _ (e_aorc e)) as [[ac r] g']. simpl in Ha.
  assert (Hac : okterm (liftA ac) = 0).
  { apply okterm_no_term. intros c Hc. unfold liftA in Hc. apply in_map_iff in Hc. destruct Hc as [k [<- Hk]].
    rewrite forallb_forall in Ha. specialize (Ha k Hk). destruct k; simpl in *; try exact I. discriminate. }
  destruct r; simpl; rewrite okterm_app, liftK_okterm, Hac; reflexivity.
Qed.

Lemma scale_down_taint_okterm e o mn dry st unt want : okterm (fst (fst (scale_down_taint e o mn dry st unt want))) = 0.
Proof.
  unfold scale_down_taint. destruct (_ <? 0); [reflexivity|]. destruct (taint_loop _ _ _ _ _ _ _) as [[kc cnt] tr]. simpl. apply liftK_okterm.
Qed.

Theorem group_budget_C19 now gdry api g a nodes pods :
  check_C19_budget (ctx_of now gdry api g a nodes pods) (r_calls (scan_of now gdry api g a nodes pods)) = true.
Proof.
  set (x := ctx_of now gdry api g a nodes pods).
  assert (Hasg : x_asg x = a) by reflexivity.
  apply (scan_of_frame (fun r => check_C19_budget x (r_calls r) = true) now gdry api g a nodes pods x eq_refl).
  all: clearbody x.
  - intros. apply budget_quiet. reflexivity.
  - intros _ _ _ tags. apply budget_quiet. apply scale_up_okterm.
  - intros _ _ _ _ cpuP memP _. split.
    + intros tags d _. apply budget_quiet. apply lag_okterm.
    + intros tags d0 _. unfold scan_act. unfold check_C19_budget. rewrite Hasg.
      set (lag := liftA (registration_lag_calls _ _ _)).
      assert (Hlag : okterm lag = 0) by apply lag_okterm.
      destruct a as [g0|].
      2:{ (* no cloud group: TryDeleteNodes refuses, nothing is terminated *)
          assert (Hnone : forall cands, okterm (fst (fst (try_delete_nodes (x_env x) None cands))) = 0 /\ snd (try_delete_nodes (x_env x) None cands) = None).
          { intros cands. unfold try_delete_nodes. destruct cands; split; reflexivity. }
          destruct (try_delete_nodes (x_env x) None (force_candidates _ _ _)) as [[fcalls ferr] a1] eqn:Ef.
          pose proof (Hnone (force_candidates (x_dry x) (x_pods x) (c_forced (x_cls x)))) as [Hf1 Hf2]. rewrite Ef in Hf1, Hf2. simpl in Hf1, Hf2. subst a1.
          match goal with |- context [if ?d <? 0 then _ else _] => set (d2 := d) end.
          destruct (d2 <? 0).
          - destruct (try_delete_nodes (x_env x) None (reap_candidates _ _ _ _ _)) as [[rcalls rerr] a2] eqn:Er.
            pose proof (Hnone (reap_candidates (x_env x) (x_opts x) (x_dry x) (x_pods x) (c_tainted (x_cls x)))) as [Hr1 _]. rewrite Er in Hr1. simpl in Hr1.
            pose proof (scale_down_taint_okterm (x_env x) (x_opts x) (x_min x) (x_dry x) (with_lock (x_st x) (snd (lock_check (g_lock (x_st x)) (e_now (x_env x)) (o_cool (x_opts x))))) (c_untainted (x_cls x)) (- d2)) as Ht.
            destruct (scale_down_taint _ _ _ _ _ _ _) as [[tcalls terr] st3]. simpl in Ht.
            destruct rerr as [[|]|]; simpl; rewrite ok_terminations_okterm, !okterm_app, ?Hlag, ?Hf1, ?Hr1, ?Ht; reflexivity.
          - destruct (0 <? d2).
            + pose proof (scale_up_okterm (x_env x) (x_opts x) (x_max x) (x_dry x) (with_lock (x_st x) (snd (lock_check (g_lock (x_st x)) (e_now (x_env x)) (o_cool (x_opts x))))) None (c_tainted (x_cls x)) d2) as Hu.
              destruct (up_out _); simpl; rewrite ok_terminations_okterm, !okterm_app, Hlag, Hf1, Hu; reflexivity.
            + destruct (try_delete_nodes (x_env x) None (reap_candidates _ _ _ _ _)) as [[rcalls rerr] a2] eqn:Er.
              pose proof (Hnone (reap_candidates (x_env x) (x_opts x) (x_dry x) (x_pods x) (c_tainted (x_cls x)))) as [Hr1 _]. rewrite Er in Hr1. simpl in Hr1.
              destruct rerr as [[|]|]; simpl; rewrite ok_terminations_okterm, !okterm_app, ?Hlag, ?Hf1, ?Hr1; reflexivity. }
      destruct (try_delete_nodes (x_env x) (Some g0) (force_candidates _ _ _)) as [[fcalls ferr] a1] eqn:Ef.
      destruct (try_delete_budget _ _ _ _ _ _ Ef) as (g1 & -> & Hrel1 & Hd1 & Hb1).
      assert (Hmin1 : a_min g1 = a_min g0) by (destruct Hrel1 as (_ & H & _); exact H).
      match goal with |- context [if ?d <? 0 then _ else _] => set (d2 := d) end.
      assert (Hfinal : forall rest, okterm rest = 0 ->
                (ok_terminations (lag ++ fcalls ++ rest) =? 0) || (ok_terminations (lag ++ fcalls ++ rest) <=? a_desired g0 - a_min g0) = true).
      { intros rest Hrest. rewrite ok_terminations_okterm, !okterm_app, Hlag, Hrest.
        destruct Hb1 as [Hb1|Hb1]; [rewrite Hb1; reflexivity|].
        apply orb_true_iff. right. apply Z.leb_le. lia. }
      assert (Hreap : forall rcalls rerr a2 rest, try_delete_nodes (x_env x) (Some g1) (reap_candidates (x_env x) (x_opts x) (x_dry x) (x_pods x) (c_tainted (x_cls x))) = (rcalls, rerr, a2) ->
                okterm rest = 0 ->
                (ok_terminations (lag ++ fcalls ++ rcalls ++ rest) =? 0) || (ok_terminations (lag ++ fcalls ++ rcalls ++ rest) <=? a_desired g0 - a_min g0) = true).
      { intros rcalls rerr a2 rest Er Hrest. destruct (try_delete_budget _ _ _ _ _ _ Er) as (g2 & _ & _ & _ & Hb2).
        rewrite ok_terminations_okterm, !okterm_app, Hlag, Hrest.
        destruct Hb2 as [Hb2|Hb2].
        - rewrite Hb2. destruct Hb1 as [Hb1|Hb1]; [rewrite Hb1; reflexivity|]. apply orb_true_iff. right. apply Z.leb_le. lia.
        - apply orb_true_iff. right. apply Z.leb_le. lia. }
      destruct (d2 <? 0).
      * destruct (try_delete_nodes (x_env x) (Some g1) (reap_candidates _ _ _ _ _)) as [[rcalls rerr] a2] eqn:Er.
        pose proof (scale_down_taint_okterm (x_env x) (x_opts x) (x_min x) (x_dry x) (with_lock (x_st x) (snd (lock_check (g_lock (x_st x)) (e_now (x_env x)) (o_cool (x_opts x))))) (c_untainted (x_cls x)) (- d2)) as Ht.
        destruct (scale_down_taint _ _ _ _ _ _ _) as [[tcalls terr] st3]. simpl in Ht.
        destruct rerr as [[|]|]; simpl.
        -- eapply Hreap; eauto.
        -- rewrite <- (app_nil_r rcalls). eapply Hreap; eauto.
        -- eapply Hreap; eauto.
      * destruct (0 <? d2).
        -- pose proof (scale_up_okterm (x_env x) (x_opts x) (x_max x) (x_dry x) (with_lock (x_st x) (snd (lock_check (g_lock (x_st x)) (e_now (x_env x)) (o_cool (x_opts x))))) (Some g1) (c_tainted (x_cls x)) d2) as Hu.
           destruct (up_out _); simpl; apply Hfinal; exact Hu.
        -- destruct (try_delete_nodes (x_env x) (Some g1) (reap_candidates _ _ _ _ _)) as [[rcalls rerr] a2] eqn:Er.
           destruct rerr as [[|]|]; simpl; rewrite <- (app_nil_r rcalls); eapply Hreap; eauto.
Qed.

(* ---------- C05 state anchor: what a scan leaves in the node-size cache ---------- *)
Lemma scale_up_cache e o mx dry st a tainted want : g_cache (up_state (scale_up e o mx dry st a tainted want)) = g_cache st.
Proof.
  unfold scale_up. destruct (match tainted with [] => _ | _ => _ end) as [[ucalls ucount] tr].
  destruct (0 <? want - ucount); [|reflexivity]. destruct a as [g|]; [|reflexivity].
  destruct (nodes_to_add _ _ _ <=? 0); [reflexivity|]. destruct dry; [reflexivity|].
  destruct (aws_increase g _ (e_aorc e)) as [[ac r] g']. destruct r; reflexivity.
Qed.

Lemma scale_down_taint_cache e o mn dry st unt want : g_cache (snd (scale_down_taint e o mn dry st unt want)) = g_cache st.
Proof.
  unfold scale_down_taint. destruct (_ <? 0); [reflexivity|]. destruct (taint_loop _ _ _ _ _ _ _) as [[kc cnt] tr]. reflexivity.
Qed.

Lemma scan_act_cache e o mn mx dry st2 a pods unt tainted forced lag tg us cap d0 fz :
  g_cache (r_state (scan_act e o mn mx dry st2 a pods unt tainted forced lag tg us cap d0 fz)) = g_cache st2.
Proof.
  unfold scan_act. destruct (try_delete_nodes e a (force_candidates dry pods forced)) as [[fcalls ferr] a1].
  match goal with |- context [if ?d <? 0 then _ else _] => set (d2 := d) end.
  destruct (d2 <? 0).
  - destruct (try_delete_nodes e a1 (reap_candidates e o dry pods tainted)) as [[rcalls rerr] a2].
    pose proof (scale_down_taint_cache e o mn dry st2 unt (- d2)) as Ht.
    destruct (scale_down_taint e o mn dry st2 unt (- d2)) as [[tcalls terr] st3]. simpl in Ht.
    destruct rerr as [[|]|]; simpl; auto.
  - destruct (0 <? d2).
    + pose proof (scale_up_cache e o mx dry st2 a1 tainted d2) as Hu. destruct (up_out _); simpl; exact Hu.
    + destruct (try_delete_nodes e a1 (reap_candidates e o dry pods tainted)) as [[rcalls rerr] a2]. destruct rerr as [[|]|]; reflexivity.
Qed.

Theorem group_cache_C05 now gdry api g a nodes pods :
  let x := ctx_of now gdry api g a nodes pods in
  check_C05_cache x (gi_state g) (r_state (scan_of now gdry api g a nodes pods)) = true.
Proof.
  intros x.
  assert (Hgoal : g_cache (r_state (scan_of now gdry api g a nodes pods)) = g_cache (x_st x)).
  { unfold scan_of. fold x. unfold scan_group.
    change (e_dry (x_env x) || o_dry (x_opts x)) with (x_dry x).
    change (match group_nodes (x_opts x) nodes with n :: _ => with_cache (gi_state g) (first_alloc n) | [] => gi_state g end) with (x_st x).
    apply (match_both_empty _ _ _ _ (fun r => g_cache (r_state r) = g_cache (x_st x))); [reflexivity|].
    destruct (_ <? x_min x); [reflexivity|]. destruct (x_max x <? _); [reflexivity|].
    destruct (negb _ && _); [simpl; rewrite scale_up_cache; reflexivity|].
    destruct (calc_percent _ _ _ _ _); [|reflexivity]. destruct (fst _); [reflexivity|].
    destruct (decide _ _ _ _ _ _ _); [rewrite scan_act_cache; reflexivity | reflexivity]. }
  unfold check_C05_cache. rewrite Hgoal. unfold x, ctx_of. simpl.
  destruct (group_nodes (gi_opts g) nodes); simpl; unfold pair_eqb; rewrite !Z.eqb_refl; reflexivity.
Qed.
