(* ScanLemmas.v — building blocks for the scan-level theorems: what each journal-producing function of Scan.v can
   emit, membership facts about the node classes and the candidate lists. *)
From Esc Require Import SpecScan proofs.BaseProofs proofs.AwsProofs.
From Coq Require Import Permutation Sorted.

Ltac splits := repeat match goal with |- _ /\ _ => split end.

(* ---------- small list facts ---------- *)
Lemma forallb_liftA (P : call -> bool) l : forallb P (liftA l) = forallb (fun c => P (CA c)) l.
Proof. unfold liftA. induction l as [|c l IH]; simpl; [reflexivity | rewrite IH; reflexivity]. Qed.
Lemma forallb_liftK (P : call -> bool) l : forallb P (liftK l) = forallb (fun c => P (CK c)) l.
Proof. unfold liftK. induction l as [|c l IH]; simpl; [reflexivity | rewrite IH; reflexivity]. Qed.

Lemma liftK_app a b : liftK (a ++ b) = liftK a ++ liftK b.
Proof. unfold liftK. apply map_app. Qed.
Lemma liftA_app a b : liftA (a ++ b) = liftA a ++ liftA b.
Proof. unfold liftA. apply map_app. Qed.

Lemma mem_id_In x l : mem_id x l = true <-> In x l.
Proof.
  unfold mem_id. rewrite existsb_exists. split.
  - intros [y [Hy E]]. apply Z.eqb_eq in E. subst. exact Hy.
  - intros H. exists x. split; [exact H | apply Z.eqb_refl].
Qed.

Lemma zlen_nonneg {A} (l : list A) : 0 <= zlen l.
Proof. unfold zlen. lia. Qed.
Lemma zlen_cons {A} (x : A) l : zlen (x :: l) = 1 + zlen l.
Proof. unfold zlen. simpl length. lia. Qed.
Lemma zlen_app {A} (a b : list A) : zlen (a ++ b) = zlen a + zlen b.
Proof. unfold zlen. rewrite app_length. lia. Qed.

(* ---------- classes ---------- *)
Lemma in_untainted dry st nodes n :
  In n (c_untainted (filter_nodes dry st nodes)) <-> In n nodes /\ classify_one dry st n = 0.
Proof. unfold filter_nodes; simpl. rewrite filter_In, Z.eqb_eq. tauto. Qed.
Lemma in_tainted dry st nodes n :
  In n (c_tainted (filter_nodes dry st nodes)) <-> In n nodes /\ classify_one dry st n = 1.
Proof. unfold filter_nodes; simpl. rewrite filter_In, Z.eqb_eq. tauto. Qed.
Lemma in_forced dry st nodes n :
  In n (c_forced (filter_nodes dry st nodes)) <-> In n nodes /\ classify_one dry st n = 2.
Proof. unfold filter_nodes; simpl. rewrite filter_In, Z.eqb_eq. tauto. Qed.

Lemma classify_wet_0 st n : classify_one false st n = 0 -> n_unsched n = false /\ has_force n = false /\ has_esc n = false.
Proof. unfold classify_one. destruct (n_unsched n), (has_force n), (has_esc n); intros H; try discriminate; auto. Qed.
Lemma classify_wet_1 st n : classify_one false st n = 1 -> n_unsched n = false /\ has_force n = false /\ has_esc n = true.
Proof. unfold classify_one. destruct (n_unsched n), (has_force n), (has_esc n); intros H; try discriminate; auto. Qed.
Lemma classify_wet_2 st n : classify_one false st n = 2 -> n_unsched n = false /\ has_force n = true.
Proof. unfold classify_one. destruct (n_unsched n), (has_force n), (has_esc n); intros H; try discriminate; auto. Qed.

(* ---------- candidate lists ---------- *)
Lemma force_candidates_dry pods l : force_candidates true pods l = [].
Proof. reflexivity. Qed.
Lemma reap_candidates_dry e o pods l : reap_candidates e o true pods l = [].
Proof. reflexivity. Qed.

Lemma in_force_candidates pods l n : In n (force_candidates false pods l) <-> In n l /\ node_empty pods n = true.
Proof. unfold force_candidates. apply filter_In. Qed.
Lemma in_reap_candidates e o pods l n : In n (reap_candidates e o false pods l) <-> In n l /\ reapable e o pods n = true.
Proof. unfold reap_candidates. apply filter_In. Qed.

(* ---------- asg modulo the cached desired capacity ---------- *)
Definition asg_rel (a a' : asg) : Prop :=
  a_name a' = a_name a /\ a_min a' = a_min a /\ a_max a' = a_max a /\ a_instances a' = a_instances a /\ a_cfg a' = a_cfg a /\ a_tries a' = a_tries a.
Lemma asg_rel_refl a : asg_rel a a. Proof. unfold asg_rel; auto 7. Qed.
Lemma asg_rel_trans a b c : asg_rel a b -> asg_rel b c -> asg_rel a c.
Proof. unfold asg_rel. intuition congruence. Qed.
Lemma asg_rel_set_desired a v : asg_rel a (set_desired a v). Proof. unfold asg_rel; simpl; auto 7. Qed.
Lemma asg_rel_belongs a a' pid : asg_rel a a' -> belongs a' pid = belongs a pid.
Proof. intros (_ & _ & _ & H & _). unfold belongs. rewrite H. reflexivity. Qed.
Lemma asg_rel_backing a a' pid : asg_rel a a' -> backing_instance a' pid = backing_instance a pid.
Proof. intros (_ & _ & _ & H & _). unfold backing_instance. rewrite H. reflexivity. Qed.

Definition oasg_rel (a a' : option asg) : Prop :=
  match a, a' with Some x, Some y => asg_rel x y | None, None => True | _, _ => False end.
Lemma oasg_rel_refl a : oasg_rel a a. Proof. destruct a; simpl; auto using asg_rel_refl. Qed.
Lemma oasg_rel_trans a b c : oasg_rel a b -> oasg_rel b c -> oasg_rel a c.
Proof. destruct a, b, c; simpl; try tauto. apply asg_rel_trans. Qed.

(* ---------- delete_loop / aws_delete_nodes: which calls, which asg afterwards ---------- *)
Definition ok_terms (calls : list acall) : Z := ok_calls calls.

Lemma delete_loop_calls nodes : forall a fails calls r a',
  delete_loop a nodes fails = (calls, r, a') ->
  asg_rel a a' /\ a_desired a' = a_desired a - ok_calls calls /\
  forall c, In c calls -> exists n i ok, In n nodes /\ backing_instance a (n_pid n) = Some i /\ c = ATermInAsg (i_id i) true ok.
Proof.
  induction nodes as [|n rest IH]; intros a fails calls r a' H.
  - simpl in H. inversion H; subst. splits; [apply asg_rel_refl | unfold ok_calls; simpl; lia | intros c []].
  - cbn [delete_loop] in H. destruct (belongs a (n_pid n)) eqn:Eb; cbn [negb] in H.
    + destruct (backing_instance a (n_pid n)) as [i|] eqn:Ei.
      * destruct (mem_bytes (i_id i) fails).
        -- inversion H; subst. splits; [apply asg_rel_refl | unfold ok_calls; simpl; lia |].
           intros c [Hc|[]]. subst. exists n, i, false. simpl; auto.
        -- destruct (delete_loop (set_desired a (a_desired a - 1)) rest fails) as [[calls0 r0] a0] eqn:E.
           inversion H; subst. destruct (IH _ _ _ _ _ E) as [H1 [H2 H3]]. splits.
           ++ eapply asg_rel_trans; [apply asg_rel_set_desired | exact H1].
           ++ rewrite H2, ok_calls_cons_ok. simpl a_desired. lia.
           ++ intros c [Hc|Hc].
              ** subst. exists n, i, true. simpl; auto.
              ** destruct (H3 c Hc) as (m & j & ok & Hm & Hj & Hcj). exists m, j, ok. simpl. splits; auto.
      * inversion H; subst. splits; [apply asg_rel_refl | unfold ok_calls; simpl; lia | intros c []].
    + inversion H; subst. splits; [apply asg_rel_refl | unfold ok_calls; simpl; lia | intros c []].
Qed.

Lemma aws_delete_nodes_calls a nodes fails calls r a' :
  aws_delete_nodes a nodes fails = (calls, r, a') ->
  asg_rel a a' /\ a_desired a' = a_desired a - ok_calls calls /\
  forall c, In c calls -> exists n i ok, In n nodes /\ backing_instance a (n_pid n) = Some i /\ c = ATermInAsg (i_id i) true ok.
Proof.
  unfold aws_delete_nodes. destruct (a_desired a <=? a_min a).
  - intros H; inversion H; subst. splits; [apply asg_rel_refl | unfold ok_calls; simpl; lia | intros c []].
  - destruct (a_desired a - zlen nodes <? a_min a).
    + intros H; inversion H; subst. splits; [apply asg_rel_refl | unfold ok_calls; simpl; lia | intros c []].
    + apply delete_loop_calls.
Qed.

(* ---------- k8s.DeleteNodes ---------- *)
Lemma delete_nodes_calls o names : forall calls ok,
  delete_nodes o names = (calls, ok) -> forall c, In c calls -> exists n b, In n names /\ c = KDelete n b.
Proof.
  induction names as [|n rest IH]; intros calls ok H c Hc.
  - simpl in H. inversion H; subst. destruct Hc.
  - simpl in H. destruct (mem_id n (ko_delete_fail o)).
    + inversion H; subst. destruct Hc as [Hc|[]]. subst. exists n, false. simpl; auto.
    + destruct (delete_nodes o rest) as [calls0 ok0] eqn:E. inversion H; subst.
      destruct Hc as [Hc|Hc].
      * subst. exists n, true. simpl; auto.
      * destruct (IH _ _ eq_refl c Hc) as (m & b & Hm & Hcm). exists m, b. simpl; auto.
Qed.

(* ---------- TryDeleteNodes ---------- *)
Definition acalls_of (calls : list call) : list acall :=
  concat (map (fun c => match c with CA x => [x] | _ => [] end) calls).
Lemma acalls_of_app a b : acalls_of (a ++ b) = acalls_of a ++ acalls_of b.
Proof. unfold acalls_of. rewrite map_app, concat_app. reflexivity. Qed.
Lemma acalls_of_liftA l : acalls_of (liftA l) = l.
Proof. unfold acalls_of, liftA. induction l as [|x l IH]; simpl; [reflexivity | rewrite IH; reflexivity]. Qed.
Lemma acalls_of_liftK l : acalls_of (liftK l) = [].
Proof. unfold acalls_of, liftK. induction l as [|x l IH]; simpl; [reflexivity | exact IH]. Qed.

Inductive removal_of (a : option asg) (cands : list node) : call -> Prop :=
| RO_term g n i ok : a = Some g -> In n cands -> backing_instance g (n_pid n) = Some i ->
    removal_of a cands (CA (ATermInAsg (i_id i) true ok))
| RO_delete n ok : In n cands -> removal_of a cands (CK (KDelete (n_name n) ok)).

Lemma try_delete_nodes_calls e a cands calls err a' :
  try_delete_nodes e a cands = (calls, err, a') ->
  oasg_rel a a' /\ (forall c, In c calls -> removal_of a cands c) /\
  (match a, a' with Some g, Some g' => a_desired g' = a_desired g - ok_calls (acalls_of calls) | _, _ => True end).
Proof.
  unfold try_delete_nodes. destruct cands as [|c0 cands0] eqn:Ec.
  - intros H; inversion H; subst. splits; [apply oasg_rel_refl | intros c [] |].
    destruct a'; auto. unfold ok_calls; simpl; lia.
  - rewrite <- Ec. destruct a as [g|].
    + destruct (aws_delete_nodes g cands (ao_terminasg_fail (e_aorc e))) as [[ac r] g'] eqn:Ed.
      destruct (aws_delete_nodes_calls _ _ _ _ _ _ Ed) as [Hrel [Hdes Hcalls]].
      assert (HA : forall c, In c (liftA ac) -> removal_of (Some g) cands c).
      { intros c Hc. unfold liftA in Hc. apply in_map_iff in Hc. destruct Hc as [x [Hx Hin]]. subst c.
        destruct (Hcalls x Hin) as (n & i & ok & Hn & Hi & Hx). subst x. eapply RO_term; eauto. }
      destruct r;
        try (intros H; inversion H; subst calls err a'; splits; [exact Hrel | exact HA | rewrite acalls_of_liftA; exact Hdes]).
      destruct (delete_nodes (e_korc e) (map n_name cands)) as [kc ok] eqn:Ek.
      intros H; inversion H; subst calls err a'. splits; [exact Hrel | | rewrite acalls_of_app, acalls_of_liftA, acalls_of_liftK, app_nil_r; exact Hdes].
      intros c Hc. apply in_app_or in Hc. destruct Hc as [Hc|Hc]; [apply HA; exact Hc|].
      unfold liftK in Hc. apply in_map_iff in Hc. destruct Hc as [x [Hx Hin]]. subst c.
      destruct (delete_nodes_calls _ _ _ _ Ek x Hin) as (m & b & Hm & Hxm). subst x.
      apply in_map_iff in Hm. destruct Hm as [n [Hn Hin']]. subst m. apply RO_delete. exact Hin'.
    + intros H; inversion H; subst. splits; [exact I | intros c [] | exact I].
Qed.

Lemma removal_of_rel a a' cands c : oasg_rel a a' -> removal_of a' cands c -> removal_of a cands c.
Proof.
  intros Hrel H. destruct H as [g' n i ok Ha Hn Hi | n ok Hn]; [|apply RO_delete; exact Hn].
  subst a'. destruct a as [g|]; simpl in Hrel; [|contradiction].
  eapply RO_term; [reflexivity | exact Hn |]. rewrite <- (asg_rel_backing g g') by exact Hrel. exact Hi.
Qed.

(* ---------- taint / untaint loops ---------- *)
Lemma taint_loop_dry e o l : forall n count tr, fst (fst (taint_loop e o true l n count tr)) = [].
Proof.
  induction l as [|x l IH]; intros n count tr; simpl; [reflexivity|].
  destruct (n <=? count); [reflexivity | apply IH].
Qed.

Lemma taint_loop_calls e o l : forall n count tr c,
  In c (fst (fst (taint_loop e o false l n count tr))) ->
  exists x, In x l /\ In c (fst (add_taint (e_api e) (e_korc e) (now_sec e) (o_effect o) (n_name x))).
Proof.
  induction l as [|x l IH]; intros n count tr c; simpl; [intros []|].
  destruct (n <=? count); [intros []|].
  destruct (add_taint (e_api e) (e_korc e) (now_sec e) (o_effect o) (n_name x)) as [calls ok] eqn:Ea.
  destruct (taint_loop e o false l n (if ok then count + 1 else count) tr) as [[calls' c'] t'] eqn:El.
  simpl. intros Hc. apply in_app_or in Hc. destruct Hc as [Hc|Hc].
  - exists x. rewrite Ea. simpl. auto.
  - specialize (IH n (if ok then count + 1 else count) tr c). rewrite El in IH. destruct (IH Hc) as [y [Hy Hcy]].
    exists y. auto.
Qed.

Lemma untaint_loop_dry e l : forall n count tr, fst (fst (untaint_loop e true l n count tr)) = [].
Proof.
  induction l as [|x l IH]; intros n count tr; simpl; [reflexivity|].
  destruct (n <=? count); [reflexivity|]. destruct (mem_id (n_name x) tr); apply IH.
Qed.

Lemma untaint_loop_calls e l : forall n count tr c,
  In c (fst (fst (untaint_loop e false l n count tr))) ->
  exists x, In x l /\ has_esc x = true /\ In c (fst (delete_taint (e_api e) (e_korc e) (n_name x))).
Proof.
  induction l as [|x l IH]; intros n count tr c; simpl; [intros []|].
  destruct (n <=? count); [intros []|].
  destruct (has_esc x) eqn:Ex.
  - destruct (delete_taint (e_api e) (e_korc e) (n_name x)) as [calls ok] eqn:Ea.
    destruct (untaint_loop e false l n (if ok then count + 1 else count) tr) as [[calls' c'] t'] eqn:El.
    simpl. intros Hc. apply in_app_or in Hc. destruct Hc as [Hc|Hc].
    + exists x. rewrite Ea. simpl. auto.
    + specialize (IH n (if ok then count + 1 else count) tr c). rewrite El in IH. destruct (IH Hc) as [y [Hy Hcy]].
      exists y. auto.
  - intros Hc. destruct (IH n count tr c Hc) as [y [Hy Hcy]]. exists y. auto.
Qed.

(* ---------- the sources of the calls of one group's scan ---------- *)
Inductive source (e : env) (o : opts) (dry : bool) (a : option asg) (pods : list pod) (nodes : list node) (cls : classes)
  : call -> Prop :=
| S_lag n ok : In n nodes -> pid_instance (n_pid n) <> [] ->
    source e o dry a pods nodes cls (CA (ADescribeInstances (pid_instance (n_pid n)) ok))
| S_force c : dry = false -> removal_of a (force_candidates false pods (c_forced cls)) c -> source e o dry a pods nodes cls c
| S_reap c : dry = false -> removal_of a (reap_candidates e o false pods (c_tainted cls)) c -> source e o dry a pods nodes cls c
| S_taint n c : dry = false -> In n (c_untainted cls) ->
    In c (fst (add_taint (e_api e) (e_korc e) (now_sec e) (o_effect o) (n_name n))) -> source e o dry a pods nodes cls (CK c)
| S_untaint n c : dry = false -> In n (c_tainted cls) -> has_esc n = true ->
    In c (fst (delete_taint (e_api e) (e_korc e) (n_name n))) -> source e o dry a pods nodes cls (CK c)
| S_increase g d c : dry = false -> oasg_rel a (Some g) -> 0 < d ->
    In c (fst (fst (aws_increase g d (e_aorc e)))) -> source e o dry a pods nodes cls (CA c).

Lemma registration_lag_source e o dry a pods nodes cls st c :
  In c (liftA (registration_lag_calls e st nodes)) -> source e o dry a pods nodes cls c.
Proof.
  unfold registration_lag_calls. destruct (0 <? g_delta st); [|intros []].
  unfold liftA. rewrite in_map_iff. intros [x [Hx Hin]]. subst c.
  apply in_concat in Hin. destruct Hin as [l [Hl Hx]]. apply in_map_iff in Hl. destruct Hl as [n [Hn Hin]].
  apply filter_In in Hin. destruct Hin as [Hin _]. subst l.
  unfold get_instance_call in Hx. destruct (pid_instance (n_pid n)) eqn:Ep; [destruct Hx|].
  destruct Hx as [Hx|[]]. subst x. rewrite <- Ep. apply S_lag; [exact Hin | rewrite Ep; discriminate].
Qed.

Lemma sort_newest_In x l : In x (sort_newest l) <-> In x l.
Proof. unfold sort_newest. apply isort_In. Qed.
Lemma sort_oldest_In x l : In x (sort_oldest l) <-> In x l.
Proof. unfold sort_oldest. apply isort_In. Qed.

Lemma scale_up_source e o mx dry st a a0 pods nodes cls want c :
  oasg_rel a0 a ->
  In c (up_calls (scale_up e o mx dry st a (c_tainted cls) want)) -> source e o dry a0 pods nodes cls c.
Proof.
  intros Hrel. unfold scale_up.
  set (ul := match c_tainted cls with [] => ([], 0, g_taint_tracker st) | _ => untaint_loop e dry (sort_newest (c_tainted cls)) want 0 (g_taint_tracker st) end).
  assert (Hu : forall k, In k (fst (fst ul)) -> source e o dry a0 pods nodes cls (CK k)).
  { intros k Hk. subst ul. destruct (c_tainted cls) as [|t0 ts] eqn:Et; [destruct Hk|]. rewrite <- Et in *.
    destruct dry.
    - rewrite untaint_loop_dry in Hk. destruct Hk.
    - destruct (untaint_loop_calls _ _ _ _ _ _ Hk) as [x [Hx [Hesc Hkx]]]. apply (proj1 (sort_newest_In _ _)) in Hx.
      eapply S_untaint; eauto. }
  destruct ul as [[ucalls ucount] tr]. simpl in Hu.
  assert (HK : forall c, In c (liftK ucalls) -> source e o dry a0 pods nodes cls c).
  { intros c' Hc'. unfold liftK in Hc'. apply in_map_iff in Hc'. destruct Hc' as [k [Hk Hin]]. subst c'. apply Hu. exact Hin. }
  destruct (0 <? want - ucount); [|simpl; apply HK].
  destruct a as [g|]; [|simpl; apply HK].
  destruct (nodes_to_add (want - ucount) (a_desired g) (Z.min mx (a_max g)) <=? 0) eqn:Eadd; [simpl; apply HK|].
  destruct dry eqn:Edry; [simpl; apply HK|].
  destruct (aws_increase g (nodes_to_add (want - ucount) (a_desired g) (Z.min mx (a_max g))) (e_aorc e)) as [[ac r] g'] eqn:Einc.
  assert (HA : forall c, In c (liftA ac) -> source e o false a0 pods nodes cls c).
  { intros c' Hc'. unfold liftA in Hc'. apply in_map_iff in Hc'. destruct Hc' as [k [Hk Hin]]. subst c'.
    eapply S_increase with (g := g); [reflexivity | exact Hrel | apply Z.leb_gt in Eadd; exact Eadd | rewrite Einc; exact Hin]. }
  destruct r; simpl; intros Hc; apply in_app_or in Hc; destruct Hc as [Hc|Hc]; auto.
Qed.

(* ---------- scale_down_taint ---------- *)
Lemma scale_down_taint_source e o mn dry st a pods nodes cls want calls err st' c :
  scale_down_taint e o mn dry st (c_untainted cls) want = (calls, err, st') ->
  In c calls -> source e o dry a pods nodes cls c.
Proof.
  unfold scale_down_taint.
  set (n := if zlen (c_untainted cls) - want <? mn then zlen (c_untainted cls) - mn else want).
  destruct (n <? 0); [intros H; inversion H; subst; intros []|].
  destruct (taint_loop e o dry (sort_oldest (c_untainted cls)) n 0 (g_taint_tracker st)) as [[kc cnt] tr] eqn:El.
  intros H; inversion H; subst calls err st'. intros Hc. unfold liftK in Hc. apply in_map_iff in Hc.
  destruct Hc as [k [Hk Hin]]. subst c. destruct dry.
  - pose proof (taint_loop_dry e o (sort_oldest (c_untainted cls)) n 0 (g_taint_tracker st)) as Hd. rewrite El in Hd. simpl in Hd.
    subst kc. destruct Hin.
  - pose proof (taint_loop_calls e o (sort_oldest (c_untainted cls)) n 0 (g_taint_tracker st) k) as Hd. rewrite El in Hd.
    destruct (Hd Hin) as [x [Hx Hkx]]. apply (proj1 (sort_oldest_In _ _)) in Hx. eapply S_taint; eauto.
Qed.

(* ---------- scan_act and scan_group ---------- *)
Lemma removal_source_force e o dry a a' pods nodes cls calls err a1 :
  try_delete_nodes e a' (force_candidates dry pods (c_forced cls)) = (calls, err, a1) -> oasg_rel a a' ->
  oasg_rel a a1 /\ forall c, In c calls -> source e o dry a pods nodes cls c.
Proof.
  intros H Hrel. destruct (try_delete_nodes_calls _ _ _ _ _ _ H) as [Hr [Hc _]]. split; [eapply oasg_rel_trans; eauto|].
  intros c Hin. destruct dry; [simpl in H; inversion H; subst; destruct Hin|].
  apply S_force; [reflexivity|]. eapply removal_of_rel; [exact Hrel | apply Hc; exact Hin].
Qed.

Lemma removal_source_reap e o dry a a' pods nodes cls calls err a1 :
  try_delete_nodes e a' (reap_candidates e o dry pods (c_tainted cls)) = (calls, err, a1) -> oasg_rel a a' ->
  oasg_rel a a1 /\ forall c, In c calls -> source e o dry a pods nodes cls c.
Proof.
  intros H Hrel. destruct (try_delete_nodes_calls _ _ _ _ _ _ H) as [Hr [Hc _]]. split; [eapply oasg_rel_trans; eauto|].
  intros c Hin. destruct dry; [simpl in H; inversion H; subst; destruct Hin|].
  apply S_reap; [reflexivity|]. eapply removal_of_rel; [exact Hrel | apply Hc; exact Hin].
Qed.

Lemma in_app3 {A} (x : A) a b c : In x (a ++ b ++ c) -> In x a \/ In x b \/ In x c.
Proof. intros H. apply in_app_or in H. destruct H as [H|H]; [auto|]. apply in_app_or in H. tauto. Qed.

Lemma scan_act_sources e o mn mx dry st2 a pods nodes cls lag tg us cap d0 fz :
  (forall c, In c lag -> source e o dry a pods nodes cls c) ->
  forall c, In c (r_calls (scan_act e o mn mx dry st2 a pods (c_untainted cls) (c_tainted cls) (c_forced cls) lag tg us cap d0 fz)) ->
  source e o dry a pods nodes cls c.
Proof.
  intros Hlag c. unfold scan_act.
  destruct (try_delete_nodes e a (force_candidates dry pods (c_forced cls))) as [[fcalls ferr] a1] eqn:Ef.
  destruct (removal_source_force e o dry a a pods nodes cls _ _ _ Ef (oasg_rel_refl a)) as [Hrel1 Hf].
  set (d2 := if scale_on_max_age e o mn (c_untainted cls) (c_tainted cls) then _ else _).
  destruct (d2 <? 0).
  - destruct (try_delete_nodes e a1 (reap_candidates e o dry pods (c_tainted cls))) as [[rcalls rerr] a2] eqn:Er.
    destruct (removal_source_reap e o dry a a1 pods nodes cls _ _ _ Er Hrel1) as [Hrel2 Hr].
    destruct (scale_down_taint e o mn dry st2 (c_untainted cls) (- d2)) as [[tcalls terr] st3] eqn:Et.
    assert (Ht : forall c, In c tcalls -> source e o dry a pods nodes cls c) by (intros; eapply scale_down_taint_source; eauto).
    destruct rerr as [[|]|]; simpl; intros Hc; apply in_app3 in Hc;
      try (destruct Hc as [Hc|[Hc|Hc]]; [auto | auto | try apply in_app_or in Hc; try destruct Hc; auto]).
  - destruct (0 <? d2).
    + assert (Hu : forall c, In c (up_calls (scale_up e o mx dry st2 a1 (c_tainted cls) d2)) -> source e o dry a pods nodes cls c)
        by (intros; eapply scale_up_source; eauto).
      destruct (up_out (scale_up e o mx dry st2 a1 (c_tainted cls) d2)); simpl; intros Hc; apply in_app3 in Hc;
        destruct Hc as [Hc|[Hc|Hc]]; auto.
    + destruct (try_delete_nodes e a1 (reap_candidates e o dry pods (c_tainted cls))) as [[rcalls rerr] a2] eqn:Er.
      destruct (removal_source_reap e o dry a a1 pods nodes cls _ _ _ Er Hrel1) as [Hrel2 Hr].
      destruct rerr as [[|]|]; simpl; intros Hc; apply in_app3 in Hc; destruct Hc as [Hc|[Hc|Hc]]; auto.
Qed.

Theorem scan_group_sources e o mn mx st a all_nodes all_pods :
  let dry := e_dry e || o_dry o in
  let nodes := group_nodes o all_nodes in
  let st1 := match nodes with n :: _ => with_cache st (first_alloc n) | [] => st end in
  forall c, In c (r_calls (scan_group e o mn mx st a all_nodes all_pods)) ->
  source e o dry a (group_pods o all_pods) nodes (filter_nodes dry st1 nodes) c.
Proof.
  intros dry nodes st1 c. unfold scan_group. fold dry. fold nodes. fold st1.
  set (pods := group_pods o all_pods). set (cls := filter_nodes dry st1 nodes).
  assert (Hup : forall st' want c, In c (up_calls (scale_up e o mx dry st' a (c_tainted cls) want)) -> source e o dry a pods nodes cls c)
    by (intros; eapply scale_up_source; [apply oasg_rel_refl | eauto]).
  destruct nodes as [|n0 ns] eqn:En, pods as [|p0 ps] eqn:Ep; try (simpl; intros []); rewrite <- ?En, <- ?Ep in *.
  all: destruct (zlen nodes <? mn); [simpl; intros []|].
  all: destruct (mx <? zlen nodes); [simpl; intros []|].
  all: destruct (negb (fst (lock_check (g_lock st1) (e_now e) (o_cool o))) && (zlen (c_untainted cls) <? mn)); [simpl; apply Hup|].
  all: destruct (calc_percent _ _ _ _ _) as [cpuP memP|]; [|simpl; intros []].
  all: destruct (fst (lock_check (g_lock st1) (e_now e) (o_cool o))); [simpl; intros []|].
  all: destruct (decide _ _ _ _ _ _ _) as [d0|d]; [|simpl; apply registration_lag_source].
  all: apply scan_act_sources; apply registration_lag_source.
Qed.
