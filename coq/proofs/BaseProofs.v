(* BaseProofs.v — facts about Base.v: insertion sort is a stable sorted permutation, decimal print/parse round-trip,
   saturation, multiset comparison through sorting. *)
From Esc Require Import Base.
From Coq Require Import Permutation Sorted.

(* ---------- insertion sort ---------- *)
Section SortFacts.
  Context {A : Type} (le : A -> A -> bool).

  Lemma insert_perm x l : Permutation (insert_sorted le x l) (x :: l).
  Proof.
    induction l as [|y l IH]; simpl; [reflexivity|].
    destruct (le x y); [reflexivity|].
    rewrite IH. apply perm_swap.
  Qed.

  Lemma isort_perm l : Permutation (isort le l) l.
  Proof.
    induction l as [|x l IH]; simpl; [reflexivity|].
    rewrite insert_perm. apply perm_skip. exact IH.
  Qed.

  Lemma isort_length l : length (isort le l) = length l.
  Proof. apply Permutation_length, isort_perm. Qed.

  Lemma isort_In x l : In x (isort le l) <-> In x l.
  Proof. split; apply Permutation_in; [apply isort_perm | symmetry; apply isort_perm]. Qed.

  Hypothesis le_total : forall a b, le a b = true \/ le b a = true.
  Hypothesis le_trans : forall a b c, le a b = true -> le b c = true -> le a c = true.

  Definition leP (a b : A) : Prop := le a b = true.

  Lemma insert_sorted_sorted x l : StronglySorted leP l -> StronglySorted leP (insert_sorted le x l).
  Proof.
    induction l as [|y l IH]; intros Hs; simpl.
    - constructor; constructor.
    - destruct (le x y) eqn:E.
      + constructor; [exact Hs|]. constructor; [exact E|].
        inversion Hs as [|? ? Hs' Hall]; subst. eapply Forall_impl; [|exact Hall].
        intros z Hz. eapply le_trans; eassumption.
      + inversion Hs as [|? ? Hs' Hall]; subst. constructor; [apply IH; exact Hs'|].
        assert (Hyx : le y x = true) by (destruct (le_total x y) as [H|H]; [congruence | exact H]).
        eapply Permutation_Forall; [symmetry; apply insert_perm|].
        constructor; assumption.
  Qed.

  Lemma isort_sorted l : StronglySorted leP (isort le l).
  Proof. induction l as [|x l IH]; simpl; [constructor | apply insert_sorted_sorted; exact IH]. Qed.
End SortFacts.

(* ---------- multisets of numbers through sorting ---------- *)
Lemma list_eqb_Z_eq a b : list_eqb Z.eqb a b = true <-> a = b.
Proof.
  revert b; induction a as [|x a IH]; destruct b as [|y b]; simpl; split; intros H; try reflexivity; try discriminate.
  - apply andb_prop in H. destruct H as [H1 H2]. apply Z.eqb_eq in H1. apply IH in H2. subst. reflexivity.
  - inversion H; subst. rewrite Z.eqb_refl. simpl. apply IH. reflexivity.
Qed.

Lemma sorted_perm_eq (a b : list Z) :
  StronglySorted (leP Z.leb) a -> StronglySorted (leP Z.leb) b -> Permutation a b -> a = b.
Proof.
  revert b; induction a as [|x a IH]; intros b Ha Hb Hp.
  - apply Permutation_nil in Hp. subst. reflexivity.
  - destruct b as [|y b]; [apply Permutation_sym, Permutation_nil in Hp; discriminate|].
    inversion Ha as [|? ? Ha' Hxa]; subst. inversion Hb as [|? ? Hb' Hyb]; subst.
    assert (Hxy : x = y).
    { assert (Hx : In x (y :: b)) by (eapply Permutation_in; [exact Hp | left; reflexivity]).
      assert (Hy : In y (x :: a)) by (eapply Permutation_in; [symmetry; exact Hp | left; reflexivity]).
      destruct Hx as [Hx|Hx]; [congruence|]. destruct Hy as [Hy|Hy]; [congruence|].
      rewrite Forall_forall in Hxa, Hyb. specialize (Hxa _ Hy). specialize (Hyb _ Hx).
      unfold leP in *. apply Z.leb_le in Hxa, Hyb. lia. }
    subst y. f_equal. apply IH; try assumption. eapply Permutation_cons_inv. exact Hp.
Qed.

Lemma Zleb_total a b : Z.leb a b = true \/ Z.leb b a = true.
Proof. destruct (Z.leb_spec a b); [left; reflexivity | right; apply Z.leb_le; lia]. Qed.
Lemma Zleb_trans a b c : Z.leb a b = true -> Z.leb b c = true -> Z.leb a c = true.
Proof. rewrite !Z.leb_le. lia. Qed.

Lemma same_sorted_iff_perm (a b : list Z) : isort Z.leb a = isort Z.leb b <-> Permutation a b.
Proof.
  split; intros H.
  - rewrite <- (isort_perm Z.leb a), <- (isort_perm Z.leb b), H. reflexivity.
  - apply sorted_perm_eq; try (apply isort_sorted; [apply Zleb_total | apply Zleb_trans]).
    rewrite !isort_perm. exact H.
Qed.

(* ---------- saturation ---------- *)
Lemma sat64_gt_iff x s : min_int64 <= s < max_int64 -> (sat64 x > s <-> x > s).
Proof.
  unfold sat64, max_int64, min_int64. intros Hs.
  destruct (Z.ltb_spec x (-9223372036854775808)); [split; lia|].
  destruct (Z.ltb_spec 9223372036854775807 x); split; lia.
Qed.

Lemma sat64_gt_imp x s : min_int64 <= s -> sat64 x > s -> x > s.
Proof.
  unfold sat64, max_int64, min_int64. intros Hs.
  destruct (Z.ltb_spec x (-9223372036854775808)); [lia|].
  destruct (Z.ltb_spec 9223372036854775807 x); lia.
Qed.

(* ---------- decimal print / parse round-trip ---------- *)
Definition pd_step (a d : Z) : Z := let v := a * 10 + d in if 18446744073709551616 <? v then 18446744073709551616 else v.

Fixpoint consume_f (fuel : nat) (z a : Z) : Z :=
  match fuel with
  | O => a
  | S f => if z <? 10 then pd_step a z else pd_step (consume_f f (z / 10) a) (z mod 10)
  end.

Lemma parse_digits_cons_digit d rest a : 0 <= d < 10 -> parse_digits ((ch_0 + d) :: rest) a = parse_digits rest (pd_step a d).
Proof.
  intros Hd. cbn [parse_digits]. unfold is_digit, ch_0.
  assert (E1 : (48 <=? 48 + d) = true) by (apply Z.leb_le; lia).
  assert (E2 : (48 + d <=? 57) = true) by (apply Z.leb_le; lia).
  rewrite E1, E2. cbn [andb]. unfold pd_step. replace (48 + d - 48) with d by lia. reflexivity.
Qed.

Lemma digits_fuel_S f z acc : digits_fuel (S f) z acc = if z <? 10 then (ch_0 + z) :: acc else digits_fuel f (z / 10) ((ch_0 + z mod 10) :: acc).
Proof. reflexivity. Qed.
Lemma consume_f_S f z a : consume_f (S f) z a = if z <? 10 then pd_step a z else pd_step (consume_f f (z / 10) a) (z mod 10).
Proof. reflexivity. Qed.

Lemma parse_digits_fuel f : forall z acc a, 0 <= z ->
  parse_digits (digits_fuel (S f) z acc) a = parse_digits acc (consume_f (S f) z a).
Proof.
  induction f as [|f IH]; intros z acc a Hz; rewrite digits_fuel_S, consume_f_S; destruct (z <? 10) eqn:E.
  - apply Z.ltb_lt in E. apply parse_digits_cons_digit. lia.
  - change (digits_fuel 0 (z / 10) ((ch_0 + z mod 10) :: acc)) with ((ch_0 + z mod 10) :: acc).
    change (consume_f 0 (z / 10) a) with a. apply parse_digits_cons_digit. apply Z.mod_pos_bound. lia.
  - apply Z.ltb_lt in E. apply parse_digits_cons_digit. lia.
  - apply Z.ltb_ge in E. rewrite IH by (apply Z.div_pos; lia). apply parse_digits_cons_digit. apply Z.mod_pos_bound. lia.
Qed.

Lemma consume_f_value f : forall z, 0 <= z < 10 ^ Z.of_nat f -> z <= 18446744073709551616 -> (0 < f)%nat -> consume_f f z 0 = z.
Proof.
  induction f as [|f IH]; intros z Hz Hcap Hf; [lia|].
  rewrite consume_f_S. destruct (z <? 10) eqn:E.
  - unfold pd_step. simpl. destruct (18446744073709551616 <? z) eqn:E2; [apply Z.ltb_lt in E2; lia | reflexivity].
  - apply Z.ltb_ge in E. destruct f as [|f'].
    + simpl in Hz. lia.
    + rewrite IH.
      * unfold pd_step. rewrite Z.mul_comm, <- Z.div_mod by lia. destruct (18446744073709551616 <? z) eqn:E2; [apply Z.ltb_lt in E2; lia | reflexivity].
      * split; [apply Z.div_pos; lia|]. apply Z.div_lt_upper_bound; [lia|]. rewrite Nat2Z.inj_succ, Z.pow_succ_r in Hz by lia. lia.
      * assert (z / 10 <= z) by (apply Z.div_le_upper_bound; lia). lia.
      * lia.
Qed.

Lemma digits_fuel_head f : forall z acc, 0 <= z -> exists c rest, digits_fuel (S f) z acc = c :: rest /\ 48 <= c <= 57.
Proof.
  induction f as [|f IH]; intros z acc Hz; rewrite digits_fuel_S; destruct (z <? 10) eqn:E.
  - apply Z.ltb_lt in E. exists (ch_0 + z), acc. unfold ch_0. split; [reflexivity | lia].
  - exists (ch_0 + z mod 10), acc. unfold ch_0. pose proof (Z.mod_pos_bound z 10 ltac:(lia)). split; [reflexivity | lia].
  - apply Z.ltb_lt in E. exists (ch_0 + z), acc. unfold ch_0. split; [reflexivity | lia].
  - apply Z.ltb_ge in E. apply IH. apply Z.div_pos; lia.
Qed.

Lemma parse_print_nat z : 0 <= z <= 18446744073709551616 -> parse_digits (print_nat_dec z) 0 = Some z.
Proof.
  intros Hz. unfold print_nat_dec. rewrite (parse_digits_fuel 39) by lia.
  rewrite (consume_f_value 40); [reflexivity | | lia | lia].
  split; [lia|]. change (Z.of_nat 40) with 40. assert (18446744073709551616 < 10 ^ 40) by (vm_compute; reflexivity). lia.
Qed.

(* strconv.ParseInt(fmt.Sprint(z), 10, 64) = z for every int64 *)
Theorem parse_print_roundtrip z : min_int64 <= z <= max_int64 -> parse_int (print_dec z) = Some z.
Proof.
  unfold min_int64, max_int64. intros Hz. unfold print_dec. destruct (z <? 0) eqn:E.
  - apply Z.ltb_lt in E. unfold parse_int. cbn [ch_minus]. rewrite Z.eqb_refl.
    destruct (digits_fuel_head 39 (- z) [] ltac:(lia)) as [c [rest [Hd Hc]]]. unfold print_nat_dec. rewrite Hd. rewrite <- Hd.
    change (digits_fuel 40 (- z) []) with (print_nat_dec (- z)). rewrite parse_print_nat by lia.
    replace (- - z) with z by lia. unfold in_int64, min_int64, max_int64.
    replace (-9223372036854775808 <=? z) with true by (symmetry; apply Z.leb_le; lia).
    replace (z <=? 9223372036854775807) with true by (symmetry; apply Z.leb_le; lia). reflexivity.
  - apply Z.ltb_ge in E. unfold parse_int.
    destruct (digits_fuel_head 39 z [] ltac:(lia)) as [c [rest [Hd Hc]]]. unfold print_nat_dec. rewrite Hd.
    unfold ch_minus, ch_plus.
    replace (c =? 45) with false by (symmetry; apply Z.eqb_neq; lia). replace (c =? 43) with false by (symmetry; apply Z.eqb_neq; lia).
    rewrite <- Hd. change (digits_fuel 40 z []) with (print_nat_dec z). rewrite parse_print_nat by lia.
    unfold in_int64, min_int64, max_int64.
    replace (-9223372036854775808 <=? z) with true by (symmetry; apply Z.leb_le; lia).
    replace (z <=? 9223372036854775807) with true by (symmetry; apply Z.leb_le; lia). reflexivity.
Qed.
