(* BaseProofs.v — facts about Base.v: insertion sort is a stable sorted permutation, decimal print/parse round-trip,
   saturation, multiset comparison through sorting. *)
From Esc Require Import Base.
From Coq Require Import Permutation Sorted.

(* ---------- insertion sort ---------- *)
Section SortFacts.
  Context {A : Type} (le : A -> A -> bool).

  Lemma insert_perm x l : Permutation (insert_sorted le x l) (x :: l).
  Proof.
    induction l as [|y l IH]; simpl; [reflexivity|].
    destruct (le x y); [reflexivity|].
    rewrite IH. apply perm_swap.
  Qed.

  Lemma isort_perm l : Permutation (isort le l) l.
  Proof.
    induction l as [|x l IH]; simpl; [reflexivity|].
    rewrite insert_perm. apply perm_skip. exact IH.
  Qed.

  Lemma isort_length l : length (isort le l) = length l.
  Proof. apply Permutation_length, isort_perm. Qed.

  Lemma isort_In x l : In x (isort le l) <-> In x l.
  Proof. split; apply Permutation_in; [apply isort_perm | symmetry; apply isort_perm]. Qed.

  Hypothesis le_total : forall a b, le a b = true \/ le b a = true.
  Hypothesis le_trans : forall a b c, le a b = true -> le b c = true -> le a c = true.

  Definition leP (a b : A) : Prop := le a b = true.

  Lemma insert_sorted_sorted x l : StronglySorted leP l -> StronglySorted leP (insert_sorted le x l).
  Proof.
    induction l as [|y l IH]; intros Hs; simpl.
    - constructor; constructor.
    - destruct (le x y) eqn:E.
      + constructor; [exact Hs|]. constructor; [exact E|].
        inversion Hs as [|? ? Hs' Hall]; subst. eapply Forall_impl; [|exact Hall].
        intros z Hz. eapply le_trans; eassumption.
      + inversion Hs as [|? ? Hs' Hall]; subst. constructor; [apply IH; exact Hs'|].
        assert (Hyx : le y x = true) by (destruct (le_total x y) as [H|H]; [congruence | exact H]).
        eapply Permutation_Forall; [symmetry; apply insert_perm|].
        constructor; assumption.
  Qed.

  Lemma isort_sorted l : StronglySorted leP (isort le l).
  Proof. induction l as [|x l IH]; simpl; [constructor | apply insert_sorted_sorted; exact IH]. Qed.
End SortFacts.

(* ---------- multisets of numbers through sorting ---------- *)
Lemma list_eqb_Z_eq a b : list_eqb Z.eqb a b = true <-> a = b.
Proof.
  revert b; induction a as [|x a IH]; destruct b as [|y b]; simpl; split; intros H; try reflexivity; try discriminate.
  - apply andb_prop in H. destruct H as [H1 H2]. apply Z.eqb_eq in H1. apply IH in H2. subst. reflexivity.
  - inversion H; subst. rewrite Z.eqb_refl. simpl. apply IH. reflexivity.
Qed.

Lemma sorted_perm_eq (a b : list Z) :
  StronglySorted (leP Z.leb) a -> StronglySorted (leP Z.leb) b -> Permutation a b -> a = b.
Proof.
  revert b; induction a as [|x a IH]; intros b Ha Hb Hp.
  - apply Permutation_nil in Hp. subst. reflexivity.
  - destruct b as [|y b]; [apply Permutation_sym, Permutation_nil in Hp; discriminate|].
    inversion Ha as [|? ? Ha' Hxa]; subst. inversion Hb as [|? ? Hb' Hyb]; subst.
    assert (Hxy : x = y).
    { assert (Hx : In x (y :: b)) by (eapply Permutation_in; [exact Hp | left; reflexivity]).
      assert (Hy : In y (x :: a)) by (eapply Permutation_in; [symmetry; exact Hp | left; reflexivity]).
      destruct Hx as [Hx|Hx]; [congruence|]. destruct Hy as [Hy|Hy]; [congruence|].
      rewrite Forall_forall in Hxa, Hyb. specialize (Hxa _ Hy). specialize (Hyb _ Hx).
      unfold leP in *. apply Z.leb_le in Hxa, Hyb. lia. }
    subst y. f_equal. apply IH; try assumption. eapply Permutation_cons_inv. exact Hp.
Qed.

Lemma Zleb_total a b : Z.leb a b = true \/ Z.leb b a = true.
Proof. destruct (Z.leb_spec a b); [left; reflexivity | right; apply Z.leb_le; lia]. Qed.
Lemma Zleb_trans a b c : Z.leb a b = true -> Z.leb b c = true -> Z.leb a c = true.
Proof. rewrite !Z.leb_le. lia. Qed.

Lemma same_sorted_iff_perm (a b : list Z) : isort Z.leb a = isort Z.leb b <-> Permutation a b.
Proof.
  split; intros H.
  - rewrite <- (isort_perm Z.leb a), <- (isort_perm Z.leb b), H. reflexivity.
  - apply sorted_perm_eq; try (apply isort_sorted; [apply Zleb_total | apply Zleb_trans]).
    rewrite !isort_perm. exact H.
Qed.

(* ---------- saturation ---------- *)
Lemma sat64_gt_iff x s : min_int64 <= s < max_int64 -> (sat64 x > s <-> x > s).
Proof.
  unfold sat64, max_int64, min_int64. intros Hs.
  destruct (Z.ltb_spec x (-9223372036854775808)); [split; lia|].
  destruct (Z.ltb_spec 9223372036854775807 x); split; lia.
Qed.

Lemma sat64_gt_imp x s : min_int64 <= s -> sat64 x > s -> x > s.
Proof.
  unfold sat64, max_int64, min_int64. intros Hs.
  destruct (Z.ltb_spec x (-9223372036854775808)); [lia|].
  destruct (Z.ltb_spec 9223372036854775807 x); lia.
Qed.
