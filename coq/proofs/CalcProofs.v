(* CalcProofs.v — integer and list lemmas for C13 (request/capacity definition, order independence) and
   C05 (the exact-rational twin of calcScaleUpDelta).  No floats here (see FloatProofs.v). *)
From Coq Require Import ZArith List Bool Lia Permutation.
From Coq Require Import ZifyBool.
From Esc Require Import SpecCalc.
Import ListNotations.
Open Scope Z_scope.

(* ====================================================================================================== *)
(* maxima                                                                                                 *)
(* ====================================================================================================== *)
Lemma zmax_list_ge_base b l : b <= zmax_list b l.
Proof. induction l; simpl; lia. Qed.

Lemma zmax_list_ge_all b l : Forall (fun v => v <= zmax_list b l) l.
Proof.
  induction l as [|a l IH]; simpl; constructor; [lia|].
  eapply Forall_impl; [|exact IH]. simpl; intros; lia.
Qed.

Lemma zmax_list_attained b l : zmax_list b l = b \/ In (zmax_list b l) l.
Proof.
  induction l as [|a l IH]; simpl; [now left|].
  destruct (Z.max_spec a (zmax_list b l)) as [[_ H]|[_ H]]; rewrite H; [|now right; left].
  destruct IH as [IH|IH]; [now left|now right; right].
Qed.

Lemma zmax_list_is_max b l : is_max_of b l (zmax_list b l).
Proof. split; [apply zmax_list_attained|split; [apply zmax_list_ge_base|apply zmax_list_ge_all]]. Qed.

Lemma is_max_of_unique b l m1 m2 : is_max_of b l m1 -> is_max_of b l m2 -> m1 = m2.
Proof.
  intros [A1 [B1 C1]] [A2 [B2 C2]]. rewrite Forall_forall in C1, C2.
  assert (L1 : m1 <= m2) by (destruct A1 as [->|G]; [exact B2|exact (C2 _ G)]).
  assert (L2 : m2 <= m1) by (destruct A2 as [->|G]; [exact B1|exact (C1 _ G)]).
  lia.
Qed.

Lemma is_max_of_iff b l m : is_max_of b l m <-> m = zmax_list b l.
Proof.
  split; [intro H; exact (is_max_of_unique _ _ _ _ H (zmax_list_is_max b l))|intros ->; apply zmax_list_is_max].
Qed.

Lemma zmax_list_max_base a b l : zmax_list (Z.max b a) l = Z.max a (zmax_list b l).
Proof. induction l as [|x l IH]; simpl; [lia|rewrite IH; lia]. Qed.

Lemma zmax_list_app b l1 l2 : zmax_list b (l1 ++ l2) = zmax_list (zmax_list b l2) l1.
Proof. induction l1; simpl; congruence. Qed.

Lemma sumZ_app l1 l2 : sumZ (l1 ++ l2) = sumZ l1 + sumZ l2.
Proof. induction l1; simpl; lia. Qed.

(* ====================================================================================================== *)
(* C13 — the request of one pod                                                                           *)
(* ====================================================================================================== *)
Lemma fold_add_cpu cs r : r_cpu (fold_left res_add cs r) = r_cpu r + sumZ (present_cpu cs).
Proof.
  revert r; induction cs as [|c cs IH]; intro r; [simpl; lia|].
  change (fold_left res_add (c :: cs) r) with (fold_left res_add cs (res_add r c)).
  change (present_cpu (c :: cs)) with ((match c_cpu c with Some q => [q_milli q] | None => [] end) ++ present_cpu cs).
  rewrite IH, sumZ_app. unfold res_add; simpl.
  destruct (c_cpu c); simpl; lia.
Qed.

Lemma fold_add_mem cs r : r_mem (fold_left res_add cs r) = r_mem r + sumZ (present_mem cs).
Proof.
  revert r; induction cs as [|c cs IH]; intro r; [simpl; lia|].
  change (fold_left res_add (c :: cs) r) with (fold_left res_add cs (res_add r c)).
  change (present_mem (c :: cs)) with ((match c_mem c with Some q => [q_value q] | None => [] end) ++ present_mem cs).
  rewrite IH, sumZ_app. unfold res_add; simpl.
  destruct (c_mem c); simpl; lia.
Qed.

Lemma fold_setmax_cpu cs r : r_cpu (fold_left res_setmax cs r) = zmax_list (r_cpu r) (present_cpu cs).
Proof.
  revert r; induction cs as [|c cs IH]; intro r; [reflexivity|].
  change (fold_left res_setmax (c :: cs) r) with (fold_left res_setmax cs (res_setmax r c)).
  change (present_cpu (c :: cs)) with ((match c_cpu c with Some q => [q_milli q] | None => [] end) ++ present_cpu cs).
  rewrite IH, zmax_list_app. unfold res_setmax; simpl.
  destruct (c_cpu c); simpl; [|reflexivity].
  rewrite zmax_list_max_base; lia.
Qed.

Lemma fold_setmax_mem cs r : r_mem (fold_left res_setmax cs r) = zmax_list (r_mem r) (present_mem cs).
Proof.
  revert r; induction cs as [|c cs IH]; intro r; [reflexivity|].
  change (fold_left res_setmax (c :: cs) r) with (fold_left res_setmax cs (res_setmax r c)).
  change (present_mem (c :: cs)) with ((match c_mem c with Some q => [q_value q] | None => [] end) ++ present_mem cs).
  rewrite IH, zmax_list_app. unfold res_setmax; simpl.
  destruct (c_mem c); simpl; [|reflexivity].
  rewrite zmax_list_max_base; lia.
Qed.

Lemma pod_request_cpu p : r_cpu (pod_request p) = spec_pod_cpu p.
Proof.
  unfold pod_request, spec_pod_cpu, overhead_cpu.
  destruct (p_overhead p) as [o|]; simpl; rewrite fold_setmax_cpu, fold_add_cpu; simpl; lia.
Qed.

Lemma pod_request_mem p : r_mem (pod_request p) = spec_pod_mem p.
Proof.
  unfold pod_request, spec_pod_mem, overhead_mem.
  destruct (p_overhead p) as [o|]; simpl; rewrite fold_setmax_mem, fold_add_mem; simpl; lia.
Qed.

Lemma res_eta r : r = {| r_cpu := r_cpu r; r_mem := r_mem r |}.
Proof. destruct r; reflexivity. Qed.

(* the model's request is the documented one: max (sum of containers, largest init container) + overhead *)
Lemma pod_request_spec p : P_pod_request p (pod_request p).
Proof.
  exists (zmax_list (sumZ (present_cpu (p_ctrs p))) (present_cpu (p_inits p))),
         (zmax_list (sumZ (present_mem (p_ctrs p))) (present_mem (p_inits p))).
  repeat split; try apply zmax_list_attained; try apply zmax_list_ge_base; try apply zmax_list_ge_all.
  - apply pod_request_cpu.
  - apply pod_request_mem.
Qed.

(* … and the documented relation determines the answer *)
Lemma pod_request_unique p r : P_pod_request p r -> r = pod_request p.
Proof.
  intros [mc [mm [Hc [Hm [Ec Em]]]]].
  apply is_max_of_iff in Hc; apply is_max_of_iff in Hm.
  rewrite (res_eta r), (res_eta (pod_request p)), pod_request_cpu, pod_request_mem, Ec, Em, Hc, Hm.
  reflexivity.
Qed.

(* particular readings of the definition *)
Lemma pod_request_no_inits p :
  p_inits p = [] -> r_cpu (pod_request p) = sumZ (present_cpu (p_ctrs p)) + overhead_cpu p
                 /\ r_mem (pod_request p) = sumZ (present_mem (p_ctrs p)) + overhead_mem p.
Proof. intro H; rewrite pod_request_cpu, pod_request_mem; unfold spec_pod_cpu, spec_pod_mem; rewrite H; simpl; lia. Qed.

(* ====================================================================================================== *)
(* C13 — totals are sums, largest values are maxima                                                       *)
(* ====================================================================================================== *)
Definition usage0 : usage := {| u_total := res0; u_big_mem := res0; u_big_cpu := res0 |}.
Definition capacity0 : capacity := {| k_total := res0; k_big_mem := res0; k_big_cpu := res0 |}.

Lemma usage_fold_total pods u :
  r_cpu (u_total (fold_left usage_step pods u)) = r_cpu (u_total u) + sumZ (map (fun p => r_cpu (pod_request p)) pods)
  /\ r_mem (u_total (fold_left usage_step pods u)) = r_mem (u_total u) + sumZ (map (fun p => r_mem (pod_request p)) pods).
Proof.
  revert u; induction pods as [|p pods IH]; intro u; simpl; [lia|].
  destruct (IH (usage_step u p)) as [H1 H2]; rewrite H1, H2.
  unfold usage_step; destruct (p_phase p =? id_Pending); simpl; lia.
Qed.

Lemma usage_fold_big pods u :
  r_cpu (u_big_cpu (fold_left usage_step pods u))
    = zmax_list (r_cpu (u_big_cpu u)) (map (fun p => r_cpu (pod_request p)) (filter pod_pending pods))
  /\ r_mem (u_big_mem (fold_left usage_step pods u))
    = zmax_list (r_mem (u_big_mem u)) (map (fun p => r_mem (pod_request p)) (filter pod_pending pods)).
Proof.
  revert u; induction pods as [|p pods IH]; intro u; simpl; [split; reflexivity|].
  destruct (IH (usage_step u p)) as [H1 H2]; rewrite H1, H2; clear IH H1 H2.
  unfold usage_step, pod_pending; destruct (p_phase p =? id_Pending); simpl; [|split; reflexivity].
  split.
  - destruct (r_cpu (u_big_cpu u) <? r_cpu (pod_request p)) eqn:E; rewrite <- zmax_list_max_base; f_equal; lia.
  - destruct (r_mem (u_big_mem u) <? r_mem (pod_request p)) eqn:E; rewrite <- zmax_list_max_base; f_equal; lia.
Qed.

(* the stored "largest pending" records are either untouched (all zero) or have a positive leading component *)
Definition big_inv (u : usage) : Prop :=
  (u_big_cpu u = res0 \/ 0 < r_cpu (u_big_cpu u)) /\ (u_big_mem u = res0 \/ 0 < r_mem (u_big_mem u)).

Lemma usage_step_inv u p : big_inv u -> big_inv (usage_step u p).
Proof.
  intros [Hc Hm]; unfold usage_step, big_inv.
  destruct (p_phase p =? id_Pending); simpl; [|tauto].
  split.
  - destruct (r_cpu (u_big_cpu u) <? r_cpu (pod_request p)) eqn:E; [|exact Hc].
    right. destruct Hc as [Hc|Hc]; [rewrite Hc in E; simpl in E|]; lia.
  - destruct (r_mem (u_big_mem u) <? r_mem (pod_request p)) eqn:E; [|exact Hm].
    right. destruct Hm as [Hm|Hm]; [rewrite Hm in E; simpl in E|]; lia.
Qed.

Lemma usage_fold_inv pods u : big_inv u -> big_inv (fold_left usage_step pods u).
Proof. revert u; induction pods; intros u H; simpl; [exact H|apply IHpods, usage_step_inv, H]. Qed.

Lemma pods_usage_inv pods : big_inv (pods_usage pods).
Proof. apply usage_fold_inv; split; left; reflexivity. Qed.

Definition cap_inv (k : capacity) : Prop :=
  (k_big_cpu k = res0 \/ 0 < r_cpu (k_big_cpu k)) /\ (k_big_mem k = res0 \/ 0 < r_mem (k_big_mem k)).

Local Opaque node_available.
Lemma capacity_fold pods nodes k :
  let k' := fold_left (capacity_step pods) nodes k in
  r_cpu (k_total k') = r_cpu (k_total k) + sumZ (map node_cpu nodes)
  /\ r_mem (k_total k') = r_mem (k_total k) + sumZ (map node_mem nodes)
  /\ r_cpu (k_big_cpu k') = zmax_list (r_cpu (k_big_cpu k)) (map (fun n => r_cpu (node_available pods n)) nodes)
  /\ r_mem (k_big_mem k') = zmax_list (r_mem (k_big_mem k)) (map (fun n => r_mem (node_available pods n)) nodes).
Proof.
  revert k; induction nodes as [|n nodes IH]; intro k; cbv zeta; simpl; [repeat split; lia|].
  cbv zeta in IH. destruct (IH (capacity_step pods k n)) as [H1 [H2 [H3 H4]]]; rewrite H1, H2, H3, H4; clear IH H1 H2 H3 H4.
  unfold capacity_step; simpl. repeat split; try lia.
  - destruct (r_cpu (k_big_cpu k) <? r_cpu (node_available pods n)) eqn:E; rewrite <- zmax_list_max_base; f_equal; lia.
  - destruct (r_mem (k_big_mem k) <? r_mem (node_available pods n)) eqn:E; rewrite <- zmax_list_max_base; f_equal; lia.
Qed.
Local Transparent node_available.

Lemma map_ext_filter {A} (f g : A -> Z) l : (forall x, f x = g x) -> map f l = map g l.
Proof. intro H; apply map_ext; exact H. Qed.

Lemma node_available_spec pods n :
  node_available pods n = {| r_cpu := spec_avail_cpu pods n; r_mem := spec_avail_mem pods n |}.
Proof.
  unfold node_available, spec_avail_cpu, spec_avail_mem, pod_on. f_equal; f_equal; f_equal; apply map_ext; intro p;
    [apply pod_request_cpu|apply pod_request_mem].
Qed.

(* --- the model's totals are the documented sums / maxima (c13_totals) --- *)
Lemma pods_usage_total pods :
  u_total (pods_usage pods) = {| r_cpu := spec_req_cpu pods; r_mem := spec_req_mem pods |}.
Proof.
  rewrite (res_eta (u_total _)). unfold pods_usage.
  destruct (usage_fold_total pods usage0) as [H1 H2]. fold usage0. rewrite H1, H2; simpl.
  unfold spec_req_cpu, spec_req_mem. f_equal; f_equal; apply map_ext; intro p; [apply pod_request_cpu|apply pod_request_mem].
Qed.

Lemma pods_usage_big pods :
  r_cpu (u_big_cpu (pods_usage pods)) = spec_pend_cpu pods /\ r_mem (u_big_mem (pods_usage pods)) = spec_pend_mem pods.
Proof.
  unfold pods_usage. fold usage0. destruct (usage_fold_big pods usage0) as [H1 H2]. rewrite H1, H2; simpl.
  unfold spec_pend_cpu, spec_pend_mem.
  split; f_equal; apply map_ext; intro p; [apply pod_request_cpu|apply pod_request_mem].
Qed.

Lemma nodes_capacity_total nodes pods :
  k_total (nodes_capacity nodes pods) = {| r_cpu := spec_cap_cpu nodes; r_mem := spec_cap_mem nodes |}.
Proof.
  rewrite (res_eta (k_total _)). unfold nodes_capacity. fold capacity0.
  destruct (capacity_fold pods nodes capacity0) as [H1 [H2 _]]. rewrite H1, H2. reflexivity.
Qed.

Lemma nodes_capacity_big nodes pods :
  r_cpu (k_big_cpu (nodes_capacity nodes pods)) = spec_big_avail_cpu nodes pods
  /\ r_mem (k_big_mem (nodes_capacity nodes pods)) = spec_big_avail_mem nodes pods.
Proof.
  unfold nodes_capacity. fold capacity0.
  destruct (capacity_fold pods nodes capacity0) as [_ [_ [H3 H4]]]. rewrite H3, H4.
  change (r_cpu (k_big_cpu capacity0)) with 0. change (r_mem (k_big_mem capacity0)) with 0.
  unfold spec_big_avail_cpu, spec_big_avail_mem.
  split; f_equal; apply map_ext; intro n; rewrite node_available_spec; reflexivity.
Qed.

(* emptiness of the stored record is decided by its leading component *)
Lemma pods_usage_empty pods :
  ((r_cpu (u_big_cpu (pods_usage pods)) =? 0) && (r_mem (u_big_cpu (pods_usage pods)) =? 0)) = (r_cpu (u_big_cpu (pods_usage pods)) =? 0)
  /\ ((r_cpu (u_big_mem (pods_usage pods)) =? 0) && (r_mem (u_big_mem (pods_usage pods)) =? 0)) = (r_mem (u_big_mem (pods_usage pods)) =? 0).
Proof.
  destruct (pods_usage_inv pods) as [[H|H] [G|G]]; try rewrite H; try rewrite G; simpl; split; try reflexivity; lia.
Qed.

(* isScaleOnStarve's test reads four numbers only *)
Lemma starve_cond_numbers pods nodes :
  let u := pods_usage pods in let k := nodes_capacity nodes pods in
  starve_cond u k = starve_numbers (r_cpu (u_big_cpu u)) (r_mem (u_big_mem u)) (r_cpu (k_big_cpu k)) (r_mem (k_big_mem k)).
Proof.
  intros u k; unfold starve_cond, starve_numbers, u.
  destruct (pods_usage_empty pods) as [H1 H2]; rewrite H1, H2; reflexivity.
Qed.

(* ====================================================================================================== *)
(* C13 — order independence                                                                               *)
(* ====================================================================================================== *)
Lemma sumZ_perm l l' : Permutation l l' -> sumZ l = sumZ l'.
Proof. induction 1; simpl; lia. Qed.

Lemma zmax_list_perm b l l' : Permutation l l' -> zmax_list b l = zmax_list b l'.
Proof. induction 1; simpl; lia. Qed.

Lemma filter_perm {A} (f : A -> bool) l l' : Permutation l l' -> Permutation (filter f l) (filter f l').
Proof.
  induction 1; simpl.
  - constructor.
  - destruct (f x); [constructor|]; assumption.
  - destruct (f x), (f y); try apply Permutation_refl; apply perm_swap.
  - eapply Permutation_trans; eassumption.
Qed.

Lemma sum_map_perm {A} (f : A -> Z) l l' : Permutation l l' -> sumZ (map f l) = sumZ (map f l').
Proof. intro H; apply sumZ_perm, Permutation_map, H. Qed.

Lemma max_map_perm {A} (f : A -> Z) b l l' : Permutation l l' -> zmax_list b (map f l) = zmax_list b (map f l').
Proof. intro H; apply zmax_list_perm, Permutation_map, H. Qed.

Lemma spec_avail_perm pods pods' n : Permutation pods pods' ->
  spec_avail_cpu pods n = spec_avail_cpu pods' n /\ spec_avail_mem pods n = spec_avail_mem pods' n.
Proof.
  intro H; unfold spec_avail_cpu, spec_avail_mem.
  rewrite (sum_map_perm spec_pod_cpu _ _ (filter_perm (pod_on n) _ _ H)),
          (sum_map_perm spec_pod_mem _ _ (filter_perm (pod_on n) _ _ H)). split; reflexivity.
Qed.

Record decision_inputs := {
  di_req : res; di_cap : res; di_pend_cpu : Z; di_pend_mem : Z; di_avail_cpu : Z; di_avail_mem : Z
}.
(* everything the decision reads of the two calculators *)
Definition decision_inputs_of (pods : list pod) (nodes : list node) : decision_inputs :=
  let u := pods_usage pods in let k := nodes_capacity nodes pods in
  {| di_req := u_total u; di_cap := k_total k;
     di_pend_cpu := r_cpu (u_big_cpu u); di_pend_mem := r_mem (u_big_mem u);
     di_avail_cpu := r_cpu (k_big_cpu k); di_avail_mem := r_mem (k_big_mem k) |}.

Lemma decision_inputs_perm pods pods' nodes nodes' :
  Permutation pods pods' -> Permutation nodes nodes' -> decision_inputs_of pods nodes = decision_inputs_of pods' nodes'.
Proof.
  intros Hp Hn. unfold decision_inputs_of.
  rewrite !pods_usage_total, !nodes_capacity_total.
  destruct (pods_usage_big pods) as [A1 A2], (pods_usage_big pods') as [B1 B2].
  destruct (nodes_capacity_big nodes pods) as [C1 C2], (nodes_capacity_big nodes' pods') as [D1 D2].
  rewrite A1, A2, B1, B2, C1, C2, D1, D2.
  unfold spec_req_cpu, spec_req_mem, spec_cap_cpu, spec_cap_mem, spec_pend_cpu, spec_pend_mem, spec_big_avail_cpu, spec_big_avail_mem.
  rewrite (sum_map_perm spec_pod_cpu _ _ Hp), (sum_map_perm spec_pod_mem _ _ Hp),
          (sum_map_perm node_cpu _ _ Hn), (sum_map_perm node_mem _ _ Hn),
          (max_map_perm spec_pod_cpu 0 _ _ (filter_perm pod_pending _ _ Hp)),
          (max_map_perm spec_pod_mem 0 _ _ (filter_perm pod_pending _ _ Hp)),
          (max_map_perm (spec_avail_cpu pods) 0 _ _ Hn), (max_map_perm (spec_avail_mem pods) 0 _ _ Hn).
  f_equal; f_equal; apply map_ext; intro n; apply (spec_avail_perm _ _ n Hp).
Qed.

Lemma perm_zlen {A} (l l' : list A) : Permutation l l' -> zlen l = zlen l'.
Proof. intro H; unfold zlen; f_equal; apply Permutation_length, H. Qed.

(* hence equal percentages (whatever calc_percent computes) and an equal starvation test *)
Lemma percent_perm pods pods' nodes nodes' :
  Permutation pods pods' -> Permutation nodes nodes' ->
  let u := pods_usage pods in let k := nodes_capacity nodes pods in
  let u' := pods_usage pods' in let k' := nodes_capacity nodes' pods' in
  calc_percent (r_cpu (u_total u)) (1000 * r_mem (u_total u)) (r_cpu (k_total k)) (1000 * r_mem (k_total k)) (zlen nodes)
  = calc_percent (r_cpu (u_total u')) (1000 * r_mem (u_total u')) (r_cpu (k_total k')) (1000 * r_mem (k_total k')) (zlen nodes')
  /\ starve_cond u k = starve_cond u' k'.
Proof.
  intros Hp Hn u k u' k'.
  pose proof (decision_inputs_perm _ _ _ _ Hp Hn) as H. unfold decision_inputs_of in H.
  injection H as H1 H2 H3 H4 H5 H6. fold u k u' k' in H1, H2, H3, H4, H5, H6.
  split.
  - rewrite H1, H2, (perm_zlen _ _ Hn). reflexivity.
  - unfold u, k, u', k'. rewrite !starve_cond_numbers. fold u k u' k'. rewrite H3, H4, H5, H6. reflexivity.
Qed.

(* ====================================================================================================== *)
(* C05 — the exact-rational twin                                                                          *)
(* ====================================================================================================== *)
Ltac Zify.zify_post_hook ::= Z.div_mod_to_equations.

(* ceil_div a b is the least k with a <= k * b (b > 0) *)
Lemma ceil_div_le a b k : 0 < b -> (ceil_div a b <= k <-> a <= k * b).
Proof. intro Hb; unfold ceil_div; split; intro H; nia. Qed.

Lemma ceil_div_upper a b : 0 < b -> a <= ceil_div a b * b.
Proof. intro Hb; apply ceil_div_le; [exact Hb|lia]. Qed.

Lemma ceil_div_lower a b : 0 < b -> (ceil_div a b - 1) * b < a.
Proof.
  intro Hb. destruct (Z_lt_le_dec ((ceil_div a b - 1) * b) a) as [H|H]; [exact H|].
  pose proof (proj2 (ceil_div_le a b (ceil_div a b - 1) Hb) H). lia.
Qed.

Lemma ceil_div_shift a b n : b <> 0 -> ceil_div (a - n * b) b = ceil_div a b - n.
Proof.
  intro Hb; unfold ceil_div. replace (- (a - n * b)) with (- a + n * b) by lia.
  rewrite Z.div_add by exact Hb. lia.
Qed.

(* m nodes hold r at or below t percent exactly when m is at least nodes_needed_exact *)
Lemma nodes_needed_least r c t m : 0 < c -> 0 < t -> (holds_at r c t m <-> nodes_needed_exact r c t <= m).
Proof.
  intros Hc Ht. unfold holds_at, nodes_needed_exact. rewrite ceil_div_le by nia.
  replace (t * m * c) with (m * (t * c)) by lia. reflexivity.
Qed.

Lemma nodes_needed_holds r c t : 0 < c -> 0 < t -> holds_at r c t (nodes_needed_exact r c t).
Proof. intros; apply nodes_needed_least; [assumption..|lia]. Qed.

Lemma nodes_needed_tight r c t m : 0 < c -> 0 < t -> m < nodes_needed_exact r c t -> ~ holds_at r c t m.
Proof. intros Hc Ht H G; pose proof (proj1 (nodes_needed_least r c t m Hc Ht) G); lia. Qed.

(* c05_exact: n + ceil (n * (100 r / (n c) - t) / t) is exactly the least sufficient node count *)
Lemma exact_delta_spec r c t n : 0 < c -> 0 < t -> n + exact_delta r c t n = nodes_needed_exact r c t.
Proof.
  intros Hc Ht. unfold exact_delta, nodes_needed_exact.
  replace (100 * r - t * n * c) with (100 * r - n * (t * c)) by lia.
  rewrite ceil_div_shift by nia. lia.
Qed.

Lemma exact_delta_positive r c t n : 0 < c -> 0 < t -> 0 < n -> exceeds r (n * c) t = true -> 0 < exact_delta r c t n.
Proof.
  intros Hc Ht Hn He. unfold exceeds in He.
  destruct (Z_lt_le_dec 0 (exact_delta r c t n)) as [H|H]; [exact H|exfalso].
  unfold exact_delta in H.
  assert (Hb : 0 < t * c) by nia.
  pose proof (proj1 (ceil_div_le _ (t * c) 0 Hb) H) as G.
  apply Z.ltb_lt in He. nia.
Qed.

(* both resources *)
Lemma m_min_least rc rm cc cm t m : 0 < cc -> 0 < cm -> 0 < t ->
  (holds_at rc cc t m /\ holds_at rm cm t m <-> m_min rc rm cc cm t <= m).
Proof.
  intros. unfold m_min. rewrite !nodes_needed_least by assumption. lia.
Qed.

Lemma m_min_above_n rc rm cc cm t n : 0 < cc -> 0 < cm -> 0 < t ->
  exceeds rc (n * cc) t = true \/ exceeds rm (n * cm) t = true -> n < m_min rc rm cc cm t.
Proof.
  intros Hc Hm Ht He.
  destruct (Z_lt_le_dec n (m_min rc rm cc cm t)) as [H|H]; [exact H|exfalso].
  pose proof (proj2 (m_min_least rc rm cc cm t n Hc Hm Ht) H) as [G1 G2]. unfold holds_at, exceeds in *.
  destruct He as [He|He]; apply Z.ltb_lt in He; nia.
Qed.

(* ---------- the boolean checker decides the property (normal branch) ---------- *)
Definition P_C05_normal (a : arith_in) (d : Z) : Prop :=
  let cc := a_cpu_cap a / a_n a in let cm := a_mem_cap a / a_n a in
  (* sufficient *)
  (holds_at (a_cpu_req a) cc (a_thr a) (a_n a + d) /\ holds_at (a_mem_req a) cm (a_thr a) (a_n a + d))
  (* at most one more than any sufficient count (inside the region where that is proved) *)
  /\ (upper_region (c05_m_min a) = true ->
      forall m, holds_at (a_cpu_req a) cc (a_thr a) m -> holds_at (a_mem_req a) cm (a_thr a) m -> a_n a + d <= m + 1).

Lemma c05_normal_sizes a : c05_normal a = true ->
  0 < a_n a /\ 0 < a_thr a /\ 0 < a_cpu_cap a / a_n a /\ 0 < a_mem_cap a / a_n a
  /\ a_cpu_cap a = a_n a * (a_cpu_cap a / a_n a) /\ a_mem_cap a = a_n a * (a_mem_cap a / a_n a).
Proof.
  unfold c05_normal; intro H.
  assert (Hn : 0 < a_n a) by lia. assert (Ht : 0 < a_thr a) by lia.
  assert (Hc : 0 < a_cpu_cap a) by lia. assert (Hm : 0 < a_mem_cap a) by lia.
  assert (Dc : a_cpu_cap a mod a_n a = 0) by lia. assert (Dm : a_mem_cap a mod a_n a = 0) by lia.
  clear H.
  pose proof (Z.div_mod (a_cpu_cap a) (a_n a) ltac:(lia)) as Ec. rewrite Dc in Ec.
  pose proof (Z.div_mod (a_mem_cap a) (a_n a) ltac:(lia)) as Em. rewrite Dm in Em.
  repeat split; try assumption; try lia; nia.
Qed.

Lemma check_delta_normal_sound a d :
  c05_normal a = true -> check_delta a (Some (d, false)) = true -> P_C05_normal a d.
Proof.
  intros Hn Hc. unfold check_delta in Hc; rewrite Hn in Hc.
  destruct (c05_normal_sizes a Hn) as [H1 [H2 [H3 [H4 _]]]].
  apply andb_prop in Hc; destruct Hc as [Hlo Hup].
  unfold P_C05_normal; split.
  - apply m_min_least; try assumption. unfold c05_m_min in Hlo. lia.
  - intros Hr m Hm1 Hm2. rewrite Hr in Hup.
    assert (c05_m_min a <= m) by (apply m_min_least; try assumption; split; assumption). lia.
Qed.

Lemma check_delta_normal_complete a d :
  c05_normal a = true -> P_C05_normal a d -> check_delta a (Some (d, false)) = true.
Proof.
  intros Hn [Hs Hu]. unfold check_delta; rewrite Hn.
  destruct (c05_normal_sizes a Hn) as [H1 [H2 [H3 [H4 _]]]].
  apply andb_true_intro; split.
  - apply m_min_least in Hs; try assumption. unfold c05_m_min. lia.
  - destruct (upper_region (c05_m_min a)) eqn:E; [|reflexivity].
    assert (G : c05_m_min a <= c05_m_min a) by lia.
    apply m_min_least in G; try assumption. destruct G as [G1 G2].
    specialize (Hu eq_refl _ G1 G2). lia.
Qed.

(* ---------- the boolean checker of the C13 totals decides the definition ---------- *)
Lemma pod_pending_phase p : pod_pending p = (p_phase p =? id_Pending).
Proof. reflexivity. Qed.

(* ====================================================================================================== *)
(* special cases of calcPercentUsage / calcScaleUpDelta (no float reasoning needed)                        *)
(* ====================================================================================================== *)
Lemma percent_all_zero : calc_percent 0 0 0 0 0 = PctOk f_zero f_zero.
Proof. reflexivity. Qed.

Lemma percent_zero_capacity_no_nodes cpuReq memReq cpuCap memCap :
  cpuCap = 0 \/ memCap = 0 -> ~ (cpuReq = 0 /\ memReq = 0 /\ cpuCap = 0 /\ memCap = 0) ->
  calc_percent cpuReq memReq cpuCap memCap 0 = PctOk f_max f_max.
Proof.
  intros Hz Hnz. unfold calc_percent.
  destruct ((cpuReq =? 0) && (memReq =? 0) && (cpuCap =? 0) && (memCap =? 0) && (0 =? 0)) eqn:E; [exfalso; apply Hnz; lia|].
  destruct ((cpuCap =? 0) || (memCap =? 0)) eqn:F; [reflexivity|lia].
Qed.

Lemma percent_zero_capacity_error cpuReq memReq cpuCap memCap n :
  cpuCap = 0 \/ memCap = 0 -> n <> 0 -> calc_percent cpuReq memReq cpuCap memCap n = PctErr.
Proof.
  intros Hz Hn. unfold calc_percent.
  destruct ((cpuReq =? 0) && (memReq =? 0) && (cpuCap =? 0) && (memCap =? 0) && (n =? 0)) eqn:E; [lia|].
  destruct ((cpuCap =? 0) || (memCap =? 0)) eqn:F; [|lia].
  destruct (n =? 0) eqn:G; [lia|reflexivity].
Qed.

Lemma percent_quotient cpuReq memReq cpuCap memCap n :
  cpuCap <> 0 -> memCap <> 0 ->
  calc_percent cpuReq memReq cpuCap memCap n
  = PctOk (fmul (fdiv (of_Z cpuReq) (of_Z cpuCap)) f100) (fmul (fdiv (of_Z memReq) (of_Z memCap)) f100).
Proof.
  intros Hc Hm. unfold calc_percent.
  destruct ((cpuReq =? 0) && (memReq =? 0) && (cpuCap =? 0) && (memCap =? 0) && (n =? 0)) eqn:E; [lia|].
  destruct ((cpuCap =? 0) || (memCap =? 0)) eqn:F; [lia|reflexivity].
Qed.

Lemma feq_max_max : feq f_max f_max = true.
Proof. vm_compute. reflexivity. Qed.

(* from zero without a cached node size: scale up by exactly one node *)
Lemma delta_zero_uncached n cpuPct memPct cpuReq memReq thr ccpu cmem :
  feq cpuPct f_max = true \/ feq memPct f_max = true ->
  q_num ccpu = 0 \/ q_num cmem = 0 ->
  calc_delta n cpuPct memPct cpuReq memReq thr ccpu cmem = DeltaOk 1.
Proof.
  intros Hp Hc. unfold calc_delta.
  destruct (feq cpuPct f_max || feq memPct f_max) eqn:E.
  - destruct ((q_num ccpu =? 0) || (q_num cmem =? 0)) eqn:F; [reflexivity|lia].
  - destruct Hp as [Hp|Hp]; rewrite Hp in E; simpl in E; try discriminate. rewrite orb_true_r in E; discriminate.
Qed.

(* the K1 witness on the bit-exact model: 2139 nodes of 605053517824 B at threshold 94 with 2514445106161910 B requested *)
Definition k1_witness : arith_in :=
  {| a_cpu_req := 1; a_mem_req := 2514445106161910; a_cpu_cap := 2139 * 1000; a_mem_cap := 2139 * 605053517824;
     a_n := 2139; a_thr := 94; a_ccpu := 1000; a_cmem := 605053517824 |}.

Definition run_delta (a : arith_in) : option Z :=
  match arith_percent a with
  | PctOk c m => match arith_delta a c m with DeltaOk d => Some d | DeltaErr _ => None end
  | PctErr => None
  end.

Lemma run_delta_some a d : run_delta a = Some d ->
  exists cp mp, arith_percent a = PctOk cp mp /\ arith_delta a cp mp = DeltaOk d.
Proof.
  unfold run_delta. destruct (arith_percent a) as [cp mp|]; [|discriminate].
  destruct (arith_delta a cp mp) as [d'|d'] eqn:E; [|discriminate].
  intro H; injection H as ->. exists cp, mp. split; [reflexivity|exact E].
Qed.

Lemma k1_run : run_delta k1_witness = Some 2282.
Proof. vm_compute. reflexivity. Qed.

Lemma k1_model_short :
  c05_normal k1_witness = true /\
  exists cp mp, arith_percent k1_witness = PctOk cp mp /\ arith_delta k1_witness cp mp = DeltaOk 2282
  /\ c05_m_min k1_witness = 4422 /\ a_n k1_witness + 2282 < c05_m_min k1_witness
  /\ ~ holds_at (a_mem_req k1_witness) (a_mem_cap k1_witness / a_n k1_witness) (a_thr k1_witness) (a_n k1_witness + 2282)
  /\ c05_region k1_witness = false.
Proof.
  split; [vm_compute; reflexivity|].
  destruct (run_delta_some _ _ k1_run) as [cp [mp [E D]]].
  exists cp, mp. split; [exact E|]. split; [exact D|].
  split; [vm_compute; reflexivity|].
  split; [vm_compute; reflexivity|].
  split; [|vm_compute; reflexivity].
  unfold holds_at; vm_compute. intro H; apply H; reflexivity.
Qed.

(* the scan model's starvation trigger (Scan.scale_on_starve) is starve_cond behind the feature switch and the max-nodes test *)
From Esc Require Scan.
Lemma scan_starve_is_starve_cond o maxn u k untainted :
  Scan.scale_on_starve o maxn u k untainted = Scan.o_starve o && starve_cond u k && (zlen untainted <? maxn).
Proof. reflexivity. Qed.

Lemma scan_starve_perm o maxn pods pods' nodes nodes' :
  Permutation pods pods' -> Permutation nodes nodes' ->
  Scan.scale_on_starve o maxn (pods_usage pods) (nodes_capacity nodes pods) nodes
  = Scan.scale_on_starve o maxn (pods_usage pods') (nodes_capacity nodes' pods') nodes'.
Proof.
  intros Hp Hn. rewrite !scan_starve_is_starve_cond.
  destruct (percent_perm _ _ _ _ Hp Hn) as [_ H]. cbv zeta in H. rewrite H, (perm_zlen _ _ Hn). reflexivity.
Qed.
