(* ConfigGenAgree.v — the SUPPLEMENTARY source tie of C16: what `harness gen` re-derives from the Go source on every run
   (coq/Generated.v: the rule list of ValidateNodeGroup, the struct-tag tables, the documented keys) against the
   hand-written model (SpecConfig.v).  Nothing that gates `bin/check C16` depends on this file: when the source changes
   shape so that the translator no longer follows it, or the agreement below no longer goes through, the theorems of
   Properties/C16.v (about the model) and the correspondence run are unaffected; bin/check records the lost tie and
   widens the search for a failing input.

   The agreement is proved rule by rule and does not depend on how a condition is spelt: string tests are case-split
   (`String.eqb_spec`, both orientations; emptiness through `String.eqb s "" = (slen s =? 0)`), the rest is linear
   arithmetic over booleans (lia with ZifyBool reads `&&`, `||`, `negb`, `implb`, `if`, the comparisons).  So
   `len(s) > 0` respelt `s != ""`, `!(a < b)` for `a >= b`, swapped operands of `||`, a map lookup respelt as a chain of
   comparisons all go through; a rule that means something else, a missing or an additional rule does not. *)
From Coq Require Import String ZArith List Bool Lia.
Require Import ZifyBool.
From Esc Require Import SpecConfig Generated proofs.ConfigProofs.
Import ListNotations.
Open Scope string_scope.
Open Scope Z_scope.

(* number of problems according to the re-derived rule list *)
Definition gen_problems (c : cfg) : Z := problems_of gen_rules c.

(* ---- one rule: a boolean equation ---- *)
(* facts about every string whose length occurs in the goal, kept as premises so that the case analysis below sees them *)
Ltac slen_facts :=
  repeat match goal with
         | |- context [slen ?s] =>
           lazymatch goal with
           | _ : 0 <= slen s |- _ => fail
           | _ => let F := fresh "F" in pose proof (slen_nonneg s) as F; generalize (eqb_empty_slen s)
           end
         end.

(* case analysis on every string comparison (premises included); contradictory combinations are closed on the way *)
Ltac split_string_tests :=
  repeat match goal with
         | |- context [String.eqb ?a ?b] => destruct (String.eqb_spec a b); try congruence
         end.

(* a conditional between booleans as a formula (lia does not look under an `if` whose test is compound) *)
Lemma if_bool : forall b x y : bool, (if b then x else y) = (b && x || negb b && y).
Proof. intros [|] x y; simpl; [rewrite orb_false_r|]; reflexivity. Qed.

Ltac rule_agree :=
  cbv beta;
  unfold auto_discover_min_max, valid_taint_effect, valid_aws_lifecycle, valid_max_node_age, taint_effect_types;
  cbn [str_map_get];
  rewrite ?if_bool, ?eqb_empty_slen, ?eqb_empty_slen';
  slen_facts; split_string_tests; intros;
  first [ reflexivity | congruence | lia ].

(* ---- the rule list of the source, position by position ---- *)
Lemma gen_rules_agree : forall c, map (fun r => r c) gen_rules = map (fun r => r c) model_rules.
Proof.
  intro c. unfold gen_rules, model_rules. cbn [map].
  repeat (apply f_equal2; [ rule_agree | ]).
  reflexivity.
Qed.

Lemma forallb_map : forall (A : Type) (f : A -> bool) l, forallb f l = forallb (fun b => b) (map f l).
Proof. induction l as [|x l IH]; simpl; [reflexivity | rewrite IH; reflexivity]. Qed.

Lemma problems_of_map : forall rules c,
  problems_of rules c = Z.of_nat (length (filter negb (map (fun r => r c) rules))).
Proof.
  intros rules c. unfold problems_of. f_equal.
  induction rules as [|r l IH]; simpl; [reflexivity|]. destruct (r c); simpl; rewrite IH; reflexivity.
Qed.

Lemma gen_validate_agree : forall c, gen_validate c = model_validate c.
Proof.
  intro c. unfold gen_validate, model_validate.
  rewrite (forallb_map _ (fun r => r c) gen_rules), (forallb_map _ (fun r => r c) model_rules), gen_rules_agree. reflexivity.
Qed.

Lemma gen_problems_agree : forall c, gen_problems c = model_problems c.
Proof.
  intro c. unfold gen_problems, model_problems. rewrite !problems_of_map, gen_rules_agree. reflexivity.
Qed.

(* so the theorems of Properties/C16.v hold of the re-derived validator as well *)
Lemma gen_validate_safe : forall c, gen_validate c = true -> safe c.
Proof. intros c H. apply model_validate_safe. rewrite <- gen_validate_agree. exact H. Qed.

(* ---- documented keys: a finite statement, decided by computation on the generated tables ---- *)
Lemma documented_keys_honoured :
  (forall k, In k gen_documented_keys -> In k gen_json_tags \/ In k known_unhonoured) /\
  (forall k, In k gen_documented_aws_keys -> In k gen_aws_json_tags).
Proof.
  split.
  - apply keys_honoured_spec. vm_compute. reflexivity.
  - intros k Hk.
    assert (H : forallb (fun k => mem_str k gen_aws_json_tags) gen_documented_aws_keys = true) by (vm_compute; reflexivity).
    rewrite forallb_forall in H. apply mem_str_In. exact (H k Hk).
Qed.
