(* ScanParser.v — the journal parser of C19 (check_C19_calls: runs of terminate calls, blocks of Node deletes) accepts
   every journal the model produces. *)
From Esc Require Import SpecScan SpecAws proofs.BaseProofs proofs.AwsProofs proofs.ScanLemmas proofs.ScanChecks proofs.ScanTheorems
                        proofs.ScanState proofs.ScanTaint proofs.ScanOrder.

Section Parser.
  Variable x : gctx.

  Definition is_other (c : call) : bool :=
    match c with CA (ATermInAsg _ _ _) => false | CK (KDelete _ _) => false | _ => true end.
  Definition others (l : list call) : Prop := forall c, In c l -> is_other c = true.

  Definition term_entry (c : acall) : list id * bool :=
    match c with ATermInAsg inst _ ok => (backed_names x inst, ok) | _ => ([], false) end.
  Definition run_of (ac : list acall) : list (list id * bool) := map term_entry ac.
  Definition term_seg (ac : list acall) : Prop :=
    forall c, In c ac -> exists inst ok, c = ATermInAsg inst true ok /\ backed_names x inst <> [].

  Definition del_entry (c : kcall) : id * bool := match c with KDelete n ok => (n, ok) | _ => (0, false) end.
  Definition blk_of (kc : list kcall) : list (id * bool) := map del_entry kc.
  Definition del_seg (kc : list kcall) : Prop := forall c, In c kc -> exists n ok, c = KDelete n ok.

  Definition all_ok (r : list (list id * bool)) : Prop := forall e, In e r -> snd e = true.

  (* a TryDeleteNodes segment: terminate calls, then — only after all of them were accepted — the matching deletes *)
  Definition seg_ok (ac : list acall) (kc : list kcall) : Prop :=
    term_seg ac /\ del_seg kc /\ (kc <> [] -> ac <> [] /\ all_ok (run_of ac) /\ block_matches (map fst (run_of ac)) (blk_of kc) = true).

  Lemma P_terms ac : term_seg ac -> forall rest run,
    check_C19_calls x (liftA ac ++ rest) run [] = check_C19_calls x rest (run ++ run_of ac) [].
  Proof.
    induction ac as [|c ac IH]; intros Hs rest run; [simpl; rewrite app_nil_r; reflexivity|].
    destruct (Hs c (or_introl eq_refl)) as (inst & ok & -> & Hb).
    change (liftA (ATermInAsg inst true ok :: ac) ++ rest) with (CA (ATermInAsg inst true ok) :: (liftA ac ++ rest)).
    cbn [check_C19_calls].
    rewrite IH by (intros c' Hc'; apply Hs; right; exact Hc').
    unfold run_of at 2. cbn [map term_entry]. rewrite <- app_assoc. cbn [app].
    destruct (backed_names x inst) eqn:Eb; [congruence | reflexivity].
  Qed.

  Lemma P_terms_blk c ac : term_seg (c :: ac) -> forall rest run blk, blk <> [] ->
    check_C19_calls x (liftA (c :: ac) ++ rest) run blk = block_ok run blk && check_C19_calls x rest (run_of (c :: ac)) [].
  Proof.
    intros Hs rest run blk Hblk. destruct (Hs c (or_introl eq_refl)) as (inst & ok & -> & Hb).
    change (liftA (ATermInAsg inst true ok :: ac) ++ rest) with (CA (ATermInAsg inst true ok) :: (liftA ac ++ rest)).
    cbn [check_C19_calls]. destruct blk as [|b blk']; [congruence|].
    rewrite (P_terms ac) by (intros c' Hc'; apply Hs; right; exact Hc').
    unfold run_of at 2. cbn [map term_entry app].
    destruct (backed_names x inst) eqn:Eb; [congruence | reflexivity].
  Qed.

  Lemma P_dels kc : del_seg kc -> forall rest run blk,
    check_C19_calls x (liftK kc ++ rest) run blk = check_C19_calls x rest run (blk ++ blk_of kc).
  Proof.
    induction kc as [|c kc IH]; intros Hs rest run blk; [simpl; rewrite app_nil_r; reflexivity|].
    destruct (Hs c (or_introl eq_refl)) as (n & ok & ->).
    change (liftK (KDelete n ok :: kc) ++ rest) with (CK (KDelete n ok) :: (liftK kc ++ rest)). cbn [check_C19_calls].
    rewrite IH by (intros c' Hc'; apply Hs; right; exact Hc'). rewrite <- app_assoc. reflexivity.
  Qed.

  Lemma P_others l : others l -> forall rest, check_C19_calls x (l ++ rest) [] [] = check_C19_calls x rest [] [].
  Proof.
    induction l as [|c l IH]; intros Ho rest; [reflexivity|].
    assert (Hc : is_other c = true) by (apply Ho; left; reflexivity).
    assert (Hl : others l) by (intros c' Hc'; apply Ho; right; exact Hc').
    destruct c as [[]|[]]; simpl in Hc |- *; try discriminate; apply IH; exact Hl.
  Qed.

  Lemma P_others_blk c l : others (c :: l) -> forall rest run blk,
    check_C19_calls x ((c :: l) ++ rest) run blk = block_ok run blk && check_C19_calls x rest [] [].
  Proof.
    intros Ho rest run blk.
    assert (Hc : is_other c = true) by (apply Ho; left; reflexivity).
    assert (Hl : others l) by (intros c' Hc'; apply Ho; right; exact Hc').
    destruct c as [[]|[]]; simpl in Hc |- *; try discriminate; rewrite (P_others l Hl); reflexivity.
  Qed.

  Lemma check_nil run blk : check_C19_calls x [] run blk = block_ok run blk.
  Proof. reflexivity. Qed.

  (* ---------- the all-accepted suffix ---------- *)
  Lemma ok_suffix_all_ok r : all_ok r -> ok_suffix r = map fst r.
  Proof.
    induction r as [|[n ok] r IH]; intros H; [reflexivity|]. simpl.
    assert (Hok : ok = true) by (apply (H (n, ok)); left; reflexivity). subst ok.
    rewrite IH by (intros e He; apply H; right; exact He). rewrite map_length, Nat.eqb_refl. reflexivity.
  Qed.

  Lemma ok_suffix_app r1 r2 : all_ok r2 -> exists S, ok_suffix (r1 ++ r2) = S ++ map fst r2.
  Proof.
    intros H2. induction r1 as [|[n ok] r1 IH]; [exists []; simpl; apply ok_suffix_all_ok; exact H2|].
    destruct IH as [S HS]. simpl. rewrite HS.
    destruct (ok && Nat.eqb (length (S ++ map fst r2)) (length (r1 ++ r2))); [exists (n :: S) | exists S]; reflexivity.
  Qed.

  Lemma some_suffix_app S B blk : block_matches B blk = true -> some_suffix_matches (S ++ B) blk = true.
  Proof.
    intros H. induction S as [|s S IH].
    - cbn [app]. destruct B; cbn [some_suffix_matches]; rewrite H; reflexivity.
    - cbn [app some_suffix_matches]. rewrite IH. apply orb_true_r.
  Qed.

  Lemma block_ok_seg run ac kc : seg_ok ac kc -> block_ok (run ++ run_of ac) (blk_of kc) = true.
  Proof.
    intros (_ & _ & H). unfold block_ok. destruct (blk_of kc) as [|b bs] eqn:Eb; [reflexivity|].
    assert (Hne : kc <> []) by (intros ->; discriminate).
    destruct (H Hne) as (_ & Hok & Hm).
    destruct (ok_suffix_app run (run_of ac) Hok) as [S ->]. apply some_suffix_app. exact Hm.
  Qed.

  (* ---------- a whole journal: lag, force segment, reap segment, tail ---------- *)
  Theorem journal_accepted lag Af Kf Ar Kr tail :
    others lag -> seg_ok Af Kf -> seg_ok Ar Kr -> others tail ->
    check_C19_calls x (lag ++ (liftA Af ++ liftK Kf) ++ (liftA Ar ++ liftK Kr) ++ tail) [] [] = true.
  Proof.
    intros Hlag Hf Hr Htail. rewrite (P_others lag Hlag). rewrite <- !app_assoc.
    destruct Hf as (Hf1 & Hf2 & Hf3). destruct Hr as (Hr1 & Hr2 & Hr3).
    rewrite (P_terms Af Hf1). rewrite (P_dels Kf Hf2). simpl app.
    assert (Hbf : block_ok (run_of Af) (blk_of Kf) = true) by (apply (block_ok_seg [] Af Kf); exact (conj Hf1 (conj Hf2 Hf3))).
    assert (Htail_end : forall run blk, block_ok run blk = true -> check_C19_calls x tail run blk = true).
    { intros run blk Hb. destruct tail as [|t tl]; [exact Hb|].
      rewrite <- (app_nil_r (t :: tl)). rewrite (P_others_blk t tl Htail), Hb. reflexivity. }
    destruct Ar as [|ar Ar'].
    - (* no reap segment *)
      simpl liftA. simpl app. assert (Kr = []).
      { destruct Kr as [|k Kr']; [reflexivity|]. destruct Hr3 as [H _]; [discriminate | congruence]. }
      subst Kr. simpl liftK. simpl app. apply Htail_end. exact Hbf.
    - destruct (blk_of Kf) as [|b bs] eqn:Ebf.
      + (* the force batch issued no delete: the terminate run continues *)
        rewrite (P_terms (ar :: Ar') Hr1). rewrite (P_dels Kr Hr2). simpl app. apply Htail_end.
        apply (block_ok_seg (run_of Af) (ar :: Ar') Kr). exact (conj Hr1 (conj Hr2 Hr3)).
      + rewrite (P_terms_blk ar Ar' Hr1) by discriminate. rewrite Hbf. simpl andb.
        rewrite (P_dels Kr Hr2). simpl app. apply Htail_end.
        apply (block_ok_seg [] (ar :: Ar') Kr). exact (conj Hr1 (conj Hr2 Hr3)).
  Qed.
End Parser.

(* ---------- the model's TryDeleteNodes segments are valid ---------- *)
Lemma Forall2_impl' {A B} (P Q : A -> B -> Prop) l1 l2 : (forall a b, In a l1 -> P a b -> Q a b) -> Forall2 P l1 l2 -> Forall2 Q l1 l2.
Proof.
  intros H F. induction F as [|a b l1 l2 Hab F IH]; constructor.
  - apply H; [left; reflexivity | exact Hab].
  - apply IH. intros a' b' Ha'. apply H. right. exact Ha'.
Qed.

Lemma delete_loop_ok_forall2 nodes : forall a fails calls a',
  delete_loop a nodes fails = (calls, DelOk, a') ->
  Forall2 (fun n c => exists i, backing_instance a (n_pid n) = Some i /\ c = ATermInAsg (i_id i) true true) nodes calls.
Proof.
  induction nodes as [|n rest IH]; intros a fails calls a' H; simpl in H; [inversion H; constructor|].
  destruct (belongs a (n_pid n)); cbn [negb] in H; [|discriminate].
  destruct (backing_instance a (n_pid n)) as [i|] eqn:Ei; [|discriminate].
  destruct (mem_bytes (i_id i) fails); [discriminate|].
  destruct (delete_loop (set_desired a (a_desired a - 1)) rest fails) as [[c1 r1] g1] eqn:E1. inversion H; subst.
  constructor; [exists i; auto|]. specialize (IH _ _ _ _ E1). eapply Forall2_impl'; [|exact IH].
  intros m c _ [j [Hj Hc]]. exists j. split; [exact Hj | exact Hc].
Qed.

Lemma delete_nodes_block o names : forall batch calls ok,
  delete_nodes o names = (calls, ok) -> Forall2 (fun n b => mem_id n b = true) names batch ->
  block_matches batch (map (fun c => match c with KDelete n ok => (n, ok) | _ => (0, false) end) calls) = true.
Proof.
  induction names as [|n rest IH]; intros batch calls ok H F; simpl in H.
  - inversion H; subst. inversion F; subst. reflexivity.
  - inversion F as [|? b ? batch' Hnb F']; subst. destruct (mem_id n (ko_delete_fail o)).
    + inversion H; subst. simpl. rewrite Hnb. reflexivity.
    + destruct (delete_nodes o rest) as [c0 ok0] eqn:E0. inversion H; subst. simpl. rewrite Hnb. simpl. eapply IH; eauto.
Qed.

Section Segments.
  Variable x : gctx.

  Lemma backs_backed n i a0 : x_asg x = Some a0 -> In n (x_nodes x) -> backing_instance a0 (n_pid n) = Some i ->
    In (n_name n) (backed_names x (i_id i)).
  Proof.
    intros Ha Hn Hi. unfold backed_names. apply in_map. apply filter_In. split; [exact Hn|].
    unfold backs. rewrite Ha, Hi. apply bytes_eqb_refl.
  Qed.

  Lemma try_delete_seg a0 g cands calls err a2 :
    x_asg x = Some a0 -> asg_rel a0 g -> (forall n, In n cands -> In n (x_nodes x)) ->
    try_delete_nodes (x_env x) (Some g) cands = (calls, err, a2) ->
    exists ac kc, calls = liftA ac ++ liftK kc /\ seg_ok x ac kc.
  Proof.
    intros Ha Hrel Hin H. unfold try_delete_nodes in H. destruct cands as [|c0 cs] eqn:Ec.
    { inversion H; subst. exists [], []. split; [reflexivity|]. split; [intros c []|]. split; [intros c []|]. congruence. }
    rewrite <- Ec in *.
    destruct (aws_delete_nodes g cands (ao_terminasg_fail (e_aorc (x_env x)))) as [[ac r] g'] eqn:Ed.
    destruct (aws_delete_nodes_calls _ _ _ _ _ _ Ed) as [_ [_ Hcalls]].
    assert (Hterm : term_seg x ac).
    { intros c Hc. destruct (Hcalls c Hc) as (n & i & ok & Hn & Hi & ->). exists (i_id i), ok. split; [reflexivity|].
      rewrite (asg_rel_backing a0 g) in Hi by exact Hrel.
      intros Hempty. pose proof (backs_backed n i a0 Ha (Hin n Hn) Hi) as Hb. rewrite Hempty in Hb. destruct Hb. }
    destruct r; try (inversion H; subst; exists ac, []; rewrite app_nil_r; split; [reflexivity|]; split; [exact Hterm|]; split; [intros c [] | congruence]).
    destruct (delete_nodes (e_korc (x_env x)) (map n_name cands)) as [kc ok] eqn:Ek.
    inversion H; subst calls err a2. exists ac, kc. split; [reflexivity|]. split; [exact Hterm|]. split.
    { intros c Hc. destruct (delete_nodes_calls _ _ _ _ Ek c Hc) as (m & b & _ & ->). eauto. }
    intros _.
    unfold aws_delete_nodes in Ed. destruct (a_desired g <=? a_min g); [discriminate|]. destruct (a_desired g - zlen cands <? a_min g); [discriminate|].
    pose proof (delete_loop_ok_forall2 _ _ _ _ _ Ed) as F.
    split; [|split].
    - rewrite Ec in F. inversion F; subst. discriminate.
    - intros e He. unfold run_of in He. apply in_map_iff in He. destruct He as [c [<- Hc]].
      clear -F Hc. induction F as [|n c' l1 l2 [i [_ ->]] F IH]; [destruct Hc|]. destruct Hc as [<-|Hc]; [reflexivity | apply IH; exact Hc].
    - eapply (delete_nodes_block _ _ _ _ _ Ek).
      clear -F Ha Hrel Hin. induction F as [|n c l1 l2 [i [Hi ->]] F IH]; [constructor|].
      simpl. constructor.
      + apply mem_id_In. rewrite (asg_rel_backing a0 g) in Hi by exact Hrel. eapply backs_backed; eauto. apply Hin. left. reflexivity.
      + apply IH. intros m Hm. apply Hin. right. exact Hm.
  Qed.
End Segments.

(* ---------- the whole scan ---------- *)
Lemma seg_ok_nil x : seg_ok x [] [].
Proof. split; [intros c []|]. split; [intros c []|]. congruence. Qed.

Lemma try_delete_seg_opt x a1 cands calls err a2 :
  oasg_rel (x_asg x) a1 -> (forall n, In n cands -> In n (x_nodes x)) ->
  try_delete_nodes (x_env x) a1 cands = (calls, err, a2) ->
  (exists ac kc, calls = liftA ac ++ liftK kc /\ seg_ok x ac kc) /\ oasg_rel (x_asg x) a2.
Proof.
  intros Hrel Hin H. destruct (try_delete_nodes_calls _ _ _ _ _ _ H) as [Hrel2 _].
  split; [|eapply oasg_rel_trans; eauto].
  destruct a1 as [g|].
  - destruct (x_asg x) as [a0|] eqn:Ea; simpl in Hrel; [|contradiction]. eapply try_delete_seg; eauto.
  - unfold try_delete_nodes in H. destruct cands; inversion H; subst; exists [], []; (split; [reflexivity | apply seg_ok_nil]).
Qed.

Lemma liftK_others kc : (forall c, In c kc -> match c with KDelete _ _ => False | _ => True end) -> others (liftK kc).
Proof.
  intros H c Hc. unfold liftK in Hc. apply in_map_iff in Hc. destruct Hc as [k [<- Hk]]. specialize (H k Hk). destruct k; simpl; auto; contradiction.
Qed.

Lemma lag_others e st nodes : others (liftA (registration_lag_calls e st nodes)).
Proof.
  intros c Hc. unfold registration_lag_calls in Hc. destruct (0 <? g_delta st); [|destruct Hc].
  unfold liftA in Hc. apply in_map_iff in Hc. destruct Hc as [k [<- Hin]].
  apply in_concat in Hin. destruct Hin as [l [Hl Hk]]. apply in_map_iff in Hl. destruct Hl as [n [<- _]].
  unfold get_instance_call in Hk. destruct (pid_instance (n_pid n)); [destruct Hk|]. destruct Hk as [<-|[]]. reflexivity.
Qed.

Lemma others_app a b : others a -> others b -> others (a ++ b).
Proof. intros Ha Hb c Hc. apply in_app_or in Hc. destruct Hc; auto. Qed.

Lemma scale_up_others e o mx dry st a tainted want : others (up_calls (scale_up e o mx dry st a tainted want)).
Proof.
  unfold scale_up.
  set (ul := match tainted with [] => ([], 0, g_taint_tracker st) | _ => untaint_loop e dry (sort_newest tainted) want 0 (g_taint_tracker st) end).
  assert (HK : others (liftK (fst (fst ul)))).
  { apply liftK_others. intros c Hc. subst ul. destruct tainted as [|t0 ts] eqn:Et; [destruct Hc|]. rewrite <- Et in *.
    destruct dry; [rewrite untaint_loop_dry in Hc; destruct Hc|].
    destruct (untaint_loop_calls _ _ _ _ _ _ Hc) as [y [_ [_ Hy]]].
    pose proof (delete_taint_calls _ _ _ _ Hy) as [[ok ->]|(u & ts' & ok & _ & _ & ->)]; exact I. }
  destruct ul as [[ucalls ucount] tr]. simpl in HK.
  destruct (0 <? want - ucount); [|exact HK]. destruct a as [g|]; [|exact HK].
  destruct (nodes_to_add _ _ _ <=? 0); [exact HK|]. destruct dry; [exact HK|].
  pose proof (aws_increase_asks g (nodes_to_add (want - ucount) (a_desired g) (Z.min mx (a_max g))) (e_aorc e)) as Ha.
  destruct (aws_increase g _ (e_aorc e)) as [[ac r] g']. simpl in Ha.
  assert (HA : others (liftA ac)).
  { intros c Hc. unfold liftA in Hc. apply in_map_iff in Hc. destruct Hc as [k [<- Hk]].
    rewrite forallb_forall in Ha. specialize (Ha k Hk). destruct k; simpl in *; try reflexivity. discriminate. }
  destruct r; simpl; apply others_app; assumption.
Qed.

Lemma scale_down_taint_others e o mn dry st unt want : others (fst (fst (scale_down_taint e o mn dry st unt want))).
Proof.
  unfold scale_down_taint. destruct (_ <? 0); [intros c []|].
  destruct (taint_loop e o dry (sort_oldest unt) _ 0 (g_taint_tracker st)) as [[kc cnt] tr] eqn:El. simpl.
  apply liftK_others. intros c Hc. destruct dry.
  - pose proof (taint_loop_dry e o (sort_oldest unt) (if zlen unt - want <? mn then zlen unt - mn else want) 0 (g_taint_tracker st)) as Hd.
    rewrite El in Hd. simpl in Hd. subst kc. destruct Hc.
  - pose proof (taint_loop_calls e o (sort_oldest unt) (if zlen unt - want <? mn then zlen unt - mn else want) 0 (g_taint_tracker st) c) as Hd.
    rewrite El in Hd. destruct (Hd Hc) as [y [_ Hy]].
    pose proof (add_taint_calls _ _ _ _ _ _ Hy) as [[ok ->]|(u & ok & _ & _ & ->)]; exact I.
Qed.

Theorem group_passes_C19_parser now gdry api g a nodes pods :
  check_C19_calls (ctx_of now gdry api g a nodes pods) (r_calls (scan_of now gdry api g a nodes pods)) [] [] = true.
Proof.
  set (x := ctx_of now gdry api g a nodes pods).
  assert (Hcls : x_cls x = filter_nodes (x_dry x) (x_st x) (x_nodes x)) by reflexivity.
  assert (Hasg : x_asg x = a) by reflexivity.
  assert (Hsimple : forall l, others l -> check_C19_calls x l [] [] = true).
  { intros l Hl. pose proof (journal_accepted x l [] [] [] [] [] Hl (seg_ok_nil x) (seg_ok_nil x)) as H.
    simpl in H. rewrite app_nil_r in H. apply H. intros c []. }
  apply (scan_of_frame (fun r => check_C19_calls x (r_calls r) [] [] = true) now gdry api g a nodes pods x eq_refl).
  all: clearbody x.
  - intros. reflexivity.
  - intros _ _ _ tags. apply Hsimple. apply scale_up_others.
  - intros _ _ _ _ cpuP memP _. split.
    + intros tags d _. apply Hsimple. apply lag_others.
    + intros tags d0 _. unfold scan_act. rewrite <- Hasg.
      set (lag := liftA (registration_lag_calls _ _ _)).
      assert (Hlag : others lag) by apply lag_others.
      assert (Hforce_in : forall n, In n (force_candidates (x_dry x) (x_pods x) (c_forced (x_cls x))) -> In n (x_nodes x)).
      { intros n Hn. unfold force_candidates in Hn. destruct (x_dry x); [destruct Hn|]. apply filter_In in Hn. destruct Hn as [Hn _].
        rewrite Hcls in Hn. unfold filter_nodes in Hn; simpl in Hn. apply filter_In in Hn. tauto. }
      assert (Hreap_in : forall n, In n (reap_candidates (x_env x) (x_opts x) (x_dry x) (x_pods x) (c_tainted (x_cls x))) -> In n (x_nodes x)).
      { intros n Hn. unfold reap_candidates in Hn. destruct (x_dry x); [destruct Hn|]. apply filter_In in Hn. destruct Hn as [Hn _].
        rewrite Hcls in Hn. unfold filter_nodes in Hn; simpl in Hn. apply filter_In in Hn. tauto. }
      destruct (try_delete_nodes (x_env x) (x_asg x) (force_candidates _ _ _)) as [[fcalls ferr] a1] eqn:Ef.
      destruct (try_delete_seg_opt x _ _ _ _ _ (oasg_rel_refl _) Hforce_in Ef) as [(Af & Kf & -> & Hsf) Hrel1].
      match goal with |- context [if ?d <? 0 then _ else _] => set (d2 := d) end.
      destruct (d2 <? 0).
      * destruct (try_delete_nodes (x_env x) a1 (reap_candidates _ _ _ _ _)) as [[rcalls rerr] a2] eqn:Er.
        destruct (try_delete_seg_opt x _ _ _ _ _ Hrel1 Hreap_in Er) as [(Ar & Kr & -> & Hsr) _].
        pose proof (scale_down_taint_others (x_env x) (x_opts x) (x_min x) (x_dry x) (with_lock (x_st x) (snd (lock_check (g_lock (x_st x)) (e_now (x_env x)) (o_cool (x_opts x))))) (c_untainted (x_cls x)) (- d2)) as Ht.
        destruct (scale_down_taint _ _ _ _ _ _ _) as [[tcalls terr] st3]. simpl in Ht.
        destruct rerr as [[|]|]; simpl.
        -- apply (journal_accepted x lag Af Kf Ar Kr tcalls); assumption.
        -- rewrite <- (app_nil_r (liftA Ar ++ liftK Kr)). apply (journal_accepted x lag Af Kf Ar Kr []); try assumption. intros c [].
        -- apply (journal_accepted x lag Af Kf Ar Kr tcalls); assumption.
      * destruct (0 <? d2).
        -- pose proof (scale_up_others (x_env x) (x_opts x) (x_max x) (x_dry x) (with_lock (x_st x) (snd (lock_check (g_lock (x_st x)) (e_now (x_env x)) (o_cool (x_opts x))))) a1 (c_tainted (x_cls x)) d2) as Hu.
           assert (Hj : check_C19_calls x (lag ++ (liftA Af ++ liftK Kf) ++ up_calls (scale_up (x_env x) (x_opts x) (x_max x) (x_dry x) (with_lock (x_st x) (snd (lock_check (g_lock (x_st x)) (e_now (x_env x)) (o_cool (x_opts x))))) a1 (c_tainted (x_cls x)) d2)) [] [] = true).
           { pose proof (journal_accepted x lag Af Kf [] [] _ Hlag Hsf (seg_ok_nil x) Hu) as H. simpl in H. exact H. }
           destruct (up_out _); simpl; exact Hj.
        -- destruct (try_delete_nodes (x_env x) a1 (reap_candidates _ _ _ _ _)) as [[rcalls rerr] a2] eqn:Er.
           destruct (try_delete_seg_opt x _ _ _ _ _ Hrel1 Hreap_in Er) as [(Ar & Kr & -> & Hsr) _].
           destruct rerr as [[|]|]; simpl; rewrite <- (app_nil_r (liftA Ar ++ liftK Kr)); apply (journal_accepted x lag Af Kf Ar Kr []); try assumption; intros c [].
Qed.

Theorem group_passes_C19 now gdry api g a nodes pods :
  check_C19_group (ctx_of now gdry api g a nodes pods) (r_calls (scan_of now gdry api g a nodes pods)) = true.
Proof. unfold check_C19_group. rewrite group_passes_C19_parser, group_budget_C19. reflexivity. Qed.

(* ---------- the checker evaluated on observed journals asks less than the parser above: it follows from it ---------- *)
Lemma forallb_impl {A} (f g : A -> bool) l : (forall x, f x = true -> g x = true) -> forallb f l = true -> forallb g l = true.
Proof. intros H. rewrite !forallb_forall. intros Hf x Hx. apply H. apply Hf. exact Hx. Qed.

Lemma block_matches_members batch : forall blk, block_matches batch blk = true ->
  forallb (fun p : id * bool => existsb (fun b => mem_id (fst p) b) batch) blk = true.
Proof.
  induction batch as [|b batch IH]; intros [|[n ok] blk] H; try reflexivity; try discriminate.
  cbn [block_matches] in H. apply andb_true_iff in H. destruct H as [Hm Hr].
  cbn [forallb existsb fst]. rewrite Hm. cbn [orb andb].
  destruct ok.
  - specialize (IH blk Hr). eapply forallb_impl; [|exact IH]. intros p Hp. cbn beta in Hp |- *. cbn [existsb]. rewrite Hp. apply orb_true_r.
  - destruct blk; [reflexivity | discriminate].
Qed.

Lemma some_suffix_members batch : forall blk, some_suffix_matches batch blk = true ->
  forallb (fun p : id * bool => existsb (fun b => mem_id (fst p) b) batch) blk = true.
Proof.
  induction batch as [|b batch IH]; intros blk H.
  - cbn [some_suffix_matches] in H. rewrite orb_false_r in H. apply block_matches_members. exact H.
  - cbn [some_suffix_matches] in H. apply orb_true_iff in H. destruct H as [H|H]; [apply block_matches_members; exact H|].
    specialize (IH blk H). eapply forallb_impl; [|exact IH]. intros p Hp. cbn beta in Hp |- *. cbn [existsb]. rewrite Hp. apply orb_true_r.
Qed.

Lemma block_ok_weaken run blk : block_ok run blk = true -> block_ok_w run blk = true.
Proof. unfold block_ok, block_ok_w. destruct blk as [|p blk]; [reflexivity|]. apply some_suffix_members. Qed.

Lemma check_C19_calls_weaken x calls : forall run blk, check_C19_calls x calls run blk = true -> check_C19_calls_w x calls run blk = true.
Proof.
  induction calls as [|c calls IH]; intros run blk H; cbn [check_C19_calls check_C19_calls_w] in *; [apply block_ok_weaken; exact H|].
  destruct c as [[m o|m pp o|m o]|[g v h o|inst d o|g o|t mt ct ok fk no tp o|g ids o|ids o|inst o]]; cbn [check_C19_calls check_C19_calls_w] in *.
  all: try (apply andb_true_iff in H; destruct H as [H1 H2]; apply andb_true_iff; split; [apply block_ok_weaken; exact H1 | apply IH; exact H2]).
  - apply IH. exact H.
  - apply andb_true_iff in H. destruct H as [H1 H2]. apply andb_true_iff. split; [exact H1|].
    destruct blk as [|p blk]; [apply IH; exact H2|].
    apply andb_true_iff in H2. destruct H2 as [H2 H3]. apply andb_true_iff. split; [apply block_ok_weaken; exact H2 | apply IH; exact H3].
Qed.

(* ---------- one removal request per path: at most two delete blocks, of the right classes ---------- *)
Section Requests.
  Variable x : gctx.

  Lemma rp_app a b : removal_proj (a ++ b) = removal_proj a ++ removal_proj b.
  Proof. unfold removal_proj. rewrite map_app, concat_app. reflexivity. Qed.
  Lemma rp_others l : others l -> removal_proj l = [].
  Proof.
    induction l as [|c l IH]; intros H; [reflexivity|]. unfold removal_proj in *. cbn [map concat].
    rewrite IH by (intros c' Hc'; apply H; right; exact Hc').
    assert (Hc : is_other c = true) by (apply H; left; reflexivity).
    destruct c as [[]|[]]; try discriminate; reflexivity.
  Qed.
  Lemma rp_terms ac : term_seg x ac -> removal_proj (liftA ac) = repeat None (length ac).
  Proof.
    induction ac as [|c ac IH]; intros H; [reflexivity|]. unfold removal_proj in *. cbn [liftA map concat length repeat].
    fold (liftA ac). rewrite IH by (intros c' Hc'; apply H; right; exact Hc').
    destruct (H c (or_introl eq_refl)) as (inst & ok & -> & _). reflexivity.
  Qed.
  Lemma rp_dels kc : del_seg kc -> removal_proj (liftK kc) = map Some (map fst (blk_of kc)).
  Proof.
    induction kc as [|c kc IH]; intros H; [reflexivity|]. unfold removal_proj in *. cbn [liftK map concat blk_of].
    fold (liftK kc) (blk_of kc). rewrite IH by (intros c' Hc'; apply H; right; exact Hc').
    destruct (H c (or_introl eq_refl)) as (n & ok & ->). reflexivity.
  Qed.

  Lemma blocks_nones k r : del_blocks (repeat None k ++ r) [] = del_blocks r [].
  Proof. induction k as [|k IH]; [reflexivity | exact IH]. Qed.
  Lemma blocks_somes ns : forall r cur, del_blocks (map Some ns ++ r) cur = del_blocks r (cur ++ ns).
  Proof. induction ns as [|n ns IH]; intros r cur; cbn [map app del_blocks]; [rewrite app_nil_r; reflexivity|]. rewrite IH, <- app_assoc. reflexivity. Qed.
  Lemma blocks_nones_cur k r cur : cur <> [] -> (0 < k)%nat -> del_blocks (repeat None k ++ r) cur = cur :: del_blocks r [].
  Proof.
    intros Hc Hk. destruct k as [|k]; [lia|]. cbn [repeat app del_blocks]. destruct cur as [|c0 cur']; [contradiction Hc; reflexivity|].
    rewrite blocks_nones. reflexivity.
  Qed.

  Theorem journal_requests lag Af Kf Ar Kr tail :
    others lag -> seg_ok x Af Kf -> seg_ok x Ar Kr -> others tail ->
    names_in (c_forced (x_cls x)) (map fst (blk_of Kf)) = true -> names_in (c_tainted (x_cls x)) (map fst (blk_of Kr)) = true ->
    check_C19_requests x (lag ++ (liftA Af ++ liftK Kf) ++ (liftA Ar ++ liftK Kr) ++ tail) = true.
  Proof.
    intros Hlag (Hf1 & Hf2 & Hf3) (Hr1 & Hr2 & Hr3) Htail Hnf Hnr. unfold check_C19_requests.
    rewrite !rp_app, (rp_others lag Hlag), (rp_others tail Htail), (rp_terms Af Hf1), (rp_dels Kf Hf2), (rp_terms Ar Hr1), (rp_dels Kr Hr2).
    rewrite app_nil_r. cbn [app]. rewrite <- !app_assoc.
    set (nf := map fst (blk_of Kf)) in *. set (nr := map fst (blk_of Kr)) in *.
    rewrite blocks_nones, blocks_somes. cbn [app].
    assert (Hend : forall cur, del_blocks (map Some nr) cur = del_blocks [] (cur ++ nr)).
    { intros cur. rewrite <- (app_nil_r (map Some nr)). apply blocks_somes. }
    destruct nf as [|f0 nf'] eqn:Enf.
    - rewrite blocks_nones, Hend. cbn [app del_blocks]. destruct nr; reflexivity.
    - destruct Ar as [|ar Ar'].
      + assert (Kr = []) by (destruct Kr as [|k Kr']; [reflexivity|]; destruct Hr3 as [H _]; [discriminate | congruence]).
        subst Kr. cbn [length repeat app]. subst nr. cbn [blk_of map app del_blocks]. reflexivity.
      + rewrite blocks_nones_cur by (try discriminate; cbn [length]; lia). rewrite Hend. cbn [app del_blocks].
        destruct nr as [|r0 nr'] eqn:Enr; [reflexivity|]. rewrite Hnf, Hnr. reflexivity.
  Qed.
End Requests.

Lemma removal_names_in (a : option asg) cands cls kc :
  (forall n, In n cands -> In n cls) -> (forall c, In c (liftK kc) -> removal_of a cands c) ->
  names_in cls (map fst (blk_of kc)) = true.
Proof.
  intros Hsub H. unfold names_in. apply forallb_forall. intros nm Hnm. unfold blk_of in Hnm. rewrite map_map in Hnm.
  apply in_map_iff in Hnm. destruct Hnm as [c [<- Hc]].
  assert (Hr : removal_of a cands (CK c)) by (apply H; unfold liftK; apply in_map; exact Hc).
  inversion Hr as [|n ok Hn Heq]; subst. simpl. unfold in_class. apply existsb_exists. exists n. split; [apply Hsub; exact Hn | apply Z.eqb_refl].
Qed.

Theorem group_passes_C19_requests now gdry api g a nodes pods :
  check_C19_requests (ctx_of now gdry api g a nodes pods) (r_calls (scan_of now gdry api g a nodes pods)) = true.
Proof.
  set (x := ctx_of now gdry api g a nodes pods).
  assert (Hcls : x_cls x = filter_nodes (x_dry x) (x_st x) (x_nodes x)) by reflexivity.
  assert (Hasg : x_asg x = a) by reflexivity.
  assert (Hsimple : forall l, others l -> check_C19_requests x l = true).
  { intros l Hl. unfold check_C19_requests. rewrite (rp_others l Hl). reflexivity. }
  apply (scan_of_frame (fun r => check_C19_requests x (r_calls r) = true) now gdry api g a nodes pods x eq_refl).
  all: clearbody x.
  - intros. reflexivity.
  - intros _ _ _ tags. apply Hsimple. apply scale_up_others.
  - intros _ _ _ _ cpuP memP _. split.
    + intros tags d _. apply Hsimple. apply lag_others.
    + intros tags d0 _. unfold scan_act. rewrite <- Hasg.
      set (lag := liftA (registration_lag_calls _ _ _)).
      assert (Hlag : others lag) by apply lag_others.
      assert (Hforce_cls : forall n, In n (force_candidates (x_dry x) (x_pods x) (c_forced (x_cls x))) -> In n (c_forced (x_cls x))).
      { intros n Hn. unfold force_candidates in Hn. destruct (x_dry x); [destruct Hn|]. apply filter_In in Hn. tauto. }
      assert (Hreap_cls : forall n, In n (reap_candidates (x_env x) (x_opts x) (x_dry x) (x_pods x) (c_tainted (x_cls x))) -> In n (c_tainted (x_cls x))).
      { intros n Hn. unfold reap_candidates in Hn. destruct (x_dry x); [destruct Hn|]. apply filter_In in Hn. tauto. }
      assert (Hforce_in : forall n, In n (force_candidates (x_dry x) (x_pods x) (c_forced (x_cls x))) -> In n (x_nodes x)).
      { intros n Hn. apply Hforce_cls in Hn. rewrite Hcls in Hn. unfold filter_nodes in Hn; simpl in Hn. apply filter_In in Hn. tauto. }
      assert (Hreap_in : forall n, In n (reap_candidates (x_env x) (x_opts x) (x_dry x) (x_pods x) (c_tainted (x_cls x))) -> In n (x_nodes x)).
      { intros n Hn. apply Hreap_cls in Hn. rewrite Hcls in Hn. unfold filter_nodes in Hn; simpl in Hn. apply filter_In in Hn. tauto. }
      destruct (try_delete_nodes (x_env x) (x_asg x) (force_candidates _ _ _)) as [[fcalls ferr] a1] eqn:Ef.
      destruct (try_delete_nodes_calls _ _ _ _ _ _ Ef) as [_ [Hfro _]].
      destruct (try_delete_seg_opt x _ _ _ _ _ (oasg_rel_refl _) Hforce_in Ef) as [(Af & Kf & -> & Hsf) Hrel1].
      assert (Hnf : names_in (c_forced (x_cls x)) (map fst (blk_of Kf)) = true).
      { eapply removal_names_in; [exact Hforce_cls|]. intros c Hc. apply Hfro. apply in_or_app. right. exact Hc. }
      assert (Hnil : forall cls, names_in cls (map fst (blk_of [])) = true) by reflexivity.
      match goal with |- context [if ?d <? 0 then _ else _] => set (d2 := d) end.
      destruct (d2 <? 0).
      * destruct (try_delete_nodes (x_env x) a1 (reap_candidates _ _ _ _ _)) as [[rcalls rerr] a2] eqn:Er.
        destruct (try_delete_nodes_calls _ _ _ _ _ _ Er) as [_ [Hrro _]].
        destruct (try_delete_seg_opt x _ _ _ _ _ Hrel1 Hreap_in Er) as [(Ar & Kr & -> & Hsr) _].
        assert (Hnr : names_in (c_tainted (x_cls x)) (map fst (blk_of Kr)) = true).
        { eapply removal_names_in; [exact Hreap_cls|]. intros c Hc. apply Hrro. apply in_or_app. right. exact Hc. }
        pose proof (scale_down_taint_others (x_env x) (x_opts x) (x_min x) (x_dry x) (with_lock (x_st x) (snd (lock_check (g_lock (x_st x)) (e_now (x_env x)) (o_cool (x_opts x))))) (c_untainted (x_cls x)) (- d2)) as Ht.
        destruct (scale_down_taint _ _ _ _ _ _ _) as [[tcalls terr] st3]. simpl in Ht.
        destruct rerr as [[|]|]; simpl.
        -- apply (journal_requests x lag Af Kf Ar Kr tcalls); assumption.
        -- rewrite <- (app_nil_r (liftA Ar ++ liftK Kr)). apply (journal_requests x lag Af Kf Ar Kr []); try assumption. intros c [].
        -- apply (journal_requests x lag Af Kf Ar Kr tcalls); assumption.
      * destruct (0 <? d2).
        -- pose proof (scale_up_others (x_env x) (x_opts x) (x_max x) (x_dry x) (with_lock (x_st x) (snd (lock_check (g_lock (x_st x)) (e_now (x_env x)) (o_cool (x_opts x))))) a1 (c_tainted (x_cls x)) d2) as Hu.
           assert (Hj : check_C19_requests x (lag ++ (liftA Af ++ liftK Kf) ++ up_calls (scale_up (x_env x) (x_opts x) (x_max x) (x_dry x) (with_lock (x_st x) (snd (lock_check (g_lock (x_st x)) (e_now (x_env x)) (o_cool (x_opts x))))) a1 (c_tainted (x_cls x)) d2)) = true).
           { pose proof (journal_requests x lag Af Kf [] [] _ Hlag Hsf (seg_ok_nil x) Hu Hnf (Hnil _)) as H. simpl in H. exact H. }
           destruct (up_out _); simpl; exact Hj.
        -- destruct (try_delete_nodes (x_env x) a1 (reap_candidates _ _ _ _ _)) as [[rcalls rerr] a2] eqn:Er.
           destruct (try_delete_nodes_calls _ _ _ _ _ _ Er) as [_ [Hrro _]].
           destruct (try_delete_seg_opt x _ _ _ _ _ Hrel1 Hreap_in Er) as [(Ar & Kr & -> & Hsr) _].
           assert (Hnr : names_in (c_tainted (x_cls x)) (map fst (blk_of Kr)) = true).
           { eapply removal_names_in; [exact Hreap_cls|]. intros c Hc. apply Hrro. apply in_or_app. right. exact Hc. }
           destruct rerr as [[|]|]; simpl; rewrite <- (app_nil_r (liftA Ar ++ liftK Kr)); apply (journal_requests x lag Af Kf Ar Kr []); try assumption; intros c [].
Qed.

Theorem group_passes_C19_w now gdry api g a nodes pods :
  check_C19_group_w (ctx_of now gdry api g a nodes pods) (r_calls (scan_of now gdry api g a nodes pods)) = true.
Proof.
  pose proof (group_passes_C19 now gdry api g a nodes pods) as H. unfold check_C19_group, check_C19_group_w in *.
  apply andb_true_iff in H. destruct H as [H1 H2]. rewrite (check_C19_calls_weaken _ _ _ _ H1), H2. apply group_passes_C19_requests.
Qed.
