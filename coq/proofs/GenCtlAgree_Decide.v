(* controller.go scaleNodeGroup, the threshold switch on max(cpu%, mem%), as translated on this run, is the model's decide. *)
From Esc Require Import GeneratedCtl proofs.GenCtlAgree.
Open Scope Z_scope.

(* falling out of the switch with nodesDelta = d is DeltaOk d; reaching calcScaleUpDelta is the model's calc_delta on the
   reported arguments (request totals as MilliValue()s, the group's threshold and cached node size) *)
Theorem gen_scaleNodeGroup_decide_agree : forall o st cpuP memP us untainted,
  decide o st cpuP memP (r_cpu (u_total us)) (1000 * r_mem (u_total us)) untainted =
  match gen_scaleNodeGroup_decide o cpuP memP us untainted with
  | GFall [GI d] => DeltaOk d
  | GCall _ [GL l; GF c; GF m; GI cr; GI mr] => calc_delta (zlen l) c m cr mr (o_up o) (fst (g_cache st)) (snd (g_cache st))
  | _ => DeltaErr 0
  end.
Proof. intros. unfold gen_scaleNodeGroup_decide, decide. rewrite ?fgt_flt. agree. Qed.
