(* AwsProofs.v — C17, C18, C19 (provider part) for the model of aws.go; every statement holds for all node
   groups, deltas, instance lists of any length and all oracles. *)
From Esc Require Import SpecAws proofs.BaseProofs.
From Coq Require Import Permutation.

Lemma attach_batch_pos : (0 < attach_batch)%nat. Proof. unfold attach_batch; lia. Qed.
Lemma terminate_batch_pos : (0 < terminate_batch)%nat. Proof. unfold terminate_batch; lia. Qed.
Global Opaque attach_batch terminate_batch.

(* ---------- projections distribute over append ---------- *)
Lemma attached_ok_app l1 l2 : attached_ok (l1 ++ l2) = attached_ok l1 ++ attached_ok l2.
Proof. unfold attached_ok. rewrite map_app, concat_app. reflexivity. Qed.
Lemma terminated_ids_app l1 l2 : terminated_ids (l1 ++ l2) = terminated_ids l1 ++ terminated_ids l2.
Proof. unfold terminated_ids. rewrite map_app, concat_app. reflexivity. Qed.
Lemma attach_sizes_ok_app l1 l2 : attach_sizes_ok (l1 ++ l2) = attach_sizes_ok l1 && attach_sizes_ok l2.
Proof. apply forallb_app. Qed.
Lemma term_sizes_ok_app l1 l2 : term_sizes_ok (l1 ++ l2) = term_sizes_ok l1 && term_sizes_ok l2.
Proof. apply forallb_app. Qed.
Lemma attach_failed_app l1 l2 : attach_failed (l1 ++ l2) = attach_failed l1 || attach_failed l2.
Proof. apply existsb_app. Qed.

(* ---------- term_loop ---------- *)
Lemma term_loop_spec fuel inst k fails :
  (length inst <= fuel)%nat ->
  terminated_ids (term_loop fuel inst k fails) = inst /\
  attached_ok (term_loop fuel inst k fails) = [] /\
  term_sizes_ok (term_loop fuel inst k fails) = true /\
  attach_sizes_ok (term_loop fuel inst k fails) = true /\
  attach_failed (term_loop fuel inst k fails) = false /\
  Forall (fun c => match c with ATermInstances _ _ => True | _ => False end) (term_loop fuel inst k fails).
Proof.
  revert inst k. induction fuel as [|f IH]; intros inst k Hlen.
  - destruct inst; [|simpl in Hlen; lia]. simpl. repeat split; constructor.
  - destruct inst as [|x inst']; [simpl; repeat split; constructor|].
    set (inst := x :: inst') in *.
    assert (Hrest : (length (skipn terminate_batch inst) <= f)%nat).
    { rewrite skipn_length. pose proof terminate_batch_pos. subst inst. simpl length in *. lia. }
    destruct (IH (skipn terminate_batch inst) (S k) Hrest) as [H1 [H2 [H3 [H4 [H5 H6]]]]].
    change (term_loop (S f) inst k fails) with
      (ATermInstances (firstn terminate_batch inst) (negb (mem_nat k fails)) :: term_loop f (skipn terminate_batch inst) (S k) fails).
    repeat split.
    + unfold terminated_ids in *. simpl. rewrite H1. apply firstn_skipn.
    + unfold attached_ok in *. simpl. exact H2.
    + unfold term_sizes_ok in *. simpl. rewrite H3, andb_true_r. apply Nat.leb_le. apply firstn_le_length.
    + unfold attach_sizes_ok in *. simpl. exact H4.
    + unfold attach_failed in *. simpl. exact H5.
    + constructor; [exact I | exact H6].
Qed.

(* ---------- attach_loop ---------- *)
Definition only_attach (calls : list acall) : Prop :=
  Forall (fun c => match c with AAttach _ _ _ => True | _ => False end) calls.

Lemma attach_loop_spec fuel g inst k fails :
  (length inst < fuel)%nat ->
  let '(calls, r) := attach_loop fuel g inst k fails in
  only_attach calls /\ attach_sizes_ok calls = true /\ terminated_ids calls = [] /\
  match r with
  | AttachOk => attached_ok calls = inst /\ attach_failed calls = false
  | AttachFailed orphans => Permutation (attached_ok calls ++ orphans) inst /\ attach_failed calls = true
  | AttachOutOfFuel => False
  end.
Proof.
  revert inst k. induction fuel as [|f IH]; intros inst k Hlen; [lia|].
  cbn [attach_loop].
  destruct (Nat.ltb attach_batch (length inst)) eqn:Elt.
  - apply Nat.ltb_lt in Elt.
    destruct (mem_nat k fails) eqn:Ef.
    + repeat split.
      * constructor; [exact I | constructor].
      * unfold attach_sizes_ok. simpl. rewrite andb_true_r. apply Nat.leb_le, firstn_le_length.
      * unfold attached_ok. simpl. eapply perm_trans; [apply Permutation_app_comm | rewrite firstn_skipn; reflexivity].
    + assert (Hrest : (length (skipn attach_batch inst) < f)%nat).
      { rewrite skipn_length. pose proof attach_batch_pos. lia. }
      specialize (IH (skipn attach_batch inst) (S k) Hrest).
      destruct (attach_loop f g (skipn attach_batch inst) (S k) fails) as [calls r].
      destruct IH as [H1 [H2 [H3 H4]]].
      repeat split.
      * constructor; [exact I | exact H1].
      * unfold attach_sizes_ok in *. simpl. rewrite H2, andb_true_r. apply Nat.leb_le, firstn_le_length.
      * unfold terminated_ids in *. simpl. exact H3.
      * destruct r as [|orphans|].
        -- destruct H4 as [H4 H5]. split.
           ++ unfold attached_ok in *. simpl. rewrite H4. apply firstn_skipn.
           ++ unfold attach_failed in *. simpl. exact H5.
        -- destruct H4 as [H4 H5]. split.
           ++ unfold attached_ok in *. simpl. rewrite <- app_assoc.
              eapply perm_trans; [apply Permutation_app_head; exact H4 | rewrite firstn_skipn; reflexivity].
           ++ unfold attach_failed in *. simpl. exact H5.
        -- exact H4.
  - apply Nat.ltb_ge in Elt.
    destruct (mem_nat k fails) eqn:Ef.
    + repeat split.
      * constructor; [exact I | constructor].
      * unfold attach_sizes_ok. simpl. rewrite andb_true_r. apply Nat.leb_le. exact Elt.
      * unfold attached_ok. simpl. reflexivity.
    + repeat split.
      * constructor; [exact I | constructor].
      * unfold attach_sizes_ok. simpl. rewrite andb_true_r. apply Nat.leb_le. exact Elt.
      * unfold attached_ok. simpl. apply app_nil_r.
Qed.

(* ---------- the statements ---------- *)
Definition reply_ids (o : aorc) : list id := match ao_fleet o with FleetReply insts _ => concat insts | FleetFail => [] end.

(* C17: rejected without any AWS call *)
Theorem c17_reject_thm a d o :
  d <= 0 \/ a_max a < a_desired a + d -> exists e, aws_increase a d o = ([], IncErr e, a).
Proof.
  intros H. unfold aws_increase.
  destruct (Z.leb_spec d 0); [eexists; reflexivity|].
  destruct (Z.ltb_spec (a_max a) (a_desired a + d)); [eexists; reflexivity | lia].
Qed.

(* C17: set-desired mode issues exactly one call, for exactly current + d, which is an increase *)
Theorem c17_set_desired_thm a d o :
  0 < d -> a_desired a + d <= a_max a -> fleet_mode a = false ->
  aws_increase a d o =
    ([ASetDesired (a_name a) (a_desired a + d) false (negb (ao_setdesired_fail o))],
     if ao_setdesired_fail o then IncErr ESetDesired else IncOk, a)
  /\ a_desired a < a_desired a + d.
Proof.
  intros Hd Hmax Hf. unfold aws_increase.
  destruct (Z.leb_spec d 0); [lia|]. destruct (Z.ltb_spec (a_max a) (a_desired a + d)); [lia|].
  rewrite Hf. destruct (ao_setdesired_fail o); simpl; split; try reflexivity; lia.
Qed.

Lemma fleet_call_ok_self a d vpc ok : fleet_call_ok a d (fleet_call a d vpc ok) = true.
Proof.
  unfold fleet_call_ok, fleet_call. rewrite !Z.eqb_refl.
  destruct (lifecycle_of a =? id_on_demand); reflexivity.
Qed.

Definition only_term (calls : list acall) : Prop :=
  Forall (fun c => match c with ATermInstances _ _ => True | _ => False end) calls.

Lemma cleanup_spec a calls orphans o e :
  e <> EFuel ->
  let '(calls', r, a') := cleanup a calls orphans o e in
  exists tc, calls' = calls ++ tc /\ terminated_ids tc = orphans /\ attached_ok tc = [] /\
             term_sizes_ok tc = true /\ attach_sizes_ok tc = true /\ attach_failed tc = false /\ only_term tc /\
             r <> IncOk /\ r <> IncErr EFuel.
Proof.
  intros He. unfold cleanup, terminate_orphans.
  destruct orphans as [|x orphans'].
  - exists []. rewrite app_nil_r. repeat split; try constructor; try discriminate. congruence.
  - set (orphans := x :: orphans').
    destruct (term_loop_spec (length orphans) orphans 0%nat (ao_term_fail o) (le_n _)) as [H1 [H2 [H3 [H4 [H5 H6]]]]].
    exists (term_loop (length orphans) orphans 0 (ao_term_fail o)).
    repeat split; try assumption.
    + destruct (max_terminate_tries <=? a_tries a + 1); discriminate.
    + destruct (max_terminate_tries <=? a_tries a + 1); [discriminate | congruence].
Qed.

(* calls that are only TerminateInstances / only AttachInstances pass the per-call side conditions *)
Lemma only_term_side a d tc : only_term tc ->
  forallb (fleet_call_ok a d) tc = true /\ fleet_calls tc = [] /\ forallb (fun c => match c with ASetDesired _ _ _ _ | ATermInAsg _ _ _ => false | _ => true end) tc = true /\ existsb (fun c => match c with ACreateFleet _ _ _ _ _ _ _ true => true | _ => false end) tc = false.
Proof.
  induction 1 as [|c tc Hc _ IH]; [repeat split|].
  destruct IH as [I1 [I2 [I3 I4]]]. destruct c; try contradiction. simpl. rewrite I1, I3, I4. unfold fleet_calls in *. simpl. rewrite I2. repeat split.
Qed.

Lemma only_attach_side a d tc : only_attach tc ->
  forallb (fleet_call_ok a d) tc = true /\ fleet_calls tc = [] /\ forallb (fun c => match c with ASetDesired _ _ _ _ | ATermInAsg _ _ _ => false | _ => true end) tc = true /\ existsb (fun c => match c with ACreateFleet _ _ _ _ _ _ _ true => true | _ => false end) tc = false /\ term_sizes_ok tc = true.
Proof.
  induction 1 as [|c tc Hc _ IH]; [repeat split|].
  destruct IH as [I1 [I2 [I3 [I4 I5]]]]. destruct c; try contradiction. simpl. rewrite I1, I3, I4. unfold fleet_calls, term_sizes_ok in *. simpl. rewrite I2, I5. repeat split.
Qed.

(* the fleet branch, characterised once *)
Lemma one_shot_spec a d o :
  let '(calls, r, a') := one_shot a d o in
  forallb (fleet_call_ok a d) calls = true /\ (length (fleet_calls calls) <= 1)%nat /\ attach_sizes_ok calls = true /\ term_sizes_ok calls = true /\ forallb (fun c => match c with ASetDesired _ _ _ _ | ATermInAsg _ _ _ => false | _ => true end) calls = true /\ Permutation (attached_ok calls ++ terminated_ids calls) (acquired o calls) /\ (r = IncOk -> attached_ok calls = reply_ids o /\ terminated_ids calls = [] /\ attach_failed calls = false
                /\ acquired o calls = reply_ids o /\ a_tries a' = 0) /\ (attach_failed calls = true \/ terminated_ids calls <> [] -> r <> IncOk) /\ r <> IncErr EFuel.
Proof.
  unfold one_shot.
  destruct (ao_describe o) as [| |vpc] eqn:Ed.
  1,2: (simpl; repeat split; try reflexivity; try discriminate; try lia; try (intros [H|H]; [discriminate | congruence])).
  destruct vpc as [|v0 vpc'] eqn:Evpc.
  1: (simpl; repeat split; try reflexivity; try discriminate; try lia; try (intros [H|H]; [discriminate | congruence])).
  rewrite <- Evpc. clear Evpc.
  destruct (ao_fleet o) as [|insts nerr] eqn:Ef.
  { unfold acquired, reply_ids. rewrite Ef. unfold fleet_call at 1 2 3 4 5 6 7 8 9 10. cbn [forallb].
    pose proof (fleet_call_ok_self a d vpc false) as Hok. unfold fleet_call in Hok. rewrite Hok.
    simpl. repeat split; try reflexivity; try discriminate; try lia; try (intros [H|H]; [discriminate | congruence]). }
  set (pre := [ADescribeAsg (a_name a) true; fleet_call a d vpc true]).
  assert (Hpre : forallb (fleet_call_ok a d) pre = true /\ fleet_calls pre = [fleet_call a d vpc true] /\
                 attach_sizes_ok pre = true /\ term_sizes_ok pre = true /\
                 forallb (fun c => match c with ASetDesired _ _ _ _ | ATermInAsg _ _ _ => false | _ => true end) pre = true /\
                 attached_ok pre = [] /\ terminated_ids pre = [] /\ attach_failed pre = false /\
                 (forall rest, acquired o (pre ++ rest) = concat insts)).
  { subst pre. cbn [forallb]. rewrite fleet_call_ok_self. unfold fleet_call. simpl. repeat split.
    intros rest. unfold acquired. simpl. rewrite Ef. reflexivity. }
  destruct Hpre as [P1 [P2 [P3 [P4 [P5 [P6 [P7 [P8 P9]]]]]]]].
  assert (Hreply : reply_ids o = concat insts) by (unfold reply_ids; rewrite Ef; reflexivity).
  assert (Hmain :
    let '(calls, r, a') :=
      (let ids := concat insts in
       let ready_at := match ids with [] => Some 1%nat | _ => ao_ready_at o end in
       let ready := match ready_at with Some k => Nat.leb k (ao_deadline o) | None => false end in
       if negb ready then cleanup a pre ids o ENotReady
       else let '(ac, r) := attach_loop (S (length ids)) (a_name a) ids 0 (ao_attach_fail o) in
            match r with
            | AttachOk => (pre ++ ac, IncOk, set_tries a 0)
            | AttachFailed orphans => cleanup a (pre ++ ac) orphans o EAttach
            | AttachOutOfFuel => (pre ++ ac, IncErr EFuel, a)
            end) in
    forallb (fleet_call_ok a d) calls = true /\
    (length (fleet_calls calls) <= 1)%nat /\
    attach_sizes_ok calls = true /\ term_sizes_ok calls = true /\
    forallb (fun c => match c with ASetDesired _ _ _ _ | ATermInAsg _ _ _ => false | _ => true end) calls = true /\
    Permutation (attached_ok calls ++ terminated_ids calls) (acquired o calls) /\
    (r = IncOk -> attached_ok calls = reply_ids o /\ terminated_ids calls = [] /\ attach_failed calls = false
                  /\ acquired o calls = reply_ids o /\ a_tries a' = 0) /\
    (attach_failed calls = true \/ terminated_ids calls <> [] -> r <> IncOk) /\
    r <> IncErr EFuel).
  { cbv zeta.
    destruct (negb match match concat insts with [] => Some 1%nat | _ :: _ => ao_ready_at o end with
                   | Some k => Nat.leb k (ao_deadline o) | None => false end) eqn:Eready.
    - pose proof (cleanup_spec a pre (concat insts) o ENotReady ltac:(discriminate)) as Hc.
      destruct (cleanup a pre (concat insts) o ENotReady) as [[calls r] a'].
      destruct Hc as [tc [Hcalls [T1 [T2 [T3 [T4 [T5 [T6 [T7 T8]]]]]]]]]. subst calls.
      destruct (only_term_side a d tc T6) as [S1 [S2 [S3 S4]]].
      rewrite forallb_app, P1, S1. unfold fleet_calls in *. rewrite filter_app, P2, S2.
      rewrite attach_sizes_ok_app, term_sizes_ok_app, P3, P4, T3, T4, forallb_app, P5, S3.
      rewrite attached_ok_app, terminated_ids_app, attach_failed_app, P6, P7, P8, T1, T2, T5, P9.
      simpl. repeat split; try reflexivity; try lia; try (intros; assumption); try (intros; contradiction).
    - pose proof (attach_loop_spec (S (length (concat insts))) (a_name a) (concat insts) 0 (ao_attach_fail o) ltac:(lia)) as Ha.
      destruct (attach_loop (S (length (concat insts))) (a_name a) (concat insts) 0 (ao_attach_fail o)) as [ac r0].
      destruct Ha as [A1 [A2 [A3 A4]]].
      destruct (only_attach_side a d ac A1) as [S1 [S2 [S3 [S4 S5]]]].
      destruct r0 as [|orphans|]; [| |contradiction].
      + destruct A4 as [A4 A5].
        rewrite forallb_app, P1, S1. unfold fleet_calls in *. rewrite filter_app, P2, S2.
        rewrite attach_sizes_ok_app, term_sizes_ok_app, P3, P4, A2, S5, forallb_app, P5, S3.
        rewrite attached_ok_app, terminated_ids_app, attach_failed_app, P6, P7, P8, A3, A4, A5, P9, Hreply.
        simpl. rewrite app_nil_r. repeat split; try reflexivity; try lia; try discriminate.
        intros [H|H]; [discriminate | congruence].
      + destruct A4 as [A4 A5].
        pose proof (cleanup_spec a (pre ++ ac) orphans o EAttach ltac:(discriminate)) as Hc.
        destruct (cleanup a (pre ++ ac) orphans o EAttach) as [[calls r] a'].
        destruct Hc as [tc [Hcalls [T1 [T2 [T3 [T4 [T5 [T6 [T7 T8]]]]]]]]]. subst calls.
        destruct (only_term_side a d tc T6) as [U1 [U2 [U3 U4]]].
        assert (Hacq : acquired o ((pre ++ ac) ++ tc) = concat insts) by (rewrite <- app_assoc; apply P9).
        rewrite Hacq.
        rewrite !forallb_app, P1, S1, U1. unfold fleet_calls in *. rewrite !filter_app, P2, S2, U2.
        rewrite !attach_sizes_ok_app, !term_sizes_ok_app, P3, P4, A2, S5, T3, T4, P5, S3, U3.
        rewrite !attached_ok_app, !terminated_ids_app, !attach_failed_app, P6, P7, P8, A3, A5, T1, T2, T5.
        simpl. rewrite app_nil_r. repeat split; try reflexivity; try lia; try (intros; assumption); try (intros; contradiction). }
  destruct insts as [|i0 insts'] eqn:Ei.
  - destruct nerr as [|n'].
    + exact Hmain.
    + cbn beta iota. pose proof (P9 []) as Hacq. rewrite app_nil_r in Hacq. simpl in Hacq.
      rewrite P1, P2, P3, P4, P5, P6, P7, P8, Hacq. simpl.
      repeat split; try reflexivity; try discriminate; try lia; try (intros [H|H]; [discriminate | congruence]).
  - exact Hmain.
Qed.

(* ---------- C17 / C18 final statements ---------- *)
Lemma increase_fleet a d o :
  0 < d -> a_desired a + d <= a_max a -> fleet_mode a = true -> aws_increase a d o = one_shot a d o.
Proof.
  intros Hd Hmax Hf. unfold aws_increase.
  destruct (Z.leb_spec d 0); [lia|]. destruct (Z.ltb_spec (a_max a) (a_desired a + d)); [lia|].
  rewrite Hf. reflexivity.
Qed.

(* C17, fleet mode: the request is for exactly d all-or-nothing, issued at most once, attach calls carry at most
   20 ids, no desired-capacity or terminate-in-ASG call is made, and on success every acquired instance was
   attached exactly once, in order *)
Theorem c17_fleet_thm a d o calls r a' :
  0 < d -> a_desired a + d <= a_max a -> fleet_mode a = true ->
  aws_increase a d o = (calls, r, a') ->
  forallb (fleet_call_ok a d) calls = true /\ (length (fleet_calls calls) <= 1)%nat /\
  attach_sizes_ok calls = true /\
  forallb (fun c => match c with ASetDesired _ _ _ _ | ATermInAsg _ _ _ => false | _ => true end) calls = true /\
  (r = IncOk -> attached_ok calls = reply_ids o /\ acquired o calls = reply_ids o /\ terminated_ids calls = []).
Proof.
  intros Hd Hmax Hf Hinc. rewrite increase_fleet in Hinc by assumption.
  pose proof (one_shot_spec a d o) as H. rewrite Hinc in H.
  destruct H as [H1 [H2 [H3 [H4 [H5 [H6 [H7 [H8 H9]]]]]]]].
  repeat split; try assumption;
    match goal with Hr : r = IncOk |- _ => destruct (H7 Hr) as [G1 [G2 [G3 [G4 G5]]]]; assumption end.
Qed.

(* C18: whatever fails, attached ++ submitted-for-termination is a permutation of the acquired ids;
   terminate calls carry at most 1000 ids; a failure is reported (never IncOk); the fuel never runs out *)
Theorem c18_partition_thm a d o calls r a' :
  0 < d -> a_desired a + d <= a_max a -> fleet_mode a = true ->
  aws_increase a d o = (calls, r, a') ->
  Permutation (attached_ok calls ++ terminated_ids calls) (acquired o calls) /\
  term_sizes_ok calls = true /\
  (attach_failed calls = true \/ terminated_ids calls <> [] -> r <> IncOk) /\
  (r = IncOk -> terminated_ids calls = [] /\ attach_failed calls = false /\ a_tries a' = 0) /\
  r <> IncErr EFuel.
Proof.
  intros Hd Hmax Hf Hinc. rewrite increase_fleet in Hinc by assumption.
  pose proof (one_shot_spec a d o) as H. rewrite Hinc in H.
  destruct H as [H1 [H2 [H3 [H4 [H5 [H6 [H7 [H8 H9]]]]]]]].
  repeat split; try assumption;
    match goal with Hr : r = IncOk |- _ => destruct (H7 Hr) as [G1 [G2 [G3 [G4 G5]]]]; assumption end.
Qed.

(* a readiness timeout terminates every acquired instance and attaches none *)
Theorem c18_timeout_thm a d o insts nerr vpc0 vpc calls r a' :
  0 < d -> a_desired a + d <= a_max a -> fleet_mode a = true ->
  ao_describe o = DescVpc (vpc0 :: vpc) -> ao_fleet o = FleetReply insts nerr -> concat insts <> [] ->
  (match ao_ready_at o with Some k => Nat.leb k (ao_deadline o) | None => false end) = false ->
  aws_increase a d o = (calls, r, a') ->
  attached_ok calls = [] /\ terminated_ids calls = concat insts /\ r <> IncOk.
Proof.
  intros Hd Hmax Hf Hdesc Hfleet Hne Hready Hinc. rewrite increase_fleet in Hinc by assumption.
  unfold one_shot in Hinc. rewrite Hdesc, Hfleet in Hinc.
  assert (Hinsts : exists i0 is', insts = i0 :: is').
  { destruct insts; [exfalso; apply Hne; reflexivity | eauto]. }
  destruct Hinsts as [i0 [is' Ei]]. rewrite Ei in Hinc. rewrite <- Ei in Hinc.
  cbv zeta in Hinc.
  destruct (concat insts) as [|x ids'] eqn:Eids; [congruence|].
  rewrite Hready in Hinc. simpl negb in Hinc. cbv iota in Hinc.
  pose proof (cleanup_spec a [ADescribeAsg (a_name a) true; fleet_call a d (vpc0 :: vpc) true] (x :: ids') o ENotReady ltac:(discriminate)) as Hc.
  rewrite Hinc in Hc. destruct Hc as [tc [Hcalls [T1 [T2 [T3 [T4 [T5 [T6 [T7 T8]]]]]]]]]. subst calls.
  rewrite attached_ok_app, terminated_ids_app, T1, T2. unfold fleet_call. simpl. repeat split. exact T7.
Qed.

(* ---------- C19: DeleteNodes ---------- *)
(* the specification of the terminate sequence: the backing instance of each node of a prefix of the list, in
   order, always with decrement; the prefix ends at the end of the list (0), at the first non-member (2) or with
   the first failing call (1) *)
Inductive del_trace (a : asg) : list node -> list acall -> Z -> Prop :=
| DT_done : del_trace a [] [] 0
| DT_foreign n rest : belongs a (n_pid n) = false -> del_trace a (n :: rest) [] 2
| DT_fail n rest i : belongs a (n_pid n) = true -> backing_instance a (n_pid n) = Some i ->
    del_trace a (n :: rest) [ATermInAsg (i_id i) true false] 1
| DT_step n rest i calls cls : belongs a (n_pid n) = true -> backing_instance a (n_pid n) = Some i ->
    del_trace a rest calls cls -> del_trace a (n :: rest) (ATermInAsg (i_id i) true true :: calls) cls.

Lemma bytes_eqb_eq x y : bytes_eqb x y = true <-> x = y.
Proof. apply list_eqb_Z_eq. Qed.

Lemma bytes_eqb_sym x y : bytes_eqb x y = bytes_eqb y x.
Proof.
  destruct (bytes_eqb x y) eqn:E1, (bytes_eqb y x) eqn:E2; try reflexivity.
  - apply bytes_eqb_eq in E1. subst. rewrite (proj2 (bytes_eqb_eq y y) eq_refl) in E2. discriminate.
  - apply bytes_eqb_eq in E2. subst. rewrite (proj2 (bytes_eqb_eq x x) eq_refl) in E1. discriminate.
Qed.

(* a member always has a backing instance, and that instance's provider id is the node's *)
Lemma belongs_backing a pid : belongs a pid = true -> exists i, backing_instance a pid = Some i /\ In i (a_instances a) /\ instance_pid i = pid.
Proof.
  unfold belongs, backing_instance. induction (a_instances a) as [|i l IH]; simpl; [discriminate|].
  rewrite (bytes_eqb_sym pid). destruct (bytes_eqb (instance_pid i) pid) eqn:E.
  - intros _. exists i. apply bytes_eqb_eq in E. auto.
  - simpl. intros H. destruct (IH H) as [j [H1 [H2 H3]]]. exists j. auto.
Qed.

Lemma belongs_set_desired a v pid : belongs (set_desired a v) pid = belongs a pid.
Proof. reflexivity. Qed.
Lemma backing_set_desired a v pid : backing_instance (set_desired a v) pid = backing_instance a pid.
Proof. reflexivity. Qed.

Lemma del_trace_set_desired a v nodes calls cls : del_trace (set_desired a v) nodes calls cls -> del_trace a nodes calls cls.
Proof. induction 1; econstructor; eauto. Qed.

Definition ok_calls (calls : list acall) : Z :=
  count_occ_b (fun c => match c with ATermInAsg _ _ true => true | _ => false end) calls.

Ltac splits := repeat match goal with |- _ /\ _ => split end.

Lemma ok_calls_cons_ok x d calls : ok_calls (ATermInAsg x d true :: calls) = 1 + ok_calls calls.
Proof. reflexivity. Qed.

Lemma delete_loop_spec nodes : forall a fails,
  let '(calls, r, a') := delete_loop a nodes fails in
  del_trace a nodes calls (del_class r) /\ (zlen calls <= zlen nodes) /\
  a_desired a' = a_desired a - ok_calls calls /\ a_instances a' = a_instances a /\ a_min a' = a_min a /\
  r <> DelNoInstance /\ r <> DelErrMin /\ r <> DelErrBreach /\
  (forall x, r = DelNotInGroup x -> exists n, nth_error nodes (length calls) = Some n /\ n_name n = x /\ belongs a (n_pid n) = false).
Proof.
  induction nodes as [|n rest IH]; intros a fails.
  - simpl. splits; try constructor; try discriminate; try lia;
      try (unfold ok_calls; simpl; lia); try (intros x Hx; discriminate).
  - cbn [delete_loop]. destruct (belongs a (n_pid n)) eqn:Eb; cbn [negb].
    + destruct (belongs_backing a (n_pid n) Eb) as [i [Hi [Hin Hpid]]]. rewrite Hi.
      destruct (mem_bytes (i_id i) fails) eqn:Ef.
      * splits;
          first [ (eapply DT_fail; eassumption) | reflexivity | discriminate | (unfold zlen, ok_calls; simpl; lia) | idtac ].
      * specialize (IH (set_desired a (a_desired a - 1)) fails).
        destruct (delete_loop (set_desired a (a_desired a - 1)) rest fails) as [[calls r] a'].
        destruct IH as [H1 [H2 [H3 [H4 [H5 [H6 [H7 [H8 H9]]]]]]]].
        splits;
          first [ assumption
                | (eapply DT_step; try eassumption; eapply del_trace_set_desired; eassumption)
                | (unfold zlen in *; simpl length; lia)
                | (rewrite H3, ok_calls_cons_ok; simpl a_desired; lia)
                | idtac ].
    + splits;
        first [ (apply DT_foreign; exact Eb) | reflexivity | discriminate | (unfold zlen, ok_calls; simpl; lia) | idtac ].
      intros x Hx. inversion Hx; subst. exists n. simpl. auto.
Qed.

(* C19: the request is refused as a whole, without any AWS call, when it would breach the minimum *)
Theorem c19_refuse_thm a nodes fails :
  a_desired a <= a_min a \/ a_desired a - zlen nodes < a_min a ->
  exists e, aws_delete_nodes a nodes fails = ([], e, a) /\ del_class e = 1.
Proof.
  intros H. unfold aws_delete_nodes.
  destruct (Z.leb_spec (a_desired a) (a_min a)); [eexists; split; reflexivity|].
  destruct (Z.ltb_spec (a_desired a - zlen nodes) (a_min a)); [eexists; split; reflexivity | lia].
Qed.

(* C19: otherwise exactly the backing instances of a prefix of the list, with decrement, at most desired - min of
   them, the cached desired capacity following the accepted terminations *)
Theorem c19_exact_thm a nodes fails calls r a' :
  a_min a < a_desired a -> a_min a <= a_desired a - zlen nodes ->
  aws_delete_nodes a nodes fails = (calls, r, a') ->
  del_trace a nodes calls (del_class r) /\ zlen calls <= a_desired a - a_min a /\
  a_desired a' = a_desired a - ok_calls calls /\
  (forall x, r = DelNotInGroup x -> exists n, nth_error nodes (length calls) = Some n /\ n_name n = x /\ belongs a (n_pid n) = false).
Proof.
  intros H1 H2 Hd. unfold aws_delete_nodes in Hd.
  destruct (Z.leb_spec (a_desired a) (a_min a)); [lia|].
  destruct (Z.ltb_spec (a_desired a - zlen nodes) (a_min a)); [lia|].
  pose proof (delete_loop_spec nodes a fails) as Hs. rewrite Hd in Hs.
  destruct Hs as [S1 [S2 [S3 [S4 [S5 [S6 [S7 [S8 S9]]]]]]]].
  repeat split; try assumption. lia.
Qed.

(* the boolean checker used on observed runs decides the trace specification *)
Lemma check_del_calls_sound a : forall nodes calls cls,
  check_del_calls a nodes calls cls = true -> del_trace a nodes calls cls.
Proof.
  induction nodes as [|n rest IH]; intros calls cls H.
  - destruct calls as [|c calls]; simpl in H.
    + apply Z.eqb_eq in H. subst. constructor.
    + destruct c; discriminate.
  - destruct calls as [|c calls]; simpl in H.
    + destruct (belongs a (n_pid n)) eqn:Eb; [discriminate|]. apply Z.eqb_eq in H. subst. constructor. exact Eb.
    + destruct c as [| inst decr ok | | | | |]; try discriminate.
      apply andb_prop in H. destruct H as [H Hrest]. apply andb_prop in H. destruct H as [H Hinst].
      apply andb_prop in H. destruct H as [Hdecr Hb]. destruct decr; [|discriminate].
      destruct (backing_instance a (n_pid n)) as [i|] eqn:Ei; [|discriminate].
      apply bytes_eqb_eq in Hinst. subst inst.
      destruct ok.
      * eapply DT_step; eauto.
      * apply andb_prop in Hrest. destruct Hrest as [Hnil Hcls]. destruct calls; [|discriminate].
        apply Z.eqb_eq in Hcls. subst. eapply DT_fail; eauto.
Qed.

Lemma check_del_calls_complete a nodes calls cls :
  del_trace a nodes calls cls -> check_del_calls a nodes calls cls = true.
Proof.
  induction 1 as [| n rest Hb | n rest i Hb Hi | n rest i calls cls Hb Hi Ht IH]; simpl.
  - reflexivity.
  - rewrite Hb. reflexivity.
  - rewrite Hb, Hi. rewrite (proj2 (bytes_eqb_eq _ _) eq_refl). reflexivity.
  - rewrite Hb, Hi. rewrite (proj2 (bytes_eqb_eq _ _) eq_refl). simpl. exact IH.
Qed.

(* ---------- provider-id parsing (C20) ---------- *)
Theorem pid_instance_unrepaired_refuted : pid_instance_unrepaired [] = None.
Proof. reflexivity. Qed.

(* ---------- the model passes the boolean checkers that are run on observed behaviour ---------- *)
Lemma same_multiset_perm x y : Permutation x y -> same_multiset x y = true.
Proof. intros H. unfold same_multiset, sortZ. apply list_eqb_Z_eq. apply same_sorted_iff_perm. exact H. Qed.

Lemma same_multiset_sound x y : same_multiset x y = true -> Permutation x y.
Proof. unfold same_multiset, sortZ. intros H. apply list_eqb_Z_eq in H. apply same_sorted_iff_perm. exact H. Qed.

Lemma inc_class_ok r : (inc_class r =? 0) = true <-> r = IncOk.
Proof. destruct r; simpl; split; intros H; try reflexivity; discriminate. Qed.

Theorem model_passes_C17 a d o :
  let '(calls, r, _) := aws_increase a d o in check_C17 a d o calls (inc_class r) = true.
Proof.
  destruct (aws_increase a d o) as [[calls r] a'] eqn:Einc. unfold check_C17.
  destruct ((d <=? 0) || (a_max a <? a_desired a + d)) eqn:Erej.
  - assert (Hrej : d <= 0 \/ a_max a < a_desired a + d).
    { apply orb_prop in Erej. destruct Erej as [E|E]; [left; apply Z.leb_le | right; apply Z.ltb_lt]; exact E. }
    destruct (c17_reject_thm a d o Hrej) as [e He]. rewrite He in Einc. inversion Einc; subst. reflexivity.
  - apply orb_false_elim in Erej. destruct Erej as [E1 E2]. apply Z.leb_gt in E1. apply Z.ltb_ge in E2.
    destruct (fleet_mode a) eqn:Ef; cbn [negb].
    + destruct (c17_fleet_thm a d o calls r a' E1 E2 Ef Einc) as [H1 [H2 [H3 [H4 H5]]]].
      rewrite H1, H3, H4.
      assert (H2' : (length (accepted_fleet_calls calls) <= 1)%nat).
      { eapply Nat.le_trans; [|exact H2]. unfold accepted_fleet_calls, fleet_calls. clear.
        induction calls as [|c l IH]; [simpl; lia|]. destruct c as [| | |t m ct ok fk no tp [|]| | |]; simpl; lia. }
      apply Nat.leb_le in H2'. rewrite H2'. simpl.
      destruct (inc_class r =? 0) eqn:Ec; [|reflexivity].
      apply inc_class_ok in Ec. destruct (H5 Ec) as [G1 [G2 G3]]. rewrite G1, G2. apply same_multiset_perm. reflexivity.
    + destruct (c17_set_desired_thm a d o E1 E2 Ef) as [H1 H2]. rewrite H1 in Einc. inversion Einc; subst.
      unfold writes_of. simpl. rewrite !Z.eqb_refl. apply Z.ltb_lt in H2. rewrite H2.
      destruct (ao_setdesired_fail o); reflexivity.
Qed.

Theorem model_passes_C18 a d o :
  let '(calls, r, _) := aws_increase a d o in check_C18 a d o calls (inc_class r) = true.
Proof.
  destruct (aws_increase a d o) as [[calls r] a'] eqn:Einc. unfold check_C18.
  destruct ((d <=? 0) || (a_max a <? a_desired a + d) || negb (fleet_mode a)) eqn:Eskip; [reflexivity|].
  apply orb_false_elim in Eskip. destruct Eskip as [Erej Ef]. apply orb_false_elim in Erej. destruct Erej as [E1 E2].
  apply Z.leb_gt in E1. apply Z.ltb_ge in E2. apply negb_false_iff in Ef.
  destruct (c18_partition_thm a d o calls r a' E1 E2 Ef Einc) as [H1 [H2 [H3 [H4 H5]]]].
  rewrite (same_multiset_perm _ _ H1), H2. simpl.
  destruct (inc_class r =? 0) eqn:Ec.
  - apply inc_class_ok in Ec. destruct (H4 Ec) as [G1 [G2 G3]]. rewrite G1, G2. reflexivity.
  - simpl. rewrite andb_true_r. destruct (attach_failed calls || negb match terminated_ids calls with [] => true | _ :: _ => false end); reflexivity.
Qed.

Theorem model_passes_C19 a nodes fails :
  let '(calls, r, _) := aws_delete_nodes a nodes fails in check_C19 a nodes calls (del_class r) = true.
Proof.
  destruct (aws_delete_nodes a nodes fails) as [[calls r] a'] eqn:Ed. unfold check_C19.
  destruct ((a_desired a <=? a_min a) || (a_desired a - zlen nodes <? a_min a)) eqn:Eref.
  - assert (Href : a_desired a <= a_min a \/ a_desired a - zlen nodes < a_min a).
    { apply orb_prop in Eref. destruct Eref as [E|E]; [left; apply Z.leb_le | right; apply Z.ltb_lt]; exact E. }
    destruct (c19_refuse_thm a nodes fails Href) as [e [He Hc]]. rewrite He in Ed. inversion Ed; subst.
    simpl. rewrite Hc. reflexivity.
  - apply orb_false_elim in Eref. destruct Eref as [E1 E2]. apply Z.leb_gt in E1. apply Z.ltb_ge in E2.
    destruct (c19_exact_thm a nodes fails calls r a' E1 E2 Ed) as [H1 [H2 [H3 H4]]].
    assert (Hw : writes_of calls = calls).
    { clear -H1. unfold writes_of. induction H1; simpl; try reflexivity. rewrite IHdel_trace. reflexivity. }
    rewrite Hw. rewrite (check_del_calls_complete _ _ _ _ H1). simpl. apply Z.leb_le. exact H2.
Qed.
