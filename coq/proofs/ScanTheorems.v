(* ScanTheorems.v — the per-group theorems in the form the property files quote: for every instant, dry-mode flag,
   API server content, group (options, controller memory, failure oracles), cloud group and listed objects. *)
From Esc Require Import SpecScan proofs.BaseProofs proofs.AwsProofs proofs.ScanLemmas proofs.ScanChecks.

Definition asg_named (g : group_in) (a : option asg) : Prop :=
  match a with Some a' => a_name a' = o_asg (gi_opts g) | None => True end.

Lemma ctx_of_ok now gdry api g a nodes pods : asg_named g a -> ctx_ok (ctx_of now gdry api g a nodes pods).
Proof. intros H. split; [reflexivity | exact H]. Qed.

Lemma find_asg_named cloud name a : find_asg cloud name = Some a -> a_name a = name.
Proof. unfold find_asg. intros H. apply find_some in H. destruct H as [_ H]. apply Z.eqb_eq in H. exact H. Qed.

Lemma mk_ctx_ok s g : ctx_ok (mk_ctx s g).
Proof.
  apply ctx_of_ok. unfold asg_named. destruct (find_asg (s_cloud s) (o_asg (gi_opts g))) eqn:E; [|exact I].
  eapply find_asg_named; exact E.
Qed.

Section PerGroup.
  Variables (now : Z) (gdry : bool) (api : list node) (g : group_in) (a : option asg) (nodes : list node) (pods : list pod).
  Hypothesis Hnamed : asg_named g a.
  Let x := ctx_of now gdry api g a nodes pods.
  Let calls := r_calls (scan_of now gdry api g a nodes pods).

  Theorem group_passes_C01 : check_C01_group x calls = true.
  Proof. apply model_passes_C01_x; [apply ctx_of_ok; exact Hnamed | apply scan_of_sources]. Qed.
  Theorem group_passes_C10 : check_C10_group x calls = true.
  Proof. apply model_passes_C01_x; [apply ctx_of_ok; exact Hnamed | apply scan_of_sources]. Qed.
  Theorem group_passes_C09 : check_C09_group x calls = true.
  Proof. apply model_passes_C09_x; [apply ctx_of_ok; exact Hnamed | apply scan_of_sources]. Qed.
  Theorem group_passes_C11 : check_C11_group x calls = true.
  Proof. apply model_passes_C11_x. apply scan_of_sources. Qed.
  Theorem group_passes_C12 : check_C12_group x calls = true.
  Proof. apply model_passes_C12_x; [apply ctx_of_ok; exact Hnamed | apply scan_of_sources]. Qed.
  Theorem group_passes_C15 : check_C15_group x calls = true.
  Proof. apply model_passes_C15_x; [apply ctx_of_ok; exact Hnamed | apply scan_of_sources]. Qed.
End PerGroup.

(* ---------- Prop readings of the checkers ---------- *)
Definition Removable (x : gctx) (n : node) : Prop :=
  x_dry x = false /\ n_unsched n = false /\
  ((has_esc n = true /\ exists ts, taint_time n = Some ts /\
       ((o_soft (x_opts x) < taint_age (x_env x) ts /\ node_pods_remaining (x_pods x) n = 0)
        \/ o_hard (x_opts x) < taint_age (x_env x) ts))
   \/ (has_force n = true /\ node_pods_remaining (x_pods x) n = 0)).

Lemma removable_iff x n : removable x n = true <-> Removable x n.
Proof.
  unfold removable, Removable, grace_ok. split.
  - intros H. apply andb_prop in H. destruct H as [H H3]. apply andb_prop in H. destruct H as [H1 H2].
    apply negb_true_iff in H1, H2. splits; auto. apply orb_prop in H3. destruct H3 as [H3|H3]; apply andb_prop in H3; destruct H3 as [Ha Hb].
    + left. split; [exact Ha|]. destruct (taint_time n) as [ts|]; [|discriminate]. exists ts. split; [reflexivity|].
      apply orb_prop in Hb. destruct Hb as [Hb|Hb].
      * apply andb_prop in Hb. destruct Hb as [Hb1 Hb2]. left. split; [apply Z.ltb_lt; exact Hb1 | apply Z.eqb_eq; exact Hb2].
      * right. apply Z.ltb_lt. exact Hb.
    + right. split; [exact Ha | apply Z.eqb_eq; exact Hb].
  - intros (H1 & H2 & H3). rewrite H1, H2. simpl. destruct H3 as [[Ha [ts [Ht Hb]]]|[Ha Hb]].
    + rewrite Ha, Ht. simpl. destruct Hb as [[Hb1 Hb2]|Hb].
      * apply Z.ltb_lt in Hb1. apply Z.eqb_eq in Hb2. rewrite Hb1, Hb2. reflexivity.
      * apply Z.ltb_lt in Hb. rewrite Hb. rewrite orb_true_r. reflexivity.
    + apply Z.eqb_eq in Hb. rewrite Ha, Hb. simpl. apply orb_true_r.
Qed.

Lemma targets_iff x P c : targets x P c = true <-> exists n, In n (x_nodes x) /\ node_matches x c n = true /\ P n = true.
Proof.
  unfold targets. rewrite existsb_exists. split; intros [n [H1 H2]]; exists n.
  - apply andb_prop in H2. tauto.
  - destruct H2 as [H2 H3]. rewrite H2, H3. auto.
Qed.

(* C01 as a statement about every removal call of the journal *)
Definition P_C01 (x : gctx) (calls : list call) : Prop :=
  forall c, In c calls -> is_removal c = true -> exists n, In n (x_nodes x) /\ node_matches x c n = true /\ Removable x n.

Lemma check_C01_iff x calls : check_C01_group x calls = true <-> P_C01 x calls.
Proof.
  unfold check_C01_group, P_C01. rewrite forallb_forall. split.
  - intros H c Hc Hr. specialize (H c Hc). rewrite Hr in H. apply targets_iff in H. destruct H as [n [H1 [H2 H3]]].
    exists n. rewrite <- removable_iff. auto.
  - intros H c Hc. destruct (is_removal c) eqn:Hr; [|reflexivity]. apply targets_iff.
    destruct (H c Hc Hr) as [n [H1 [H2 H3]]]. exists n. rewrite removable_iff. auto.
Qed.

Definition P_C10 (x : gctx) (calls : list call) : Prop :=
  forall c, In c calls -> is_removal c = true ->
  exists n, In n (x_nodes x) /\ node_matches x c n = true /\ (safe_from_deletion n = false \/ has_force n = true).

Lemma check_C10_iff x calls : check_C10_group x calls = true <-> P_C10 x calls.
Proof.
  unfold check_C10_group, P_C10, protected. rewrite forallb_forall. split.
  - intros H c Hc Hr. specialize (H c Hc). rewrite Hr in H. apply targets_iff in H. destruct H as [n [H1 [H2 H3]]].
    exists n. splits; auto. destruct (safe_from_deletion n), (has_force n); simpl in H3; auto; discriminate.
  - intros H c Hc. destruct (is_removal c) eqn:Hr; [|reflexivity]. apply targets_iff.
    destruct (H c Hc Hr) as [n [H1 [H2 H3]]]. exists n. splits; auto. destruct H3 as [H3|H3]; rewrite H3; simpl; auto.
    destruct (safe_from_deletion n); reflexivity.
Qed.

Definition P_C09 (x : gctx) (calls : list call) : Prop :=
  x_dry x = false -> forall c, In c calls -> is_node_write c = true ->
  exists n, In n (x_nodes x) /\ node_matches x c n = true /\ n_unsched n = false.

Lemma check_C09_iff x calls : check_C09_group x calls = true <-> P_C09 x calls.
Proof.
  unfold check_C09_group, P_C09. destruct (x_dry x).
  - split; [intros _ H; discriminate | reflexivity].
  - rewrite forallb_forall. split.
    + intros H _ c Hc Hr. specialize (H c Hc). rewrite Hr in H. apply targets_iff in H. destruct H as [n [H1 [H2 H3]]].
      exists n. splits; auto. apply negb_true_iff. exact H3.
    + intros H c Hc. destruct (is_node_write c) eqn:Hr; [|reflexivity]. apply targets_iff.
      destruct (H eq_refl c Hc Hr) as [n [H1 [H2 H3]]]. exists n. rewrite H3. auto.
Qed.

Definition P_C11 (x : gctx) (calls : list call) : Prop :=
  x_dry x = true -> forall c, In c calls -> call_is_write c = false.

Lemma check_C11_iff x calls : check_C11_group x calls = true <-> P_C11 x calls.
Proof.
  unfold check_C11_group, P_C11, writes. destruct (x_dry x).
  - split.
    + intros H _ c Hc. destruct (call_is_write c) eqn:E; [|reflexivity].
      assert (Hin : In c (filter call_is_write calls)) by (apply filter_In; auto).
      destruct (filter call_is_write calls); [destruct Hin | discriminate].
    + intros H. rewrite filter_nil; [reflexivity | auto].
  - split; [intros _ H; discriminate | reflexivity].
Qed.
