(* aws.go IncreaseSize, its two refusals, as translated on this run, are the guards of the model's aws_increase. *)
From Esc Require Import GeneratedCtl proofs.GenCtlAgree.
Open Scope Z_scope.

Theorem gen_IncreaseSize_guard_agree : forall a d o,
  match gen_IncreaseSize_guard a d with
  | GRet [GE true] => exists er, aws_increase a d o = ([], IncErr er, a) /\ (er = ENonPositive \/ er = EBreachMax)
  | GFall [] => 0 < d /\ a_desired a + d <= a_max a /\
                aws_increase a d o =
                (if fleet_mode a then one_shot a d o
                 else if ao_setdesired_fail o then ([ASetDesired (a_name a) (a_desired a + d) false false], IncErr ESetDesired, a)
                 else ([ASetDesired (a_name a) (a_desired a + d) false true], IncOk, a))
  | _ => False
  end.
Proof.
  intros. unfold gen_IncreaseSize_guard, aws_increase.
  repeat cmp_case; try lia;
    first [ solve [eexists; split; [reflexivity|]; auto] | solve [repeat split; first [lia | reflexivity]] ].
Qed.

(* the guard refuses exactly when d <= 0 or the target would exceed the maximum *)
Corollary gen_IncreaseSize_guard_iff : forall a d,
  gen_IncreaseSize_guard a d = GRet [GE true] <-> (d <= 0 \/ a_max a < a_desired a + d).
Proof. intros. unfold gen_IncreaseSize_guard. repeat cmp_case; split; intros; try discriminate; try lia; reflexivity. Qed.
