(* scale_up.go calculateNodesToAdd / scaleUpCloudProviderNodeGroup, as translated on this run, are the model's nodes_to_add
   and the cloud part of scale_up (GenCtlAgree.model_up_cloud, through which scale_up factors: scale_up_factor). *)
From Esc Require Import GeneratedCtl proofs.GenCtlAgree.
Open Scope Z_scope.

Theorem gen_calculateNodesToAdd_agree : forall want target maxn,
  gen_calculateNodesToAdd want target maxn = nodes_to_add want target maxn.
Proof. intros. unfold gen_calculateNodesToAdd, nodes_to_add. agree. Qed.

(* found = the provider knows the group (the model's `a = Some g`); the model's dry is the code's dryMode *)
Theorem gen_scaleUpCloudProviderNodeGroup_agree : forall e o maxn g want,
  gen_scaleUpCloudProviderNodeGroup e o maxn true g want = model_up_cloud maxn (e_dry e || o_dry o) (Some g) want
  /\ gen_scaleUpCloudProviderNodeGroup e o maxn false g want = model_up_cloud maxn (e_dry e || o_dry o) None want.
Proof.
  intros. unfold gen_scaleUpCloudProviderNodeGroup, model_up_cloud, nodes_to_add. split; [|reflexivity].
  cbn [negb]. cbv zeta. destruct (Z.min_spec maxn (a_max g)) as [[? ->]|[? ->]]; agree.
Qed.

(* hence the model's scale_up, whenever nodes remain to be added after untainting, does what the translated code decides *)
Corollary gen_scale_up_cloud : forall e o maxn st g tainted want,
  let dry := e_dry e || o_dry o in
  let '(ucalls, ucount, tr) :=
    match tainted with [] => ([], 0, g_taint_tracker st) | _ => untaint_loop e dry (sort_newest tainted) want 0 (g_taint_tracker st) end in
  0 < want - ucount ->
  scale_up e o maxn dry st (Some g) tainted want =
  up_after e ucalls ucount (with_tracker st tr) (Some g) (gen_scaleUpCloudProviderNodeGroup e o maxn true g (want - ucount)).
Proof.
  intros. pose proof (scale_up_factor e o maxn dry st (Some g) tainted want) as F.
  destruct (match tainted with [] => _ | _ => _ end) as [[ucalls ucount] tr]. intros Hpos.
  rewrite F. destruct (Z.ltb_spec 0 (want - ucount)); [|lia].
  destruct (gen_scaleUpCloudProviderNodeGroup_agree e o maxn g (want - ucount)) as [-> _]. reflexivity.
Qed.
