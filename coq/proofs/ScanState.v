(* ScanState.v — theorems that need the structure of a scan, not only the origin of each call:
   C02 (lock), C04 (cloud target bound), C03 (taint bound). *)
From Esc Require Import SpecScan SpecAws proofs.BaseProofs proofs.AwsProofs proofs.ScanLemmas proofs.ScanChecks.
From Coq Require Import Permutation.

(* ---------- journal projections distribute over concatenation ---------- *)
Lemma set_desired_ok_app a b : set_desired_ok (a ++ b) = set_desired_ok a || set_desired_ok b.
Proof. apply existsb_app. Qed.
Lemma increase_accepted_app a b : increase_accepted (a ++ b) = increase_accepted a || increase_accepted b.
Proof. apply existsb_app. Qed.
Lemma writes_app a b : writes (a ++ b) = writes a ++ writes b.
Proof. apply filter_app. Qed.

Definition no_increase (calls : list call) : Prop := forall c, In c calls -> is_cloud_increase c = false.

Lemma no_increase_set_desired calls : no_increase calls -> set_desired_ok calls = false /\ increase_accepted calls = false.
Proof.
  intros H. unfold set_desired_ok, increase_accepted. split.
  - destruct (existsb _ calls) eqn:E; [|reflexivity]. apply existsb_exists in E. destruct E as [c [Hc E]].
    specialize (H c Hc). destruct c as [|[]]; simpl in *; try discriminate.
  - destruct (existsb _ calls) eqn:E; [|reflexivity]. apply existsb_exists in E. destruct E as [c [Hc E]].
    specialize (H c Hc). destruct c as [|[]]; simpl in *; try discriminate.
Qed.

Lemma liftK_no_increase l : no_increase (liftK l).
Proof. intros c Hc. unfold liftK in Hc. apply in_map_iff in Hc. destruct Hc as [k [<- _]]. reflexivity. Qed.

Lemma no_increase_app a b : no_increase a -> no_increase b -> no_increase (a ++ b).
Proof. intros Ha Hb c Hc. apply in_app_or in Hc. destruct Hc; auto. Qed.

Lemma removal_no_increase a cands calls : (forall c, In c calls -> removal_of a cands c) -> no_increase calls.
Proof. intros H c Hc. destruct (H c Hc); reflexivity. Qed.

Lemma lag_no_increase e st nodes : no_increase (liftA (registration_lag_calls e st nodes)).
Proof.
  intros c Hc. unfold registration_lag_calls in Hc. destruct (0 <? g_delta st); [|destruct Hc].
  unfold liftA in Hc. apply in_map_iff in Hc. destruct Hc as [x [<- Hin]].
  apply in_concat in Hin. destruct Hin as [l [Hl Hx]]. apply in_map_iff in Hl. destruct Hl as [n [<- _]].
  unfold get_instance_call in Hx. destruct (pid_instance (n_pid n)); [destruct Hx|]. destruct Hx as [<-|[]]. reflexivity.
Qed.

(* ---------- fleet_done: only what follows the accepted fleet request counts ---------- *)
Lemma fleet_done_prefix pfx c : no_increase pfx -> fleet_done (pfx ++ c) = fleet_done c.
Proof.
  induction pfx as [|p pfx IH]; intros H; [reflexivity|].
  assert (Hp : is_cloud_increase p = false) by (apply H; left; reflexivity).
  assert (Hr : no_increase pfx) by (intros x Hx; apply H; right; exact Hx).
  cbn [app fleet_done]. destruct p as [k|a]; [apply IH; exact Hr|].
  destruct a; try (apply IH; exact Hr); simpl in Hp; discriminate.
Qed.
Lemma no_increase_fleet_done calls : no_increase calls -> fleet_done calls = false.
Proof. intros H. rewrite <- (app_nil_r calls). rewrite fleet_done_prefix by exact H. reflexivity. Qed.
Lemma no_increase_done calls : no_increase calls -> increase_done calls = false.
Proof. intros H. unfold increase_done. rewrite (proj1 (no_increase_set_desired _ H)), (no_increase_fleet_done _ H). reflexivity. Qed.
Lemma increase_done_prefix pfx c : no_increase pfx -> increase_done (pfx ++ c) = increase_done c.
Proof.
  intros H. unfold increase_done. rewrite (fleet_done_prefix _ _ H). f_equal.
  unfold set_desired_ok. rewrite existsb_app. fold (set_desired_ok pfx). rewrite (proj1 (no_increase_set_desired _ H)). reflexivity.
Qed.

Lemma refused_liftA l : existsb is_attach_refused (liftA l) = attach_failed l.
Proof. unfold liftA, attach_failed. induction l as [|c l IH]; simpl; [reflexivity|]. rewrite IH. destruct c; reflexivity. Qed.
Lemma only_term_no_attach tc : only_term tc -> existsb is_attach (liftA tc) = false.
Proof. induction 1 as [|c tc Hc _ IH]; [reflexivity|]. destruct c; try contradiction. simpl. exact IH. Qed.
Lemma only_term_no_fleet tc : only_term tc -> fleet_done (liftA tc) = false.
Proof. induction 1 as [|c tc Hc _ IH]; [reflexivity|]. destruct c; try contradiction. simpl. exact IH. Qed.

(* the fleet branch reports success exactly when the journal shows a request accepted and attached in full *)
Lemma os_body_not_done g d vpc o insts : snd (fst (os_body g d vpc o insts)) <> IncOk ->
  fleet_done (liftA (fst (fst (os_body g d vpc o insts)))) = false.
Proof.
  unfold os_body. cbv zeta.
  destruct (negb _).
  { pose proof (cleanup_spec g [ADescribeAsg (a_name g) true; fleet_call g d vpc true] (concat insts) o ENotReady) as H.
    destruct (cleanup _ _ _ _ _) as [[c r] g']. destruct H as [tc H]; [discriminate|]. simpl. intros _.
    destruct H as (-> & _ & _ & _ & _ & _ & Ht & _). unfold fleet_call. simpl. rewrite (only_term_no_attach _ Ht). reflexivity. }
  pose proof (attach_loop_spec (S (length (concat insts))) (a_name g) (concat insts) 0 (ao_attach_fail o) ltac:(lia)) as Ha.
  destruct (attach_loop _ _ _ _ _) as [ac r]. destruct Ha as (_ & _ & _ & Ha). destruct r.
  - simpl. intros E. contradiction E. reflexivity.
  - destruct Ha as [_ Hf].
    pose proof (cleanup_spec g ([ADescribeAsg (a_name g) true; fleet_call g d vpc true] ++ ac) orphans o EAttach) as H.
    destruct (cleanup _ _ _ _ _) as [[c r] g']. destruct H as [tc H]; [discriminate|]. simpl. intros _.
    destruct H as (-> & _). unfold fleet_call. simpl. unfold liftA. rewrite map_app. fold (liftA ac) (liftA tc).
    rewrite !existsb_app, refused_liftA, Hf. simpl. apply andb_false_r.
  - contradiction.
Qed.

Lemma aws_increase_not_done g d o calls r g' : aws_increase g d o = (calls, r, g') -> r <> IncOk ->
  fleet_done (liftA calls) = false.
Proof.
  unfold aws_increase. destruct (d <=? 0); [intros H; inversion H; subst; reflexivity|].
  destruct (a_max g <? a_desired g + d); [intros H; inversion H; subst; reflexivity|].
  destruct (fleet_mode g).
  - unfold one_shot. destruct (ao_describe o) as [| |vpc]; try (intros H; inversion H; subst; reflexivity).
    destruct vpc as [|v0 vpc']; try (intros H; inversion H; subst; reflexivity).
    destruct (ao_fleet o) as [|insts nerr]; try (intros H; inversion H; subst; reflexivity).
    assert (Hb : forall insts, os_body g d (v0 :: vpc') o insts = (calls, r, g') -> r <> IncOk -> fleet_done (liftA calls) = false).
    { intros i H Hr. pose proof (os_body_not_done g d (v0 :: vpc') o i) as Hx. rewrite H in Hx. apply Hx. exact Hr. }
    destruct insts as [|i0 is']; [destruct nerr as [|n']|].
    + apply (Hb []).
    + intros H; inversion H; subst; reflexivity.
    + apply (Hb (i0 :: is')).
  - destruct (ao_setdesired_fail o); intros H; inversion H; subst; reflexivity.
Qed.

(* ---------- aws_increase: an accepted increase shows in the journal ---------- *)
Definition acall_accepted (c : acall) : bool :=
  match c with ASetDesired _ _ _ true => true | ACreateFleet _ _ _ _ _ _ _ true => true | _ => false end.

Lemma increase_accepted_liftA l : increase_accepted (liftA l) = existsb acall_accepted l.
Proof. unfold increase_accepted, liftA. induction l as [|c l IH]; simpl; [reflexivity|]. rewrite IH. destruct c; reflexivity. Qed.

Lemma os_body_incok g d vpc o insts : snd (fst (os_body g d vpc o insts)) = IncOk ->
  existsb acall_accepted (fst (fst (os_body g d vpc o insts))) = true.
Proof.
  unfold os_body. cbv zeta.
  destruct (negb _).
  { pose proof (cleanup_spec g [ADescribeAsg (a_name g) true; fleet_call g d vpc true] (concat insts) o ENotReady) as H.
    destruct (cleanup _ _ _ _ _) as [[c r] g']. destruct H as [tc H]; [discriminate|]. simpl. intros E. destruct H as (_ & _ & _ & _ & _ & _ & _ & H & _). congruence. }
  destruct (attach_loop _ _ _ _ _) as [ac r]. destruct r.
  - intros _. simpl. unfold fleet_call. reflexivity.
  - pose proof (cleanup_spec g ([ADescribeAsg (a_name g) true; fleet_call g d vpc true] ++ ac) orphans o EAttach) as H.
    destruct (cleanup _ _ _ _ _) as [[c r] g']. destruct H as [tc H]; [discriminate|]. simpl. intros E. destruct H as (_ & _ & _ & _ & _ & _ & _ & H & _). congruence.
  - simpl. discriminate.
Qed.

Lemma aws_increase_incok g d o calls g' : aws_increase g d o = (calls, IncOk, g') -> existsb acall_accepted calls = true.
Proof.
  unfold aws_increase. destruct (d <=? 0); [discriminate|]. destruct (a_max g <? a_desired g + d); [discriminate|].
  destruct (fleet_mode g).
  - unfold one_shot. destruct (ao_describe o) as [| |vpc]; try discriminate.
    destruct vpc as [|v0 vpc']; try discriminate. destruct (ao_fleet o) as [|insts nerr]; try discriminate.
    assert (Hb : forall insts, os_body g d (v0 :: vpc') o insts = (calls, IncOk, g') -> existsb acall_accepted calls = true).
    { intros i H. pose proof (os_body_incok g d (v0 :: vpc') o i) as Hx. rewrite H in Hx. apply Hx. reflexivity. }
    destruct insts as [|i0 is']; [destruct nerr as [|n']|].
    + apply (Hb []).
    + discriminate.
    + apply (Hb (i0 :: is')).
  - destruct (ao_setdesired_fail o); intros H; inversion H; subst. reflexivity.
Qed.

(* a successful SetDesiredCapacity only occurs in a request that succeeds as a whole *)
Lemma aws_increase_setdesired g d o calls r g' : aws_increase g d o = (calls, r, g') ->
  existsb (fun c => match c with ASetDesired _ _ _ true => true | _ => false end) calls = true -> r = IncOk.
Proof.
  unfold aws_increase. destruct (d <=? 0); [intros H; inversion H; subst; discriminate|].
  destruct (a_max g <? a_desired g + d); [intros H; inversion H; subst; discriminate|].
  destruct (fleet_mode g).
  - intros H E. pose proof (one_shot_spec g d o) as Hs. rewrite H in Hs. destruct Hs as (_ & _ & _ & _ & H5 & _).
    apply existsb_exists in E. destruct E as [c [Hc E]]. rewrite forallb_forall in H5. specialize (H5 c Hc).
    destruct c; try discriminate.
  - destruct (ao_setdesired_fail o); intros H; inversion H; subst; [discriminate | reflexivity].
Qed.

Lemma set_desired_ok_liftA l : set_desired_ok (liftA l) = existsb (fun c => match c with ASetDesired _ _ _ true => true | _ => false end) l.
Proof. unfold set_desired_ok, liftA. induction l as [|c l IH]; simpl; [reflexivity|]. rewrite IH. destruct c; reflexivity. Qed.

Lemma fleet_done_accepted calls : fleet_done calls = true -> increase_accepted calls = true.
Proof.
  unfold increase_accepted. induction calls as [|c calls IH]; [discriminate|]. cbn [fleet_done existsb].
  destruct c as [k|a]; [exact IH|].
  destruct a as [? ? ? ok1|? ? ?|? ?|? ? ? ? ? ? ? okf|? ? ?|? ?|? ?]; try exact IH.
  - destruct ok1; [intros _; reflexivity | exact IH].
  - destruct okf; [intros _; reflexivity | exact IH].
Qed.
Lemma increase_done_accepted calls : increase_done calls = true -> increase_accepted calls = true.
Proof.
  unfold increase_done. intros H. apply orb_prop in H. destruct H as [H|H]; [|apply fleet_done_accepted; exact H].
  unfold set_desired_ok in H. unfold increase_accepted. apply existsb_exists in H. destruct H as [c [Hc H]].
  apply existsb_exists. exists c. split; [exact Hc|]. destruct c as [|[? ? ? ok1|? ? ?|? ?|? ? ? ? ? ? ? okf|? ? ?|? ?|? ?]]; try discriminate.
  destruct ok1; [reflexivity | discriminate].
Qed.

Lemma attach_loop_nonempty fuel g inst k fails : (0 < fuel)%nat -> fst (attach_loop fuel g inst k fails) <> [].
Proof.
  destruct fuel as [|f]; [lia|]. intros _. cbn [attach_loop].
  destruct (Nat.ltb attach_batch (length inst)); destruct (mem_nat k fails); try (simpl; discriminate).
  destruct (attach_loop f g (skipn attach_batch inst) (S k) fails). simpl. discriminate.
Qed.
Lemma only_attach_exists ac : only_attach ac -> ac <> [] -> existsb is_attach (liftA ac) = true.
Proof. intros H Hn. destruct H as [|c ac Hc _]; [contradiction Hn; reflexivity|]. destruct c; try contradiction. reflexivity. Qed.

Lemma os_body_incok_done g d vpc o insts : snd (fst (os_body g d vpc o insts)) = IncOk ->
  fleet_done (liftA (fst (fst (os_body g d vpc o insts)))) = true.
Proof.
  unfold os_body. cbv zeta.
  destruct (negb _).
  { pose proof (cleanup_spec g [ADescribeAsg (a_name g) true; fleet_call g d vpc true] (concat insts) o ENotReady) as H.
    destruct (cleanup _ _ _ _ _) as [[c r] g']. destruct H as [tc H]; [discriminate|]. simpl. intros E. destruct H as (_ & _ & _ & _ & _ & _ & _ & H & _). congruence. }
  pose proof (attach_loop_spec (S (length (concat insts))) (a_name g) (concat insts) 0 (ao_attach_fail o) ltac:(lia)) as Ha.
  pose proof (attach_loop_nonempty (S (length (concat insts))) (a_name g) (concat insts) 0 (ao_attach_fail o) ltac:(lia)) as Hn.
  destruct (attach_loop _ _ _ _ _) as [ac r]. destruct Ha as (Ho & _ & _ & Ha). destruct r.
  - intros _. destruct Ha as [_ Hf]. simpl. unfold fleet_call. simpl.
    rewrite (only_attach_exists _ Ho Hn), refused_liftA, Hf. reflexivity.
  - pose proof (cleanup_spec g ([ADescribeAsg (a_name g) true; fleet_call g d vpc true] ++ ac) orphans o EAttach) as H.
    destruct (cleanup _ _ _ _ _) as [[c r] g']. destruct H as [tc H]; [discriminate|]. simpl. intros E. destruct H as (_ & _ & _ & _ & _ & _ & _ & H & _). congruence.
  - simpl. discriminate.
Qed.

Lemma aws_increase_incok_done g d o calls g' : aws_increase g d o = (calls, IncOk, g') -> increase_done (liftA calls) = true.
Proof.
  unfold aws_increase. destruct (d <=? 0); [discriminate|]. destruct (a_max g <? a_desired g + d); [discriminate|].
  destruct (fleet_mode g).
  - unfold one_shot. destruct (ao_describe o) as [| |vpc]; try discriminate.
    destruct vpc as [|v0 vpc']; try discriminate. destruct (ao_fleet o) as [|insts nerr]; try discriminate.
    assert (Hb : forall insts, os_body g d (v0 :: vpc') o insts = (calls, IncOk, g') -> increase_done (liftA calls) = true).
    { intros i H. pose proof (os_body_incok_done g d (v0 :: vpc') o i) as Hx. rewrite H in Hx. simpl in Hx. unfold increase_done. rewrite Hx by reflexivity. apply orb_true_r. }
    destruct insts as [|i0 is']; [destruct nerr as [|n']|].
    + apply (Hb []).
    + discriminate.
    + apply (Hb (i0 :: is')).
  - destruct (ao_setdesired_fail o); intros H; inversion H; subst. reflexivity.
Qed.

Lemma aws_increase_done_iff g d o calls r g' :
  aws_increase g d o = (calls, r, g') -> (r = IncOk <-> increase_done (liftA calls) = true).
Proof.
  intros H. split.
  - intros ->. exact (aws_increase_incok_done _ _ _ _ _ H).
  - intros Hd. destruct r as [|e|]; [reflexivity| |]; exfalso; unfold increase_done in Hd;
      rewrite (aws_increase_not_done _ _ _ _ _ _ H) in Hd by discriminate; rewrite orb_false_r, set_desired_ok_liftA in Hd;
      pose proof (aws_increase_setdesired _ _ _ _ _ _ H Hd); discriminate.
Qed.

(* ---------- scale_up: what happens to the lock ---------- *)
Lemma with_tracker_lock st t : g_lock (with_tracker st t) = g_lock st. Proof. reflexivity. Qed.
Lemma with_last_out_lock st t : g_lock (with_last_out st t) = g_lock st. Proof. reflexivity. Qed.
Lemma with_cache_lock st c : g_lock (with_cache st c) = g_lock st. Proof. reflexivity. Qed.

Definition lock_outcome (now : Z) (dry : bool) (pre post : lock) (calls : list call) : Prop :=
  (post = pre /\ increase_done calls = false)
  \/ (exists n, post = lock_arm now n /\ (dry = true \/ increase_done calls = true)).

Lemma scale_up_lock e o mx dry st a tainted want :
  let r := scale_up e o mx dry st a tainted want in
  lock_outcome (e_now e) dry (g_lock st) (g_lock (up_state r)) (up_calls r).
Proof.
  unfold scale_up.
  destruct (match tainted with [] => _ | _ => _ end) as [[ucalls ucount] tr].
  pose proof (no_increase_set_desired _ (liftK_no_increase ucalls)) as [HK1 HK2].
  pose proof (no_increase_done _ (liftK_no_increase ucalls)) as HK3.
  destruct (0 <? want - ucount); [|left; simpl; auto].
  destruct a as [g|]; [|left; simpl; auto].
  destruct (nodes_to_add _ _ _ <=? 0); [left; simpl; auto|].
  destruct dry; [right; simpl; eexists; split; [reflexivity | left; reflexivity]|].
  destruct (aws_increase g _ (e_aorc e)) as [[ac r] g'] eqn:Ei.
  destruct r.
  - right. simpl. eexists. split; [reflexivity|]. right. rewrite (increase_done_prefix _ _ (liftK_no_increase ucalls)).
    exact (aws_increase_incok_done _ _ _ _ _ Ei).
  - left. simpl. split; [reflexivity|]. rewrite (increase_done_prefix _ _ (liftK_no_increase ucalls)). unfold increase_done.
    rewrite (aws_increase_not_done _ _ _ _ _ _ Ei) by discriminate. rewrite set_desired_ok_liftA, orb_false_r.
    destruct (existsb _ ac) eqn:E; [|reflexivity]. pose proof (aws_increase_setdesired _ _ _ _ _ _ Ei E). discriminate.
  - left. simpl. split; [reflexivity|]. rewrite (increase_done_prefix _ _ (liftK_no_increase ucalls)). unfold increase_done.
    rewrite (aws_increase_not_done _ _ _ _ _ _ Ei) by discriminate. rewrite set_desired_ok_liftA, orb_false_r.
    destruct (existsb _ ac) eqn:E; [|reflexivity]. pose proof (aws_increase_setdesired _ _ _ _ _ _ Ei E). discriminate.
Qed.

Lemma lock_outcome_prefix now dry pre post pfx calls : no_increase pfx ->
  lock_outcome now dry pre post calls -> lock_outcome now dry pre post (pfx ++ calls).
Proof.
  intros Hp H. destruct (no_increase_set_desired _ Hp) as [H1 H2]. destruct H as [[Ha Hb]|[n [Ha Hb]]].
  - left. rewrite (increase_done_prefix _ _ Hp), Hb. auto.
  - right. exists n. split; [exact Ha|]. destruct Hb as [Hb|Hb]; [left; exact Hb | right; rewrite (increase_done_prefix _ _ Hp); exact Hb].
Qed.

Lemma lock_outcome_quiet now dry pre calls : no_increase calls -> lock_outcome now dry pre pre calls.
Proof. intros H. left. split; [reflexivity | apply no_increase_done; exact H]. Qed.

(* ---------- scale_down_taint keeps the lock ---------- *)
Lemma scale_down_taint_lock e o mn dry st unt want calls err st' :
  scale_down_taint e o mn dry st unt want = (calls, err, st') -> g_lock st' = g_lock st /\ no_increase calls.
Proof.
  unfold scale_down_taint. destruct (_ <? 0).
  - intros H; inversion H; subst. split; [reflexivity | intros c []].
  - destruct (taint_loop _ _ _ _ _ _ _) as [[kc cnt] tr]. intros H; inversion H; subst. split; [reflexivity | apply liftK_no_increase].
Qed.

(* ---------- scan_act ---------- *)
Lemma scan_act_lock e o mn mx dry st2 a pods unt tainted forced lag tg us cap d0 fz : no_increase lag ->
  let r := scan_act e o mn mx dry st2 a pods unt tainted forced lag tg us cap d0 fz in
  lock_outcome (e_now e) dry (g_lock st2) (g_lock (r_state r)) (r_calls r).
Proof.
  intros Hlag. unfold scan_act.
  destruct (try_delete_nodes e a (force_candidates dry pods forced)) as [[fcalls ferr] a1] eqn:Ef.
  destruct (try_delete_nodes_calls _ _ _ _ _ _ Ef) as [_ [Hf _]]. apply removal_no_increase in Hf.
  set (d2 := if scale_on_max_age e o mn unt tainted then _ else _).
  destruct (d2 <? 0).
  - destruct (try_delete_nodes e a1 (reap_candidates e o dry pods tainted)) as [[rcalls rerr] a2] eqn:Er.
    destruct (try_delete_nodes_calls _ _ _ _ _ _ Er) as [_ [Hr _]]. apply removal_no_increase in Hr.
    destruct (scale_down_taint e o mn dry st2 unt (- d2)) as [[tcalls terr] st3] eqn:Et.
    destruct (scale_down_taint_lock _ _ _ _ _ _ _ _ _ _ Et) as [Hl Ht].
    destruct rerr as [[|]|]; simpl; rewrite ?Hl; apply lock_outcome_quiet; repeat apply no_increase_app; assumption.
  - destruct (0 <? d2).
    + pose proof (scale_up_lock e o mx dry st2 a1 tainted d2) as Hu. cbv zeta in Hu.
      destruct (up_out (scale_up e o mx dry st2 a1 tainted d2)); unfold mk; cbn [r_state r_calls]; rewrite ?with_last_out_lock;
        (apply lock_outcome_prefix; [assumption|]); (apply lock_outcome_prefix; assumption).
    + destruct (try_delete_nodes e a1 (reap_candidates e o dry pods tainted)) as [[rcalls rerr] a2] eqn:Er.
      destruct (try_delete_nodes_calls _ _ _ _ _ _ Er) as [_ [Hr _]]. apply removal_no_increase in Hr.
      destruct rerr as [[|]|]; simpl; apply lock_outcome_quiet; repeat apply no_increase_app; assumption.
Qed.

(* ---------- C02 ---------- *)
Lemma optZ_eqb'_refl t : optZ_eqb' t t = true.
Proof. destruct t; simpl; [apply Z.eqb_refl | reflexivity]. Qed.
Lemma lock_same_refl l : lock_same l l = true.
Proof. unfold lock_same. rewrite Bool.eqb_reflx, optZ_eqb'_refl, Z.eqb_refl. reflexivity. Qed.

Lemma lock_check_time l now cool : l_time (snd (lock_check l now cool)) = l_time l.
Proof. unfold lock_check. destruct (lock_since l now <? cool); simpl; [reflexivity|]. destruct (l_locked l); reflexivity. Qed.
Lemma lock_check_locked l now cool : fst (lock_check l now cool) = true -> snd (lock_check l now cool) = l.
Proof. unfold lock_check. destruct (lock_since l now <? cool); simpl; [reflexivity | discriminate]. Qed.
Lemma lock_check_fst l now cool : fst (lock_check l now cool) = (lock_since l now <? cool).
Proof. unfold lock_check. destruct (lock_since l now <? cool); reflexivity. Qed.

Lemma lock_outcome_checks x calls post l2 :
  in_cooldown x = false -> l_time l2 = l_time (g_lock (x_st x)) ->
  lock_outcome (e_now (x_env x)) (x_dry x) l2 (g_lock post) calls ->
  check_C02_group x calls post = true.
Proof.
  intros Hc Ht H. unfold check_C02_group. rewrite Hc. simpl.
  destruct H as [[Ha Hb]|[n [Ha Hb]]].
  - rewrite Ha, Ht, optZ_eqb'_refl, Hb. reflexivity.
  - rewrite Ha. simpl. rewrite Z.eqb_refl. simpl.
    assert (Hd : x_dry x || increase_accepted calls = true) by (destruct Hb as [->|Hb]; [reflexivity | rewrite (increase_done_accepted _ Hb); apply orb_true_r]).
    rewrite Hd, orb_true_r. simpl. destruct (increase_done calls); reflexivity.
Qed.

Lemma match_both_empty {A B C} (l1 : list A) (l2 : list B) (u v : C) (P : C -> Prop) :
  P u -> P v -> P (match l1, l2 with [], [] => u | _, _ => v end).
Proof. intros Hu Hv. destruct l1, l2; assumption. Qed.

Theorem group_passes_C02 now gdry api g a nodes pods :
  let x := ctx_of now gdry api g a nodes pods in
  let r := scan_of now gdry api g a nodes pods in
  check_C02_group x (r_calls r) (r_state r) = true.
Proof.
  intros x r. subst r. unfold scan_of. fold x.
  assert (Hx : x_st x = match group_nodes (x_opts x) nodes with n :: _ => with_cache (gi_state g) (first_alloc n) | [] => gi_state g end) by reflexivity.
  unfold scan_group.
  change (e_dry (x_env x) || o_dry (x_opts x)) with (x_dry x).
  set (gn := group_nodes (x_opts x) nodes) in *. set (gp := group_pods (x_opts x) pods).
  rewrite <- Hx. set (st1 := x_st x) in *.
  set (lkr := lock_check (g_lock st1) (e_now (x_env x)) (o_cool (x_opts x))).
  assert (Hcool : in_cooldown x = fst lkr) by (unfold in_cooldown; subst lkr; rewrite lock_check_fst; reflexivity).
  assert (Hquiet1 : forall tags out ret, check_C02_group x (r_calls (mk tags [] out ret st1 a)) (r_state (mk tags [] out ret st1 a)) = true).
  { intros. unfold check_C02_group. simpl. rewrite lock_same_refl, optZ_eqb'_refl. destruct (in_cooldown x); reflexivity. }
  assert (Hquiet2 : forall tags out ret, check_C02_group x (r_calls (mk tags [] out ret (with_lock st1 (snd lkr)) a)) (r_state (mk tags [] out ret (with_lock st1 (snd lkr)) a)) = true).
  { intros. unfold check_C02_group. simpl. subst lkr. rewrite lock_check_time, optZ_eqb'_refl. rewrite Hcool.
    destruct (fst (lock_check (g_lock st1) (e_now (x_env x)) (o_cool (x_opts x)))) eqn:E; [|reflexivity].
    rewrite (lock_check_locked _ _ _ E), lock_same_refl. reflexivity. }
  apply (match_both_empty gn gp _ _ (fun r => check_C02_group x (r_calls r) (r_state r) = true)); [apply Hquiet1|].
  destruct (zlen gn <? x_min x); [apply Hquiet1|].
  destruct (x_max x <? zlen gn); [apply Hquiet1|].
  destruct (fst lkr) eqn:Elk; cbn [negb andb].
  { destruct (calc_percent _ _ _ _ _); apply Hquiet2. }
  assert (Ht2 : l_time (g_lock (with_lock st1 (snd lkr))) = l_time (g_lock (x_st x))) by (simpl; subst lkr; apply lock_check_time).
  destruct (zlen (c_untainted (filter_nodes (x_dry x) st1 gn)) <? x_min x).
  { apply lock_outcome_checks with (l2 := g_lock (with_lock st1 (snd lkr))); [exact Hcool | exact Ht2 | apply scale_up_lock]. }
  destruct (calc_percent _ _ _ _ _) as [cpuP memP|]; [|apply Hquiet2].
  destruct (decide _ _ _ _ _ _ _) as [d0|d].
  { apply lock_outcome_checks with (l2 := g_lock (with_lock st1 (snd lkr))); [exact Hcool | exact Ht2 | apply scan_act_lock; apply lag_no_increase]. }
  apply lock_outcome_checks with (l2 := g_lock (with_lock st1 (snd lkr))); [exact Hcool | exact Ht2 | apply lock_outcome_quiet; apply lag_no_increase].
Qed.

(* ---------- C18, controller side ---------- *)
Lemma lock_outcome_checks18 x calls post l2 :
  l_time l2 = l_time (g_lock (x_st x)) ->
  lock_outcome (e_now (x_env x)) (x_dry x) l2 (g_lock post) calls ->
  check_C18_group x calls post = true.
Proof.
  intros Ht H. unfold check_C18_group. destruct H as [[Ha Hb]|[n [Ha Hb]]].
  - rewrite Ha, Ht, optZ_eqb'_refl. reflexivity.
  - destruct Hb as [->| ->]; [rewrite orb_true_r; reflexivity | apply orb_true_r].
Qed.

Theorem group_passes_C18 now gdry api g a nodes pods :
  let x := ctx_of now gdry api g a nodes pods in
  let r := scan_of now gdry api g a nodes pods in
  check_C18_group x (r_calls r) (r_state r) = true.
Proof.
  intros x r. subst r. unfold scan_of. fold x.
  assert (Hx : x_st x = match group_nodes (x_opts x) nodes with n :: _ => with_cache (gi_state g) (first_alloc n) | [] => gi_state g end) by reflexivity.
  unfold scan_group.
  change (e_dry (x_env x) || o_dry (x_opts x)) with (x_dry x).
  set (gn := group_nodes (x_opts x) nodes) in *. set (gp := group_pods (x_opts x) pods).
  rewrite <- Hx. set (st1 := x_st x) in *.
  set (lkr := lock_check (g_lock st1) (e_now (x_env x)) (o_cool (x_opts x))).
  assert (Hquiet1 : forall tags out ret, check_C18_group x (r_calls (mk tags [] out ret st1 a)) (r_state (mk tags [] out ret st1 a)) = true).
  { intros. unfold check_C18_group. simpl. rewrite optZ_eqb'_refl. reflexivity. }
  assert (Hquiet2 : forall tags out ret, check_C18_group x (r_calls (mk tags [] out ret (with_lock st1 (snd lkr)) a)) (r_state (mk tags [] out ret (with_lock st1 (snd lkr)) a)) = true).
  { intros. unfold check_C18_group. simpl. subst lkr. rewrite lock_check_time, optZ_eqb'_refl. reflexivity. }
  apply (match_both_empty gn gp _ _ (fun r => check_C18_group x (r_calls r) (r_state r) = true)); [apply Hquiet1|].
  destruct (zlen gn <? x_min x); [apply Hquiet1|].
  destruct (x_max x <? zlen gn); [apply Hquiet1|].
  destruct (fst lkr) eqn:Elk; cbn [negb andb].
  { destruct (calc_percent _ _ _ _ _); apply Hquiet2. }
  assert (Ht2 : l_time (g_lock (with_lock st1 (snd lkr))) = l_time (g_lock (x_st x))) by (simpl; subst lkr; apply lock_check_time).
  destruct (zlen (c_untainted (filter_nodes (x_dry x) st1 gn)) <? x_min x).
  { apply lock_outcome_checks18 with (l2 := g_lock (with_lock st1 (snd lkr))); [exact Ht2 | apply scale_up_lock]. }
  destruct (calc_percent _ _ _ _ _) as [cpuP memP|]; [|apply Hquiet2].
  destruct (decide _ _ _ _ _ _ _) as [d0|d].
  { apply lock_outcome_checks18 with (l2 := g_lock (with_lock st1 (snd lkr))); [exact Ht2 | apply scan_act_lock; apply lag_no_increase]. }
  apply lock_outcome_checks18 with (l2 := g_lock (with_lock st1 (snd lkr))); [exact Ht2 | apply lock_outcome_quiet; apply lag_no_increase].
Qed.

(* ---------- C04 ---------- *)
Definition okterm (calls : list call) : Z :=
  count_occ_b (fun c => match c with CA (ATermInAsg _ _ true) => true | _ => false end) calls.

Lemma okterm_app a b : okterm (a ++ b) = okterm a + okterm b.
Proof. unfold okterm. induction a as [|c a IH]; simpl; [reflexivity|]. rewrite IH. lia. Qed.

Lemma okterm_acalls calls : okterm calls = ok_calls (acalls_of calls).
Proof.
  unfold okterm, ok_calls, acalls_of. induction calls as [|c l IH]; simpl; [reflexivity|].
  destruct c as [k|ac]; simpl; [exact IH|]. rewrite IH. reflexivity.
Qed.

Lemma c04_app m : forall l1 d l2, check_C04_calls m d (l1 ++ l2) = check_C04_calls m d l1 && check_C04_calls m (d - okterm l1) l2.
Proof.
  induction l1 as [|c l1 IH]; intros d l2.
  - simpl. unfold okterm; simpl. rewrite Z.sub_0_r. reflexivity.
  - assert (Hk : okterm (c :: l1) = (if match c with CA (ATermInAsg _ _ true) => true | _ => false end then 1 else 0) + okterm l1) by reflexivity.
    rewrite <- app_comm_cons, Hk.
    destruct c as [k|ac]; [cbn [check_C04_calls]; rewrite IH; replace (0 + okterm l1) with (okterm l1) by lia; reflexivity|].
    destruct ac; cbn [check_C04_calls]; try (rewrite IH; replace (0 + okterm l1) with (okterm l1) by lia; rewrite ?andb_assoc; reflexivity).
    destruct ok; rewrite IH.
    + replace (d - (1 + okterm l1)) with (d - 1 - okterm l1) by lia. reflexivity.
    + replace (0 + okterm l1) with (okterm l1) by lia. reflexivity.
Qed.

Lemma c04_no_increase m l : no_increase l -> forall d, check_C04_calls m d l = true.
Proof.
  induction l as [|c l IH]; intros H d; [reflexivity|].
  assert (Hc : is_cloud_increase c = false) by (apply H; left; reflexivity).
  assert (Hl : no_increase l) by (intros c' Hc'; apply H; right; exact Hc').
  destruct c as [k|ac]; [simpl; apply IH; exact Hl|].
  destruct ac; simpl in *; try discriminate; try (apply IH; exact Hl). destruct ok; apply IH; exact Hl.
Qed.

(* what IncreaseSize asks for *)
Definition inc_call_ok (desired d : Z) (c : acall) : bool :=
  match c with
  | ASetDesired _ v _ _ => v =? desired + d
  | ACreateFleet total _ _ _ _ _ _ _ => total =? d
  | ATermInAsg _ _ _ => false
  | _ => true
  end.

Lemma aws_increase_asks g d o : forallb (inc_call_ok (a_desired g) d) (fst (fst (aws_increase g d o))) = true.
Proof.
  unfold aws_increase. destruct (d <=? 0); [reflexivity|]. destruct (a_max g <? a_desired g + d); [reflexivity|].
  destruct (fleet_mode g).
  - pose proof (one_shot_spec g d o) as H. destruct (one_shot g d o) as [[calls r] g']. destruct H as (H1 & _ & _ & _ & H5 & _).
    simpl. apply forallb_forall. intros c Hc. rewrite forallb_forall in H1, H5. specialize (H1 c Hc). specialize (H5 c Hc).
    destruct c; simpl in *; try discriminate; try reflexivity.
    unfold fleet_call_ok in H1. repeat (apply andb_prop in H1; destruct H1 as [H1 ?]). exact H1.
  - destruct (ao_setdesired_fail o); simpl; rewrite Z.eqb_refl; reflexivity.
Qed.

Lemma c04_increase_calls m desired d l : 0 < d -> desired + d <= m -> forallb (inc_call_ok desired d) l = true ->
  check_C04_calls m desired (liftA l) = true.
Proof.
  intros Hd Hm. induction l as [|c l IH]; [reflexivity|]. simpl. intros H. apply andb_prop in H. destruct H as [Hc Hl].
  destruct c; simpl in *; try discriminate; try (apply IH; exact Hl).
  - apply Z.eqb_eq in Hc. subst v. rewrite IH by exact Hl.
    replace (desired + d <=? m) with true by (symmetry; apply Z.leb_le; lia).
    replace (desired <? desired + d) with true by (symmetry; apply Z.ltb_lt; lia). reflexivity.
  - apply Z.eqb_eq in Hc. subst total. rewrite IH by exact Hl.
    replace (desired + d <=? m) with true by (symmetry; apply Z.leb_le; lia).
    replace (0 <? d) with true by (symmetry; apply Z.ltb_lt; lia). reflexivity.
Qed.

Lemma scale_up_c04 e o mx dry st g tainted want :
  check_C04_calls (Z.min mx (a_max g)) (a_desired g) (up_calls (scale_up e o mx dry st (Some g) tainted want)) = true.
Proof.
  unfold scale_up. destruct (match tainted with [] => _ | _ => _ end) as [[ucalls ucount] tr].
  assert (HK : forall d, check_C04_calls (Z.min mx (a_max g)) d (liftK ucalls) = true) by (intros d0; apply c04_no_increase; apply liftK_no_increase).
  destruct (0 <? want - ucount); [|simpl; apply HK].
  set (add := nodes_to_add (want - ucount) (a_desired g) (Z.min mx (a_max g))).
  destruct (add <=? 0) eqn:Eadd; [simpl; apply HK|]. apply Z.leb_gt in Eadd.
  destruct dry; [simpl; apply HK|].
  pose proof (aws_increase_asks g add (e_aorc e)) as Hasks.
  destruct (aws_increase g add (e_aorc e)) as [[ac r] g']. simpl in Hasks.
  assert (Hm : a_desired g + add <= Z.min mx (a_max g)).
  { subst add. unfold nodes_to_add in *. destruct (Z.min mx (a_max g) <? a_desired g + (want - ucount)) eqn:E; [lia|]. apply Z.ltb_ge in E. lia. }
  assert (Hok : check_C04_calls (Z.min mx (a_max g)) (a_desired g) (liftK ucalls ++ liftA ac) = true).
  { rewrite c04_app, HK. simpl. replace (okterm (liftK ucalls)) with 0.
    - rewrite Z.sub_0_r. apply c04_increase_calls with (d := add); assumption.
    - rewrite okterm_acalls, acalls_of_liftK. reflexivity. }
  destruct r; simpl; exact Hok.
Qed.

Lemma try_delete_c04 e g cands calls err a' :
  try_delete_nodes e (Some g) cands = (calls, err, a') ->
  exists g', a' = Some g' /\ asg_rel g g' /\ a_desired g' = a_desired g - okterm calls /\ no_increase calls.
Proof.
  intros H. destruct (try_delete_nodes_calls _ _ _ _ _ _ H) as [Hrel [Hc Hd]].
  destruct a' as [g'|]; simpl in Hrel; [|contradiction]. exists g'. splits; auto.
  - rewrite okterm_acalls. exact Hd.
  - eapply removal_no_increase. exact Hc.
Qed.

Lemma scan_act_c04 e o mn mx dry st2 g pods unt tainted forced lag tg us cap d0 fz : no_increase lag -> okterm lag = 0 ->
  check_C04_calls (Z.min mx (a_max g)) (a_desired g)
    (r_calls (scan_act e o mn mx dry st2 (Some g) pods unt tainted forced lag tg us cap d0 fz)) = true.
Proof.
  intros Hlag Hlag0. unfold scan_act. set (m := Z.min mx (a_max g)).
  destruct (try_delete_nodes e (Some g) (force_candidates dry pods forced)) as [[fcalls ferr] a1] eqn:Ef.
  destruct (try_delete_c04 _ _ _ _ _ _ Ef) as (g1 & -> & Hrel1 & Hd1 & Hf).
  set (d2 := if scale_on_max_age e o mn unt tainted then _ else _).
  assert (Hm1 : Z.min mx (a_max g1) = m) by (subst m; destruct Hrel1 as (_ & _ & -> & _); reflexivity).
  destruct (d2 <? 0).
  - destruct (try_delete_nodes e (Some g1) (reap_candidates e o dry pods tainted)) as [[rcalls rerr] a2] eqn:Er.
    destruct (try_delete_c04 _ _ _ _ _ _ Er) as (g2 & -> & Hrel2 & Hd2 & Hr).
    destruct (scale_down_taint e o mn dry st2 unt (- d2)) as [[tcalls terr] st3] eqn:Et.
    destruct (scale_down_taint_lock _ _ _ _ _ _ _ _ _ _ Et) as [_ Ht].
    destruct rerr as [[|]|]; simpl; apply c04_no_increase; repeat apply no_increase_app; assumption.
  - destruct (0 <? d2).
    + assert (Hall : check_C04_calls m (a_desired g) (lag ++ fcalls ++ up_calls (scale_up e o mx dry st2 (Some g1) tainted d2)) = true).
      { rewrite !c04_app. rewrite (c04_no_increase m lag Hlag), (c04_no_increase m fcalls Hf). simpl.
        rewrite Hlag0, Z.sub_0_r, <- Hd1, <- Hm1. apply scale_up_c04. }
      destruct (up_out (scale_up e o mx dry st2 (Some g1) tainted d2)); simpl; exact Hall.
    + destruct (try_delete_nodes e (Some g1) (reap_candidates e o dry pods tainted)) as [[rcalls rerr] a2] eqn:Er.
      destruct (try_delete_c04 _ _ _ _ _ _ Er) as (g2 & -> & Hrel2 & Hd2 & Hr).
      destruct rerr as [[|]|]; simpl; apply c04_no_increase; repeat apply no_increase_app; assumption.
Qed.

Lemma lag_okterm e st nodes : okterm (liftA (registration_lag_calls e st nodes)) = 0.
Proof.
  rewrite okterm_acalls, acalls_of_liftA. unfold registration_lag_calls. destruct (0 <? g_delta st); [|reflexivity].
  unfold ok_calls. induction (filter (newer_than (g_last_out st)) nodes) as [|n l IH]; [reflexivity|].
  simpl. unfold get_instance_call at 1. destruct (pid_instance (n_pid n)); simpl; exact IH.
Qed.

Lemma sources_no_increase_none e o dry pods nodes cls calls :
  (forall c, In c calls -> source e o dry None pods nodes cls c) -> no_increase calls.
Proof.
  intros H c Hc. destruct (H c Hc) as [n ok Hn Hp | c Hd Hr | c Hd Hr | n k Hd Hn Hk | n k Hd Hn He Hk | g d k Hd Hrel Hpos Hk]; try reflexivity.
  - destruct Hr; reflexivity.
  - destruct Hr; reflexivity.
  - simpl in Hrel. contradiction.
Qed.

Theorem group_passes_C04 now gdry api g a nodes pods :
  check_C04_group (ctx_of now gdry api g a nodes pods) (r_calls (scan_of now gdry api g a nodes pods)) = true.
Proof.
  unfold check_C04_group. set (x := ctx_of now gdry api g a nodes pods).
  change (x_asg x) with a. destruct a as [ga|].
  2:{ pose proof (scan_of_sources now gdry api g None nodes pods) as Hs. cbv zeta in Hs.
      apply sources_no_increase_none in Hs.
      destruct (existsb is_cloud_increase _) eqn:E; [|reflexivity]. apply existsb_exists in E. destruct E as [c [Hc E]].
      rewrite (Hs c Hc) in E. discriminate. }
  unfold scan_of. fold x. unfold scan_group. set (m := Z.min (x_max x) (a_max ga)).
  apply (match_both_empty _ _ _ _ (fun r => check_C04_calls m (a_desired ga) (r_calls r) = true)); [reflexivity|].
  destruct (_ <? x_min x); [reflexivity|]. destruct (x_max x <? _); [reflexivity|].
  destruct (negb _ && _); [apply scale_up_c04|].
  destruct (calc_percent _ _ _ _ _) as [cpuP memP|]; [|reflexivity].
  destruct (fst _); [reflexivity|].
  destruct (decide _ _ _ _ _ _ _) as [d0|d].
  - apply scan_act_c04; [apply lag_no_increase | apply lag_okterm].
  - simpl. apply c04_no_increase. apply lag_no_increase.
Qed.

(* ---------- C18, controller half: a failed increase takes no cool-down lock ---------- *)
Lemma scale_up_error_no_lock e o mx dry st a tainted want :
  let r := scale_up e o mx dry st a tainted want in
  up_out r <> OutOk -> g_lock (up_state r) = g_lock st /\ up_ret r = 0.
Proof.
  unfold scale_up. destruct (match tainted with [] => _ | _ => _ end) as [[ucalls ucount] tr].
  destruct (0 <? want - ucount); [|simpl; congruence]. destruct a as [g|]; [|simpl; auto].
  destruct (nodes_to_add _ _ _ <=? 0); [simpl; auto|]. destruct dry; [simpl; congruence|].
  destruct (aws_increase g _ (e_aorc e)) as [[ac r] g']. destruct r; simpl; [congruence | auto | auto].
Qed.

