(* FloatBands.v — C06: the utilisation bands the code computes with floats are the exact rational bands except within a
   relative 2^-50 of a threshold.  For every request total r and capacity C in int64 range and every integer threshold L:
   100 r / C <= L (1 - 2^-50)  implies  percent < L   as computed (float comparison),
   100 r / C >= L (1 + 2^-50)  implies  percent > L   as computed. *)
From Coq Require Import ZArith Reals Lra Lia Psatz Bool.
From Flocq Require Import Core BinarySingleNaN.
From Esc Require Import SpecCalc proofs.CalcProofs proofs.FloatProofs.
Open Scope R_scope.

Lemma flt_correct x y : is_finite x = true -> is_finite y = true -> flt x y = true <-> B2R x < B2R y.
Proof.
  intros Fx Fy. unfold flt. rewrite (Bcompare_correct prec emax x y Fx Fy).
  destruct (Rcompare_spec (B2R x) (B2R y)); split; intro G; try discriminate; try reflexivity; lra.
Qed.

Definition eps50 : R := 8 * u.   (* 2^-50 *)

Lemma eps50_val : eps50 = / 1125899906842624.
Proof. unfold eps50, u. lra. Qed.

Section Bands.
  Variables (r C L : Z).
  Hypothesis Hr : (1 <= r < 2 ^ 63)%Z.
  Hypothesis HC : (1 <= C < 2 ^ 63)%Z.
  Hypothesis HL : (1 <= L < 2 ^ 53)%Z.

  Let e : R := 100 * IZR r / IZR C.

  Lemma e_pos : 0 < e.
  Proof.
    unfold e. assert (0 < IZR r) by (apply IZR_lt; lia). assert (0 < IZR C) by (apply IZR_lt; lia).
    apply Rdiv_lt_0_compat; lra.
  Qed.

  Lemma L_pos : 0 < IZR L. Proof. apply IZR_lt. lia. Qed.

  Theorem band_below : e <= IZR L * (1 - eps50) -> flt (pct r C) (of_Z L) = true.
  Proof.
    intros He. destruct (pct_error r C Hr HC) as [Fp [_ Herr]]. fold e in Herr.
    destruct (of_Z_exact L) as [HLv HLf]; [lia|].
    apply flt_correct; [exact Fp | exact HLf|]. rewrite HLv.
    pose proof e_pos as Hep. pose proof L_pos as HLp. pose proof u_pos as Hu.
    assert (Hp : B2R (pct r C) <= e * (1 + 5 * u)).
    { apply Rabs_le_inv in Herr. lra. }
    unfold eps50 in He.
    assert (Hu2 : u <= / 1000) by (unfold u; lra).
    assert (H1 : e * (1 + 5 * u) <= IZR L * (1 - 8 * u) * (1 + 5 * u)) by (apply Rmult_le_compat_r; lra).
    assert (H2 : (1 - 8 * u) * (1 + 5 * u) < 1) by nra.
    assert (H3 : IZR L * (1 - 8 * u) * (1 + 5 * u) < IZR L) by (rewrite Rmult_assoc; nra).
    lra.
  Qed.

  Theorem band_above : IZR L * (1 + eps50) <= e -> fgt (pct r C) (of_Z L) = true /\ flt (pct r C) (of_Z L) = false.
  Proof.
    intros He. destruct (pct_error r C Hr HC) as [Fp [_ Herr]]. fold e in Herr.
    destruct (of_Z_exact L) as [HLv HLf]; [lia|].
    pose proof e_pos as Hep. pose proof L_pos as HLp. pose proof u_pos as Hu.
    assert (Hp : e * (1 - 5 * u) <= B2R (pct r C)).
    { apply Rabs_le_inv in Herr. lra. }
    unfold eps50 in He.
    assert (Hu2 : u <= / 1000) by (unfold u; lra).
    assert (H1 : IZR L * (1 + 8 * u) * (1 - 5 * u) <= e * (1 - 5 * u)) by (apply Rmult_le_compat_r; lra).
    assert (H2 : 1 < (1 + 8 * u) * (1 - 5 * u)) by nra.
    assert (H3 : IZR L < IZR L * (1 + 8 * u) * (1 - 5 * u)) by (rewrite Rmult_assoc; nra).
    assert (Hgt : B2R (of_Z L) < B2R (pct r C)) by (rewrite HLv; lra).
    split; [apply fgt_correct; assumption|].
    destruct (flt (pct r C) (of_Z L)) eqn:E; [|reflexivity]. apply flt_correct in E; [lra | exact Fp | exact HLf].
  Qed.
End Bands.
