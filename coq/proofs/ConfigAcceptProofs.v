(* ConfigAcceptProofs.v — the exact accept set of the validation model (converse of c16_sound).  Kept apart from
   ConfigProofs.v: these lemmas describe the model EXACTLY (they break when a rule is added to `model_rules` or a
   redundant one removed, which does not violate C16), so nothing that gates `bin/check C16` depends on this file. *)
From Coq Require Import String ZArith List Bool Lia.
Require Import ZifyBool.
From Esc Require Import SpecConfig proofs.ConfigProofs.
Import ListNotations.
Open Scope string_scope.
Open Scope Z_scope.

(* ---- the converse: what validation demands is `safe` plus `beyond_safe`, and nothing else ---- *)
Lemma neq_slen_nonzero : forall s, s <> "" -> slen s <> 0.
Proof. intros s H E. apply H. apply slen_zero_iff. exact E. Qed.

Lemma max_node_age_valid_b : forall c, max_node_age_valid c ->
  (String.eqb (d_raw (c_max_node_age c)) "" || dur_parse_ok (c_max_node_age c)) = true.
Proof.
  intros c [E|E]; apply orb_true_iff; [left; apply String.eqb_eq; exact E | right; apply dur_parse_ok_iff; exact E].
Qed.

Ltac str_fact H := match type of H with ?s <> _ => apply neq_slen_nonzero in H; pose proof (slen_nonneg s) end.

(* a rule about a string that ranges over a finite documented set: try every member *)
Ltac by_members HIn :=
  simpl in HIn;
  repeat (destruct HIn as [HIn|HIn]; [rewrite <- HIn; vm_compute; reflexivity|]);
  contradiction.

Lemma safe_model_validate : forall c, safe c -> beyond_safe c -> model_validate c = true.
Proof.
  intros c S B.
  destruct S as (N1 & N2 & N3 & N4 & T & Rt & G & Cd & MM & HE & HL & HA).
  destruct B as (B1 & B2 & B3).
  unfold soft_ns, hard_ns, cooldown_ns in *.
  apply max_node_age_valid_b in HA. rewrite eqb_empty_slen in HA. pose proof (slen_nonneg (d_raw (c_max_node_age c))).
  str_fact N1; str_fact N2; str_fact N3; str_fact N4; str_fact B1; str_fact B2; str_fact B3.
  unfold model_validate, model_rules. cbn [forallb]. cbv beta.
  unfold auto_discover_min_max, valid_taint_effect, valid_aws_lifecycle, valid_max_node_age, taint_effect_types.
  repeat (apply andb_true_intro; split); try reflexivity; rewrite ?eqb_empty_slen, ?eqb_empty_slen';
    first [ clear HE HL; lia | by_members HE | by_members HL ].
Qed.

(* ---- the accept set, exactly ---- *)
Lemma model_validate_beyond : forall c, model_validate c = true -> beyond_safe c.
Proof.
  intros c H. split_rules H. unfold beyond_safe.
  repeat match goal with |- _ /\ _ => split end; nonempty_goal.
Qed.

Lemma model_validate_iff : forall c, model_validate c = true <-> safe c /\ beyond_safe c.
Proof.
  intro c. split.
  - intro H. split; [apply model_validate_safe | apply model_validate_beyond]; exact H.
  - intros [S B]. apply safe_model_validate; assumption.
Qed.
