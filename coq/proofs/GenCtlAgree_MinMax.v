(* controller.go RunOnce, the body of the loop over the node groups up to the scaleNodeGroup call, as translated on this run:
   a missing cloud group is an error, otherwise the scan runs with the model's effective_min_max. *)
From Esc Require Import GeneratedCtl proofs.GenCtlAgree.
Open Scope Z_scope.

Theorem gen_RunOnce_minmax_agree : forall o g,
  (exists mn mx c, gen_RunOnce_minmax o true g = GCall c [GI mn; GI mx] /\ effective_min_max o g = (mn, mx))
  /\ gen_RunOnce_minmax o false g = GRet [GE true].
Proof.
  intros. unfold gen_RunOnce_minmax, effective_min_max. split; [|reflexivity]. cbn [negb].
  do 3 eexists. split; [reflexivity|]. agree.
Qed.
