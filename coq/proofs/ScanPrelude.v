(* ScanPrelude.v — RunOnce's prelude (provider refresh, rebuild while it fails): when it ends the run, what it changes. *)
From Esc Require Import SpecScan proofs.BaseProofs proofs.ScanLemmas proofs.ScanRun.

(* the run ends in the prelude exactly when the first refresh fails and a rebuild fails: the first one, or — the first
   rebuild having succeeded and its refresh failed — the second one *)
Lemma prelude_stop_iff ds :
  prelude ds = PStop <->
  (exists t, ds = false :: false :: t) \/ (exists t, ds = false :: true :: false :: false :: t).
Proof.
  split.
  - destruct ds as [|[|] [|[|] [|[|] [|[|] [|[|] t]]]]]; simpl; try discriminate; intros _;
      solve [ left; eexists; reflexivity | right; eexists; reflexivity ].
  - intros [[t ->]|[t ->]]; reflexivity.
Qed.

(* no refresh failure: nothing is rebuilt *)
Lemma prelude_all_ok ds : (forall b, In b ds -> b = true) -> prelude ds = PGo false.
Proof. destruct ds as [|b t]; [reflexivity|]. intros H. simpl. rewrite (H b (or_introl eq_refl)). reflexivity. Qed.

(* a single failed refresh followed by a successful rebuild and refresh: the run goes on with a rebuilt provider *)
Lemma prelude_one_failure t : prelude (false :: true :: true :: t) = PGo true.
Proof. reflexivity. Qed.

(* what a rebuild changes in the snapshot: the clean-up counters of the cloud groups, nothing else — in particular the
   controller's per-group memory (scale lock, node-size cache, dry trackers) survives it *)
Lemma after_prelude_groups ds s : s_groups (after_prelude ds s) = s_groups s.
Proof. unfold after_prelude. destruct (prelude ds) as [[|]|]; reflexivity. Qed.
Lemma after_prelude_view ds s :
  s_now (after_prelude ds s) = s_now s /\ s_dry (after_prelude ds s) = s_dry s /\ s_nodes (after_prelude ds s) = s_nodes s /\
  s_pods (after_prelude ds s) = s_pods s /\ s_api (after_prelude ds s) = s_api s.
Proof. unfold after_prelude. destruct (prelude ds) as [[|]|]; simpl; auto. Qed.
Lemma after_prelude_cloud ds s :
  s_cloud (after_prelude ds s) = s_cloud s \/ s_cloud (after_prelude ds s) = map (fun a => set_tries a 0) (s_cloud s).
Proof. unfold after_prelude. destruct (prelude ds) as [[|]|]; simpl; auto. Qed.

(* the run as a whole *)
Lemma run_once_p_ends ds s :
  let res := run_once_p ds s in
  (prelude ds = PStop /\ res = ([], OutErr)) \/
  (prelude ds <> PStop /\ res = run_once (after_prelude ds s) /\
   ((snd res = OutOk /\ length (fst res) = length (s_groups s)) \/
    (snd res = OutErr /\ (length (fst res) < length (s_groups s))%nat) \/
    (snd res = OutFatal /\ exists nr, In nr (fst res) /\ r_out (snd nr) = OutFatal) \/
    (snd res = OutExit /\ exists nr, In nr (fst res) /\ r_out (snd nr) = OutExit))).
Proof.
  intros res. subst res. unfold run_once_p. destruct (prelude ds) as [rb|] eqn:Ep; [right | left; auto].
  split; [discriminate|]. split; [reflexivity|].
  pose proof (run_groups_ends (after_prelude ds s) (s_groups (after_prelude ds s)) (s_cloud (after_prelude ds s))) as H.
  cbv zeta in H. rewrite after_prelude_groups in H at 2 3. unfold run_once. rewrite after_prelude_groups in H. rewrite after_prelude_groups. exact H.
Qed.

(* every per-scan theorem of the development is stated for all snapshots, hence holds of the snapshot the groups are
   scanned from after the prelude; wf_groups only reads the groups *)
Lemma wf_groups_after ds s : wf_groups s -> wf_groups (after_prelude ds s).
Proof. unfold wf_groups. rewrite after_prelude_groups. auto. Qed.

Theorem run_once_p_passes (check : gctx -> list call -> bool) ds s : wf_groups s -> prelude ds <> PStop ->
  (forall s', (forall g a, In g (s_groups s') -> find_asg (s_cloud s') (o_asg (gi_opts g)) = Some a ->
                 check (mk_ctx s' g) (r_calls (group_scan s' g a)) = true)) ->
  for_groups check (after_prelude ds s) (map (fun nr => (fst nr, r_calls (snd nr))) (fst (run_once_p ds s))) = true.
Proof.
  intros Hwf Hgo Hall. unfold run_once_p. destruct (prelude ds) as [rb|] eqn:Ep; [|congruence].
  apply (run_once_passes check (after_prelude ds s) (wf_groups_after ds s Hwf)). apply Hall.
Qed.

(* the main loop: no run follows a run that returned an error *)
Lemma run_forever_prefix_ok ticks : Forall (fun r => snd r = OutOk) (removelast (run_forever ticks)).
Proof.
  induction ticks as [|[ds s] rest IH]; [constructor|]. cbn [run_forever].
  destruct (snd (run_once_p ds s)) eqn:E; try (constructor).
  destruct (run_forever rest) as [|r' l] eqn:Er; [constructor|].
  change (removelast (run_once_p ds s :: r' :: l)) with (run_once_p ds s :: removelast (r' :: l)).
  constructor; [exact E | exact IH].
Qed.

Lemma run_forever_length ticks : (length (run_forever ticks) <= length ticks)%nat.
Proof. induction ticks as [|[ds s] rest IH]; [simpl; lia|]. cbn [run_forever]. destruct (snd (run_once_p ds s)); simpl; lia. Qed.
