(* scale_down.go scaleDownTaint, as translated on this run, is the clamp and refusal of the model's scale_down_taint
   (GenCtlAgree.model_down_clamp, through which scale_down_taint factors: scale_down_taint_factor). *)
From Esc Require Import GeneratedCtl proofs.GenCtlAgree.
Open Scope Z_scope.

(* want is the negated negative delta: never negative *)
Theorem gen_scaleDownTaint_agree : forall mn untainted want, 0 <= want ->
  gen_scaleDownTaint mn untainted want = model_down_clamp mn untainted want.
Proof. intros. unfold gen_scaleDownTaint, model_down_clamp. agree. Qed.

Corollary gen_scale_down_taint : forall e o mn dry st untainted want, 0 <= want ->
  scale_down_taint e o mn dry st untainted want =
  match gen_scaleDownTaint mn untainted want with
  | GCall _ [GL l; GI n] =>
      let '(calls, _, tr) := taint_loop e o dry (sort_oldest l) n 0 (g_taint_tracker st) in (liftK calls, false, with_tracker st tr)
  | _ => ([], true, st)
  end.
Proof. intros. rewrite gen_scaleDownTaint_agree by assumption. apply scale_down_taint_factor. Qed.
