(* scale_down.go safeFromDeletion and the per-candidate conditions of TryRemoveTaintedNodes, as translated on this run, are
   the model's safe_from_deletion and the filter of reap_candidates. *)
From Esc Require Import GeneratedCtl proofs.GenCtlAgree.
Open Scope Z_scope.

(* a Go map has one entry per key: the model's association list is read with `assoc` (first match), the code ranges over
   all entries *)
Definition annots_ok (n : node) : Prop := NoDup (map fst (n_annots n)).

Lemma existsb_key_absent (k : id) (P : id -> bool) (m : list (id * id)) :
  ~ In k (map fst m) -> existsb (fun kv => (fst kv =? k) && P (snd kv)) m = false.
Proof.
  induction m as [|[k' v] m IH]; intros H; [reflexivity|]. cbn [existsb fst snd]. cbn [map fst In] in H.
  destruct (Z.eqb_spec k' k); [exfalso; apply H; left; assumption|]. cbn. apply IH. intros I. apply H. right. exact I.
Qed.

Lemma assoc_existsb (k : id) (P : id -> bool) (m : list (id * id)) : NoDup (map fst m) ->
  existsb (fun kv => (fst kv =? k) && P (snd kv)) m = match assoc k m with Some v => P v | None => false end.
Proof.
  induction m as [|[k' v] m IH]; intros H; [reflexivity|]. cbn [existsb assoc fst snd]. cbn [map fst] in H. inversion H; subst.
  destruct (Z.eqb_spec k' k).
  - subst. rewrite existsb_key_absent by assumption. cbn. destruct (P v); reflexivity.
  - cbn. apply IH. assumption.
Qed.

Theorem gen_safeFromDeletion_agree : forall n, annots_ok n -> gen_safeFromDeletion n = safe_from_deletion n.
Proof.
  intros n H. unfold gen_safeFromDeletion, safe_from_deletion.
  rewrite <- (assoc_existsb id_nodelete (fun v => negb (v =? id_empty)) (n_annots n) H).
  apply existsb_ext'. intros [k v]. cbn [fst snd]. agree.
Qed.

(* gtr_err: GetToBeRemovedTime returned an error; it then returned no time *)
Theorem gen_TryRemoveTaintedNodes_keep_agree : forall e o pods gtr_err n,
  annots_ok n -> (gtr_err = true -> taint_time n = None) ->
  gen_TryRemoveTaintedNodes_keep e o pods gtr_err n = negb (e_dry e || o_dry o) && reapable e o pods n.
Proof.
  intros e o pods gtr_err n Ha Herr. unfold gen_TryRemoveTaintedNodes_keep, reapable.
  fold (gen_safeFromDeletion n). rewrite (gen_safeFromDeletion_agree n Ha).
  unfold taint_age, node_empty.
  destruct (taint_time n) as [ts|]; cbn [opt_is_none opt_get].
  - destruct gtr_err; [specialize (Herr eq_refl); discriminate|]. agree.
  - agree.
Qed.

(* the reaper's candidates are the tainted nodes the translated loop body appends *)
Corollary gen_reap_candidates : forall e o pods tainted, Forall annots_ok tainted ->
  reap_candidates e o (e_dry e || o_dry o) pods tainted = filter (gen_TryRemoveTaintedNodes_keep e o pods false) tainted.
Proof.
  intros e o pods tainted H. unfold reap_candidates.
  assert (E : forall l, Forall annots_ok l ->
              filter (gen_TryRemoveTaintedNodes_keep e o pods false) l = filter (fun n => negb (e_dry e || o_dry o) && reapable e o pods n) l).
  { induction 1 as [|x l Hx Hl IH]; [reflexivity|]. cbn [filter].
    rewrite (gen_TryRemoveTaintedNodes_keep_agree e o pods false x Hx) by discriminate. rewrite IH. reflexivity. }
  rewrite (E _ H). destruct (e_dry e || o_dry o); cbn [negb andb].
  - induction tainted; [reflexivity|]. cbn. inversion H; subst. auto.
  - reflexivity.
Qed.
