(* FloatProofs.v — IEEE-754 error analysis (Flocq) of calcPercentUsage and calcScaleUpDelta as modelled in Calc.v:
   the standard model of each operation with the absence of overflow/underflow derived from the input ranges,
   the relative error of the percentage (C13), the absolute error of the scale-up delta before the ceiling (C05),
   and the consequences "sufficient" (inside a granularity region) and "at most one more". *)
From Coq Require Import ZArith Reals Lra Lia Psatz Bool.
From Flocq Require Import Core BinarySingleNaN Relative Plus_error.
From Esc Require Import SpecCalc proofs.CalcProofs.
Open Scope R_scope.

Notation fexp := (SpecFloat.fexp prec emax).
Notation rnd := (round radix2 fexp ZnearestE).
Notation format := (generic_format radix2 fexp).

Definition u : R := / 9007199254740992. (* 2^-53, the unit round-off *)

Lemma u_pos : 0 < u. Proof. unfold u; lra. Qed.

Lemma fexp_FLT : forall e, fexp e = FLT_exp (-1074) 53 e.
Proof. intros; unfold SpecFloat.fexp, FLT_exp, SpecFloat.emin, prec, emax; lia. Qed.

Lemma format_FLT x : format x <-> generic_format radix2 (FLT_exp (-1074) 53) x.
Proof.
  split; intro H; (eapply generic_inclusion_mag; [|exact H]); intros _; rewrite fexp_FLT; lia.
Qed.

Lemma rnd_FLT x : rnd x = round radix2 (FLT_exp (-1074) 53) ZnearestE x.
Proof. unfold round, scaled_mantissa, cexp. now rewrite fexp_FLT. Qed.

Lemma u_ro_eq : u_ro radix2 53 = u.
Proof. unfold u_ro, u. replace (-53 + 1)%Z with (-52)%Z by lia. simpl; lra. Qed.

(* standard model of one rounding, no underflow *)
Lemma rnd_rel x :
  bpow radix2 (-1022) <= Rabs x ->
  exists eps, Rabs eps <= u /\ rnd x = x * (1 + eps).
Proof.
  intros Hx.
  destruct (relative_error_N_FLT_ex radix2 (-1074) 53 ltac:(lia) (fun z => negb (Z.even z)) x) as [eps [He Hr]].
  { simpl. replace (-1074 + 53 - 1)%Z with (-1022)%Z by lia. exact Hx. }
  exists eps; split.
  - unfold u. replace (-53+1)%Z with (-52)%Z in He by lia.
    replace (/ 9007199254740992) with (/2 * bpow radix2 (-52)); [exact He|].
    simpl; lra.
  - rewrite <- Hr. apply rnd_FLT.
Qed.

(* … also when the argument is zero *)
Lemma rnd_rel0 x :
  x = 0 \/ bpow radix2 (-1022) <= Rabs x ->
  exists eps, Rabs eps <= u /\ rnd x = x * (1 + eps).
Proof.
  intros [->|H]; [|now apply rnd_rel].
  exists 0; split; [rewrite Rabs_R0; apply Rlt_le, u_pos|].
  rewrite round_0; [ring|apply valid_rnd_N].
Qed.

(* sums and differences of two floats never need the underflow condition *)
Lemma rnd_plus_rel x y : format x -> format y ->
  exists eps, Rabs eps <= u /\ rnd (x + y) = (x + y) * (1 + eps).
Proof.
  intros Fx Fy. apply format_FLT in Fx; apply format_FLT in Fy.
  destruct (FLT_plus_error_N_ex radix2 (-1074) 53 (fun z => negb (Z.even z)) x y Fx Fy) as [eps [He Hr]].
  exists eps; split.
  - eapply Rle_trans; [exact He|]. rewrite <- u_ro_eq. apply u_rod1pu_ro_le_u_ro.
  - rewrite rnd_FLT. exact Hr.
Qed.

Lemma rnd_minus_rel x y : format x -> format y ->
  exists eps, Rabs eps <= u /\ rnd (x - y) = (x - y) * (1 + eps).
Proof. intros Fx Fy. apply (rnd_plus_rel x (- y) Fx). now apply generic_format_opp. Qed.

Lemma one_plus_eps_bounds eps : Rabs eps <= u -> / 2 <= 1 + eps <= 2.
Proof. intro H; apply Rabs_le_inv in H; unfold u in H; lra. Qed.

Lemma rnd_lt_emax x eps : Rabs eps <= u -> Rabs x <= bpow radix2 1000 -> Rabs (x * (1 + eps)) < bpow radix2 emax.
Proof.
  intros He Hx. rewrite Rabs_mult.
  assert (Rabs (1 + eps) <= 2) by (apply Rabs_le; destruct (one_plus_eps_bounds _ He); lra).
  apply Rle_lt_trans with (bpow radix2 1000 * 2).
  - apply Rmult_le_compat; try apply Rabs_pos; assumption.
  - change 2 with (bpow radix2 1). rewrite <- bpow_plus. apply bpow_lt. unfold emax; lia.
Qed.

(* ---------- the operations of F64.v ---------- *)
Lemma fdiv_rel (x y : f64) :
  is_finite x = true -> is_finite y = true -> B2R y <> 0 ->
  B2R x = 0 \/ bpow radix2 (-1022) <= Rabs (B2R x / B2R y) -> Rabs (B2R x / B2R y) <= bpow radix2 1000 ->
  exists eps, Rabs eps <= u /\ B2R (fdiv x y) = B2R x / B2R y * (1 + eps) /\ is_finite (fdiv x y) = true.
Proof.
  intros Fx Fy Hy Hlo Hhi.
  destruct (rnd_rel0 (B2R x / B2R y)) as [eps [He Hr]].
  { destruct Hlo as [H|H]; [left; rewrite H; unfold Rdiv; ring|right; exact H]. }
  generalize (Bdiv_correct prec emax Hprec Hmax mode_NE x y Hy).
  rewrite Rlt_bool_true.
  - intros [H1 [H2 _]]. exists eps; repeat split; try assumption.
    + unfold fdiv. rewrite H1. simpl round_mode. exact Hr.
    + unfold fdiv. rewrite H2. exact Fx.
  - simpl round_mode. rewrite Hr. now apply rnd_lt_emax.
Qed.

Lemma fmul_rel (x y : f64) :
  is_finite x = true -> is_finite y = true ->
  B2R x * B2R y = 0 \/ bpow radix2 (-1022) <= Rabs (B2R x * B2R y) -> Rabs (B2R x * B2R y) <= bpow radix2 1000 ->
  exists eps, Rabs eps <= u /\ B2R (fmul x y) = B2R x * B2R y * (1 + eps) /\ is_finite (fmul x y) = true.
Proof.
  intros Fx Fy Hlo Hhi.
  destruct (rnd_rel0 (B2R x * B2R y) Hlo) as [eps [He Hr]].
  generalize (Bmult_correct prec emax Hprec Hmax mode_NE x y).
  rewrite Rlt_bool_true.
  - intros [H1 [H2 _]]. exists eps; repeat split; try assumption.
    + unfold fmul. rewrite H1. simpl round_mode. exact Hr.
    + unfold fmul. rewrite H2, Fx, Fy. reflexivity.
  - simpl round_mode. rewrite Hr. now apply rnd_lt_emax.
Qed.

Lemma fsub_rel (x y : f64) :
  is_finite x = true -> is_finite y = true ->
  Rabs (B2R x - B2R y) <= bpow radix2 1000 ->
  exists eps, Rabs eps <= u /\ B2R (fsub x y) = (B2R x - B2R y) * (1 + eps) /\ is_finite (fsub x y) = true.
Proof.
  intros Fx Fy Hhi.
  destruct (rnd_minus_rel (B2R x) (B2R y)) as [eps [He Hr]]; try apply generic_format_B2R.
  generalize (Bminus_correct prec emax Hprec Hmax mode_NE x y Fx Fy).
  rewrite Rlt_bool_true.
  - intros [H1 [H2 _]]. exists eps; repeat split; try assumption.
    unfold fsub. rewrite H1. simpl round_mode. exact Hr.
  - simpl round_mode. rewrite Hr. now apply rnd_lt_emax.
Qed.

(* float64(int64) *)
Lemma of_Z_correct z : (Z.abs z <= 2 ^ 64)%Z ->
  B2R (of_Z z) = rnd (IZR z) /\ is_finite (of_Z z) = true.
Proof.
  intro Hz.
  generalize (binary_normalize_correct prec emax Hprec Hmax mode_NE z 0 false).
  cbv zeta. replace (F2R (Float radix2 z 0)) with (IZR z) by (unfold F2R; simpl; ring).
  rewrite Rlt_bool_true.
  - intros [H1 [H2 _]]. split; [exact H1|exact H2].
  - simpl round_mode.
    apply Rle_lt_trans with (bpow radix2 64); [|apply bpow_lt; unfold emax; lia].
    apply abs_round_le_generic; [apply fexp_correct; reflexivity|apply valid_rnd_N| |].
    + apply generic_format_bpow. unfold SpecFloat.fexp, SpecFloat.emin, prec, emax; lia.
    + rewrite <- abs_IZR. change (bpow radix2 64) with (IZR (2 ^ 64)). now apply IZR_le.
Qed.

Lemma of_Z_rel z : (Z.abs z <= 2 ^ 64)%Z ->
  exists eps, Rabs eps <= u /\ B2R (of_Z z) = IZR z * (1 + eps) /\ is_finite (of_Z z) = true.
Proof.
  intro Hz. destruct (of_Z_correct z Hz) as [H1 H2].
  destruct (rnd_rel0 (IZR z)) as [eps [He Hr]].
  { destruct (Z.eq_dec z 0) as [->|Hnz]; [left; reflexivity|right].
    rewrite <- abs_IZR. apply Rle_trans with 1; [|apply IZR_le; lia].
    change 1 with (bpow radix2 0). apply bpow_le; lia. }
  exists eps; repeat split; try assumption. rewrite H1; exact Hr.
Qed.

(* integers below 2^53 convert exactly *)
Lemma format_small_int z : (Z.abs z < 2 ^ 53)%Z -> format (IZR z).
Proof.
  intro Hz. replace (IZR z) with (F2R (Float radix2 z 0)) by (unfold F2R; simpl; ring).
  apply generic_format_F2R. intro Hnz. unfold cexp.
  replace (F2R (Float radix2 z 0)) with (IZR z) by (unfold F2R; simpl; ring).
  assert (Hm : (mag radix2 (IZR z) <= 53)%Z).
  { apply mag_le_bpow; [now apply IZR_neq|]. rewrite <- abs_IZR. change (bpow radix2 53) with (IZR (2 ^ 53)). now apply IZR_lt. }
  unfold SpecFloat.fexp, SpecFloat.emin, prec, emax. simpl Fexp. lia.
Qed.

Lemma of_Z_exact z : (Z.abs z < 2 ^ 53)%Z -> B2R (of_Z z) = IZR z /\ is_finite (of_Z z) = true.
Proof.
  intro Hz. destruct (of_Z_correct z ltac:(lia)) as [H1 H2]. split; [|exact H2].
  rewrite H1. apply round_generic; [apply valid_rnd_N|now apply format_small_int].
Qed.

Lemma f100_val : B2R f100 = 100 /\ is_finite f100 = true.
Proof. unfold f100. apply (of_Z_exact 100). reflexivity. Qed.

(* ====================================================================================================== *)
(* magnitude bookkeeping with powers of two                                                               *)
(* ====================================================================================================== *)
Definition within (lo hi : Z) (x : R) : Prop := bpow radix2 lo <= x <= bpow radix2 hi.

Lemma within_mul a b la ha lb hb : within la ha a -> within lb hb b -> within (la + lb) (ha + hb) (a * b).
Proof.
  intros [A1 A2] [B1 B2]. unfold within. rewrite !bpow_plus.
  pose proof (bpow_gt_0 radix2 la). pose proof (bpow_gt_0 radix2 lb).
  split; apply Rmult_le_compat; lra.
Qed.

Lemma within_inv b lb hb : within lb hb b -> within (- hb) (- lb) (/ b).
Proof.
  intros [B1 B2]. unfold within. rewrite !bpow_opp.
  pose proof (bpow_gt_0 radix2 lb). pose proof (bpow_gt_0 radix2 hb).
  split; apply Rinv_le_contravar; lra.
Qed.

Lemma within_div a b la ha lb hb : within la ha a -> within lb hb b -> within (la - hb) (ha - lb) (a / b).
Proof. intros A B. unfold Rdiv, Z.sub. apply within_mul; [exact A|now apply within_inv]. Qed.

Lemma within_eps eps : Rabs eps <= u -> within (-1) 1 (1 + eps).
Proof. intro H. destruct (one_plus_eps_bounds _ H). unfold within. simpl. lra. Qed.

Lemma within_weaken lo hi lo' hi' x : within lo hi x -> (lo' <= lo)%Z -> (hi <= hi')%Z -> within lo' hi' x.
Proof.
  intros [A B] H1 H2; split; [eapply Rle_trans; [apply bpow_le, H1|exact A]|eapply Rle_trans; [exact B|apply bpow_le, H2]].
Qed.

Lemma within_mul' a b la ha lb hb l h :
  within la ha a -> within lb hb b -> (l <= la + lb)%Z -> (ha + hb <= h)%Z -> within l h (a * b).
Proof. intros A B H1 H2. eapply within_weaken; [apply (within_mul _ _ _ _ _ _ A B)|exact H1|exact H2]. Qed.

Lemma within_div' a b la ha lb hb l h :
  within la ha a -> within lb hb b -> (l <= la - hb)%Z -> (ha - lb <= h)%Z -> within l h (a / b).
Proof. intros A B H1 H2. eapply within_weaken; [apply (within_div _ _ _ _ _ _ A B)|exact H1|exact H2]. Qed.

Lemma within_pos lo hi x : within lo hi x -> 0 < x.
Proof. intros [A _]. pose proof (bpow_gt_0 radix2 lo). lra. Qed.

Lemma within_abs lo hi x : within lo hi x -> (-1022 <= lo)%Z -> (hi <= 1000)%Z ->
  bpow radix2 (-1022) <= Rabs x /\ Rabs x <= bpow radix2 1000.
Proof.
  intros W H1 H2. rewrite Rabs_pos_eq by (apply Rlt_le, (within_pos _ _ _ W)).
  destruct (within_weaken _ _ (-1022) 1000 _ W H1 H2). split; assumption.
Qed.

Lemma within_IZR z k : (1 <= z < 2 ^ k)%Z -> (0 <= k)%Z -> within 0 k (IZR z).
Proof.
  intros [H1 H2] Hk. split.
  - change (bpow radix2 0) with (IZR 1). now apply IZR_le.
  - rewrite <- IZR_Zpower by exact Hk. apply IZR_le. change (radix_val radix2) with 2%Z. lia.
Qed.

(* ====================================================================================================== *)
(* C13 — the percentage                                                                                   *)
(* ====================================================================================================== *)
Definition pct (r C : Z) : f64 := fmul (fdiv (of_Z r) (of_Z C)) f100.

(* composition of relative errors, by hand (no numerical oracle): (1+a)(1+b) = 1 + (a + b + ab) *)
Lemma u_tiny : u <= / 100000000.
Proof. unfold u. lra. Qed.

Lemma compose_err a b ka kb :
  0 <= ka <= 10 -> 0 <= kb <= 10 -> Rabs a <= ka * u -> Rabs b <= kb * u ->
  Rabs ((1 + a) * (1 + b) - 1) <= (ka + kb + / 1000) * u.
Proof.
  intros Hka Hkb Ha Hb. pose proof u_pos as Hu. pose proof u_tiny as Ht.
  replace ((1 + a) * (1 + b) - 1) with (a + b + a * b) by ring.
  assert (Hab : Rabs (a * b) <= / 1000 * u).
  { rewrite Rabs_mult.
    apply Rle_trans with ((ka * u) * (kb * u)); [apply Rmult_le_compat; try apply Rabs_pos; assumption|].
    replace (ka * u * (kb * u)) with ((ka * kb * u) * u) by ring.
    apply Rmult_le_compat_r; [lra|].
    assert (Hk : 0 <= ka * kb <= 100) by nra.
    apply Rle_trans with (100 * u); [apply Rmult_le_compat_r; lra|lra]. }
  eapply Rle_trans; [apply Rabs_triang|]. eapply Rle_trans; [apply Rplus_le_compat; [apply Rabs_triang|exact Hab]|]. lra.
Qed.

Lemma inv_err b : Rabs b <= u -> Rabs (/ (1 + b) - 1) <= (1 + / 1000) * u.
Proof.
  intro Hb. pose proof u_pos as Hu. pose proof u_tiny as Ht. apply Rabs_le_inv in Hb.
  assert (Hp : 0 < 1 + b) by lra.
  replace (/ (1 + b) - 1) with (- b * / (1 + b)) by (field; lra).
  rewrite Rabs_mult, Rabs_Ropp, (Rabs_pos_eq (/ (1 + b))) by (apply Rlt_le, Rinv_0_lt_compat, Hp).
  assert (Hi : / (1 + b) <= 1 + / 1000).
  { replace (1 + / 1000) with (/ (1000 / 1001)) by field. apply Rinv_le_contravar; lra. }
  assert (Hab : Rabs b <= u) by (apply Rabs_le; lra).
  apply Rle_trans with (u * (1 + / 1000)); [|lra].
  apply Rmult_le_compat; try apply Rabs_pos; try assumption. apply Rlt_le, Rinv_0_lt_compat, Hp.
Qed.

Lemma theta_bound e1 e2 e3 e4 :
  Rabs e1 <= u -> Rabs e2 <= u -> Rabs e3 <= u -> Rabs e4 <= u ->
  Rabs ((1+e1)*(1+e3)*(1+e4)/(1+e2) - 1) <= 41/10 * u.
Proof.
  intros H1 H2 H3 H4. pose proof u_pos as Hu.
  assert (A : Rabs ((1 + e1) * (1 + e3) - 1) <= (1 + 1 + / 1000) * u) by (apply compose_err; lra).
  assert (B : Rabs ((1 + ((1 + e1) * (1 + e3) - 1)) * (1 + e4) - 1) <= ((1 + 1 + / 1000) + 1 + / 1000) * u) by (apply compose_err; lra).
  pose proof (inv_err e2 H2) as C.
  assert (D : Rabs ((1 + ((1 + ((1 + e1) * (1 + e3) - 1)) * (1 + e4) - 1)) * (1 + (/ (1 + e2) - 1)) - 1)
              <= (((1 + 1 + / 1000) + 1 + / 1000) + (1 + / 1000) + / 1000) * u) by (apply compose_err; lra).
  replace ((1+e1)*(1+e3)*(1+e4)/(1+e2) - 1)
    with ((1 + ((1 + ((1 + e1) * (1 + e3) - 1)) * (1 + e4) - 1)) * (1 + (/ (1 + e2) - 1)) - 1) by (unfold Rdiv; ring).
  eapply Rle_trans; [exact D|]. lra.
Qed.

Lemma eta_bound d5 d6 d7 :
  Rabs d5 <= u -> Rabs d6 <= u -> Rabs d7 <= u ->
  Rabs ((1+d5)*(1+d6)*(1+d7) - 1) <= 31/10 * u.
Proof.
  intros H1 H2 H3. pose proof u_pos as Hu.
  assert (A : Rabs ((1 + d5) * (1 + d6) - 1) <= (1 + 1 + / 1000) * u) by (apply compose_err; lra).
  assert (B : Rabs ((1 + ((1 + d5) * (1 + d6) - 1)) * (1 + d7) - 1) <= ((1 + 1 + / 1000) + 1 + / 1000) * u) by (apply compose_err; lra).
  replace ((1+d5)*(1+d6)*(1+d7) - 1) with ((1 + ((1 + d5) * (1 + d6) - 1)) * (1 + d7) - 1) by ring.
  eapply Rle_trans; [exact B|]. lra.
Qed.

Lemma pct_float r C : (1 <= r < 2 ^ 63)%Z -> (1 <= C < 2 ^ 63)%Z ->
  exists th, Rabs th <= 41/10 * u
    /\ B2R (pct r C) = 100 * IZR r / IZR C * (1 + th)
    /\ is_finite (pct r C) = true
    /\ B2R (pct r C) = rnd (rnd (rnd (IZR r) / rnd (IZR C)) * 100)
    /\ within (-61) 74 (B2R (pct r C)).
Proof.
  intros Hr HC.
  destruct (of_Z_rel r ltac:(lia)) as [e1 [He1 [Ea Fa]]].
  destruct (of_Z_rel C ltac:(lia)) as [e2 [He2 [Eb Fb]]].
  destruct (of_Z_correct r ltac:(lia)) as [Ra _]. destruct (of_Z_correct C ltac:(lia)) as [Rb _].
  pose proof (within_IZR r 63 Hr ltac:(lia)) as Wr. pose proof (within_IZR C 63 HC ltac:(lia)) as WC.
  assert (Wa : within (-1) 64 (B2R (of_Z r))) by (rewrite Ea; eapply within_mul'; [exact Wr|apply within_eps, He1|lia|lia]).
  assert (Wb : within (-1) 64 (B2R (of_Z C))) by (rewrite Eb; eapply within_mul'; [exact WC|apply within_eps, He2|lia|lia]).
  assert (Wq0 : within (-65) 65 (B2R (of_Z r) / B2R (of_Z C))) by (eapply within_div'; [exact Wa|exact Wb|lia|lia]).
  assert (Hb0 : B2R (of_Z C) <> 0) by (apply Rgt_not_eq, (within_pos _ _ _ Wb)).
  destruct (within_abs _ _ _ Wq0 ltac:(lia) ltac:(lia)) as [Q1 Q2].
  destruct (fdiv_rel (of_Z r) (of_Z C) Fa Fb Hb0 (or_intror Q1) Q2) as [e3 [He3 [Eq Fq]]].
  assert (Wq : within (-66) 66 (B2R (fdiv (of_Z r) (of_Z C)))) by (rewrite Eq; eapply within_mul'; [exact Wq0|apply within_eps, He3|lia|lia]).
  destruct f100_val as [E100 F100].
  assert (W100 : within 6 7 (B2R f100)) by (rewrite E100; unfold within; simpl; lra).
  assert (Wm0 : within (-60) 73 (B2R (fdiv (of_Z r) (of_Z C)) * B2R f100)) by (eapply within_mul'; [exact Wq|exact W100|lia|lia]).
  destruct (within_abs _ _ _ Wm0 ltac:(lia) ltac:(lia)) as [M1 M2].
  destruct (fmul_rel _ _ Fq F100 (or_intror M1) M2) as [e4 [He4 [Ep Fp]]].
  assert (Wp : within (-61) 74 (B2R (fmul (fdiv (of_Z r) (of_Z C)) f100))) by (rewrite Ep; eapply within_mul'; [exact Wm0|apply within_eps, He4|lia|lia]).
  fold (pct r C) in Ep, Fp, Wp.
  exists ((1+e1)*(1+e3)*(1+e4)/(1+e2) - 1). repeat split.
  - now apply theta_bound.
  - rewrite Ep, Eq, Ea, Eb, E100.
    assert (IZR C <> 0) by (apply Rgt_not_eq, (within_pos _ _ _ WC)).
    assert (1 + e2 <> 0) by (apply Rgt_not_eq, (within_pos _ _ _ (within_eps _ He2))).
    field. split; assumption.
  - exact Fp.
  - unfold pct, fmul, fdiv.
    generalize (Bmult_correct prec emax Hprec Hmax mode_NE (Bdiv mode_NE (of_Z r) (of_Z C)) f100).
    rewrite Rlt_bool_true.
    + intros [H1 _]. rewrite H1. simpl round_mode. rewrite E100.
      generalize (Bdiv_correct prec emax Hprec Hmax mode_NE (of_Z r) (of_Z C) Hb0).
      rewrite Rlt_bool_true.
      * intros [H2 _]. rewrite H2. simpl round_mode. rewrite Ra, Rb. reflexivity.
      * simpl round_mode. destruct (rnd_rel _ Q1) as [e [He Hr']]. rewrite Hr'. now apply rnd_lt_emax.
    + simpl round_mode. fold (fdiv (of_Z r) (of_Z C)). destruct (rnd_rel _ M1) as [e [He Hr']]. rewrite Hr'. now apply rnd_lt_emax.
  - destruct Wp; assumption.
  - destruct Wp; assumption.
Qed.

(* c13_percent: three kinds of rounding (conversion, quotient, product) and the relative error *)
Lemma pct_error r C : (1 <= r < 2 ^ 63)%Z -> (1 <= C < 2 ^ 63)%Z ->
  is_finite (pct r C) = true
  /\ B2R (pct r C) = rnd (rnd (rnd (IZR r) / rnd (IZR C)) * 100)
  /\ Rabs (B2R (pct r C) - 100 * IZR r / IZR C) <= 5 * u * (100 * IZR r / IZR C).
Proof.
  intros Hr HC. destruct (pct_float r C Hr HC) as [th [Hth [Ep [Fp [Rp _]]]]].
  split; [exact Fp|split; [exact Rp|]].
  rewrite Ep.
  replace (100 * IZR r / IZR C * (1 + th) - 100 * IZR r / IZR C) with (100 * IZR r / IZR C * th) by ring.
  assert (Hp : 0 < 100 * IZR r / IZR C).
  { pose proof (within_pos _ _ _ (within_IZR r 63 Hr ltac:(lia))). pose proof (within_pos _ _ _ (within_IZR C 63 HC ltac:(lia))).
    apply Rdiv_lt_0_compat; lra. }
  rewrite Rabs_mult, (Rabs_pos_eq (100 * IZR r / IZR C)) by lra.
  pose proof u_pos. rewrite (Rmult_comm (5 * u)). apply Rmult_le_compat_l; lra.
Qed.

(* small inputs (below 2^53) convert exactly: two roundings only *)
Lemma pct_small r C : (1 <= r < 2 ^ 53)%Z -> (1 <= C < 2 ^ 53)%Z ->
  B2R (pct r C) = rnd (rnd (IZR r / IZR C) * 100).
Proof.
  intros Hr HC. destruct (pct_error r C ltac:(lia) ltac:(lia)) as [_ [H _]]. rewrite H.
  rewrite !(round_generic radix2 fexp ZnearestE (IZR _)); try reflexivity; try apply valid_rnd_N; apply format_small_int; lia.
Qed.

(* zero requests give +0 *)
Lemma pct_zero C : (1 <= C < 2 ^ 63)%Z -> B2R (pct 0 C) = 0 /\ is_finite (pct 0 C) = true.
Proof.
  intro HC.
  destruct (of_Z_exact 0 ltac:(lia)) as [Ea Fa].
  destruct (of_Z_rel C ltac:(lia)) as [e2 [He2 [Eb Fb]]].
  assert (Wb : within (-1) 64 (B2R (of_Z C))) by (rewrite Eb; eapply within_mul'; [exact (within_IZR C 63 HC ltac:(lia))|apply within_eps, He2|lia|lia]).
  assert (Hb0 : B2R (of_Z C) <> 0) by (apply Rgt_not_eq, (within_pos _ _ _ Wb)).
  destruct (fdiv_rel (of_Z 0) (of_Z C) Fa Fb Hb0) as [e3 [He3 [Eq Fq]]].
  { left; exact Ea. }
  { rewrite Ea. unfold Rdiv. rewrite Rmult_0_l, Rabs_R0. apply bpow_ge_0. }
  destruct f100_val as [E100 F100].
  assert (Z0 : B2R (fdiv (of_Z 0) (of_Z C)) * B2R f100 = 0) by (rewrite Eq, Ea; unfold Rdiv; ring).
  destruct (fmul_rel _ _ Fq F100) as [e4 [He4 [Ep Fp]]].
  { left; exact Z0. }
  { rewrite Z0, Rabs_R0. apply bpow_ge_0. }
  split; [|exact Fp]. unfold pct. rewrite Ep, Z0. ring.
Qed.

Lemma bpow_double e : bpow radix2 (e + 1) = bpow radix2 e * 2.
Proof. rewrite bpow_plus. reflexivity. Qed.
Lemma bpow_half e : bpow radix2 (e - 1) = bpow radix2 e * / 2.
Proof. unfold Z.sub. rewrite bpow_plus. reflexivity. Qed.

(* ====================================================================================================== *)
(* C05 — the delta before the ceiling                                                                     *)
(* ====================================================================================================== *)
(* a float of magnitude at least 2^-67 is a multiple of 2^-120; so is every integer; hence a non-zero difference of the
   two is at least 2^-120 in magnitude (this is what excludes underflow after the subtraction) *)
Lemma format_multiple x : format x -> bpow radix2 (-67) <= Rabs x -> exists k : Z, x = IZR k * bpow radix2 (-120).
Proof.
  intros Fx Hx.
  assert (G : generic_format radix2 (FIX_exp (-120)) x).
  { eapply generic_inclusion_mag; [|exact Fx]. intros _.
    assert (Hm : (-66 <= mag radix2 x)%Z) by (apply mag_ge_bpow; exact Hx).
    unfold FIX_exp, SpecFloat.fexp, SpecFloat.emin, prec, emax. lia. }
  apply FIX_format_generic in G. destruct G as [[m e] E1 E2]. simpl in E2. subst e.
  exists m. rewrite E1. reflexivity.
Qed.

Lemma diff_int_lower x t : format x -> bpow radix2 (-67) <= Rabs x -> x - IZR t <> 0 ->
  bpow radix2 (-120) <= Rabs (x - IZR t).
Proof.
  intros Fx Hx Hne. destruct (format_multiple x Fx Hx) as [k Ek].
  assert (Et : IZR t = IZR (t * 2 ^ 120) * bpow radix2 (-120)).
  { rewrite mult_IZR. replace (IZR (2 ^ 120)) with (bpow radix2 120) by (rewrite <- IZR_Zpower by lia; reflexivity).
    rewrite Rmult_assoc, <- bpow_plus. replace (120 + -120)%Z with 0%Z by lia. simpl. ring. }
  assert (Ed : x - IZR t = IZR (k - t * 2 ^ 120) * bpow radix2 (-120)).
  { rewrite minus_IZR, Rmult_minus_distr_r, <- Ek, <- Et. reflexivity. }
  assert (Hk : (k - t * 2 ^ 120 <> 0)%Z).
  { intro H. apply Hne. rewrite Ed, H. apply Rmult_0_l. }
  rewrite Ed. rewrite Rabs_mult, (Rabs_pos_eq (bpow _ _)) by apply bpow_ge_0.
  rewrite <- abs_IZR. rewrite <- (Rmult_1_l (bpow radix2 (-120))) at 1.
  apply Rmult_le_compat_r; [apply bpow_ge_0|]. apply IZR_le. lia.
Qed.

Definition xt (n t : Z) (p : f64) : f64 := fmul (of_Z n) (fdiv (fsub p (of_Z t)) (of_Z t)).

(* the exact value: x = n (p - t) / t with p = 100 r / C *)
Definition xr (r C t n : Z) : R := IZR n * (100 * IZR r / IZR C - IZR t) / IZR t.

Lemma core_error p t n th et :
  0 < p -> 1 <= t -> 1 <= n -> Rabs th <= 41/10 * u -> Rabs et <= 31/10 * u ->
  Rabs (n * ((p * (1 + th) - t) * (1 + et) / t) - n * (p - t) / t) <= 8 * u * (Rabs (n * (p - t) / t) + n).
Proof.
  intros Hp Ht Hn Hth Het. pose proof u_pos as Hu. pose proof u_tiny as Hs.
  replace (n * ((p * (1 + th) - t) * (1 + et) / t) - n * (p - t) / t)
    with ((n / t) * (p * th + (p * (1 + th) - t) * et)) by (field; lra).
  replace (n * (p - t) / t) with ((n / t) * (p - t)) by (field; lra).
  assert (Hnt : 0 < n / t) by (apply Rdiv_lt_0_compat; lra).
  rewrite !Rabs_mult, !(Rabs_pos_eq (n / t)) by lra.
  replace (8 * u * (n / t * Rabs (p - t) + n)) with ((n / t) * (8 * u * (Rabs (p - t) + t))) by (field; lra).
  apply Rmult_le_compat_l; [lra|].
  set (D := Rabs (p - t)). assert (HD : 0 <= D) by apply Rabs_pos.
  assert (HpD : p <= D + t) by (unfold D; pose proof (Rle_abs (p - t)); lra).
  (* |p th| <= 4.1 u p ; |(p (1+th) - t) et| <= (D + 4.1 u p) 3.1 u *)
  assert (A : Rabs (p * th) <= p * (41/10 * u)).
  { rewrite Rabs_mult, (Rabs_pos_eq p) by lra. apply Rmult_le_compat_l; lra. }
  assert (B0 : Rabs (p * (1 + th) - t) <= D + p * (41/10 * u)).
  { replace (p * (1 + th) - t) with ((p - t) + p * th) by ring. eapply Rle_trans; [apply Rabs_triang|]. unfold D. lra. }
  assert (B : Rabs ((p * (1 + th) - t) * et) <= (D + p * (41/10 * u)) * (31/10 * u)).
  { rewrite Rabs_mult. apply Rmult_le_compat; try apply Rabs_pos; assumption. }
  eapply Rle_trans; [apply Rabs_triang|].
  eapply Rle_trans; [apply Rplus_le_compat; [exact A|exact B]|].
  (* p <= D + t and u tiny *)
  assert (Hup : p * (41/10 * u) <= (D + t) * (41/10 * u)) by (apply Rmult_le_compat_r; lra).
  assert (Hq : (D + p * (41/10 * u)) * (31/10 * u) <= (D + (D + t) * (41/10 * u)) * (31/10 * u))
    by (apply Rmult_le_compat_r; lra).
  assert (Hsm : (D + t) * (41/10 * u) * (31/10 * u) <= (D + t) * (/ 1000 * u)).
  { replace ((D + t) * (41 / 10 * u) * (31 / 10 * u)) with ((D + t) * ((41/10 * (31/10) * u) * u)) by ring.
    apply Rmult_le_compat_l; [lra|]. apply Rmult_le_compat_r; lra. }
  nra.
Qed.

Lemma xt_error r C t n :
  (1 <= r < 2 ^ 63)%Z -> (1 <= C < 2 ^ 63)%Z -> (1 <= t <= 2 ^ 31)%Z -> (1 <= n <= 2 ^ 31)%Z ->
  is_finite (xt n t (pct r C)) = true
  /\ Rabs (B2R (xt n t (pct r C)) - xr r C t n) <= 8 * u * (Rabs (xr r C t n) + IZR n)
  /\ Rabs (B2R (xt n t (pct r C))) <= bpow radix2 110.
Proof.
  intros Hr HC Ht Hn.
  destruct (pct_float r C Hr HC) as [th [Hth [Ep [Fp [_ Wp]]]]].
  destruct (of_Z_exact t ltac:(lia)) as [Et Ft]. destruct (of_Z_exact n ltac:(lia)) as [En Fn].
  assert (Wt : within 0 32 (IZR t)) by (apply within_IZR; lia).
  assert (Wn : within 0 32 (IZR n)) by (apply within_IZR; lia).
  set (P := B2R (pct r C)) in *.
  (* subtraction *)
  assert (Hsub : Rabs (P - IZR t) <= bpow radix2 75).
  { eapply Rle_trans; [apply Rabs_triang|]. rewrite Rabs_Ropp.
    rewrite (Rabs_pos_eq P), (Rabs_pos_eq (IZR t)) by (apply Rlt_le; eapply within_pos; eassumption).
    destruct Wp as [_ W1], Wt as [_ W2].
    apply Rle_trans with (bpow radix2 74 + bpow radix2 74); [apply Rplus_le_compat; [exact W1|eapply Rle_trans; [exact W2|apply bpow_le; lia]]|].
    replace (bpow radix2 75) with (bpow radix2 74 * 2) by (rewrite <- bpow_double; reflexivity). lra. }
  destruct (fsub_rel (pct r C) (of_Z t) Fp Ft) as [d5 [Hd5 [Es Fs]]].
  { rewrite Et. fold P. eapply Rle_trans; [exact Hsub|apply bpow_le; lia]. }
  rewrite Et in Es. fold P in Es.
  set (S := B2R (fsub (pct r C) (of_Z t))) in *.
  assert (HS : Rabs S <= bpow radix2 76).
  { rewrite Es, Rabs_mult. replace (bpow radix2 76) with (bpow radix2 75 * 2) by (rewrite <- bpow_double; reflexivity).
    apply Rmult_le_compat; try apply Rabs_pos; [exact Hsub|]. apply Rabs_le. destruct (one_plus_eps_bounds _ Hd5); lra. }
  assert (HS0 : S = 0 \/ bpow radix2 (-121) <= Rabs S).
  { destruct (Req_dec (P - IZR t) 0) as [Z|NZ]; [left; rewrite Es, Z; ring|right].
    assert (L : bpow radix2 (-120) <= Rabs (P - IZR t)).
    { apply diff_int_lower; [apply generic_format_B2R| |exact NZ].
      rewrite Rabs_pos_eq by (apply Rlt_le; eapply within_pos; exact Wp).
      destruct Wp as [W _]. eapply Rle_trans; [|exact W]. apply bpow_le; lia. }
    rewrite Es, Rabs_mult. replace (bpow radix2 (-121)) with (bpow radix2 (-120) * / 2) by (rewrite <- bpow_half; reflexivity).
    apply Rmult_le_compat; [apply bpow_ge_0|lra|exact L|].
    rewrite Rabs_pos_eq; destruct (one_plus_eps_bounds _ Hd5); lra. }
  (* division by t *)
  assert (Ht0 : B2R (of_Z t) <> 0) by (rewrite Et; apply Rgt_not_eq; eapply within_pos; exact Wt).
  assert (Wti : within (-32) 0 (/ IZR t)) by (apply (within_inv _ 0 32 Wt)).
  assert (Hti : 0 < / IZR t) by (eapply within_pos; exact Wti).
  destruct Wti as [Wti1 Wti2]. simpl in Wti2.
  assert (HW0 : Rabs (S / IZR t) <= bpow radix2 76).
  { unfold Rdiv. rewrite Rabs_mult, (Rabs_pos_eq (/ IZR t)) by lra.
    rewrite <- (Rmult_1_r (bpow radix2 76)).
    apply Rmult_le_compat; try apply Rabs_pos; [lra|exact HS|exact Wti2]. }
  assert (HW1 : S = 0 \/ bpow radix2 (-153) <= Rabs (S / IZR t)).
  { destruct HS0 as [Z|L]; [left; exact Z|right].
    unfold Rdiv. rewrite Rabs_mult, (Rabs_pos_eq (/ IZR t)) by lra.
    replace (bpow radix2 (-153)) with (bpow radix2 (-121) * bpow radix2 (-32)) by (rewrite <- bpow_plus; reflexivity).
    apply Rmult_le_compat; try apply bpow_ge_0; assumption. }
  destruct (fdiv_rel (fsub (pct r C) (of_Z t)) (of_Z t) Fs Ft Ht0) as [d6 [Hd6 [Ew Fw]]].
  { rewrite Et. fold S. destruct HW1 as [Z|L]; [left; exact Z|right]. eapply Rle_trans; [|exact L]. apply bpow_le; lia. }
  { rewrite Et. fold S. eapply Rle_trans; [exact HW0|apply bpow_le; lia]. }
  rewrite Et in Ew. fold S in Ew.
  set (W := B2R (fdiv (fsub (pct r C) (of_Z t)) (of_Z t))) in *.
  assert (HWb : Rabs W <= bpow radix2 77).
  { rewrite Ew, Rabs_mult. replace (bpow radix2 77) with (bpow radix2 76 * 2) by (rewrite <- bpow_double; reflexivity).
    apply Rmult_le_compat; try apply Rabs_pos; [exact HW0|]. apply Rabs_le. destruct (one_plus_eps_bounds _ Hd6); lra. }
  assert (HWl : S = 0 \/ bpow radix2 (-154) <= Rabs W).
  { destruct HW1 as [Z|L]; [left; exact Z|right].
    rewrite Ew, Rabs_mult. replace (bpow radix2 (-154)) with (bpow radix2 (-153) * / 2) by (rewrite <- bpow_half; reflexivity).
    apply Rmult_le_compat; [apply bpow_ge_0|lra|exact L|].
    rewrite Rabs_pos_eq; destruct (one_plus_eps_bounds _ Hd6); lra. }
  (* multiplication by n *)
  assert (Hn0 : 0 < IZR n) by (eapply within_pos; exact Wn).
  destruct Wn as [Wn1 Wn2]. simpl in Wn1.
  assert (HM : Rabs (IZR n * W) <= bpow radix2 109).
  { rewrite Rabs_mult, (Rabs_pos_eq (IZR n)) by lra.
    replace (bpow radix2 109) with (bpow radix2 32 * bpow radix2 77) by (rewrite <- bpow_plus; reflexivity).
    apply Rmult_le_compat; try apply Rabs_pos; try assumption. lra. }
  assert (HMl : IZR n * W = 0 \/ bpow radix2 (-1022) <= Rabs (IZR n * W)).
  { destruct HWl as [Z|L]; [left; rewrite Ew, Z; unfold Rdiv; ring|right].
    rewrite Rabs_mult, (Rabs_pos_eq (IZR n)) by lra.
    apply Rle_trans with (1 * bpow radix2 (-154)); [rewrite Rmult_1_l; apply bpow_le; lia|].
    apply Rmult_le_compat; [lra|apply bpow_ge_0|lra|exact L]. }
  destruct (fmul_rel (of_Z n) (fdiv (fsub (pct r C) (of_Z t)) (of_Z t)) Fn Fw) as [d7 [Hd7 [Ex Fx]]].
  { rewrite En. fold W. exact HMl. }
  { rewrite En. fold W. eapply Rle_trans; [exact HM|apply bpow_le; lia]. }
  rewrite En in Ex. fold W in Ex. fold (xt n t (pct r C)) in Ex, Fx.
  split; [exact Fx|]. split.
  - (* algebra *)
    assert (Hpp : 0 < 100 * IZR r / IZR C).
    { pose proof (within_pos _ _ _ (within_IZR r 63 Hr ltac:(lia))). pose proof (within_pos _ _ _ (within_IZR C 63 HC ltac:(lia))).
      apply Rdiv_lt_0_compat; lra. }
    assert (Ht1 : 1 <= IZR t) by (apply IZR_le; lia). assert (Hn1 : 1 <= IZR n) by (apply IZR_le; lia).
    pose proof (eta_bound d5 d6 d7 Hd5 Hd6 Hd7) as Het.
    pose proof (core_error (100 * IZR r / IZR C) (IZR t) (IZR n) th ((1+d5)*(1+d6)*(1+d7) - 1) Hpp Ht1 Hn1 Hth Het) as Hc.
    unfold xr.
    replace (B2R (xt n t (pct r C)))
      with (IZR n * ((100 * IZR r / IZR C * (1 + th) - IZR t) * (1 + ((1 + d5) * (1 + d6) * (1 + d7) - 1)) / IZR t)).
    + exact Hc.
    + assert (HC0 : 0 < IZR C) by (eapply within_pos; apply (within_IZR C 63 HC); lia).
      rewrite Ex, Ew, Es, Ep. field. repeat split; lra.
  - rewrite Ex, Rabs_mult. replace (bpow radix2 110) with (bpow radix2 109 * 2) by (rewrite <- bpow_double; reflexivity).
    apply Rmult_le_compat; try apply Rabs_pos; [exact HM|]. apply Rabs_le. destruct (one_plus_eps_bounds _ Hd7); lra.
Qed.

(* ====================================================================================================== *)
(* math.Ceil, math.Max, int(): from the float value to the integer delta                                  *)
(* ====================================================================================================== *)
Lemma fceil_correct x : B2R (fceil x) = IZR (Zceil (B2R x)) /\ is_finite (fceil x) = is_finite x.
Proof.
  destruct (Bnearbyint_correct prec emax Hmax mode_UP x) as [H1 [H2 _]].
  split; [|exact H2]. unfold fceil. rewrite H1. simpl round_mode. apply round_FIX_IZR.
Qed.

Lemma finite_not_special x : is_finite x = true -> is_pinf x = false /\ is_nan_b x = false.
Proof. destruct x; simpl; intro H; try discriminate; split; reflexivity. Qed.

Lemma is_zero_B2R x : is_zero_b x = true -> B2R x = 0.
Proof. destruct x; simpl; intro H; try discriminate; reflexivity. Qed.

Lemma fgt_correct x y : is_finite x = true -> is_finite y = true -> fgt x y = true <-> B2R y < B2R x.
Proof.
  intros Fx Fy. unfold fgt. rewrite (Bcompare_correct prec emax x y Fx Fy).
  destruct (Rcompare_spec (B2R x) (B2R y)); split; intro G; try discriminate; try reflexivity; lra.
Qed.

Lemma feq_correct x y : is_finite x = true -> is_finite y = true -> feq x y = true <-> B2R x = B2R y.
Proof.
  intros Fx Fy. unfold feq. rewrite (Bcompare_correct prec emax x y Fx Fy).
  destruct (Rcompare_spec (B2R x) (B2R y)); split; intro G; try discriminate; try reflexivity; lra.
Qed.

Lemma fmax_correct x y : is_finite x = true -> is_finite y = true ->
  B2R (fmax x y) = Rmax (B2R x) (B2R y) /\ is_finite (fmax x y) = true.
Proof.
  intros Fx Fy. unfold fmax.
  destruct (finite_not_special x Fx) as [Px Nx], (finite_not_special y Fy) as [Py Ny].
  rewrite Px, Py, Nx, Ny. simpl.
  destruct (is_zero_b x && is_zero_b y) eqn:Z.
  - apply andb_prop in Z. destruct Z as [Zx Zy]. pose proof (is_zero_B2R _ Zx) as Ex. pose proof (is_zero_B2R _ Zy) as Ey.
    destruct (sign_b x); [split; [rewrite Ex, Ey, Rmax_left; lra|exact Fy]|split; [rewrite Ex, Ey, Rmax_left; lra|exact Fx]].
  - destruct (fgt x y) eqn:G.
    + apply (fgt_correct x y Fx Fy) in G. split; [rewrite Rmax_left; lra|exact Fx].
    + split; [|exact Fy]. rewrite Rmax_right; [reflexivity|].
      destruct (Rle_or_lt (B2R x) (B2R y)) as [L|L]; [exact L|]. apply (fgt_correct x y Fx Fy) in L. congruence.
Qed.

Lemma Rmax_IZR a b : Rmax (IZR a) (IZR b) = IZR (Z.max a b).
Proof.
  destruct (Z_le_gt_dec a b) as [H|H].
  - rewrite Z.max_r by lia. apply Rmax_right, IZR_le, H.
  - rewrite Z.max_l by lia. apply Rmax_left, IZR_le. lia.
Qed.

(* int(f) of a finite float holding an integer inside int64 is that integer *)
Lemma to_int_correct x k : is_finite x = true -> B2R x = IZR k ->
  (-9223372036854775808 <= k <= 9223372036854775807)%Z -> to_int x = k.
Proof.
  destruct x as [s| | |s m e He]; intros F E Hk; try discriminate F.
  - simpl in E. simpl. symmetry. apply eq_IZR. rewrite <- E. reflexivity.
  - unfold to_int. unfold B2R in E.
    assert (V : (if s then - (if (0 <=? e)%Z then Z.pos m * 2 ^ e else Z.pos m / 2 ^ (- e)) else (if (0 <=? e)%Z then Z.pos m * 2 ^ e else Z.pos m / 2 ^ (- e)))%Z = k).
    { unfold F2R in E. simpl Fnum in E. simpl Fexp in E.
      destruct (Z.leb_spec 0 e) as [Le|Le].
      - rewrite <- IZR_Zpower in E by exact Le. rewrite <- mult_IZR in E. apply eq_IZR in E.
        change (radix_val radix2) with 2%Z in E. destruct s; unfold cond_Zopp in E; lia.
      - assert (E' : IZR (cond_Zopp s (Z.pos m)) = IZR (k * 2 ^ (- e))).
        { rewrite mult_IZR. change 2%Z with (radix_val radix2). rewrite IZR_Zpower by lia. rewrite <- E, Rmult_assoc, <- bpow_plus.
          replace (e + - e)%Z with 0%Z by lia. simpl. ring. }
        apply eq_IZR in E'. assert (P : (0 < 2 ^ (- e))%Z) by (apply Z.pow_pos_nonneg; lia).
        destruct s; unfold cond_Zopp in E'.
        + assert (Z.pos m = (- k) * 2 ^ (- e))%Z by lia. rewrite H. rewrite Z.div_mul by lia. lia.
        + rewrite E'. rewrite Z.div_mul by lia. reflexivity. }
    rewrite V.
    destruct ((-9223372036854775808 <=? k)%Z && (k <=? 9223372036854775807)%Z) eqn:B; [reflexivity|].
    apply andb_false_iff in B. destruct B as [B|B]; [apply Z.leb_gt in B|apply Z.leb_gt in B]; lia.
Qed.

Lemma f_max_lower : is_finite f_max = true /\ bpow radix2 1000 <= B2R f_max.
Proof.
  set (x := F2R (Float radix2 9007199254740991 971)).
  assert (Hx : x = IZR 9007199254740991 * bpow radix2 971) by reflexivity.
  assert (Hpos : 0 < x) by (rewrite Hx; apply Rmult_lt_0_compat; [apply IZR_lt; reflexivity|apply bpow_gt_0]).
  assert (Hlt : Rabs x < bpow radix2 1024).
  { rewrite Rabs_pos_eq, Hx by lra.
    replace (bpow radix2 1024) with (bpow radix2 53 * bpow radix2 971) by (rewrite <- bpow_plus; reflexivity).
    apply Rmult_lt_compat_r; [apply bpow_gt_0|]. rewrite <- IZR_Zpower by lia. apply IZR_lt. reflexivity. }
  assert (Fx : format x).
  { apply generic_format_F2R. intros _. unfold cexp. fold x.
    assert (Hm : (mag radix2 x <= 1024)%Z) by (apply mag_le_bpow; [lra|exact Hlt]).
    unfold SpecFloat.fexp, SpecFloat.emin, prec, emax. simpl Fexp. lia. }
  generalize (binary_normalize_correct prec emax Hprec Hmax mode_NE 9007199254740991 971 false). cbv zeta. fold x.
  simpl round_mode. rewrite (round_generic radix2 fexp ZnearestE x Fx).
  rewrite Rlt_bool_true by exact Hlt. fold f_max. intros [H1 [H2 _]]. split; [exact H2|].
  rewrite H1, Hx.
  replace (bpow radix2 1000) with (bpow radix2 29 * bpow radix2 971) by (rewrite <- bpow_plus; reflexivity).
  apply Rmult_le_compat_r; [apply bpow_ge_0|]. rewrite <- IZR_Zpower by lia. apply IZR_le. change (radix_val radix2) with 2%Z. lia.
Qed.

Lemma feq_max_false x : is_finite x = true -> Rabs (B2R x) <= bpow radix2 999 -> feq x f_max = false.
Proof.
  intros F H. destruct f_max_lower as [Fm Lm].
  destruct (feq x f_max) eqn:E; [|reflexivity]. apply (feq_correct x f_max F Fm) in E.
  pose proof (Rle_abs (B2R x)). pose proof (bpow_lt radix2 999 1000 ltac:(lia)). lra.
Qed.

(* the normal branch of calcScaleUpDelta, evaluated: the delta is the larger of the two ceilings *)
Lemma calc_delta_normal n cp mp cpuReq memReq t ccpu cmem :
  is_finite cp = true -> is_finite mp = true ->
  Rabs (B2R cp) <= bpow radix2 999 -> Rabs (B2R mp) <= bpow radix2 999 ->
  is_finite (xt n t cp) = true -> is_finite (xt n t mp) = true ->
  let dc := Zceil (B2R (xt n t cp)) in let dm := Zceil (B2R (xt n t mp)) in
  (-9223372036854775808 <= Z.max dc dm <= 9223372036854775807)%Z ->
  calc_delta n cp mp cpuReq memReq t ccpu cmem
  = if (Z.max dc dm <? 0)%Z then DeltaErr (Z.max dc dm) else DeltaOk (Z.max dc dm).
Proof.
  intros Fc Fm Bc Bm Fxc Fxm dc dm Hd.
  unfold calc_delta. rewrite (feq_max_false cp Fc Bc), (feq_max_false mp Fm Bm). simpl orb. cbv iota.
  fold (xt n t cp). fold (xt n t mp).
  destruct (fceil_correct (xt n t cp)) as [Ec Gc]. destruct (fceil_correct (xt n t mp)) as [Em Gm].
  rewrite Fxc in Gc. rewrite Fxm in Gm.
  destruct (fmax_correct _ _ Gc Gm) as [EM FM]. rewrite Ec, Em, Rmax_IZR in EM. fold dc dm in EM.
  rewrite (to_int_correct _ (Z.max dc dm) FM EM Hd). reflexivity.
Qed.

(* a zero percentage (nothing requested of that resource): the computed x is about -n, never positive *)
Lemma xt_of_zero p t n : is_finite p = true -> B2R p = 0 -> (1 <= t <= 2 ^ 31)%Z -> (1 <= n <= 2 ^ 31)%Z ->
  is_finite (xt n t p) = true /\ - (8 * IZR n) <= B2R (xt n t p) < 0.
Proof.
  intros Fp Zp Ht Hn.
  destruct (of_Z_exact t ltac:(lia)) as [Et Ft]. destruct (of_Z_exact n ltac:(lia)) as [En Fn].
  assert (Wt : within 0 32 (IZR t)) by (apply within_IZR; lia).
  assert (Wn : within 0 32 (IZR n)) by (apply within_IZR; lia).
  assert (Ht0 : 0 < IZR t) by (eapply within_pos; exact Wt). assert (Hn0 : 0 < IZR n) by (eapply within_pos; exact Wn).
  destruct (fsub_rel p (of_Z t) Fp Ft) as [d5 [Hd5 [Es Fs]]].
  { rewrite Zp, Et, Rminus_0_l, Rabs_Ropp, Rabs_pos_eq by lra. destruct Wt as [_ W]. eapply Rle_trans; [exact W|apply bpow_le; lia]. }
  rewrite Zp, Et in Es.
  destruct (one_plus_eps_bounds _ Hd5) as [L5 U5].
  assert (Eq0 : B2R (fsub p (of_Z t)) / B2R (of_Z t) = - (1 + d5)) by (rewrite Es, Et; field; lra).
  destruct (fdiv_rel (fsub p (of_Z t)) (of_Z t) Fs Ft) as [d6 [Hd6 [Ew Fw]]].
  { rewrite Et; lra. }
  { right. rewrite Eq0, Rabs_Ropp, Rabs_pos_eq by lra. apply Rle_trans with (/ 2); [|lra].
    replace (/ 2) with (bpow radix2 (-1)) by reflexivity. apply bpow_le; lia. }
  { rewrite Eq0, Rabs_Ropp, Rabs_pos_eq by lra. apply Rle_trans with 2; [lra|]. replace 2 with (bpow radix2 1) by reflexivity. apply bpow_le; lia. }
  rewrite Eq0 in Ew. destruct (one_plus_eps_bounds _ Hd6) as [L6 U6].
  assert (W1 : / 4 <= (1 + d5) * (1 + d6) <= 4) by nra.
  assert (Em0 : B2R (of_Z n) * B2R (fdiv (fsub p (of_Z t)) (of_Z t)) = - (IZR n * ((1 + d5) * (1 + d6)))) by (rewrite En, Ew; ring).
  assert (W2 : / 4 <= IZR n * ((1 + d5) * (1 + d6)) <= bpow radix2 34).
  { destruct Wn as [Wn1 Wn2]. simpl in Wn1. split; [nra|].
    replace (bpow radix2 34) with (bpow radix2 32 * bpow radix2 2) by (rewrite <- bpow_plus; reflexivity).
    assert (B2 : bpow radix2 2 = 4) by (simpl; lra). rewrite B2.
    apply Rmult_le_compat; lra. }
  destruct (fmul_rel (of_Z n) (fdiv (fsub p (of_Z t)) (of_Z t)) Fn Fw) as [d7 [Hd7 [Ex Fx]]].
  { right. rewrite Em0, Rabs_Ropp, Rabs_pos_eq by lra. apply Rle_trans with (/ 4); [|lra].
    replace (/ 4) with (bpow radix2 (-2)) by (simpl; lra). apply bpow_le; lia. }
  { rewrite Em0, Rabs_Ropp, Rabs_pos_eq by lra. eapply Rle_trans; [apply W2|apply bpow_le; lia]. }
  fold (xt n t p) in Ex, Fx. split; [exact Fx|].
  rewrite Ex, Em0. destruct (one_plus_eps_bounds _ Hd7) as [L7 U7].
  assert (W3 : 0 < IZR n * ((1 + d5) * (1 + d6)) <= 4 * IZR n) by nra.
  split; nra.
Qed.

(* ====================================================================================================== *)
(* from the error bound to the integer statements                                                         *)
(* ====================================================================================================== *)
Lemma Zceil_div a b : (0 < b)%Z -> Zceil (IZR a / IZR b) = ceil_div a b.
Proof.
  intro Hb. unfold Zceil, ceil_div.
  replace (- (IZR a / IZR b)) with (IZR (- a) / IZR b) by (rewrite opp_IZR; field; apply IZR_neq; lia).
  rewrite Zfloor_div by lia. reflexivity.
Qed.

Lemma xr_ratio r c t n : (0 < c)%Z -> (0 < t)%Z -> (0 < n)%Z ->
  xr r (n * c) t n = IZR (100 * r - t * n * c) / IZR (t * c).
Proof.
  intros Hc Ht Hn. unfold xr. rewrite minus_IZR, !mult_IZR.
  assert (IZR c <> 0) by (apply IZR_neq; lia). assert (IZR t <> 0) by (apply IZR_neq; lia). assert (IZR n <> 0) by (apply IZR_neq; lia).
  field. repeat split; assumption.
Qed.

(* the exact real x has ceiling exact_delta *)
Lemma Zceil_xr r c t n : (0 < c)%Z -> (0 < t)%Z -> (0 < n)%Z -> Zceil (xr r (n * c) t n) = exact_delta r c t n.
Proof. intros Hc Ht Hn. rewrite xr_ratio by assumption. apply Zceil_div. nia. Qed.

Lemma xr_plus_n r c t n : (0 < c)%Z -> (0 < t)%Z -> (0 < n)%Z ->
  xr r (n * c) t n + IZR n = 100 * IZR r / (IZR t * IZR c).
Proof.
  intros Hc Ht Hn. unfold xr. rewrite mult_IZR.
  assert (IZR c <> 0) by (apply IZR_neq; lia). assert (IZR t <> 0) by (apply IZR_neq; lia). assert (IZR n <> 0) by (apply IZR_neq; lia).
  field. repeat split; assumption.
Qed.

Definition dz (r C t n : Z) : Z := Zceil (B2R (xt n t (pct r C))).

Lemma u_two53 : u * IZR (2 ^ 53) = 1.
Proof. unfold u. change (2 ^ 53)%Z with 9007199254740992%Z. field. Qed.

(* at most one more, one resource: whenever 8 * (least sufficient count) < 2^53 *)
Lemma res_at_most_one r c t n :
  (1 <= r < 2 ^ 63)%Z -> (0 < c)%Z -> (1 <= n * c < 2 ^ 63)%Z -> (1 <= t <= 2 ^ 31)%Z -> (1 <= n <= 2 ^ 31)%Z ->
  (8 * nodes_needed_exact r c t < 2 ^ 53)%Z ->
  is_finite (xt n t (pct r (n * c))) = true
  /\ (dz r (n * c) t n <= exact_delta r c t n + 1)%Z
  /\ (- 2 ^ 33 <= dz r (n * c) t n)%Z.
Proof.
  intros Hr Hc HC Ht Hn Hm. unfold dz.
  destruct (xt_error r (n * c) t n Hr HC Ht Hn) as [Fx [Herr _]].
  split; [exact Fx|].
  pose proof (Zceil_xr r c t n Hc ltac:(lia) ltac:(lia)) as Ez.
  pose proof (xr_plus_n r c t n Hc ltac:(lia) ltac:(lia)) as Ey.
  set (x := xr r (n * c) t n) in *. set (X := B2R (xt n t (pct r (n * c)))) in *.
  pose proof (Zceil_ub x) as Hub. rewrite Ez in Hub.
  assert (Hn1 : 1 <= IZR n <= IZR (2 ^ 31)) by (split; apply IZR_le; lia).
  assert (Hy : 0 <= x + IZR n).
  { rewrite Ey. apply Rmult_le_pos; [apply Rmult_le_pos; [lra|apply IZR_le; lia]|].
    apply Rlt_le, Rinv_0_lt_compat, Rmult_lt_0_compat; apply IZR_lt; lia. }
  pose proof u_pos as Hu. pose proof u_two53 as Hu53.
  (* the error is below 1 *)
  assert (Hsmall : 8 * u * (Rabs x + IZR n) < 1).
  { destruct (Rle_or_lt 0 x) as [Px|Nx].
    - rewrite Rabs_pos_eq by exact Px.
      assert (Hneed : x + IZR n <= IZR (nodes_needed_exact r c t)).
      { rewrite <- (exact_delta_spec r c t n) by lia. rewrite plus_IZR. lra. }
      assert (H8 : 8 * IZR (nodes_needed_exact r c t) < IZR (2 ^ 53)) by (rewrite <- (mult_IZR 8); apply IZR_lt; exact Hm).
      apply Rle_lt_trans with (u * (8 * IZR (nodes_needed_exact r c t))); [nra|].
      rewrite <- Hu53. apply Rmult_lt_compat_l; lra.
    - rewrite Rabs_left by exact Nx.
      apply Rle_lt_trans with (u * (16 * IZR (2 ^ 31))); [nra|].
      rewrite <- Hu53. apply Rmult_lt_compat_l; [lra|]. rewrite <- (mult_IZR 16). apply IZR_lt. reflexivity. }
  apply Rabs_le_inv in Herr. split.
  - apply Zceil_glb. rewrite plus_IZR. simpl (IZR 1). lra.
  - (* lower bound: x >= -n, error below 1 *)
    assert (HX : - IZR (2 ^ 33) <= X).
    { assert (IZR (2 ^ 31) + 1 <= IZR (2 ^ 33)) by (rewrite <- (plus_IZR _ 1); apply IZR_le; lia). lra. }
    pose proof (Zceil_ub X) as HubX.
    apply le_IZR. rewrite opp_IZR. lra.
Qed.

Lemma ceil_div_scale G a b : (0 < G)%Z -> (0 < b)%Z -> ceil_div (G * a) (G * b) = ceil_div a b.
Proof.
  intros HG Hb. unfold ceil_div. replace (- (G * a))%Z with (G * - a)%Z by lia.
  rewrite Z.div_mul_cancel_l by lia. reflexivity.
Qed.

(* sufficient, one resource: requests r = G r' and node size c = G c' share a granularity G with 800 r' < 2^53 *)
Lemma res_sufficient r c t n G r' c' :
  (1 <= r < 2 ^ 63)%Z -> (0 < c)%Z -> (1 <= n * c < 2 ^ 63)%Z -> (1 <= t <= 2 ^ 31)%Z -> (1 <= n <= 2 ^ 31)%Z ->
  (0 < G)%Z -> r = (G * r')%Z -> c = (G * c')%Z -> (800 * r' < 2 ^ 53)%Z ->
  exceeds r (n * c) t = true ->
  (exact_delta r c t n <= dz r (n * c) t n)%Z.
Proof.
  intros Hr Hc HC Ht Hn HG Er Ec Hreg Hex. unfold dz.
  destruct (xt_error r (n * c) t n Hr HC Ht Hn) as [_ [Herr _]].
  pose proof (xr_ratio r c t n Hc ltac:(lia) ltac:(lia)) as Ex.
  pose proof (xr_plus_n r c t n Hc ltac:(lia) ltac:(lia)) as Ey.
  set (x := xr r (n * c) t n) in *. set (X := B2R (xt n t (pct r (n * c)))) in *.
  assert (Hc' : (0 < c')%Z) by nia. assert (Hr' : (0 < r')%Z) by nia.
  set (A := (100 * r' - t * n * c')%Z). set (B := (t * c')%Z).
  assert (HB : (0 < B)%Z) by (unfold B; nia).
  assert (EA : (100 * r - t * n * c = G * A)%Z) by (unfold A; rewrite Er, Ec; ring).
  assert (EB : (t * c = G * B)%Z) by (unfold B; rewrite Ec; ring).
  assert (Ed : exact_delta r c t n = ceil_div A B) by (unfold exact_delta; rewrite EA, EB; apply ceil_div_scale; assumption).
  assert (Br : 0 < IZR B) by (apply IZR_lt; exact HB).
  assert (Gr : 0 < IZR G) by (apply IZR_lt; exact HG).
  (* x B = A, (x + n) B = 100 r' *)
  assert (xB : x * IZR B = IZR A).
  { rewrite Ex, EA, EB, !mult_IZR. field. split; lra. }
  assert (yB : (x + IZR n) * IZR B = 100 * IZR r').
  { rewrite Ey. unfold B. rewrite Er, Ec, !mult_IZR.
    assert (IZR t <> 0) by (apply IZR_neq; lia). assert (IZR c' <> 0) by (apply IZR_neq; lia).
    field. repeat split; try assumption; lra. }
  (* x > 0 *)
  assert (Hx : 0 < x).
  { unfold exceeds in Hex. apply Z.ltb_lt in Hex.
    assert (0 < IZR A) by (apply IZR_lt; unfold A; nia).
    apply Rmult_lt_reg_r with (IZR B); [exact Br|]. rewrite xB. lra. }
  (* (ceil - 1) B + 1 <= A *)
  set (k := (ceil_div A B - 1)%Z).
  assert (Hk : IZR k * IZR B + 1 <= IZR A).
  { pose proof (ceil_div_lower A B HB) as L. fold k in L.
    rewrite <- mult_IZR, <- (plus_IZR _ 1). apply IZR_le. lia. }
  pose proof u_pos as Hu. pose proof u_two53 as Hu53.
  assert (Hsm : 8 * u * (100 * IZR r') < 1).
  { replace (8 * u * (100 * IZR r')) with (u * (800 * IZR r')) by ring.
    rewrite <- Hu53. apply Rmult_lt_compat_l; [lra|]. rewrite <- (mult_IZR 800). apply IZR_lt. exact Hreg. }
  assert (HkX : IZR k < X).
  { apply Rabs_le_inv in Herr. rewrite (Rabs_pos_eq x) in Herr by lra.
    apply Rlt_le_trans with (x - 8 * u * (x + IZR n)); [|lra].
    apply Rmult_lt_reg_r with (IZR B); [exact Br|].
    replace ((x - 8 * u * (x + IZR n)) * IZR B) with (x * IZR B - 8 * u * ((x + IZR n) * IZR B)) by ring.
    rewrite xB, yB. lra. }
  rewrite Ed. pose proof (Zceil_ub X) as HubX.
  assert (k < Zceil X)%Z by (apply lt_IZR; lra). unfold k in *. lia.
Qed.

(* a resource at or below the threshold never asks for more than one node; the zero request asks for none *)
Lemma res_not_exceeding r c t n :
  (1 <= r < 2 ^ 63)%Z -> (0 < c)%Z -> (1 <= n * c < 2 ^ 63)%Z -> (1 <= t <= 2 ^ 31)%Z -> (1 <= n <= 2 ^ 31)%Z ->
  exceeds r (n * c) t = false ->
  is_finite (xt n t (pct r (n * c))) = true /\ (- 2 ^ 33 <= dz r (n * c) t n <= 1)%Z.
Proof.
  intros Hr Hc HC Ht Hn Hex.
  assert (Hneed : (nodes_needed_exact r c t <= n)%Z).
  { apply nodes_needed_least; try lia. unfold holds_at. unfold exceeds in Hex. apply Z.ltb_ge in Hex. nia. }
  assert (H0 : (0 <= nodes_needed_exact r c t)%Z).
  { destruct (Z_lt_le_dec (nodes_needed_exact r c t) 0) as [L|L]; [|exact L]. exfalso.
    assert (G : (nodes_needed_exact r c t <= -1)%Z) by lia.
    apply (nodes_needed_least r c t (-1)) in G; try lia. unfold holds_at in G. nia. }
  destruct (res_at_most_one r c t n Hr Hc HC Ht Hn ltac:(lia)) as [Fx [Hup Hlo]].
  split; [exact Fx|]. split; [exact Hlo|].
  pose proof (exact_delta_spec r c t n Hc ltac:(lia)). lia.
Qed.

(* above the threshold the computed delta is never negative *)
Lemma res_exceeding_nonneg r c t n :
  (1 <= r < 2 ^ 63)%Z -> (0 < c)%Z -> (1 <= n * c < 2 ^ 63)%Z -> (1 <= t <= 2 ^ 31)%Z -> (1 <= n <= 2 ^ 31)%Z ->
  (8 * nodes_needed_exact r c t < 2 ^ 53)%Z -> exceeds r (n * c) t = true -> (0 <= dz r (n * c) t n)%Z.
Proof.
  intros Hr Hc HC Ht Hn Hm Hex. unfold dz.
  destruct (xt_error r (n * c) t n Hr HC Ht Hn) as [_ [Herr _]].
  pose proof (xr_ratio r c t n Hc ltac:(lia) ltac:(lia)) as Ex.
  pose proof (Zceil_xr r c t n Hc ltac:(lia) ltac:(lia)) as Ez.
  set (x := xr r (n * c) t n) in *. set (X := B2R (xt n t (pct r (n * c)))) in *.
  assert (Hx : 0 < x).
  { rewrite Ex. unfold exceeds in Hex. apply Z.ltb_lt in Hex. apply Rdiv_lt_0_compat; apply IZR_lt; nia. }
  pose proof (Zceil_ub x) as Hub. rewrite Ez in Hub.
  pose proof u_pos as Hu. pose proof u_two53 as Hu53.
  assert (Hneed : x + IZR n <= IZR (nodes_needed_exact r c t)).
  { rewrite <- (exact_delta_spec r c t n) by lia. rewrite plus_IZR. lra. }
  assert (H8 : 8 * IZR (nodes_needed_exact r c t) < IZR (2 ^ 53)) by (rewrite <- (mult_IZR 8); apply IZR_lt; exact Hm).
  assert (Hn0 : 0 < IZR n) by (apply IZR_lt; lia).
  assert (Hsmall : 8 * u * (Rabs x + IZR n) < 1).
  { rewrite Rabs_pos_eq by lra.
    apply Rle_lt_trans with (u * (8 * IZR (nodes_needed_exact r c t))); [nra|].
    rewrite <- Hu53. apply Rmult_lt_compat_l; lra. }
  apply Rabs_le_inv in Herr. pose proof (Zceil_ub X) as HubX.
  assert (-1 < Zceil X)%Z by (apply lt_IZR; simpl; lra). lia.
Qed.

(* nothing requested of a resource *)
Lemma res_zero C t n : (1 <= C < 2 ^ 63)%Z -> (1 <= t <= 2 ^ 31)%Z -> (1 <= n <= 2 ^ 31)%Z ->
  is_finite (pct 0 C) = true /\ B2R (pct 0 C) = 0 /\ is_finite (xt n t (pct 0 C)) = true /\ (- 2 ^ 35 <= dz 0 C t n <= 0)%Z.
Proof.
  intros HC Ht Hn. destruct (pct_zero C HC) as [Zp Fp].
  destruct (xt_of_zero (pct 0 C) t n Fp Zp Ht Hn) as [Fx [Lo Hi]].
  repeat split; try assumption; unfold dz.
  - pose proof (Zceil_ub (B2R (xt n t (pct 0 C)))) as H.
    assert (IZR n <= IZR (2 ^ 31)) by (apply IZR_le; lia).
    assert (8 * IZR (2 ^ 31) + 1 <= IZR (2 ^ 35)) by (rewrite <- (mult_IZR 8), <- (plus_IZR _ 1); apply IZR_le; lia).
    apply le_IZR. rewrite opp_IZR. lra.
  - apply Zceil_glb. simpl. lra.
Qed.

(* ---------- one resource, all cases ---------- *)
Record res_facts (r c t n : Z) : Prop := {
  rf_pct_finite : is_finite (pct r (n * c)) = true;
  rf_pct_small : Rabs (B2R (pct r (n * c))) <= bpow radix2 999;
  rf_xt_finite : is_finite (xt n t (pct r (n * c))) = true;
  rf_lower : (- 2 ^ 35 <= dz r (n * c) t n)%Z;
  rf_below : exceeds r (n * c) t = false -> (dz r (n * c) t n <= 1)%Z;
  rf_upper : exceeds r (n * c) t = true -> (8 * nodes_needed_exact r c t < 2 ^ 53)%Z ->
             (0 <= dz r (n * c) t n <= exact_delta r c t n + 1)%Z;
  rf_suff : exceeds r (n * c) t = true -> res_region r c = true -> (exact_delta r c t n <= dz r (n * c) t n)%Z
}.

Lemma res_region_split r c : (0 < r)%Z -> (0 < c)%Z -> res_region r c = true ->
  exists G r' c', (0 < G)%Z /\ r = (G * r')%Z /\ c = (G * c')%Z /\ (800 * r' < 2 ^ 53)%Z.
Proof.
  intros Hr Hc H. unfold res_region in H. apply orb_prop in H. destruct H as [H|H]; [apply Z.eqb_eq in H; lia|].
  apply Z.ltb_lt in H. unfold two53 in H.
  assert (HG : (0 < Z.gcd r c)%Z).
  { pose proof (Z.gcd_nonneg r c). destruct (Z.eq_dec (Z.gcd r c) 0) as [E|E]; [apply Z.gcd_eq_0_l in E; lia|lia]. }
  destruct (Z.gcd_divide_l r c) as [r' Er]. destruct (Z.gcd_divide_r r c) as [c' Ec].
  exists (Z.gcd r c), r', c'. repeat split; try lia.
  replace (r / Z.gcd r c)%Z with r' in H; [change (2 ^ 53)%Z with 9007199254740992%Z; exact H|].
  rewrite Er at 1. rewrite Z.div_mul by lia. reflexivity.
Qed.

Lemma sufficient_region_upper r c t G r' c' :
  (0 < c)%Z -> (0 < t)%Z -> (0 < G)%Z -> r = (G * r')%Z -> c = (G * c')%Z -> (0 < r')%Z -> (800 * r' < 2 ^ 53)%Z ->
  (8 * nodes_needed_exact r c t < 2 ^ 53)%Z.
Proof.
  intros Hc Ht HG Er Ec Hr' H.
  assert (Hc' : (0 < c')%Z) by nia.
  assert (L : (nodes_needed_exact r c t <= 100 * r')%Z).
  { apply nodes_needed_least; try assumption. unfold holds_at. rewrite Er, Ec. nia. }
  lia.
Qed.

Lemma res_facts_hold r c t n :
  (0 <= r < 2 ^ 63)%Z -> (0 < c)%Z -> (1 <= n * c < 2 ^ 63)%Z -> (1 <= t <= 2 ^ 31)%Z -> (1 <= n <= 2 ^ 31)%Z ->
  res_facts r c t n.
Proof.
  intros Hr Hc HC Ht Hn.
  destruct (Z.eq_dec r 0) as [->|Hnz].
  - destruct (res_zero (n * c) t n HC Ht Hn) as [Fp [Zp [Fx [Lo Hi]]]].
    assert (Hex : exceeds 0 (n * c) t = false) by (unfold exceeds; apply Z.ltb_ge; nia).
    constructor; [exact Fp| |exact Fx| | |intro H; congruence|intro H; congruence].
    + rewrite Zp, Rabs_R0. apply bpow_ge_0.
    + lia.
    + intros _. lia.
  - assert (Hr1 : (1 <= r < 2 ^ 63)%Z) by lia.
    destruct (pct_float r (n * c) Hr1 HC) as [th [_ [_ [Fp [_ Wp]]]]].
    assert (Bp : Rabs (B2R (pct r (n * c))) <= bpow radix2 999).
    { rewrite Rabs_pos_eq by (apply Rlt_le; eapply within_pos; exact Wp). destruct Wp as [_ W]. eapply Rle_trans; [exact W|apply bpow_le; lia]. }
    destruct (xt_error r (n * c) t n Hr1 HC Ht Hn) as [Fx _].
    destruct (exceeds r (n * c) t) eqn:Hex.
    + (* above the threshold *)
      assert (Lo : (8 * nodes_needed_exact r c t < 2 ^ 53)%Z -> (0 <= dz r (n * c) t n <= exact_delta r c t n + 1)%Z).
      { intro Hm. destruct (res_at_most_one r c t n Hr1 Hc HC Ht Hn Hm) as [_ [Hup _]].
        pose proof (res_exceeding_nonneg r c t n Hr1 Hc HC Ht Hn Hm Hex). lia. }
      assert (Su : res_region r c = true -> (exact_delta r c t n <= dz r (n * c) t n)%Z).
      { intro Hreg. destruct (res_region_split r c ltac:(lia) Hc Hreg) as [G [r' [c' [HG [Er [Ec H800]]]]]].
        exact (res_sufficient r c t n G r' c' Hr1 Hc HC Ht Hn HG Er Ec H800 Hex). }
      constructor; [exact Fp|exact Bp|exact Fx| |intro H; congruence| | ].
      * (* lower bound without any region: x > 0 so X > -(error), error <= 8u(x+n); use the crude bound via Zceil >= X >= -2^110 is not enough; use xt_error *)
        destruct (xt_error r (n * c) t n Hr1 HC Ht Hn) as [_ [Herr _]].
        pose proof (xr_ratio r c t n Hc ltac:(lia) ltac:(lia)) as Ex.
        set (x := xr r (n * c) t n) in *.
        assert (Hx : 0 < x).
        { rewrite Ex. unfold exceeds in Hex. apply Z.ltb_lt in Hex. apply Rdiv_lt_0_compat; apply IZR_lt; nia. }
        apply Rabs_le_inv in Herr. rewrite (Rabs_pos_eq x) in Herr by lra.
        pose proof u_pos as Hu. pose proof u_tiny as Hut.
        assert (Hn0 : 0 < IZR n <= IZR (2 ^ 31)) by (split; [apply IZR_lt|apply IZR_le]; lia).
        (* X >= x - 8u(x+n) >= -8u n > -1 *)
        assert (HX : -1 < B2R (xt n t (pct r (n * c)))).
        { assert (8 * u * IZR n < 1).
          { apply Rle_lt_trans with (8 * u * IZR (2 ^ 31)); [apply Rmult_le_compat_l; lra|].
            unfold u. change (2 ^ 31)%Z with 2147483648%Z. lra. }
          assert (0 <= x * (1 - 8 * u)) by (apply Rmult_le_pos; lra). lra. }
        pose proof (Zceil_ub (B2R (xt n t (pct r (n * c))))) as HubX. unfold dz.
        assert (-1 < Zceil (B2R (xt n t (pct r (n * c)))))%Z by (apply lt_IZR; simpl; lra). lia.
      * intros _. exact Lo.
      * intros _. exact Su.
    + destruct (res_not_exceeding r c t n Hr1 Hc HC Ht Hn Hex) as [_ [Lo Hi]].
      constructor; [exact Fp|exact Bp|exact Fx| | |intro H; congruence|intro H; congruence].
      * lia.
      * intros _. exact Hi.
Qed.

(* ====================================================================================================== *)
(* the two resources together: statements about the model as scaleNodeGroup calls it                       *)
(* ====================================================================================================== *)
Lemma needed_scale k r c t : (0 < k)%Z -> (0 < c)%Z -> (0 < t)%Z ->
  nodes_needed_exact (k * r) (k * c) t = nodes_needed_exact r c t.
Proof.
  intros Hk Hc Ht. unfold nodes_needed_exact.
  replace (100 * (k * r))%Z with (k * (100 * r))%Z by ring. replace (t * (k * c))%Z with (k * (t * c))%Z by ring.
  apply ceil_div_scale; nia.
Qed.

Lemma exceeds_scale k r C t : (0 < k)%Z -> exceeds (k * r) (k * C) t = exceeds r C t.
Proof.
  intro Hk. unfold exceeds.
  destruct (Z.ltb_spec (t * C) (100 * r)); [apply Z.ltb_lt|apply Z.ltb_ge]; nia.
Qed.

Lemma not_exceeding_needed r c t n : (0 < c)%Z -> (0 < t)%Z -> exceeds r (n * c) t = false -> (nodes_needed_exact r c t <= n)%Z.
Proof.
  intros Hc Ht H. apply nodes_needed_least; try assumption. unfold holds_at. unfold exceeds in H. apply Z.ltb_ge in H. nia.
Qed.

Lemma exceeding_needed r c t n : (0 < c)%Z -> (0 < t)%Z -> exceeds r (n * c) t = true -> (n < nodes_needed_exact r c t)%Z.
Proof.
  intros Hc Ht H. destruct (Z_lt_le_dec n (nodes_needed_exact r c t)) as [L|L]; [exact L|exfalso].
  apply nodes_needed_least in L; try assumption. unfold holds_at in L. unfold exceeds in H. apply Z.ltb_lt in H. nia.
Qed.

Lemma upper_region_lt m : upper_region m = true <-> (8 * m < 9007199254740992)%Z.
Proof. unfold upper_region, two53. apply Z.ltb_lt. Qed.

(* the case analysis over the two resources, on plain integers *)
Lemma two_res_upper (n dc dm Nc Nm : Z) (xc xm : bool) :
  (8 * Z.max Nc Nm < 9007199254740992)%Z -> xc = true \/ xm = true ->
  (xc = true -> n < Nc)%Z -> (xc = false -> Nc <= n)%Z -> (xm = true -> n < Nm)%Z -> (xm = false -> Nm <= n)%Z ->
  (xc = false -> dc <= 1)%Z -> (xm = false -> dm <= 1)%Z ->
  (xc = true -> 8 * Nc < 9007199254740992 -> 0 <= dc /\ n + dc <= Nc + 1)%Z ->
  (xm = true -> 8 * Nm < 9007199254740992 -> 0 <= dm /\ n + dm <= Nm + 1)%Z ->
  (0 <= Z.max dc dm)%Z /\ (n + Z.max dc dm <= Z.max Nc Nm + 1)%Z.
Proof.
  intros Hup Hx C1 C2 M1 M2 Bc Bm Uc Um.
  destruct xc, xm; try (destruct Hx; discriminate).
  - specialize (Uc eq_refl ltac:(lia)). specialize (Um eq_refl ltac:(lia)). lia.
  - specialize (Uc eq_refl ltac:(lia)). specialize (Bm eq_refl). specialize (C1 eq_refl). specialize (M2 eq_refl). lia.
  - specialize (Um eq_refl ltac:(lia)). specialize (Bc eq_refl). specialize (M1 eq_refl). specialize (C2 eq_refl). lia.
Qed.

Lemma two_res_lower (n dc dm Nc Nm : Z) (xc xm : bool) :
  xc = true \/ xm = true ->
  (xc = true -> n < Nc)%Z -> (xc = false -> Nc <= n)%Z -> (xm = true -> n < Nm)%Z -> (xm = false -> Nm <= n)%Z ->
  (xc = true -> Nc <= n + dc)%Z -> (xm = true -> Nm <= n + dm)%Z ->
  (Z.max Nc Nm <= n + Z.max dc dm)%Z.
Proof.
  intros Hx C1 C2 M1 M2 Sc Sm.
  destruct xc, xm; try (destruct Hx; discriminate).
  - specialize (Sc eq_refl). specialize (Sm eq_refl). lia.
  - specialize (Sc eq_refl). specialize (C1 eq_refl). specialize (M2 eq_refl). lia.
  - specialize (Sm eq_refl). specialize (M1 eq_refl). specialize (C2 eq_refl). lia.
Qed.

Section Normal.
  Variable a : arith_in.
  Hypothesis Hnorm : c05_normal a = true.
  Hypothesis Hrng : c05_ranges a = true.

  Let n := a_n a.
  Let t := a_thr a.
  Let rc := a_cpu_req a.
  Let rm := (1000 * a_mem_req a)%Z.
  Let cc := (a_cpu_cap a / n)%Z.
  Let cb := (a_mem_cap a / n)%Z.          (* bytes per node *)
  Let cm := (1000 * cb)%Z.                (* as the code sees it *)

  Lemma normal_sizes :
    (1 <= n <= 2 ^ 31)%Z /\ (1 <= t <= 2 ^ 31)%Z /\ (0 < cc)%Z /\ (0 < cb)%Z
    /\ a_cpu_cap a = (n * cc)%Z /\ (1000 * a_mem_cap a = n * cm)%Z
    /\ (0 <= rc < 2 ^ 63)%Z /\ (0 <= rm < 2 ^ 63)%Z /\ (1 <= n * cc < 2 ^ 63)%Z /\ (1 <= n * cm < 2 ^ 63)%Z
    /\ (0 <= a_mem_req a)%Z.
  Proof.
    destruct (c05_normal_sizes a Hnorm) as [H1 [H2 [H3 [H4 [H5 H6]]]]].
    unfold c05_ranges, in_range63, two63, two31 in Hrng. unfold c05_normal in Hnorm.
    fold n t cc cb in H1, H2, H3, H4, H5, H6. unfold rc, rm, cm.
    change (2 ^ 31)%Z with 2147483648%Z. change (2 ^ 63)%Z with 9223372036854775808%Z.
    repeat split; try lia.
  Qed.

  Lemma normal_m_min : c05_m_min a = Z.max (nodes_needed_exact rc cc t) (nodes_needed_exact rm cm t).
  Proof.
    destruct normal_sizes as [Hn [Ht [Hcc [Hcb _]]]].
    unfold c05_m_min, m_min. fold n t cc cb rc. unfold rm, cm. rewrite needed_scale by lia. reflexivity.
  Qed.

  Lemma normal_exceeds : exceeds rc (n * cc) t = true \/ exceeds rm (n * cm) t = true.
  Proof.
    destruct normal_sizes as [Hn [Ht [Hcc [Hcb [E1 [E2 _]]]]]].
    unfold c05_normal in Hnorm.
    assert (H : exceeds (a_cpu_req a) (a_cpu_cap a) (a_thr a) = true \/ exceeds (a_mem_req a) (a_mem_cap a) (a_thr a) = true).
    { destruct (exceeds (a_cpu_req a) (a_cpu_cap a) (a_thr a)); [now left|right].
      destruct (exceeds (a_mem_req a) (a_mem_cap a) (a_thr a)); [reflexivity|]. rewrite !andb_false_r in Hnorm. discriminate. }
    destruct H as [H|H]; [left; unfold rc, t; rewrite <- E1; exact H|right].
    unfold rm, t. rewrite <- E2. rewrite exceeds_scale by lia. exact H.
  Qed.

  Let dc := dz rc (n * cc) t n.
  Let dm := dz rm (n * cm) t n.

  (* evaluation of the model on the case *)
  Lemma normal_eval :
    (- 2 ^ 62 <= Z.max dc dm <= 2 ^ 62)%Z ->
    arith_percent a = PctOk (pct rc (n * cc)) (pct rm (n * cm))
    /\ arith_delta a (pct rc (n * cc)) (pct rm (n * cm))
       = if (Z.max dc dm <? 0)%Z then DeltaErr (Z.max dc dm) else DeltaOk (Z.max dc dm).
  Proof.
    intro Hd. destruct normal_sizes as [Hn [Ht [Hcc [Hcb [E1 [E2 [Hrc [Hrm [HCc [HCm _]]]]]]]]]].
    destruct (res_facts_hold rc cc t n Hrc Hcc HCc Ht Hn) as [Fc Bc Fxc _ _ _ _].
    assert (Hcm : (0 < cm)%Z) by (unfold cm; lia).
    destruct (res_facts_hold rm cm t n Hrm Hcm HCm Ht Hn) as [Fm Bm Fxm _ _ _ _].
    split.
    - unfold arith_percent. rewrite percent_quotient by (fold n cc cb cm in E1, E2; lia).
      unfold pct. fold rc rm. rewrite E1, E2. reflexivity.
    - unfold arith_delta. fold n t rc rm.
      apply calc_delta_normal; try assumption.
      change (-9223372036854775808 <= Z.max dc dm <= 9223372036854775807)%Z.
      change (2 ^ 62)%Z with 4611686018427387904%Z in Hd. lia.
  Qed.

  Lemma normal_bounds_lower : (- 2 ^ 35 <= Z.max dc dm)%Z.
  Proof.
    destruct normal_sizes as [Hn [Ht [Hcc [Hcb [E1 [E2 [Hrc [Hrm [HCc [HCm _]]]]]]]]]].
    destruct (res_facts_hold rc cc t n Hrc Hcc HCc Ht Hn) as [_ _ _ Lc _ _ _]. fold dc in Lc. lia.
  Qed.

  (* the integer facts about the two ceilings, with everything else abstracted away *)
  Lemma normal_facts :
    let Nc := nodes_needed_exact rc cc t in let Nm := nodes_needed_exact rm cm t in
    let xc := exceeds rc (n * cc) t in let xm := exceeds rm (n * cm) t in
    c05_m_min a = Z.max Nc Nm
    /\ (xc = true \/ xm = true)
    /\ (xc = true -> n < Nc)%Z /\ (xc = false -> Nc <= n)%Z /\ (xm = true -> n < Nm)%Z /\ (xm = false -> Nm <= n)%Z
    /\ (xc = false -> dc <= 1)%Z /\ (xm = false -> dm <= 1)%Z
    /\ (xc = true -> 8 * Nc < 9007199254740992 -> 0 <= dc /\ n + dc <= Nc + 1)%Z
    /\ (xm = true -> 8 * Nm < 9007199254740992 -> 0 <= dm /\ n + dm <= Nm + 1)%Z
    /\ (xc = true -> res_region rc cc = true -> Nc <= n + dc)%Z
    /\ (xm = true -> res_region rm cm = true -> Nm <= n + dm)%Z.
  Proof.
    cbv zeta.
    destruct normal_sizes as [Hn [Ht [Hcc [Hcb [E1 [E2 [Hrc [Hrm [HCc [HCm _]]]]]]]]]].
    assert (Hcm : (0 < cm)%Z) by (unfold cm; lia).
    destruct (res_facts_hold rc cc t n Hrc Hcc HCc Ht Hn) as [_ _ _ _ Bc Uc Sc].
    destruct (res_facts_hold rm cm t n Hrm Hcm HCm Ht Hn) as [_ _ _ _ Bm Um Sm].
    pose proof (exact_delta_spec rc cc t n Hcc ltac:(lia)) as Ec. pose proof (exact_delta_spec rm cm t n Hcm ltac:(lia)) as Em.
    assert (P53 : (2 ^ 53 = 9007199254740992)%Z) by reflexivity. rewrite P53 in Uc, Um. clear P53.
    split; [exact normal_m_min|]. split; [exact normal_exceeds|].
    split; [intro X; exact (exceeding_needed rc cc t n Hcc ltac:(lia) X)|].
    split; [intro X; exact (not_exceeding_needed rc cc t n Hcc ltac:(lia) X)|].
    split; [intro X; exact (exceeding_needed rm cm t n Hcm ltac:(lia) X)|].
    split; [intro X; exact (not_exceeding_needed rm cm t n Hcm ltac:(lia) X)|].
    split; [exact Bc|]. split; [exact Bm|].
    split; [intros X H; specialize (Uc X H); fold dc in Uc; lia|].
    split; [intros X H; specialize (Um X H); fold dm in Um; lia|].
    split; [intros X H; specialize (Sc X H); fold dc in Sc; lia|].
    intros X H; specialize (Sm X H); fold dm in Sm; lia.
  Qed.

  (* at most one more *)
  Lemma normal_at_most_one : (8 * c05_m_min a < 9007199254740992)%Z ->
    (0 <= Z.max dc dm)%Z /\ (n + Z.max dc dm <= c05_m_min a + 1)%Z.
  Proof.
    intro Hup.
    destruct normal_facts as [Em [Hx [C1 [C2 [M1 [M2 [Bc [Bm [Uc [Um _]]]]]]]]]].
    rewrite Em in Hup |- *.
    exact (two_res_upper n dc dm _ _ _ _ Hup Hx C1 C2 M1 M2 Bc Bm Uc Um).
  Qed.

  (* sufficient *)
  Lemma normal_sufficient :
    res_region rc cc = true -> res_region rm cm = true -> (c05_m_min a <= n + Z.max dc dm)%Z.
  Proof.
    intros Rc Rm.
    destruct normal_facts as [Em [Hx [C1 [C2 [M1 [M2 [_ [_ [_ [_ [Sc Sm]]]]]]]]]]].
    rewrite Em.
    exact (two_res_lower n dc dm _ _ _ _ Hx C1 C2 M1 M2 (fun X => Sc X Rc) (fun X => Sm X Rm)).
  Qed.

  (* inside the sufficiency region the minimum is small, so "at most one more" holds there too *)
  Lemma normal_region_upper :
    res_region rc cc = true -> res_region rm cm = true -> (8 * c05_m_min a < 9007199254740992)%Z.
  Proof.
    intros Rc Rm. rewrite normal_m_min.
    destruct normal_sizes as [Hn [Ht [Hcc [Hcb [E1 [E2 [Hrc [Hrm [HCc [HCm _]]]]]]]]]].
    assert (Hcm : (0 < cm)%Z) by (unfold cm; lia).
    assert (G : forall r c, (0 <= r)%Z -> (0 < c)%Z -> res_region r c = true -> (8 * nodes_needed_exact r c t < 9007199254740992)%Z).
    { intros r c Hr Hc R. destruct (Z.eq_dec r 0) as [->|Hnz].
      - assert (nodes_needed_exact 0 c t <= 0)%Z by (apply nodes_needed_least; try lia; unfold holds_at; nia). lia.
      - destruct (res_region_split r c ltac:(lia) Hc R) as [G [r' [c' [HG [Er [Ec H800]]]]]].
        change 9007199254740992%Z with (2 ^ 53)%Z.
        apply (sufficient_region_upper r c t G r' c'); try assumption; try lia; nia. }
    pose proof (G rc cc ltac:(lia) Hcc Rc). pose proof (G rm cm ltac:(lia) Hcm Rm). lia.
  Qed.
End Normal.

Definition model_d (a : arith_in) : Z :=
  Z.max (dz (a_cpu_req a) (a_n a * (a_cpu_cap a / a_n a)) (a_thr a) (a_n a))
        (dz (1000 * a_mem_req a) (a_n a * (1000 * (a_mem_cap a / a_n a))) (a_thr a) (a_n a)).

Lemma model_eval a :
  c05_normal a = true -> c05_ranges a = true -> (8 * c05_m_min a < 9007199254740992)%Z ->
  arith_percent a = PctOk (pct (a_cpu_req a) (a_n a * (a_cpu_cap a / a_n a))) (pct (1000 * a_mem_req a) (a_n a * (1000 * (a_mem_cap a / a_n a))))
  /\ arith_delta a (pct (a_cpu_req a) (a_n a * (a_cpu_cap a / a_n a))) (pct (1000 * a_mem_req a) (a_n a * (1000 * (a_mem_cap a / a_n a))))
     = DeltaOk (model_d a)
  /\ (0 <= model_d a)%Z /\ (a_n a + model_d a <= c05_m_min a + 1)%Z.
Proof.
  intros Hn Hr Hu.
  destruct (normal_at_most_one a Hn Hr Hu) as [P U]. fold (model_d a) in P, U.
  pose proof (normal_bounds_lower a Hn Hr) as L. fold (model_d a) in L.
  destruct (normal_sizes a Hn Hr) as [Hnn _].
  destruct (normal_eval a Hn Hr) as [Ep Ed].
  { fold (model_d a). change (2 ^ 62)%Z with 4611686018427387904%Z. change (2 ^ 31)%Z with 2147483648%Z in Hnn. lia. }
  fold (model_d a) in Ed.
  split; [exact Ep|]. split; [|split; assumption].
  rewrite Ed. destruct (Z.ltb_spec (model_d a) 0); [lia|reflexivity].
Qed.

(* c05_at_most_one_more on the model *)
Theorem model_at_most_one_more a :
  c05_normal a = true -> c05_ranges a = true -> upper_region (c05_m_min a) = true ->
  exists cp mp d, arith_percent a = PctOk cp mp /\ arith_delta a cp mp = DeltaOk d
    /\ (0 <= d)%Z /\ (a_n a + d <= c05_m_min a + 1)%Z.
Proof.
  intros Hn Hr Hu. apply upper_region_lt in Hu.
  destruct (model_eval a Hn Hr Hu) as [Ep [Ed [P U]]].
  eexists _, _, _. split; [exact Ep|]. split; [exact Ed|]. split; assumption.
Qed.

Lemma region_parts a : c05_normal a = true -> c05_region a = true ->
  c05_ranges a = true /\ res_region (a_cpu_req a) (a_cpu_cap a / a_n a) = true
  /\ res_region (1000 * a_mem_req a) (1000 * (a_mem_cap a / a_n a)) = true.
Proof.
  intros Hn Hreg. unfold c05_region in Hreg. rewrite Hn in Hreg.
  apply andb_prop in Hreg. destruct Hreg as [Hreg Rm]. apply andb_prop in Hreg. destruct Hreg as [Hr Rc].
  split; [exact Hr|]. split; [exact Rc|].
  destruct (c05_normal_sizes a Hn) as [H1 [_ [_ [_ [_ H6]]]]].
  replace (1000 * (a_mem_cap a / a_n a))%Z with (1000 * a_mem_cap a / a_n a)%Z; [exact Rm|].
  rewrite H6 at 1. replace (1000 * (a_n a * (a_mem_cap a / a_n a)))%Z with ((1000 * (a_mem_cap a / a_n a)) * a_n a)%Z by ring.
  apply Z.div_mul. lia.
Qed.

(* c05_sufficient_partial on the model: inside the granularity region *)
Theorem model_sufficient a :
  c05_normal a = true -> c05_region a = true ->
  exists cp mp d, arith_percent a = PctOk cp mp /\ arith_delta a cp mp = DeltaOk d
    /\ (c05_m_min a <= a_n a + d <= c05_m_min a + 1)%Z.
Proof.
  intros Hn Hreg. destruct (region_parts a Hn Hreg) as [Hr [Rc Rm]].
  pose proof (normal_region_upper a Hn Hr Rc Rm) as Hu.
  destruct (model_eval a Hn Hr Hu) as [Ep [Ed [P U]]].
  pose proof (normal_sufficient a Hn Hr Rc Rm) as S. fold (model_d a) in S.
  eexists _, _, _. split; [exact Ep|]. split; [exact Ed|]. split; assumption.
Qed.

(* hence the checker can never fail on the model inside the region (V <> [] with R = [] is excluded there) *)
Corollary model_passes_checker a :
  c05_normal a = true -> c05_region a = true ->
  exists cp mp d, arith_percent a = PctOk cp mp /\ arith_delta a cp mp = DeltaOk d /\ check_delta a (Some (d, false)) = true.
Proof.
  intros Hn Hreg. destruct (model_sufficient a Hn Hreg) as [cp [mp [d [Ep [Ed [L U]]]]]].
  exists cp, mp, d. split; [exact Ep|]. split; [exact Ed|].
  unfold check_delta. rewrite Hn. apply andb_true_intro. split; [apply Z.leb_le; exact L|].
  destruct (upper_region (c05_m_min a)); [apply Z.leb_le; exact U|reflexivity].
Qed.

(* ====================================================================================================== *)
(* statements in the form the property files quote                                                        *)
(* ====================================================================================================== *)
(* c05_error_bound: no overflow / underflow, and the computed x (before the ceiling) is within 8 u (|x| + n) of the exact x;
   above the threshold (x >= 0) this is 8 u (x + n) *)
Theorem delta_error_bound r C t n :
  (1 <= r < 2 ^ 63)%Z -> (1 <= C < 2 ^ 63)%Z -> (1 <= t <= 2 ^ 31)%Z -> (1 <= n <= 2 ^ 31)%Z ->
  is_finite (pct r C) = true /\ is_finite (xt n t (pct r C)) = true
  /\ Rabs (B2R (xt n t (pct r C)) - xr r C t n) <= 8 * u * (Rabs (xr r C t n) + IZR n)
  /\ (0 <= xr r C t n -> Rabs (B2R (xt n t (pct r C)) - xr r C t n) <= 8 * u * (xr r C t n + IZR n)).
Proof.
  intros Hr HC Ht Hn. destruct (pct_float r C Hr HC) as [_ [_ [_ [Fp _]]]].
  destruct (xt_error r C t n Hr HC Ht Hn) as [Fx [E _]].
  repeat split; try assumption. intro Hx. rewrite (Rabs_pos_eq (xr r C t n)) in E by exact Hx. exact E.
Qed.

(* the exactly-representable sub-case (r, C < 2^53: the conversions are exact) costs one rounding less *)
Lemma theta_bound_small e3 e4 : Rabs e3 <= u -> Rabs e4 <= u -> Rabs ((1 + e3) * (1 + e4) - 1) <= 21/10 * u.
Proof.
  intros H3 H4. pose proof u_pos.
  assert (A : Rabs ((1 + e3) * (1 + e4) - 1) <= (1 + 1 + / 1000) * u) by (apply compose_err; lra). lra.
Qed.

(* calcPercentUsage with non-zero capacities is the pair of quotients *)
Lemma calc_percent_pct cpuReq memReq cpuCap memCap n : cpuCap <> 0%Z -> memCap <> 0%Z ->
  calc_percent cpuReq memReq cpuCap memCap n = PctOk (pct cpuReq cpuCap) (pct memReq memCap).
Proof. intros; unfold pct; now apply percent_quotient. Qed.

(* ---------- the exact-rational reading of a float view is its real value ---------- *)
Lemma view_value (x : f64) a b : view_num_den (f_view x) = Some (a, b) -> (0 < b)%Z /\ B2R x = IZR a / IZR b.
Proof.
  destruct x as [s|s| |s m e He]; simpl; intro H; try discriminate.
  - injection H as <- <-. split; [lia|]. simpl. lra.
  - destruct (Z.leb_spec 0 e) as [Le|Le]; injection H as <- <-.
    + split; [lia|]. unfold F2R. simpl Fnum. simpl Fexp. rewrite mult_IZR, <- (IZR_Zpower radix2) by exact Le.
      change (radix_val radix2) with 2%Z. destruct s; simpl cond_Zopp; field.
    + assert (P : (0 < 2 ^ (- e))%Z) by (apply Z.pow_pos_nonneg; lia). split; [exact P|].
      unfold F2R. simpl Fnum. simpl Fexp.
      replace (IZR (2 ^ (- e))) with (bpow radix2 (- e)) by (rewrite <- IZR_Zpower by lia; reflexivity).
      rewrite bpow_opp. assert (bpow radix2 e <> 0) by (apply Rgt_not_eq, bpow_gt_0).
      destruct s; simpl cond_Zopp; field; assumption.
Qed.

Lemma finite_view (x : f64) : is_finite x = true -> exists a b, view_num_den (f_view x) = Some (a, b).
Proof.
  destruct x as [s|s| |s m e He]; simpl; intro H; try discriminate.
  - eexists _, _; reflexivity.
  - destruct (0 <=? e)%Z; eexists _, _; reflexivity.
Qed.

(* the model's percentage passes the observed-value checker (so a failure of the checker with R = [] is impossible) *)
Lemma pct_close_model r C : (1 <= r < 2 ^ 63)%Z -> (1 <= C < 2 ^ 63)%Z -> pct_close (f_view (pct r C)) r C = true.
Proof.
  intros Hr HC. destruct (pct_error r C Hr HC) as [Fp [_ E]].
  destruct (finite_view _ Fp) as [a [b V]]. destruct (view_value _ _ _ V) as [Hb Ev].
  unfold pct_close. rewrite V. apply Z.leb_le. unfold two53.
  rewrite Ev in E.
  assert (Rb : 0 < IZR b) by (apply IZR_lt; exact Hb).
  assert (RC : 0 < IZR C) by (apply IZR_lt; lia). assert (Rr : 0 < IZR r) by (apply IZR_lt; lia).
  (* multiply |a/b - 100 r/C| <= 5 u 100 r / C by b C 2^53 *)
  apply le_IZR. rewrite !mult_IZR, abs_IZR, minus_IZR, !mult_IZR.
  replace (IZR a / IZR b - 100 * IZR r / IZR C) with ((IZR a * IZR C - 100 * IZR r * IZR b) / (IZR b * IZR C)) in E by (field; lra).
  unfold Rdiv in E at 1. rewrite Rabs_mult, (Rabs_pos_eq (/ (IZR b * IZR C))) in E
    by (apply Rlt_le, Rinv_0_lt_compat, Rmult_lt_0_compat; assumption).
  assert (E' : Rabs (IZR a * IZR C - 100 * IZR r * IZR b) <= 5 * u * (100 * IZR r / IZR C) * (IZR b * IZR C)).
  { apply Rmult_le_reg_r with (/ (IZR b * IZR C)); [apply Rinv_0_lt_compat, Rmult_lt_0_compat; assumption|].
    eapply Rle_trans; [exact E|]. right. field. split; lra. }
  replace (5 * u * (100 * IZR r / IZR C) * (IZR b * IZR C)) with (u * (500 * IZR r * IZR b)) in E' by (field; lra).
  apply Rle_trans with (u * (500 * IZR r * IZR b) * 9007199254740992).
  - apply Rmult_le_compat_r; [lra|exact E'].
  - right. unfold u. field.
Qed.

(* ====================================================================================================== *)
(* scale-up from zero with a cached node size: ceil (r / c / t * 100)                                      *)
(* ====================================================================================================== *)
Definition x0 (r c t : Z) : f64 := fmul (fdiv (fdiv (of_Z r) (of_Z c)) (of_Z t)) f100.
Definition dz0 (r c t : Z) : Z := Zceil (B2R (x0 r c t)).

Lemma theta5_bound e1 e2 e3 e4 e5 :
  Rabs e1 <= u -> Rabs e2 <= u -> Rabs e3 <= u -> Rabs e4 <= u -> Rabs e5 <= u ->
  Rabs ((1+e1)*(1+e3)*(1+e4)*(1+e5)/(1+e2) - 1) <= 51/10 * u.
Proof.
  intros H1 H2 H3 H4 H5. pose proof u_pos as Hu.
  set (A := (1 + e1) * (1 + e3) - 1).
  assert (HA : Rabs A <= (1 + 1 + / 1000) * u) by (apply compose_err; lra).
  set (B := (1 + A) * (1 + e4) - 1).
  assert (HB : Rabs B <= ((1 + 1 + / 1000) + 1 + / 1000) * u) by (apply compose_err; lra).
  set (C := (1 + B) * (1 + e5) - 1).
  assert (HC : Rabs C <= (((1 + 1 + / 1000) + 1 + / 1000) + 1 + / 1000) * u) by (apply compose_err; lra).
  pose proof (inv_err e2 H2) as HI.
  assert (HD : Rabs ((1 + C) * (1 + (/ (1 + e2) - 1)) - 1) <= ((((1 + 1 + / 1000) + 1 + / 1000) + 1 + / 1000) + (1 + / 1000) + / 1000) * u)
    by (apply compose_err; lra).
  replace ((1+e1)*(1+e3)*(1+e4)*(1+e5)/(1+e2) - 1) with ((1 + C) * (1 + (/ (1 + e2) - 1)) - 1) by (unfold C, B, A, Rdiv; ring).
  eapply Rle_trans; [exact HD|]. lra.
Qed.

Lemma x0_float r c t : (1 <= r < 2 ^ 63)%Z -> (1 <= c < 2 ^ 63)%Z -> (1 <= t <= 2 ^ 31)%Z ->
  exists th, Rabs th <= 51/10 * u /\ B2R (x0 r c t) = 100 * IZR r / (IZR t * IZR c) * (1 + th) /\ is_finite (x0 r c t) = true.
Proof.
  intros Hr Hc Ht.
  destruct (of_Z_rel r ltac:(lia)) as [e1 [He1 [Ea Fa]]].
  destruct (of_Z_rel c ltac:(lia)) as [e2 [He2 [Eb Fb]]].
  destruct (of_Z_exact t ltac:(lia)) as [Et Ft].
  pose proof (within_IZR r 63 Hr ltac:(lia)) as Wr. pose proof (within_IZR c 63 Hc ltac:(lia)) as Wc.
  assert (Wt : within 0 32 (IZR t)) by (apply within_IZR; lia).
  assert (Wa : within (-1) 64 (B2R (of_Z r))) by (rewrite Ea; eapply within_mul'; [exact Wr|apply within_eps, He1|lia|lia]).
  assert (Wb : within (-1) 64 (B2R (of_Z c))) by (rewrite Eb; eapply within_mul'; [exact Wc|apply within_eps, He2|lia|lia]).
  assert (Wq0 : within (-65) 65 (B2R (of_Z r) / B2R (of_Z c))) by (eapply within_div'; [exact Wa|exact Wb|lia|lia]).
  assert (Hb0 : B2R (of_Z c) <> 0) by (apply Rgt_not_eq, (within_pos _ _ _ Wb)).
  destruct (within_abs _ _ _ Wq0 ltac:(lia) ltac:(lia)) as [Q1 Q2].
  destruct (fdiv_rel (of_Z r) (of_Z c) Fa Fb Hb0 (or_intror Q1) Q2) as [e3 [He3 [Eq Fq]]].
  assert (Wq : within (-66) 66 (B2R (fdiv (of_Z r) (of_Z c)))) by (rewrite Eq; eapply within_mul'; [exact Wq0|apply within_eps, He3|lia|lia]).
  assert (Ht0 : B2R (of_Z t) <> 0) by (rewrite Et; apply Rgt_not_eq, (within_pos _ _ _ Wt)).
  assert (Ww0 : within (-98) 66 (B2R (fdiv (of_Z r) (of_Z c)) / B2R (of_Z t))) by (rewrite Et; eapply within_div'; [exact Wq|exact Wt|lia|lia]).
  destruct (within_abs _ _ _ Ww0 ltac:(lia) ltac:(lia)) as [W1 W2].
  destruct (fdiv_rel _ (of_Z t) Fq Ft Ht0 (or_intror W1) W2) as [e4 [He4 [Ew Fw]]].
  assert (Ww : within (-99) 67 (B2R (fdiv (fdiv (of_Z r) (of_Z c)) (of_Z t)))) by (rewrite Ew; eapply within_mul'; [exact Ww0|apply within_eps, He4|lia|lia]).
  destruct f100_val as [E100 F100].
  assert (W100 : within 6 7 (B2R f100)) by (rewrite E100; unfold within; simpl; lra).
  assert (Wm0 : within (-93) 74 (B2R (fdiv (fdiv (of_Z r) (of_Z c)) (of_Z t)) * B2R f100)) by (eapply within_mul'; [exact Ww|exact W100|lia|lia]).
  destruct (within_abs _ _ _ Wm0 ltac:(lia) ltac:(lia)) as [M1 M2].
  destruct (fmul_rel _ _ Fw F100 (or_intror M1) M2) as [e5 [He5 [Ex Fx]]].
  fold (x0 r c t) in Ex, Fx.
  exists ((1+e1)*(1+e3)*(1+e4)*(1+e5)/(1+e2) - 1). split; [now apply theta5_bound|]. split; [|exact Fx].
  rewrite Ex, Ew, Eq, Ea, Eb, Et, E100.
  assert (IZR c <> 0) by (apply Rgt_not_eq, (within_pos _ _ _ Wc)).
  assert (IZR t <> 0) by (apply Rgt_not_eq, (within_pos _ _ _ Wt)).
  assert (1 + e2 <> 0) by (apply Rgt_not_eq, (within_pos _ _ _ (within_eps _ He2))).
  field. repeat split; assumption.
Qed.

Lemma x0_zero c t : (1 <= c < 2 ^ 63)%Z -> (1 <= t <= 2 ^ 31)%Z -> B2R (x0 0 c t) = 0 /\ is_finite (x0 0 c t) = true.
Proof.
  intros Hc Ht.
  destruct (of_Z_exact 0 ltac:(lia)) as [Ea Fa].
  destruct (of_Z_rel c ltac:(lia)) as [e2 [He2 [Eb Fb]]].
  destruct (of_Z_exact t ltac:(lia)) as [Et Ft].
  assert (Wb : within (-1) 64 (B2R (of_Z c))) by (rewrite Eb; eapply within_mul'; [exact (within_IZR c 63 Hc ltac:(lia))|apply within_eps, He2|lia|lia]).
  assert (Hb0 : B2R (of_Z c) <> 0) by (apply Rgt_not_eq, (within_pos _ _ _ Wb)).
  assert (Ht0 : B2R (of_Z t) <> 0) by (rewrite Et; apply Rgt_not_eq, IZR_lt; lia).
  destruct (fdiv_rel (of_Z 0) (of_Z c) Fa Fb Hb0) as [e3 [He3 [Eq Fq]]].
  { left; exact Ea. } { rewrite Ea. unfold Rdiv. rewrite Rmult_0_l, Rabs_R0. apply bpow_ge_0. }
  assert (Zq : B2R (fdiv (of_Z 0) (of_Z c)) = 0) by (rewrite Eq, Ea; unfold Rdiv; ring).
  destruct (fdiv_rel _ (of_Z t) Fq Ft Ht0) as [e4 [He4 [Ew Fw]]].
  { left; exact Zq. } { rewrite Zq. unfold Rdiv. rewrite Rmult_0_l, Rabs_R0. apply bpow_ge_0. }
  assert (Zw : B2R (fdiv (fdiv (of_Z 0) (of_Z c)) (of_Z t)) = 0) by (rewrite Ew, Zq; unfold Rdiv; ring).
  destruct f100_val as [E100 F100].
  destruct (fmul_rel _ _ Fw F100) as [e5 [He5 [Ex Fx]]].
  { left. rewrite Zw. ring. } { rewrite Zw, Rmult_0_l, Rabs_R0. apply bpow_ge_0. }
  split; [|exact Fx]. unfold x0. rewrite Ex, Zw. ring.
Qed.

Lemma Zceil_needed r c t : (0 < c)%Z -> (0 < t)%Z -> Zceil (100 * IZR r / (IZR t * IZR c)) = nodes_needed_exact r c t.
Proof.
  intros Hc Ht. unfold nodes_needed_exact. rewrite <- Zceil_div by nia. f_equal. rewrite !mult_IZR. reflexivity.
Qed.

Record res0_facts (r c t : Z) : Prop := {
  r0_finite : is_finite (x0 r c t) = true;
  r0_nonneg : (0 <= dz0 r c t)%Z;
  r0_upper : (8 * nodes_needed_exact r c t < 2 ^ 53)%Z -> (dz0 r c t <= nodes_needed_exact r c t + 1)%Z;
  r0_suff : res_region r c = true -> (nodes_needed_exact r c t <= dz0 r c t)%Z
}.

Lemma res0_facts_hold r c t : (0 <= r < 2 ^ 63)%Z -> (1 <= c < 2 ^ 63)%Z -> (1 <= t <= 2 ^ 31)%Z -> res0_facts r c t.
Proof.
  intros Hr Hc Ht. destruct (Z.eq_dec r 0) as [->|Hnz].
  - destruct (x0_zero c t Hc Ht) as [Zx Fx].
    assert (N0 : nodes_needed_exact 0 c t = 0%Z).
    { apply Z.le_antisymm; [apply nodes_needed_least; try lia; unfold holds_at; nia|].
      destruct (Z_lt_le_dec (nodes_needed_exact 0 c t) 0) as [L|L]; [exfalso|exact L].
      assert (G : (nodes_needed_exact 0 c t <= -1)%Z) by lia.
      apply (nodes_needed_least 0 c t (-1)) in G; try lia. unfold holds_at in G. nia. }
    assert (D0 : dz0 0 c t = 0%Z) by (unfold dz0; rewrite Zx; apply (Zceil_IZR 0)).
    constructor; [exact Fx|lia|intros _; lia|intros _; lia].
  - assert (Hr1 : (1 <= r < 2 ^ 63)%Z) by lia.
    destruct (x0_float r c t Hr1 Hc Ht) as [th [Hth [Ex Fx]]].
    pose proof (Zceil_needed r c t ltac:(lia) ltac:(lia)) as EN.
    set (y := 100 * IZR r / (IZR t * IZR c)) in *.
    assert (Rr : 0 < IZR r) by (apply IZR_lt; lia). assert (Rc : 0 < IZR c) by (apply IZR_lt; lia). assert (Rt : 0 < IZR t) by (apply IZR_lt; lia).
    assert (Hy : 0 < y) by (unfold y; apply Rdiv_lt_0_compat; [lra|apply Rmult_lt_0_compat; assumption]).
    pose proof u_pos as Hu. pose proof u_tiny as Hut. pose proof u_two53 as Hu53.
    apply Rabs_le_inv in Hth.
    pose proof (Zceil_ub y) as Huby. rewrite EN in Huby.
    constructor.
    + exact Fx.
    + unfold dz0. rewrite Ex. pose proof (Zceil_ub (y * (1 + th))) as H.
      assert (0 < y * (1 + th)) by (apply Rmult_lt_0_compat; lra).
      assert (0 < Zceil (y * (1 + th)))%Z by (apply lt_IZR; lra). lia.
    + intro Hm. unfold dz0. rewrite Ex. apply Zceil_glb. rewrite plus_IZR. simpl (IZR 1).
      assert (H8 : 8 * IZR (nodes_needed_exact r c t) < IZR (2 ^ 53)) by (rewrite <- (mult_IZR 8); apply IZR_lt; exact Hm).
      assert (Hs : y * (51 / 10 * u) < 1).
      { apply Rle_lt_trans with (u * (8 * IZR (nodes_needed_exact r c t))); [nra|].
        rewrite <- Hu53. apply Rmult_lt_compat_l; lra. }
      nra.
    + intro Hreg. destruct (res_region_split r c ltac:(lia) ltac:(lia) Hreg) as [G [r' [c' [HG [Er [Ec H800]]]]]].
      assert (Hc' : (0 < c')%Z) by nia. assert (Hr' : (0 < r')%Z) by nia.
      set (A := (100 * r')%Z). set (B := (t * c')%Z). assert (HB : (0 < B)%Z) by (unfold B; nia).
      assert (EN' : nodes_needed_exact r c t = ceil_div A B).
      { unfold nodes_needed_exact. rewrite Er, Ec. unfold A, B.
        replace (100 * (G * r'))%Z with (G * (100 * r'))%Z by ring. replace (t * (G * c'))%Z with (G * (t * c'))%Z by ring.
        apply ceil_div_scale; assumption. }
      assert (Br : 0 < IZR B) by (apply IZR_lt; exact HB). assert (Gr : 0 < IZR G) by (apply IZR_lt; exact HG).
      assert (yB : y * IZR B = IZR A).
      { unfold y, A, B. rewrite Er, Ec, !mult_IZR.
        assert (IZR c' <> 0) by (apply IZR_neq; lia). field. repeat split; lra. }
      set (k := (ceil_div A B - 1)%Z).
      assert (Hk : IZR k * IZR B + 1 <= IZR A).
      { pose proof (ceil_div_lower A B HB) as L. fold k in L. rewrite <- mult_IZR, <- (plus_IZR _ 1). apply IZR_le. lia. }
      assert (Hsm : 51 / 10 * u * IZR A < 1).
      { unfold A. rewrite mult_IZR. assert (Rr' : 0 < IZR r') by (apply IZR_lt; exact Hr').
        assert (0 <= u * IZR r') by (apply Rmult_le_pos; lra).
        apply Rle_lt_trans with (u * (800 * IZR r')); [nra|].
        rewrite <- Hu53. apply Rmult_lt_compat_l; [lra|]. rewrite <- (mult_IZR 800). apply IZR_lt. exact H800. }
      assert (HkX : IZR k < y * (1 + th)).
      { apply Rmult_lt_reg_r with (IZR B); [exact Br|].
        replace (y * (1 + th) * IZR B) with (y * IZR B * (1 + th)) by ring. rewrite yB.
        assert (0 < IZR A) by (rewrite <- yB; apply Rmult_lt_0_compat; assumption). nra. }
      unfold dz0. rewrite Ex, EN'. pose proof (Zceil_ub (y * (1 + th))) as HubX.
      assert (k < Zceil (y * (1 + th)))%Z by (apply lt_IZR; lra). unfold k in *. lia.
Qed.

Lemma calc_delta_from_zero n cp mp cpuReq memReq t ccpu cmem :
  feq cp f_max = true \/ feq mp f_max = true -> q_num ccpu <> 0%Z -> q_num cmem <> 0%Z ->
  is_finite (x0 cpuReq (q_milli ccpu) t) = true -> is_finite (x0 memReq (q_milli cmem) t) = true ->
  let dc := dz0 cpuReq (q_milli ccpu) t in let dm := dz0 memReq (q_milli cmem) t in
  (-9223372036854775808 <= Z.max dc dm <= 9223372036854775807)%Z ->
  calc_delta n cp mp cpuReq memReq t ccpu cmem
  = if (Z.max dc dm <? 0)%Z then DeltaErr (Z.max dc dm) else DeltaOk (Z.max dc dm).
Proof.
  intros Hf Hc Hm Fc Fm dc dm Hd. unfold calc_delta.
  assert (E : feq cp f_max || feq mp f_max = true) by (destruct Hf as [H|H]; rewrite H; [reflexivity|apply orb_true_r]).
  rewrite E.
  assert (Z : (q_num ccpu =? 0)%Z || (q_num cmem =? 0)%Z = false).
  { apply orb_false_intro; apply Z.eqb_neq; assumption. }
  rewrite Z. fold (x0 cpuReq (q_milli ccpu) t). fold (x0 memReq (q_milli cmem) t).
  destruct (fceil_correct (x0 cpuReq (q_milli ccpu) t)) as [Ec Gc]. destruct (fceil_correct (x0 memReq (q_milli cmem) t)) as [Em Gm].
  rewrite Fc in Gc. rewrite Fm in Gm.
  destruct (fmax_correct _ _ Gc Gm) as [EM FM]. rewrite Ec, Em, Rmax_IZR in EM.
  change (Zceil (B2R (x0 cpuReq (q_milli ccpu) t))) with dc in EM. change (Zceil (B2R (x0 memReq (q_milli cmem) t))) with dm in EM.
  rewrite (to_int_correct _ (Z.max dc dm) FM EM Hd). reflexivity.
Qed.

Lemma q_milli_cached_cpu c : (0 < c)%Z -> q_milli {| q_num := c; q_den := 1000 |} = c.
Proof.
  intro H. unfold q_milli, div_away. simpl q_num. simpl q_den.
  destruct (Z.leb_spec 0 (1000 * c)); [|lia].
  replace (1000 * c + 1000 - 1)%Z with (c * 1000 + 999)%Z by ring.
  rewrite Z.div_add_l by lia. change (999 / 1000)%Z with 0%Z. lia.
Qed.

Lemma q_milli_cached_mem c : (0 < c)%Z -> q_milli {| q_num := c; q_den := 1 |} = (1000 * c)%Z.
Proof.
  intro H. unfold q_milli, div_away. simpl q_num. simpl q_den.
  destruct (Z.leb_spec 0 (1000 * c)); [|lia].
  replace (1000 * c + 1 - 1)%Z with (1000 * c)%Z by ring. apply Z.div_1_r.
Qed.

Definition c05_zero_ranges (a : arith_in) : bool :=
  in_range63 0 (a_cpu_req a) && in_range63 0 (1000 * a_mem_req a)
  && in_range63 1 (a_ccpu a) && in_range63 1 (1000 * a_cmem a)
  && (1 <=? a_thr a)%Z && (a_thr a <=? two31)%Z.

Definition zero_d (a : arith_in) : Z :=
  Z.max (dz0 (a_cpu_req a) (a_ccpu a) (a_thr a)) (dz0 (1000 * a_mem_req a) (1000 * a_cmem a) (a_thr a)).

Lemma m_zero_milli a : (0 < a_cmem a)%Z -> (0 < a_thr a)%Z ->
  c05_m_zero a = Z.max (nodes_needed_exact (a_cpu_req a) (a_ccpu a) (a_thr a))
                       (nodes_needed_exact (1000 * a_mem_req a) (1000 * a_cmem a) (a_thr a)).
Proof. intros Hc Ht. unfold c05_m_zero, m_min. rewrite needed_scale by lia. reflexivity. Qed.

(* from zero with a cached node size, on the model *)
Theorem model_from_zero a :
  c05_from_zero a = true -> c05_zero_ranges a = true -> (8 * c05_m_zero a < 9007199254740992)%Z ->
  arith_percent a = PctOk f_max f_max
  /\ arith_delta a f_max f_max = DeltaOk (zero_d a)
  /\ (0 <= zero_d a <= c05_m_zero a + 1)%Z
  /\ (res_region (a_cpu_req a) (a_ccpu a) = true -> res_region (1000 * a_mem_req a) (1000 * a_cmem a) = true ->
      (c05_m_zero a <= zero_d a)%Z).
Proof.
  intros Hz Hr Hu.
  unfold c05_zero_ranges, in_range63, two63, two31 in Hr.
  assert (R : (0 <= a_cpu_req a < 2 ^ 63)%Z /\ (0 <= 1000 * a_mem_req a < 2 ^ 63)%Z /\ (1 <= a_ccpu a < 2 ^ 63)%Z
              /\ (1 <= 1000 * a_cmem a < 2 ^ 63)%Z /\ (1 <= a_thr a <= 2 ^ 31)%Z).
  { change (2 ^ 63)%Z with 9223372036854775808%Z. change (2 ^ 31)%Z with 2147483648%Z. repeat split; lia. }
  clear Hr. destruct R as [Rc [Rm [Cc [Cm Ht]]]].
  assert (Hcm : (0 < a_cmem a)%Z) by lia.
  rewrite (m_zero_milli a Hcm ltac:(lia)) in *.
  destruct (res0_facts_hold _ _ _ Rc Cc Ht) as [Fc Nc Uc Sc]. destruct (res0_facts_hold _ _ _ Rm Cm Ht) as [Fm Nm Um Sm].
  assert (P53 : (2 ^ 53 = 9007199254740992)%Z) by reflexivity. rewrite P53 in Uc, Um. clear P53.
  fold (zero_d a).
  assert (Hn0 : a_n a = 0%Z /\ (a_cpu_cap a = 0 \/ 1000 * a_mem_cap a = 0)%Z
                /\ ~ (a_cpu_req a = 0 /\ 1000 * a_mem_req a = 0 /\ a_cpu_cap a = 0 /\ 1000 * a_mem_cap a = 0)%Z).
  { unfold c05_from_zero in Hz. repeat split; lia. }
  destruct Hn0 as [En [Hcap Hnz]].
  split.
  - unfold arith_percent. rewrite En. apply percent_zero_capacity_no_nodes; assumption.
  - assert (B : (0 <= zero_d a <= Z.max (nodes_needed_exact (a_cpu_req a) (a_ccpu a) (a_thr a))
                                         (nodes_needed_exact (1000 * a_mem_req a) (1000 * a_cmem a) (a_thr a)) + 1)%Z).
    { unfold zero_d. specialize (Uc ltac:(lia)). specialize (Um ltac:(lia)). lia. }
    split; [|split; [exact B|]].
    + unfold arith_delta.
      rewrite (calc_delta_from_zero (a_n a) f_max f_max (a_cpu_req a) (1000 * a_mem_req a) (a_thr a)
                 {| q_num := a_ccpu a; q_den := 1000 |} {| q_num := a_cmem a; q_den := 1 |}).
      * rewrite q_milli_cached_cpu, q_milli_cached_mem by lia. fold (zero_d a).
        destruct (Z.ltb_spec (zero_d a) 0); [lia|reflexivity].
      * left. exact feq_max_max.
      * simpl; lia.
      * simpl; lia.
      * rewrite q_milli_cached_cpu by lia. exact Fc.
      * rewrite q_milli_cached_mem by lia. exact Fm.
      * rewrite q_milli_cached_cpu, q_milli_cached_mem by lia. fold (zero_d a). lia.
    + intros R1 R2. specialize (Sc R1). specialize (Sm R2). unfold zero_d. lia.
Qed.

Lemma region_needed_small r c t : (0 <= r)%Z -> (0 < c)%Z -> (0 < t)%Z -> res_region r c = true ->
  (8 * nodes_needed_exact r c t < 9007199254740992)%Z.
Proof.
  intros Hr Hc Ht R. destruct (Z.eq_dec r 0) as [->|Hnz].
  - assert (nodes_needed_exact 0 c t <= 0)%Z by (apply nodes_needed_least; try lia; unfold holds_at; nia). lia.
  - destruct (res_region_split r c ltac:(lia) Hc R) as [G [r' [c' [HG [Er [Ec H800]]]]]].
    change 9007199254740992%Z with (2 ^ 53)%Z.
    apply (sufficient_region_upper r c t G r' c'); try assumption; try lia; nia.
Qed.

(* from zero inside the region: sufficient and at most one more *)
Theorem model_from_zero_region a :
  c05_from_zero a = true -> c05_cached a = true -> c05_region a = true ->
  arith_percent a = PctOk f_max f_max /\ arith_delta a f_max f_max = DeltaOk (zero_d a)
  /\ (c05_m_zero a <= zero_d a <= c05_m_zero a + 1)%Z.
Proof.
  intros Hz Hc Hreg.
  assert (Hnn : c05_normal a = false).
  { unfold c05_from_zero in Hz. unfold c05_normal. destruct (0 <? a_n a)%Z eqn:E; [lia|reflexivity]. }
  unfold c05_region in Hreg. rewrite Hnn, Hz, Hc in Hreg. change (true && true) with true in Hreg. cbv iota in Hreg.
  apply andb_prop in Hreg. destruct Hreg as [Hreg Rm]. apply andb_prop in Hreg. destruct Hreg as [Hr Rc].
  assert (Hr' : c05_zero_ranges a = true) by exact Hr.
  unfold c05_zero_ranges, in_range63, two63, two31 in Hr.
  assert (Hcm : (0 < a_cmem a)%Z) by lia. assert (Ht : (0 < a_thr a)%Z) by lia.
  assert (Hu : (8 * c05_m_zero a < 9007199254740992)%Z).
  { rewrite (m_zero_milli a Hcm Ht).
    pose proof (region_needed_small (a_cpu_req a) (a_ccpu a) (a_thr a) ltac:(lia) ltac:(lia) Ht Rc).
    pose proof (region_needed_small (1000 * a_mem_req a) (1000 * a_cmem a) (a_thr a) ltac:(lia) ltac:(lia) Ht Rm). lia. }
  destruct (model_from_zero a Hz Hr' Hu) as [Ep [Ed [B S]]].
  split; [exact Ep|]. split; [exact Ed|]. specialize (S Rc Rm). lia.
Qed.
