(* ScanTaint.v — the taint loop (taintOldestN) and the untaint loop (untaintNewestN) as runs of per-node outcomes,
   and the theorems built on them: C03 (taint bound), C08 (oldest first), C07 (reuse before buying), C06 (bands). *)
From Esc Require Import SpecScan SpecAws proofs.BaseProofs proofs.AwsProofs proofs.ScanLemmas proofs.ScanChecks proofs.ScanState.
From Coq Require Import Permutation Sorted.

(* ---------- outcome of one AddToBeRemovedTaint ---------- *)
Inductive toutcome := TWrote | TAlready | TFailed.

Definition taint_outcome (api : list node) (o : korc) (name : id) : toutcome :=
  match api_get api o name with
  | None => TFailed
  | Some u => if has_esc u then TAlready else if mem_id name (ko_update_fail o) then TFailed else TWrote
  end.

Definition oc_counts (oc : toutcome) : bool := match oc with TFailed => false | _ => true end.

Fixpoint tl_run (api : list node) (o : korc) (l : list node) (n count : Z) : list (node * toutcome) :=
  match l with
  | [] => []
  | x :: rest =>
    if n <=? count then []
    else let oc := taint_outcome api o (n_name x) in
         (x, oc) :: tl_run api o rest n (if oc_counts oc then count + 1 else count)
  end.

Lemma taint_loop_run e o l : forall n count tr,
  fst (fst (taint_loop e o false l n count tr)) =
    concat (map (fun p => fst (add_taint (e_api e) (e_korc e) (now_sec e) (o_effect o) (n_name (fst p)))) (tl_run (e_api e) (e_korc e) l n count))
  /\ snd (fst (taint_loop e o false l n count tr)) = count + zlen (filter (fun p => oc_counts (snd p)) (tl_run (e_api e) (e_korc e) l n count)).
Proof.
  induction l as [|x l IH]; intros n count tr; simpl; [unfold zlen; simpl; split; [reflexivity | lia]|].
  destruct (n <=? count); [unfold zlen; simpl; split; [reflexivity | lia]|].
  assert (Hok : snd (add_taint (e_api e) (e_korc e) (now_sec e) (o_effect o) (n_name x)) = oc_counts (taint_outcome (e_api e) (e_korc e) (n_name x))).
  { unfold add_taint, taint_outcome. destruct (api_get (e_api e) (e_korc e) (n_name x)) as [u|]; [|reflexivity].
    destruct (has_esc u); [reflexivity|]. destruct (mem_id (n_name x) (ko_update_fail (e_korc e))); reflexivity. }
  destruct (add_taint (e_api e) (e_korc e) (now_sec e) (o_effect o) (n_name x)) as [calls ok] eqn:Ea. simpl in Hok. subst ok.
  specialize (IH n (if oc_counts (taint_outcome (e_api e) (e_korc e) (n_name x)) then count + 1 else count) tr).
  destruct (taint_loop e o false l n _ tr) as [[calls' c'] t']. simpl in IH. destruct IH as [IH1 IH2]. simpl.
  split; [rewrite IH1; simpl; rewrite Ea; reflexivity|]. rewrite IH2.
  destruct (oc_counts (taint_outcome (e_api e) (e_korc e) (n_name x))); simpl; rewrite ?zlen_cons; lia.
Qed.

(* the run processes a prefix of the list and stops after n successes *)
Lemma tl_run_prefix api o l : forall n count, exists k, map fst (tl_run api o l n count) = firstn k l.
Proof.
  induction l as [|x l IH]; intros n count; simpl; [exists 0%nat; reflexivity|].
  destruct (n <=? count); [exists 0%nat; reflexivity|].
  destruct (IH n (if oc_counts (taint_outcome api o (n_name x)) then count + 1 else count)) as [k Hk]. exists (S k). simpl. rewrite Hk. reflexivity.
Qed.

Lemma tl_run_successes api o l : forall n count,
  zlen (filter (fun p => oc_counts (snd p)) (tl_run api o l n count)) <= Z.max 0 (n - count).
Proof.
  induction l as [|x l IH]; intros n count; simpl; [unfold zlen; simpl; lia|].
  destruct (n <=? count) eqn:E; [unfold zlen; simpl; lia|]. apply Z.leb_gt in E.
  simpl. destruct (oc_counts (taint_outcome api o (n_name x))); simpl; rewrite ?zlen_cons.
  - specialize (IH n (count + 1)). lia.
  - specialize (IH n count). lia.
Qed.

(* with nothing failing the run stops only at n successes or at the end of the list *)
Lemma tl_run_all_count api o l : forall n count,
  (forall x, In x l -> oc_counts (taint_outcome api o (n_name x)) = true) -> count <= n ->
  zlen (tl_run api o l n count) = Z.min (n - count) (zlen l).
Proof.
  induction l as [|x l IH]; intros n count H Hc; simpl; [unfold zlen; simpl; lia|].
  destruct (n <=? count) eqn:E; [apply Z.leb_le in E; unfold zlen; simpl length; lia|]. apply Z.leb_gt in E.
  rewrite (H x (or_introl eq_refl)). rewrite !zlen_cons. rewrite IH; [lia | intros y Hy; apply H; right; exact Hy | lia].
Qed.

(* ---------- projections of the run's journal ---------- *)
Section Proj.
  Variable x : gctx.
  Let api := e_api (x_env x).
  Let o := e_korc (x_env x).
  Let tc (p : node * toutcome) := fst (add_taint api o (now_sec (x_env x)) (o_effect (x_opts x)) (n_name (fst p))).

  Lemma taint_ok_targets_app a b : taint_ok_targets x (a ++ b) = taint_ok_targets x a ++ taint_ok_targets x b.
  Proof. unfold taint_ok_targets. rewrite map_app, concat_app. reflexivity. Qed.
  Lemma got_names_app a b : got_names (a ++ b) = got_names a ++ got_names b.
  Proof. unfold got_names. rewrite map_app, concat_app. reflexivity. Qed.
  Lemma failed_names_app a b : failed_names (a ++ b) = failed_names a ++ failed_names b.
  Proof. unfold failed_names. rewrite map_app, concat_app. reflexivity. Qed.

  Lemma api_get_lookup name u : api_get api o name = Some u -> api_lookup api name = Some u.
  Proof. unfold api_get. destruct (mem_id name (ko_get_fail o)); [discriminate | auto]. Qed.

  (* one node's calls, by outcome *)
  Lemma one_taint_targets n :
    taint_ok_targets x (liftK (fst (add_taint api o (now_sec (x_env x)) (o_effect (x_opts x)) (n_name n)))) =
    match taint_outcome api o (n_name n) with TWrote => [n_name n] | _ => [] end.
  Proof.
    unfold add_taint, taint_outcome. destruct (api_get api o (n_name n)) as [u|] eqn:Eu; [|reflexivity].
    destruct (has_esc u); [reflexivity|]. destruct (mem_id (n_name n) (ko_update_fail o)); [reflexivity|].
    unfold taint_ok_targets, liftK. simpl. unfold longer_than_copy, api_copy. fold api. rewrite (api_get_lookup _ _ Eu).
    simpl n_taints. rewrite app_length. simpl length.
    replace (Nat.ltb (length (n_taints u)) (length (n_taints u) + 1)) with true by (symmetry; apply Nat.ltb_lt; lia). reflexivity.
  Qed.

  Lemma one_taint_got n : got_names (liftK (fst (add_taint api o (now_sec (x_env x)) (o_effect (x_opts x)) (n_name n)))) = [n_name n].
  Proof.
    unfold add_taint. destruct (api_get api o (n_name n)) as [u|]; [|reflexivity].
    destruct (has_esc u); [reflexivity|]. destruct (mem_id (n_name n) (ko_update_fail o)); reflexivity.
  Qed.

  Lemma one_taint_failed n : taint_outcome api o (n_name n) = TFailed ->
    In (n_name n) (failed_names (liftK (fst (add_taint api o (now_sec (x_env x)) (o_effect (x_opts x)) (n_name n))))).
  Proof.
    unfold add_taint, taint_outcome. destruct (api_get api o (n_name n)) as [u|]; [|intros _; left; reflexivity].
    destruct (has_esc u); [discriminate|]. destruct (mem_id (n_name n) (ko_update_fail o)); [intros _; left; reflexivity | discriminate].
  Qed.

  Lemma run_targets run : taint_ok_targets x (liftK (concat (map tc run))) =
    map (fun p => n_name (fst p)) (filter (fun p => match taint_outcome api o (n_name (fst p)) with TWrote => true | _ => false end) run).
  Proof.
    induction run as [|[n oc] run IH]; [reflexivity|]. simpl. rewrite liftK_app, taint_ok_targets_app, IH. subst tc. simpl.
    rewrite one_taint_targets. destruct (taint_outcome api o (n_name n)); reflexivity.
  Qed.

  Lemma run_got run : got_names (liftK (concat (map tc run))) = map (fun p => n_name (fst p)) run.
  Proof.
    induction run as [|[n oc] run IH]; [reflexivity|]. simpl. rewrite liftK_app, got_names_app, IH. subst tc. simpl.
    rewrite one_taint_got. reflexivity.
  Qed.

  Lemma run_failed run p : In p run -> taint_outcome api o (n_name (fst p)) = TFailed ->
    In (n_name (fst p)) (failed_names (liftK (concat (map tc run)))).
  Proof.
    induction run as [|q run IH]; [intros []|]. simpl. rewrite liftK_app, failed_names_app. intros [->|Hin] Hf; apply in_or_app.
    - left. subst tc. simpl. apply one_taint_failed. exact Hf.
    - right. apply IH; assumption.
  Qed.

  (* nodes found already tainted on read-back *)
  Lemma found_tainted_app a b : found_tainted x (a ++ b) = found_tainted x a ++ found_tainted x b.
  Proof. unfold found_tainted, ok_got_names. rewrite map_app, concat_app, filter_app. reflexivity. Qed.

  Definition already (p : node * toutcome) : bool := match taint_outcome api o (n_name (fst p)) with TAlready => true | _ => false end.

  Lemma one_taint_found n :
    zlen (found_tainted x (liftK (fst (add_taint api o (now_sec (x_env x)) (o_effect (x_opts x)) (n_name n))))) <=
    match taint_outcome api o (n_name n) with TAlready => 1 | _ => 0 end.
  Proof.
    unfold add_taint, taint_outcome. destruct (api_get api o (n_name n)) as [u|] eqn:Eu; [|unfold zlen; simpl; lia].
    destruct (has_esc u) eqn:Eh.
    - unfold found_tainted, ok_got_names, liftK. simpl. destruct (_ && _); unfold zlen; simpl; lia.
    - assert (Hf : api_has_esc x (n_name n) = false).
      { unfold api_has_esc, api_copy. fold api. rewrite (api_get_lookup _ _ Eu). exact Eh. }
      destruct (mem_id (n_name n) (ko_update_fail o)); unfold found_tainted, ok_got_names, liftK; simpl; rewrite Hf, andb_false_r; unfold zlen; simpl; lia.
  Qed.

  Lemma run_found run : zlen (found_tainted x (liftK (concat (map tc run)))) <= zlen (filter already run).
  Proof.
    induction run as [|[n oc] run IH]; [unfold zlen; simpl; lia|]. simpl. rewrite liftK_app, found_tainted_app, zlen_app. subst tc. simpl.
    pose proof (one_taint_found n) as H1. unfold already at 1. simpl fst.
    destruct (taint_outcome api o (n_name n)); rewrite ?zlen_cons; lia.
  Qed.

  (* kinds of updates *)
  Lemma add_taint_kinds name c : In c (liftK (fst (add_taint api o (now_sec (x_env x)) (o_effect (x_opts x)) name))) ->
    is_untaint_write x c = false /\ is_cloud_increase c = false.
  Proof.
    intros H. unfold liftK in H. apply in_map_iff in H. destruct H as [k [<- Hk]].
    destruct (add_taint_calls _ _ _ _ _ _ Hk) as [[ok ->]|(u & ok & Hu & Hesc & ->)]; [split; reflexivity|].
    split; [|reflexivity]. simpl. unfold longer_than_copy, api_copy. fold api. rewrite Hu. simpl n_taints. rewrite app_length. simpl length.
    replace (Nat.ltb (length (n_taints u)) (length (n_taints u) + 1)) with true by (symmetry; apply Nat.ltb_lt; lia). reflexivity.
  Qed.

  Lemma delete_taint_kinds name c : In c (liftK (fst (delete_taint api o name))) ->
    is_taint_write x c = false /\ is_cloud_increase c = false.
  Proof.
    intros H. unfold liftK in H. apply in_map_iff in H. destruct H as [k [<- Hk]].
    destruct (delete_taint_calls _ _ _ _ Hk) as [[ok ->]|(u & ts & ok & Hu & Hrs & ->)]; [split; reflexivity|].
    split; [|reflexivity]. simpl. unfold longer_than_copy, api_copy. fold api. rewrite Hu. simpl n_taints.
    destruct (remove_swap_perm _ _ Hrs) as [_ [_ H3]].
    replace (Nat.ltb (length (n_taints u)) (length ts)) with false by (symmetry; apply Nat.ltb_ge; lia). reflexivity.
  Qed.
End Proj.

Definition no_taint_write (x : gctx) (calls : list call) : Prop := forall c, In c calls -> is_taint_write x c = false.
Definition no_untaint_write (x : gctx) (calls : list call) : Prop := forall c, In c calls -> is_untaint_write x c = false.
Definition no_update (calls : list call) : Prop := forall c, In c calls -> match c with CK (KUpdate _ _ _) => False | _ => True end.

Lemma no_update_no_taint x calls : no_update calls -> no_taint_write x calls /\ no_untaint_write x calls /\ taint_ok_targets x calls = [].
Proof.
  intros H. splits.
  - intros c Hc. specialize (H c Hc). destruct c as [[]|]; simpl in *; try reflexivity; contradiction.
  - intros c Hc. specialize (H c Hc). destruct c as [[]|]; simpl in *; try reflexivity; contradiction.
  - unfold taint_ok_targets. induction calls as [|c l IH]; [reflexivity|]. simpl.
    rewrite IH by (intros c' Hc'; apply H; right; exact Hc').
    specialize (H c (or_introl eq_refl)). destruct c as [[]|]; simpl in *; try reflexivity; contradiction.
Qed.

Lemma no_update_app a b : no_update a -> no_update b -> no_update (a ++ b).
Proof. intros Ha Hb c Hc. apply in_app_or in Hc. destruct Hc as [Hc|Hc]; [apply Ha | apply Hb]; exact Hc. Qed.
Lemma liftA_no_update l : no_update (liftA l).
Proof. intros c Hc. unfold liftA in Hc. apply in_map_iff in Hc. destruct Hc as [k [<- _]]. exact I. Qed.
Lemma removal_no_update a cands calls : (forall c, In c calls -> removal_of a cands c) -> no_update calls.
Proof. intros H c Hc. destruct (H c Hc); exact I. Qed.
Lemma no_taint_write_app x a b : no_taint_write x a -> no_taint_write x b -> no_taint_write x (a ++ b).
Proof. intros Ha Hb c Hc. apply in_app_or in Hc. destruct Hc; auto. Qed.
Lemma no_untaint_write_app x a b : no_untaint_write x a -> no_untaint_write x b -> no_untaint_write x (a ++ b).
Proof. intros Ha Hb c Hc. apply in_app_or in Hc. destruct Hc; auto. Qed.

Lemma no_taint_write_existsb x calls : no_taint_write x calls -> existsb (is_taint_write x) calls = false.
Proof.
  intros H. destruct (existsb _ calls) eqn:E; [|reflexivity]. apply existsb_exists in E. destruct E as [c [Hc E]].
  rewrite (H c Hc) in E. discriminate.
Qed.
Lemma no_untaint_write_existsb x calls : no_untaint_write x calls -> existsb (is_untaint_write x) calls = false.
Proof.
  intros H. destruct (existsb _ calls) eqn:E; [|reflexivity]. apply existsb_exists in E. destruct E as [c [Hc E]].
  rewrite (H c Hc) in E. discriminate.
Qed.
Lemma no_increase_existsb calls : no_increase calls -> existsb is_cloud_increase calls = false.
Proof.
  intros H. destruct (existsb _ calls) eqn:E; [|reflexivity]. apply existsb_exists in E. destruct E as [c [Hc E]].
  rewrite (H c Hc) in E. discriminate.
Qed.

Lemma no_taint_write_targets x calls : no_taint_write x calls -> taint_ok_targets x calls = [].
Proof.
  intros H. unfold taint_ok_targets. induction calls as [|c l IH]; [reflexivity|]. simpl.
  rewrite IH by (intros c' Hc'; apply H; right; exact Hc').
  specialize (H c (or_introl eq_refl)). destruct c as [[| n p ok |]|]; simpl in *; try reflexivity. rewrite H. destruct ok; reflexivity.
Qed.

(* scale_up never writes a taint *)
Lemma scale_up_no_taint_write x mx st a tainted want :
  no_taint_write x (up_calls (scale_up (x_env x) (x_opts x) mx (x_dry x) st a tainted want)).
Proof.
  unfold scale_up.
  set (ul := match tainted with [] => ([], 0, g_taint_tracker st) | _ => untaint_loop (x_env x) (x_dry x) (sort_newest tainted) want 0 (g_taint_tracker st) end).
  assert (HK : no_taint_write x (liftK (fst (fst ul)))).
  { intros c Hc. subst ul. destruct tainted as [|t0 ts] eqn:Et; [destruct Hc|]. rewrite <- Et in *.
    destruct (x_dry x).
    - rewrite untaint_loop_dry in Hc. destruct Hc.
    - unfold liftK in Hc. apply in_map_iff in Hc. destruct Hc as [k [<- Hk]].
      destruct (untaint_loop_calls _ _ _ _ _ _ Hk) as [y [_ [_ Hy]]].
      apply (delete_taint_kinds x (n_name y)). unfold liftK. apply in_map. exact Hy. }
  destruct ul as [[ucalls ucount] tr]. simpl in HK.
  destruct (0 <? want - ucount); [|exact HK]. destruct a as [g|]; [|exact HK].
  destruct (nodes_to_add _ _ _ <=? 0); [exact HK|]. destruct (x_dry x); [exact HK|].
  destruct (aws_increase g _ _) as [[ac r] g'].
  destruct r; simpl; apply no_taint_write_app; try exact HK; apply no_update_no_taint; apply liftA_no_update.
Qed.

(* ---------- NoDup helpers ---------- *)
Lemma nodupb_NoDup l : nodupb l = true <-> NoDup l.
Proof.
  induction l as [|y l IH]; simpl; [split; [constructor | reflexivity]|].
  rewrite andb_true_iff, negb_true_iff, IH. split.
  - intros [H1 H2]. constructor; [|exact H2]. intros Hin. apply mem_id_In in Hin. congruence.
  - intros H. inversion H; subst. split; [|assumption]. destruct (mem_id y l) eqn:E; [|reflexivity]. apply mem_id_In in E. contradiction.
Qed.

Lemma NoDup_map_filter {A B} (f : A -> B) (p : A -> bool) l : NoDup (map f l) -> NoDup (map f (filter p l)).
Proof.
  induction l as [|y l IH]; simpl; [auto|]. intros H. inversion H; subst. destruct (p y); [|auto].
  simpl. constructor; [|auto]. intros Hin. apply H2. apply in_map_iff in Hin. destruct Hin as [z [Hz Hin]].
  apply filter_In in Hin. apply in_map_iff. exists z. tauto.
Qed.

Lemma In_firstn {A} (k : nat) (l : list A) y : In y (firstn k l) -> In y l.
Proof. intros H. rewrite <- (firstn_skipn k l). apply in_or_app. left. exact H. Qed.

Lemma NoDup_app_l {A} (a b : list A) : NoDup (a ++ b) -> NoDup a.
Proof.
  induction a as [|y a IH]; simpl; [constructor|]. intros H. inversion H; subst. constructor; [|auto].
  intros Hin. apply H2. apply in_or_app. left. exact Hin.
Qed.

Lemma NoDup_map_firstn {A B} (f : A -> B) k (l : list A) : NoDup (map f l) -> NoDup (map f (firstn k l)).
Proof.
  intros H. rewrite <- (firstn_skipn k l) in H. rewrite map_app in H. eapply NoDup_app_l. exact H.
Qed.

Lemma run_nodes_eq api o l n count : exists k, map fst (tl_run api o l n count) = firstn k l.
Proof. apply tl_run_prefix. Qed.

Lemma map_filter_run {B} (f : node -> B) (p : node -> bool) (run : list (node * toutcome)) :
  map (fun q => f (fst q)) (filter (fun q => p (fst q)) run) = map f (filter p (map fst run)).
Proof. induction run as [|[n oc] run IH]; [reflexivity|]. simpl. destruct (p n); simpl; rewrite IH; reflexivity. Qed.

Lemma wrote_le_counts api o l : forall n count,
  zlen (filter (fun q : node * toutcome => match taint_outcome api o (n_name (fst q)) with TWrote => true | _ => false end) (tl_run api o l n count))
  <= zlen (filter (fun p : node * toutcome => oc_counts (snd p)) (tl_run api o l n count)).
Proof.
  induction l as [|y l IH]; intros n count; simpl; [lia|].
  destruct (n <=? count); [simpl; lia|]. simpl.
  destruct (taint_outcome api o (n_name y)); simpl; rewrite ?zlen_cons.
  - specialize (IH n (count + 1)). lia.
  - specialize (IH n (count + 1)). lia.
  - specialize (IH n count). lia.
Qed.

Lemma wrote_already_le_counts api o l : forall n count,
  zlen (filter (fun q : node * toutcome => match taint_outcome api o (n_name (fst q)) with TWrote => true | _ => false end) (tl_run api o l n count))
  + zlen (filter (fun q : node * toutcome => match taint_outcome api o (n_name (fst q)) with TAlready => true | _ => false end) (tl_run api o l n count))
  <= zlen (filter (fun p : node * toutcome => oc_counts (snd p)) (tl_run api o l n count)).
Proof.
  induction l as [|y l IH]; intros n count; cbn [tl_run filter]; [unfold zlen; simpl; lia|].
  destruct (n <=? count); [unfold zlen; simpl; lia|]. cbn [filter fst snd].
  destruct (taint_outcome api o (n_name y)); cbn [oc_counts]; rewrite ?zlen_cons.
  - specialize (IH n (count + 1)). lia.
  - specialize (IH n (count + 1)). lia.
  - specialize (IH n count). lia.
Qed.

(* ---------- scale_down_taint ---------- *)
Section Down.
  Variable x : gctx.
  Notation api := (e_api (x_env x)).
  Notation o := (e_korc (x_env x)).
  Let tc (p : node * toutcome) := fst (add_taint api o (now_sec (x_env x)) (o_effect (x_opts x)) (n_name (fst p))).
  Let wrote (n : node) := match taint_outcome api o (n_name n) with TWrote => true | _ => false end.

  Definition clamp_n (mn : Z) (unt : list node) (want : Z) : Z :=
    if zlen unt - want <? mn then zlen unt - mn else want.

  Lemma scale_down_taint_wet mn st unt want : x_dry x = false ->
    let n := clamp_n mn unt want in
    let r := scale_down_taint (x_env x) (x_opts x) mn (x_dry x) st unt want in
    (n < 0 /\ fst (fst r) = []) \/
    (0 <= n /\ fst (fst r) = liftK (concat (map tc (tl_run api o (sort_oldest unt) n 0)))).
  Proof.
    intros Hdry n r. subst r. unfold scale_down_taint. rewrite Hdry. fold (clamp_n mn unt want). fold n.
    destruct (n <? 0) eqn:E; [left; split; [apply Z.ltb_lt; exact E | reflexivity]|]. right. apply Z.ltb_ge in E. split; [exact E|].
    pose proof (taint_loop_run (x_env x) (x_opts x) (sort_oldest unt) n 0 (g_taint_tracker st)) as [H1 _].
    destruct (taint_loop _ _ false _ _ _ _) as [[kc cnt] tr]. simpl in *. rewrite H1. reflexivity.
  Qed.

  Lemma scale_down_taint_dry mn st unt want : x_dry x = true ->
    fst (fst (scale_down_taint (x_env x) (x_opts x) mn (x_dry x) st unt want)) = [].
  Proof.
    intros Hdry. unfold scale_down_taint. rewrite Hdry. destruct (_ <? 0); [reflexivity|].
    pose proof (taint_loop_dry (x_env x) (x_opts x) (sort_oldest unt) (clamp_n mn unt want) 0 (g_taint_tracker st)) as H.
    unfold clamp_n in H. destruct (taint_loop _ _ true _ _ _ _) as [[kc cnt] tr]. simpl in *. subst kc. reflexivity.
  Qed.

  (* the taint receivers of a scale-down *)
  Lemma down_targets mn st unt want :
    let T := taint_ok_targets x (fst (fst (scale_down_taint (x_env x) (x_opts x) mn (x_dry x) st unt want))) in
    (forall t, In t T -> exists n, In n unt /\ n_name n = t) /\
    (NoDup (map n_name unt) -> NoDup T) /\
    zlen T <= Z.max 0 (clamp_n mn unt want) /\
    (T <> [] -> mn <= zlen unt - zlen T).
  Proof.
    intros T. subst T. destruct (x_dry x) eqn:Hdry.
    { rewrite <- Hdry, scale_down_taint_dry by exact Hdry. unfold taint_ok_targets; simpl. splits; [intros t [] | intros _; constructor | unfold zlen; simpl; lia | congruence]. }
    rewrite <- Hdry. destruct (scale_down_taint_wet mn st unt want Hdry) as [[Hn ->]|[Hn ->]].
    { unfold taint_ok_targets; simpl. splits; [intros t [] | intros _; constructor | unfold zlen; simpl; lia | congruence]. }
    set (n := clamp_n mn unt want) in *. set (run := tl_run api o (sort_oldest unt) n 0).
    unfold tc. rewrite (run_targets x run).
    change (fun p : node * toutcome => match taint_outcome api o (n_name (fst p)) with TWrote => true | _ => false end)
      with (fun p : node * toutcome => wrote (fst p)).
    rewrite (map_filter_run n_name wrote run).
    destruct (run_nodes_eq api o (sort_oldest unt) n 0) as [k Hk]. fold run in Hk. rewrite Hk.
    assert (Hlen : zlen (map n_name (filter wrote (firstn k (sort_oldest unt)))) <= Z.max 0 n).
    { rewrite <- Hk. rewrite <- (map_filter_run n_name wrote run). unfold zlen. rewrite map_length. fold (zlen (filter (fun q => wrote (fst q)) run)).
      pose proof (tl_run_successes api o (sort_oldest unt) n 0) as Hs. fold run in Hs.
      pose proof (wrote_le_counts api o (sort_oldest unt) n 0) as Hle. fold run in Hle. unfold wrote.
      lia. }
    splits.
    - intros t Ht. apply in_map_iff in Ht. destruct Ht as [m [Hm Hin]]. apply filter_In in Hin. destruct Hin as [Hin _].
      apply In_firstn in Hin. apply (proj1 (sort_oldest_In _ _)) in Hin. exists m. auto.
    - intros Hnd. apply NoDup_map_filter. apply NoDup_map_firstn.
      eapply Permutation_NoDup; [|exact Hnd]. apply Permutation_map. symmetry. unfold sort_oldest. apply isort_perm.
    - exact Hlen.
    - intros Hne. assert (Hpos : 0 < zlen (map n_name (filter wrote (firstn k (sort_oldest unt))))).
      { destruct (map n_name (filter wrote (firstn k (sort_oldest unt)))); [congruence | rewrite zlen_cons; pose proof (zlen_nonneg l); lia]. }
      subst n. unfold clamp_n in *. destruct (zlen unt - want <? mn) eqn:E; [lia|]. apply Z.ltb_ge in E. lia.
  Qed.
  (* written plus found-already-tainted stay within the clamp: at least mn of the listed untainted nodes are neither *)
  Lemma down_found mn st unt want :
    let calls := fst (fst (scale_down_taint (x_env x) (x_opts x) mn (x_dry x) st unt want)) in
    taint_ok_targets x calls <> [] -> mn <= zlen unt - zlen (taint_ok_targets x calls) - zlen (found_tainted x calls).
  Proof.
    intros calls. subst calls. destruct (x_dry x) eqn:Hdry.
    { rewrite <- Hdry, scale_down_taint_dry by exact Hdry. unfold taint_ok_targets; simpl. congruence. }
    rewrite <- Hdry. destruct (scale_down_taint_wet mn st unt want Hdry) as [[Hn ->]|[Hn ->]].
    { unfold taint_ok_targets; simpl. congruence. }
    set (n := clamp_n mn unt want) in *. set (run := tl_run api o (sort_oldest unt) n 0).
    pose proof (run_found x run) as Hf. unfold tc. rewrite (run_targets x run).
    pose proof (tl_run_successes api o (sort_oldest unt) n 0) as Hs. fold run in Hs.
    pose proof (wrote_already_le_counts api o (sort_oldest unt) n 0) as Hle. fold run in Hle.
    unfold already in Hf.
    set (W := filter (fun p : node * toutcome => match taint_outcome api o (n_name (fst p)) with TWrote => true | _ => false end) run) in *.
    replace (zlen (map (fun p : node * toutcome => n_name (fst p)) W)) with (zlen W) by (unfold zlen; rewrite map_length; reflexivity).
    intros Hne.
    assert (Hpos : 0 < zlen W).
    { destruct W; [simpl in Hne; congruence | rewrite zlen_cons; pose proof (zlen_nonneg W); lia]. }
    subst n. unfold clamp_n in *. destruct (zlen unt - want <? mn) eqn:E; [lia|]. apply Z.ltb_ge in E. lia.
  Qed.
End Down.

(* ---------- the three branches of scan_act (final_delta is defined in SpecScan.v) ---------- *)

Definition no_get (calls : list call) : Prop := forall c, In c calls -> match c with CK (KGet _ _) => False | _ => True end.
Lemma no_get_app a b : no_get a -> no_get b -> no_get (a ++ b).
Proof. intros Ha Hb c Hc. apply in_app_or in Hc. destruct Hc as [H|H]; [apply Ha | apply Hb]; exact H. Qed.
Lemma no_get_found x calls : no_get calls -> found_tainted x calls = [].
Proof.
  intros H. unfold found_tainted, ok_got_names. induction calls as [|c l IH]; [reflexivity|]. simpl. rewrite filter_app.
  rewrite IH by (intros c' Hc'; apply H; right; exact Hc'). rewrite app_nil_r.
  pose proof (H c (or_introl eq_refl)) as Hg. destruct c as [[]|]; simpl in *; try reflexivity; contradiction.
Qed.

Definition quiet_prefix (pre : list call) : Prop := no_update pre /\ no_increase pre /\ no_get pre.

Lemma quiet_prefix_app a b : quiet_prefix a -> quiet_prefix b -> quiet_prefix (a ++ b).
Proof. intros [A1 [A2 A3]] [B1 [B2 B3]]. split; [apply no_update_app | split; [apply no_increase_app | apply no_get_app]]; assumption. Qed.

Lemma removal_quiet a cands calls : (forall c, In c calls -> removal_of a cands c) -> quiet_prefix calls.
Proof.
  intros H. split; [eapply removal_no_update | split; [eapply removal_no_increase|]]; try exact H.
  intros c Hc. destruct (H c Hc); exact I.
Qed.

(* a not-in-group error of TryDeleteNodes names a candidate that is no instance of the cloud group *)
Lemma try_delete_notingroup e a cands calls a' :
  try_delete_nodes e a cands = (calls, Some ErrNotInGroup, a') ->
  exists g n, a = Some g /\ In n cands /\ belongs g (n_pid n) = false.
Proof.
  unfold try_delete_nodes. destruct cands as [|c0 cs] eqn:Ec; [discriminate|]. rewrite <- Ec.
  destruct a as [g|]; [|discriminate].
  destruct (aws_delete_nodes g cands (ao_terminasg_fail (e_aorc e))) as [[ac r] g'] eqn:Ed.
  destruct r; try discriminate.
  - destruct (delete_nodes (e_korc e) (map n_name cands)) as [kc ok]. destruct ok; discriminate.
  - intros _. unfold aws_delete_nodes in Ed. destruct (a_desired g <=? a_min g); [discriminate|].
    destruct (a_desired g - zlen cands <? a_min g); [discriminate|].
    pose proof (delete_loop_spec cands g (ao_terminasg_fail (e_aorc e))) as Hs. rewrite Ed in Hs.
    destruct Hs as (_ & _ & _ & _ & _ & _ & _ & _ & H9). destruct (H9 n eq_refl) as [m [Hm [_ Hb]]].
    exists g, m. splits; auto. eapply nth_error_In. exact Hm.
Qed.

Lemma scan_act_branches e o mn mx dry st2 a pods unt tainted forced lag tg us cap d0 fz : quiet_prefix lag ->
  let r := scan_act e o mn mx dry st2 a pods unt tainted forced lag tg us cap d0 fz in
  let d2 := final_delta e o mn mx us cap unt tainted d0 in
  (d2 < 0 /\ exists pre, quiet_prefix pre /\
      ((r_calls r = pre /\ exists g1 n, oasg_rel a (Some g1) /\ In n (reap_candidates e o dry pods tainted) /\ belongs g1 (n_pid n) = false)
       \/ r_calls r = pre ++ fst (fst (scale_down_taint e o mn dry st2 unt (- d2)))))
  \/ (0 < d2 /\ exists pre a1, quiet_prefix pre /\ r_calls r = pre ++ up_calls (scale_up e o mx dry st2 a1 tainted d2))
  \/ (d2 = 0 /\ quiet_prefix (r_calls r)).
Proof.
  intros Hlag r d2. subst r. unfold scan_act. fold (final_delta e o mn mx us cap unt tainted d0). fold d2.
  destruct (try_delete_nodes e a (force_candidates dry pods forced)) as [[fcalls ferr] a1] eqn:Ef.
  destruct (try_delete_nodes_calls _ _ _ _ _ _ Ef) as [Hrel1 [Hf _]]. apply removal_quiet in Hf.
  destruct (d2 <? 0) eqn:E1.
  - left. apply Z.ltb_lt in E1. split; [exact E1|].
    destruct (try_delete_nodes e a1 (reap_candidates e o dry pods tainted)) as [[rcalls rerr] a2] eqn:Er.
    destruct (try_delete_nodes_calls _ _ _ _ _ _ Er) as [_ [Hr _]]. apply removal_quiet in Hr.
    destruct (scale_down_taint e o mn dry st2 unt (- d2)) as [[tcalls terr] st3] eqn:Et.
    exists (lag ++ fcalls ++ rcalls). split; [repeat apply quiet_prefix_app; assumption|].
    destruct rerr as [[|]|]; simpl; [right | left | right]; rewrite <- ?app_assoc; try reflexivity.
    split; [reflexivity|]. destruct (try_delete_notingroup _ _ _ _ _ Er) as (g1 & n & -> & Hn & Hb). exists g1, n. auto.
  - apply Z.ltb_ge in E1. destruct (0 <? d2) eqn:E2.
    + right; left. apply Z.ltb_lt in E2. split; [exact E2|]. exists (lag ++ fcalls), a1. split; [apply quiet_prefix_app; assumption|].
      destruct (up_out (scale_up e o mx dry st2 a1 tainted d2)); simpl; rewrite <- app_assoc; reflexivity.
    + right; right. apply Z.ltb_ge in E2. split; [lia|].
      destruct (try_delete_nodes e a1 (reap_candidates e o dry pods tainted)) as [[rcalls rerr] a2] eqn:Er.
      destruct (try_delete_nodes_calls _ _ _ _ _ _ Er) as [_ [Hr _]]. apply removal_quiet in Hr.
      destruct rerr as [[|]|]; simpl; repeat apply quiet_prefix_app; assumption.
Qed.

Lemma lag_quiet e st nodes : quiet_prefix (liftA (registration_lag_calls e st nodes)).
Proof.
  split; [apply liftA_no_update | split; [apply lag_no_increase|]].
  intros c Hc. unfold liftA in Hc. apply in_map_iff in Hc. destruct Hc as [k [<- _]]. exact I.
Qed.

(* ---------- C03 ---------- *)
Lemma c03_no_taint x calls : no_taint_write x calls -> check_C03_group x calls = true.
Proof.
  intros H. unfold check_C03_group. rewrite (no_taint_write_targets _ _ H), (no_taint_write_existsb _ _ H). simpl.
  destruct (_ && _ && _); reflexivity.
Qed.

Lemma in_class_iff l name : in_class l name = true <-> exists n, In n l /\ n_name n = name.
Proof.
  unfold in_class. rewrite existsb_exists. split; intros [n [H1 H2]]; exists n; split; auto; [apply Z.eqb_eq; exact H2 | apply Z.eqb_eq; exact H2].
Qed.

Lemma c03_down x pre st want : x_cls x = filter_nodes (x_dry x) (x_st x) (x_nodes x) -> NoDup (map n_name (x_nodes x)) -> no_update pre -> no_get pre ->
  x_min x <= zlen (c_untainted (x_cls x)) ->
  check_C03_group x (pre ++ fst (fst (scale_down_taint (x_env x) (x_opts x) (x_min x) (x_dry x) st (c_untainted (x_cls x)) want))) = true.
Proof.
  intros Hcls Hnd Hpre Hget Hmin. unfold check_C03_group.
  rewrite taint_ok_targets_app. destruct (no_update_no_taint x pre Hpre) as [_ [_ ->]]. simpl app.
  destruct (down_targets x (x_min x) st (c_untainted (x_cls x)) want) as [H1 [H2 [H3 H4]]].
  set (T := taint_ok_targets x _) in *.
  assert (Hnd' : NoDup (map n_name (c_untainted (x_cls x)))).
  { rewrite Hcls. unfold filter_nodes; simpl. apply NoDup_map_filter. exact Hnd. }
  rewrite (proj2 (nodupb_NoDup T) (H2 Hnd')). simpl.
  replace (forallb (in_class (c_untainted (x_cls x))) T) with true
    by (symmetry; apply forallb_forall; intros t Ht; apply in_class_iff; apply H1; exact Ht).
  simpl.
  replace (zlen (c_untainted (x_cls x)) <? x_min x) with false by (symmetry; apply Z.ltb_ge; exact Hmin).
  rewrite !andb_false_r. rewrite andb_true_r.
  destruct T as [|t0 T'] eqn:ET; [reflexivity|]. apply Z.leb_le.
  rewrite found_tainted_app, (no_get_found x pre Hget). simpl app.
  pose proof (down_found x (x_min x) st (c_untainted (x_cls x)) want) as H5. cbv zeta in H5. fold T in H5. rewrite ET in H5.
  apply H5. discriminate.
Qed.

(* the frame shared by the scan-level theorems of this file: scan_group either makes no call, or runs scale_up from
   below the minimum (unlocked, untainted < min, node count in bounds), or only the lag lookups, or scan_act with
   untainted >= min *)
Lemma scan_group_frame (P : gresult -> Prop) e o mn mx st a all_nodes all_pods :
  let dry := e_dry e || o_dry o in
  let pods := group_pods o all_pods in
  let nodes := group_nodes o all_nodes in
  let st1 := match nodes with n :: _ => with_cache st (first_alloc n) | [] => st end in
  let cls := filter_nodes dry st1 nodes in
  let lkr := lock_check (g_lock st1) (e_now e) (o_cool o) in
  let st2 := with_lock st1 (snd lkr) in
  let us := pods_usage pods in
  let cap := nodes_capacity (c_untainted cls) pods in
  (fst lkr = true \/ (nodes = [] /\ pods = []) \/ zlen nodes < mn \/ mx < zlen nodes \/
   (mn <= zlen (c_untainted cls) /\
    calc_percent (r_cpu (u_total us)) (1000 * r_mem (u_total us)) (r_cpu (k_total cap)) (1000 * r_mem (k_total cap)) (zlen (c_untainted cls)) = PctErr) ->
   forall tags out ret st', out = OutOk \/ out = OutErr -> P (mk tags [] out ret st' a)) ->
  (fst lkr = false -> zlen (c_untainted cls) < mn -> mn <= zlen nodes <= mx ->
   forall tags, let r := scale_up e o mx dry st2 a (c_tainted cls) (mn - zlen (c_untainted cls)) in
   P (mk tags (up_calls r) (up_out r) (up_ret r) (up_state r) (up_asg r))) ->
  (fst lkr = false -> mn <= zlen (c_untainted cls) -> mn <= zlen nodes <= mx -> (nodes <> [] \/ pods <> []) ->
   forall cpuP memP, calc_percent (r_cpu (u_total us)) (1000 * r_mem (u_total us)) (r_cpu (k_total cap)) (1000 * r_mem (k_total cap)) (zlen (c_untainted cls)) = PctOk cpuP memP ->
   (forall tags d, decide o st2 cpuP memP (r_cpu (u_total us)) (1000 * r_mem (u_total us)) (c_untainted cls) = DeltaErr d ->
      P (mk tags (liftA (registration_lag_calls e st2 nodes)) OutErr d st2 a)) /\
   (forall tags d0, decide o st2 cpuP memP (r_cpu (u_total us)) (1000 * r_mem (u_total us)) (c_untainted cls) = DeltaOk d0 ->
      P (scan_act e o mn mx dry st2 a pods (c_untainted cls) (c_tainted cls) (c_forced cls)
                  (liftA (registration_lag_calls e st2 nodes)) tags us cap d0 (feq cpuP f_max)))) ->
  P (scan_group e o mn mx st a all_nodes all_pods).
Proof.
  intros dry pods nodes st1 cls lkr st2 us cap Hq Hb Hd. unfold scan_group.
  fold dry pods nodes st1 cls us cap lkr st2.
  assert (Hne : forall r, ((nodes <> [] \/ pods <> []) -> P r) -> ((nodes = [] /\ pods = []) -> forall tags out ret st', out = OutOk \/ out = OutErr -> P (mk tags [] out ret st' a)) ->
                P (match nodes, pods with [], [] => mk (T_both_empty :: (if dry then [T_dry] else [])) [] OutOk 0 st1 a | _, _ => r end)).
  { intros r Hr Hq'. destruct nodes, pods; try (apply Hq'; [split; reflexivity | left; reflexivity]); apply Hr; [right | left | left]; discriminate. }
  apply Hne; [|intros He; apply Hq; right; left; exact He]. intros Hnonempty.
  destruct (zlen nodes <? mn) eqn:E1; [apply Hq; [right; right; left; apply Z.ltb_lt; exact E1 | right; reflexivity]|]. apply Z.ltb_ge in E1.
  destruct (mx <? zlen nodes) eqn:E2; [apply Hq; [right; right; right; left; apply Z.ltb_lt; exact E2 | right; reflexivity]|]. apply Z.ltb_ge in E2.
  destruct (fst lkr) eqn:Elk; cbn [negb andb].
  { destruct (calc_percent _ _ _ _ _); (apply Hq; [left; reflexivity | auto]). }
  destruct (zlen (c_untainted cls) <? mn) eqn:E3.
  { apply Z.ltb_lt in E3. apply Hb; auto. }
  apply Z.ltb_ge in E3.
  destruct (calc_percent _ _ _ _ _) as [cpuP memP|] eqn:Ep; [|apply Hq; [right; right; right; right; split; [exact E3 | reflexivity] | right; reflexivity]].
  destruct (Hd eq_refl E3 (conj E1 E2) Hnonempty cpuP memP eq_refl) as [Hd1 Hd2].
  destruct (decide _ _ _ _ _ _ _) as [d0|d] eqn:Edec; [apply Hd2 | apply Hd1]; reflexivity.
Qed.

Theorem group_passes_C03 now gdry api g a nodes pods :
  let x := ctx_of now gdry api g a nodes pods in
  NoDup (map n_name (x_nodes x)) ->
  check_C03_group x (r_calls (scan_of now gdry api g a nodes pods)) = true.
Proof.
  intros x Hnd. unfold scan_of. fold x.
  apply (scan_group_frame (fun r => check_C03_group x (r_calls r) = true)).
  - intros. apply c03_no_taint. intros c [].
  - intros _ _ _ tags. apply c03_no_taint. apply (scale_up_no_taint_write x).
  - intros _ Hmin _ _ cpuP memP _. split.
    + intros tags d _. apply c03_no_taint. apply no_update_no_taint. apply liftA_no_update.
    + intros tags d0 _.
      match goal with |- check_C03_group x (r_calls (scan_act ?e ?o ?mn ?mx ?dry ?st2 ?a ?pods ?unt ?tainted ?forced ?lag ?tg ?us ?cap ?d0 ?fz)) = true =>
        pose proof (scan_act_branches e o mn mx dry st2 a pods unt tainted forced lag tg us cap d0 fz (lag_quiet _ _ _)) as Hbr end.
      cbv zeta in Hbr. destruct Hbr as [[_ [pre [[Hp1 Hp2] [[-> _] | ->]]]] | [[_ [pre [a1 [[Hp1 Hp2] ->]]]] | [_ [Hq1 Hq2]]]].
      * apply c03_no_taint. apply no_update_no_taint. exact Hp1.
      * apply c03_down; [reflexivity | exact Hnd | exact Hp1 | exact (proj2 Hp2) | exact Hmin].
      * apply c03_no_taint. apply no_taint_write_app; [apply no_update_no_taint; exact Hp1 | apply (scale_up_no_taint_write x)].
      * apply c03_no_taint. apply no_update_no_taint. exact Hq1.
Qed.

(* ---------- C06 ---------- *)
Lemma calc_delta_nonneg n cp mp cr mr thr cc cm d : calc_delta n cp mp cr mr thr cc cm = DeltaOk d -> 0 <= d.
Proof.
  unfold calc_delta. destruct (feq cp f_max || feq mp f_max).
  - destruct ((q_num cc =? 0) || (q_num cm =? 0)); [intros H; inversion H; lia|].
    destruct (_ <? 0) eqn:E; intros H; inversion H; subst. apply Z.ltb_ge in E. exact E.
  - destruct (_ <? 0) eqn:E; intros H; inversion H; subst. apply Z.ltb_ge in E. exact E.
Qed.

Definition band_by (x : gctx) (c m : f64) : band :=
  let mp := fmax c m in
  if flt mp (of_Z (o_lower (x_opts x))) then BLow
  else if flt mp (of_Z (o_upper (x_opts x))) then BMid
  else if fgt mp (of_Z (o_up (x_opts x))) then BUp else BQuiet.

Lemma band_of_facts x : band_of x <> BNone ->
  in_cooldown x = false /\ (x_nodes x <> [] \/ x_pods x <> []) /\ x_min x <= zlen (x_nodes x) <= x_max x /\
  x_min x <= zlen (c_untainted (x_cls x)) /\ exists c m, percents x = PctOk c m /\ band_of x = band_by x c m.
Proof.
  unfold band_of. destruct (in_cooldown x); [congruence|].
  destruct (match x_nodes x, x_pods x with [], [] => true | _, _ => false end) eqn:Ee; [congruence|].
  destruct (zlen (x_nodes x) <? x_min x) eqn:E1; [simpl; congruence|].
  destruct (x_max x <? zlen (x_nodes x)) eqn:E2; [simpl; congruence|].
  destruct (zlen (c_untainted (x_cls x)) <? x_min x) eqn:E3; [simpl; congruence|]. simpl.
  apply Z.ltb_ge in E1, E2, E3.
  destruct (percents x) as [c m|] eqn:Ep; [|congruence]. intros _. splits; auto; try lia.
  - destruct (x_nodes x), (x_pods x); try discriminate; [right | left | left]; discriminate.
  - exists c, m. split; reflexivity.
Qed.

Lemma list_eqb_taints_eq la : forall lb, list_eqb taint_eqb la lb = true -> la = lb.
Proof.
  induction la as [|t l IH]; intros lb; destruct lb as [|t' l']; simpl; intros H; try discriminate; [reflexivity|].
  apply andb_prop in H. destruct H as [H1 H2]. apply taint_eqb_eq in H1. subst. f_equal. apply IH. exact H2.
Qed.

Lemma node_eqb_taints a b : node_eqb a b = true -> n_taints a = n_taints b.
Proof.
  unfold node_eqb. intros H. apply list_eqb_taints_eq.
  destruct (list_eqb taint_eqb (n_taints a) (n_taints b)); [reflexivity|].
  rewrite ?andb_false_r in H. simpl in H. discriminate.
Qed.

(* with a faithful API every untainted node's taint write succeeds *)
Lemma faithful_wrote x n : x_cls x = filter_nodes (x_dry x) (x_st x) (x_nodes x) -> x_dry x = false -> api_faithful x = true ->
  In n (c_untainted (x_cls x)) -> taint_outcome (e_api (x_env x)) (e_korc (x_env x)) (n_name n) = TWrote.
Proof.
  intros Hcls Hdry Hf Hn. unfold api_faithful in Hf. apply andb_prop in Hf. destruct Hf as [Hf _]. apply andb_prop in Hf. destruct Hf as [Hf1 Hf2].
  rewrite Hcls, Hdry in Hn. apply in_untainted in Hn. destruct Hn as [Hin Hc]. apply classify_wet_0 in Hc. destruct Hc as (_ & _ & Hesc).
  rewrite forallb_forall in Hf2. specialize (Hf2 n Hin). unfold api_copy in Hf2.
  unfold taint_outcome, api_get.
  destruct (ko_get_fail (e_korc (x_env x))) eqn:Eg; [|discriminate]. destruct (ko_update_fail (e_korc (x_env x))) eqn:Eu; [|discriminate].
  simpl. destruct (api_lookup (e_api (x_env x)) (n_name n)) as [m|]; [|discriminate].
  apply node_eqb_taints in Hf2. unfold has_esc, has_key in *. rewrite Hf2, Hesc. reflexivity.
Qed.

Lemma faithful_no_fatal x g1 n : x_cls x = filter_nodes (x_dry x) (x_st x) (x_nodes x) -> api_faithful x = true ->
  oasg_rel (x_asg x) (Some g1) -> In n (reap_candidates (x_env x) (x_opts x) (x_dry x) (x_pods x) (c_tainted (x_cls x))) ->
  belongs g1 (n_pid n) = false -> False.
Proof.
  intros Hcls Hf Hrel Hn Hb. unfold api_faithful in Hf. apply andb_prop in Hf. destruct Hf as [_ Hf].
  destruct (x_asg x) as [g0|]; simpl in Hrel; [|contradiction].
  rewrite forallb_forall in Hf. unfold reap_candidates in Hn. destruct (x_dry x); [destruct Hn|].
  apply filter_In in Hn. destruct Hn as [Hn _]. specialize (Hf n Hn). rewrite (asg_rel_belongs g0 g1) in Hb by exact Hrel. congruence.
Qed.

Lemma clamp_is_min mn unt rate : clamp_n mn unt rate = Z.min rate (zlen unt - mn).
Proof. unfold clamp_n. destruct (zlen unt - rate <? mn) eqn:E; [apply Z.ltb_lt in E | apply Z.ltb_ge in E]; lia. Qed.

(* exact count of a fault-free scale-down *)
Lemma down_exact x st want : x_cls x = filter_nodes (x_dry x) (x_st x) (x_nodes x) -> x_dry x = false -> api_faithful x = true ->
  0 <= x_min x ->
  zlen (taint_ok_targets x (fst (fst (scale_down_taint (x_env x) (x_opts x) (x_min x) (x_dry x) st (c_untainted (x_cls x)) want))))
  = Z.max 0 (clamp_n (x_min x) (c_untainted (x_cls x)) want).
Proof.
  intros Hcls Hdry Hf Hmin. set (unt := c_untainted (x_cls x)).
  destruct (scale_down_taint_wet x (x_min x) st unt want Hdry) as [[Hn ->]|[Hn ->]].
  { unfold taint_ok_targets, zlen; simpl. lia. }
  set (n := clamp_n (x_min x) unt want) in *.
  rewrite (run_targets x). unfold zlen at 1. rewrite map_length. fold (zlen (filter (fun p : node * toutcome => match taint_outcome (e_api (x_env x)) (e_korc (x_env x)) (n_name (fst p)) with TWrote => true | _ => false end) (tl_run (e_api (x_env x)) (e_korc (x_env x)) (sort_oldest unt) n 0))).
  assert (Hall : forall y, In y (sort_oldest unt) -> taint_outcome (e_api (x_env x)) (e_korc (x_env x)) (n_name y) = TWrote).
  { intros y Hy. apply (proj1 (sort_oldest_In _ _)) in Hy. apply faithful_wrote; assumption. }
  assert (Hfilter : forall l cnt, (forall y, In y l -> taint_outcome (e_api (x_env x)) (e_korc (x_env x)) (n_name y) = TWrote) ->
            filter (fun p : node * toutcome => match taint_outcome (e_api (x_env x)) (e_korc (x_env x)) (n_name (fst p)) with TWrote => true | _ => false end)
                   (tl_run (e_api (x_env x)) (e_korc (x_env x)) l n cnt) = tl_run (e_api (x_env x)) (e_korc (x_env x)) l n cnt).
  { induction l as [|y l IH]; intros cnt H; simpl; [reflexivity|]. destruct (n <=? cnt); [reflexivity|]. simpl.
    rewrite (H y (or_introl eq_refl)). simpl. f_equal. apply IH. intros z Hz. apply H. right. exact Hz. }
  rewrite Hfilter by exact Hall.
  rewrite tl_run_all_count; [| intros y Hy; rewrite (Hall y Hy); reflexivity | lia].
  assert (Hlen : zlen (sort_oldest unt) = zlen unt) by (unfold zlen, sort_oldest; rewrite isort_length; reflexivity).
  rewrite Hlen. subst n. rewrite clamp_is_min in *. lia.
Qed.

Lemma c06_quiet_parts x calls : quiet_prefix calls ->
  existsb (is_untaint_write x) calls = false /\ existsb is_cloud_increase calls = false /\
  existsb (is_taint_write x) calls = false /\ taint_ok_targets x calls = [].
Proof.
  intros [H1 [H2 _]]. destruct (no_update_no_taint x calls H1) as [A [B C]].
  splits; [apply no_untaint_write_existsb | apply no_increase_existsb | apply no_taint_write_existsb |]; assumption.
Qed.

Lemma tcalls_parts x mn st unt want :
  let tcalls := fst (fst (scale_down_taint (x_env x) (x_opts x) mn (x_dry x) st unt want)) in
  no_untaint_write x tcalls /\ no_increase tcalls.
Proof.
  intros tcalls. subst tcalls. destruct (x_dry x) eqn:Hdry.
  { rewrite <- Hdry, scale_down_taint_dry by exact Hdry. split; intros c []. }
  rewrite <- Hdry. destruct (scale_down_taint_wet x mn st unt want Hdry) as [[_ ->]|[_ ->]]; [split; intros c []|].
  assert (H : forall c, In c (liftK (concat (map (fun p : node * toutcome => fst (add_taint (e_api (x_env x)) (e_korc (x_env x)) (now_sec (x_env x)) (o_effect (x_opts x)) (n_name (fst p))))
                (tl_run (e_api (x_env x)) (e_korc (x_env x)) (sort_oldest unt) (clamp_n mn unt want) 0)))) ->
              is_untaint_write x c = false /\ is_cloud_increase c = false).
  { intros c Hc. unfold liftK in Hc. apply in_map_iff in Hc. destruct Hc as [k [<- Hk]]. apply in_concat in Hk. destruct Hk as [l [Hl Hk]].
    apply in_map_iff in Hl. destruct Hl as [p [<- _]]. apply (add_taint_kinds x (n_name (fst p))). unfold liftK. apply in_map. exact Hk. }
  split; intros c Hc; apply H; exact Hc.
Qed.

(* the checker's verdict on a journal without node updates and cloud increases *)
Lemma c06_quiet_journal x calls : quiet_prefix calls -> x_min x <= zlen (c_untainted (x_cls x)) ->
  (band_of x = BLow -> trigger_fires x = false -> o_fast (x_opts x) = 0) ->
  (band_of x = BMid -> trigger_fires x = false -> o_slow (x_opts x) = 0) ->
  check_C06_group x calls = true.
Proof.
  intros Hq Hmin Hlow Hmid. unfold check_C06_group. destruct (c06_quiet_parts x calls Hq) as (-> & -> & -> & ->).
  change (zlen []) with 0. simpl negb. simpl andb.
  destruct (band_of x); try reflexivity; destruct (trigger_fires x); try reflexivity.
  - rewrite (Hlow eq_refl eq_refl).
    replace (Z.max 0 (Z.min 0 (zlen (c_untainted (x_cls x)) - x_min x))) with 0 by lia. simpl. destruct (api_faithful x && negb (x_dry x)); reflexivity.
  - rewrite (Hmid eq_refl eq_refl).
    replace (Z.max 0 (Z.min 0 (zlen (c_untainted (x_cls x)) - x_min x))) with 0 by lia. simpl. destruct (api_faithful x && negb (x_dry x)); reflexivity.
Qed.

(* the checker's verdict on a journal that writes no taint, when the band or a trigger calls for none *)
Lemma c06_no_taint_journal x calls : no_taint_write x calls ->
  (trigger_fires x = true \/ band_of x = BUp \/ band_of x = BNone) -> check_C06_group x calls = true.
Proof.
  intros Hn Hb. unfold check_C06_group. rewrite (no_taint_write_existsb _ _ Hn).
  destruct Hb as [-> | [-> | ->]]; [destruct (band_of x); reflexivity | destruct (trigger_fires x); reflexivity | reflexivity].
Qed.

(* the checker's verdict on a scale-down journal asking for `rate` nodes *)
Lemma c06_down_journal x pre st rate : x_cls x = filter_nodes (x_dry x) (x_st x) (x_nodes x) ->
  quiet_prefix pre -> 0 <= x_min x -> x_min x <= zlen (c_untainted (x_cls x)) -> 0 < rate -> trigger_fires x = false ->
  (band_of x = BLow /\ rate = o_fast (x_opts x)) \/ (band_of x = BMid /\ rate = o_slow (x_opts x)) ->
  check_C06_group x (pre ++ fst (fst (scale_down_taint (x_env x) (x_opts x) (x_min x) (x_dry x) st (c_untainted (x_cls x)) rate))) = true.
Proof.
  intros Hcls Hq Hmin0 Hmin Hrate Htrig Hband. unfold check_C06_group. rewrite Htrig.
  set (tcalls := fst (fst (scale_down_taint _ _ _ _ _ _ _))).
  destruct (c06_quiet_parts x pre Hq) as (P1 & P2 & P3 & P4).
  destruct (tcalls_parts x (x_min x) st (c_untainted (x_cls x)) rate) as [T1 T2]. fold tcalls in T1, T2.
  rewrite !existsb_app, P1, P2, taint_ok_targets_app, P4. simpl app.
  rewrite (no_untaint_write_existsb _ _ T1), (no_increase_existsb _ T2). simpl.
  destruct (down_targets x (x_min x) st (c_untainted (x_cls x)) rate) as (_ & _ & Hle & _). fold tcalls in Hle.
  rewrite clamp_is_min in Hle.
  assert (Hex : api_faithful x && negb (x_dry x) = true -> zlen (taint_ok_targets x tcalls) = Z.max 0 (Z.min rate (zlen (c_untainted (x_cls x)) - x_min x))).
  { intros H. apply andb_prop in H. destruct H as [Hf Hd]. apply negb_true_iff in Hd. subst tcalls. rewrite down_exact by assumption. rewrite clamp_is_min. reflexivity. }
  destruct Hband as [[-> ->] | [-> ->]].
  - replace (zlen (taint_ok_targets x tcalls) <=? Z.max 0 (Z.min (o_fast (x_opts x)) (zlen (c_untainted (x_cls x)) - x_min x))) with true by (symmetry; apply Z.leb_le; exact Hle).
    simpl. destruct (api_faithful x && negb (x_dry x)); [|reflexivity]. apply Z.eqb_eq. apply Hex. reflexivity.
  - replace (zlen (taint_ok_targets x tcalls) <=? Z.max 0 (Z.min (o_slow (x_opts x)) (zlen (c_untainted (x_cls x)) - x_min x))) with true by (symmetry; apply Z.leb_le; exact Hle).
    simpl. destruct (api_faithful x && negb (x_dry x)); [|reflexivity]. apply Z.eqb_eq. apply Hex. reflexivity.
Qed.

(* a scale-down that ends with the fatal not-in-group error before tainting: the exactness clause does not apply *)
Lemma c06_fatal_journal x pre g1 n : x_cls x = filter_nodes (x_dry x) (x_st x) (x_nodes x) ->
  quiet_prefix pre -> x_min x <= zlen (c_untainted (x_cls x)) ->
  oasg_rel (x_asg x) (Some g1) -> In n (reap_candidates (x_env x) (x_opts x) (x_dry x) (x_pods x) (c_tainted (x_cls x))) ->
  belongs g1 (n_pid n) = false ->
  check_C06_group x pre = true.
Proof.
  intros Hcls Hq Hmin Hrel Hn Hb. unfold check_C06_group. destruct (c06_quiet_parts x pre Hq) as (-> & -> & -> & ->).
  change (zlen []) with 0. simpl negb. simpl andb.
  assert (Hf : api_faithful x = false).
  { destruct (api_faithful x) eqn:E; [|reflexivity]. exfalso. eapply faithful_no_fatal; eauto. }
  rewrite Hf. simpl.
  destruct (band_of x); try reflexivity; destruct (trigger_fires x); try reflexivity; rewrite andb_true_r; apply Z.leb_le; lia.
Qed.

(* the frame restated over the context record, so that proofs can treat the context as an opaque value *)
Lemma scan_of_frame (P : gresult -> Prop) now gdry api g a nodes pods x : x = ctx_of now gdry api g a nodes pods ->
  let lkr := lock_check (g_lock (x_st x)) (e_now (x_env x)) (o_cool (x_opts x)) in
  let st2 := with_lock (x_st x) (snd lkr) in
  let unt := c_untainted (x_cls x) in
  let cpuReq := r_cpu (u_total (usage_of x)) in
  let memReq := 1000 * r_mem (u_total (usage_of x)) in
  let lag := liftA (registration_lag_calls (x_env x) st2 (x_nodes x)) in
  (in_cooldown x = true \/ (x_nodes x = [] /\ x_pods x = []) \/ zlen (x_nodes x) < x_min x \/ x_max x < zlen (x_nodes x) \/
   (x_min x <= zlen (c_untainted (x_cls x)) /\ percents x = PctErr) ->
   forall tags out ret st', out = OutOk \/ out = OutErr -> P (mk tags [] out ret st' a)) ->
  (in_cooldown x = false -> zlen unt < x_min x -> x_min x <= zlen (x_nodes x) <= x_max x ->
   forall tags, let r := scale_up (x_env x) (x_opts x) (x_max x) (x_dry x) st2 a (c_tainted (x_cls x)) (x_min x - zlen unt) in
   P (mk tags (up_calls r) (up_out r) (up_ret r) (up_state r) (up_asg r))) ->
  (in_cooldown x = false -> x_min x <= zlen unt -> x_min x <= zlen (x_nodes x) <= x_max x -> (x_nodes x <> [] \/ x_pods x <> []) ->
   forall cpuP memP, percents x = PctOk cpuP memP ->
   (forall tags d, decide (x_opts x) st2 cpuP memP cpuReq memReq unt = DeltaErr d -> P (mk tags lag OutErr d st2 a)) /\
   (forall tags d0, decide (x_opts x) st2 cpuP memP cpuReq memReq unt = DeltaOk d0 ->
      P (scan_act (x_env x) (x_opts x) (x_min x) (x_max x) (x_dry x) st2 a (x_pods x) unt (c_tainted (x_cls x)) (c_forced (x_cls x))
                  lag tags (usage_of x) (capacity_of x) d0 (feq cpuP f_max)))) ->
  P (scan_of now gdry api g a nodes pods).
Proof.
  intros -> lkr st2 unt cpuReq memReq lag Hq Hb Hd. unfold scan_of.
  apply (scan_group_frame P); cbv zeta.
  - intros Hr. apply Hq. destruct Hr as [Hr|Hr]; [left; unfold in_cooldown; rewrite lock_check_fst in Hr; exact Hr | right; exact Hr].
  - intros Hl. apply Hb. unfold in_cooldown. rewrite lock_check_fst in Hl. exact Hl.
  - intros Hl. apply Hd. unfold in_cooldown. rewrite lock_check_fst in Hl. exact Hl.
Qed.

Theorem group_passes_C06 now gdry api g a nodes pods :
  let x := ctx_of now gdry api g a nodes pods in
  0 <= o_slow (x_opts x) <= o_fast (x_opts x) -> 0 <= x_min x ->
  check_C06_group x (r_calls (scan_of now gdry api g a nodes pods)) = true.
Proof.
  intros x Hrates Hmin0.
  assert (Hcls : x_cls x = filter_nodes (x_dry x) (x_st x) (x_nodes x)) by reflexivity.
  assert (Hasg : x_asg x = a) by reflexivity.
  apply (scan_of_frame (fun r => check_C06_group x (r_calls r) = true) now gdry api g a nodes pods x eq_refl).
  all: clearbody x.
  - (* quiet exits: the band is BNone *)
    intros Hr tags out ret st' _. unfold check_C06_group.
    assert (Eb : band_of x = BNone).
    { unfold band_of. destruct Hr as [Hr|[[Hr1 Hr2]|[Hr|[Hr|[_ Hr]]]]].
      - rewrite Hr. reflexivity.
      - destruct (in_cooldown x); [reflexivity|]. rewrite Hr1, Hr2. reflexivity.
      - destruct (in_cooldown x); [reflexivity|]. destruct (match x_nodes x, x_pods x with [], [] => true | _, _ => false end); [reflexivity|].
        replace (zlen (x_nodes x) <? x_min x) with true by (symmetry; apply Z.ltb_lt; exact Hr). reflexivity.
      - destruct (in_cooldown x); [reflexivity|]. destruct (match x_nodes x, x_pods x with [], [] => true | _, _ => false end); [reflexivity|].
        replace (x_max x <? zlen (x_nodes x)) with true by (symmetry; apply Z.ltb_lt; exact Hr). rewrite orb_true_r. reflexivity.
      - destruct (in_cooldown x); [reflexivity|]. destruct (match x_nodes x, x_pods x with [], [] => true | _, _ => false end); [reflexivity|].
        destruct (_ || _ || _); [reflexivity|]. rewrite Hr. reflexivity. }
    rewrite Eb. reflexivity.
  - (* below the minimum: the band is BNone *)
    intros _ Hlt _ tags. unfold check_C06_group.
    assert (Eb : band_of x = BNone).
    { unfold band_of. destruct (in_cooldown x); [reflexivity|]. destruct (match x_nodes x, x_pods x with [], [] => true | _, _ => false end); [reflexivity|].
      replace (zlen (c_untainted (x_cls x)) <? x_min x) with true by (symmetry; apply Z.ltb_lt; exact Hlt). rewrite !orb_true_r. reflexivity. }
    rewrite Eb. reflexivity.
  - (* the decision branch *)
    intros Hcool Hmin Hbounds Hne cpuP memP Hp.
    assert (Hband : band_of x = band_by x cpuP memP).
    { unfold band_of. rewrite Hcool. destruct Hbounds as [Hb1 Hb2].
      replace (match x_nodes x, x_pods x with [], [] => true | _, _ => false end) with false
        by (destruct (x_nodes x), (x_pods x); try reflexivity; destruct Hne as [Hne|Hne]; exfalso; apply Hne; reflexivity).
      replace (zlen (x_nodes x) <? x_min x) with false by (symmetry; apply Z.ltb_ge; lia).
      replace (x_max x <? zlen (x_nodes x)) with false by (symmetry; apply Z.ltb_ge; lia).
      replace (zlen (c_untainted (x_cls x)) <? x_min x) with false by (symmetry; apply Z.ltb_ge; lia).
      simpl. rewrite Hp. reflexivity. }
    unfold band_by in Hband. unfold decide.
    set (st2 := with_lock (x_st x) _).
    split.
    + (* DeltaErr: only calc_delta can fail, i.e. the band is BUp *)
      intros tags d Hdec. apply c06_no_taint_journal; [apply no_update_no_taint; apply liftA_no_update|].
      right; left. rewrite Hband.
      destruct (flt (fmax cpuP memP) (of_Z (o_lower (x_opts x)))); [discriminate|].
      destruct (flt (fmax cpuP memP) (of_Z (o_upper (x_opts x)))); [discriminate|].
      destruct (fgt (fmax cpuP memP) (of_Z (o_up (x_opts x)))); [reflexivity | discriminate].
    + intros tags d0 Hdec.
      match goal with |- check_C06_group _ (r_calls (scan_act ?e ?o ?mn ?mx ?dry ?s2 ?aa ?pods ?unt ?tainted ?forced ?lag ?tg ?us ?cap ?d0 ?fz)) = true =>
         pose proof (scan_act_branches e o mn mx dry s2 aa pods unt tainted forced lag tg us cap d0 fz (lag_quiet _ _ _)) as Hbr end.
      cbv zeta in Hbr. unfold final_delta in Hbr.
      assert (Htrig : trigger_fires x = scale_on_starve (x_opts x) (x_max x) (usage_of x) (capacity_of x) (c_untainted (x_cls x))
                                         || scale_on_max_age (x_env x) (x_opts x) (x_min x) (c_untainted (x_cls x)) (c_tainted (x_cls x))) by reflexivity.
      set (starve := scale_on_starve (x_opts x) (x_max x) (usage_of x) (capacity_of x) (c_untainted (x_cls x))) in *.
      set (aged := scale_on_max_age (x_env x) (x_opts x) (x_min x) (c_untainted (x_cls x)) (c_tainted (x_cls x))) in *.
      set (d2 := if aged then Z.max (if starve then Z.max d0 1 else d0) 1 else (if starve then Z.max d0 1 else d0)) in *.
      assert (Hd2 : (trigger_fires x = true /\ 0 < d2) \/ (trigger_fires x = false /\ d2 = d0)).
      { rewrite Htrig. subst d2. destruct starve, aged; simpl; [left | left | left | right]; split; try reflexivity; lia. }
      clearbody d2. rewrite <- Hasg in Hbr |- *.
      destruct Hbr as [[Hneg [pre [Hq [[-> [g1 [n [Hrel [Hn Hb]]]]] | ->]]]] | [[Hpos [pre [a1 [Hq ->]]]] | [Hzero Hq]]].
      * (* scale-down that ended fatally before tainting *)
        eapply c06_fatal_journal; eauto.
      * (* scale-down *)
        destruct Hd2 as [[_ Hd2]|[Ht Hd2]]; [lia|]. subst d2.
        destruct (flt (fmax cpuP memP) (of_Z (o_lower (x_opts x)))).
        { inversion Hdec; subst d0. replace (- - o_fast (x_opts x)) with (o_fast (x_opts x)) by lia.
          apply c06_down_journal; auto; first [lia | (left; split; [exact Hband | reflexivity])]. }
        destruct (flt (fmax cpuP memP) (of_Z (o_upper (x_opts x)))).
        { inversion Hdec; subst d0. replace (- - o_slow (x_opts x)) with (o_slow (x_opts x)) by lia.
          apply c06_down_journal; auto; first [lia | (right; split; [exact Hband | reflexivity])]. }
        destruct (fgt (fmax cpuP memP) (of_Z (o_up (x_opts x)))); [apply calc_delta_nonneg in Hdec; lia | inversion Hdec; lia].
      * (* scale-up: a trigger fired or the band is BUp *)
        apply c06_no_taint_journal.
        { destruct Hq as [Hq1 Hq2]. apply no_taint_write_app; [apply no_update_no_taint; exact Hq1 | apply (scale_up_no_taint_write x)]. }
        destruct Hd2 as [[Ht _]|[Ht Hd2]]; [left; exact Ht|]. right; left. rewrite Hband. subst d2.
        destruct (flt (fmax cpuP memP) (of_Z (o_lower (x_opts x)))); [inversion Hdec; lia|].
        destruct (flt (fmax cpuP memP) (of_Z (o_upper (x_opts x)))); [inversion Hdec; lia|].
        destruct (fgt (fmax cpuP memP) (of_Z (o_up (x_opts x)))); [reflexivity | inversion Hdec; lia].
      * (* no-op *)
        destruct Hd2 as [[_ Hd2]|[Ht Hd2]]; [lia|]. subst d2.
        apply c06_quiet_journal; auto.
        { intros Eb _. rewrite Hband in Eb.
          destruct (flt (fmax cpuP memP) (of_Z (o_lower (x_opts x)))); [inversion Hdec; lia|].
          destruct (flt (fmax cpuP memP) (of_Z (o_upper (x_opts x)))); [discriminate|].
          destruct (fgt (fmax cpuP memP) (of_Z (o_up (x_opts x)))); discriminate. }
        { intros Eb _. rewrite Hband in Eb.
          destruct (flt (fmax cpuP memP) (of_Z (o_lower (x_opts x)))); [discriminate|].
          destruct (flt (fmax cpuP memP) (of_Z (o_upper (x_opts x)))); [inversion Hdec; lia|].
          destruct (fgt (fmax cpuP memP) (of_Z (o_up (x_opts x)))); discriminate. }
Qed.

(* ---------- C08 ---------- *)
Lemma sorted_app_le {A} (R : A -> A -> Prop) a : forall b, StronglySorted R (a ++ b) -> forall u v, In u a -> In v b -> R u v.
Proof.
  induction a as [|h a IH]; intros b Hs u v Hu Hv; [destruct Hu|].
  simpl in Hs. inversion Hs as [|? ? Hs' Hall]; subst. destruct Hu as [<-|Hu].
  - rewrite Forall_forall in Hall. apply Hall. apply in_or_app. right. exact Hv.
  - eapply IH; eauto.
Qed.

Lemma c08_no_taint x calls : no_taint_write x calls -> check_C08_group x calls = true.
Proof.
  intros H. unfold check_C08_group. destruct (x_dry x); [reflexivity|]. rewrite (no_taint_write_targets _ _ H).
  apply forallb_forall. intros y _. reflexivity.
Qed.

Lemma unique_by_name (l : list node) a b : NoDup (map n_name l) -> In a l -> In b l -> n_name a = n_name b -> a = b.
Proof.
  induction l as [|h l IH]; intros Hnd Ha Hb Hn; [destruct Ha|].
  simpl in Hnd. inversion Hnd as [|? ? Hnot Hnd']; subst.
  destruct Ha as [<-|Ha], Hb as [<-|Hb]; auto.
  - exfalso. apply Hnot. rewrite Hn. apply in_map. exact Hb.
  - exfalso. apply Hnot. rewrite <- Hn. apply in_map. exact Ha.
Qed.

Lemma c08_down x pre st want : x_cls x = filter_nodes (x_dry x) (x_st x) (x_nodes x) -> NoDup (map n_name (x_nodes x)) -> no_update pre ->
  check_C08_group x (pre ++ fst (fst (scale_down_taint (x_env x) (x_opts x) (x_min x) (x_dry x) st (c_untainted (x_cls x)) want))) = true.
Proof.
  intros Hcls Hnd Hpre. unfold check_C08_group. destruct (x_dry x) eqn:Hdry; [reflexivity|].
  set (unt := c_untainted (x_cls x)).
  assert (Hnd' : NoDup (map n_name unt)).
  { subst unt. rewrite Hcls. unfold filter_nodes; simpl. apply NoDup_map_filter. exact Hnd. }
  rewrite taint_ok_targets_app, failed_names_app, got_names_app. destruct (no_update_no_taint x pre Hpre) as [_ [_ ->]]. simpl app.
  rewrite <- Hdry. destruct (scale_down_taint_wet x (x_min x) st unt want Hdry) as [[_ ->]|[_ ->]].
  { apply forallb_forall. intros y _. reflexivity. }
  set (n := clamp_n (x_min x) unt want). set (run := tl_run (e_api (x_env x)) (e_korc (x_env x)) (sort_oldest unt) n 0).
  rewrite (run_targets x run), (run_got x run).
  destruct (run_nodes_eq (e_api (x_env x)) (e_korc (x_env x)) (sort_oldest unt) n 0) as [k Hk]. fold run in Hk.
  apply forallb_forall. intros y Hy. destruct (mem_id (n_name y) _) eqn:Ey; [|reflexivity].
  apply forallb_forall. intros z Hz. destruct (mem_id (n_name z) (map _ (filter _ run))) eqn:Ez; [reflexivity|].
  destruct (n_created z <? n_created y) eqn:Elt; [|reflexivity]. apply Z.ltb_lt in Elt.
  (* y was processed *)
  apply mem_id_In in Ey. apply in_map_iff in Ey. destruct Ey as [[y' ocy] [Hny Hiny]]. simpl in Hny. apply filter_In in Hiny. destruct Hiny as [Hiny Hwy]. simpl in Hwy.
  assert (Hy'run : In y' (map fst run)) by (apply in_map_iff; exists (y', ocy); auto).
  rewrite Hk in Hy'run.
  assert (Hy'unt : In y' unt) by (apply In_firstn in Hy'run; apply (proj1 (sort_oldest_In _ _)) in Hy'run; exact Hy'run).
  assert (y' = y) by (eapply unique_by_name; eauto). subst y'.
  (* z sits before y in the sorted list, hence was processed too *)
  assert (Hzs : In z (sort_oldest unt)) by (apply sort_oldest_In; exact Hz).
  rewrite <- (firstn_skipn k (sort_oldest unt)) in Hzs. apply in_app_or in Hzs.
  assert (Hzrun : In z (firstn k (sort_oldest unt))).
  { destruct Hzs as [Hzs|Hzs]; [exact Hzs|]. exfalso.
    assert (Hs : StronglySorted (leP (fun a b => n_created a <=? n_created b)) (firstn k (sort_oldest unt) ++ skipn k (sort_oldest unt))).
    { rewrite firstn_skipn. unfold sort_oldest. apply isort_sorted.
      - intros a b. destruct (Z.leb_spec (n_created a) (n_created b)); [left; reflexivity | right; apply Z.leb_le; lia].
      - intros a b c H1 H2. apply Z.leb_le in H1, H2. apply Z.leb_le. lia. }
    pose proof (sorted_app_le _ _ _ Hs y z Hy'run Hzs) as Hle. unfold leP in Hle. apply Z.leb_le in Hle. lia. }
  rewrite <- Hk in Hzrun. apply in_map_iff in Hzrun. destruct Hzrun as [[z' ocz] [Hz' Hzin]]. simpl in Hz'. subst z'.
  destruct (taint_outcome (e_api (x_env x)) (e_korc (x_env x)) (n_name z)) eqn:Eo.
  - (* wrote: then z is among the receivers *)
    exfalso. assert (Hin : In (n_name z) (map (fun p : node * toutcome => n_name (fst p)) (filter (fun p : node * toutcome => match taint_outcome (e_api (x_env x)) (e_korc (x_env x)) (n_name (fst p)) with TWrote => true | _ => false end) run))).
    { apply in_map_iff. exists (z, ocz). split; [reflexivity|]. apply filter_In. split; [exact Hzin|]. simpl. rewrite Eo. reflexivity. }
    apply mem_id_In in Hin. congruence.
  - (* already tainted according to the API server *)
    apply orb_true_iff. right. apply andb_true_iff. split.
    + apply mem_id_In. apply in_or_app. right. apply in_map_iff. exists (z, ocz). auto.
    + unfold taint_outcome in Eo. destruct (api_get (e_api (x_env x)) (e_korc (x_env x)) (n_name z)) as [u|] eqn:Eu; [|discriminate].
      unfold api_copy. rewrite (api_get_lookup x _ _ Eu). destruct (has_esc u); [reflexivity|].
      destruct (mem_id (n_name z) (ko_update_fail (e_korc (x_env x)))); discriminate.
  - apply orb_true_iff. left. apply mem_id_In. apply in_or_app. right. apply (run_failed x run (z, ocz)); [exact Hzin | exact Eo].
Qed.

Theorem group_passes_C08 now gdry api g a nodes pods :
  let x := ctx_of now gdry api g a nodes pods in
  NoDup (map n_name (x_nodes x)) ->
  check_C08_group x (r_calls (scan_of now gdry api g a nodes pods)) = true.
Proof.
  intros x Hnd.
  assert (Hcls : x_cls x = filter_nodes (x_dry x) (x_st x) (x_nodes x)) by reflexivity.
  apply (scan_of_frame (fun r => check_C08_group x (r_calls r) = true) now gdry api g a nodes pods x eq_refl).
  all: clearbody x.
  - intros. apply c08_no_taint. intros c [].
  - intros _ _ _ tags. apply c08_no_taint. apply (scale_up_no_taint_write x).
  - intros _ _ _ _ cpuP memP _. split.
    + intros tags d _. apply c08_no_taint. apply no_update_no_taint. apply liftA_no_update.
    + intros tags d0 _.
      match goal with |- check_C08_group _ (r_calls (scan_act ?e ?o ?mn ?mx ?dry ?s2 ?aa ?pods ?unt ?tainted ?forced ?lag ?tg ?us ?cap ?d0 ?fz)) = true =>
         pose proof (scan_act_branches e o mn mx dry s2 aa pods unt tainted forced lag tg us cap d0 fz (lag_quiet _ _ _)) as Hbr end.
      cbv zeta in Hbr. destruct Hbr as [[_ [pre [[Hp1 Hp2] [[-> _] | ->]]]] | [[_ [pre [a1 [[Hp1 Hp2] ->]]]] | [_ [Hq1 Hq2]]]].
      * apply c08_no_taint. apply no_update_no_taint. exact Hp1.
      * apply c08_down; assumption.
      * apply c08_no_taint. apply no_taint_write_app; [apply no_update_no_taint; exact Hp1 | apply (scale_up_no_taint_write x)].
      * apply c08_no_taint. apply no_update_no_taint. exact Hq1.
Qed.

(* ---------- the untaint loop as a run of outcomes ---------- *)
Inductive uoutcome := UWrote | UNoTaint | UFailed.

Definition untaint_outcome (api : list node) (o : korc) (name : id) : uoutcome :=
  match api_get api o name with
  | None => UFailed
  | Some u => match remove_swap (n_taints u) with
              | None => UNoTaint
              | Some _ => if mem_id name (ko_update_fail o) then UFailed else UWrote
              end
  end.

Definition uoc_counts (oc : uoutcome) : bool := match oc with UFailed => false | _ => true end.

Fixpoint ul_run (api : list node) (o : korc) (l : list node) (n count : Z) : list (node * uoutcome) :=
  match l with
  | [] => []
  | y :: rest =>
    if n <=? count then []
    else let oc := untaint_outcome api o (n_name y) in
         (y, oc) :: ul_run api o rest n (if uoc_counts oc then count + 1 else count)
  end.

Lemma untaint_loop_run e l : (forall y, In y l -> has_esc y = true) -> forall n count tr,
  fst (fst (untaint_loop e false l n count tr)) =
    concat (map (fun p => fst (delete_taint (e_api e) (e_korc e) (n_name (fst p)))) (ul_run (e_api e) (e_korc e) l n count))
  /\ snd (fst (untaint_loop e false l n count tr)) = count + zlen (filter (fun p => uoc_counts (snd p)) (ul_run (e_api e) (e_korc e) l n count)).
Proof.
  induction l as [|y l IH]; intros Hesc n count tr; simpl; [unfold zlen; simpl; split; [reflexivity | lia]|].
  destruct (n <=? count); [unfold zlen; simpl; split; [reflexivity | lia]|].
  rewrite (Hesc y (or_introl eq_refl)).
  assert (Hok : snd (delete_taint (e_api e) (e_korc e) (n_name y)) = uoc_counts (untaint_outcome (e_api e) (e_korc e) (n_name y))).
  { unfold delete_taint, untaint_outcome. destruct (api_get (e_api e) (e_korc e) (n_name y)) as [u|]; [|reflexivity].
    destruct (remove_swap (n_taints u)); [|reflexivity]. destruct (mem_id (n_name y) (ko_update_fail (e_korc e))); reflexivity. }
  destruct (delete_taint (e_api e) (e_korc e) (n_name y)) as [calls ok] eqn:Ea. simpl in Hok. subst ok.
  specialize (IH (fun z Hz => Hesc z (or_intror Hz)) n (if uoc_counts (untaint_outcome (e_api e) (e_korc e) (n_name y)) then count + 1 else count) tr).
  destruct (untaint_loop e false l n _ tr) as [[calls' c'] t']. simpl in IH. destruct IH as [IH1 IH2]. simpl.
  split; [rewrite IH1; simpl; rewrite Ea; reflexivity|]. rewrite IH2.
  destruct (uoc_counts (untaint_outcome (e_api e) (e_korc e) (n_name y))); simpl; rewrite ?zlen_cons; lia.
Qed.

Lemma ul_run_prefix api o l : forall n count, exists k, map fst (ul_run api o l n count) = firstn k l.
Proof.
  induction l as [|y l IH]; intros n count; simpl; [exists 0%nat; reflexivity|].
  destruct (n <=? count); [exists 0%nat; reflexivity|].
  destruct (IH n (if uoc_counts (untaint_outcome api o (n_name y)) then count + 1 else count)) as [k Hk]. exists (S k). simpl. rewrite Hk. reflexivity.
Qed.

(* if the loop ends short of n successes it has visited the whole list *)
Lemma ul_run_complete api o l : forall n count,
  count + zlen (filter (fun p => uoc_counts (snd p)) (ul_run api o l n count)) < n -> map fst (ul_run api o l n count) = l.
Proof.
  induction l as [|y l IH]; intros n count H; simpl; [reflexivity|].
  simpl in H. destruct (n <=? count) eqn:E; [apply Z.leb_le in E; unfold zlen in H; simpl in H; lia|].
  simpl in *. f_equal. apply IH.
  destruct (uoc_counts (untaint_outcome api o (n_name y))); simpl in H; rewrite ?zlen_cons in H; lia.
Qed.

Section UProj.
  Variable x : gctx.
  Notation api := (e_api (x_env x)).
  Notation o := (e_korc (x_env x)).
  Let uc (p : node * uoutcome) := fst (delete_taint api o (n_name (fst p))).

  Lemma untaint_ok_targets_app a b : untaint_ok_targets x (a ++ b) = untaint_ok_targets x a ++ untaint_ok_targets x b.
  Proof. unfold untaint_ok_targets. rewrite map_app, concat_app. reflexivity. Qed.

  Lemma one_untaint_got n : got_names (liftK (fst (delete_taint api o (n_name n)))) = [n_name n].
  Proof.
    unfold delete_taint. destruct (api_get api o (n_name n)) as [u|]; [|reflexivity].
    destruct (remove_swap (n_taints u)); [|reflexivity]. destruct (mem_id (n_name n) (ko_update_fail o)); reflexivity.
  Qed.

  Lemma urun_got run : got_names (liftK (concat (map uc run))) = map (fun p => n_name (fst p)) run.
  Proof.
    induction run as [|[n oc] run IH]; [reflexivity|]. simpl. rewrite liftK_app, got_names_app, IH. unfold uc. simpl.
    rewrite one_untaint_got. reflexivity.
  Qed.

  (* every visited node ends untainted by a write, or was not tainted in the API server's copy, or its write failed *)
  Lemma one_untaint_result n :
    let calls := liftK (fst (delete_taint api o (n_name n))) in
    In (n_name n) (untaint_ok_targets x calls) \/ In (n_name n) (failed_names calls)
    \/ (exists m, api_copy x (n_name n) = Some m /\ has_esc m = false).
  Proof.
    unfold delete_taint. destruct (api_get api o (n_name n)) as [u|] eqn:Eu; [|right; left; left; reflexivity].
    pose proof (api_get_lookup x _ _ Eu) as Hl.
    destruct (remove_swap (n_taints u)) as [ts|] eqn:Er.
    - destruct (mem_id (n_name n) (ko_update_fail o)); [right; left; left; reflexivity|].
      left. unfold untaint_ok_targets, liftK. simpl. unfold longer_than_copy, api_copy. rewrite Hl. simpl n_taints.
      destruct (remove_swap_perm _ _ Er) as [_ [_ H3]].
      replace (Nat.ltb (length (n_taints u)) (length ts)) with false by (symmetry; apply Nat.ltb_ge; lia). left. reflexivity.
    - right; right. exists u. split; [exact Hl|].
      unfold has_esc, has_key. clear -Er. induction (n_taints u) as [|t l IH]; [reflexivity|]. simpl in *.
      destruct (t_key t =? id_esc_key); [discriminate|]. simpl. apply IH. destruct (remove_swap l); [discriminate | reflexivity].
  Qed.

  Lemma urun_result run p : In p run ->
    let calls := liftK (concat (map uc run)) in
    In (n_name (fst p)) (untaint_ok_targets x calls) \/ In (n_name (fst p)) (failed_names calls)
    \/ (exists m, api_copy x (n_name (fst p)) = Some m /\ has_esc m = false).
  Proof.
    induction run as [|q run IH]; [intros []|]. intros [->|Hin]; simpl; rewrite liftK_app, untaint_ok_targets_app, failed_names_app.
    - destruct (one_untaint_result (fst p)) as [H|[H|H]]; [left | right; left | right; right; exact H]; apply in_or_app; left; exact H.
    - destruct (IH Hin) as [H|[H|H]]; [left | right; left | right; right; exact H]; apply in_or_app; right; exact H.
  Qed.
End UProj.

(* ---------- C07 ---------- *)
Definition inert (calls : list call) : Prop :=
  forall c, In c calls -> is_cloud_increase c = false /\ match c with CK (KGet _ _) => False | _ => True end.

Lemma inert_app a b : inert a -> inert b -> inert (a ++ b).
Proof. intros Ha Hb c Hc. apply in_app_or in Hc. destruct Hc; auto. Qed.
Lemma inert_got calls : inert calls -> got_names calls = [].
Proof.
  intros H. unfold got_names. induction calls as [|c l IH]; [reflexivity|]. simpl.
  rewrite IH by (intros c' Hc'; apply H; right; exact Hc').
  destruct (H c (or_introl eq_refl)) as [_ Hg]. destruct c as [[]|]; simpl in *; try reflexivity; contradiction.
Qed.
Lemma inert_cbi pre l : inert pre -> calls_before_increase (pre ++ l) = pre ++ calls_before_increase l.
Proof.
  intros H. induction pre as [|c pre IH]; [reflexivity|]. simpl.
  destruct (H c (or_introl eq_refl)) as [-> _]. f_equal. apply IH. intros c' Hc'. apply H. right. exact Hc'.
Qed.
Lemma inert_no_increase calls : inert calls -> existsb is_cloud_increase calls = false.
Proof. intros H. apply no_increase_existsb. intros c Hc. apply H. exact Hc. Qed.
Lemma removal_inert a cands calls : (forall c, In c calls -> removal_of a cands c) -> inert calls.
Proof. intros H c Hc. destruct (H c Hc); split; try reflexivity; exact I. Qed.
Lemma lag_inert e st nodes : inert (liftA (registration_lag_calls e st nodes)).
Proof.
  intros c Hc. split; [apply (lag_no_increase e st nodes c Hc)|].
  unfold liftA in Hc. apply in_map_iff in Hc. destruct Hc as [k [<- _]]. exact I.
Qed.
Lemma liftA_got l : got_names (liftA l) = [].
Proof. unfold got_names, liftA. induction l as [|c l IH]; [reflexivity | exact IH]. Qed.
Lemma liftK_cbi l rest : calls_before_increase (liftK l ++ rest) = liftK l ++ calls_before_increase rest.
Proof. unfold liftK. induction l as [|c l IH]; [reflexivity|]. simpl. f_equal. exact IH. Qed.
Lemma liftK_increase l : existsb is_cloud_increase (liftK l) = false.
Proof. apply no_increase_existsb. apply liftK_no_increase. Qed.

Lemma find_node_unique l y : NoDup (map n_name l) -> In y l -> find_node l (n_name y) = Some y.
Proof.
  induction l as [|h l IH]; intros Hnd Hin; [destruct Hin|]. unfold find_node. simpl.
  inversion Hnd as [|? ? Hnot Hnd']; subst. destruct Hin as [->|Hin]; [rewrite Z.eqb_refl; reflexivity|].
  destruct (n_name h =? n_name y) eqn:E; [|apply IH; assumption].
  apply Z.eqb_eq in E. exfalso. apply Hnot. rewrite E. apply in_map. exact Hin.
Qed.

Lemma non_increasing_sorted l : StronglySorted (fun a b => n_created b <= n_created a) l -> non_increasing (map n_created l) = true.
Proof.
  induction 1 as [|h l Hs IH Hall]; [reflexivity|]. simpl. rewrite IH, andb_true_r.
  destruct l as [|h2 l2]; [reflexivity|]. simpl. apply Z.leb_le. inversion Hall; subst. assumption.
Qed.

Lemma sorted_firstn {A} (R : A -> A -> Prop) k : forall l, StronglySorted R l -> StronglySorted R (firstn k l).
Proof.
  induction k as [|k IH]; intros l Hs; [constructor|]. destruct l as [|h l]; [constructor|].
  simpl. inversion Hs as [|? ? Hs' Hall]; subst. constructor; [apply IH; exact Hs'|].
  rewrite Forall_forall in *. intros y Hy. apply Hall. eapply In_firstn. exact Hy.
Qed.

Lemma sort_newest_sorted l : StronglySorted (fun a b => n_created b <= n_created a) (sort_newest l).
Proof.
  unfold sort_newest.
  assert (H : StronglySorted (leP (fun a b : node => n_created b <=? n_created a)) (isort (fun a b : node => n_created b <=? n_created a) l)).
  { apply isort_sorted.
    - intros a b. destruct (Z.leb_spec (n_created b) (n_created a)); [left; reflexivity | right; apply Z.leb_le; lia].
    - intros a b c H1 H2. apply Z.leb_le in H1, H2. apply Z.leb_le. lia. }
  induction H as [|h t Hs IH Hall]; constructor; [exact IH|]. eapply Forall_impl; [|exact Hall]. intros y Hy. unfold leP in Hy. apply Z.leb_le. exact Hy.
Qed.

Section C07.
  Variable x : gctx.
  Notation api := (e_api (x_env x)).
  Notation o := (e_korc (x_env x)).
  Hypothesis Hdry : x_dry x = false.
  Hypothesis Hcls : x_cls x = filter_nodes (x_dry x) (x_st x) (x_nodes x).
  Hypothesis Hnd : NoDup (map n_name (x_nodes x)).
  Notation tainted := (c_tainted (x_cls x)).

  Lemma tainted_nodup : NoDup (map n_name tainted).
  Proof. rewrite Hcls. unfold filter_nodes; simpl. apply NoDup_map_filter. exact Hnd. Qed.

  Lemma tainted_has_esc y : In y tainted -> has_esc y = true.
  Proof. rewrite Hcls, Hdry. intros H. apply in_tainted in H. destruct H as [_ H]. apply classify_wet_1 in H. tauto. Qed.

  Lemma c07_quiet calls : inert calls -> check_C07_group x calls = true.
  Proof.
    intros H. unfold check_C07_group. rewrite Hdry, (inert_got _ H), (inert_no_increase _ H). reflexivity.
  Qed.

  (* a journal of lookups and writes on untainted nodes only *)
  Lemma c07_untainted_gets pre kc : inert pre -> (forall c, In c (liftK kc) -> exists y, In y (c_untainted (x_cls x)) /\ match c with CK (KGet m _) => m = n_name y | _ => True end) ->
    check_C07_group x (pre ++ liftK kc) = true.
  Proof.
    intros Hpre Hk. unfold check_C07_group. rewrite Hdry. rewrite existsb_app, (inert_no_increase _ Hpre), liftK_increase. simpl. rewrite andb_true_r.
    rewrite got_names_app, (inert_got _ Hpre). simpl app.
    assert (Hf : filter (in_class (c_tainted (x_cls x))) (got_names (liftK kc)) = []).
    { apply filter_nil. intros name Hname. unfold got_names in Hname. apply in_concat in Hname. destruct Hname as [l [Hl Hname]].
      apply in_map_iff in Hl. destruct Hl as [c [<- Hc]]. destruct (Hk c Hc) as [y [Hy Hm]].
      destruct c as [[m ok|m pp ok|m ok]|ac]; simpl in Hname; try contradiction. destruct Hname as [<-|[]]. subst m.
      destruct (in_class (c_tainted (x_cls x)) (n_name y)) eqn:E; [|reflexivity]. exfalso.
      apply in_class_iff in E. destruct E as [z [Hz Hzn]].
      rewrite Hcls, Hdry in Hy, Hz. apply in_untainted in Hy. apply in_tainted in Hz. destruct Hy as [Hy1 Hy2], Hz as [Hz1 Hz2].
      assert (z = y) by (eapply unique_by_name; eauto). subst z. congruence. }
    rewrite Hf. reflexivity.
  Qed.

  Lemma c07_up pre run ac k :
    inert pre -> map fst run = firstn k (sort_newest tainted) ->
    (existsb is_cloud_increase (liftA ac) = true -> map fst run = sort_newest tainted) ->
    check_C07_group x (pre ++ liftK (concat (map (fun p : node * uoutcome => fst (delete_taint api o (n_name (fst p)))) run)) ++ liftA ac) = true.
  Proof.
    intros Hpre Hk Hcomplete. unfold check_C07_group. rewrite Hdry.
    set (U := liftK (concat (map (fun p : node * uoutcome => fst (delete_taint api o (n_name (fst p)))) run))).
    rewrite !got_names_app, (inert_got _ Hpre), liftA_got, app_nil_r. simpl app.
    unfold U at 1. rewrite (urun_got x run).
    assert (Hin_run : forall p, In p run -> In (fst p) tainted).
    { intros p Hp. assert (H : In (fst p) (map fst run)) by (apply in_map; exact Hp). rewrite Hk in H. apply In_firstn in H.
      apply (proj1 (sort_newest_In _ _)) in H. exact H. }
    assert (Hfilter : filter (in_class (c_tainted (x_cls x))) (map (fun p : node * uoutcome => n_name (fst p)) run) = map (fun p : node * uoutcome => n_name (fst p)) run).
    { clear -Hin_run. induction run as [|p run IH]; [reflexivity|]. simpl.
      rewrite (in_class_In _ _ (Hin_run p (or_introl eq_refl))). f_equal. apply IH. intros q Hq. apply Hin_run. right. exact Hq. }
    rewrite Hfilter.
    assert (Hcreated : map (created_of tainted) (map (fun p : node * uoutcome => n_name (fst p)) run) = map n_created (map fst run)).
    { rewrite !map_map. apply map_ext_in. intros p Hp. unfold created_of. rewrite (find_node_unique tainted (fst p) tainted_nodup (Hin_run p Hp)). reflexivity. }
    rewrite Hcreated, Hk. rewrite (non_increasing_sorted _ (sorted_firstn _ k _ (sort_newest_sorted tainted))). simpl.
    rewrite !existsb_app, (inert_no_increase _ Hpre). unfold U at 1. rewrite liftK_increase. simpl.
    destruct (existsb is_cloud_increase (liftA ac)) eqn:Einc; [|reflexivity].
    rewrite (inert_cbi _ _ Hpre). unfold U. rewrite liftK_cbi. fold U.
    specialize (Hcomplete eq_refl).
    apply forallb_forall. intros y Hy.
    assert (Hyrun : In y (map fst run)) by (rewrite Hcomplete; apply sort_newest_In; exact Hy).
    apply in_map_iff in Hyrun. destruct Hyrun as [p [Hpy Hp]]. subst y.
    rewrite !got_names_app, (inert_got _ Hpre). simpl app. unfold U at 1. rewrite (urun_got x run).
    replace (mem_id (n_name (fst p)) (map (fun p0 : node * uoutcome => n_name (fst p0)) run ++ got_names (calls_before_increase (liftA ac)))) with true
      by (symmetry; apply mem_id_In; apply in_or_app; left; apply in_map_iff; exists p; auto).
    simpl.
    destruct (urun_result x run p Hp) as [H|[H|[m [Hm1 Hm2]]]].
    + apply orb_true_iff. left. apply orb_true_iff. left. apply mem_id_In.
      rewrite !untaint_ok_targets_app. apply in_or_app. right. apply in_or_app. left. exact H.
    + apply orb_true_iff. left. apply orb_true_iff. right. apply mem_id_In.
      rewrite !failed_names_app. apply in_or_app. right. apply in_or_app. left. exact H.
    + apply orb_true_iff. right. rewrite Hm1, Hm2. reflexivity.
  Qed.
End C07.

Lemma scale_up_shape x mx st a want : x_dry x = false -> (forall y, In y (c_tainted (x_cls x)) -> has_esc y = true) ->
  let run := ul_run (e_api (x_env x)) (e_korc (x_env x)) (sort_newest (c_tainted (x_cls x))) want 0 in
  exists ac, up_calls (scale_up (x_env x) (x_opts x) mx (x_dry x) st a (c_tainted (x_cls x)) want)
             = liftK (concat (map (fun p : node * uoutcome => fst (delete_taint (e_api (x_env x)) (e_korc (x_env x)) (n_name (fst p)))) run)) ++ liftA ac
            /\ (ac <> [] -> map fst run = sort_newest (c_tainted (x_cls x))).
Proof.
  intros Hdry Hesc run. unfold scale_up. rewrite Hdry.
  assert (Hesc' : forall y, In y (sort_newest (c_tainted (x_cls x))) -> has_esc y = true) by (intros y Hy; apply Hesc; apply (proj1 (sort_newest_In _ _)); exact Hy).
  pose proof (untaint_loop_run (x_env x) (sort_newest (c_tainted (x_cls x))) Hesc' want 0 (g_taint_tracker st)) as [H1 H2]. fold run in H1, H2.
  set (ul := match c_tainted (x_cls x) with [] => ([], 0, g_taint_tracker st) | _ => untaint_loop (x_env x) false (sort_newest (c_tainted (x_cls x))) want 0 (g_taint_tracker st) end).
  assert (Hul : fst (fst ul) = concat (map (fun p : node * uoutcome => fst (delete_taint (e_api (x_env x)) (e_korc (x_env x)) (n_name (fst p)))) run)
                /\ snd (fst ul) = 0 + zlen (filter (fun p : node * uoutcome => uoc_counts (snd p)) run)).
  { subst ul. destruct (c_tainted (x_cls x)) as [|t0 ts] eqn:Et; [|split; assumption].
    subst run. unfold sort_newest. simpl. unfold zlen. simpl. split; reflexivity. }
  destruct ul as [[ucalls ucount] tr]. simpl in Hul. destruct Hul as [Hu1 Hu2]. subst ucalls.
  assert (Hnil : forall l : list call, l = l ++ liftA []) by (intros; rewrite app_nil_r; reflexivity).
  destruct (0 <? want - ucount) eqn:Erest; [|exists []; split; [apply Hnil | congruence]]. apply Z.ltb_lt in Erest.
  assert (Hcomplete : map fst run = sort_newest (c_tainted (x_cls x))) by (apply ul_run_complete; fold run; lia).
  destruct a as [g|]; [|exists []; split; [apply Hnil | congruence]].
  destruct (nodes_to_add _ _ _ <=? 0); [exists []; split; [apply Hnil | congruence]|].
  destruct (aws_increase g _ _) as [[ac r] g'].
  exists ac. split; [destruct r; reflexivity | intros _; exact Hcomplete].
Qed.

Theorem group_passes_C07 now gdry api g a nodes pods :
  let x := ctx_of now gdry api g a nodes pods in
  NoDup (map n_name (x_nodes x)) ->
  check_C07_group x (r_calls (scan_of now gdry api g a nodes pods)) = true.
Proof.
  intros x Hnd.
  destruct (x_dry x) eqn:Hdry; [unfold check_C07_group; rewrite Hdry; reflexivity|].
  assert (Hcls : x_cls x = filter_nodes (x_dry x) (x_st x) (x_nodes x)) by reflexivity.
  assert (Hup : forall pre mx st a1 want, inert pre ->
            check_C07_group x (pre ++ up_calls (scale_up (x_env x) (x_opts x) mx (x_dry x) st a1 (c_tainted (x_cls x)) want)) = true).
  { intros pre mx st a1 want Hpre.
    destruct (scale_up_shape x mx st a1 want Hdry (tainted_has_esc x Hdry Hcls)) as [ac [-> Hc]]. cbv zeta in Hc.
    destruct (ul_run_prefix (e_api (x_env x)) (e_korc (x_env x)) (sort_newest (c_tainted (x_cls x))) want 0) as [k Hk].
    eapply (c07_up x Hdry Hcls Hnd pre _ ac k Hpre Hk).
    intros Hinc. apply Hc. intros ->. discriminate. }
  apply (scan_of_frame (fun r => check_C07_group x (r_calls r) = true) now gdry api g a nodes pods x eq_refl).
  all: clearbody x.
  - intros. apply (c07_quiet x Hdry). intros c [].
  - intros _ _ _ tags. apply (Hup []). intros c [].
  - intros _ _ _ _ cpuP memP _. split.
    + intros tags d _. apply (c07_quiet x Hdry). apply lag_inert.
    + intros tags d0 _. unfold scan_act.
      destruct (try_delete_nodes _ _ (force_candidates _ _ _)) as [[fcalls ferr] a1] eqn:Ef.
      destruct (try_delete_nodes_calls _ _ _ _ _ _ Ef) as [_ [Hf _]]. apply removal_inert in Hf.
      match goal with |- context [if ?d <? 0 then _ else _] => set (d2 := d) end.
      destruct (d2 <? 0).
      * destruct (try_delete_nodes _ a1 (reap_candidates _ _ _ _ _)) as [[rcalls rerr] a2] eqn:Er.
        destruct (try_delete_nodes_calls _ _ _ _ _ _ Er) as [_ [Hr _]]. apply removal_inert in Hr.
        destruct (scale_down_taint _ _ _ _ _ _ _) as [[tcalls terr] st3] eqn:Et.
        assert (Hpre : inert (liftA (registration_lag_calls (x_env x) (with_lock (x_st x) (snd (lock_check (g_lock (x_st x)) (e_now (x_env x)) (o_cool (x_opts x))))) (x_nodes x)) ++ fcalls ++ rcalls))
          by (repeat apply inert_app; try assumption; apply lag_inert).
        destruct rerr as [[|]|]; simpl; try (apply (c07_quiet x Hdry); exact Hpre).
        all: rewrite !app_assoc; rewrite <- (app_assoc _ fcalls rcalls).
        all: pose proof (scale_down_taint_wet x (x_min x) (with_lock (x_st x) (snd (lock_check (g_lock (x_st x)) (e_now (x_env x)) (o_cool (x_opts x))))) (c_untainted (x_cls x)) (- d2) Hdry) as Hw;
             cbv zeta in Hw; rewrite Et in Hw; simpl in Hw.
        all: destruct Hw as [[_ ->]|[_ ->]]; [rewrite app_nil_r; apply (c07_quiet x Hdry); exact Hpre|].
        all: apply (c07_untainted_gets x Hdry Hcls Hnd); [exact Hpre|].
        all: intros c Hc; unfold liftK in Hc; apply in_map_iff in Hc; destruct Hc as [kc [<- Hkc]]; apply in_concat in Hkc; destruct Hkc as [l [Hl Hkc]];
             apply in_map_iff in Hl; destruct Hl as [p [<- Hp]];
             (assert (Hpn : In (fst p) (c_untainted (x_cls x)));
              [ assert (Hq : In (fst p) (map fst (tl_run (e_api (x_env x)) (e_korc (x_env x)) (sort_oldest (c_untainted (x_cls x))) (clamp_n (x_min x) (c_untainted (x_cls x)) (- d2)) 0))) by (apply in_map; exact Hp);
                destruct (tl_run_prefix (e_api (x_env x)) (e_korc (x_env x)) (sort_oldest (c_untainted (x_cls x))) (clamp_n (x_min x) (c_untainted (x_cls x)) (- d2)) 0) as [k Hk];
                rewrite Hk in Hq; apply In_firstn in Hq; apply (proj1 (sort_oldest_In _ _)) in Hq; exact Hq
              | exists (fst p); split; [exact Hpn|]; pose proof (add_taint_names _ _ _ _ _ _ Hkc) as Hm; destruct kc; auto ]).
      * destruct (0 <? d2).
        -- assert (Hpre : inert (liftA (registration_lag_calls (x_env x) (with_lock (x_st x) (snd (lock_check (g_lock (x_st x)) (e_now (x_env x)) (o_cool (x_opts x))))) (x_nodes x)) ++ fcalls))
             by (apply inert_app; [apply lag_inert | assumption]).
           destruct (up_out _); simpl; rewrite app_assoc; apply Hup; exact Hpre.
        -- destruct (try_delete_nodes _ a1 (reap_candidates _ _ _ _ _)) as [[rcalls rerr] a2] eqn:Er.
           destruct (try_delete_nodes_calls _ _ _ _ _ _ Er) as [_ [Hr _]]. apply removal_inert in Hr.
           destruct rerr as [[|]|]; simpl; apply (c07_quiet x Hdry); repeat apply inert_app; try assumption; apply lag_inert.
Qed.

(* C10's reuse clause is the restriction of C07's to the protected nodes *)
Lemma c07_implies_c10_reuse x calls : check_C07_group x calls = true -> check_C10_reuse x calls = true.
Proof.
  unfold check_C07_group, check_C10_reuse. destruct (x_dry x); [reflexivity|].
  intros H. apply andb_true_iff in H. destruct H as [_ H].
  destruct (existsb is_cloud_increase calls); [|reflexivity].
  rewrite forallb_forall in H. apply forallb_forall. intros n Hn. specialize (H n Hn).
  destruct (safe_from_deletion n && negb (has_force n)); [|reflexivity].
  apply andb_true_iff in H. exact (proj1 H).
Qed.

Theorem group_passes_C10_reuse now gdry api g a nodes pods :
  let x := ctx_of now gdry api g a nodes pods in
  NoDup (map n_name (x_nodes x)) ->
  check_C10_reuse x (r_calls (scan_of now gdry api g a nodes pods)) = true.
Proof. intros x Hnd. apply c07_implies_c10_reuse. apply group_passes_C07. exact Hnd. Qed.
