(* ScanHistory.v — histories of scans of one group within one controller lifetime: the controller's memory is threaded
   from scan to scan, everything else (listed objects, API server content, cloud group, failure oracles, clock) is
   arbitrary at every scan.  C02 over histories. *)
From Esc Require Import SpecScan SpecAws proofs.BaseProofs proofs.AwsProofs proofs.ScanLemmas proofs.ScanChecks proofs.ScanState.
From Coq Require Import Sorted.

Record scan_in := {
  si_now : Z; si_gdry : bool; si_api : list node; si_aorc : aorc; si_korc : korc; si_descfail : bool;
  si_asg : option asg; si_nodes : list node; si_pods : list pod
}.

Definition group_at (o : opts) (st : gstate) (i : scan_in) : group_in :=
  {| gi_opts := o; gi_state := st; gi_aorc := si_aorc i; gi_korc := si_korc i; gi_descinst_fail := si_descfail i |}.

Definition scan_at (o : opts) (st : gstate) (i : scan_in) : gresult :=
  scan_of (si_now i) (si_gdry i) (si_api i) (group_at o st i) (si_asg i) (si_nodes i) (si_pods i).
Definition ctx_at (o : opts) (st : gstate) (i : scan_in) : gctx :=
  ctx_of (si_now i) (si_gdry i) (si_api i) (group_at o st i) (si_asg i) (si_nodes i) (si_pods i).

(* RunOnce stores the returned delta, everything else is what the scan left *)
Definition next_state (r : gresult) : gstate := with_delta (r_state r) (r_ret r).

Fixpoint run_hist (o : opts) (st : gstate) (ins : list scan_in) : list (scan_in * gstate * gresult) :=
  match ins with
  | [] => []
  | i :: rest => let r := scan_at o st i in (i, st, r) :: run_hist o (next_state r) rest
  end.

Fixpoint state_after (o : opts) (st : gstate) (ins : list scan_in) : gstate :=
  match ins with [] => st | i :: rest => state_after o (next_state (scan_at o st i)) rest end.

Lemma lock_same_eq a b : lock_same a b = true -> a = b.
Proof.
  unfold lock_same. intros H. apply andb_prop in H. destruct H as [H H3]. apply andb_prop in H. destruct H as [H1 H2].
  apply Bool.eqb_prop in H1. apply Z.eqb_eq in H3. destruct a as [la ta ra], b as [lb tb rb]; simpl in *. subst.
  destruct ta, tb; simpl in H2; try discriminate; [apply Z.eqb_eq in H2; subst|]; reflexivity.
Qed.

Lemma ctx_at_lock o st i : g_lock (x_st (ctx_at o st i)) = g_lock st.
Proof. unfold ctx_at, ctx_of. simpl. destruct (group_nodes o (si_nodes i)); reflexivity. Qed.

Lemma in_cooldown_at o st i t : l_time (g_lock st) = Some t -> 0 <= si_now i - t < o_cool o -> o_cool o <= max_int64 ->
  in_cooldown (ctx_at o st i) = true.
Proof.
  intros Ht Hd Hc. unfold in_cooldown. rewrite ctx_at_lock. unfold lock_since. rewrite Ht.
  change (e_now (x_env (ctx_at o st i))) with (si_now i). change (o_cool (x_opts (ctx_at o st i))) with (o_cool o).
  apply Z.ltb_lt. unfold sat64, min_int64, max_int64 in *.
  destruct (si_now i - t <? -9223372036854775808) eqn:E1; [apply Z.ltb_lt in E1; lia|].
  destruct (9223372036854775807 <? si_now i - t) eqn:E2; [apply Z.ltb_lt in E2; lia | lia].
Qed.

(* one scan inside the cool-down: no write, lock untouched *)
Lemma cooldown_scan o st i : in_cooldown (ctx_at o st i) = true ->
  writes (r_calls (scan_at o st i)) = [] /\ g_lock (next_state (scan_at o st i)) = g_lock st.
Proof.
  intros Hc. pose proof (group_passes_C02 (si_now i) (si_gdry i) (si_api i) (group_at o st i) (si_asg i) (si_nodes i) (si_pods i)) as H.
  cbv zeta in H. fold (ctx_at o st i) in H. fold (scan_at o st i) in H. unfold check_C02_group in H. rewrite Hc in H.
  apply andb_prop in H. destruct H as [H _]. apply andb_prop in H. destruct H as [H _]. apply andb_prop in H. destruct H as [H1 H2].
  split.
  - destruct (writes (r_calls (scan_at o st i))); [reflexivity | discriminate].
  - apply lock_same_eq in H2. unfold next_state. simpl. rewrite H2. apply ctx_at_lock.
Qed.

(* a scan whose increase the cloud completed (SetDesiredCapacity accepted, or a fleet request accepted and attached in
   full) leaves the lock armed at its own instant *)
Lemma armed_scan o st i : increase_done (r_calls (scan_at o st i)) = true ->
  l_time (g_lock (next_state (scan_at o st i))) = Some (si_now i).
Proof.
  intros Hs. pose proof (group_passes_C02 (si_now i) (si_gdry i) (si_api i) (group_at o st i) (si_asg i) (si_nodes i) (si_pods i)) as H.
  cbv zeta in H. fold (ctx_at o st i) in H. fold (scan_at o st i) in H. unfold check_C02_group in H. rewrite Hs in H.
  apply andb_prop in H. destruct H as [_ H]. apply andb_prop in H. destruct H as [_ H].
  unfold next_state. simpl. unfold time_is in H. change (e_now (x_env (ctx_at o st i))) with (si_now i) in H.
  destruct (l_time (g_lock (r_state (scan_at o st i)))) as [v|]; [|discriminate]. apply Z.eqb_eq in H. subst. reflexivity.
Qed.

(* while the clock stays inside the window, every scan is quiet and the lock time does not move *)
Lemma quiet_window o t : o_cool o <= max_int64 -> forall ins st,
  l_time (g_lock st) = Some t -> (forall i, In i ins -> 0 <= si_now i - t < o_cool o) ->
  (forall q, In q (run_hist o st ins) -> writes (r_calls (snd q)) = []) /\ l_time (g_lock (state_after o st ins)) = Some t.
Proof.
  intros Hc. induction ins as [|i rest IH]; intros st Ht Hw; simpl; [split; [intros q [] | exact Ht]|].
  assert (Hcool : in_cooldown (ctx_at o st i) = true) by (eapply in_cooldown_at; eauto; apply Hw; left; reflexivity).
  destruct (cooldown_scan o st i Hcool) as [Hq Hl].
  destruct (IH (next_state (scan_at o st i))) as [IH1 IH2]; [rewrite Hl; exact Ht | intros j Hj; apply Hw; right; exact Hj|].
  split; [|exact IH2]. intros q [<-|Hq']; [exact Hq | apply IH1; exact Hq'].
Qed.

Lemma run_hist_app o st a b : run_hist o st (a ++ b) = run_hist o st a ++ run_hist o (state_after o st a) b.
Proof. revert st. induction a as [|i a IH]; intros st; simpl; [reflexivity|]. rewrite IH. reflexivity. Qed.

(* C02 over histories: after the cloud completed an increase for the group (an accepted SetDesiredCapacity, or a fleet
   request accepted and attached in full) at the instant of scan i, every later
   scan of the same controller lifetime whose instant is less than the cool-down after it issues no write of any kind —
   whatever the cluster looks like in those scans, whatever fails, for every spacing of the scans *)
Theorem c02_history o st pre i mid :
  0 <= o_cool o <= max_int64 ->
  let st_i := state_after o st pre in
  increase_done (r_calls (scan_at o st_i i)) = true ->
  (forall j, In j mid -> 0 <= si_now j - si_now i < o_cool o) ->
  forall q, In q (run_hist o (next_state (scan_at o st_i i)) mid) -> writes (r_calls (snd q)) = [].
Proof.
  intros Hc st_i Hacc Hw q Hq.
  pose proof (armed_scan o st_i i Hacc) as Harm.
  destruct (quiet_window o (si_now i) (proj2 Hc) mid (next_state (scan_at o st_i i)) Harm Hw) as [H _]. apply H. exact Hq.
Qed.

(* ... and the lock never outlives the cool-down: the first scan at or after lock time + cool-down finds the group
   unlocked, whatever the flag says *)
Theorem c02_history_release o st i t : l_time (g_lock st) = Some t -> o_cool o <= sat64 (si_now i - t) ->
  in_cooldown (ctx_at o st i) = false.
Proof.
  intros Ht H. unfold in_cooldown. rewrite ctx_at_lock. unfold lock_since. rewrite Ht.
  change (e_now (x_env (ctx_at o st i))) with (si_now i). change (o_cool (x_opts (ctx_at o st i))) with (o_cool o).
  apply Z.ltb_ge. exact H.
Qed.
