(* ConfigProofs.v — lemmas for C16.  The soundness proof is written against the hand-written validation MODEL
   (`model_rules` of SpecConfig.v; nothing here depends on coq/Generated.v): it turns
   `forallb (fun r => r c) model_rules = true` into one hypothesis per rule (whatever their number and order) and proves
   each conjunct of `safe` from the whole set with lia (ZifyBool) plus case analysis on the string literals of the
   documented sets.  It fails when a rule that a conjunct needs is removed from the model or weakened.
   (The same tactics are re-used by proofs/ConfigGenAgree.v on the rule list re-derived from the source.) *)
From Coq Require Import String ZArith List Bool Lia.
Require Import ZifyBool.
From Esc Require Import SpecConfig.
Import ListNotations.
Open Scope string_scope.
Open Scope Z_scope.

(* ---- strings: emptiness, length ---- *)
Lemma slen_nonneg : forall s, 0 <= slen s.
Proof. intro s. unfold slen. lia. Qed.

Lemma slen_zero_iff : forall s, slen s = 0 <-> s = "".
Proof. intro s. unfold slen. destruct s; simpl; split; intro H; try reflexivity; try discriminate; lia. Qed.

Lemma slen_nonzero_neq : forall s, slen s <> 0 -> s <> "".
Proof. intros s H E. apply H. apply slen_zero_iff. exact E. Qed.

Lemma eqb_empty_slen : forall s, String.eqb s "" = (slen s =? 0).
Proof. intro s. destruct s; reflexivity. Qed.

Lemma eqb_empty_slen' : forall s, String.eqb "" s = (slen s =? 0).
Proof. intro s. rewrite String.eqb_sym. apply eqb_empty_slen. Qed.

Lemma neq_eqb_false : forall a b : string, a <> b -> String.eqb a b = false /\ String.eqb b a = false.
Proof. intros a b H. split; apply String.eqb_neq; congruence. Qed.

Lemma nonempty_true_iff : forall s, nonempty s = true <-> s <> "".
Proof. intro s. unfold nonempty. rewrite negb_true_iff. apply String.eqb_neq. Qed.

Lemma mem_str_In : forall s l, mem_str s l = true <-> In s l.
Proof.
  intros s l. unfold mem_str. rewrite existsb_exists. split.
  - intros [x [Hin He]]. apply String.eqb_eq in He. subst. exact Hin.
  - intro H. exists s. split; [exact H | apply String.eqb_refl].
Qed.

Lemma dur_parse_ok_iff : forall d, dur_parse_ok d = true <-> d_parse d <> None.
Proof. intro d. unfold dur_parse_ok. destruct (d_parse d); split; intro H; try reflexivity; try discriminate; congruence. Qed.

(* ---- the boolean checker decides `safe` ---- *)
Lemma safe_b_iff : forall c, safe_b c = true <-> safe c.
Proof.
  intro c. unfold safe_b, safe, max_node_age_valid.
  rewrite !andb_true_iff, !orb_true_iff, !andb_true_iff, !nonempty_true_iff, !mem_str_In, dur_parse_ok_iff, String.eqb_eq.
  rewrite !Z.ltb_lt, !Z.leb_le, !Z.eqb_eq. tauto.
Qed.

Lemma check_C16_iff : forall c accepted, check_C16 c accepted = true <-> P_C16 c accepted.
Proof.
  intros c [|]; unfold check_C16, P_C16.
  - rewrite safe_b_iff. tauto.
  - split; [discriminate | reflexivity].
Qed.

(* ---- number of problems vs verdict ---- *)
Lemma filter_nil_forallb : forall (A : Type) (f : A -> bool) l, length (filter (fun x => negb (f x)) l) = 0%nat <-> forallb f l = true.
Proof.
  induction l as [|x l IH]; simpl; [tauto|].
  destruct (f x); simpl; [exact IH | split; discriminate].
Qed.

Lemma problems_of_zero : forall rules c, problems_of rules c = 0 <-> forallb (fun r => r c) rules = true.
Proof.
  intros rules c. unfold problems_of. rewrite <- (filter_nil_forallb _ (fun r => r c)). lia.
Qed.

Lemma model_problems_zero : forall c, model_problems c = 0 <-> model_validate c = true.
Proof. intro c. apply problems_of_zero. Qed.

(* ---- from the rule list to one hypothesis per rule ---- *)
Ltac unfold_model_helpers_in H :=
  unfold auto_discover_min_max, valid_taint_effect, valid_aws_lifecycle, valid_max_node_age, taint_effect_types in H.

Ltac split_rules H :=
  unfold model_validate, model_rules in H; cbn [forallb] in H; cbv beta in H; unfold_model_helpers_in H;
  repeat (let R := fresh "R" in apply andb_prop in H; destruct H as [R H]); clear H.

(* the two spellings of "is empty" for a string, and 0 <= len *)
Ltac bridge_str s :=
  pose proof (eqb_empty_slen s); pose proof (eqb_empty_slen' s); pose proof (slen_nonneg s).

(* drop every hypothesis that does not mention e (keeps lia's case analysis small) *)
Ltac keep_only e :=
  repeat match goal with
         | H : ?T |- _ => lazymatch T with context [e] => fail | _ => clear H end
         end.

(* goal `s <> ""` *)
Ltac nonempty_goal :=
  match goal with |- ?s <> _ => keep_only s; bridge_str s; apply slen_nonzero_neq; lia end.

(* goal `In e [l1; …; ln]`: either e is one of the literals, or every test of e against them is false and then the
   rules that mention e cannot all be true *)
Ltac in_literals e :=
  keep_only e; bridge_str e;
  repeat match goal with
         | |- In e (?l :: _) =>
           let Hne := fresh "Hne" in
           destruct (String.eqb_spec e l) as [->|Hne];
           [ left; reflexivity
           | right; destruct (neq_eqb_false _ _ Hne) ]
         end;
  exfalso; cbn [str_map_get] in *; lia.

Lemma model_validate_safe : forall c, model_validate c = true -> safe c.
Proof.
  intros c H. split_rules H.
  unfold safe, soft_ns, hard_ns, cooldown_ns, max_node_age_valid, taint_effects, lifecycles.
  repeat match goal with |- _ /\ _ => split end.
  - nonempty_goal.
  - nonempty_goal.
  - nonempty_goal.
  - nonempty_goal.
  - lia.
  - lia.
  - lia.
  - lia.
  - lia.
  - lia.
  - lia.
  - lia.
  - lia.
  - in_literals (c_taint_effect c).
  - in_literals (c_lifecycle c).
  - keep_only (c_max_node_age c). bridge_str (d_raw (c_max_node_age c)).
    destruct (String.eqb_spec (d_raw (c_max_node_age c)) "") as [E|E]; [left; exact E|].
    right. apply dur_parse_ok_iff. destruct (neq_eqb_false _ _ E). lia.
Qed.

(* ---- documented keys ---- *)
Lemma keys_honoured_spec : forall documented tags, keys_honoured documented tags = true ->
  forall k, In k documented -> In k tags \/ In k known_unhonoured.
Proof.
  intros d t H k Hk. unfold keys_honoured in H. rewrite forallb_forall in H.
  specialize (H k Hk). apply orb_true_iff in H. rewrite !mem_str_In in H. exact H.
Qed.
