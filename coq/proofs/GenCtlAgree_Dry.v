(* controller.go dryMode, as translated on this run, is the `dry` of the model's scan_group. *)
From Esc Require Import GeneratedCtl proofs.GenCtlAgree.

Theorem gen_dryMode_agree : forall e o, gen_dryMode e o = (e_dry e || o_dry o)%bool.
Proof. intros. unfold gen_dryMode. agree. Qed.
