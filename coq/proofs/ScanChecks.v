(* ScanChecks.v — the model's journal passes the per-call checkers (C01, C09, C10, C11, C12, C15) for every input. *)
From Esc Require Import SpecScan proofs.BaseProofs proofs.AwsProofs proofs.ScanLemmas.
From Coq Require Import Permutation.

(* ---------- reflexivity of the boolean equalities ---------- *)
Lemma list_eqb_refl {A} (eqb : A -> A -> bool) (l : list A) : (forall x, eqb x x = true) -> list_eqb eqb l l = true.
Proof. intros H. induction l as [|x l IH]; simpl; [reflexivity | rewrite H, IH; reflexivity]. Qed.
Lemma bytes_eqb_refl b : bytes_eqb b b = true.
Proof. apply list_eqb_refl. apply Z.eqb_refl. Qed.
Lemma taint_eqb_refl t : taint_eqb t t = true.
Proof. unfold taint_eqb. rewrite !Z.eqb_refl, bytes_eqb_refl. reflexivity. Qed.
Lemma qty_eqb_refl q : qty_eqb q q = true.
Proof. unfold qty_eqb. rewrite !Z.eqb_refl. reflexivity. Qed.
Lemma option_eqb_refl {A} (eqb : A -> A -> bool) (o : option A) : (forall x, eqb x x = true) -> option_eqb eqb o o = true.
Proof. intros H. destruct o; simpl; auto. Qed.
Lemma idpair_eqb_refl p : idpair_eqb p p = true.
Proof. unfold idpair_eqb, pair_eqb. rewrite !Z.eqb_refl. reflexivity. Qed.
Lemma node_eqb_refl n : node_eqb n n = true.
Proof.
  unfold node_eqb. rewrite !Z.eqb_refl, Bool.eqb_reflx, bytes_eqb_refl.
  rewrite (list_eqb_refl taint_eqb) by apply taint_eqb_refl.
  rewrite !(list_eqb_refl idpair_eqb) by apply idpair_eqb_refl.
  rewrite !(option_eqb_refl qty_eqb) by apply qty_eqb_refl. reflexivity.
Qed.

Lemma taint_eqb_eq a b : taint_eqb a b = true <-> a = b.
Proof.
  split; [|intros ->; apply taint_eqb_refl].
  unfold taint_eqb. intros H. repeat (apply andb_prop in H; destruct H as [H ?]).
  apply Z.eqb_eq in H. apply bytes_eqb_eq in H2. apply Z.eqb_eq in H1. apply Z.eqb_eq in H0.
  destruct a, b; simpl in *; subst; reflexivity.
Qed.

(* ---------- contexts ---------- *)
Definition ctx_ok (x : gctx) : Prop :=
  x_cls x = filter_nodes (x_dry x) (x_st x) (x_nodes x) /\
  match x_asg x with Some a => a_name a = o_asg (x_opts x) | None => True end.

Lemma scan_of_sources now gdry api g a nodes pods :
  let x := ctx_of now gdry api g a nodes pods in
  forall c, In c (r_calls (scan_of now gdry api g a nodes pods)) ->
  source (x_env x) (x_opts x) (x_dry x) (x_asg x) (x_pods x) (x_nodes x) (x_cls x) c.
Proof. intros x c Hc. exact (scan_group_sources _ _ _ _ _ _ _ _ c Hc). Qed.

(* ---------- what add_taint / delete_taint emit ---------- *)
Lemma add_taint_calls api o now eff name c :
  In c (fst (add_taint api o now eff name)) ->
  (exists ok, c = KGet name ok) \/
  (exists u ok, api_lookup api name = Some u /\ has_esc u = false /\
                c = KUpdate name (set_taints u (n_taints u ++ [new_taint now eff])) ok).
Proof.
  unfold add_taint, api_get. destruct (mem_id name (ko_get_fail o)).
  { intros [H|[]]; left; eauto. }
  destruct (api_lookup api name) as [u|] eqn:Eu; [|intros [H|[]]; left; eauto].
  destruct (has_esc u) eqn:Eh; [intros [H|[]]; left; eauto|].
  destruct (mem_id name (ko_update_fail o)); (intros [H|[H|[]]]; [left; eauto | right; exists u; eauto]).
Qed.

Lemma delete_taint_calls api o name c :
  In c (fst (delete_taint api o name)) ->
  (exists ok, c = KGet name ok) \/
  (exists u ts ok, api_lookup api name = Some u /\ remove_swap (n_taints u) = Some ts /\ c = KUpdate name (set_taints u ts) ok).
Proof.
  unfold delete_taint, api_get. destruct (mem_id name (ko_get_fail o)).
  { intros [H|[]]; left; eauto. }
  destruct (api_lookup api name) as [u|] eqn:Eu; [|intros [H|[]]; left; eauto].
  destruct (remove_swap (n_taints u)) as [ts|] eqn:Er; [|intros [H|[]]; left; eauto].
  destruct (mem_id name (ko_update_fail o)); (intros [H|[H|[]]]; [left; eauto | right; exists u, ts; eauto]).
Qed.

Lemma add_taint_names api o now eff name c :
  In c (fst (add_taint api o now eff name)) -> match c with KGet m _ | KUpdate m _ _ | KDelete m _ => m = name end.
Proof. intros H. destruct (add_taint_calls _ _ _ _ _ _ H) as [[ok ->]|(u & ok & _ & _ & ->)]; reflexivity. Qed.
Lemma delete_taint_names api o name c :
  In c (fst (delete_taint api o name)) -> match c with KGet m _ | KUpdate m _ _ | KDelete m _ => m = name end.
Proof. intros H. destruct (delete_taint_calls _ _ _ _ H) as [[ok ->]|(u & ts & ok & _ & _ & ->)]; reflexivity. Qed.

(* ---------- targets ---------- *)
Lemma targets_intro x P c n : In n (x_nodes x) -> node_matches x c n = true -> P n = true -> targets x P c = true.
Proof. intros Hn Hm HP. unfold targets. apply existsb_exists. exists n. rewrite Hm, HP. auto. Qed.

Lemma removal_of_targets x cands c (P : node -> bool) :
  removal_of (x_asg x) cands c -> (forall n, In n cands -> In n (x_nodes x) /\ P n = true) -> targets x P c = true.
Proof.
  intros H Hc. destruct H as [g n i ok Ha Hn Hi | n ok Hn]; destruct (Hc n Hn) as [Hin HP].
  - eapply targets_intro; eauto. simpl. unfold backs. rewrite Ha, Hi. apply bytes_eqb_refl.
  - eapply targets_intro; eauto. simpl. apply Z.eqb_refl.
Qed.

(* ---------- C01 / C10 / C09 on removal calls ---------- *)
Definition removal_fine (x : gctx) (n : node) : bool := removable x n && negb (protected n) && negb (n_unsched n).

Lemma force_cand_fine x n : ctx_ok x -> x_dry x = false ->
  In n (force_candidates false (x_pods x) (c_forced (x_cls x))) -> In n (x_nodes x) /\ removal_fine x n = true.
Proof.
  intros [Hcls _] Hdry Hn. apply in_force_candidates in Hn. destruct Hn as [Hn He]. rewrite Hcls, Hdry in Hn.
  apply in_forced in Hn. destruct Hn as [Hin Hc]. apply classify_wet_2 in Hc. destruct Hc as [Hu Hf].
  split; [exact Hin|]. unfold removal_fine, removable, protected. unfold node_empty in He.
  rewrite Hdry, Hu, Hf, He. simpl. rewrite !andb_false_r, orb_true_r. reflexivity.
Qed.

Lemma reap_cand_fine x n : ctx_ok x -> x_dry x = false ->
  In n (reap_candidates (x_env x) (x_opts x) false (x_pods x) (c_tainted (x_cls x))) -> In n (x_nodes x) /\ removal_fine x n = true.
Proof.
  intros [Hcls _] Hdry Hn. apply in_reap_candidates in Hn. destruct Hn as [Hn He]. rewrite Hcls, Hdry in Hn.
  apply in_tainted in Hn. destruct Hn as [Hin Hc]. apply classify_wet_1 in Hc. destruct Hc as [Hu [Hf Hesc]].
  split; [exact Hin|]. unfold removal_fine, removable, protected, grace_ok. unfold reapable in He.
  destruct (safe_from_deletion n); [discriminate|]. destruct (taint_time n) as [ts|]; [|discriminate].
  unfold node_empty in He. rewrite Hdry, Hu, Hf, Hesc. simpl.
  destruct (o_soft (x_opts x) <? taint_age (x_env x) ts); [|discriminate]. simpl in *.
  destruct (node_pods_remaining (x_pods x) n =? 0); simpl in *; [reflexivity|]. rewrite He. reflexivity.
Qed.

Lemma targets_weaken x (P Q : node -> bool) c : (forall n, P n = true -> Q n = true) -> targets x P c = true -> targets x Q c = true.
Proof.
  intros H. unfold targets. rewrite !existsb_exists. intros [n [Hn Hm]]. exists n. split; [exact Hn|].
  apply andb_prop in Hm. destruct Hm as [Hm HP]. rewrite Hm, (H n HP). reflexivity.
Qed.

Lemma source_removal_fine x c : ctx_ok x ->
  source (x_env x) (x_opts x) (x_dry x) (x_asg x) (x_pods x) (x_nodes x) (x_cls x) c ->
  is_removal c = true -> targets x (removal_fine x) c = true.
Proof.
  intros Hok Hs Hr. destruct Hs as [n ok Hn Hp | c Hd Hrem | c Hd Hrem | n k Hd Hn Hk | n k Hd Hn He Hk | g d k Hd Hrel Hpos Hk].
  - discriminate.
  - eapply removal_of_targets; [exact Hrem|]. intros m Hm. apply force_cand_fine; assumption.
  - eapply removal_of_targets; [exact Hrem|]. intros m Hm. apply reap_cand_fine; assumption.
  - destruct (add_taint_calls _ _ _ _ _ _ Hk) as [[ok ->]|(u & ok & _ & _ & ->)]; discriminate.
  - destruct (delete_taint_calls _ _ _ _ Hk) as [[ok ->]|(u & ts & ok & _ & _ & ->)]; discriminate.
  - exfalso. unfold aws_increase in Hk. destruct (d <=? 0); [destruct Hk|].
    destruct (a_max g <? a_desired g + d); [destruct Hk|].
    destruct (fleet_mode g).
    + pose proof (one_shot_spec g d (e_aorc (x_env x))) as Hos. destruct (one_shot g d (e_aorc (x_env x))) as [[calls r] g'].
      destruct Hos as (_ & _ & _ & _ & H5 & _). simpl in Hk. rewrite forallb_forall in H5. specialize (H5 k Hk).
      destruct k; simpl in Hr; try discriminate.
    + destruct (ao_setdesired_fail (e_aorc (x_env x))); destruct Hk as [Hk|[]]; subst k; discriminate.
Qed.

Theorem model_passes_C01_x x calls : ctx_ok x ->
  (forall c, In c calls -> source (x_env x) (x_opts x) (x_dry x) (x_asg x) (x_pods x) (x_nodes x) (x_cls x) c) ->
  check_C01_group x calls = true /\ check_C10_group x calls = true.
Proof.
  intros Hok Hs. unfold check_C01_group, check_C10_group. split; apply forallb_forall; intros c Hc;
    destruct (is_removal c) eqn:Er; try reflexivity;
    (eapply targets_weaken; [|apply source_removal_fine; [exact Hok | apply Hs; exact Hc | exact Er]]);
    intros n Hn; unfold removal_fine in Hn; apply andb_prop in Hn; destruct Hn as [Hn _]; apply andb_prop in Hn; destruct Hn as [H1 H2]; assumption.
Qed.

(* ---------- C09 ---------- *)
Lemma source_node_write x c : ctx_ok x -> x_dry x = false ->
  source (x_env x) (x_opts x) (x_dry x) (x_asg x) (x_pods x) (x_nodes x) (x_cls x) c ->
  is_node_write c = true -> targets x (fun n => negb (n_unsched n)) c = true.
Proof.
  intros Hok Hdry Hs Hw.
  destruct (is_removal c) eqn:Er.
  { eapply targets_weaken; [|apply source_removal_fine; eassumption].
    intros n Hn. unfold removal_fine in Hn. apply andb_prop in Hn. tauto. }
  destruct Hok as [Hcls Hname].
  destruct Hs as [n ok Hn Hp | c Hd Hrem | c Hd Hrem | n k Hd Hn Hk | n k Hd Hn He Hk | g d k Hd Hrel Hpos Hk].
  - discriminate.
  - destruct Hrem; discriminate.
  - destruct Hrem; discriminate.
  - rewrite Hcls, Hdry in Hn. apply in_untainted in Hn. destruct Hn as [Hin Hc]. apply classify_wet_0 in Hc. destruct Hc as [Hu _].
    pose proof (add_taint_names _ _ _ _ _ _ Hk) as Hm.
    eapply targets_intro; [exact Hin | | simpl; rewrite Hu; reflexivity].
    destruct k; simpl; subst; apply Z.eqb_refl.
  - rewrite Hcls, Hdry in Hn. apply in_tainted in Hn. destruct Hn as [Hin Hc]. apply classify_wet_1 in Hc. destruct Hc as [Hu _].
    pose proof (delete_taint_names _ _ _ _ Hk) as Hm.
    eapply targets_intro; [exact Hin | | simpl; rewrite Hu; reflexivity].
    destruct k; simpl; subst; apply Z.eqb_refl.
  - destruct k; simpl in Hw, Er; try discriminate.
Qed.

Theorem model_passes_C09_x x calls : ctx_ok x ->
  (forall c, In c calls -> source (x_env x) (x_opts x) (x_dry x) (x_asg x) (x_pods x) (x_nodes x) (x_cls x) c) ->
  check_C09_group x calls = true.
Proof.
  intros Hok Hs. unfold check_C09_group. destruct (x_dry x) eqn:Hdry; [reflexivity|].
  apply forallb_forall. intros c Hc. destruct (is_node_write c) eqn:Ew; [|reflexivity].
  apply source_node_write; auto. rewrite Hdry. apply Hs. exact Hc.
Qed.

(* ---------- C11 ---------- *)
Lemma filter_nil {A} (f : A -> bool) l : (forall x, In x l -> f x = false) -> filter f l = [].
Proof. induction l as [|x l IH]; intros H; simpl; [reflexivity|]. rewrite (H x (or_introl eq_refl)). apply IH. intros y Hy. apply H. right. exact Hy. Qed.

Theorem model_passes_C11_x x calls :
  (forall c, In c calls -> source (x_env x) (x_opts x) (x_dry x) (x_asg x) (x_pods x) (x_nodes x) (x_cls x) c) ->
  check_C11_group x calls = true.
Proof.
  intros Hs. unfold check_C11_group. destruct (x_dry x) eqn:Hdry; [|reflexivity].
  unfold writes. rewrite filter_nil; [reflexivity|]. intros c Hc. specialize (Hs c Hc).
  destruct Hs; try discriminate. reflexivity.
Qed.

(* in dry mode the journal consists of read-only instance lookups *)
Theorem dry_journal_reads_only x calls : x_dry x = true ->
  (forall c, In c calls -> source (x_env x) (x_opts x) (x_dry x) (x_asg x) (x_pods x) (x_nodes x) (x_cls x) c) ->
  forall c, In c calls -> exists inst ok, c = CA (ADescribeInstances inst ok).
Proof. intros Hdry Hs c Hc. specialize (Hs c Hc). rewrite Hdry in Hs. destruct Hs; try discriminate. eauto. Qed.

(* ---------- C12 ---------- *)
Definition own_acall (g : asg) (c : acall) : bool :=
  match c with
  | ASetDesired n _ _ _ | AAttach n _ _ | ADescribeAsg n _ => n =? a_name g
  | ACreateFleet _ _ _ _ _ _ tmpl _ => tmpl =? f_template (a_cfg g)
  | ATermInstances _ _ => true
  | _ => false
  end.

Lemma attach_loop_own g fuel : forall inst k fails,
  forallb (own_acall g) (fst (attach_loop fuel (a_name g) inst k fails)) = true.
Proof.
  induction fuel as [|f IH]; intros inst k fails; simpl; [reflexivity|].
  destruct (Nat.ltb attach_batch (length inst)).
  - destruct (mem_nat k fails); simpl; [rewrite Z.eqb_refl; reflexivity|].
    specialize (IH (skipn attach_batch inst) (S k) fails).
    destruct (attach_loop f (a_name g) (skipn attach_batch inst) (S k) fails) as [calls r]. simpl in *. rewrite Z.eqb_refl, IH. reflexivity.
  - destruct (mem_nat k fails); simpl; rewrite Z.eqb_refl; reflexivity.
Qed.

Lemma term_loop_own g fuel : forall inst k fails, forallb (own_acall g) (term_loop fuel inst k fails) = true.
Proof.
  induction fuel as [|f IH]; intros inst k fails; simpl; [reflexivity|].
  destruct inst; [reflexivity|]. simpl. apply IH.
Qed.

Lemma cleanup_own g calls orphans o e : forallb (own_acall g) calls = true ->
  forallb (own_acall g) (fst (fst (cleanup g calls orphans o e))) = true.
Proof.
  intros H. unfold cleanup, terminate_orphans. destruct orphans as [|x orphans']; simpl.
  - rewrite app_nil_r. exact H.
  - rewrite forallb_app, H. simpl. apply (term_loop_own g (length orphans') (skipn terminate_batch (x :: orphans')) 1 (ao_term_fail o)).
Qed.

Definition os_body (a : asg) (d : Z) (vpc : bytes) (o : aorc) (insts : list (list id)) : list acall * inc_result * asg :=
  let g := a_name a in
  let pre := [ADescribeAsg g true; fleet_call a d vpc true] in
  let ids := concat insts in
  let ready_at := match ids with [] => Some 1%nat | _ => ao_ready_at o end in
  let ready := match ready_at with Some k => Nat.leb k (ao_deadline o) | None => false end in
  if negb ready then cleanup a pre ids o ENotReady
  else
    let '(ac, r) := attach_loop (S (length ids)) g ids 0 (ao_attach_fail o) in
    match r with
    | AttachOk => (pre ++ ac, IncOk, set_tries a 0)
    | AttachFailed orphans => cleanup a (pre ++ ac) orphans o EAttach
    | AttachOutOfFuel => (pre ++ ac, IncErr EFuel, a)
    end.

Lemma os_body_own g d vpc o insts : forallb (own_acall g) (fst (fst (os_body g d vpc o insts))) = true.
Proof.
  unfold os_body.
  assert (Hpre : forallb (own_acall g) [ADescribeAsg (a_name g) true; fleet_call g d vpc true] = true)
    by (unfold fleet_call; simpl; rewrite !Z.eqb_refl; reflexivity).
  cbv zeta. destruct (negb _); [apply cleanup_own; exact Hpre|].
  pose proof (attach_loop_own g (S (length (concat insts))) (concat insts) 0 (ao_attach_fail o)) as Ha.
  destruct (attach_loop (S (length (concat insts))) (a_name g) (concat insts) 0 (ao_attach_fail o)) as [ac r]. cbn [fst] in Ha.
  destruct r; [cbn [fst]; rewrite forallb_app, Hpre; exact Ha | apply cleanup_own; rewrite forallb_app, Hpre; exact Ha | cbn [fst]; rewrite forallb_app, Hpre; exact Ha].
Qed.

Lemma one_shot_own g d o : forallb (own_acall g) (fst (fst (one_shot g d o))) = true.
Proof.
  unfold one_shot. destruct (ao_describe o) as [| |vpc]; simpl; rewrite ?Z.eqb_refl; try reflexivity.
  destruct vpc as [|v0 vpc']; simpl; rewrite ?Z.eqb_refl; try reflexivity.
  destruct (ao_fleet o) as [|insts nerr]; [unfold fleet_call; simpl; rewrite !Z.eqb_refl; reflexivity|].
  destruct insts as [|i0 is']; [destruct nerr as [|n']|].
  - exact (os_body_own g d (v0 :: vpc') o []).
  - unfold fleet_call; simpl; rewrite !Z.eqb_refl; reflexivity.
  - exact (os_body_own g d (v0 :: vpc') o (i0 :: is')).
Qed.

Lemma aws_increase_own g d o : forallb (own_acall g) (fst (fst (aws_increase g d o))) = true.
Proof.
  unfold aws_increase. destruct (d <=? 0); [reflexivity|]. destruct (a_max g <? a_desired g + d); [reflexivity|].
  destruct (fleet_mode g); [apply one_shot_own|].
  destruct (ao_setdesired_fail o); simpl; rewrite Z.eqb_refl; reflexivity.
Qed.

Lemma in_class_In l n : In n l -> in_class l (n_name n) = true.
Proof. intros H. unfold in_class. apply existsb_exists. exists n. split; [exact H | apply Z.eqb_refl]. Qed.

Definition call_own (x : gctx) (c : call) : bool :=
  match c with
  | CK (KGet n _) | CK (KUpdate n _ _) | CK (KDelete n _) => in_class (x_nodes x) n
  | CA (ASetDesired g _ _ _) | CA (AAttach g _ _) | CA (ADescribeAsg g _) => g =? o_asg (x_opts x)
  | CA (ATermInAsg inst _ _) => own_instance x inst
  | CA (ACreateFleet _ _ _ _ _ _ tmpl _) => match x_asg x with Some a => tmpl =? f_template (a_cfg a) | None => false end
  | _ => true end.

Lemma source_own x c : ctx_ok x ->
  source (x_env x) (x_opts x) (x_dry x) (x_asg x) (x_pods x) (x_nodes x) (x_cls x) c -> call_own x c = true.
Proof.
  intros [Hcls Hname] Hs.
  assert (Hrem : forall cands c, (forall n, In n cands -> In n (x_nodes x)) -> removal_of (x_asg x) cands c -> call_own x c = true).
  { intros cands c0 Hin H. destruct H as [g n i ok Ha Hn Hi | n ok Hn].
    - simpl. unfold own_instance. rewrite Ha. apply existsb_exists. exists i. split; [|apply bytes_eqb_refl].
      unfold backing_instance in Hi. apply find_some in Hi. tauto.
    - simpl. apply in_class_In. auto. }
  destruct Hs as [n ok Hn Hp | c Hd Hr | c Hd Hr | n k Hd Hn Hk | n k Hd Hn He Hk | g d k Hd Hrel Hpos Hk].
  - reflexivity.
  - eapply Hrem; [|exact Hr]. intros n Hn. apply in_force_candidates in Hn. destruct Hn as [Hn _].
    rewrite Hcls in Hn. unfold filter_nodes in Hn; simpl in Hn. apply filter_In in Hn. tauto.
  - eapply Hrem; [|exact Hr]. intros n Hn. apply in_reap_candidates in Hn. destruct Hn as [Hn _].
    rewrite Hcls in Hn. unfold filter_nodes in Hn; simpl in Hn. apply filter_In in Hn. tauto.
  - rewrite Hcls in Hn. unfold filter_nodes in Hn; simpl in Hn. apply filter_In in Hn. destruct Hn as [Hn _].
    pose proof (add_taint_names _ _ _ _ _ _ Hk) as Hm. destruct k; simpl; subst; apply in_class_In; exact Hn.
  - rewrite Hcls in Hn. unfold filter_nodes in Hn; simpl in Hn. apply filter_In in Hn. destruct Hn as [Hn _].
    pose proof (delete_taint_names _ _ _ _ Hk) as Hm. destruct k; simpl; subst; apply in_class_In; exact Hn.
  - pose proof (aws_increase_own g d (e_aorc (x_env x))) as Ho. rewrite forallb_forall in Ho. specialize (Ho k Hk).
    destruct (x_asg x) as [g0|] eqn:Ea; simpl in Hrel; [|contradiction].
    destruct Hrel as (Hn & _ & _ & _ & Hcfg & _).
    destruct k; simpl in *; try discriminate; try reflexivity; rewrite ?Ea; rewrite ?Hn, ?Hcfg, ?Hname in Ho; exact Ho.
Qed.

Theorem model_passes_C12_x x calls : ctx_ok x ->
  (forall c, In c calls -> source (x_env x) (x_opts x) (x_dry x) (x_asg x) (x_pods x) (x_nodes x) (x_cls x) c) ->
  check_C12_group x calls = true.
Proof.
  intros Hok Hs. unfold check_C12_group. apply forallb_forall. intros c Hc.
  exact (source_own x c Hok (Hs c Hc)).
Qed.

(* ---------- C15 ---------- *)
Lemma remove_one_complete t l : In t l -> exists l', remove_one t l = Some l' /\ Permutation l (t :: l').
Proof.
  induction l as [|y l IH]; [intros []|]. intros Hin. simpl. destruct (taint_eqb y t) eqn:E.
  - apply taint_eqb_eq in E. subst. exists l. auto.
  - destruct Hin as [->|Hin]; [rewrite taint_eqb_refl in E; discriminate|].
    destruct (IH Hin) as [l' [H1 H2]]. rewrite H1. exists (y :: l'). split; [reflexivity|].
    rewrite H2. apply perm_swap.
Qed.

Lemma perm_taints_complete a : forall b, Permutation a b -> perm_taints a b = true.
Proof.
  induction a as [|t a IH]; intros b Hp.
  - apply Permutation_nil in Hp. subst. reflexivity.
  - simpl. assert (Hin : In t b) by (eapply Permutation_in; [exact Hp | left; reflexivity]).
    destruct (remove_one_complete t b Hin) as [b' [H1 H2]]. rewrite H1. apply IH.
    apply Permutation_cons_inv with (a := t). rewrite Hp. exact H2.
Qed.

Lemma removelast_last_perm {A} (l : list A) (d : A) : l <> [] -> Permutation (last l d :: removelast l) l.
Proof.
  intros H. rewrite (app_removelast_last d H) at 3. rewrite Permutation_app_comm. reflexivity.
Qed.

Lemma remove_swap_perm ts : forall ts', remove_swap ts = Some ts' ->
  Permutation ts' (drop_first_esc ts) /\ has_key id_esc_key {| n_name := 0; n_created := 0; n_unsched := false; n_taints := ts; n_annots := [];
     n_labels := []; n_cpu := None; n_mem := None; n_pid := []; n_rest := 0 |} = true /\ length ts = S (length ts').
Proof.
  induction ts as [|t rest IH]; intros ts' H; [discriminate|].
  simpl in H. unfold has_key; simpl. destruct (t_key t =? id_esc_key) eqn:E.
  - inversion H; subst. splits; [|reflexivity|].
    + destruct rest as [|r0 rest']; [reflexivity|]. apply removelast_last_perm. discriminate.
    + destruct rest as [|r0 rest']; [reflexivity|].
      assert (Hl : length (last (r0 :: rest') t :: removelast (r0 :: rest')) = length (r0 :: rest')).
      { apply Permutation_length. apply removelast_last_perm. discriminate. }
      simpl length in *. lia.
  - destruct (remove_swap rest) as [r'|] eqn:Er; [|discriminate]. inversion H; subst.
    destruct (IH r' eq_refl) as [H1 [H2 H3]]. splits.
    + apply perm_skip. exact H1.
    + unfold has_key in H2; simpl in H2. exact H2.
    + simpl. lia.
Qed.

Lemma has_esc_set_taints u ts : has_esc (set_taints u ts) = existsb (fun t => t_key t =? id_esc_key) ts.
Proof. reflexivity. Qed.

Lemma source_update_ok x name p ok : ctx_ok x ->
  source (x_env x) (x_opts x) (x_dry x) (x_asg x) (x_pods x) (x_nodes x) (x_cls x) (CK (KUpdate name p ok)) ->
  check_update x name p = true.
Proof.
  intros Hok Hs. inversion Hs as [| c Hd Hr | c Hd Hr | n k Hd Hn Hk | n k Hd Hn He Hk |]; subst.
  - inversion Hr.
  - inversion Hr.
  - destruct (add_taint_calls _ _ _ _ _ _ Hk) as [[ok' E]|(u & ok' & Hu & Hesc & E)]; [discriminate|].
    inversion E; subst. unfold check_update, api_copy. rewrite Hu. simpl n_taints. rewrite app_length. simpl length.
    replace (Nat.ltb (length (n_taints u)) (length (n_taints u) + 1)) with true by (symmetry; apply Nat.ltb_lt; lia).
    rewrite Hesc. simpl. apply node_eqb_refl.
  - destruct (delete_taint_calls _ _ _ _ Hk) as [[ok' E]|(u & ts & ok' & Hu & Hrs & E)]; [discriminate|].
    inversion E; subst. unfold check_update, api_copy. rewrite Hu. simpl n_taints.
    destruct (remove_swap_perm _ _ Hrs) as [H1 [H2 H3]].
    replace (Nat.ltb (length (n_taints u)) (length ts)) with false by (symmetry; apply Nat.ltb_ge; lia).
    unfold has_esc. unfold has_key in *. simpl in H2. rewrite H2. simpl.
    rewrite perm_taints_complete by exact H1. rewrite andb_true_r.
    destruct u; apply node_eqb_refl.
Qed.

Theorem model_passes_C15_x x calls : ctx_ok x ->
  (forall c, In c calls -> source (x_env x) (x_opts x) (x_dry x) (x_asg x) (x_pods x) (x_nodes x) (x_cls x) c) ->
  check_C15_group x calls = true.
Proof.
  intros Hok Hs. unfold check_C15_group. apply forallb_forall. intros c Hc.
  destruct c as [k|]; [|reflexivity]. destruct k; try reflexivity.
  eapply source_update_ok; [exact Hok | apply Hs; exact Hc].
Qed.

(* no re-stamp: an update of a node whose API copy already carries the escalator taint is a removal *)
Lemma remove_one_length t b : forall b', remove_one t b = Some b' -> length b = S (length b').
Proof.
  induction b as [|y b IH]; intros b' H; simpl in H; [discriminate|].
  destruct (taint_eqb y t); [inversion H; reflexivity|].
  destruct (remove_one t b) as [b''|]; [|discriminate]. inversion H; subst. simpl. rewrite (IH b'' eq_refl). reflexivity.
Qed.

Lemma perm_taints_length a : forall b, perm_taints a b = true -> length a = length b.
Proof.
  induction a as [|t a IH]; intros b H; simpl in H; [destruct b; [reflexivity | discriminate]|].
  destruct (remove_one t b) as [b'|] eqn:Er; [|discriminate]. simpl. rewrite (IH b' H). symmetry. apply (remove_one_length t). exact Er.
Qed.

Lemma drop_first_esc_length l : existsb (fun t => t_key t =? id_esc_key) l = true -> length l = S (length (drop_first_esc l)).
Proof.
  induction l as [|t l IH]; simpl; [discriminate|]. destruct (t_key t =? id_esc_key); [reflexivity|]. simpl. intros H. rewrite (IH H). reflexivity.
Qed.

Lemma check_update_no_restamp x name p u :
  check_update x name p = true -> api_copy x name = Some u -> has_esc u = true ->
  (length (n_taints p) < length (n_taints u))%nat.
Proof.
  intros H Hu He. unfold check_update in H. rewrite Hu in H.
  destruct (Nat.ltb (length (n_taints u)) (length (n_taints p))) eqn:E.
  - rewrite He in H. discriminate.
  - apply andb_prop in H. destruct H as [_ H]. rewrite (perm_taints_length _ _ H).
    rewrite (drop_first_esc_length (n_taints u) He). lia.
Qed.
