(* controller.go scaleNodeGroup, the early exits and the below-minimum recovery, as translated on this run, are the first
   tests of the model's scan_group (GenCtlAgree.model_exits / model_recover; scan_group_exits ties the former to scan_group). *)
From Esc Require Import GeneratedCtl proofs.GenCtlAgree.
Open Scope Z_scope.

Theorem gen_scaleNodeGroup_exits_agree : forall mn maxn nodes pods,
  gen_scaleNodeGroup_exits mn maxn nodes pods = model_exits mn maxn nodes pods.
Proof.
  intros. unfold gen_scaleNodeGroup_exits, model_exits.
  destruct nodes as [|n0 nl]; destruct pods as [|p0 pl]; rewrite ?(@zlen_nil node), ?(@zlen_nil pod);
    try pose proof (zlen_cons_pos n0 nl); try pose proof (zlen_cons_pos p0 pl); agree.
Qed.

Corollary gen_scan_group_exits : forall e o mn maxn st a all_nodes all_pods,
  let R := scan_group e o mn maxn st a all_nodes all_pods in
  match gen_scaleNodeGroup_exits mn maxn (group_nodes o all_nodes) (group_pods o all_pods) with
  | GRet [GI r; GE err] =>
      r_calls R = [] /\ r_ret R = r /\ r_out R = (if err then OutErr else OutOk) /\ r_asg R = a /\ early_tag (hd 0 (r_tags R)) = true
  | _ => early_tag (hd 0 (r_tags R)) = false
  end.
Proof. intros. rewrite gen_scaleNodeGroup_exits_agree. apply scan_group_exits. Qed.

Theorem gen_scaleNodeGroup_recover_agree : forall mn locked nodes untainted tainted forced,
  gen_scaleNodeGroup_recover mn locked nodes untainted tainted forced = model_recover mn locked untainted tainted.
Proof. intros. unfold gen_scaleNodeGroup_recover, model_recover. agree. Qed.
