(* controller.go scaleOnMaxNodeAge, as translated on this run, is the model's scale_on_max_age. *)
From Esc Require Import GeneratedCtl proofs.GenCtlAgree.
Open Scope Z_scope.

Theorem gen_scaleOnMaxNodeAge_agree : forall e o mn untainted tainted,
  gen_scaleOnMaxNodeAge e o mn untainted tainted = scale_on_max_age e o mn untainted tainted.
Proof.
  intros. unfold gen_scaleOnMaxNodeAge, scale_on_max_age.
  match goal with |- context [existsb ?f untainted] =>
    assert (E : existsb f untainted = existsb (fun n => o_maxage o <? sat64 (e_now e - n_created n * 1000000000)) untainted)
      by (apply existsb_ext'; intros; agree);
    rewrite ?E; clear E end.
  generalize (existsb (fun n => o_maxage o <? sat64 (e_now e - n_created n * 1000000000)) untainted). intros b.
  agree.
Qed.
