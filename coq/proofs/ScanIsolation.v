(* ScanIsolation.v — C12: a group's scan depends on the world only through its own nodes, its own pods, the API
   server's copies of its own nodes and its own cloud group; so two worlds that differ only inside another group give
   the same result for this group, also at the level of run_once. *)
From Esc Require Import SpecScan SpecAws proofs.BaseProofs proofs.AwsProofs proofs.ScanLemmas proofs.ScanChecks proofs.ScanTheorems
                        proofs.ScanState proofs.ScanTaint proofs.ScanOrder proofs.ScanRun.

Definition env_with_api (e : env) (api : list node) : env :=
  {| e_now := e_now e; e_dry := e_dry e; e_api := api; e_korc := e_korc e; e_aorc := e_aorc e; e_descinst_fail := e_descinst_fail e |}.

Definition api_agree (api api' : list node) (l : list node) : Prop :=
  forall n, In n l -> api_lookup api (n_name n) = api_lookup api' (n_name n).

Lemma api_agree_incl api api' l l' : (forall n, In n l' -> In n l) -> api_agree api api' l -> api_agree api api' l'.
Proof. intros H Ha n Hn. apply Ha. apply H. exact Hn. Qed.

Lemma add_taint_api api api' o now eff name : api_lookup api name = api_lookup api' name ->
  add_taint api o now eff name = add_taint api' o now eff name.
Proof. intros H. unfold add_taint, api_get. rewrite H. reflexivity. Qed.

Lemma delete_taint_api api api' o name : api_lookup api name = api_lookup api' name ->
  delete_taint api o name = delete_taint api' o name.
Proof. intros H. unfold delete_taint, api_get. rewrite H. reflexivity. Qed.

Lemma taint_loop_api e api' o dry l : api_agree (e_api e) api' l -> forall n count tr,
  taint_loop e o dry l n count tr = taint_loop (env_with_api e api') o dry l n count tr.
Proof.
  induction l as [|y l IH]; intros Ha n count tr; [reflexivity|]. simpl.
  destruct (n <=? count); [reflexivity|]. destruct dry.
  - apply IH. intros m Hm. apply Ha. right. exact Hm.
  - change (now_sec (env_with_api e api')) with (now_sec e).
    rewrite (add_taint_api (e_api e) api' (e_korc e) (now_sec e) (o_effect o) (n_name y)) by (apply Ha; left; reflexivity).
    destruct (add_taint api' (e_korc e) (now_sec e) (o_effect o) (n_name y)) as [calls ok].
    rewrite IH by (intros m Hm; apply Ha; right; exact Hm). reflexivity.
Qed.

Lemma untaint_loop_api e api' dry l : api_agree (e_api e) api' l -> forall n count tr,
  untaint_loop e dry l n count tr = untaint_loop (env_with_api e api') dry l n count tr.
Proof.
  induction l as [|y l IH]; intros Ha n count tr; [reflexivity|]. simpl.
  assert (Hl : api_agree (e_api e) api' l) by (intros m Hm; apply Ha; right; exact Hm).
  destruct (n <=? count); [reflexivity|]. destruct dry.
  - destruct (mem_id (n_name y) tr); apply IH; exact Hl.
  - destruct (has_esc y); [|apply IH; exact Hl].
    rewrite (delete_taint_api (e_api e) api' (e_korc e) (n_name y)) by (apply Ha; left; reflexivity).
    destruct (delete_taint api' (e_korc e) (n_name y)) as [calls ok]. rewrite IH by exact Hl. reflexivity.
Qed.

Lemma scale_down_taint_api e api' o mn dry st unt want : api_agree (e_api e) api' unt ->
  scale_down_taint e o mn dry st unt want = scale_down_taint (env_with_api e api') o mn dry st unt want.
Proof.
  intros Ha. unfold scale_down_taint. destruct (_ <? 0); [reflexivity|].
  rewrite (taint_loop_api e api' o dry (sort_oldest unt)); [reflexivity|].
  intros n Hn. apply Ha. apply (proj1 (sort_oldest_In _ _)). exact Hn.
Qed.

Lemma scale_up_api e api' o mx dry st a tainted want : api_agree (e_api e) api' tainted ->
  scale_up e o mx dry st a tainted want = scale_up (env_with_api e api') o mx dry st a tainted want.
Proof.
  intros Ha. unfold scale_up.
  assert (Hu : match tainted with [] => ([], 0, g_taint_tracker st) | _ => untaint_loop e dry (sort_newest tainted) want 0 (g_taint_tracker st) end
             = match tainted with [] => ([], 0, g_taint_tracker st) | _ => untaint_loop (env_with_api e api') dry (sort_newest tainted) want 0 (g_taint_tracker st) end).
  { destruct tainted as [|t0 ts] eqn:Et; [reflexivity|]. rewrite <- Et in *. apply untaint_loop_api.
    intros n Hn. apply Ha. apply (proj1 (sort_newest_In _ _)). exact Hn. }
  rewrite Hu. reflexivity.
Qed.

Lemma try_delete_api e api' a cands : try_delete_nodes e a cands = try_delete_nodes (env_with_api e api') a cands.
Proof. reflexivity. Qed.

Lemma reap_candidates_api e api' o dry pods tainted : reap_candidates e o dry pods tainted = reap_candidates (env_with_api e api') o dry pods tainted.
Proof. reflexivity. Qed.

Lemma scan_act_api e api' o mn mx dry st2 a pods unt tainted forced lag tg us cap d0 fz :
  api_agree (e_api e) api' unt -> api_agree (e_api e) api' tainted ->
  scan_act e o mn mx dry st2 a pods unt tainted forced lag tg us cap d0 fz =
  scan_act (env_with_api e api') o mn mx dry st2 a pods unt tainted forced lag tg us cap d0 fz.
Proof.
  intros Hu Ht. unfold scan_act.
  change (scale_on_max_age (env_with_api e api') o mn unt tainted) with (scale_on_max_age e o mn unt tainted).
  rewrite <- (try_delete_api e api'). destruct (try_delete_nodes e a (force_candidates dry pods forced)) as [[fcalls ferr] a1].
  rewrite <- (reap_candidates_api e api'). rewrite <- (try_delete_api e api' a1).
  match goal with |- context [if ?d <? 0 then _ else _] => set (d2 := d) end.
  rewrite <- (scale_down_taint_api e api' o mn dry st2 unt (- d2) Hu).
  rewrite <- (scale_up_api e api' o mx dry st2 a1 tainted d2 Ht).
  reflexivity.
Qed.

(* a group's scan reads the API server only through the copies of its own nodes *)
Theorem scan_group_api e api' o mn mx st a all_nodes all_pods :
  api_agree (e_api e) api' (group_nodes o all_nodes) ->
  scan_group e o mn mx st a all_nodes all_pods = scan_group (env_with_api e api') o mn mx st a all_nodes all_pods.
Proof.
  intros Ha. unfold scan_group.
  change (e_dry (env_with_api e api')) with (e_dry e). change (e_now (env_with_api e api')) with (e_now e).
  set (dry := e_dry e || o_dry o). set (nodes := group_nodes o all_nodes) in *. set (pods := group_pods o all_pods).
  set (st1 := match nodes with n :: _ => with_cache st (first_alloc n) | [] => st end).
  set (cls := filter_nodes dry st1 nodes).
  assert (Hunt : api_agree (e_api e) api' (c_untainted cls)).
  { eapply api_agree_incl; [|exact Ha]. intros n Hn. unfold cls, filter_nodes in Hn; simpl in Hn. apply filter_In in Hn. tauto. }
  assert (Htnt : api_agree (e_api e) api' (c_tainted cls)).
  { eapply api_agree_incl; [|exact Ha]. intros n Hn. unfold cls, filter_nodes in Hn; simpl in Hn. apply filter_In in Hn. tauto. }
  destruct nodes as [|n0 ns] eqn:En, pods as [|p0 ps] eqn:Ep; try reflexivity; rewrite <- ?En, <- ?Ep in *.
  all: destruct (zlen nodes <? mn); [reflexivity|]; destruct (mx <? zlen nodes); [reflexivity|].
  all: rewrite <- (scale_up_api e api' o mx dry _ a (c_tainted cls) _ Htnt).
  all: destruct (negb _ && _); [reflexivity|].
  all: destruct (calc_percent _ _ _ _ _); [|reflexivity]; destruct (fst _); [reflexivity|].
  all: change (registration_lag_calls (env_with_api e api')) with (registration_lag_calls e).
  all: destruct (decide _ _ _ _ _ _ _); [|reflexivity].
  all: apply scan_act_api; assumption.
Qed.

Lemma c12_ni e o mn mx st a nodes pods nodes' pods' :
  group_nodes o nodes = group_nodes o nodes' -> group_pods o pods = group_pods o pods' ->
  scan_group e o mn mx st a nodes pods = scan_group e o mn mx st a nodes' pods'.
Proof. intros Hn Hp. unfold scan_group. rewrite Hn, Hp. reflexivity. Qed.

(* two worlds that agree on everything a group can see give the same result for that group *)
Theorem group_scan_isolated s s' g a :
  s_now s = s_now s' -> s_dry s = s_dry s' ->
  group_nodes (gi_opts g) (s_nodes s) = group_nodes (gi_opts g) (s_nodes s') ->
  group_pods (gi_opts g) (s_pods s) = group_pods (gi_opts g) (s_pods s') ->
  api_agree (s_api s) (s_api s') (group_nodes (gi_opts g) (s_nodes s)) ->
  group_scan s g a = group_scan s' g a.
Proof.
  intros Hnow Hdry Hn Hp Ha. unfold group_scan, scan_of, ctx_of. simpl. rewrite <- Hnow, <- Hdry.
  set (e := {| e_now := s_now s; e_dry := s_dry s; e_api := s_api s; e_korc := gi_korc g; e_aorc := gi_aorc g; e_descinst_fail := gi_descinst_fail g |}).
  rewrite (c12_ni e (gi_opts g) _ _ (gi_state g) (Some a) (s_nodes s) (s_pods s) (s_nodes s') (s_pods s') Hn Hp).
  rewrite (scan_group_api e (s_api s') (gi_opts g) _ _ (gi_state g) (Some a) (s_nodes s') (s_pods s')).
  - reflexivity.
  - rewrite <- Hn. exact Ha.
Qed.

Lemma group_by_name (gs : list group_in) g g0 : NoDup (map (fun g => o_name (gi_opts g)) gs) -> In g gs -> In g0 gs ->
  o_name (gi_opts g) = o_name (gi_opts g0) -> g = g0.
Proof.
  induction gs as [|h l IH]; intros Hnd Hg Hg0 Hn; [destruct Hg|].
  inversion Hnd as [|? ? Hnot Hnd']; subst. destruct Hg as [<-|Hg], Hg0 as [<-|Hg0]; auto.
  - exfalso. apply Hnot. rewrite Hn. apply in_map_iff. exists g0. auto.
  - exfalso. apply Hnot. rewrite <- Hn. apply in_map_iff. exists g. auto.
Qed.

(* over a whole RunOnce: whatever differs between two worlds outside what group g can see — other groups' nodes, pods,
   API copies, cloud groups, and the other groups' configuration, memory and oracles (e.g. their dry-mode switch) — if g
   is reached in both runs, its journal, the memory it leaves and its outcome are equal *)
Theorem run_once_isolated s s' g :
  s_now s = s_now s' -> s_dry s = s_dry s' -> wf_groups s -> wf_groups s' -> In g (s_groups s) -> In g (s_groups s') ->
  group_nodes (gi_opts g) (s_nodes s) = group_nodes (gi_opts g) (s_nodes s') ->
  group_pods (gi_opts g) (s_pods s) = group_pods (gi_opts g) (s_pods s') ->
  api_agree (s_api s) (s_api s') (group_nodes (gi_opts g) (s_nodes s)) ->
  find_asg (s_cloud s) (o_asg (gi_opts g)) = find_asg (s_cloud s') (o_asg (gi_opts g)) ->
  forall r r', In (o_name (gi_opts g), r) (fst (run_once s)) -> In (o_name (gi_opts g), r') (fst (run_once s')) ->
  r_calls r = r_calls r' /\ r_state r = r_state r' /\ r_out r = r_out r'.
Proof.
  intros Hnow Hdry [Hn1 Hn2] [Hn1' Hn2'] Hg Hg' Hnodes Hpods Hapi Hasg r r' Hr Hr'.
  unfold run_once in Hr, Hr'.
  destruct (run_groups_spec s (s_groups s) (s_cloud s) Hn2 _ _ Hr) as (g1 & a1 & Hg1 & Hname1 & Hf1 & Hc1 & Hs1 & Ho1).
  destruct (run_groups_spec s' (s_groups s') (s_cloud s') Hn2' _ _ Hr') as (g2 & a2 & Hg2 & Hname2 & Hf2 & Hc2 & Hs2 & Ho2).
  assert (g1 = g) by (symmetry; exact (group_by_name (s_groups s) g g1 Hn1 Hg Hg1 Hname1)). subst g1.
  assert (g2 = g) by (symmetry; exact (group_by_name (s_groups s') g g2 Hn1' Hg' Hg2 Hname2)). subst g2.
  rewrite Hasg in Hf1. rewrite Hf1 in Hf2. inversion Hf2; subst a2.
  rewrite (group_scan_isolated s s' g a1 Hnow Hdry Hnodes Hpods Hapi) in Hc1, Hs1, Ho1.
  rewrite Hc1, Hc2, Hs1, Hs2, Ho1, Ho2. auto.
Qed.
