(* ScanExact.v — C07, the exact remainder: the first cloud increase of a scan asks for clamp(N - untainted) on top of
   the desired size as it stands after the scan's own accepted terminations (check_C07_exact). *)
From Esc Require Import SpecScan SpecAws proofs.BaseProofs proofs.AwsProofs proofs.ScanLemmas proofs.ScanChecks proofs.ScanState proofs.ScanTaint.

(* ---------- projections of a journal ---------- *)
Lemma first_increase_app a b : no_increase a -> first_increase (a ++ b) = first_increase b.
Proof.
  induction a as [|c a IH]; intros H; [reflexivity|]. cbn [app first_increase].
  rewrite (H c (or_introl eq_refl)). apply IH. intros c' Hc'. apply H. right. exact Hc'.
Qed.

Lemma first_increase_none calls : no_increase calls -> first_increase calls = None.
Proof. intros H. rewrite <- (app_nil_r calls). rewrite first_increase_app by exact H. reflexivity. Qed.

Lemma cbi_app a b : no_increase a -> calls_before_increase (a ++ b) = a ++ calls_before_increase b.
Proof.
  induction a as [|c a IH]; intros H; [reflexivity|]. cbn [app calls_before_increase].
  rewrite (H c (or_introl eq_refl)). f_equal. apply IH. intros c' Hc'. apply H. right. exact Hc'.
Qed.

Lemma ok_terminations_is_okterm calls : ok_terminations calls = okterm calls.
Proof. reflexivity. Qed.

Lemma okterm_liftK l : okterm (liftK l) = 0.
Proof. rewrite okterm_acalls, acalls_of_liftK. reflexivity. Qed.

Lemma ok_got_names_app a b : ok_got_names (a ++ b) = ok_got_names a ++ ok_got_names b.
Proof. unfold ok_got_names. rewrite map_app, concat_app. reflexivity. Qed.

Lemma counted_app x a b : counted_untainted x (a ++ b) = counted_untainted x a + counted_untainted x b.
Proof. unfold counted_untainted. rewrite untaint_ok_targets_app, ok_got_names_app, filter_app, !zlen_app. lia. Qed.

Lemma no_update_untaint_targets x calls : no_update calls -> untaint_ok_targets x calls = [].
Proof.
  intros H. unfold untaint_ok_targets. induction calls as [|c l IH]; [reflexivity|]. cbn [map concat].
  rewrite IH by (intros c' Hc'; apply H; right; exact Hc'). rewrite app_nil_r.
  specialize (H c (or_introl eq_refl)). destruct c as [[]|]; try reflexivity. contradiction.
Qed.

Lemma no_get_ok_got calls : no_get calls -> ok_got_names calls = [].
Proof.
  intros H. unfold ok_got_names. induction calls as [|c l IH]; [reflexivity|]. cbn [map concat].
  rewrite IH by (intros c' Hc'; apply H; right; exact Hc'). rewrite app_nil_r.
  specialize (H c (or_introl eq_refl)). destruct c as [[]|]; try reflexivity. contradiction.
Qed.

Lemma counted_quiet x pre : quiet_prefix pre -> counted_untainted x pre = 0.
Proof.
  intros [H1 [_ H3]]. unfold counted_untainted. rewrite (no_update_untaint_targets x pre H1), (no_get_ok_got pre H3). reflexivity.
Qed.

(* the cloud calls of an increase, up to the first increase call: nothing counted, nothing terminated *)
Lemma counted_cbi_liftA x l : counted_untainted x (calls_before_increase (liftA l)) = 0.
Proof.
  induction l as [|c l IH]; [reflexivity|]. change (liftA (c :: l)) with (CA c :: liftA l). cbn [calls_before_increase].
  destruct (is_cloud_increase (CA c)); [reflexivity|].
  change (CA c :: calls_before_increase (liftA l)) with ([CA c] ++ calls_before_increase (liftA l)).
  rewrite counted_app, IH. reflexivity.
Qed.

Lemma okterm_cbi_liftA desired d l : forallb (inc_call_ok desired d) l = true -> okterm (calls_before_increase (liftA l)) = 0.
Proof.
  induction l as [|c l IH]; [reflexivity|]. change (liftA (c :: l)) with (CA c :: liftA l). cbn [calls_before_increase forallb].
  intros H. apply andb_prop in H. destruct H as [Hc Hl].
  destruct (is_cloud_increase (CA c)); [reflexivity|].
  change (CA c :: calls_before_increase (liftA l)) with ([CA c] ++ calls_before_increase (liftA l)).
  rewrite okterm_app, (IH Hl). destruct c; try reflexivity. discriminate.
Qed.

(* the first increase call of IncreaseSize(d): desired + d, or a fleet of d *)
Lemma first_increase_asks desired d l : forallb (inc_call_ok desired d) l = true ->
  match first_increase (liftA l) with
  | None => True
  | Some (ASetDesired _ v _ _) => v = desired + d
  | Some (ACreateFleet total _ _ _ _ _ _ _) => total = d
  | Some _ => False
  end.
Proof.
  induction l as [|c l IH]; [intros _; exact I|]. change (liftA (c :: l)) with (CA c :: liftA l). cbn [first_increase forallb].
  intros H. apply andb_prop in H. destruct H as [Hc Hl].
  destruct c; cbn [is_cloud_increase]; try (apply IH; exact Hl); simpl in Hc; apply Z.eqb_eq in Hc; exact Hc.
Qed.

(* ---------- counting the untaint run ---------- *)
Lemma remove_swap_none ts : remove_swap ts = None -> existsb (fun t => t_key t =? id_esc_key) ts = false.
Proof.
  induction ts as [|t l IH]; [reflexivity|]. cbn [remove_swap existsb].
  destruct (t_key t =? id_esc_key); [discriminate|]. cbn [orb]. intros H. apply IH. destruct (remove_swap l); [discriminate | reflexivity].
Qed.

Lemma cbi_no_increase calls : no_increase calls -> calls_before_increase calls = calls.
Proof.
  induction calls as [|c l IH]; intros H; [reflexivity|]. cbn [calls_before_increase].
  rewrite (H c (or_introl eq_refl)). f_equal. apply IH. intros c' Hc'. apply H. right. exact Hc'.
Qed.

Lemma attempted_app_r a b : attempted_increase b = true -> attempted_increase (a ++ b) = true.
Proof. intros H. unfold attempted_increase in *. rewrite existsb_app, H. apply orb_true_r. Qed.

(* IncreaseSize(d) with d positive and within the cloud maximum always reaches the cloud: SetDesiredCapacity, or in fleet
   mode at least the describe call the request starts with *)
Lemma aws_increase_attempts g d o : 0 < d -> a_desired g + d <= a_max g ->
  attempted_increase (liftA (fst (fst (aws_increase g d o)))) = true.
Proof.
  intros Hd Hmax. unfold aws_increase.
  replace (d <=? 0) with false by (symmetry; apply Z.leb_gt; exact Hd).
  replace (a_max g <? a_desired g + d) with false by (symmetry; apply Z.ltb_ge; exact Hmax).
  destruct (fleet_mode g).
  - unfold one_shot. destruct (ao_describe o) as [| |vpc]; try reflexivity.
    destruct vpc as [|v0 vs]; [reflexivity|]. destruct (ao_fleet o) as [|insts nerr]; [reflexivity|].
    assert (Hpre : forall rest r a', attempted_increase (liftA (fst (fst (([ADescribeAsg (a_name g) true; fleet_call g d (v0 :: vs) true] ++ rest, r, a') : list acall * inc_result * asg)))) = true) by reflexivity.
    destruct insts as [|i0 is]; [destruct nerr; [|reflexivity]|].
    all: cbv zeta.
    all: match goal with |- context [if negb ?b then _ else _] => destruct b end; cbn [negb].
    all: try (unfold cleanup; match goal with |- context [terminate_orphans ?a ?i ?f] => destruct (terminate_orphans a i f) as [[tc a'] fatal] end; reflexivity).
    all: match goal with |- context [attach_loop ?f ?n ?i ?k ?fl] => destruct (attach_loop f n i k fl) as [ac r] end.
    all: destruct r; try reflexivity.
    all: unfold cleanup; match goal with |- context [terminate_orphans ?a ?i ?f] => destruct (terminate_orphans a i f) as [[tc a'] fatal] end; reflexivity.
  - destruct (ao_setdesired_fail o); reflexivity.
Qed.

Lemma nodes_to_add_fits want target maxn amax : maxn <= amax -> 0 < nodes_to_add want target maxn -> target + nodes_to_add want target maxn <= amax.
Proof. unfold nodes_to_add. destruct (maxn <? target + want) eqn:E; intros; [lia | apply Z.ltb_ge in E; lia]. Qed.

Section Count.
  Variable x : gctx.
  Notation api := (e_api (x_env x)).
  Notation o := (e_korc (x_env x)).
  Notation tainted := (c_tainted (x_cls x)).
  Let uc (p : node * uoutcome) := fst (delete_taint api o (n_name (fst p))).

  (* one DeleteToBeRemovedTaint counts exactly when it returns without error *)
  Lemma one_untaint_counted y : In y tainted ->
    counted_untainted x (liftK (fst (delete_taint api o (n_name y)))) = if uoc_counts (untaint_outcome api o (n_name y)) then 1 else 0.
  Proof.
    intros Hy. unfold delete_taint, untaint_outcome. destruct (api_get api o (n_name y)) as [u|] eqn:Eu; [|reflexivity].
    pose proof (api_get_lookup x _ _ Eu) as Hl.
    destruct (remove_swap (n_taints u)) as [ts|] eqn:Er.
    - assert (Hesc : api_has_esc x (n_name y) = true).
      { unfold api_has_esc, api_copy. rewrite Hl. destruct (remove_swap_perm _ _ Er) as [_ [H _]]. exact H. }
      destruct (mem_id (n_name y) (ko_update_fail o)).
      + unfold counted_untainted, untaint_ok_targets, ok_got_names, liftK. cbn [map concat app fst filter].
        rewrite Hesc, andb_false_r. reflexivity.
      + unfold counted_untainted, untaint_ok_targets, ok_got_names, liftK. cbn [map concat app fst filter].
        rewrite Hesc, andb_false_r. unfold longer_than_copy, api_copy. rewrite Hl. cbn [n_taints set_taints].
        destruct (remove_swap_perm _ _ Er) as [_ [_ H3]].
        replace (Nat.ltb (length (n_taints u)) (length ts)) with false by (symmetry; apply Nat.ltb_ge; lia). reflexivity.
    - assert (Hesc : api_has_esc x (n_name y) = false).
      { unfold api_has_esc, api_copy. rewrite Hl. apply remove_swap_none. exact Er. }
      unfold counted_untainted, untaint_ok_targets, ok_got_names, liftK. cbn [map concat app fst filter].
      rewrite Hesc, (in_class_In _ _ Hy). reflexivity.
  Qed.

  Lemma urun_counted l : (forall y, In y l -> In y tainted) -> forall n count,
    counted_untainted x (liftK (concat (map uc (ul_run api o l n count)))) = zlen (filter (fun p => uoc_counts (snd p)) (ul_run api o l n count)).
  Proof.
    induction l as [|y l IH]; intros Hl n count; cbn [ul_run]; [reflexivity|].
    destruct (n <=? count); [reflexivity|]. cbn [map concat filter snd].
    rewrite liftK_app, counted_app, IH by (intros z Hz; apply Hl; right; exact Hz).
    unfold uc at 1. cbn [fst]. rewrite one_untaint_counted by (apply Hl; left; reflexivity).
    destruct (uoc_counts (untaint_outcome api o (n_name y))); rewrite ?zlen_cons; lia.
  Qed.

  (* scale_up: the untaint run, then (if something is still missing and the clamp leaves room) IncreaseSize(add) *)
  Lemma scale_up_exact_shape mx st a want : x_dry x = false -> (forall y, In y tainted -> has_esc y = true) ->
    let run := ul_run api o (sort_newest tainted) want 0 in
    let U := liftK (concat (map uc run)) in
    let ucount := zlen (filter (fun p : node * uoutcome => uoc_counts (snd p)) run) in
    let up := up_calls (scale_up (x_env x) (x_opts x) mx (x_dry x) st a tainted want) in
    (up = U /\ (want - ucount <= 0 \/ a = None \/ exists g, a = Some g /\ nodes_to_add (want - ucount) (a_desired g) (Z.min mx (a_max g)) <= 0)) \/
    exists g, a = Some g /\ 0 < nodes_to_add (want - ucount) (a_desired g) (Z.min mx (a_max g)) /\
      up = U ++ liftA (fst (fst (aws_increase g (nodes_to_add (want - ucount) (a_desired g) (Z.min mx (a_max g))) (e_aorc (x_env x))))).
  Proof.
    intros Hdry Hesc run U ucount up. subst up. unfold scale_up. rewrite Hdry.
    assert (Hesc' : forall y, In y (sort_newest tainted) -> has_esc y = true) by (intros y Hy; apply Hesc; apply (proj1 (sort_newest_In _ _)); exact Hy).
    pose proof (untaint_loop_run (x_env x) (sort_newest tainted) Hesc' want 0 (g_taint_tracker st)) as [H1 H2]. fold run in H1, H2.
    set (ul := match tainted with [] => ([], 0, g_taint_tracker st) | _ => untaint_loop (x_env x) false (sort_newest tainted) want 0 (g_taint_tracker st) end).
    assert (Hul : fst (fst ul) = concat (map uc run) /\ snd (fst ul) = ucount).
    { subst ul. destruct tainted as [|t0 ts] eqn:Et; [|split; [exact H1 | rewrite H2; subst ucount; lia]].
      subst ucount U run. unfold sort_newest. split; reflexivity. }
    destruct ul as [[ucalls cnt] tr]. cbn [fst snd] in Hul. destruct Hul as [Hu1 Hu2]. subst ucalls cnt. fold U.
    destruct (0 <? want - ucount) eqn:Erest; [|left; split; [reflexivity | left; apply Z.ltb_ge; exact Erest]].
    destruct a as [g|]; [|left; split; [reflexivity | right; left; reflexivity]].
    destruct (nodes_to_add (want - ucount) (a_desired g) (Z.min mx (a_max g)) <=? 0) eqn:Eadd;
      [left; split; [reflexivity | right; right; exists g; split; [reflexivity | apply Z.leb_le; exact Eadd]]|]. apply Z.leb_gt in Eadd.
    right. exists g. split; [reflexivity|]. split; [exact Eadd|].
    destruct (aws_increase g _ (e_aorc (x_env x))) as [[ac r] g']. destruct r; reflexivity.
  Qed.

  (* a scale-up by the needed number behind a quiet prefix, the provider's desired size following the prefix's terminations *)
  Lemma up_exact pre st a1 want : x_dry x = false -> (forall y, In y tainted -> has_esc y = true) ->
    quiet_prefix pre -> need_of x = Some want ->
    oasg_rel (x_asg x) a1 ->
    (match x_asg x, a1 with Some a, Some g1 => a_desired g1 = a_desired a - okterm pre | _, _ => True end) ->
    check_C07_exact x (pre ++ up_calls (scale_up (x_env x) (x_opts x) (x_max x) (x_dry x) st a1 tainted want)) = true.
  Proof.
    intros Hdry Hesc Hpre Hneed Hrel Hdes.
    pose proof (proj1 (proj2 Hpre)) as Hpre_inc.
    destruct (scale_up_exact_shape (x_max x) st a1 want Hdry Hesc) as [[-> _] | (g1 & -> & Hadd & ->)]; unfold check_C07_exact; rewrite Hdry.
    { rewrite first_increase_none; [reflexivity | apply no_increase_app; [exact Hpre_inc | apply liftK_no_increase]]. }
    set (run := ul_run api o (sort_newest tainted) want 0) in *.
    set (U := concat (map uc run)) in *.
    set (ucount := zlen (filter (fun p : node * uoutcome => uoc_counts (snd p)) run)) in *.
    set (add := nodes_to_add (want - ucount) (a_desired g1) (Z.min (x_max x) (a_max g1))) in *.
    pose proof (aws_increase_asks g1 add (e_aorc (x_env x))) as Hasks.
    set (ac := fst (fst (aws_increase g1 add (e_aorc (x_env x))))) in *.
    rewrite (first_increase_app pre) by exact Hpre_inc. rewrite (first_increase_app (liftK U)) by apply liftK_no_increase.
    pose proof (first_increase_asks _ _ _ Hasks) as Hfirst.
    destruct (first_increase (liftA ac)) as [c|] eqn:Ec; [|reflexivity].
    rewrite Hneed. destruct (x_asg x) as [a|] eqn:Ea; [|simpl in Hrel; contradiction].
    simpl in Hrel. destruct Hrel as (_ & _ & Hmax & _).
    rewrite (cbi_app pre) by exact Hpre_inc. rewrite (cbi_app (liftK U)) by apply liftK_no_increase.
    rewrite ok_terminations_is_okterm, !okterm_app, okterm_liftK, (okterm_cbi_liftA _ _ _ Hasks).
    rewrite !counted_app, (counted_quiet x pre Hpre), counted_cbi_liftA.
    unfold U, run.
    rewrite urun_counted by (intros y Hy; apply (proj1 (sort_newest_In _ _)); exact Hy).
    fold run. fold ucount.
    assert (Hadd_eq : nodes_to_add (want - (0 + (ucount + 0))) (a_desired a - (okterm pre + (0 + 0))) (Z.min (x_max x) (a_max a)) = add).
    { unfold add. rewrite Hmax, Hdes. f_equal; lia. }
    rewrite Hadd_eq.
    replace (0 <? add) with true by (symmetry; apply Z.ltb_lt; exact Hadd). cbn [andb].
    destruct c; try contradiction; apply Z.eqb_eq; rewrite Hfirst; lia.
  Qed.
  (* the same scale-up acts on what it still needs *)
  Lemma up_attempted pre st a1 want : x_dry x = false -> (forall y, In y tainted -> has_esc y = true) ->
    quiet_prefix pre -> need_of x = Some want ->
    oasg_rel (x_asg x) a1 ->
    (match x_asg x, a1 with Some a, Some g1 => a_desired g1 = a_desired a - okterm pre | _, _ => True end) ->
    check_up_attempted x (pre ++ up_calls (scale_up (x_env x) (x_opts x) (x_max x) (x_dry x) st a1 tainted want)) = true.
  Proof.
    intros Hdry Hesc Hpre Hneed Hrel Hdes.
    pose proof (proj1 (proj2 Hpre)) as Hpre_inc.
    destruct (x_asg x) as [a|] eqn:Ea; [|unfold check_up_attempted; rewrite Hdry, Hneed, Ea; reflexivity].
    destruct a1 as [g1|]; [|simpl in Hrel; contradiction].
    simpl in Hrel. destruct Hrel as (_ & _ & Hmax & _).
    set (run := ul_run api o (sort_newest tainted) want 0).
    set (ucount := zlen (filter (fun p : node * uoutcome => uoc_counts (snd p)) run)).
    assert (Hcount : counted_untainted x (liftK (concat (map uc run))) = ucount).
    { unfold run. rewrite urun_counted by (intros y Hy; apply (proj1 (sort_newest_In _ _)); exact Hy). reflexivity. }
    destruct (scale_up_exact_shape (x_max x) st (Some g1) want Hdry Hesc) as [[-> Hwhy] | (g & Hg & Hadd & ->)];
      unfold check_up_attempted; rewrite Hdry, Hneed, Ea.
    - fold run in Hwhy. fold ucount in Hwhy.
      rewrite cbi_no_increase by (apply no_increase_app; [exact Hpre_inc | apply liftK_no_increase]).
      rewrite ok_terminations_is_okterm, okterm_app, okterm_liftK, counted_app, (counted_quiet x pre Hpre). fold run. rewrite Hcount.
      destruct Hwhy as [Hrest | [Hnone | [g [Hg Hle]]]]; [| discriminate |].
      + replace (0 <? want - (0 + ucount)) with false by (symmetry; apply Z.ltb_ge; lia). reflexivity.
      + inversion Hg; subst g.
        replace (nodes_to_add (want - (0 + ucount)) (a_desired a - (okterm pre + 0)) (Z.min (x_max x) (a_max a)))
          with (nodes_to_add (want - ucount) (a_desired g1) (Z.min (x_max x) (a_max g1))) by (rewrite Hmax, Hdes; f_equal; lia).
        replace (0 <? nodes_to_add (want - ucount) (a_desired g1) (Z.min (x_max x) (a_max g1))) with false by (symmetry; apply Z.ltb_ge; exact Hle).
        rewrite andb_false_r. reflexivity.
    - inversion Hg; subst g. fold run in Hadd |- *. fold ucount in Hadd |- *.
      match goal with |- (if ?c then _ else _) = true => destruct c end; [|reflexivity].
      rewrite app_assoc. apply attempted_app_r. apply aws_increase_attempts; [exact Hadd|].
      apply nodes_to_add_fits; [apply Z.le_min_r | exact Hadd].
  Qed.
End Count.

(* ---------- N, read off the snapshot, is what the scan passes to ScaleUp ---------- *)
Lemma need_of_below_min x : x_cls x = filter_nodes (x_dry x) (x_st x) (x_nodes x) ->
  in_cooldown x = false -> zlen (c_untainted (x_cls x)) < x_min x -> x_min x <= zlen (x_nodes x) <= x_max x ->
  need_of x = Some (x_min x - zlen (c_untainted (x_cls x))).
Proof.
  intros Hcls Hcool Hlt [Hb1 Hb2]. unfold need_of. rewrite Hcool.
  replace (match x_nodes x, x_pods x with [], [] => true | _, _ => false end) with false.
  2:{ destruct (x_nodes x) as [|n0 ns] eqn:En; [|destruct (x_pods x); reflexivity]. exfalso.
      rewrite Hcls in Hlt; rewrite ?En in Hlt. unfold filter_nodes, zlen in *; simpl in *. lia. }
  replace (zlen (x_nodes x) <? x_min x) with false by (symmetry; apply Z.ltb_ge; lia).
  replace (x_max x <? zlen (x_nodes x)) with false by (symmetry; apply Z.ltb_ge; lia).
  replace (zlen (c_untainted (x_cls x)) <? x_min x) with true by (symmetry; apply Z.ltb_lt; lia).
  reflexivity.
Qed.

Lemma need_of_decided x cpuP memP d0 :
  in_cooldown x = false -> x_min x <= zlen (c_untainted (x_cls x)) -> x_min x <= zlen (x_nodes x) <= x_max x ->
  (x_nodes x <> [] \/ x_pods x <> []) -> percents x = PctOk cpuP memP ->
  decide (x_opts x) (st2_of x) cpuP memP (r_cpu (u_total (usage_of x))) (1000 * r_mem (u_total (usage_of x))) (c_untainted (x_cls x)) = DeltaOk d0 ->
  let d2 := final_delta (x_env x) (x_opts x) (x_min x) (x_max x) (usage_of x) (capacity_of x) (c_untainted (x_cls x)) (c_tainted (x_cls x)) d0 in
  0 < d2 -> need_of x = Some d2.
Proof.
  intros Hcool Hmin [Hb1 Hb2] Hne Hp Hdec d2 Hpos. unfold need_of. rewrite Hcool.
  replace (match x_nodes x, x_pods x with [], [] => true | _, _ => false end) with false
    by (destruct (x_nodes x), (x_pods x); try reflexivity; destruct Hne as [Hne|Hne]; exfalso; apply Hne; reflexivity).
  replace (zlen (x_nodes x) <? x_min x) with false by (symmetry; apply Z.ltb_ge; lia).
  replace (x_max x <? zlen (x_nodes x)) with false by (symmetry; apply Z.ltb_ge; lia).
  replace (zlen (c_untainted (x_cls x)) <? x_min x) with false by (symmetry; apply Z.ltb_ge; lia).
  cbn [orb]. rewrite Hp, Hdec. fold d2. replace (0 <? d2) with true by (symmetry; apply Z.ltb_lt; exact Hpos). reflexivity.
Qed.

(* ---------- scan_act: no increase at all, or a scale-up by the final delta behind the force removals ---------- *)
Lemma scan_act_up_cases e o mn mx dry st2 a pods unt tainted forced lag tg us cap d0 fz : quiet_prefix lag -> okterm lag = 0 ->
  let r := scan_act e o mn mx dry st2 a pods unt tainted forced lag tg us cap d0 fz in
  let d2 := final_delta e o mn mx us cap unt tainted d0 in
  no_increase (r_calls r) \/
  (0 < d2 /\ exists pre a1, quiet_prefix pre /\ oasg_rel a a1 /\
     (match a, a1 with Some g, Some g1 => a_desired g1 = a_desired g - okterm pre | _, _ => True end) /\
     r_calls r = pre ++ up_calls (scale_up e o mx dry st2 a1 tainted d2)).
Proof.
  intros Hlag Hlag0 r d2. subst r. unfold scan_act. fold (final_delta e o mn mx us cap unt tainted d0). fold d2.
  pose proof (proj1 (proj2 Hlag)) as Hlag_inc.
  destruct (try_delete_nodes e a (force_candidates dry pods forced)) as [[fcalls ferr] a1] eqn:Ef.
  destruct (try_delete_nodes_calls _ _ _ _ _ _ Ef) as [Hrel1 [Hf Hd1]].
  pose proof (removal_quiet _ _ _ Hf) as Hfq. pose proof (proj1 (proj2 Hfq)) as Hf_inc.
  destruct (d2 <? 0) eqn:E1.
  - left.
    destruct (try_delete_nodes e a1 (reap_candidates e o dry pods tainted)) as [[rcalls rerr] a2] eqn:Er.
    destruct (try_delete_nodes_calls _ _ _ _ _ _ Er) as [_ [Hr _]]. apply removal_no_increase in Hr.
    destruct (scale_down_taint e o mn dry st2 unt (- d2)) as [[tcalls terr] st3] eqn:Et.
    destruct (scale_down_taint_lock _ _ _ _ _ _ _ _ _ _ Et) as [_ Ht].
    destruct rerr as [[|]|]; simpl; repeat apply no_increase_app; assumption.
  - destruct (0 <? d2) eqn:E2.
    + right. apply Z.ltb_lt in E2. split; [exact E2|]. exists (lag ++ fcalls), a1.
      split; [apply quiet_prefix_app; assumption|]. split; [exact Hrel1|]. split.
      * destruct a as [g|], a1 as [g1|]; try exact I. rewrite okterm_app, Hlag0, okterm_acalls. exact Hd1.
      * destruct (up_out (scale_up e o mx dry st2 a1 tainted d2)); simpl; rewrite <- app_assoc; reflexivity.
    + left.
      destruct (try_delete_nodes e a1 (reap_candidates e o dry pods tainted)) as [[rcalls rerr] a2] eqn:Er.
      destruct (try_delete_nodes_calls _ _ _ _ _ _ Er) as [_ [Hr _]]. apply removal_no_increase in Hr.
      destruct rerr as [[|]|]; simpl; repeat apply no_increase_app; assumption.
Qed.

Lemma c07_exact_no_increase x calls : no_increase calls -> check_C07_exact x calls = true.
Proof. intros H. unfold check_C07_exact. rewrite (first_increase_none _ H). destruct (x_dry x); reflexivity. Qed.

(* ---------- the theorem ---------- *)
Theorem group_passes_C07_exact now gdry api g a nodes pods :
  let x := ctx_of now gdry api g a nodes pods in
  NoDup (map n_name (x_nodes x)) ->
  check_C07_exact x (r_calls (scan_of now gdry api g a nodes pods)) = true.
Proof.
  intros x Hnd.
  destruct (x_dry x) eqn:Hdry; [unfold check_C07_exact; rewrite Hdry; reflexivity|].
  assert (Hcls : x_cls x = filter_nodes (x_dry x) (x_st x) (x_nodes x)) by reflexivity.
  assert (Hasg : x_asg x = a) by reflexivity.
  pose proof (tainted_has_esc x Hdry Hcls) as Hesc.
  apply (scan_of_frame (fun r => check_C07_exact x (r_calls r) = true) now gdry api g a nodes pods x eq_refl).
  all: clearbody x.
  - intros. apply c07_exact_no_increase. intros c [].
  - (* below the minimum: ScaleUp(min - untainted), nothing before it *)
    intros Hcool Hlt Hb tags. cbv zeta. cbn [r_calls mk].
    rewrite <- (app_nil_l (up_calls _)). rewrite <- Hasg.
    apply up_exact; try assumption.
    + split; [|split]; intros c [].
    + apply need_of_below_min; assumption.
    + apply oasg_rel_refl.
    + destruct (x_asg x); [|exact I]. change (okterm []) with 0. lia.
  - intros Hcool Hmin Hb Hne cpuP memP Hp. split.
    + intros tags d _. apply c07_exact_no_increase. apply lag_no_increase.
    + intros tags d0 Hdec.
      match goal with |- check_C07_exact _ (r_calls (scan_act ?e ?o ?mn ?mx ?dry ?s2 ?aa ?pods ?unt ?tainted ?forced ?lag ?tg ?us ?cap ?d0 ?fz)) = true =>
         pose proof (scan_act_up_cases e o mn mx dry s2 aa pods unt tainted forced lag tg us cap d0 fz (lag_quiet _ _ _) (lag_okterm _ _ _)) as Hbr end.
      cbv zeta in Hbr. rewrite <- Hasg in Hbr |- *.
      destruct Hbr as [Hno | [Hpos [pre [a1 [Hq [Hrel [Hd ->]]]]]]]; [apply c07_exact_no_increase; exact Hno|].
      apply up_exact; try assumption.
      exact (need_of_decided x cpuP memP d0 Hcool Hmin Hb Hne Hp Hdec Hpos).
Qed.

(* ---------- a decided scale-up is acted on (C06: "only adds capacity", "a scale-up of at least one node") ---------- *)
Lemma up_attempted_none x calls : need_of x = None -> check_up_attempted x calls = true.
Proof. intros H. unfold check_up_attempted. rewrite H. destruct (x_dry x); reflexivity. Qed.

Lemma need_of_quiet x :
  in_cooldown x = true \/ (x_nodes x = [] /\ x_pods x = []) \/ zlen (x_nodes x) < x_min x \/ x_max x < zlen (x_nodes x) \/
  (x_min x <= zlen (c_untainted (x_cls x)) /\ percents x = PctErr) -> need_of x = None.
Proof.
  unfold need_of. intros [Hr|[[Hr1 Hr2]|[Hr|[Hr|[Hr1 Hr2]]]]].
  - rewrite Hr. reflexivity.
  - destruct (in_cooldown x); [reflexivity|]. rewrite Hr1, Hr2. reflexivity.
  - destruct (in_cooldown x); [reflexivity|]. destruct (match x_nodes x, x_pods x with [], [] => true | _, _ => false end); [reflexivity|].
    replace (zlen (x_nodes x) <? x_min x) with true by (symmetry; apply Z.ltb_lt; exact Hr). reflexivity.
  - destruct (in_cooldown x); [reflexivity|]. destruct (match x_nodes x, x_pods x with [], [] => true | _, _ => false end); [reflexivity|].
    replace (x_max x <? zlen (x_nodes x)) with true by (symmetry; apply Z.ltb_lt; exact Hr). rewrite orb_true_r. reflexivity.
  - destruct (in_cooldown x); [reflexivity|]. destruct (match x_nodes x, x_pods x with [], [] => true | _, _ => false end); [reflexivity|].
    destruct (_ || _); [reflexivity|].
    replace (zlen (c_untainted (x_cls x)) <? x_min x) with false by (symmetry; apply Z.ltb_ge; exact Hr1). rewrite Hr2. reflexivity.
Qed.

Lemma need_of_not_up x cpuP memP :
  in_cooldown x = false -> x_min x <= zlen (c_untainted (x_cls x)) -> x_min x <= zlen (x_nodes x) <= x_max x ->
  (x_nodes x <> [] \/ x_pods x <> []) -> percents x = PctOk cpuP memP ->
  match decide (x_opts x) (st2_of x) cpuP memP (r_cpu (u_total (usage_of x))) (1000 * r_mem (u_total (usage_of x))) (c_untainted (x_cls x)) with
  | DeltaErr _ => True
  | DeltaOk d0 => final_delta (x_env x) (x_opts x) (x_min x) (x_max x) (usage_of x) (capacity_of x) (c_untainted (x_cls x)) (c_tainted (x_cls x)) d0 <= 0
  end -> need_of x = None.
Proof.
  intros Hcool Hmin [Hb1 Hb2] Hne Hp Hd. unfold need_of. rewrite Hcool.
  replace (match x_nodes x, x_pods x with [], [] => true | _, _ => false end) with false
    by (destruct (x_nodes x), (x_pods x); try reflexivity; destruct Hne as [Hne|Hne]; exfalso; apply Hne; reflexivity).
  replace (zlen (x_nodes x) <? x_min x) with false by (symmetry; apply Z.ltb_ge; lia).
  replace (x_max x <? zlen (x_nodes x)) with false by (symmetry; apply Z.ltb_ge; lia).
  replace (zlen (c_untainted (x_cls x)) <? x_min x) with false by (symmetry; apply Z.ltb_ge; lia).
  cbn [orb]. rewrite Hp. destruct (decide _ _ _ _ _ _ _) as [d0|d]; [|reflexivity].
  replace (0 <? final_delta (x_env x) (x_opts x) (x_min x) (x_max x) (usage_of x) (capacity_of x) (c_untainted (x_cls x)) (c_tainted (x_cls x)) d0)
    with false by (symmetry; apply Z.ltb_ge; exact Hd). reflexivity.
Qed.

Lemma scan_act_up_pos e o mn mx dry st2 a pods unt tainted forced lag tg us cap d0 fz : quiet_prefix lag -> okterm lag = 0 ->
  let r := scan_act e o mn mx dry st2 a pods unt tainted forced lag tg us cap d0 fz in
  let d2 := final_delta e o mn mx us cap unt tainted d0 in
  0 < d2 -> exists pre a1, quiet_prefix pre /\ oasg_rel a a1 /\
     (match a, a1 with Some g, Some g1 => a_desired g1 = a_desired g - okterm pre | _, _ => True end) /\
     r_calls r = pre ++ up_calls (scale_up e o mx dry st2 a1 tainted d2).
Proof.
  intros Hlag Hlag0 r d2 Hpos. subst r. unfold scan_act. fold (final_delta e o mn mx us cap unt tainted d0). fold d2.
  destruct (try_delete_nodes e a (force_candidates dry pods forced)) as [[fcalls ferr] a1] eqn:Ef.
  destruct (try_delete_nodes_calls _ _ _ _ _ _ Ef) as [Hrel1 [Hf Hd1]].
  pose proof (removal_quiet _ _ _ Hf) as Hfq.
  replace (d2 <? 0) with false by (symmetry; apply Z.ltb_ge; lia).
  replace (0 <? d2) with true by (symmetry; apply Z.ltb_lt; exact Hpos).
  exists (lag ++ fcalls), a1.
  split; [apply quiet_prefix_app; assumption|]. split; [exact Hrel1|]. split.
  - destruct a as [g|], a1 as [g1|]; try exact I. rewrite okterm_app, Hlag0, okterm_acalls. exact Hd1.
  - destruct (up_out (scale_up e o mx dry st2 a1 tainted d2)); simpl; rewrite <- app_assoc; reflexivity.
Qed.

Theorem group_passes_up_attempted now gdry api g a nodes pods :
  let x := ctx_of now gdry api g a nodes pods in
  check_up_attempted x (r_calls (scan_of now gdry api g a nodes pods)) = true.
Proof.
  intros x.
  destruct (x_dry x) eqn:Hdry; [unfold check_up_attempted; rewrite Hdry; reflexivity|].
  assert (Hcls : x_cls x = filter_nodes (x_dry x) (x_st x) (x_nodes x)) by reflexivity.
  assert (Hasg : x_asg x = a) by reflexivity.
  pose proof (tainted_has_esc x Hdry Hcls) as Hesc.
  apply (scan_of_frame (fun r => check_up_attempted x (r_calls r) = true) now gdry api g a nodes pods x eq_refl).
  all: clearbody x.
  - intros Hr tags out ret st' _. apply up_attempted_none. apply need_of_quiet. exact Hr.
  - intros Hcool Hlt Hb tags. cbv zeta. cbn [r_calls mk].
    rewrite <- (app_nil_l (up_calls _)). rewrite <- Hasg.
    apply up_attempted; try assumption.
    + split; [|split]; intros c [].
    + apply need_of_below_min; assumption.
    + apply oasg_rel_refl.
    + destruct (x_asg x); [|exact I]. change (okterm []) with 0. lia.
  - intros Hcool Hmin Hb Hne cpuP memP Hp. split.
    + intros tags d Hdec. apply up_attempted_none. apply (need_of_not_up x cpuP memP Hcool Hmin Hb Hne Hp). unfold st2_of. rewrite Hdec. exact I.
    + intros tags d0 Hdec.
      set (d2 := final_delta (x_env x) (x_opts x) (x_min x) (x_max x) (usage_of x) (capacity_of x) (c_untainted (x_cls x)) (c_tainted (x_cls x)) d0).
      destruct (Z_lt_le_dec 0 d2) as [Hpos|Hnon].
      * match goal with |- check_up_attempted _ (r_calls (scan_act ?e ?o ?mn ?mx ?dry ?s2 ?aa ?pods ?unt ?tainted ?forced ?lag ?tg ?us ?cap ?d0 ?fz)) = true =>
           pose proof (scan_act_up_pos e o mn mx dry s2 aa pods unt tainted forced lag tg us cap d0 fz (lag_quiet _ _ _) (lag_okterm _ _ _) Hpos) as Hbr end.
        cbv zeta in Hbr. rewrite <- Hasg in Hbr |- *.
        destruct Hbr as [pre [a1 [Hq [Hrel [Hd ->]]]]].
        apply up_attempted; try assumption.
        exact (need_of_decided x cpuP memP d0 Hcool Hmin Hb Hne Hp Hdec Hpos).
      * apply up_attempted_none. apply (need_of_not_up x cpuP memP Hcool Hmin Hb Hne Hp). unfold st2_of. rewrite Hdec. exact Hnon.
Qed.

(* the same two rules, restricted to the situations C03 and C04 speak about *)
Theorem group_passes_C03_recover now gdry api g a nodes pods :
  let x := ctx_of now gdry api g a nodes pods in
  NoDup (map n_name (x_nodes x)) ->
  check_C03_recover x (r_calls (scan_of now gdry api g a nodes pods)) = true.
Proof.
  intros x Hnd. unfold check_C03_recover. destruct (below_min_recovery x); [|reflexivity].
  apply andb_true_intro. split; [apply group_passes_C07_exact; exact Hnd | apply group_passes_up_attempted].
Qed.

Theorem group_passes_C04_exact now gdry api g a nodes pods :
  let x := ctx_of now gdry api g a nodes pods in
  NoDup (map n_name (x_nodes x)) ->
  check_C04_exact x (r_calls (scan_of now gdry api g a nodes pods)) = true.
Proof.
  intros x Hnd. unfold check_C04_exact. destruct (clamp_binds x _); [|reflexivity].
  apply andb_true_intro. split; [apply group_passes_C07_exact; exact Hnd | apply group_passes_up_attempted].
Qed.
