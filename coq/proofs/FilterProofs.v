From Esc Require Import SpecFilter.

Lemma mem_id_In x l : mem_id x l = true <-> In x l.
Proof.
  unfold mem_id. rewrite existsb_exists. split.
  - intros [y [Hy He]]. apply Z.eqb_eq in He. subst. exact Hy.
  - intros H. exists x. split; [exact H | apply Z.eqb_refl].
Qed.

Lemma daemonset_iff p : pod_is_daemonset p = true <-> daemonset_owned p.
Proof. apply mem_id_In. Qed.

Lemma static_iff p : pod_is_static p = true <-> static_pod p.
Proof.
  unfold pod_is_static, static_pod. destruct (assoc id_cfgsrc (p_annots p)) as [v|].
  - rewrite Z.eqb_eq. split; intros H; [now subst | now inversion H].
  - split; discriminate.
Qed.

Lemma selector_iff k v p :
  (match assoc k (p_selector p) with Some x => x =? v | None => false end) = true <-> selector_maps k v p.
Proof.
  unfold selector_maps. destruct (assoc k (p_selector p)) as [x|].
  - rewrite Z.eqb_eq. split; intros H; [now subst | now inversion H].
  - split; discriminate.
Qed.

Lemma affinity_iff k v p :
  existsb (fun t => existsb (expr_matches k v) (st_exprs t)) (required_terms p) = true <-> affinity_lists k v p.
Proof.
  unfold affinity_lists. rewrite existsb_exists. split.
  - intros [t [Ht He]]. apply existsb_exists in He. destruct He as [e [He Hm]].
    unfold expr_matches in Hm. apply andb_prop in Hm. destruct Hm as [Hm Hv]. apply andb_prop in Hm. destruct Hm as [Hk Ho].
    exists t, e. repeat split; try assumption.
    + now apply Z.eqb_eq. + now apply Z.eqb_eq. + now apply mem_id_In.
  - intros [t [e [Ht [He [Hk [Ho Hv]]]]]]. exists t. split; [exact Ht|].
    apply existsb_exists. exists e. split; [exact He|]. unfold expr_matches.
    rewrite (proj2 (Z.eqb_eq _ _) Hk), (proj2 (Z.eqb_eq _ _) Ho), (proj2 (mem_id_In _ _) Hv). reflexivity.
Qed.

Lemma negb_true_not b P : (b = true <-> P) -> (negb b = true <-> ~ P).
Proof.
  intros H. destruct b; simpl; split; intros H1.
  - discriminate.
  - exfalso. apply H1. apply H. reflexivity.
  - intro HP. apply H in HP. discriminate.
  - reflexivity.
Qed.

Theorem pod_in_group_iff k v p : pod_in_group k v p = true <-> counts_toward_group k v p.
Proof.
  unfold pod_in_group, counts_toward_group. rewrite andb_true_iff, orb_true_iff.
  rewrite (negb_true_not _ _ (daemonset_iff p)), selector_iff, affinity_iff. reflexivity.
Qed.

Lemma selector_empty_iff p : (match p_selector p with [] => true | _ => false end) = true <-> p_selector p = [].
Proof. destruct (p_selector p); split; intros H; try reflexivity; discriminate. Qed.

Lemma no_affinity_iff p :
  (match p_affinity p with
   | None => true
   | Some a => (match af_node a with None => true | Some _ => false end) && negb (af_pod a) && negb (af_anti a)
   end) = true <-> no_affinity_rules p.
Proof.
  unfold no_affinity_rules. destruct (p_affinity p) as [a|]; [|tauto].
  destruct (af_node a), (af_pod a), (af_anti a); simpl; split; intros H; try discriminate; try tauto;
    try (destruct H as [H1 [H2 H3]]; discriminate).
Qed.

Theorem pod_in_default_iff p : pod_in_default p = true <-> counts_toward_default p.
Proof.
  unfold pod_in_default, counts_toward_default. rewrite !andb_true_iff.
  rewrite (negb_true_not _ _ (daemonset_iff p)), (negb_true_not _ _ (static_iff p)), selector_empty_iff, no_affinity_iff.
  tauto.
Qed.

Theorem node_in_group_iff k v n : node_in_group k v n = true <-> node_belongs k v n.
Proof.
  unfold node_in_group, node_belongs. destruct (assoc k (n_labels n)) as [x|].
  - rewrite Z.eqb_eq. split; intros H; [now subst | now inversion H].
  - split; discriminate.
Qed.

(* the filters satisfy the documented attribution for every pod, node, key and value *)
Theorem c14_model k v p n : P_C14 k v p n (pod_in_group k v p, pod_in_default p, node_in_group k v n).
Proof. unfold P_C14. split; [apply pod_in_group_iff | split; [apply pod_in_default_iff | apply node_in_group_iff]]. Qed.

Lemma eqb_true_iff_l a b P : (b = true <-> P) -> Bool.eqb a b = true -> (a = true <-> P).
Proof. intros H E. apply Bool.eqb_prop in E. subst. exact H. Qed.

(* the checker decides the property *)
Theorem check_C14_sound k v p n obs : check_C14 k v p n obs = true -> P_C14 k v p n obs.
Proof.
  destruct obs as [[g d] b]. unfold check_C14, P_C14. rewrite !andb_true_iff. intros [[H1 H2] H3].
  split; [| split].
  - eapply eqb_true_iff_l; [apply pod_in_group_iff | exact H1].
  - eapply eqb_true_iff_l; [apply pod_in_default_iff | exact H2].
  - eapply eqb_true_iff_l; [apply node_in_group_iff | exact H3].
Qed.

Lemma iff_bool_eq a b P : (a = true <-> P) -> (b = true <-> P) -> Bool.eqb a b = true.
Proof. intros Ha Hb. destruct a, b; simpl; try reflexivity; exfalso.
       - assert (false = true) by (apply Hb; apply Ha; reflexivity). discriminate.
       - assert (false = true) by (apply Ha; apply Hb; reflexivity). discriminate. Qed.

Theorem check_C14_complete k v p n obs : P_C14 k v p n obs -> check_C14 k v p n obs = true.
Proof.
  destruct obs as [[g d] b]. unfold check_C14, P_C14. intros [H1 [H2 H3]]. rewrite !andb_true_iff. repeat split.
  - eapply iff_bool_eq; [exact H1 | apply pod_in_group_iff].
  - eapply iff_bool_eq; [exact H2 | apply pod_in_default_iff].
  - eapply iff_bool_eq; [exact H3 | apply node_in_group_iff].
Qed.
