(* GenCtlAgree.v — the shared part of the agreement proofs between coq/GeneratedCtl.v (re-derived from the Go source on
   every run) and the hand-written model: tactics, and — where the model has a decision inline rather than as a function
   of its own — the model-side SLICE as a function plus the lemma that the model function factors through it.
   Nothing here mentions GeneratedCtl.v; the agreement theorems are one file per translated function
   (proofs/GenCtlAgree_*.v) so that a source change breaks only the properties that function serves. *)
From Coq Require Import String.
From Flocq Require Import BinarySingleNaN.
From Esc Require Export GenCtlBase.
Open Scope Z_scope.

(* ---------- tactics ---------- *)
(* case analysis on every integer comparison whose operands are free of conditionals (innermost first) *)
Ltac no_if t := lazymatch t with context [if _ then _ else _] => fail | _ => idtac end.
Ltac cmp_case :=
  match goal with
  | |- context [?a <? ?b] => no_if a; no_if b; destruct (Z.ltb_spec a b)
  | |- context [?a <=? ?b] => no_if a; no_if b; destruct (Z.leb_spec a b)
  | |- context [?a =? ?b] => no_if a; no_if b; destruct (Z.eqb_spec a b)
  | H : context [?a <? ?b] |- _ => no_if a; no_if b; destruct (Z.ltb_spec a b)
  | H : context [?a <=? ?b] |- _ => no_if a; no_if b; destruct (Z.leb_spec a b)
  | H : context [?a =? ?b] |- _ => no_if a; no_if b; destruct (Z.eqb_spec a b)
  end.
(* then on every remaining boolean atom under an `if`, `&&`, `||`, `negb` *)
Ltac bool_atom c := lazymatch c with
  | true => fail | false => fail | negb _ => fail | andb _ _ => fail | orb _ _ => fail | (if _ then _ else _) => fail
  | _ => destruct c eqn:? end.
Ltac bool_case :=
  match goal with
  | |- context [if ?c then _ else _] => bool_atom c
  | |- context [negb ?c] => bool_atom c
  | |- context [?c && _] => bool_atom c
  | |- context [_ && ?c] => bool_atom c
  | |- context [?c || _] => bool_atom c
  | |- context [_ || ?c] => bool_atom c
  end.
Ltac finish := first [reflexivity | lia | congruence | exfalso; lia | exfalso; congruence].
Ltac agree := cbv zeta; repeat (cmp_case; cbn [negb andb orb]); try finish; repeat (bool_case; cbn [negb andb orb]; try finish).

Lemma zlen_nil {A} : zlen (@nil A) = 0. Proof. reflexivity. Qed.
Lemma zlen_cons_pos {A} (x : A) l : 0 < zlen (x :: l).
Proof. unfold zlen. simpl List.length. lia. Qed.
Lemma zlen_nonneg {A} (l : list A) : 0 <= zlen l. Proof. unfold zlen. lia. Qed.
Lemma zlen_zero {A} (l : list A) : zlen l = 0 -> l = [].
Proof. destruct l; [reflexivity|]. intros H. pose proof (zlen_cons_pos a l). lia. Qed.

(* `a > b` and `b < a` are the same float comparison *)
Lemma fgt_flt x y : fgt x y = flt y x.
Proof. unfold fgt, flt. rewrite (Bcompare_swap _ _ y x). destruct (Bcompare y x) as [[]|]; reflexivity. Qed.

Lemma existsb_ext' {A} (f g : A -> bool) l : (forall x, f x = g x) -> existsb f l = existsb g l.
Proof. intros H. induction l; simpl; [reflexivity|]. rewrite H, IHl. reflexivity. Qed.

(* ---------- scale_down_taint: the clamp and the refusal ---------- *)
Definition model_down_clamp (mn : Z) (untainted : list node) (want : Z) : gout :=
  let u := zlen untainted in
  let n := if u - want <? mn then u - mn else want in
  if n <? 0 then GRet [GI 0; GE true] else GCall "taintOldestN"%string [GL untainted; GI n].

Lemma scale_down_taint_factor e o mn dry st untainted want :
  scale_down_taint e o mn dry st untainted want =
  match model_down_clamp mn untainted want with
  | GCall _ [GL l; GI n] =>
      let '(calls, _, tr) := taint_loop e o dry (sort_oldest l) n 0 (g_taint_tracker st) in (liftK calls, false, with_tracker st tr)
  | _ => ([], true, st)
  end.
Proof. unfold scale_down_taint, model_down_clamp. cbv zeta. destruct (_ <? 0); reflexivity. Qed.

(* ---------- scale_up: the cloud part ---------- *)
Definition model_up_cloud (maxn : Z) (dry : bool) (a : option asg) (rest : Z) : gout :=
  match a with
  | None => GRet [GI 0; GE true]
  | Some g =>
      let add := nodes_to_add rest (a_desired g) (Z.min maxn (a_max g)) in
      if add <=? 0 then GRet [GI 0; GE true]
      else if dry then GRet [GI add; GE false] else GCall "IncreaseSize"%string [GI add]
  end.

(* what scale_up does once the untaint loop has left `rest` nodes to add *)
Definition up_after (e : env) (ucalls : list kcall) (ucount : Z) (st1 : gstate) (a : option asg) (d : gout) : up_result :=
  match d, a with
  | GRet [GI add; GE false], _ =>
      {| up_calls := liftK ucalls; up_out := OutOk; up_ret := ucount + add; up_state := with_lock st1 (lock_arm (e_now e) add); up_asg := a |}
  | GCall _ [GI add], Some g =>
      let '(ac, r, g') := aws_increase g add (e_aorc e) in
      match r with
      | IncOk => {| up_calls := liftK ucalls ++ liftA ac; up_out := OutOk; up_ret := ucount + add;
                    up_state := with_lock st1 (lock_arm (e_now e) add); up_asg := Some g' |}
      | IncErr _ => {| up_calls := liftK ucalls ++ liftA ac; up_out := OutErr; up_ret := 0; up_state := st1; up_asg := Some g' |}
      | IncExit => {| up_calls := liftK ucalls ++ liftA ac; up_out := OutExit; up_ret := 0; up_state := st1; up_asg := Some g' |}
      end
  | _, _ => {| up_calls := liftK ucalls; up_out := OutErr; up_ret := 0; up_state := st1; up_asg := a |}
  end.

Lemma scale_up_factor e o maxn dry st a tainted want :
  let '(ucalls, ucount, tr) :=
    match tainted with [] => ([], 0, g_taint_tracker st) | _ => untaint_loop e dry (sort_newest tainted) want 0 (g_taint_tracker st) end in
  scale_up e o maxn dry st a tainted want =
  if 0 <? want - ucount then up_after e ucalls ucount (with_tracker st tr) a (model_up_cloud maxn dry a (want - ucount))
  else {| up_calls := liftK ucalls; up_out := OutOk; up_ret := ucount; up_state := with_tracker st tr; up_asg := a |}.
Proof.
  unfold scale_up.
  destruct (match tainted with [] => _ | _ => _ end) as [[ucalls ucount] tr]. cbv zeta.
  destruct (0 <? want - ucount); [|reflexivity].
  destruct a as [g|]; [|reflexivity]. unfold model_up_cloud, up_after. cbv zeta.
  destruct (_ <=? 0); [reflexivity|]. destruct dry; reflexivity.
Qed.

(* ---------- scan_group: the early exits and the below-minimum recovery ---------- *)
Definition model_exits (mn maxn : Z) (nodes : list node) (pods : list pod) : gout :=
  match nodes, pods with
  | [], [] => GRet [GI 0; GE false]
  | _, _ => if zlen nodes <? mn then GRet [GI 0; GE true] else if maxn <? zlen nodes then GRet [GI 0; GE true] else GFall []
  end.

Definition early_tag (t : Z) : bool := (t =? T_both_empty) || (t =? T_below_min_count) || (t =? T_above_max).

(* an early exit of the slice is exactly an early exit of the model's scan (no call, return value and error as the slice
   says, head tag one of the three exit tags); falling through the slice means the scan goes on *)
Lemma scan_group_exits e o mn maxn st a all_nodes all_pods :
  let R := scan_group e o mn maxn st a all_nodes all_pods in
  match model_exits mn maxn (group_nodes o all_nodes) (group_pods o all_pods) with
  | GRet [GI r; GE err] =>
      r_calls R = [] /\ r_ret R = r /\ r_out R = (if err then OutErr else OutOk) /\ r_asg R = a /\ early_tag (hd 0 (r_tags R)) = true
  | _ => early_tag (hd 0 (r_tags R)) = false
  end.
Proof.
  cbv zeta. unfold scan_group, model_exits. cbv zeta.
  remember (group_nodes o all_nodes) as nodes eqn:En. remember (group_pods o all_pods) as pods eqn:Ep. clear En Ep.
  destruct nodes as [|n0 nl]; destruct pods as [|p0 pl].
  1: { cbn. repeat split; reflexivity. }
  all: (destruct (zlen _ <? mn); [cbn; repeat split; reflexivity|];
        destruct (maxn <? zlen _); [cbn; repeat split; reflexivity|];
        destruct (negb _ && _); [cbn; reflexivity|];
        destruct (calc_percent _ _ _ _ _); [|reflexivity];
        destruct (fst _); [reflexivity|];
        destruct (decide _ _ _ _ _ _ _); [|reflexivity];
        unfold scan_act; cbv zeta;
        destruct (try_delete_nodes e a _) as [[fcalls ferr] a1];
        destruct (_ <? 0);
        [ destruct (try_delete_nodes e a1 _) as [[rcalls rerr] a2]; destruct rerr as [[]|];
          [ destruct (scale_down_taint _ _ _ _ _ _ _) as [[? ?] ?]; cbn; destruct (_ =? _); reflexivity
          | reflexivity
          | destruct (scale_down_taint _ _ _ _ _ _ _) as [[? ?] ?]; cbn; destruct (_ =? _); reflexivity ]
        | destruct (0 <? _);
          [ destruct (up_out _); reflexivity
          | destruct (try_delete_nodes e a1 _) as [[rcalls rerr] a2]; destruct rerr as [[]|]; reflexivity ] ]).
Qed.

Definition model_recover (mn : Z) (locked : bool) (untainted tainted : list node) : gout :=
  if negb locked && (zlen untainted <? mn) then GCall "ScaleUp"%string [GL tainted; GI (mn - zlen untainted)] else GFall [GB locked].
