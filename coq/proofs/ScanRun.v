(* ScanRun.v — from one group's scan to RunOnce: every per-group result of run_once is scan_of for that group against
   the cloud group of the snapshot (group names and cloud group names distinct), so the per-group theorems hold for
   exactly what the correspondence evaluates: for_groups check s (journals of run_once s). *)
From Esc Require Import SpecScan SpecAws proofs.BaseProofs proofs.AwsProofs proofs.ScanLemmas proofs.ScanChecks proofs.ScanTheorems
                        proofs.ScanState proofs.ScanTaint proofs.ScanOrder.

(* ---------- the cloud group keeps its name through a scan ---------- *)
Lemma cleanup_name a calls orphans o e : a_name (snd (cleanup a calls orphans o e)) = a_name a.
Proof. unfold cleanup, terminate_orphans. destruct orphans; reflexivity. Qed.

Lemma aws_increase_name g d o : a_name (snd (aws_increase g d o)) = a_name g.
Proof.
  unfold aws_increase. destruct (d <=? 0); [reflexivity|]. destruct (a_max g <? a_desired g + d); [reflexivity|].
  destruct (fleet_mode g); [|destruct (ao_setdesired_fail o); reflexivity].
  unfold one_shot. destruct (ao_describe o) as [| |vpc]; try reflexivity. destruct vpc; try reflexivity.
  destruct (ao_fleet o) as [|insts nerr]; try reflexivity.
  assert (Hb : forall v i, a_name (snd (os_body g d v o i)) = a_name g).
  { intros v i. unfold os_body. cbv zeta. destruct (negb _); [apply cleanup_name|].
    destruct (attach_loop _ _ _ _ _) as [ac r]. destruct r; [reflexivity | apply cleanup_name | reflexivity]. }
  destruct insts as [|i0 is']; [destruct nerr|]; try reflexivity; apply Hb.
Qed.

Definition oname (a : option asg) : option id := option_map a_name a.

Lemma try_delete_name e a cands : oname (snd (try_delete_nodes e a cands)) = oname a.
Proof.
  destruct (try_delete_nodes e a cands) as [[calls err] a'] eqn:E. destruct (try_delete_nodes_calls _ _ _ _ _ _ E) as [Hrel _].
  simpl. destruct a as [g|], a' as [g'|]; simpl in *; try contradiction; [|reflexivity]. destruct Hrel as [-> _]. reflexivity.
Qed.

Lemma scale_up_name e o mx dry st a tainted want : oname (up_asg (scale_up e o mx dry st a tainted want)) = oname a.
Proof.
  unfold scale_up. destruct (match tainted with [] => _ | _ => _ end) as [[ucalls ucount] tr].
  destruct (0 <? want - ucount); [|reflexivity]. destruct a as [g|]; [|reflexivity].
  destruct (nodes_to_add _ _ _ <=? 0); [reflexivity|]. destruct dry; [reflexivity|].
  pose proof (aws_increase_name g (nodes_to_add (want - ucount) (a_desired g) (Z.min mx (a_max g))) (e_aorc e)) as Hn.
  destruct (aws_increase g _ (e_aorc e)) as [[ac r] g']. simpl in Hn. destruct r; simpl; rewrite Hn; reflexivity.
Qed.

Lemma scan_act_name e o mn mx dry st2 a pods unt tainted forced lag tg us cap d0 fz :
  oname (r_asg (scan_act e o mn mx dry st2 a pods unt tainted forced lag tg us cap d0 fz)) = oname a.
Proof.
  unfold scan_act.
  pose proof (try_delete_name e a (force_candidates dry pods forced)) as Hf.
  destruct (try_delete_nodes e a (force_candidates dry pods forced)) as [[fcalls ferr] a1]. simpl in Hf.
  match goal with |- context [if ?d <? 0 then _ else _] => set (d2 := d) end.
  destruct (d2 <? 0).
  - pose proof (try_delete_name e a1 (reap_candidates e o dry pods tainted)) as Hr.
    destruct (try_delete_nodes e a1 (reap_candidates e o dry pods tainted)) as [[rcalls rerr] a2]. simpl in Hr.
    destruct (scale_down_taint _ _ _ _ _ _ _) as [[tcalls terr] st3].
    destruct rerr as [[|]|]; simpl; congruence.
  - destruct (0 <? d2).
    + pose proof (scale_up_name e o mx dry st2 a1 tainted d2) as Hu.
      destruct (up_out _); simpl; congruence.
    + pose proof (try_delete_name e a1 (reap_candidates e o dry pods tainted)) as Hr.
      destruct (try_delete_nodes e a1 (reap_candidates e o dry pods tainted)) as [[rcalls rerr] a2]. simpl in Hr.
      destruct rerr as [[|]|]; simpl; congruence.
Qed.

Lemma scan_group_name e o mn mx st a all_nodes all_pods : oname (r_asg (scan_group e o mn mx st a all_nodes all_pods)) = oname a.
Proof.
  apply (scan_group_frame (fun r => oname (r_asg r) = oname a)).
  - intros. reflexivity.
  - intros _ _ _ tags. cbv zeta. simpl. apply scale_up_name.
  - intros _ _ _ _ cpuP memP _. split; [intros; reflexivity | intros; apply scan_act_name].
Qed.

(* ---------- lookups in a cloud list that had other entries replaced ---------- *)
Lemma find_replace_other cloud a' name : a_name a' <> name -> find_asg (replace_asg cloud a') name = find_asg cloud name.
Proof.
  intros Hn. unfold find_asg. induction cloud as [|c cloud IH]; [reflexivity|]. simpl.
  destruct (a_name c =? a_name a') eqn:E.
  - apply Z.eqb_eq in E. simpl. replace (a_name a' =? name) with false by (symmetry; apply Z.eqb_neq; exact Hn).
    replace (a_name c =? name) with false by (symmetry; apply Z.eqb_neq; congruence). reflexivity.
  - simpl. destruct (a_name c =? name); [reflexivity | exact IH].
Qed.

(* ---------- run_groups ---------- *)
Definition group_scan (s : snapshot) (g : group_in) (a : asg) : gresult :=
  scan_of (s_now s) (s_dry s) (s_api s) g (Some a) (s_nodes s) (s_pods s).

Lemma run_groups_spec s : forall gs cloud,
  NoDup (map (fun g => o_asg (gi_opts g)) gs) ->
  forall name r', In (name, r') (fst (run_groups s gs cloud)) ->
  exists g a, In g gs /\ name = o_name (gi_opts g) /\ find_asg cloud (o_asg (gi_opts g)) = Some a /\
              r_calls r' = r_calls (group_scan s g a) /\ r_state r' = with_delta (r_state (group_scan s g a)) (r_ret (group_scan s g a)) /\
              r_out r' = r_out (group_scan s g a).
Proof.
  induction gs as [|g rest IH]; intros cloud Hnd name r' Hin; [destruct Hin|].
  simpl in Hin. destruct (find_asg cloud (o_asg (gi_opts g))) as [a|] eqn:Ea; [|destruct Hin].
  destruct (effective_min_max (gi_opts g) a) as [mn mx] eqn:Em.
  set (e := {| e_now := s_now s; e_dry := s_dry s; e_api := s_api s; e_korc := gi_korc g; e_aorc := gi_aorc g; e_descinst_fail := gi_descinst_fail g |}) in *.
  assert (Hscan : scan_group e (gi_opts g) mn mx (gi_state g) (Some a) (s_nodes s) (s_pods s) = group_scan s g a).
  { unfold group_scan, scan_of, ctx_of. simpl. rewrite Em. reflexivity. }
  rewrite Hscan in Hin. set (r := group_scan s g a) in *.
  assert (Hhead : forall rs, In (name, r') ((o_name (gi_opts g), mk (r_tags r) (r_calls r) (r_out r) (r_ret r) (with_delta (r_state r) (r_ret r)) (r_asg r)) :: rs) ->
            (exists g0 a0, In g0 (g :: rest) /\ name = o_name (gi_opts g0) /\ find_asg cloud (o_asg (gi_opts g0)) = Some a0 /\
               r_calls r' = r_calls (group_scan s g0 a0) /\ r_state r' = with_delta (r_state (group_scan s g0 a0)) (r_ret (group_scan s g0 a0)) /\ r_out r' = r_out (group_scan s g0 a0))
            \/ In (name, r') rs).
  { intros rs [H|H]; [|right; exact H]. left. inversion H; subst. exists g, a. simpl. auto 10. }
  inversion Hnd as [|? ? Hnot Hnd']; subst.
  destruct (r_out r) eqn:Eo.
  - (* OutOk: continue *)
    destruct (run_groups s rest (match r_asg r with Some a' => replace_asg cloud a' | None => cloud end)) as [rs out] eqn:Er.
    simpl in Hin. destruct (Hhead rs Hin) as [H|H]; [exact H|].
    specialize (IH (match r_asg r with Some a' => replace_asg cloud a' | None => cloud end) Hnd' name r'). rewrite Er in IH. destruct (IH H) as (g0 & a0 & Hg0 & Hn & Hf & Hrest).
    exists g0, a0. split; [right; exact Hg0|]. split; [exact Hn|]. split; [|exact Hrest].
    rewrite <- Hf. symmetry.
    pose proof (scan_group_name e (gi_opts g) mn mx (gi_state g) (Some a) (s_nodes s) (s_pods s)) as Hname. rewrite Hscan in Hname. fold r in Hname.
    destruct (r_asg r) as [a'|]; [|reflexivity]. apply find_replace_other. simpl in Hname. inversion Hname as [Hn'].
    rewrite Hn', (find_asg_named _ _ _ Ea). intros Heq. apply Hnot. rewrite Heq. apply in_map_iff. exists g0. auto.
  - (* OutErr: continue *)
    destruct (run_groups s rest (match r_asg r with Some a' => replace_asg cloud a' | None => cloud end)) as [rs out] eqn:Er.
    simpl in Hin. destruct (Hhead rs Hin) as [H|H]; [exact H|].
    specialize (IH (match r_asg r with Some a' => replace_asg cloud a' | None => cloud end) Hnd' name r'). rewrite Er in IH. destruct (IH H) as (g0 & a0 & Hg0 & Hn & Hf & Hrest).
    exists g0, a0. split; [right; exact Hg0|]. split; [exact Hn|]. split; [|exact Hrest].
    rewrite <- Hf. symmetry.
    pose proof (scan_group_name e (gi_opts g) mn mx (gi_state g) (Some a) (s_nodes s) (s_pods s)) as Hname. rewrite Hscan in Hname. fold r in Hname.
    destruct (r_asg r) as [a'|]; [|reflexivity]. apply find_replace_other. simpl in Hname. inversion Hname as [Hn'].
    rewrite Hn', (find_asg_named _ _ _ Ea). intros Heq. apply Hnot. rewrite Heq. apply in_map_iff. exists g0. auto.
  - simpl in Hin. destruct (Hhead [] Hin) as [H|[]]. exact H.
  - simpl in Hin. destruct (Hhead [] Hin) as [H|[]]. exact H.
Qed.

(* ---------- the checkers over a whole RunOnce ---------- *)
Definition wf_groups (s : snapshot) : Prop :=
  NoDup (map (fun g => o_name (gi_opts g)) (s_groups s)) /\ NoDup (map (fun g => o_asg (gi_opts g)) (s_groups s)).

Definition run_journals (s : snapshot) : list (id * list call) := map (fun nr => (fst nr, r_calls (snd nr))) (fst (run_once s)).

Lemma find_group_unique s g : NoDup (map (fun g => o_name (gi_opts g)) (s_groups s)) -> In g (s_groups s) ->
  find_group s (o_name (gi_opts g)) = Some g.
Proof.
  unfold find_group. induction (s_groups s) as [|h l IH]; intros Hnd Hin; [destruct Hin|]. simpl.
  inversion Hnd as [|? ? Hnot Hnd']; subst. destruct Hin as [->|Hin]; [rewrite Z.eqb_refl; reflexivity|].
  destruct (o_name (gi_opts h) =? o_name (gi_opts g)) eqn:E; [|apply IH; assumption].
  apply Z.eqb_eq in E. exfalso. apply Hnot. rewrite E. apply in_map_iff. exists g. auto.
Qed.

(* any per-group checker that holds of scan_of for every group holds of the journals of run_once *)
Theorem run_once_passes (check : gctx -> list call -> bool) s : wf_groups s ->
  (forall g a, In g (s_groups s) -> find_asg (s_cloud s) (o_asg (gi_opts g)) = Some a ->
     check (mk_ctx s g) (r_calls (group_scan s g a)) = true) ->
  for_groups check s (run_journals s) = true.
Proof.
  intros [Hn1 Hn2] Hall. unfold for_groups, run_journals. apply forallb_forall. intros [name calls] Hin.
  apply in_map_iff in Hin. destruct Hin as [[name' r'] [Heq Hin]]. inversion Heq; subst name' calls. simpl fst; simpl snd.
  unfold run_once in Hin. destruct (run_groups_spec s (s_groups s) (s_cloud s) Hn2 name r' Hin) as (g & a & Hg & -> & Hf & Hc & _).
  rewrite (find_group_unique s g Hn1 Hg). rewrite Hc. apply Hall; assumption.
Qed.
