(* ScanRunTheorems.v — the scan-level checkers hold of the journals of run_once, i.e. of exactly what the
   correspondence evaluates for the model (group names and cloud group names pairwise distinct). *)
From Esc Require Import SpecScan SpecAws proofs.BaseProofs proofs.AwsProofs proofs.ScanLemmas proofs.ScanChecks proofs.ScanTheorems
                        proofs.ScanState proofs.ScanTaint proofs.ScanExact proofs.ScanOrder proofs.ScanParser proofs.ScanRun.

Lemma named_of_find s g a : find_asg (s_cloud s) (o_asg (gi_opts g)) = Some a -> asg_named g (Some a).
Proof. intros H. simpl. eapply find_asg_named. exact H. Qed.

Ltac run_lift thm :=
  let s := fresh "s" in let H := fresh "H" in let g := fresh "g" in let a := fresh "a" in let Hg := fresh "Hg" in let Hf := fresh "Hf" in
  intros s H; apply run_once_passes; [exact H|]; intros g a Hg Hf; unfold mk_ctx, group_scan; rewrite Hf; apply thm.

Theorem run_passes_C01 : forall s, wf_groups s -> for_groups check_C01_group s (run_journals s) = true.
Proof. run_lift group_passes_C01. eapply named_of_find; eassumption. Qed.
Theorem run_passes_C10 : forall s, wf_groups s -> for_groups check_C10_group s (run_journals s) = true.
Proof. run_lift group_passes_C10. eapply named_of_find; eassumption. Qed.
Theorem run_passes_C09 : forall s, wf_groups s -> for_groups check_C09_group s (run_journals s) = true.
Proof. run_lift group_passes_C09. eapply named_of_find; eassumption. Qed.
Theorem run_passes_C11 : forall s, wf_groups s -> for_groups check_C11_group s (run_journals s) = true.
Proof. run_lift group_passes_C11. Qed.
Theorem run_passes_C12 : forall s, wf_groups s -> for_groups check_C12_group s (run_journals s) = true.
Proof. run_lift group_passes_C12. eapply named_of_find; eassumption. Qed.
Theorem run_passes_C15 : forall s, wf_groups s -> for_groups check_C15_group s (run_journals s) = true.
Proof. run_lift group_passes_C15. eapply named_of_find; eassumption. Qed.
Theorem run_passes_C04 : forall s, wf_groups s -> for_groups check_C04_group s (run_journals s) = true.
Proof. run_lift group_passes_C04. Qed.
Theorem run_passes_C19_budget : forall s, wf_groups s -> for_groups check_C19_budget s (run_journals s) = true.
Proof. run_lift group_budget_C19. Qed.

Theorem run_passes_C19 : forall s, wf_groups s -> for_groups check_C19_group s (run_journals s) = true.
Proof. run_lift group_passes_C19. Qed.

(* views with distinct node names *)
Lemma wf_snapshot_nodup s g : wf_snapshot s = true -> In g (s_groups s) -> NoDup (map n_name (x_nodes (mk_ctx s g))).
Proof.
  unfold wf_snapshot. rewrite forallb_forall. intros H Hg. specialize (H g Hg). unfold wf_ctx in H. apply nodupb_NoDup. exact H.
Qed.

Ltac run_lift_wf thm :=
  let s := fresh "s" in let H := fresh "H" in let Hw := fresh "Hw" in let g := fresh "g" in let a := fresh "a" in let Hg := fresh "Hg" in let Hf := fresh "Hf" in
  intros s H Hw; apply run_once_passes; [exact H|]; intros g a Hg Hf;
  pose proof (wf_snapshot_nodup s g Hw Hg) as Hnd; unfold mk_ctx, group_scan in *; rewrite Hf in *; apply thm; exact Hnd.

Theorem run_passes_C03 : forall s, wf_groups s -> wf_snapshot s = true -> for_groups check_C03_group s (run_journals s) = true.
Proof. run_lift_wf group_passes_C03. Qed.
Theorem run_passes_C07 : forall s, wf_groups s -> wf_snapshot s = true -> for_groups check_C07_group s (run_journals s) = true.
Proof. run_lift_wf group_passes_C07. Qed.
Theorem run_passes_C07_exact : forall s, wf_groups s -> wf_snapshot s = true -> for_groups check_C07_exact s (run_journals s) = true.
Proof. run_lift_wf group_passes_C07_exact. Qed.
Theorem run_passes_up_attempted : forall s, wf_groups s -> for_groups check_up_attempted s (run_journals s) = true.
Proof. run_lift group_passes_up_attempted. Qed.
Theorem run_passes_C08 : forall s, wf_groups s -> wf_snapshot s = true -> for_groups check_C08_group s (run_journals s) = true.
Proof. run_lift_wf group_passes_C08. Qed.

(* C06: for configurations with 0 <= slow <= fast and a non-negative effective minimum *)
Definition rates_ok (s : snapshot) : Prop :=
  forall g, In g (s_groups s) -> 0 <= o_slow (gi_opts g) <= o_fast (gi_opts g) /\ 0 <= x_min (mk_ctx s g).

Theorem run_passes_C06 : forall s, wf_groups s -> rates_ok s -> for_groups check_C06_group s (run_journals s) = true.
Proof.
  intros s H Hr. apply run_once_passes; [exact H|]. intros g a Hg Hf. destruct (Hr g Hg) as [H1 H2].
  unfold mk_ctx, group_scan in *. rewrite Hf in *. apply group_passes_C06; assumption.
Qed.
