(* SpecAws.v — C17, C18, C19 (provider part): projections of the AWS journal and the boolean checkers that are
   evaluated on the implementation's observed behaviour.  The Prop statements are in proofs/AwsProofs.v. *)
From Esc Require Export Aws.

Definition attached_ok (calls : list acall) : list id :=
  concat (map (fun c => match c with AAttach _ ids true => ids | _ => [] end) calls).
Definition terminated_ids (calls : list acall) : list id :=
  concat (map (fun c => match c with ATermInstances ids _ => ids | _ => [] end) calls).
Definition attach_sizes_ok (calls : list acall) : bool :=
  forallb (fun c => match c with AAttach _ ids _ => Nat.leb (length ids) attach_batch | _ => true end) calls.
Definition term_sizes_ok (calls : list acall) : bool :=
  forallb (fun c => match c with ATermInstances ids _ => Nat.leb (length ids) terminate_batch | _ => true end) calls.
Definition writes_of (calls : list acall) : list acall := filter acall_is_write calls.
Definition fleet_calls (calls : list acall) : list acall :=
  filter (fun c => match c with ACreateFleet _ _ _ _ _ _ _ _ => true | _ => false end) calls.
(* fleet requests the cloud ACCEPTED: at most one per scale-up (a refused request acquires nothing; asking again is not what
   "all-or-nothing" forbids) *)
Definition accepted_fleet_calls (calls : list acall) : list acall :=
  filter (fun c => match c with ACreateFleet _ _ _ _ _ _ _ true => true | _ => false end) calls.
Definition attach_failed (calls : list acall) : bool :=
  existsb (fun c => match c with AAttach _ _ false => true | _ => false end) calls.

Definition sortZ : list Z -> list Z := isort Z.leb.
Definition same_multiset (a b : list Z) : bool := list_eqb Z.eqb (sortZ a) (sortZ b).

(* result classes as the harness observes them: 0 = ok, 1 = error returned, 2 = process exit (log.Fatalf) *)
Definition inc_class (r : inc_result) : Z := match r with IncOk => 0 | IncErr _ => 1 | IncExit => 2 end.

(* ids acquired from the fleet request, according to the oracle's reply, if the request was issued and accepted *)
Definition acquired (o : aorc) (calls : list acall) : list id :=
  if existsb (fun c => match c with ACreateFleet _ _ _ _ _ _ _ true => true | _ => false end) calls
  then match ao_fleet o with FleetReply insts _ => concat insts | FleetFail => [] end
  else [].

Definition fleet_call_ok (a : asg) (d : Z) (c : acall) : bool :=
  match c with
  | ACreateFleet total mint captype optkind ftype _ template _ =>
      (total =? d) && (mint =? d) && (captype =? lifecycle_of a) && (ftype =? id_instant)
      && (optkind =? (if lifecycle_of a =? id_on_demand then 1 else 2)) && (template =? f_template (a_cfg a))
  | _ => true
  end.

(* C17 on an observed run *)
Definition check_C17 (a : asg) (d : Z) (o : aorc) (calls : list acall) (cls : Z) : bool :=
  let writes := writes_of calls in
  if (d <=? 0) || (a_max a <? a_desired a + d) then
    (match writes with [] => true | _ => false end) && negb (cls =? 0)
  else if negb (fleet_mode a) then
    match writes with
    | [ASetDesired g v _ ok] => (g =? a_name a) && (v =? a_desired a + d) && (a_desired a <? v) && Bool.eqb ok (cls =? 0)
    | _ => false
    end
  else
    forallb (fleet_call_ok a d) calls
    && Nat.leb (length (accepted_fleet_calls calls)) 1
    && attach_sizes_ok calls
    && forallb (fun c => match c with ASetDesired _ _ _ _ | ATermInAsg _ _ _ => false | _ => true end) calls
    && (if cls =? 0 then same_multiset (attached_ok calls) (acquired o calls) else true).

(* C18 on an observed run (fleet mode, request admitted) *)
Definition check_C18 (a : asg) (d : Z) (o : aorc) (calls : list acall) (cls : Z) : bool :=
  if (d <=? 0) || (a_max a <? a_desired a + d) || negb (fleet_mode a) then true
  else
    same_multiset (attached_ok calls ++ terminated_ids calls) (acquired o calls)
    && term_sizes_ok calls
    && (if attach_failed calls || negb (match terminated_ids calls with [] => true | _ => false end) then negb (cls =? 0) else true)
    && (if cls =? 0 then (match terminated_ids calls with [] => true | _ => false end) else true).

(* ---------- C19 ---------- *)
Definition del_class (r : del_result) : Z :=
  match r with DelOk => 0 | DelNotInGroup _ => 2 | _ => 1 end.

(* the observed terminate calls must be, in order, the backing instances of a prefix of the node list, always
   with decrement; only the last one may have failed; a failure or a non-member ends the prefix *)
Fixpoint check_del_calls (a : asg) (nodes : list node) (calls : list acall) (cls : Z) : bool :=
  match calls with
  | [] => match nodes with
          | [] => cls =? 0
          | n :: _ => if belongs a (n_pid n) then false else cls =? 2
          end
  | ATermInAsg inst decr ok :: calls' =>
      match nodes with
      | [] => false
      | n :: nodes' =>
          decr && belongs a (n_pid n)
          && (match backing_instance a (n_pid n) with Some i => bytes_eqb inst (i_id i) | None => false end)
          && (if ok then check_del_calls a nodes' calls' cls else (match calls' with [] => true | _ => false end) && (cls =? 1))
      end
  | _ :: _ => false
  end.

Definition check_C19 (a : asg) (nodes : list node) (calls : list acall) (cls : Z) : bool :=
  let calls := writes_of calls in
  if (a_desired a <=? a_min a) || (a_desired a - zlen nodes <? a_min a) then
    (match calls with [] => true | _ => false end) && (cls =? 1)
  else check_del_calls a nodes calls cls && (zlen calls <=? a_desired a - a_min a).
