(* Calc.v — calcPercentUsage and calcScaleUpDelta (pkg/controller/util.go), bit-exact on F64, and their
   exact-rational twins. *)
From Esc Require Export K8s.
From Esc Require Export F64.
From Flocq Require Import BinarySingleNaN.

Definition f100 : f64 := of_Z 100.

Inductive pct_result := PctOk (cpu mem : f64) | PctErr.

(* inputs are the MilliValue()s the code passes on: cpu milli, memory milli (= 1000 * bytes), and the untainted count *)
Definition calc_percent (cpuReq memReq cpuCap memCap untainted : Z) : pct_result :=
  if (cpuReq =? 0) && (memReq =? 0) && (cpuCap =? 0) && (memCap =? 0) && (untainted =? 0) then PctOk f_zero f_zero
  else if (cpuCap =? 0) || (memCap =? 0) then
    (if untainted =? 0 then PctOk f_max f_max else PctErr)
  else PctOk (fmul (fdiv (of_Z cpuReq) (of_Z cpuCap)) f100) (fmul (fdiv (of_Z memReq) (of_Z memCap)) f100).

Inductive delta_result := DeltaOk (d : Z) | DeltaErr (d : Z).

Definition qty0 : qty := {| q_num := 0; q_den := 1 |}.

(* n = number of untainted nodes; cache = the cached allocatable quantities of one node *)
Definition calc_delta (n : Z) (cpuPct memPct : f64) (cpuReq memReq : Z) (thr : Z) (ccpu cmem : qty) : delta_result :=
  let t := of_Z thr in
  if feq cpuPct f_max || feq memPct f_max then
    if (q_num ccpu =? 0) || (q_num cmem =? 0) then DeltaOk 1
    else
      let nc := fceil (fmul (fdiv (fdiv (of_Z cpuReq) (of_Z (q_milli ccpu))) t) f100) in
      let nm := fceil (fmul (fdiv (fdiv (of_Z memReq) (of_Z (q_milli cmem))) t) f100) in
      let d := to_int (fmax nc nm) in
      if d <? 0 then DeltaErr d else DeltaOk d
  else
    let pc := fdiv (fsub cpuPct t) t in
    let pm := fdiv (fsub memPct t) t in
    let nc := fceil (fmul (of_Z n) pc) in
    let nm := fceil (fmul (of_Z n) pm) in
    let d := to_int (fmax nc nm) in
    if d <? 0 then DeltaErr d else DeltaOk d.

(* ---------- exact twins ---------- *)
(* least m >= 0 with 100 * r <= t * m * c : the number of c-sized nodes that hold r at or below t percent *)
Definition ceil_div (a b : Z) : Z := - ((- a) / b).
Definition nodes_needed_exact (r c t : Z) : Z := ceil_div (100 * r) (t * c).
