(* Aws.v — the AWS node group (pkg/cloudprovider/aws/aws.go): IncreaseSize in set-desired and fleet mode,
   batched attach, orphan termination, DeleteNodes, Belongs, GetInstance / provider-id parsing.
   Every AWS call is returned as data (journal); every AWS answer is an oracle argument. *)
From Esc Require Export K8s.

Definition id_instant : id := 18.  (* "instant" *)

(* constants of aws.go (re-checked against the source through Generated.v in Properties/C17.v, C18.v) *)
Definition attach_batch : nat := 20.
Definition terminate_batch : nat := 1000.
Definition max_terminate_tries : Z := 3.

Record instance := { i_az : bytes; i_id : bytes }.

(* fmt.Sprintf("aws:///%s/%s", az, id) *)
Definition aws_prefix : bytes := [97; 119; 115; 58; 47; 47; 47].
Definition instance_pid (i : instance) : bytes := aws_prefix ++ i_az i ++ [ch_slash] ++ i_id i.

Record fleet_cfg := {
  f_template  : id;        (* launch template id; id_empty = set-desired mode *)
  f_lifecycle : id;        (* "", on-demand, spot *)
  f_ntypes    : nat        (* number of instance type overrides *)
}.

Record asg := {
  a_name      : id;
  a_min       : Z;
  a_max       : Z;
  a_desired   : Z;                 (* the provider's cached desired capacity *)
  a_instances : list instance;     (* the provider's cached instance list *)
  a_cfg       : fleet_cfg;
  a_tries     : Z                  (* consecutive orphan clean-ups *)
}.

Definition set_desired (a : asg) (v : Z) : asg :=
  {| a_name := a_name a; a_min := a_min a; a_max := a_max a; a_desired := v; a_instances := a_instances a;
     a_cfg := a_cfg a; a_tries := a_tries a |}.
Definition set_tries (a : asg) (v : Z) : asg :=
  {| a_name := a_name a; a_min := a_min a; a_max := a_max a; a_desired := a_desired a; a_instances := a_instances a;
     a_cfg := a_cfg a; a_tries := v |}.

Inductive acall :=
| ASetDesired (g : id) (v : Z) (honor : bool) (ok : bool)
| ATermInAsg (inst : bytes) (decr : bool) (ok : bool)
| ADescribeAsg (g : id) (ok : bool)
| ACreateFleet (total mintarget : Z) (captype : id) (optkind : Z) (ftype : id) (noverrides : Z) (template : id) (ok : bool)
| AAttach (g : id) (ids : list id) (ok : bool)
| ATermInstances (ids : list id) (ok : bool)
| ADescribeInstances (inst : bytes) (ok : bool).

Definition acall_eqb (x y : acall) : bool :=
  match x, y with
  | ASetDesired g v h o, ASetDesired g' v' h' o' => (g =? g') && (v =? v') && Bool.eqb h h' && Bool.eqb o o'
  | ATermInAsg i d o, ATermInAsg i' d' o' => bytes_eqb i i' && Bool.eqb d d' && Bool.eqb o o'
  | ADescribeAsg g o, ADescribeAsg g' o' => (g =? g') && Bool.eqb o o'
  | ACreateFleet t m c k f n tp o, ACreateFleet t' m' c' k' f' n' tp' o' =>
      (t =? t') && (m =? m') && (c =? c') && (k =? k') && (f =? f') && (n =? n') && (tp =? tp') && Bool.eqb o o'
  | AAttach g l o, AAttach g' l' o' => (g =? g') && list_eqb Z.eqb l l' && Bool.eqb o o'
  | ATermInstances l o, ATermInstances l' o' => list_eqb Z.eqb l l' && Bool.eqb o o'
  | ADescribeInstances i o, ADescribeInstances i' o' => bytes_eqb i i' && Bool.eqb o o'
  | _, _ => false
  end.

(* a call that changes something in AWS (attempted or accepted) *)
Definition acall_is_write (c : acall) : bool :=
  match c with
  | ASetDesired _ _ _ _ | ATermInAsg _ _ _ | ACreateFleet _ _ _ _ _ _ _ _ | AAttach _ _ _ | ATermInstances _ _ => true
  | ADescribeAsg _ _ | ADescribeInstances _ _ => false
  end.

(* ---------- oracle: what AWS answers ---------- *)
Inductive describe_reply := DescFail | DescNoGroup | DescVpc (vpc : bytes).
Inductive fleet_reply := FleetFail | FleetReply (instances : list (list id)) (nerrors : nat).

Definition mem_nat (k : nat) (l : list nat) : bool := existsb (Nat.eqb k) l.

Record aorc := {
  ao_setdesired_fail : bool;
  ao_describe        : describe_reply;
  ao_fleet           : fleet_reply;
  ao_ready_at        : option nat;     (* the poll (1-based) at which all instances report running; None = never *)
  ao_deadline        : nat;            (* number of polls that fit before the readiness deadline *)
  ao_attach_fail     : list nat;       (* indices (0-based) of the AttachInstances calls that fail *)
  ao_term_fail       : list nat;       (* indices of the TerminateInstances calls that fail *)
  ao_terminasg_fail  : list bytes      (* instance ids whose TerminateInstanceInAutoScalingGroup call fails *)
}.

(* ---------- orphan termination (terminateOrphanedInstances, after the F3 repair) ---------- *)
Fixpoint term_loop (fuel : nat) (inst : list id) (k : nat) (fails : list nat) : list acall :=
  match fuel with
  | O => []
  | S f => match inst with
           | [] => []
           | _ => ATermInstances (firstn terminate_batch inst) (negb (mem_nat k fails))
                  :: term_loop f (skipn terminate_batch inst) (S k) fails
           end
  end.

(* returns the calls, the node group with its counter bumped, and whether log.Fatalf was reached *)
Definition terminate_orphans (a : asg) (inst : list id) (fails : list nat) : list acall * asg * bool :=
  match inst with
  | [] => ([], a, false)
  | _ => let t := a_tries a + 1 in
         (term_loop (length inst) inst 0 fails, set_tries a t, max_terminate_tries <=? t)
  end.

(* ---------- batched attach (attachInstancesToASG after the readiness loop) ---------- *)
Inductive attach_result := AttachOk | AttachFailed (orphans : list id) | AttachOutOfFuel.

Fixpoint attach_loop (fuel : nat) (g : id) (inst : list id) (k : nat) (fails : list nat) : list acall * attach_result :=
  match fuel with
  | O => ([], AttachOutOfFuel)
  | S f =>
    if Nat.ltb attach_batch (length inst) then
      let b := firstn attach_batch inst in
      let rest := skipn attach_batch inst in
      if mem_nat k fails then ([AAttach g b false], AttachFailed (rest ++ b))
      else let '(calls, r) := attach_loop f g rest (S k) fails in (AAttach g b true :: calls, r)
    else
      if mem_nat k fails then ([AAttach g inst false], AttachFailed inst)
      else ([AAttach g inst true], AttachOk)
  end.

(* ---------- IncreaseSize ---------- *)
Inductive inc_err := ENonPositive | EBreachMax | ESetDesired | EDescribe | ENoGroup | ENoSubnets | ECreateFleet
                   | EFleetErrors | ENotReady | EAttach | EFuel.
Inductive inc_result := IncOk | IncErr (e : inc_err) | IncExit.

Definition fleet_mode (a : asg) : bool := negb (f_template (a_cfg a) =? id_empty).

Definition ch_comma : Z := 44.

Definition lifecycle_of (a : asg) : id :=
  if f_lifecycle (a_cfg a) =? id_empty then id_on_demand else f_lifecycle (a_cfg a).

Definition noverrides (a : asg) (vpc : bytes) : Z :=
  let subnets := zlen (split_on ch_comma vpc []) in
  if (f_ntypes (a_cfg a) =? 0)%nat then subnets else subnets * Z.of_nat (f_ntypes (a_cfg a)).

Definition fleet_call (a : asg) (d : Z) (vpc : bytes) (ok : bool) : acall :=
  let lc := lifecycle_of a in
  ACreateFleet d d lc (if lc =? id_on_demand then 1 else 2) id_instant (noverrides a vpc) (f_template (a_cfg a)) ok.

(* after a failed step: terminate the orphans, report the error (or exit at the third consecutive clean-up) *)
Definition cleanup (a : asg) (calls : list acall) (orphans : list id) (o : aorc) (e : inc_err) : list acall * inc_result * asg :=
  let '(tc, a', fatal) := terminate_orphans a orphans (ao_term_fail o) in
  (calls ++ tc, if fatal then IncExit else IncErr e, a').

Definition one_shot (a : asg) (d : Z) (o : aorc) : list acall * inc_result * asg :=
  let g := a_name a in
  match ao_describe o with
  | DescFail => ([ADescribeAsg g false], IncErr EDescribe, a)
  | DescNoGroup => ([ADescribeAsg g true], IncErr ENoGroup, a)
  | DescVpc vpc =>
    match vpc with
    | [] => ([ADescribeAsg g true], IncErr ENoSubnets, a)
    | _ =>
      match ao_fleet o with
      | FleetFail => ([ADescribeAsg g true; fleet_call a d vpc false], IncErr ECreateFleet, a)
      | FleetReply insts nerr =>
        let pre := [ADescribeAsg g true; fleet_call a d vpc true] in
        match insts, nerr with
        | [], S _ => (pre, IncErr EFleetErrors, a)
        | _, _ =>
          let ids := concat insts in
          (* no instance ids: the status listing is empty, so the first poll already reports "all running" *)
          let ready_at := match ids with [] => Some 1%nat | _ => ao_ready_at o end in
          let ready := match ready_at with Some k => Nat.leb k (ao_deadline o) | None => false end in
          if negb ready then cleanup a pre ids o ENotReady
          else
            let '(ac, r) := attach_loop (S (length ids)) g ids 0 (ao_attach_fail o) in
            match r with
            | AttachOk => (pre ++ ac, IncOk, set_tries a 0)
            | AttachFailed orphans => cleanup a (pre ++ ac) orphans o EAttach
            | AttachOutOfFuel => (pre ++ ac, IncErr EFuel, a)
            end
        end
      end
    end
  end.

Definition aws_increase (a : asg) (d : Z) (o : aorc) : list acall * inc_result * asg :=
  if d <=? 0 then ([], IncErr ENonPositive, a)
  else if a_max a <? a_desired a + d then ([], IncErr EBreachMax, a)
  else if fleet_mode a then one_shot a d o
  else if ao_setdesired_fail o then ([ASetDesired (a_name a) (a_desired a + d) false false], IncErr ESetDesired, a)
  else ([ASetDesired (a_name a) (a_desired a + d) false true], IncOk, a).

(* ---------- Belongs / DeleteNodes (after the F6 repair) ---------- *)
Definition belongs (a : asg) (pid : bytes) : bool := existsb (fun i => bytes_eqb (instance_pid i) pid) (a_instances a).

Definition backing_instance (a : asg) (pid : bytes) : option instance :=
  find (fun i => bytes_eqb pid (instance_pid i)) (a_instances a).

Inductive del_result := DelOk | DelErrMin | DelErrBreach | DelNotInGroup (n : id) | DelErrTerm | DelNoInstance.

Definition mem_bytes (x : bytes) (l : list bytes) : bool := existsb (bytes_eqb x) l.

Fixpoint delete_loop (a : asg) (nodes : list node) (fails : list bytes) : list acall * del_result * asg :=
  match nodes with
  | [] => ([], DelOk, a)
  | n :: rest =>
    if negb (belongs a (n_pid n)) then ([], DelNotInGroup (n_name n), a)
    else match backing_instance a (n_pid n) with
         | None => ([], DelNoInstance, a)     (* unreachable: belongs = true (proved) *)
         | Some i =>
           if mem_bytes (i_id i) fails then ([ATermInAsg (i_id i) true false], DelErrTerm, a)
           else let '(calls, r, a') := delete_loop (set_desired a (a_desired a - 1)) rest fails in
                (ATermInAsg (i_id i) true true :: calls, r, a')
         end
  end.

Definition aws_delete_nodes (a : asg) (nodes : list node) (fails : list bytes) : list acall * del_result * asg :=
  if a_desired a <=? a_min a then ([], DelErrMin, a)
  else if a_desired a - zlen nodes <? a_min a then ([], DelErrBreach, a)
  else delete_loop a nodes fails.

(* ---------- GetInstance / providerIDToInstanceID (after the F4 repair) ---------- *)
(* strings.Split(providerID, "/")[4], "" when there are fewer than five parts *)
Definition pid_instance (pid : bytes) : bytes := nth 4 (split_slash pid) [].

Inductive psite := PSplitIndex.     (* modelled partial operations: none left after F4; kept for the refuted variant *)
(* the unrepaired code: index 4 of the split, panicking when it is out of range *)
Definition pid_instance_unrepaired (pid : bytes) : option bytes := nth_error (split_slash pid) 4.

(* GetInstance: the DescribeInstances call it issues (None: rejected before any call) *)
Definition get_instance_call (pid : bytes) (ok : bool) : option acall :=
  match pid_instance pid with
  | [] => None
  | inst => Some (ADescribeInstances inst ok)
  end.
