(* Names.v — the strings behind the reserved interned ids of Base.v (the harness's intern table, harness/intern.go,
   maps exactly these strings to these numbers).  Properties/Consts.v checks the generated constants against it. *)
From Coq Require Import String ZArith.
From Esc Require Import Base.
Open Scope string_scope.
Open Scope Z_scope.

Definition name_of_id (i : Z) : option string :=
  if i =? id_empty then Some ""
  else if i =? id_DaemonSet then Some "DaemonSet"
  else if i =? id_file then Some "file"
  else if i =? id_In then Some "In"
  else if i =? id_cfgsrc then Some "kubernetes.io/config.source"
  else if i =? id_NoSchedule then Some "NoSchedule"
  else if i =? id_esc_key then Some "atlassian.com/escalator"
  else if i =? id_force_key then Some "atlassian.com/escalator-force"
  else if i =? id_nodelete then Some "atlassian.com/no-delete"
  else if i =? id_Pending then Some "Pending"
  else if i =? id_Running then Some "Running"
  else if i =? id_PodScheduled then Some "PodScheduled"
  else if i =? id_True then Some "True"
  else if i =? id_default then Some "default"
  else if i =? id_on_demand then Some "on-demand"
  else if i =? id_spot then Some "spot"
  else if i =? id_NoExecute then Some "NoExecute"
  else if i =? id_PreferNoSchedule then Some "PreferNoSchedule"
  else if i =? 18 then Some "instant"          (* Aws.id_instant; checked in Properties/Consts.v *)
  else None.
