(* Taint.v — pkg/k8s/taint.go and node.go against a journaled, oracle-driven API server. *)
From Esc Require Export K8s.

Inductive kcall :=
| KGet (n : id) (ok : bool)
| KUpdate (n : id) (payload : node) (ok : bool)
| KDelete (n : id) (ok : bool).

Definition kcall_eqb (x y : kcall) : bool :=
  match x, y with
  | KGet n o, KGet n' o' => (n =? n') && Bool.eqb o o'
  | KUpdate n p o, KUpdate n' p' o' => (n =? n') && node_eqb p p' && Bool.eqb o o'
  | KDelete n o, KDelete n' o' => (n =? n') && Bool.eqb o o'
  | _, _ => false
  end.

Definition kcall_is_write (c : kcall) : bool := match c with KGet _ _ => false | _ => true end.

(* what the API server does: which verbs fail on which node; the objects Get returns *)
Record korc := { ko_get_fail : list id; ko_update_fail : list id; ko_delete_fail : list id }.

Definition api_lookup (api : list node) (name : id) : option node := find (fun n => n_name n =? name) api.

Definition api_get (api : list node) (o : korc) (name : id) : option node :=
  if mem_id name (ko_get_fail o) then None else api_lookup api name.

Definition has_key (k : id) (n : node) : bool := existsb (fun t => t_key t =? k) (n_taints n).
Definition esc_taint (n : node) : option taint := find (fun t => t_key t =? id_esc_key) (n_taints n).
Definition has_esc (n : node) : bool := has_key id_esc_key n.
Definition has_force (n : node) : bool := has_key id_force_key n.

Definition set_taints (n : node) (ts : list taint) : node :=
  {| n_name := n_name n; n_created := n_created n; n_unsched := n_unsched n; n_taints := ts; n_annots := n_annots n;
     n_labels := n_labels n; n_cpu := n_cpu n; n_mem := n_mem n; n_pid := n_pid n; n_rest := n_rest n |}.

(* largest taint value GetToBeRemovedTime accepts as a unix time (F7 repair): 9999-12-31T23:59:59Z *)
Definition max_taint_ts : Z := 253402300799.

(* GetToBeRemovedTime: the recorded unix second, None when absent or unreadable *)
Definition taint_time_of (v : bytes) : option Z :=
  match parse_int v with
  | Some ts => if max_taint_ts <? ts then None else Some ts
  | None => None
  end.
Definition taint_time (n : node) : option Z :=
  match esc_taint n with Some t => taint_time_of (t_val t) | None => None end.

(* the unrepaired reading: time.Unix(ts, 0) wraps for ts close to max int64 *)
Definition unix_to_internal : Z := 62135596800.
Definition taint_time_unrepaired (v : bytes) : option Z :=
  match parse_int v with Some ts => Some (wrap64 (ts + unix_to_internal) - unix_to_internal) | None => None end.

Definition effect_or_default (e : id) : id := if e =? id_empty then id_NoSchedule else e.

Definition new_taint (now_sec : Z) (effect : id) : taint :=
  {| t_key := id_esc_key; t_val := print_dec now_sec; t_eff := effect_or_default effect; t_extra := 0 |}.

(* AddToBeRemovedTaint: journal and whether it returned without error *)
Definition add_taint (api : list node) (o : korc) (now_sec : Z) (effect : id) (name : id) : list kcall * bool :=
  match api_get api o name with
  | None => ([KGet name false], false)
  | Some u =>
    if has_esc u then ([KGet name true], true)
    else
      let u' := set_taints u (n_taints u ++ [new_taint now_sec effect]) in
      if mem_id name (ko_update_fail o) then ([KGet name true; KUpdate name u' false], false)
      else ([KGet name true; KUpdate name u' true], true)
  end.

(* delete-without-preserving-order of the first escalator taint; None when there is none *)
Fixpoint remove_swap (ts : list taint) : option (list taint) :=
  match ts with
  | [] => None
  | t :: rest =>
    if t_key t =? id_esc_key then
      Some (match rest with [] => [] | _ => last rest t :: removelast rest end)
    else option_map (cons t) (remove_swap rest)
  end.

(* DeleteToBeRemovedTaint *)
Definition delete_taint (api : list node) (o : korc) (name : id) : list kcall * bool :=
  match api_get api o name with
  | None => ([KGet name false], false)
  | Some u =>
    match remove_swap (n_taints u) with
    | None => ([KGet name true], true)
    | Some ts =>
      let u' := set_taints u ts in
      if mem_id name (ko_update_fail o) then ([KGet name true; KUpdate name u' false], false)
      else ([KGet name true; KUpdate name u' true], true)
    end
  end.

(* k8s.DeleteNodes: one delete per node, in order, stopping at the first failure *)
Fixpoint delete_nodes (o : korc) (names : list id) : list kcall * bool :=
  match names with
  | [] => ([], true)
  | n :: rest =>
    if mem_id n (ko_delete_fail o) then ([KDelete n false], false)
    else let '(calls, ok) := delete_nodes o rest in (KDelete n true :: calls, ok)
  end.
