(* CorrScan.v — correspondence records for the scan engine: one RunOnce of the real controller. *)
From Esc Require Export Scan.

Record obs_group := { og_name : id; og_calls : list call; og_state : gstate; og_desired : Z; og_tries : Z }.
Record scan_case := { sc_snap : snapshot; sc_obs : list obs_group; sc_out : Z }.

Definition out_code (o : outcome) : Z := match o with OutOk => 0 | OutErr => 1 | OutFatal => 2 | OutExit => 3 end.

Definition model_groups (s : snapshot) : list obs_group * Z :=
  let '(rs, out) := run_once s in
  (map (fun nr => let r := snd nr in
          {| og_name := fst nr; og_calls := r_calls r; og_state := r_state r;
             og_desired := match r_asg r with Some a => a_desired a | None => 0 end;
             og_tries := match r_asg r with Some a => a_tries a | None => 0 end |}) rs,
   out_code out).

Definition optZ_eqb := option_eqb Z.eqb.

Definition lock_eqb (a b : lock) : bool :=
  Bool.eqb (l_locked a) (l_locked b) && optZ_eqb (l_time a) (l_time b) && (l_requested a =? l_requested b).

Definition cache_view (c : qty * qty) : Z * Z := (q_milli (fst c), q_value (snd c)).

Definition gstate_eqb (a b : gstate) : bool :=
  lock_eqb (g_lock a) (g_lock b) && (g_delta a =? g_delta b) && optZ_eqb (g_last_out a) (g_last_out b)
  && pair_eqb Z.eqb Z.eqb (cache_view (g_cache a)) (cache_view (g_cache b))
  && list_eqb Z.eqb (g_taint_tracker a) (g_taint_tracker b) && list_eqb Z.eqb (g_force_tracker a) (g_force_tracker b).

Definition obs_group_eqb (proj : list call -> list call) (a b : obs_group) : bool :=
  (og_name a =? og_name b) && list_eqb call_eqb (proj (og_calls a)) (proj (og_calls b))
  && gstate_eqb (og_state a) (og_state b) && (og_desired a =? og_desired b) && (og_tries a =? og_tries b).

Definition case_agrees (proj : list call -> list call) (c : scan_case) : bool :=
  let '(mg, mo) := model_groups (sc_snap c) in
  list_eqb (obs_group_eqb proj) mg (sc_obs c) && (mo =? sc_out c).

Definition full (l : list call) : list call := l.

Definition mismatches_scan (cs : list scan_case) : list nat := indices_where (fun c => negb (case_agrees full c)) cs 0.
Definition propfail_scan (cs : list scan_case) : list nat := [].

(* model-branch coverage: how often each decision tag is reached *)
Definition case_tags (c : scan_case) : list Z := concat (map (fun nr => r_tags (snd nr)) (fst (run_once (sc_snap c)))).
Definition tags_scan (cs : list scan_case) : list Z :=
  let all := concat (map case_tags cs) in
  map (fun k => count_occ_b (fun t => t =? k) all) [1;2;3;4;5;6;7;8;9;10;11;12;13;14;15;16;17;18;19;20;21;22].

Definition explain_scan (c : scan_case) := (model_groups (sc_snap c), (sc_obs c, sc_out c)).
