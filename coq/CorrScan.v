(* CorrScan.v — correspondence records for the scan engine: one RunOnce of the real controller. *)
From Esc Require Export SpecScan.

Record obs_group := { og_name : id; og_calls : list call; og_state : gstate; og_desired : Z; og_tries : Z }.
(* sc_refresh: outcomes of the successive provider refresh / rebuild calls at the start of the scan (see Scan.prelude) *)
Record scan_case := { sc_snap0 : snapshot; sc_refresh : list bool; sc_obs : list obs_group; sc_out : Z }.
(* the snapshot the groups are scanned from (a rebuilt provider has forgotten its clean-up counters) *)
Definition sc_snap (c : scan_case) : snapshot := after_prelude (sc_refresh c) (sc_snap0 c).

Definition out_code (o : outcome) : Z := match o with OutOk => 0 | OutErr => 1 | OutFatal => 2 | OutExit => 3 end.

Definition model_groups (s : snapshot) : list obs_group * Z :=
  let '(rs, out) := run_once s in
  (map (fun nr => let r := snd nr in
          {| og_name := fst nr; og_calls := r_calls r; og_state := r_state r;
             og_desired := match r_asg r with Some a => a_desired a | None => 0 end;
             og_tries := match r_asg r with Some a => a_tries a | None => 0 end |}) rs,
   out_code out).

(* the whole RunOnce of a case: the prelude may already end it with Build's error *)
Definition run_case (c : scan_case) : list (id * gresult) * outcome := run_once_p (sc_refresh c) (sc_snap0 c).
Definition model_case (c : scan_case) : list obs_group * Z :=
  match prelude (sc_refresh c) with PStop => ([], 1) | PGo _ => model_groups (sc_snap c) end.

Definition optZ_eqb := option_eqb Z.eqb.

Definition lock_eqb (a b : lock) : bool :=
  Bool.eqb (l_locked a) (l_locked b) && optZ_eqb (l_time a) (l_time b) && (l_requested a =? l_requested b).

Definition cache_view (c : qty * qty) : Z * Z := (q_milli (fst c), q_value (snd c)).

(* lastScaleOut feeds only the registration-lag metric (which DescribeInstances lookups are made): it is not decision-relevant
   memory and is not compared *)
Definition gstate_eqb (a b : gstate) : bool :=
  lock_eqb (g_lock a) (g_lock b) && (g_delta a =? g_delta b)
  && pair_eqb Z.eqb Z.eqb (cache_view (g_cache a)) (cache_view (g_cache b))
  && list_eqb Z.eqb (g_taint_tracker a) (g_taint_tracker b) && list_eqb Z.eqb (g_force_tracker a) (g_force_tracker b).

(* two journals are compared call by call; the taint list of an update payload is compared as a multiset (the order in which the
   remaining taints are written back is not something any property fixes; C15's checker asks for a permutation too) *)
Definition call_eqb_mod (a b : call) : bool :=
  match a, b with
  | CK (KUpdate n p ok), CK (KUpdate n' p' ok') =>
      (n =? n') && Bool.eqb ok ok' && node_eqb (set_taints p []) (set_taints p' []) && perm_taints (n_taints p) (n_taints p')
  | _, _ => call_eqb a b
  end.

Definition obs_group_eqb (proj : list call -> list call) (a b : obs_group) : bool :=
  (og_name a =? og_name b) && list_eqb call_eqb_mod (proj (og_calls a)) (proj (og_calls b))
  && gstate_eqb (og_state a) (og_state b) && (og_desired a =? og_desired b) && (og_tries a =? og_tries b).

Definition case_agrees (proj : list call -> list call) (c : scan_case) : bool :=
  let '(mg, mo) := model_case c in
  list_eqb (obs_group_eqb proj) mg (sc_obs c) && (mo =? sc_out c).

Definition full (l : list call) : list call := l.

Definition mismatches_scan (cs : list scan_case) : list nat := indices_where (fun c => negb (case_agrees full c)) cs 0.
Definition propfail_scan (cs : list scan_case) : list nat := [].

(* model-branch coverage: how often each decision tag is reached *)
Definition case_tags (c : scan_case) : list Z := concat (map (fun nr => r_tags (snd nr)) (fst (run_case c))).
Definition tags_scan (cs : list scan_case) : list Z :=
  let all := concat (map case_tags cs) in
  map (fun k => count_occ_b (fun t => t =? k) all) [1;2;3;4;5;6;7;8;9;10;11;12;13;14;15;16;17;18;19;20;21;22].

Definition explain_scan (c : scan_case) := (model_case c, (sc_obs c, sc_out c)).

(* ---------- per-property projections of the journal (what each property's correspondence compares) ---------- *)
Definition pi_removal (l : list call) : list call := filter is_removal l.
Definition pi_writes (l : list call) : list call := filter call_is_write l.
Definition pi_k8s (l : list call) : list call := filter (fun c => match c with CK _ => true | _ => false end) l.
Definition pi_updates (l : list call) : list call := filter (fun c => match c with CK (KUpdate _ _ _) => true | _ => false end) l.
Definition pi_cloud (l : list call) : list call :=
  filter (fun c => is_cloud_increase c || match c with CA (ATermInAsg _ _ _) => true | _ => false end) l.
Definition pi_decision (l : list call) : list call :=
  filter (fun c => is_cloud_increase c || match c with CK (KUpdate _ _ _) => true | _ => false end) l.
(* reads (Get / Describe) are not part of any R projection: the correspondence compares what escalator DOES (writes and cloud
   requests, per property); what it reads is judged by the property checkers where a property speaks about it (C12: reads
   stay inside the group; C07/C08: lookups as evidence of attempts) — an extra or missing read-only call is not a deviation *)
Definition pi_reuse (l : list call) : list call :=
  filter (fun c => is_cloud_increase c || match c with CK (KUpdate _ _ _) | CA (ATermInAsg _ _ _) => true | _ => false end) l.
Definition pi_none (l : list call) : list call := [].

(* agreement on the projected journal and outcome; the in-memory state is compared only where a property is about it *)
Definition obs_group_eqb' (with_state : bool) (proj : list call -> list call) (a b : obs_group) : bool :=
  (og_name a =? og_name b) && list_eqb call_eqb_mod (proj (og_calls a)) (proj (og_calls b))
  && (if with_state then gstate_eqb (og_state a) (og_state b) && (og_desired a =? og_desired b) && (og_tries a =? og_tries b) else true).

Definition case_agrees' (with_state : bool) (proj : list call -> list call) (c : scan_case) : bool :=
  let '(mg, mo) := model_case c in
  list_eqb (obs_group_eqb' with_state proj) mg (sc_obs c) && (mo =? sc_out c).

Definition mism (with_state : bool) (proj : list call -> list call) (cs : list scan_case) : list nat :=
  indices_where (fun c => negb (case_agrees' with_state proj c)) cs 0.

Definition obs_calls (c : scan_case) : list (id * list call) := map (fun g => (og_name g, og_calls g)) (sc_obs c).

Definition pfail (f : gctx -> list call -> bool) (cs : list scan_case) : list nat :=
  indices_where (fun c => negb (for_groups f (sc_snap c) (obs_calls c))) cs 0.

(* ---------- per-property correspondence: each property compares the part of the behaviour it speaks about ---------- *)
(* (so that a change confined to another aspect of the behaviour is reported by the properties about that aspect, not by all) *)
Definition st_none (a b : gstate) : bool := true.
Definition st_lock (a b : gstate) : bool := lock_eqb (g_lock a) (g_lock b).
Definition st_cache (a b : gstate) : bool :=
  lock_eqb (g_lock a) (g_lock b) && pair_eqb Z.eqb Z.eqb (cache_view (g_cache a)) (cache_view (g_cache b)).

Definition all_groups (c : scan_case) (name : id) : bool := true.
Definition dry_groups (c : scan_case) (name : id) : bool :=
  match find_group (sc_snap c) name with Some gi => s_dry (sc_snap c) || o_dry (gi_opts gi) | None => true end.

Definition obs_group_eqbG (st : gstate -> gstate -> bool) (prov : bool) (proj : list call -> list call) (selected : bool) (a b : obs_group) : bool :=
  (og_name a =? og_name b)
  && (if selected then list_eqb call_eqb_mod (proj (og_calls a)) (proj (og_calls b)) && st (og_state a) (og_state b)
                       && (if prov then (og_desired a =? og_desired b) && (og_tries a =? og_tries b) else true)
      else true).

Definition case_agreesG (sel : scan_case -> id -> bool) (st : gstate -> gstate -> bool) (prov : bool) (proj : list call -> list call) (c : scan_case) : bool :=
  let '(mg, mo) := model_case c in
  list_eqb (fun a b => obs_group_eqbG st prov proj (sel c (og_name b)) a b) mg (sc_obs c) && (mo =? sc_out c).

Definition mismG sel st prov proj (cs : list scan_case) : list nat :=
  indices_where (fun c => negb (case_agreesG sel st prov proj c)) cs 0.

Definition payload_has_esc (c : call) : bool := match c with CK (KUpdate _ p _) => has_esc p | _ => false end.
(* instance identities of terminations are dropped where only their number matters (the desired size follows them) *)
Definition anon (c : call) : call := match c with CA (ATermInAsg _ d ok) => CA (ATermInAsg [] d ok) | _ => c end.
(* taint writes: updates whose payload carries the escalator taint *)
Definition pi_taint (l : list call) : list call := filter payload_has_esc l.
(* reuse and buying: untaint writes, cloud increases, and how many terminations went before *)
Definition pi_untaint_cloud (l : list call) : list call :=
  map anon (filter (fun c => is_cloud_increase c || match c with CK (KUpdate _ p _) => negb (has_esc p) | CA (ATermInAsg _ _ _) => true | _ => false end) l).
Definition pi_cloud_anon (l : list call) : list call := map anon (pi_cloud l).

Definition mismatches_C01 := mism false pi_removal.   Definition propfail_C01 := pfail check_C01_group.
Definition mismatches_C03 := mism false pi_taint.   Definition propfail_C03 := pfail (fun x calls => check_C03_group x calls && check_C03_recover x calls).
Definition mismatches_C04 := mism false pi_cloud_anon.     Definition propfail_C04 := pfail (fun x calls => check_C04_group x calls && check_C04_exact x calls).
Definition mismatches_C06 := mism false pi_decision.
Definition propfail_C06 := pfail (fun x calls => check_C06_group x calls && check_up_attempted x calls).
Definition mismatches_C07 := mism false pi_untaint_cloud.
Definition propfail_C07 := pfail (fun x calls => check_C07_group x calls && check_C07_exact x calls).
Definition mismatches_C08 := mism false pi_taint.       Definition propfail_C08 := pfail check_C08_group.
Definition mismatches_C09 := mism false pi_decision.    (* C09 on an observed scan: no write touches a cordoned node; and the decision is the one the bands give for the utilisation over
   the untainted UNCORDONED capacity (the band and acted-on checkers, whose capacity is the model's classification) *)
Definition propfail_C09 := pfail (fun x calls => check_C09_group x calls && check_C06_group x calls && check_up_attempted x calls).
Definition mismatches_C10 := mism false pi_removal.
Definition propfail_C10 := pfail (fun x calls => check_C10_group x calls && check_C10_reuse x calls).
Definition mismatches_C11 := mismG dry_groups gstate_eqb true pi_writes.     Definition propfail_C11 := pfail check_C11_group.
Definition mismatches_C12 := mism false pi_none.
(* C12 on an observed scan: every call stays inside its group; and the scan was not cut short by a panic (which skips every
   later group) *)
Definition propfail_C12 (cs : list scan_case) : list nat :=
  indices_where (fun c => negb (for_groups check_C12_group (sc_snap c) (obs_calls c)) || (sc_out c =? 4)) cs 0.
Definition mismatches_C15 := mism false pi_updates.   Definition propfail_C15 := pfail check_C15_group.
Definition mismatches_C19 := mism false pi_removal.
(* C19 on an observed scan: the journal checker, and: when the reaper's request meets a node that is no member of the cloud
   group (the model's run_once of the snapshot ends fatally: theorems c19_fatal_only_not_in_group, c20_run_once_ends) the observed
   RunOnce must have returned that error (outcome 2), not carried on *)
Definition propfail_C19 (cs : list scan_case) : list nat :=
  indices_where (fun c => negb (for_groups check_C19_group_w (sc_snap c) (obs_calls c))
                          || ((snd (model_case c) =? 2) && negb (sc_out c =? 2))) cs 0.
Definition mismatches_C02 := mismG all_groups st_lock false pi_decision.
Definition propfail_C02 (cs : list scan_case) : list nat :=
  indices_where (fun c => negb (forallb (fun g => match find_group (sc_snap c) (og_name g) with
                                                 | Some gi => check_C02_group (mk_ctx (sc_snap c) gi) (og_calls g) (og_state g)
                                                 | None => false end) (sc_obs c))) cs 0.
(* C18, controller side: the lock (and the cloud journal) after an increase that succeeded or failed at any step *)
Definition mismatches_C18S := mismG all_groups st_lock false pi_decision.
Definition propfail_C18S (cs : list scan_case) : list nat :=
  indices_where (fun c => negb (forallb (fun g => match find_group (sc_snap c) (og_name g) with
                                                 | Some gi => check_C18_group (mk_ctx (sc_snap c) gi) (og_calls g) (og_state g)
                                                 | None => false end) (sc_obs c))) cs 0.
Definition mismatches_C20 := mismG all_groups st_lock false pi_none.
(* C20 on an observed scan: no panic (4), no hang (6: still running long after every wait it can legitimately take); the main loop, started on a world whose first run returns an error, returned it and
   did not tick on (5); a scan that returned nil processed every configured group *)
Definition propfail_C20 (cs : list scan_case) : list nat :=
  indices_where (fun c => (sc_out c =? 4) || (sc_out c =? 5) || (sc_out c =? 6)
                          || ((sc_out c =? 0) && negb (Nat.eqb (length (sc_obs c)) (length (s_groups (sc_snap c)))))) cs 0.

(* cases whose views are not well-formed (duplicate node names): expected none; reported as a generator error *)
Definition illformed_scan (cs : list scan_case) : list nat :=
  indices_where (fun c => negb (wf_snapshot (sc_snap c))) cs 0.

(* ---------- known finding K3 (C19): a not-in-group answer on the FORCE-removal path is only logged ---------- *)
(* cases in which the model's scan of some group reached the force reaper, the cloud provider answered not-in-group
   there, and the observed RunOnce did not stop with that error *)
Definition force_notingroup (s : snapshot) (g : group_in) : bool :=
  let x := mk_ctx s g in
  match try_delete_nodes (x_env x) (x_asg x) (force_candidates (x_dry x) (x_pods x) (c_forced (x_cls x))) with
  | (_, Some ErrNotInGroup, _) => true
  | _ => false
  end.

Definition known_K3 (cs : list scan_case) : list nat :=
  indices_where (fun c =>
    negb (sc_out c =? 2) &&
    existsb (fun nr => mem_id T_force_err (r_tags (snd nr)) &&
                       match find_group (sc_snap c) (fst nr) with Some g => force_notingroup (sc_snap c) g | None => false end)
            (fst (run_case c))) cs 0.

(* C05, scan side: the scale-up composition (untaints + cloud request: the number of nodes brought into service is the
   needed number, the cloud being asked for exactly the remainder) and the node-size cache *)
Definition mismatches_C05S := mismG all_groups st_cache false pi_decision.
Definition propfail_C05S (cs : list scan_case) : list nat :=
  indices_where (fun c => negb (forallb (fun g => match find_group (sc_snap c) (og_name g) with
                                                 | Some gi => check_C05_cache (mk_ctx (sc_snap c) gi) (gi_state gi) (og_state g)
                                                              && check_C07_exact (mk_ctx (sc_snap c) gi) (og_calls g)
                                                 | None => false end) (sc_obs c))) cs 0.

(* C13, scan side: utilisation is requests over the capacity of the untainted, uncordoned nodes — the decision taken on it (band,
   acted-on scale-up, recovery below the minimum) is compared and judged with the classification the property defines *)
Definition mismatches_C13S := mism false pi_decision.
Definition propfail_C13S := pfail (fun x calls => check_C06_group x calls && check_up_attempted x calls && check_C03_group x calls).
