(* GenCtlBase.v — the (hand-written) result vocabulary of coq/GeneratedCtl.v, the file `harness gen --out-ctl` derives from
   the decision core of pkg/controller and pkg/cloudprovider/aws on every run.

   A Go function (or a declared slice of one) is translated either into a plain Gallina function (bool / Z result) or,
   when control can leave it in several ways, into a `gout`:
     GRet  vs          `return v1, …, vn`   (an `error` is abstracted to "is it non-nil")
     GCall f vs        control reaches the declared stop call f (an action the slice does not look into) with these
                       argument values
     GFall vs          control reaches the end of the slice; vs = the values of the declared output variables there. *)
From Esc Require Export Scan.
From Coq Require String.

Inductive gval :=
| GI (z : Z)            (* int / int64 / time.Duration *)
| GB (b : bool)
| GE (is_err : bool)    (* error: true = non-nil *)
| GF (f : f64)
| GS (s : id)           (* string, interned *)
| GL (l : list node).   (* []*v1.Node *)

Inductive gout :=
| GRet (vals : list gval)
| GCall (callee : String.string) (args : list gval)
| GFall (vals : list gval).

(* what a function the translator could not translate is defined as: no agreement statement about it typechecks *)
Inductive gen_untranslated_marker := GenUntranslated.

(* pointers the code dereferences after a nil test (the translator checks the test dominates the dereference) *)
Definition opt_is_none {A : Type} (o : option A) : bool := match o with None => true | Some _ => false end.
Definition opt_get (d : Z) (o : option Z) : Z := match o with Some x => x | None => d end.
