(* CorrCalc.v — correspondence records for the calc engine (C05, C13): cases written by harness/calc_engine.go,
   the model's projection of each case, the comparison with what the Go code did, the property checkers
   evaluated on the OBSERVED values, and coverage counters. *)
From Esc Require Export SpecCalc.

(* what the Go code returned for one (pods, nodes) snapshot: CalculatePodsRequestedUsage, CalculateNodesCapacity and,
   fed with their totals as scaleNodeGroup does, calcPercentUsage *)
Record totals_obs := {
  to_req_cpu : Z; to_req_mem : Z;                 (* Total.MilliCPU, Total.Memory of the requests *)
  to_pend_cpu : Z; to_pend_mem : Z;               (* LargestPendingCPU.MilliCPU, LargestPendingMemory.Memory *)
  to_pend_cpu_empty : bool; to_pend_mem_empty : bool;   (* LargestPendingCPU.IsEmpty(), LargestPendingMemory.IsEmpty() *)
  to_cap_cpu : Z; to_cap_mem : Z;                 (* Total of the capacity *)
  to_avail_cpu : Z; to_avail_mem : Z;             (* LargestAvailableCPU.MilliCPU, LargestAvailableMemory.Memory *)
  to_pct : option (view * view)                   (* calcPercentUsage on the totals with n = number of nodes; None = error *)
}.

Record arith_obs := {
  ao_pct : option (view * view);                  (* None = error return *)
  ao_delta : option (Z * bool)                    (* (delta, error?) ; None = not called because the percent failed *)
}.

Inductive calc_case :=
| CTotals (pods : list pod) (nodes : list node) (pods' : list pod) (nodes' : list node) (obs obs' : totals_obs)
    (* pods' / nodes' are the same objects in another order; obs' is what the code returned for them *)
| CArith (a : arith_in) (region : bool) (obs : arith_obs).
    (* region: the harness's own claim that the case lies in the proved "sufficient" region (cross-checked here) *)

(* ---------- model projections ---------- *)
Definition pct_view (r : pct_result) : option (view * view) :=
  match r with PctOk c m => Some (f_view c, f_view m) | PctErr => None end.

Definition model_totals (pods : list pod) (nodes : list node) : totals_obs :=
  let u := pods_usage pods in
  let k := nodes_capacity nodes pods in
  {| to_req_cpu := r_cpu (u_total u); to_req_mem := r_mem (u_total u);
     to_pend_cpu := r_cpu (u_big_cpu u); to_pend_mem := r_mem (u_big_mem u);
     to_pend_cpu_empty := (r_cpu (u_big_cpu u) =? 0) && (r_mem (u_big_cpu u) =? 0);
     to_pend_mem_empty := (r_cpu (u_big_mem u) =? 0) && (r_mem (u_big_mem u) =? 0);
     to_cap_cpu := r_cpu (k_total k); to_cap_mem := r_mem (k_total k);
     to_avail_cpu := r_cpu (k_big_cpu k); to_avail_mem := r_mem (k_big_mem k);
     to_pct := pct_view (calc_percent (r_cpu (u_total u)) (1000 * r_mem (u_total u))
                                      (r_cpu (k_total k)) (1000 * r_mem (k_total k)) (zlen nodes)) |}.

Definition model_arith (a : arith_in) : arith_obs :=
  match arith_percent a with
  | PctErr => {| ao_pct := None; ao_delta := None |}
  | PctOk cp mp =>
      {| ao_pct := Some (f_view cp, f_view mp);
         ao_delta := Some (match arith_delta a cp mp with DeltaOk d => (d, false) | DeltaErr d => (d, true) end) |}
  end.

(* ---------- equality of observations ---------- *)
Definition views_eqb (a b : option (view * view)) : bool :=
  option_eqb (fun x y => view_eqb (fst x) (fst y) && view_eqb (snd x) (snd y)) a b.

Definition totals_eqb (a b : totals_obs) : bool :=
  (to_req_cpu a =? to_req_cpu b) && (to_req_mem a =? to_req_mem b)
  && (to_pend_cpu a =? to_pend_cpu b) && (to_pend_mem a =? to_pend_mem b)
  && Bool.eqb (to_pend_cpu_empty a) (to_pend_cpu_empty b) && Bool.eqb (to_pend_mem_empty a) (to_pend_mem_empty b)
  && (to_cap_cpu a =? to_cap_cpu b) && (to_cap_mem a =? to_cap_mem b)
  && (to_avail_cpu a =? to_avail_cpu b) && (to_avail_mem a =? to_avail_mem b)
  && views_eqb (to_pct a) (to_pct b).

Definition delta_eqb (a b : option (Z * bool)) : bool :=
  option_eqb (fun x y => (fst x =? fst y) && Bool.eqb (snd x) (snd y)) a b.

(* ---------- the definition of C13, evaluated without the fold-based model ---------- *)
Definition spec_totals_ok (pods : list pod) (nodes : list node) (o : totals_obs) : bool :=
  (to_req_cpu o =? spec_req_cpu pods) && (to_req_mem o =? spec_req_mem pods)
  && (to_pend_cpu o =? spec_pend_cpu pods) && (to_pend_mem o =? spec_pend_mem pods)
  && Bool.eqb (to_pend_cpu_empty o) (spec_pend_cpu pods =? 0) && Bool.eqb (to_pend_mem_empty o) (spec_pend_mem pods =? 0)
  && (to_cap_cpu o =? spec_cap_cpu nodes) && (to_cap_mem o =? spec_cap_mem nodes)
  && (to_avail_cpu o =? spec_big_avail_cpu nodes pods) && (to_avail_mem o =? spec_big_avail_mem nodes pods)
  && check_percent (to_req_cpu o) (1000 * to_req_mem o) (to_cap_cpu o) (1000 * to_cap_mem o) (zlen nodes) (to_pct o).

(* ---------- C13 ---------- *)
Definition mismatch_C13 (c : calc_case) : bool :=
  match c with
  | CTotals pods nodes pods' nodes' obs obs' =>
      negb (totals_eqb (model_totals pods nodes) obs && totals_eqb (model_totals pods' nodes') obs')
  | CArith a _ obs => negb (views_eqb (ao_pct (model_arith a)) (ao_pct obs))
  end.

Definition propfail_case_C13 (c : calc_case) : bool :=
  match c with
  | CTotals pods nodes pods' nodes' obs obs' =>
      negb (spec_totals_ok pods nodes obs && totals_eqb obs obs')
  | CArith a _ obs =>
      negb (check_percent (a_cpu_req a) (1000 * a_mem_req a) (a_cpu_cap a) (1000 * a_mem_cap a) (a_n a) (ao_pct obs))
  end.

Definition mismatches_C13 (cs : list calc_case) : list nat := indices_where mismatch_C13 cs 0.
Definition propfail_C13 (cs : list calc_case) : list nat := indices_where propfail_case_C13 cs 0.

(* ---------- C05 ---------- *)
Definition mismatch_C05 (c : calc_case) : bool :=
  match c with
  | CTotals _ _ _ _ _ _ => false
  | CArith a region obs =>
      let m := model_arith a in
      negb (views_eqb (ao_pct m) (ao_pct obs) && delta_eqb (ao_delta m) (ao_delta obs)
            && Bool.eqb region (c05_region a))
  end.

Definition propfail_case_C05 (c : calc_case) : bool :=
  match c with
  | CTotals _ _ _ _ _ _ => false
  | CArith a _ obs => negb (check_delta a (ao_delta obs))
  end.

Definition mismatches_C05 (cs : list calc_case) : list nat := indices_where mismatch_C05 cs 0.
Definition propfail_C05 (cs : list calc_case) : list nat := indices_where propfail_case_C05 cs 0.

(* ---------- coverage ---------- *)
Definition count_cases (f : calc_case -> bool) (cs : list calc_case) : Z := count_occ_b f cs.

Definition on_arith (f : arith_in -> arith_obs -> bool) (c : calc_case) : bool :=
  match c with CArith a _ o => f a o | _ => false end.
Definition on_totals (f : list pod -> list node -> totals_obs -> bool) (c : calc_case) : bool :=
  match c with CTotals p n _ _ o _ => f p n o | _ => false end.

Definition obs_total (a : arith_in) (o : arith_obs) : option Z :=
  match ao_delta o with Some (d, false) => Some (if c05_normal a then a_n a + d else d) | _ => None end.
Definition want_total (a : arith_in) : Z := if c05_normal a then c05_m_min a else c05_m_zero a.
Definition c05_checked (a : arith_in) : bool :=
  c05_normal a || (c05_from_zero a && c05_cached a).

(* C05 counters:
   0 normal branch checked (equal-size nodes, above threshold)   1 … cpu above threshold   2 … memory above threshold
   3 from zero with cached size                                   4 from zero without cache (delta must be 1)
   5 percent error return                                         6 negative-delta error return
   7 inside the proved "sufficient" region                        8 outside it
   9 observed total = minimum                                     10 observed total = minimum + 1
   11 observed total below the minimum (K1 shape)                 12 observed total above minimum + 1
   13 not above threshold / unequal nodes (bit-exact comparison only) *)
Definition tags_C05 (cs : list calc_case) : list Z :=
  map (fun f => count_cases (on_arith f) cs)
    [ (fun a _ => c05_normal a);
      (fun a _ => c05_normal a && exceeds (a_cpu_req a) (a_cpu_cap a) (a_thr a));
      (fun a _ => c05_normal a && exceeds (a_mem_req a) (a_mem_cap a) (a_thr a));
      (fun a _ => c05_from_zero a && c05_cached a);
      (fun a _ => c05_from_zero a && negb (c05_cached a));
      (fun _ o => match ao_pct o with None => true | _ => false end);
      (fun _ o => match ao_delta o with Some (_, true) => true | _ => false end);
      (fun a _ => c05_checked a && c05_region a);
      (fun a _ => c05_checked a && negb (c05_region a));
      (fun a o => c05_checked a && match obs_total a o with Some v => v =? want_total a | None => false end);
      (fun a o => c05_checked a && match obs_total a o with Some v => v =? want_total a + 1 | None => false end);
      (fun a o => c05_checked a && match obs_total a o with Some v => v <? want_total a | None => false end);
      (fun a o => c05_checked a && match obs_total a o with Some v => want_total a + 1 <? v | None => false end);
      (fun a _ => negb (c05_checked a) && negb (c05_from_zero a)) ].

(* C13 counters:
   0 totals cases   1 … with a pending pod that has a request   2 … some pod with init containers above the container sum
   3 … some pod with overhead   4 … some node without allocatable cpu or memory   5 … pods counted against a node
   6 percent: all-zero answer   7 percent: MaxFloat64 sentinel   8 percent: error   9 percent: ordinary quotient
   10 arithmetic cases *)
Definition init_dominates (p : pod) : bool :=
  (sumZ (present_cpu (p_ctrs p)) <? zmax_list (sumZ (present_cpu (p_ctrs p))) (present_cpu (p_inits p)))
  || (sumZ (present_mem (p_ctrs p)) <? zmax_list (sumZ (present_mem (p_ctrs p))) (present_mem (p_inits p))).
Definition pct_kind (o : option (view * view)) : Z :=
  match o with
  | None => 2
  | Some (c, _) => if view_eqb c view_max then 1 else if view_eqb c view_zero then 0 else 3
  end.
Definition case_pct (c : calc_case) : option (view * view) :=
  match c with CTotals _ _ _ _ o _ => to_pct o | CArith _ _ o => ao_pct o end.
Definition all_zero_case (c : calc_case) : bool :=
  match c with
  | CTotals _ n _ _ o _ => (to_req_cpu o =? 0) && (to_req_mem o =? 0) && (to_cap_cpu o =? 0) && (to_cap_mem o =? 0) && (zlen n =? 0)
  | CArith a _ _ => (a_cpu_req a =? 0) && (a_mem_req a =? 0) && (a_cpu_cap a =? 0) && (a_mem_cap a =? 0) && (a_n a =? 0)
  end.

Definition tags_C13 (cs : list calc_case) : list Z :=
  [ count_cases (on_totals (fun _ _ _ => true)) cs;
    count_cases (on_totals (fun _ _ o => negb (to_pend_cpu_empty o && to_pend_mem_empty o))) cs;
    count_cases (on_totals (fun p _ _ => existsb init_dominates p)) cs;
    count_cases (on_totals (fun p _ _ => existsb (fun x => match p_overhead x with Some _ => true | None => false end) p)) cs;
    count_cases (on_totals (fun _ n _ => existsb (fun x => match n_cpu x, n_mem x with Some _, Some _ => false | _, _ => true end) n)) cs;
    count_cases (on_totals (fun p n _ => existsb (fun x => existsb (pod_on x) p) n)) cs;
    count_cases all_zero_case cs;
    count_cases (fun c => pct_kind (case_pct c) =? 1) cs;
    count_cases (fun c => pct_kind (case_pct c) =? 2) cs;
    count_cases (fun c => negb (all_zero_case c) && ((pct_kind (case_pct c) =? 3) || (pct_kind (case_pct c) =? 0))) cs;
    count_cases (on_arith (fun _ _ => true)) cs ].

(* ---------- reports ---------- *)
Definition explain_C13 (c : calc_case) : (option (totals_obs * totals_obs)) * (option (totals_obs * totals_obs)) * (option (arith_obs * arith_obs)) :=
  match c with
  | CTotals pods nodes pods' nodes' obs obs' =>
      (Some (model_totals pods nodes, obs), Some (model_totals pods' nodes', obs'), None)
  | CArith a _ obs => (None, None, Some (model_arith a, obs))
  end.

(* (model, observed, minimum total demanded by the exact oracle, inside the proved region?) *)
Definition explain_C05 (c : calc_case) : option (arith_obs * arith_obs * Z * bool) :=
  match c with
  | CTotals _ _ _ _ _ _ => None
  | CArith a _ obs => Some (model_arith a, obs, want_total a, c05_region a)
  end.
