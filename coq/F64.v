(* F64.v — IEEE-754 binary64 with round-to-nearest-even, as Go's float64 on amd64: Flocq's BinarySingleNaN. *)
From Coq Require Import ZArith Bool.
From Flocq Require Import Core.
From Flocq Require Import BinarySingleNaN.
Open Scope Z_scope.

Definition prec := 53%Z.
Definition emax := 1024%Z.
#[global] Instance Hprec : Prec_gt_0 prec. Proof. unfold Prec_gt_0, prec; reflexivity. Qed.
#[global] Instance Hmax : Prec_lt_emax prec emax. Proof. unfold Prec_lt_emax, prec, emax; reflexivity. Qed.

Definition f64 := binary_float prec emax.

Definition f_zero : f64 := B754_zero false.
Definition f_nan : f64 := B754_nan.

(* float64(int64) *)
Definition of_Z (z : Z) : f64 := binary_normalize prec emax Hprec Hmax mode_NE z 0 false.

Definition fdiv : f64 -> f64 -> f64 := Bdiv mode_NE.
Definition fmul : f64 -> f64 -> f64 := Bmult mode_NE.
Definition fsub : f64 -> f64 -> f64 := Bminus mode_NE.

Definition flt (x y : f64) : bool := match Bcompare x y with Some Lt => true | _ => false end.
Definition fgt (x y : f64) : bool := match Bcompare x y with Some Gt => true | _ => false end.
Definition feq (x y : f64) : bool := match Bcompare x y with Some Eq => true | _ => false end.

(* math.Ceil *)
Definition fceil (x : f64) : f64 := Bnearbyint mode_UP x.

(* math.MaxFloat64 = (2^53 - 1) * 2^971 *)
Definition f_max : f64 := binary_normalize prec emax Hprec Hmax mode_NE 9007199254740991 971 false.

Definition is_nan_b (x : f64) : bool := match x with B754_nan => true | _ => false end.
Definition is_pinf (x : f64) : bool := match x with B754_infinity false => true | _ => false end.
Definition is_zero_b (x : f64) : bool := match x with B754_zero _ => true | _ => false end.
Definition sign_b (x : f64) : bool := Bsign x.

(* math.Max *)
Definition fmax (x y : f64) : f64 :=
  if is_pinf x || is_pinf y then B754_infinity false
  else if is_nan_b x || is_nan_b y then B754_nan
  else if is_zero_b x && is_zero_b y then (if sign_b x then y else x)
  else if fgt x y then x else y.

(* int(f) on amd64 (CVTTSD2SQ): truncation toward zero; NaN, infinities and values outside int64 give min int64 *)
Definition to_int (x : f64) : Z :=
  match x with
  | B754_zero _ => 0
  | B754_finite s m e _ =>
      let v := if 0 <=? e then Zpos m * 2 ^ e else Zpos m / 2 ^ (- e) in
      let v := if s then - v else v in
      if (-9223372036854775808 <=? v) && (v <=? 9223372036854775807) then v else -9223372036854775808
  | _ => -9223372036854775808
  end.

(* a canonical, comparable view of a float: (kind, sign, mantissa, exponent); kind 0 zero, 1 finite, 2 inf, 3 nan *)
Definition f_view (x : f64) : Z * bool * Z * Z :=
  match x with
  | B754_zero s => (0, s, 0, 0)
  | B754_finite s m e _ => (1, s, Zpos m, e)
  | B754_infinity s => (2, s, 0, 0)
  | B754_nan => (3, false, 0, 0)
  end.

Definition view_eqb (a b : Z * bool * Z * Z) : bool :=
  let '(k1, s1, m1, e1) := a in let '(k2, s2, m2, e2) := b in
  (k1 =? k2) && Bool.eqb s1 s2 && (m1 =? m2) && (e1 =? e2).
