(* C06Src.v — the structural tie of C06 to the Go source: the decision functions this property rests on, re-derived from
   /repo's source on every run (coq/GeneratedCtl.v, harness gen --out-ctl), are the hand-written model's.  Theorems only.
   This file is SUPPLEMENTARY to the correspondence run: when it stops compiling (the source changed shape or meaning), bin/check
   widens the search for a failing input; the theorems of Properties/C06.v are about the model and are unaffected. *)
From Coq Require Import Reals.
From Esc Require Import Examples proofs.FloatProofs proofs.FloatBands proofs.ScanTaint proofs.ScanRun proofs.ScanRunTheorems.

(* ---------- the tie to the source: GeneratedCtl.v is re-derived from the Go source on every run (harness gen --out-ctl);
   the decisions this property rests on, as the code states them today, are the model's ---------- *)
From Esc Require Import GeneratedCtl proofs.GenCtlAgree proofs.GenCtlAgree_Starve proofs.GenCtlAgree_Decide proofs.GenCtlAgree_Exits proofs.GenCtlAgree_MaxAge.

(* controller.go isScaleOnStarve = scale_on_starve *)
Theorem c06_src_starve : forall o maxn u k untainted,
  gen_isScaleOnStarve o maxn u k untainted = scale_on_starve o maxn u k untainted.
Proof. exact gen_isScaleOnStarve_agree. Qed.
Print Assumptions c06_src_starve.

(* controller.go scaleOnMaxNodeAge = scale_on_max_age *)
Theorem c06_src_max_age : forall e o mn untainted tainted,
  gen_scaleOnMaxNodeAge e o mn untainted tainted = scale_on_max_age e o mn untainted tainted.
Proof. exact gen_scaleOnMaxNodeAge_agree. Qed.
Print Assumptions c06_src_max_age.

(* the threshold switch of scaleNodeGroup = decide: leaving the switch with nodesDelta = d is DeltaOk d, reaching
   calcScaleUpDelta is calc_delta on the arguments the code passes *)
Theorem c06_src_decide : forall o st cpuP memP us untainted,
  decide o st cpuP memP (r_cpu (u_total us)) (1000 * r_mem (u_total us)) untainted =
  match gen_scaleNodeGroup_decide o cpuP memP us untainted with
  | GFall [GI d] => DeltaOk d
  | GCall _ [GL l; GF c; GF m; GI cr; GI mr] => calc_delta (zlen l) c m cr mr (o_up o) (fst (g_cache st)) (snd (g_cache st))
  | _ => DeltaErr 0
  end.
Proof. exact gen_scaleNodeGroup_decide_agree. Qed.
Print Assumptions c06_src_decide.

(* the early exits of scaleNodeGroup (no nodes and no pods; node count below min / above max) are scan_group's: where the
   code returns, the model's scan makes no call and returns the same value and error class; where it goes on, so does the scan *)
Theorem c06_src_exits : forall e o mn maxn st a all_nodes all_pods,
  let R := scan_group e o mn maxn st a all_nodes all_pods in
  match gen_scaleNodeGroup_exits mn maxn (group_nodes o all_nodes) (group_pods o all_pods) with
  | GRet [GI r; GE err] =>
      r_calls R = [] /\ r_ret R = r /\ r_out R = (if err then OutErr else OutOk) /\ r_asg R = a /\ early_tag (hd 0 (r_tags R)) = true
  | _ => early_tag (hd 0 (r_tags R)) = false
  end.
Proof. exact gen_scan_group_exits. Qed.
Print Assumptions c06_src_exits.

(* the below-minimum recovery (GenCtlAgree.model_recover): unlocked and fewer untainted nodes than min -> ScaleUp(tainted,
   min - untainted), the test of scan_group *)
Theorem c06_src_recover : forall mn locked nodes untainted tainted forced,
  gen_scaleNodeGroup_recover mn locked nodes untainted tainted forced
  = model_recover mn locked untainted tainted.
Proof. exact gen_scaleNodeGroup_recover_agree. Qed.
Print Assumptions c06_src_recover.
