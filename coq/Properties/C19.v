(* C19 — AWS node removal hits only the right instances and respects the ASG minimum.  Theorems only. *)
From Esc Require Import SpecAws Examples proofs.AwsProofs proofs.ScanLemmas proofs.ScanOrder proofs.ScanParser proofs.ScanRun proofs.ScanRunTheorems.

(* provider: the request is refused as a whole, with no AWS call, when it would breach the minimum *)
Theorem c19_refuse : forall a nodes fails,
  a_desired a <= a_min a \/ a_desired a - zlen nodes < a_min a ->
  exists e, aws_delete_nodes a nodes fails = ([], e, a) /\ del_class e = 1.
Proof. exact c19_refuse_thm. Qed.
Print Assumptions c19_refuse.

(* provider: otherwise the calls are, in order, TerminateInstanceInAutoScalingGroup(instance backing node_i,
   decrement = true) for a prefix of the list ending at the end, at the first non-member (not-in-group) or at the
   first failing call; at most desired - min of them; the cached desired size follows the accepted calls *)
Theorem c19_exact : forall a nodes fails calls r a',
  a_min a < a_desired a -> a_min a <= a_desired a - zlen nodes ->
  aws_delete_nodes a nodes fails = (calls, r, a') ->
  del_trace a nodes calls (del_class r) /\ zlen calls <= a_desired a - a_min a /\
  a_desired a' = a_desired a - ok_calls calls /\
  (forall x, r = DelNotInGroup x -> exists n, nth_error nodes (length calls) = Some n /\ n_name n = x /\ belongs a (n_pid n) = false).
Proof. exact c19_exact_thm. Qed.
Print Assumptions c19_exact.

Theorem c19_model_passes_checker : forall a nodes fails,
  let '(calls, r, _) := aws_delete_nodes a nodes fails in check_C19 a nodes calls (del_class r) = true.
Proof. exact model_passes_C19. Qed.
Print Assumptions c19_model_passes_checker.

(* controller: Node objects are deleted only after the provider returned success for the whole batch — every
   candidate's instance terminated with decrement and accepted — and the deletes name exactly the candidates, in
   order, stopping at the first failed delete *)
Theorem c19_k8s_after_cloud : forall e g cands calls err a',
  try_delete_nodes e (Some g) cands = (calls, err, a') ->
  exists ac kc, calls = liftA ac ++ liftK kc /\
    (forall c, In c ac -> exists inst ok, c = ATermInAsg inst true ok) /\
    (kc <> [] ->
       cands <> [] /\
       aws_delete_nodes g cands (ao_terminasg_fail (e_aorc e)) = (ac, DelOk, match a' with Some g' => g' | None => g end) /\
       length ac = length cands /\ (forall c, In c ac -> exists inst, c = ATermInAsg inst true true) /\
       exists k, map (fun c => match c with KDelete n _ => n | KGet n _ => n | KUpdate n _ _ => n end) kc = firstn k (map n_name cands) /\
                 forall c, In c kc -> exists n ok, c = KDelete n ok).
Proof. exact try_delete_order. Qed.
Print Assumptions c19_k8s_after_cloud.

(* controller: a not-in-group answer met by the grace-period reaper (scale-down or no-op branch) ends the group's
   scan fatally, and run_once stops there; a fatal end has no other cause *)
Theorem c19_fatal_only_not_in_group : forall e o mn mx st a all_nodes all_pods,
  let r := scan_group e o mn mx st a all_nodes all_pods in
  let dry := e_dry e || o_dry o in
  let nodes := group_nodes o all_nodes in
  let st1 := match nodes with n :: _ => with_cache st (first_alloc n) | [] => st end in
  let cls := filter_nodes dry st1 nodes in
  r_out r = OutFatal ->
  exists g1 n, oasg_rel a (Some g1) /\ In n (reap_candidates e o dry (group_pods o all_pods) (c_tainted cls)) /\ belongs g1 (n_pid n) = false.
Proof. intros e o mn mx st a all_nodes all_pods r dry nodes st1 cls. exact (proj1 (scan_group_out e o mn mx st a all_nodes all_pods)). Qed.
Print Assumptions c19_fatal_only_not_in_group.

(* controller: across the force reaper and the grace-period reaper of one scan, never more than desired - min
   instances are terminated (desired as refreshed at the start of the scan), for every state and oracle *)
Theorem c19_budget : forall now gdry api g a nodes pods,
  check_C19_budget (ctx_of now gdry api g a nodes pods) (r_calls (scan_of now gdry api g a nodes pods)) = true.
Proof. exact group_budget_C19. Qed.
Print Assumptions c19_budget.

(* the journal checker evaluated on observed scans (runs of terminate calls, blocks of Node deletes: a delete block
   names, in order, nodes backed by a suffix of the all-accepted terminate run directly before it; plus the budget)
   accepts every journal the model produces, for every state and oracle *)
Theorem c19_model_passes_scan_checker : forall now gdry api g a nodes pods,
  check_C19_group (ctx_of now gdry api g a nodes pods) (r_calls (scan_of now gdry api g a nodes pods)) = true.
Proof. exact group_passes_C19. Qed.
Print Assumptions c19_model_passes_scan_checker.

(* what is demanded of the implementation's journals: every Node delete names a node backed by an instance of the all-accepted
   terminate run directly before its block (plus the calls' shape and the budget) — it follows from the parser above — and
   "the entire batch" is the scan's one removal request per path: the Node deletes of a scan form at most two blocks separated by
   terminations, one of force-tainted and one of tainted nodes of the view (check_C19_requests: a request cut into pieces —
   terminate some, delete them, terminate more — shows as a further block or as two blocks of one class) *)
Theorem c19_deletes_after_accepted_batch : forall now gdry api g a nodes pods,
  check_C19_group_w (ctx_of now gdry api g a nodes pods) (r_calls (scan_of now gdry api g a nodes pods)) = true.
Proof. exact group_passes_C19_w. Qed.
Print Assumptions c19_deletes_after_accepted_batch.

Theorem c19_run_once_full : forall s, wf_groups s -> for_groups check_C19_group s (run_journals s) = true.
Proof. exact run_passes_C19. Qed.
Print Assumptions c19_run_once_full.

(* non-vacuity: in the sample world the force-tainted node's instance is terminated and only then its Node object
   deleted, then the same for the hard-expired node *)
Example c19_ex : removal_targets (r_calls (ex_scan ex_opts gstate0 4800))
               = [(Some [105; 51], None); (None, Some 203); (Some [105; 50], None); (None, Some 202)].
Proof. vm_compute. reflexivity. Qed.

(* over a whole RunOnce: the checker evaluated by the correspondence holds of every group journal the model produces
   (group names and cloud group names pairwise distinct) *)
Theorem c19_run_once : forall s, wf_groups s -> for_groups check_C19_budget s (run_journals s) = true.
Proof. exact run_passes_C19_budget. Qed.
Print Assumptions c19_run_once.
