(* C01 — nodes are removed only after taint, grace period and drain conditions are met.  Theorems only.
   Statements quantify over every scan instant, dry-mode flag, API server content, node group (options, controller
   memory — locked or not, any trackers, i.e. also the memory of a freshly restarted controller — and failure
   oracles), cloud group and listed nodes / pods. *)
From Esc Require Import Examples proofs.BaseProofs proofs.ScanTheorems proofs.ScanRun proofs.ScanRunTheorems.

(* every terminate / delete call of a group's scan is about a node of that scan's view which is uncordoned, seen
   outside dry mode, and (a) escalator-tainted with a readable time more than soft in the past and no group pods,
   or (b) more than hard in the past, or (c) force-tainted with no group pods *)
Theorem c01_removal_sound : forall now gdry api g a nodes pods, asg_named g a ->
  P_C01 (ctx_of now gdry api g a nodes pods) (r_calls (scan_of now gdry api g a nodes pods)).
Proof. intros. apply check_C01_iff. apply group_passes_C01. assumption. Qed.
Print Assumptions c01_removal_sound.

Theorem c01_model_passes_checker : forall now gdry api g a nodes pods, asg_named g a ->
  check_C01_group (ctx_of now gdry api g a nodes pods) (r_calls (scan_of now gdry api g a nodes pods)) = true.
Proof. exact group_passes_C01. Qed.
Print Assumptions c01_model_passes_checker.

(* the checker evaluated on observed journals decides exactly that statement *)
Theorem c01_checker_iff : forall x calls, check_C01_group x calls = true <-> P_C01 x calls.
Proof. exact check_C01_iff. Qed.
Print Assumptions c01_checker_iff.

(* the age used is the saturating int64 difference Go computes; being beyond a grace period implies the exact
   difference is beyond it *)
Theorem c01_age_exact : forall x s, min_int64 <= s -> sat64 x > s -> x > s.
Proof. exact sat64_gt_imp. Qed.
Print Assumptions c01_age_exact.

(* the taint time is stored on the node: the stamp escalator writes (the scan's second, printed in decimal) reads back
   as exactly that second, for every second up to year 9999 — so after any restart the reaper sees the original time *)
Theorem c01_stamp_roundtrip : forall t, 0 <= t <= max_taint_ts -> taint_time_of (print_dec t) = Some t.
Proof.
  intros t Ht. unfold taint_time_of. rewrite parse_print_roundtrip by (unfold max_taint_ts, min_int64, max_int64 in *; lia).
  replace (max_taint_ts <? t) with false by (symmetry; apply Z.ltb_ge; lia). reflexivity.
Qed.
Print Assumptions c01_stamp_roundtrip.

(* a taint value that does not read as a time (unparsable, or beyond year 9999 — the F7 repair) never makes a node
   removable by the grace-period rule *)
Theorem c01_unreadable_never_reaped : forall e o pods n, taint_time n = None -> reapable e o pods n = false.
Proof. intros e o pods n H. unfold reapable. rewrite H. destruct (safe_from_deletion n); reflexivity. Qed.
Print Assumptions c01_unreadable_never_reaped.

(* non-vacuity: in the sample world the hard-expired busy node and the empty force-tainted node are removed; the
   cordoned, the annotated and the freshly tainted node are not *)
Example c01_ex : removal_targets (r_calls (ex_scan ex_opts gstate0 4800))
               = [(Some [105; 51], None); (None, Some 203); (Some [105; 50], None); (None, Some 202)].
Proof. vm_compute. reflexivity. Qed.

(* over a whole RunOnce: the checker evaluated by the correspondence holds of every group journal the model produces
   (group names and cloud group names pairwise distinct) *)
Theorem c01_run_once : forall s, wf_groups s -> for_groups check_C01_group s (run_journals s) = true.
Proof. exact run_passes_C01. Qed.
Print Assumptions c01_run_once.
