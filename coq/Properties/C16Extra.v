(* C16Extra — facts that DESCRIBE the current tree exactly (the accept set of the validator, the one yaml tag that differs,
   the one documented key nothing decodes).  They are informational: a stricter validator, a corrected yaml tag or a
   corrected document changes them without violating property C16, so bin/check C16 does not depend on this file
   (it is built by `make` with everything else; see design-notes/config-notes.md).  Theorems only. *)
From Coq Require Import String ZArith List.
From Esc Require Import SpecConfig proofs.ConfigProofs proofs.ConfigAcceptProofs.
Import ListNotations.
Open Scope string_scope.
Open Scope Z_scope.

(* the converse of c16_sound: validation demands `safe` and the presence of the three mandatory duration texts, nothing more *)
Theorem c16_complete : forall c, safe c -> beyond_safe c -> gen_validate c = true.
Proof. exact safe_gen_validate. Qed.
Print Assumptions c16_complete.

Theorem c16_accept_set : forall c, gen_validate c = true <-> safe c /\ beyond_safe c.
Proof. exact gen_validate_iff. Qed.
Print Assumptions c16_accept_set.

(* the yaml struct tag of HardDeleteGracePeriod repeats soft_delete_grace_period; harmless while decoding goes
   YAML -> JSON -> json tags (the C16 run decodes hard_delete_grace_period from YAML and checks the field) *)
Example c16_yaml_tags_note :
  yaml_differs gen_tag_table = [("HardDeleteGracePeriod", ("hard_delete_grace_period", "soft_delete_grace_period"))]
  /\ yaml_differs gen_aws_tag_table = [].
Proof. split; vm_compute; reflexivity. Qed.

(* known finding K2: the one documented key that no field carries *)
Example c16_k2_unhonoured_key :
  unhonoured gen_documented_keys gen_json_tags = ["scale_up_cool_down_timeout"]
  /\ unhonoured gen_documented_aws_keys gen_aws_json_tags = [].
Proof. split; vm_compute; reflexivity. Qed.
