(* C16Extra — the exact accept set of the validation MODEL (converse of c16_sound).  Informational: bin/check C16 does not
   depend on this file (it is built by `make` with everything else; see design-notes/config-notes.md).  The facts that
   describe the source tree (the one yaml tag that differs, the one documented key nothing decodes) are in
   Properties/C16Src.v with the rest of the supplementary source tie.  Theorems only. *)
From Coq Require Import String ZArith List.
From Esc Require Import SpecConfig proofs.ConfigProofs proofs.ConfigAcceptProofs.
Import ListNotations.
Open Scope string_scope.
Open Scope Z_scope.

(* the converse of c16_sound: validation demands `safe` and the presence of the three mandatory duration texts, nothing more *)
Theorem c16_complete : forall c, safe c -> beyond_safe c -> model_validate c = true.
Proof. exact safe_model_validate. Qed.
Print Assumptions c16_complete.

Theorem c16_accept_set : forall c, model_validate c = true <-> safe c /\ beyond_safe c.
Proof. exact model_validate_iff. Qed.
Print Assumptions c16_accept_set.
