(* ConstsDefaultGroup — SUPPLEMENTARY source tie (C14): the string behind the reserved id of the default node group is
   pkg/controller.DefaultNodeGroup, re-read from the source on every run (coq/Generated.v).  No property's theorems
   depend on this file; a lost tie is recorded (NOTE + widened search), it is not by itself a violation. *)
From Coq Require Import String ZArith List.
From Esc Require Import Base Generated Names.
Open Scope string_scope.

Theorem const_default_group : name_of_id id_default = Some gen_default_group.
Proof. reflexivity. Qed.
