(* Consts — the batching constants the theorems of C17 / C18 are about, re-read from the source on every run
   (coq/Generated.v), against the values the hand-written model uses (Aws.v).  Everything by reflexivity: editing a
   constant in Go breaks the corresponding line.  This file mentions ONLY gen_attach_batch(_z), gen_terminate_batch(_z)
   and gen_max_tries, each of which the translator emits independently of every other item of Generated.v (a constant it
   cannot read is emitted as `GenItemUntranslated`, and only the lines about that constant stop typechecking).
   The NAME constants (taint keys, annotation key, default group, default effect, lifecycles) are supplementary ties:
   Properties/ConstsTaint.v, ConstsNoDelete.v, ConstsDefaultGroup.v, ConstsLifecycle.v. *)
From Coq Require Import ZArith List.
From Esc Require Import Base Generated Aws.

Theorem const_attach_batch : gen_attach_batch = Aws.attach_batch.
Proof. reflexivity. Qed.
Theorem const_terminate_batch : gen_terminate_batch = Aws.terminate_batch.
Proof. reflexivity. Qed.
Theorem const_max_tries : gen_max_tries = Aws.max_terminate_tries.
Proof. reflexivity. Qed.

(* the service limits the batching theorems (C17, C18) are about: AttachInstances <= 20 ids, TerminateInstances <= 1000 ids *)
Theorem const_attach_batch_le_20 : (gen_attach_batch <=? 20)%nat = true.
Proof. reflexivity. Qed.
Theorem const_terminate_batch_le_1000 : (gen_terminate_batch <=? 1000)%nat = true.
Proof. reflexivity. Qed.
Theorem const_batches_positive : (1 <=? gen_attach_batch)%nat = true /\ (1 <=? gen_terminate_batch)%nat = true.
Proof. split; reflexivity. Qed.
