(* Consts — the constants the other properties name, re-read from the source on every run (Generated.v), against the
   values the hand-written model uses (Aws.v) and the strings behind the reserved interned ids (Names.v / harness/intern.go).
   Everything by reflexivity: editing a constant in Go breaks the corresponding line. *)
From Coq Require Import String ZArith List.
From Esc Require Import Base Config Generated Names Aws.
Open Scope string_scope.

Theorem const_attach_batch : gen_attach_batch = Aws.attach_batch.
Proof. reflexivity. Qed.
Theorem const_terminate_batch : gen_terminate_batch = Aws.terminate_batch.
Proof. reflexivity. Qed.
Theorem const_max_tries : gen_max_tries = Aws.max_terminate_tries.
Proof. reflexivity. Qed.

(* the service limits the batching theorems (C17, C18) are about: AttachInstances <= 20 ids, TerminateInstances <= 1000 ids *)
Theorem const_attach_batch_le_20 : (gen_attach_batch <=? 20)%nat = true.
Proof. reflexivity. Qed.
Theorem const_terminate_batch_le_1000 : (gen_terminate_batch <=? 1000)%nat = true.
Proof. reflexivity. Qed.
Theorem const_batches_positive : (1 <=? gen_attach_batch)%nat = true /\ (1 <=? gen_terminate_batch)%nat = true.
Proof. split; reflexivity. Qed.

(* the strings the harness interns as the reserved ids *)
Theorem const_esc_key : name_of_id id_esc_key = Some gen_esc_key.
Proof. reflexivity. Qed.
Theorem const_force_key : name_of_id id_force_key = Some gen_force_key.
Proof. reflexivity. Qed.
Theorem const_nodelete_key : name_of_id id_nodelete = Some gen_nodelete_key.
Proof. reflexivity. Qed.
Theorem const_default_group : name_of_id id_default = Some gen_default_group.
Proof. reflexivity. Qed.
Theorem const_default_taint_effect : name_of_id id_NoSchedule = Some gen_default_taint_effect.
Proof. reflexivity. Qed.
Theorem const_lifecycle_on_demand : name_of_id id_on_demand = Some gen_lifecycle_on_demand.
Proof. reflexivity. Qed.
Theorem const_lifecycle_spot : name_of_id id_spot = Some gen_lifecycle_spot.
Proof. reflexivity. Qed.
Theorem const_instant : name_of_id Aws.id_instant = Some "instant".
Proof. reflexivity. Qed.
Theorem const_keys_distinct : gen_esc_key <> gen_force_key.
Proof. discriminate. Qed.
