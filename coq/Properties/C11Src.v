(* C11Src.v — the structural tie of C11 to the Go source: the decision functions this property rests on, re-derived from
   /repo's source on every run (coq/GeneratedCtl.v, harness gen --out-ctl), are the hand-written model's.  Theorems only.
   This file is SUPPLEMENTARY to the correspondence run: when it stops compiling (the source changed shape or meaning), bin/check
   widens the search for a failing input; the theorems of Properties/C11.v are about the model and are unaffected. *)
From Esc Require Import Examples proofs.ScanTheorems proofs.ScanChecks proofs.ScanRun proofs.ScanRunTheorems proofs.ScanIsolation.

(* ---------- the tie to the source: GeneratedCtl.v is re-derived from the Go source on every run (harness gen --out-ctl);
   the decisions this property rests on, as the code states them today, are the model's ---------- *)
From Esc Require Import GeneratedCtl proofs.GenCtlAgree proofs.GenCtlAgree_Dry.

(* controller.go dryMode = the `dry` of scan_group *)
Theorem c11_src_dry_mode : forall e o, gen_dryMode e o = (e_dry e || o_dry o)%bool.
Proof. exact gen_dryMode_agree. Qed.
Print Assumptions c11_src_dry_mode.
