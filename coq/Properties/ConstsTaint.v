(* ConstsTaint — SUPPLEMENTARY source tie (C15): the strings the harness interns as the reserved ids of the two taint keys
   and of the default taint effect (Names.v / harness/intern.go) are the constants of pkg/k8s/taint.go, re-read from the
   source on every run (coq/Generated.v).  No property's theorems depend on this file; when it stops compiling bin/check
   records the lost tie, widens the search and prints a NOTE. *)
From Coq Require Import String ZArith List.
From Esc Require Import Base Generated Names.
Open Scope string_scope.

Theorem const_esc_key : name_of_id id_esc_key = Some gen_esc_key.
Proof. reflexivity. Qed.
Theorem const_force_key : name_of_id id_force_key = Some gen_force_key.
Proof. reflexivity. Qed.
(* the effect AddToBeRemovedTaint uses when the option is empty *)
Theorem const_default_taint_effect : name_of_id id_NoSchedule = Some gen_default_taint_effect.
Proof. reflexivity. Qed.
Theorem const_keys_distinct : gen_esc_key <> gen_force_key.
Proof. discriminate. Qed.
