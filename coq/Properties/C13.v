(* C13 — utilisation is computed by the documented definition and does not depend on listing order.  Theorems only. *)
From Coq Require Import ZArith List Permutation.
From Coq Require Import Reals.
From Flocq Require Import Core BinarySingleNaN.
From Esc Require Import SpecCalc proofs.CalcProofs proofs.FloatProofs.
From Esc Require Scan.
Import ListNotations.
Open Scope Z_scope.

(* the request of a pod is max(sum of the containers, largest init container) + overhead, per resource, with missing entries
   contributing nothing — for every pod, container lists of every length (P_pod_request is written without the model's folds:
   "an upper bound of the sum and of every present init value that is attained", SpecCalc.v) *)
Theorem c13_pod_request : forall p, P_pod_request p (pod_request p).
Proof. exact pod_request_spec. Qed.
Print Assumptions c13_pod_request.

Theorem c13_pod_request_unique : forall p r, P_pod_request p r -> r = pod_request p.
Proof. exact pod_request_unique. Qed.
Print Assumptions c13_pod_request_unique.

Theorem c13_pod_request_formula : forall p,
  r_cpu (pod_request p) = zmax_list (sumZ (present_cpu (p_ctrs p))) (present_cpu (p_inits p)) + overhead_cpu p /\
  r_mem (pod_request p) = zmax_list (sumZ (present_mem (p_ctrs p))) (present_mem (p_inits p)) + overhead_mem p.
Proof. intro p; split; [exact (pod_request_cpu p)|exact (pod_request_mem p)]. Qed.
Print Assumptions c13_pod_request_formula.

(* requested totals are the component-wise sums over the pods; capacity totals are the sums of the allocatable values *)
Theorem c13_totals : forall pods nodes,
  u_total (pods_usage pods) = {| r_cpu := sumZ (map spec_pod_cpu pods); r_mem := sumZ (map spec_pod_mem pods) |} /\
  k_total (nodes_capacity nodes pods) = {| r_cpu := sumZ (map node_cpu nodes); r_mem := sumZ (map node_mem nodes) |}.
Proof. intros pods nodes; split; [exact (pods_usage_total pods)|exact (nodes_capacity_total nodes pods)]. Qed.
Print Assumptions c13_totals.

(* the four numbers isScaleOnStarve reads are maxima (never below 0): over the pending pods' requests, and over the nodes'
   allocatable minus the requests of the pods counted against the node *)
Theorem c13_largest : forall pods nodes,
  r_cpu (u_big_cpu (pods_usage pods)) = spec_pend_cpu pods /\ r_mem (u_big_mem (pods_usage pods)) = spec_pend_mem pods /\
  r_cpu (k_big_cpu (nodes_capacity nodes pods)) = spec_big_avail_cpu nodes pods /\
  r_mem (k_big_mem (nodes_capacity nodes pods)) = spec_big_avail_mem nodes pods.
Proof.
  intros pods nodes. destruct (pods_usage_big pods), (nodes_capacity_big nodes pods). repeat split; assumption.
Qed.
Print Assumptions c13_largest.

(* order independence: any permutation of the pod list and of the node list gives the same totals and the same four
   largest-pending / largest-available numbers (the OTHER component of a stored largest record may differ when two pods or
   nodes tie — the decision never reads it: starve_cond_numbers) … *)
Theorem c13_perm : forall pods pods' nodes nodes',
  Permutation pods pods' -> Permutation nodes nodes' ->
  decision_inputs_of pods nodes = decision_inputs_of pods' nodes'.
Proof. exact decision_inputs_perm. Qed.
Print Assumptions c13_perm.

(* … hence the same percentages (calc_percent is applied to equal arguments) and the same starvation test *)
Theorem c13_perm_decision : forall pods pods' nodes nodes',
  Permutation pods pods' -> Permutation nodes nodes' ->
  let u := pods_usage pods in let k := nodes_capacity nodes pods in
  let u' := pods_usage pods' in let k' := nodes_capacity nodes' pods' in
  calc_percent (r_cpu (u_total u)) (1000 * r_mem (u_total u)) (r_cpu (k_total k)) (1000 * r_mem (k_total k)) (zlen nodes)
  = calc_percent (r_cpu (u_total u')) (1000 * r_mem (u_total u')) (r_cpu (k_total k')) (1000 * r_mem (k_total k')) (zlen nodes')
  /\ starve_cond u k = starve_cond u' k'.
Proof. exact percent_perm. Qed.
Print Assumptions c13_perm_decision.

Theorem c13_starve_reads_four_numbers : forall pods nodes,
  let u := pods_usage pods in let k := nodes_capacity nodes pods in
  starve_cond u k = starve_numbers (r_cpu (u_big_cpu u)) (r_mem (u_big_mem u)) (r_cpu (k_big_cpu k)) (r_mem (k_big_mem k)).
Proof. exact starve_cond_numbers. Qed.
Print Assumptions c13_starve_reads_four_numbers.

(* the same for the scan model's trigger itself (Scan.scale_on_starve, with nodes = the untainted nodes) *)
Theorem c13_perm_starve : forall o maxn pods pods' nodes nodes',
  Permutation pods pods' -> Permutation nodes nodes' ->
  Scan.scale_on_starve o maxn (pods_usage pods) (nodes_capacity nodes pods) nodes
  = Scan.scale_on_starve o maxn (pods_usage pods') (nodes_capacity nodes' pods') nodes'.
Proof. exact scan_starve_perm. Qed.
Print Assumptions c13_perm_starve.

(* the percentage: for non-zero capacities calcPercentUsage is the pair of quotients pct r C = float(r) / float(C) * 100 … *)
Theorem c13_percent_is_quotient : forall cpuReq memReq cpuCap memCap n, cpuCap <> 0 -> memCap <> 0 ->
  calc_percent cpuReq memReq cpuCap memCap n = PctOk (pct cpuReq cpuCap) (pct memReq memCap).
Proof. exact calc_percent_pct. Qed.
Print Assumptions c13_percent_is_quotient.

(* … which, for 1 <= r, C < 2^63, is finite (no overflow, no underflow), is exactly the value obtained by three kinds of rounding
   (conversion of each integer — exact below 2^53 —, quotient, product; rnd = round to nearest even in binary64), and lies within
   relative 5 * 2^-53 of the exact rational 100 r / C *)
Theorem c13_percent : forall r C, 1 <= r < 2 ^ 63 -> 1 <= C < 2 ^ 63 ->
  is_finite (pct r C) = true
  /\ B2R (pct r C) = rnd (rnd (rnd (IZR r) / rnd (IZR C)) * 100)
  /\ (Rabs (B2R (pct r C) - 100 * IZR r / IZR C) <= 5 * u * (100 * IZR r / IZR C))%R.
Proof. exact pct_error. Qed.
Print Assumptions c13_percent.

Theorem c13_percent_small_inputs : forall r C, 1 <= r < 2 ^ 53 -> 1 <= C < 2 ^ 53 ->
  B2R (pct r C) = rnd (rnd (IZR r / IZR C) * 100).
Proof. exact pct_small. Qed.
Print Assumptions c13_percent_small_inputs.

Theorem c13_percent_zero_request : forall C, 1 <= C < 2 ^ 63 -> B2R (pct 0 C) = 0%R /\ is_finite (pct 0 C) = true.
Proof. exact pct_zero. Qed.
Print Assumptions c13_percent_zero_request.

(* the integer checker evaluated on OBSERVED percent bits (SpecCalc.pct_close) accepts the model's value: a checker failure with an
   intact correspondence is impossible for in-range inputs *)
Theorem c13_checker_accepts_model : forall r C, 1 <= r < 2 ^ 63 -> 1 <= C < 2 ^ 63 -> pct_close (f_view (pct r C)) r C = true.
Proof. exact pct_close_model. Qed.
Print Assumptions c13_checker_accepts_model.

(* special cases of the percentage *)
Theorem c13_percent_all_zero : calc_percent 0 0 0 0 0 = PctOk f_zero f_zero.
Proof. exact percent_all_zero. Qed.
Print Assumptions c13_percent_all_zero.

Theorem c13_percent_sentinel : forall cpuReq memReq cpuCap memCap,
  cpuCap = 0 \/ memCap = 0 -> ~ (cpuReq = 0 /\ memReq = 0 /\ cpuCap = 0 /\ memCap = 0) ->
  calc_percent cpuReq memReq cpuCap memCap 0 = PctOk f_max f_max.
Proof. exact percent_zero_capacity_no_nodes. Qed.
Print Assumptions c13_percent_sentinel.

Theorem c13_percent_error : forall cpuReq memReq cpuCap memCap n,
  cpuCap = 0 \/ memCap = 0 -> n <> 0 -> calc_percent cpuReq memReq cpuCap memCap n = PctErr.
Proof. exact percent_zero_capacity_error. Qed.
Print Assumptions c13_percent_error.

(* non-vacuity: an init container above the container sum, overhead on top, a container without a memory request *)
Definition ex_q (n d : Z) : option qty := Some {| q_num := n; q_den := d |}.
Definition ex_pod : pod :=
  {| p_name := 100; p_node := 0;
     p_ctrs := [ {| c_cpu := ex_q 1 2; c_mem := ex_q 1073741824 1 |}; {| c_cpu := ex_q 3 2000000; c_mem := None |} ];
     p_inits := [ {| c_cpu := ex_q 1 1; c_mem := ex_q 1 10 |}; {| c_cpu := None; c_mem := ex_q 3221225472 1 |} ];
     p_overhead := Some {| c_cpu := ex_q 1 10; c_mem := None |};
     p_owners := []; p_annots := []; p_selector := []; p_affinity := None; p_phase := id_Pending; p_conds := [] |}.
(* cpu: max (500 + 2 (1500u rounds up), 1000) + 100 = 1100 milli; memory: max (1 Gi, max (1 (0.1 B rounds up), 3 Gi)) + 0 *)
Example c13_ex_pod : pod_request ex_pod = {| r_cpu := 1100; r_mem := 3221225472 |}.
Proof. reflexivity. Qed.

Definition ex_pod2 : pod :=
  {| p_name := 101; p_node := 0; p_ctrs := [ {| c_cpu := ex_q 2 1; c_mem := ex_q 1073741824 1 |} ]; p_inits := []; p_overhead := None;
     p_owners := []; p_annots := []; p_selector := []; p_affinity := None; p_phase := id_Pending; p_conds := [] |}.
(* a tie-free permutation example: both orders give the same inputs; with a tie the accompanying component differs *)
Example c13_ex_perm : decision_inputs_of [ex_pod; ex_pod2] [] = decision_inputs_of [ex_pod2; ex_pod] []
  /\ di_pend_cpu (decision_inputs_of [ex_pod; ex_pod2] []) = 2000.
Proof. split; reflexivity. Qed.
Example c13_ex_tie_other_component :
  u_big_cpu (pods_usage [ex_pod2; {| p_name := 102; p_node := 0; p_ctrs := [ {| c_cpu := ex_q 2 1; c_mem := ex_q 5 1 |} ]; p_inits := []; p_overhead := None;
     p_owners := []; p_annots := []; p_selector := []; p_affinity := None; p_phase := id_Pending; p_conds := [] |} ])
  <> u_big_cpu (pods_usage [{| p_name := 102; p_node := 0; p_ctrs := [ {| c_cpu := ex_q 2 1; c_mem := ex_q 5 1 |} ]; p_inits := []; p_overhead := None;
     p_owners := []; p_annots := []; p_selector := []; p_affinity := None; p_phase := id_Pending; p_conds := [] |}; ex_pod2 ]).
Proof. vm_compute. discriminate. Qed.

(* non-vacuity of the percent theorem: 14 % of capacity is not representable: 7/50*100 reads 14.000000000000002 *)
Example c13_ex_percent_bits : f_view (pct 7 50) = (1, false, 7881299347898369, -49).
Proof. vm_compute. reflexivity. Qed.
