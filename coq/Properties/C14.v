(* C14 — pods and nodes are attributed to node groups exactly as documented.  Theorems only. *)
From Esc Require Import SpecFilter proofs.FilterProofs.

(* for every key, value, pod shape (unbounded selector / affinity / owner lists) and node label map *)
Theorem c14_group : forall k v p, pod_in_group k v p = true <-> counts_toward_group k v p.
Proof. exact pod_in_group_iff. Qed.
Print Assumptions c14_group.

Theorem c14_default : forall p, pod_in_default p = true <-> counts_toward_default p.
Proof. exact pod_in_default_iff. Qed.
Print Assumptions c14_default.

Theorem c14_node : forall k v n, node_in_group k v n = true <-> node_belongs k v n.
Proof. exact node_in_group_iff. Qed.
Print Assumptions c14_node.

Theorem c14_all : forall k v p n, P_C14 k v p n (pod_in_group k v p, pod_in_default p, node_in_group k v n).
Proof. exact c14_model. Qed.
Print Assumptions c14_all.

(* the boolean checker evaluated on observed answers decides the property *)
Theorem c14_checker_sound : forall k v p n obs, check_C14 k v p n obs = true -> P_C14 k v p n obs.
Proof. exact check_C14_sound. Qed.
Print Assumptions c14_checker_sound.

Theorem c14_checker_complete : forall k v p n obs, P_C14 k v p n obs -> check_C14 k v p n obs = true.
Proof. exact check_C14_complete. Qed.
Print Assumptions c14_checker_complete.

(* non-vacuity: a pod matched only through a second affinity term, and a DaemonSet pod with a matching selector *)
Definition ex_pod_aff : pod :=
  {| p_name := 100; p_node := 0; p_ctrs := []; p_inits := []; p_overhead := None; p_owners := [101];
     p_annots := []; p_selector := [(102, 103)];
     p_affinity := Some {| af_node := Some (Some [ {| st_exprs := [ {| e_key := 104; e_op := id_In; e_vals := [105] |} ] |};
                                                    {| st_exprs := [ {| e_key := 110; e_op := id_In; e_vals := [105; 111] |} ] |} ]);
                           af_pod := false; af_anti := false |};
     p_phase := id_Running; p_conds := [] |}.
Example c14_ex_affinity : counts_toward_group 110 111 ex_pod_aff /\ ~ counts_toward_group 104 111 ex_pod_aff.
Proof. split; [apply pod_in_group_iff; reflexivity | intro H; apply pod_in_group_iff in H; discriminate]. Qed.

Definition ex_pod_ds : pod :=
  {| p_name := 100; p_node := 0; p_ctrs := []; p_inits := []; p_overhead := None; p_owners := [id_DaemonSet];
     p_annots := []; p_selector := [(110, 111)]; p_affinity := None; p_phase := id_Running; p_conds := [] |}.
Example c14_ex_daemonset : ~ counts_toward_group 110 111 ex_pod_ds /\ ~ counts_toward_default ex_pod_ds.
Proof. split; intro H; [apply pod_in_group_iff in H | apply pod_in_default_iff in H]; discriminate. Qed.
