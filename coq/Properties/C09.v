(* C09 — cordoned nodes are never touched and never counted.  Theorems only. *)
From Esc Require Import Examples proofs.ScanTheorems proofs.ScanRun proofs.ScanRunTheorems.

(* outside dry mode every node update, node delete and instance termination is about a node of the view that is
   not cordoned — whatever taints, annotations or age the cordoned nodes have *)
Theorem c09_untouched : forall now gdry api g a nodes pods, asg_named g a ->
  P_C09 (ctx_of now gdry api g a nodes pods) (r_calls (scan_of now gdry api g a nodes pods)).
Proof. intros. apply check_C09_iff. apply group_passes_C09. assumption. Qed.
Print Assumptions c09_untouched.

Theorem c09_model_passes_checker : forall now gdry api g a nodes pods, asg_named g a ->
  check_C09_group (ctx_of now gdry api g a nodes pods) (r_calls (scan_of now gdry api g a nodes pods)) = true.
Proof. exact group_passes_C09. Qed.
Print Assumptions c09_model_passes_checker.

Theorem c09_checker_iff : forall x calls, check_C09_group x calls = true <-> P_C09 x calls.
Proof. exact check_C09_iff. Qed.
Print Assumptions c09_checker_iff.

(* outside dry mode the three working classes contain no cordoned node, so capacity (computed from the untainted
   class) never counts one *)
Theorem c09_not_counted : forall st nodes n,
  In n (c_untainted (filter_nodes false st nodes)) \/ In n (c_tainted (filter_nodes false st nodes)) \/ In n (c_forced (filter_nodes false st nodes)) ->
  n_unsched n = false.
Proof.
  intros st nodes n [H|[H|H]].
  - apply ScanLemmas.in_untainted in H. destruct H as [_ H]. apply ScanLemmas.classify_wet_0 in H. tauto.
  - apply ScanLemmas.in_tainted in H. destruct H as [_ H]. apply ScanLemmas.classify_wet_1 in H. tauto.
  - apply ScanLemmas.in_forced in H. destruct H as [_ H]. apply ScanLemmas.classify_wet_2 in H. tauto.
Qed.
Print Assumptions c09_not_counted.

(* non-vacuity: node 204 is cordoned, escalator-tainted beyond the hard period and empty, and is left alone *)
Example c09_ex : removal_targets (r_calls (ex_scan ex_opts gstate0 4800))
               = [(Some [105; 51], None); (None, Some 203); (Some [105; 50], None); (None, Some 202)].
Proof. vm_compute. reflexivity. Qed.

(* over a whole RunOnce: the checker evaluated by the correspondence holds of every group journal the model produces
   (group names and cloud group names pairwise distinct) *)
Theorem c09_run_once : forall s, wf_groups s -> for_groups check_C09_group s (run_journals s) = true.
Proof. exact run_passes_C09. Qed.
Print Assumptions c09_run_once.
