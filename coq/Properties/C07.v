(* C07 — tainted nodes are reused before new capacity is bought.  Theorems only. *)
From Esc Require Import Examples proofs.ScanTaint proofs.ScanExact proofs.ScanState proofs.ScanRun proofs.ScanRunTheorems.

(* for every scan outside dry mode (node names of the view distinct): the nodes whose untaint is attempted are
   visited newest-created first, and if the journal contains a cloud increase then, before it, EVERY tainted node of
   the view was looked up and each one was untainted by an accepted write, or had no taint left in the API server's
   copy, or had its get / update fail *)
Theorem c07_reuse_first : forall now gdry api g a nodes pods,
  let x := ctx_of now gdry api g a nodes pods in
  NoDup (map n_name (x_nodes x)) ->
  check_C07_group x (r_calls (scan_of now gdry api g a nodes pods)) = true.
Proof. exact group_passes_C07. Qed.
Print Assumptions c07_reuse_first.

(* the exact remainder, for every scan outside dry mode: if the journal contains a cloud increase then the scan needed
   N more nodes (need_of: min - untainted below the minimum, otherwise the decided delta after the triggers), and the
   FIRST increase call asks for add = clamp(N - U) > 0 where U counts the tainted nodes untainted before it (accepted
   untaint writes plus successful read-backs whose API copy carried no escalator taint) and the clamp is against
   min(max_nodes, the cloud group's maximum) from the desired size d = (desired at the start of the scan) - (the scan's
   own accepted terminations before the call): SetDesiredCapacity(d + add), or a fleet request of total add *)
Theorem c07_exact_remainder : forall now gdry api g a nodes pods,
  let x := ctx_of now gdry api g a nodes pods in
  NoDup (map n_name (x_nodes x)) ->
  check_C07_exact x (r_calls (scan_of now gdry api g a nodes pods)) = true.
Proof. exact group_passes_C07_exact. Qed.
Print Assumptions c07_exact_remainder.

(* the remainder: what is asked of the cloud is the clamp of (N - successful untaints) on top of the provider's
   current cached desired size, which follows the same scan's accepted terminations (F6 repair): every
   SetDesiredCapacity value is desired-at-call + that remainder *)
Theorem c07_remainder : forall g d o, forallb (inc_call_ok (a_desired g) d) (fst (fst (aws_increase g d o))) = true.
Proof. exact aws_increase_asks. Qed.
Print Assumptions c07_remainder.

Theorem c07_desired_follows_terminations : forall e g cands calls err a',
  try_delete_nodes e (Some g) cands = (calls, err, a') ->
  exists g', a' = Some g' /\ ScanLemmas.asg_rel g g' /\ a_desired g' = a_desired g - okterm calls /\ no_increase calls.
Proof. exact try_delete_c04. Qed.
Print Assumptions c07_desired_follows_terminations.

(* the untaint loop stops short of N successes only after visiting the whole list *)
Theorem c07_loop_complete : forall api o l n count,
  count + zlen (filter (fun p => uoc_counts (snd p)) (ul_run api o l n count)) < n -> map fst (ul_run api o l n count) = l.
Proof. exact ul_run_complete. Qed.
Print Assumptions c07_loop_complete.

(* non-vacuity: at 300 % the sample world needs more than its three reusable tainted nodes: all three are untainted,
   newest first (206 is older than 205 is older than 202), then the rest is bought on top of the desired size that
   already accounts for the force-removed node: 7 - 1 + ... *)
Example c07_ex :
  got_names (calls_before_increase (r_calls (ex_scan ex_opts gstate0 24000))) = [202; 205; 206]
  /\ filter is_cloud_increase (r_calls (ex_scan ex_opts gstate0 24000)) = [CA (ASetDesired 103 10 false true)].
Proof. vm_compute. split; reflexivity. Qed.

(* non-vacuity of the exact remainder on the same scan: 7 nodes are needed, the 3 reusable tainted nodes are untainted,
   one force-tainted node is removed first (desired 7 -> 6), and the cloud is asked for the remaining 4: 6 + 4 = 10 *)
Example c07_exact_ex :
  need_of (ex_ctx ex_opts gstate0 24000) = Some 7
  /\ counted_untainted (ex_ctx ex_opts gstate0 24000) (calls_before_increase (r_calls (ex_scan ex_opts gstate0 24000))) = 3
  /\ untaint_ok_targets (ex_ctx ex_opts gstate0 24000) (r_calls (ex_scan ex_opts gstate0 24000)) = [202; 205; 206]
  /\ ok_terminations (calls_before_increase (r_calls (ex_scan ex_opts gstate0 24000))) = 1
  /\ first_increase (r_calls (ex_scan ex_opts gstate0 24000)) = Some (ASetDesired 103 10 false true)
  /\ check_C07_exact (ex_ctx ex_opts gstate0 24000) (r_calls (ex_scan ex_opts gstate0 24000)) = true
  (* and the checker rejects the same journal with the request off by one *)
  /\ check_C07_exact (ex_ctx ex_opts gstate0 24000)
       (map (fun c => match c with CA (ASetDesired g v h ok) => CA (ASetDesired g (v - 1) h ok) | _ => c end) (r_calls (ex_scan ex_opts gstate0 24000))) = false.
Proof. vm_compute. repeat split; reflexivity. Qed.

(* over a whole RunOnce: the checker evaluated by the correspondence holds of every group journal the model produces
   (group names and cloud group names pairwise distinct) *)
Theorem c07_run_once : forall s, wf_groups s -> wf_snapshot s = true -> for_groups check_C07_group s (run_journals s) = true.
Proof. exact run_passes_C07. Qed.
Print Assumptions c07_run_once.

Theorem c07_exact_run_once : forall s, wf_groups s -> wf_snapshot s = true -> for_groups check_C07_exact s (run_journals s) = true.
Proof. exact run_passes_C07_exact. Qed.
Print Assumptions c07_exact_run_once.
