(* C06 — scaling direction and taint rate follow the utilisation bands.  Theorems only. *)
From Coq Require Import Reals.
From Esc Require Import Examples proofs.FloatProofs proofs.FloatBands proofs.ScanTaint proofs.ScanExact proofs.ScanRun proofs.ScanRunTheorems.
Open Scope Z_scope.

(* For every scan with non-negative rates slow <= fast (what validation admits) and a non-negative minimum: when the
   group is unlocked, within its node-count bounds, not below its minimum and the percentages are defined, with
   u = max(cpu%, mem%) as the code computes it (band_of):
   - a fired scale_on_starve / max_node_age trigger never leads to a taint write;
   - u < lower: no untaint write, no cloud increase, at most min(fast, untainted - min) taint writes, and exactly that
     many when no API call fails, the API copies equal the listed nodes and every tainted node is an instance of the
     cloud group;  lower <= u < upper: the same with slow;
   - upper <= u <= scale-up threshold: no taint write, no untaint write, no cloud increase;
   - u > scale-up threshold: no taint write. *)
Theorem c06_bands : forall now gdry api g a nodes pods,
  let x := ctx_of now gdry api g a nodes pods in
  0 <= o_slow (x_opts x) <= o_fast (x_opts x) -> 0 <= x_min x ->
  check_C06_group x (r_calls (scan_of now gdry api g a nodes pods)) = true.
Proof. exact group_passes_C06. Qed.
Print Assumptions c06_bands.

(* the float bands are the rational bands except within a relative 2^-50 of a threshold: for request total r, capacity C
   (int64 range, as MilliValue() delivers them) and an integer threshold L, an exact utilisation 100 r / C at most
   L (1 - 2^-50) is computed as strictly below L, and one of at least L (1 + 2^-50) as strictly above L; on the knife-edge
   itself the bit-exact model decides (proofs/FloatBands.v, on top of the percentage error bound of C13) *)
Theorem c06_exact_link_below : forall r C L, (1 <= r < 2 ^ 63)%Z -> (1 <= C < 2 ^ 63)%Z -> (1 <= L < 2 ^ 53)%Z ->
  (100 * IZR r / IZR C <= IZR L * (1 - eps50))%R -> flt (pct r C) (of_Z L) = true.
Proof. exact band_below. Qed.
Print Assumptions c06_exact_link_below.
Theorem c06_exact_link_above : forall r C L, (1 <= r < 2 ^ 63)%Z -> (1 <= C < 2 ^ 63)%Z -> (1 <= L < 2 ^ 53)%Z ->
  (IZR L * (1 + eps50) <= 100 * IZR r / IZR C)%R -> fgt (pct r C) (of_Z L) = true /\ flt (pct r C) (of_Z L) = false.
Proof. exact band_above. Qed.
Print Assumptions c06_exact_link_above.

(* the override of the two triggers: at least one node, never negative *)
Theorem c06_triggers : forall e o mn mx us cap unt tainted d0,
  scale_on_starve o mx us cap unt = true \/ scale_on_max_age e o mn unt tainted = true -> 1 <= final_delta e o mn mx us cap unt tainted d0.
Proof. intros e o mn mx us cap unt tainted d0 [H|H]; unfold final_delta; rewrite H; destruct (scale_on_starve _ _ _ _ _), (scale_on_max_age _ _ _ _ _); lia. Qed.
Print Assumptions c06_triggers.

(* a scale-up decision is never negative: a negative float delta is an error, not a scale-down *)
Theorem c06_up_nonneg : forall n cp mp cr mr thr cc cm d, calc_delta n cp mp cr mr thr cc cm = DeltaOk d -> 0 <= d.
Proof. exact calc_delta_nonneg. Qed.
Print Assumptions c06_up_nonneg.

(* non-vacuity: the sample world (two untainted nodes of 4 cpu, min 1, slow 1, fast 2) at 12.5 % / 37.5 % / 60 % /
   300 %: one taint (clamped from 2), one taint, nothing, a cloud increase *)
Example c06_ex :
  map (fun m => (band_of (ex_ctx ex_opts gstate0 m), length (taint_ok_targets (ex_ctx ex_opts gstate0 m) (r_calls (ex_scan ex_opts gstate0 m))),
                 existsb is_cloud_increase (r_calls (ex_scan ex_opts gstate0 m)))) [1000; 3000; 4800; 24000]
  = [(BLow, 1%nat, false); (BMid, 1%nat, false); (BQuiet, 0%nat, false); (BUp, 0%nat, true)].
Proof. vm_compute. reflexivity. Qed.

(* over a whole RunOnce: the checker evaluated by the correspondence holds of every group journal the model produces
   (group names and cloud group names pairwise distinct) *)
Theorem c06_run_once : forall s, wf_groups s -> rates_ok s -> for_groups check_C06_group s (run_journals s) = true.
Proof. exact run_passes_C06. Qed.
Print Assumptions c06_run_once.

(* a decided scale-up is acted on: whenever the scan's decision is to add N nodes (above the scale-up threshold, a trigger
   that fired, or fewer untainted nodes than the minimum: need_of x = Some N), then — outside dry mode — if after the untaints
   that succeeded nodes are still missing and min(max_nodes, cloud max) leaves room above the desired size, the journal shows
   the cloud request (SetDesiredCapacity / CreateFleet, or in fleet mode at least the describe call the request starts with).
   Together with c07_exact_remainder this fixes the amount; with c06_bands that nothing is tainted. *)
Theorem c06_up_acted_on : forall now gdry api g a nodes pods,
  check_up_attempted (ctx_of now gdry api g a nodes pods) (r_calls (scan_of now gdry api g a nodes pods)) = true.
Proof. exact group_passes_up_attempted. Qed.
Print Assumptions c06_up_acted_on.

Theorem c06_up_acted_on_run_once : forall s, wf_groups s -> for_groups check_up_attempted s (run_journals s) = true.
Proof. exact run_passes_up_attempted. Qed.
Print Assumptions c06_up_acted_on_run_once.
