(* C18 — fleet scale-up never leaks instances, whatever step fails.  Theorems only. *)
From Esc Require Import SpecAws Scan SpecScan proofs.AwsProofs proofs.ScanState.
From Coq Require Import Permutation.

(* For every acquired id list (any length) and every failure point — readiness deadline, failure of any subset of
   attach calls, failure of any terminate call: the ids attached successfully together with the ids submitted for
   termination are a permutation of the acquired ids (never both, never neither); every terminate call carries at
   most terminate_batch (= 1000) ids; any failure is reported to the caller; success means nothing was terminated
   and the consecutive clean-up counter is reset.  The attach loop's fuel never runs out. *)
Theorem c18_partition : forall a d o calls r a',
  0 < d -> a_desired a + d <= a_max a -> fleet_mode a = true ->
  aws_increase a d o = (calls, r, a') ->
  Permutation (attached_ok calls ++ terminated_ids calls) (acquired o calls) /\
  term_sizes_ok calls = true /\
  (attach_failed calls = true \/ terminated_ids calls <> [] -> r <> IncOk) /\
  (r = IncOk -> terminated_ids calls = [] /\ attach_failed calls = false /\ a_tries a' = 0) /\
  r <> IncErr EFuel.
Proof. exact c18_partition_thm. Qed.
Print Assumptions c18_partition.

(* readiness timeout: nothing is attached, everything acquired is submitted for termination, an error is returned *)
Theorem c18_timeout : forall a d o insts nerr vpc0 vpc calls r a',
  0 < d -> a_desired a + d <= a_max a -> fleet_mode a = true ->
  ao_describe o = DescVpc (vpc0 :: vpc) -> ao_fleet o = FleetReply insts nerr -> concat insts <> [] ->
  (match ao_ready_at o with Some k => Nat.leb k (ao_deadline o) | None => false end) = false ->
  aws_increase a d o = (calls, r, a') ->
  attached_ok calls = [] /\ terminated_ids calls = concat insts /\ r <> IncOk.
Proof. exact c18_timeout_thm. Qed.
Print Assumptions c18_timeout.

(* the orphan termination loop submits exactly its argument, in calls of at most 1000 ids *)
Theorem c18_terminate_batches : forall fuel inst k fails,
  (length inst <= fuel)%nat ->
  terminated_ids (term_loop fuel inst k fails) = inst /\ term_sizes_ok (term_loop fuel inst k fails) = true.
Proof. intros fuel inst k fails H. destruct (term_loop_spec fuel inst k fails H) as [H1 [_ [H3 _]]]. split; assumption. Qed.
Print Assumptions c18_terminate_batches.

Theorem c18_model_passes_checker : forall a d o,
  let '(calls, r, _) := aws_increase a d o in check_C18 a d o calls (inc_class r) = true.
Proof. exact model_passes_C18. Qed.
Print Assumptions c18_model_passes_checker.

(* the checker's multiset comparison means permutation *)
Theorem c18_checker_multiset_sound : forall x y, same_multiset x y = true -> Permutation x y.
Proof. exact same_multiset_sound. Qed.
Print Assumptions c18_checker_multiset_sound.

Lemma c18_batch_is_1000 : terminate_batch = 1000%nat.
Proof. reflexivity. Qed.

(* non-vacuity: 2500 acquired instances, the attach call number 3 fails: 60 attached, 2440 terminated in calls of
   1000, 1000, 440; the third consecutive clean-up exits *)
Definition ex_asg (tries : Z) : asg := {| a_name := 100; a_min := 0; a_max := 5000; a_desired := 3; a_instances := [];
  a_cfg := {| f_template := 101; f_lifecycle := id_empty; f_ntypes := 0 |}; a_tries := tries |}.
Definition ex_orc : aorc := {| ao_setdesired_fail := false; ao_describe := DescVpc [115];
  ao_fleet := FleetReply [map Z.of_nat (seq 1000 2500)] 0; ao_ready_at := Some 1%nat; ao_deadline := 1;
  ao_attach_fail := [3%nat]; ao_term_fail := [1%nat]; ao_terminasg_fail := [] |}.
Example c18_ex_2500 :
  let '(calls, r, a') := aws_increase (ex_asg 2) 2500 ex_orc in
  r = IncExit /\ length (attached_ok calls) = 60%nat /\
  map (fun c => match c with ATermInstances ids _ => length ids | _ => 0%nat end) (filter (fun c => match c with ATermInstances _ _ => true | _ => false end) calls)
    = [1000; 1000; 440]%nat.
Proof. vm_compute. repeat split. Qed.

(* the controller half: whenever the scale-up does not succeed (the provider returned an error, or the process exits at
   the third clean-up) the controller's memory keeps the lock it had — no cool-down is taken for capacity that did not
   arrive — and the reported number of added nodes is 0 *)
Theorem c18_error_no_lock : forall e o mx dry st a tainted want,
  let r := scale_up e o mx dry st a tainted want in
  up_out r <> OutOk -> g_lock (up_state r) = g_lock st /\ up_ret r = 0.
Proof. exact scale_up_error_no_lock. Qed.
Print Assumptions c18_error_no_lock.

(* ... and over whole scans, on what a journal shows: for every scan instant, dry flag, API content, group options,
   controller memory, failure oracle, cloud group and listed nodes/pods, the scan leaves the lock time where it found it
   unless the group is in dry mode or the journal shows a completed increase — SetDesiredCapacity accepted, or CreateFleet
   accepted followed by at least one AttachInstances call and none refused (check_C18_group; the boolean checker the
   correspondence run evaluates on OBSERVED journals and post-states, engine C18S) *)
Theorem c18_lock_follows_capacity : forall now gdry api g a nodes pods,
  let x := ctx_of now gdry api g a nodes pods in
  let r := scan_of now gdry api g a nodes pods in
  check_C18_group x (r_calls r) (r_state r) = true.
Proof. exact group_passes_C18. Qed.
Print Assumptions c18_lock_follows_capacity.

(* the converse, on the provider: IncreaseSize reports success exactly when the journal shows the completed increase *)
Theorem c18_success_iff_done : forall g d o calls r g',
  aws_increase g d o = (calls, r, g') -> (r = IncOk <-> increase_done (liftA calls) = true).
Proof. exact aws_increase_done_iff. Qed.
Print Assumptions c18_success_iff_done.
