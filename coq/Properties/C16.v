(* C16 — start-up validation admits only configurations that are safe to run; documented keys are honoured.
   Theorems only.  `gen_validate` / `gen_rules` / the key tables are GENERATED from the current source (Generated.v):
   these proofs are re-run against whatever ValidateNodeGroup contains now. *)
From Coq Require Import String ZArith List.
From Esc Require Import SpecConfig proofs.ConfigProofs.
Import ListNotations.
Open Scope string_scope.
Open Scope Z_scope.

(* for every configuration (all Z, all strings, every result of time.ParseDuration) *)
Theorem c16_sound : forall c, gen_validate c = true -> safe c.
Proof. exact gen_validate_safe. Qed.
Print Assumptions c16_sound.

(* accepted = ValidateNodeGroup returned no problem = no generated rule is false *)
Theorem c16_problems : forall c, gen_problems c = 0 <-> gen_validate c = true.
Proof. exact gen_problems_zero. Qed.
Print Assumptions c16_problems.

(* the boolean checker evaluated on observed verdicts decides the property *)
Theorem c16_safe_b : forall c, safe_b c = true <-> safe c.
Proof. exact safe_b_iff. Qed.
Print Assumptions c16_safe_b.

Theorem c16_checker : forall c accepted, check_C16 c accepted = true <-> P_C16 c accepted.
Proof. exact check_C16_iff. Qed.
Print Assumptions c16_checker.

(* finite domain (the generated tables), decided by computation: every key of the documentation's example block is the
   json name of a field of NodeGroupOptions (resp. AWSNodeGroupOptions), except the keys listed in `known_unhonoured` *)
Theorem c16_keys :
  (forall k, In k gen_documented_keys -> In k gen_json_tags \/ In k known_unhonoured) /\
  (forall k, In k gen_documented_aws_keys -> In k gen_aws_json_tags).
Proof. exact documented_keys_honoured. Qed.
Print Assumptions c16_keys.

(* non-vacuity: the documentation's example passes validation (so the hypothesis of c16_sound is satisfiable and `safe`
   is inhabited); the auto-discover form (min = max = 0) passes too; the F5 witness (slow = -3, fast = -2) is rejected *)
Definition mkdur (raw : string) (ns : Z) : dur := {| d_raw := raw; d_parse := Some ns |}.
Definition ex_cfg : cfg :=
  {| c_name := "shared"; c_label_key := "customer"; c_label_value := "shared"; c_cloud_group := "shared-nodes";
     c_min := 1; c_max := 30; c_lower := 10; c_upper := 40; c_up := 70; c_slow := 2; c_fast := 5;
     c_soft := mkdur "1m" 60000000000; c_hard := mkdur "10m" 600000000000; c_cooldown := mkdur "2m" 120000000000;
     c_max_node_age := mkdur "24h" 86400000000000;
     c_taint_effect := "NoExecute"; c_lifecycle := "on-demand"; c_dry := false; c_starve := false |}.
Definition with_min_max (c : cfg) (mn mx : Z) : cfg :=
  {| c_name := c_name c; c_label_key := c_label_key c; c_label_value := c_label_value c; c_cloud_group := c_cloud_group c;
     c_min := mn; c_max := mx; c_lower := c_lower c; c_upper := c_upper c; c_up := c_up c; c_slow := c_slow c; c_fast := c_fast c;
     c_soft := c_soft c; c_hard := c_hard c; c_cooldown := c_cooldown c; c_max_node_age := c_max_node_age c;
     c_taint_effect := c_taint_effect c; c_lifecycle := c_lifecycle c; c_dry := c_dry c; c_starve := c_starve c |}.
Definition with_rates (c : cfg) (sl fa : Z) : cfg :=
  {| c_name := c_name c; c_label_key := c_label_key c; c_label_value := c_label_value c; c_cloud_group := c_cloud_group c;
     c_min := c_min c; c_max := c_max c; c_lower := c_lower c; c_upper := c_upper c; c_up := c_up c; c_slow := sl; c_fast := fa;
     c_soft := c_soft c; c_hard := c_hard c; c_cooldown := c_cooldown c; c_max_node_age := c_max_node_age c;
     c_taint_effect := c_taint_effect c; c_lifecycle := c_lifecycle c; c_dry := c_dry c; c_starve := c_starve c |}.

Example c16_ex_accepted : gen_validate ex_cfg = true /\ safe ex_cfg.
Proof. split; [vm_compute; reflexivity | apply gen_validate_safe; vm_compute; reflexivity]. Qed.

Example c16_ex_auto_discover : gen_validate (with_min_max ex_cfg 0 0) = true /\ gen_validate (with_min_max ex_cfg 0 (-1)) = false.
Proof. split; vm_compute; reflexivity. Qed.

Example c16_ex_negative_rates_rejected : gen_validate (with_rates ex_cfg (-3) (-2)) = false /\ ~ safe (with_rates ex_cfg (-3) (-2)).
Proof. split; [vm_compute; reflexivity | intro H; apply safe_b_iff in H; vm_compute in H; discriminate]. Qed.
