(* C16 — start-up validation admits only configurations that are safe to run; documented keys are honoured.
   Theorems only, about the hand-written validation model (`model_validate` / `model_rules`, SpecConfig.v) — this file does
   not depend on coq/Generated.v.  The model is tied to controller.ValidateNodeGroup by the correspondence run (verdict and
   number of problems, every case) and, as a SUPPLEMENT, by Properties/C16Src.v: the rule list re-derived from the source
   on every run equals `model_rules`, and the documented keys are json names of the option structs (`c16_keys`, a fact
   only the source can give; the decoder half of the run checks the same against the compiled structs). *)
From Coq Require Import String ZArith List.
From Esc Require Import SpecConfig proofs.ConfigProofs.
Import ListNotations.
Open Scope string_scope.
Open Scope Z_scope.

(* for every configuration (all Z, all strings, every result of time.ParseDuration) *)
Theorem c16_sound : forall c, model_validate c = true -> safe c.
Proof. exact model_validate_safe. Qed.
Print Assumptions c16_sound.

(* accepted = ValidateNodeGroup returned no problem = no rule is false *)
Theorem c16_problems : forall c, model_problems c = 0 <-> model_validate c = true.
Proof. exact model_problems_zero. Qed.
Print Assumptions c16_problems.

(* the boolean checker evaluated on observed verdicts decides the property *)
Theorem c16_safe_b : forall c, safe_b c = true <-> safe c.
Proof. exact safe_b_iff. Qed.
Print Assumptions c16_safe_b.

Theorem c16_checker : forall c accepted, check_C16 c accepted = true <-> P_C16 c accepted.
Proof. exact check_C16_iff. Qed.
Print Assumptions c16_checker.

(* non-vacuity: the documentation's example passes validation (so the hypothesis of c16_sound is satisfiable and `safe`
   is inhabited); the auto-discover form (min = max = 0) passes too; the F5 witness (slow = -3, fast = -2) is rejected *)
Definition mkdur (raw : string) (ns : Z) : dur := {| d_raw := raw; d_parse := Some ns |}.
Definition ex_cfg : cfg :=
  {| c_name := "shared"; c_label_key := "customer"; c_label_value := "shared"; c_cloud_group := "shared-nodes";
     c_min := 1; c_max := 30; c_lower := 10; c_upper := 40; c_up := 70; c_slow := 2; c_fast := 5;
     c_soft := mkdur "1m" 60000000000; c_hard := mkdur "10m" 600000000000; c_cooldown := mkdur "2m" 120000000000;
     c_max_node_age := mkdur "24h" 86400000000000;
     c_taint_effect := "NoExecute"; c_lifecycle := "on-demand"; c_dry := false; c_starve := false |}.
Definition with_min_max (c : cfg) (mn mx : Z) : cfg :=
  {| c_name := c_name c; c_label_key := c_label_key c; c_label_value := c_label_value c; c_cloud_group := c_cloud_group c;
     c_min := mn; c_max := mx; c_lower := c_lower c; c_upper := c_upper c; c_up := c_up c; c_slow := c_slow c; c_fast := c_fast c;
     c_soft := c_soft c; c_hard := c_hard c; c_cooldown := c_cooldown c; c_max_node_age := c_max_node_age c;
     c_taint_effect := c_taint_effect c; c_lifecycle := c_lifecycle c; c_dry := c_dry c; c_starve := c_starve c |}.
Definition with_rates (c : cfg) (sl fa : Z) : cfg :=
  {| c_name := c_name c; c_label_key := c_label_key c; c_label_value := c_label_value c; c_cloud_group := c_cloud_group c;
     c_min := c_min c; c_max := c_max c; c_lower := c_lower c; c_upper := c_upper c; c_up := c_up c; c_slow := sl; c_fast := fa;
     c_soft := c_soft c; c_hard := c_hard c; c_cooldown := c_cooldown c; c_max_node_age := c_max_node_age c;
     c_taint_effect := c_taint_effect c; c_lifecycle := c_lifecycle c; c_dry := c_dry c; c_starve := c_starve c |}.

Example c16_ex_accepted : model_validate ex_cfg = true /\ safe ex_cfg.
Proof. split; [vm_compute; reflexivity | apply model_validate_safe; vm_compute; reflexivity]. Qed.

Example c16_ex_auto_discover : model_validate (with_min_max ex_cfg 0 0) = true /\ model_validate (with_min_max ex_cfg 0 (-1)) = false.
Proof. split; vm_compute; reflexivity. Qed.

Example c16_ex_negative_rates_rejected : model_validate (with_rates ex_cfg (-3) (-2)) = false /\ ~ safe (with_rates ex_cfg (-3) (-2)).
Proof. split; [vm_compute; reflexivity | intro H; apply safe_b_iff in H; vm_compute in H; discriminate]. Qed.
