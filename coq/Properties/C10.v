(* C10 — the no-delete annotation protects a node from removal, not from tainting.  Theorems only. *)
From Esc Require Import Examples proofs.ScanTheorems proofs.ScanTaint proofs.ScanRun proofs.ScanRunTheorems.

(* every removal call is about a node that carries no non-empty annotation, or is force-tainted *)
Theorem c10_protected : forall now gdry api g a nodes pods, asg_named g a ->
  P_C10 (ctx_of now gdry api g a nodes pods) (r_calls (scan_of now gdry api g a nodes pods)).
Proof. intros. apply check_C10_iff. apply group_passes_C10. assumption. Qed.
Print Assumptions c10_protected.

Theorem c10_model_passes_checker : forall now gdry api g a nodes pods, asg_named g a ->
  check_C10_group (ctx_of now gdry api g a nodes pods) (r_calls (scan_of now gdry api g a nodes pods)) = true.
Proof. exact group_passes_C10. Qed.
Print Assumptions c10_model_passes_checker.

Theorem c10_checker_iff : forall x calls, check_C10_group x calls = true <-> P_C10 x calls.
Proof. exact check_C10_iff. Qed.
Print Assumptions c10_checker_iff.

(* protection holds nobody else back: the reaper's candidate list is the unprotected part, in order, of the list it
   would have without any annotation *)
Theorem c10_others_unaffected : forall e o pods tainted,
  reap_candidates e o false pods tainted =
  filter (fun n => negb (safe_from_deletion n))
         (filter (fun n => match taint_time n with
                           | Some ts => (o_soft o <? taint_age e ts) && (node_empty pods n || (o_hard o <? taint_age e ts))
                           | None => false end) tainted).
Proof.
  intros. unfold reap_candidates. induction tainted as [|n l IH]; [reflexivity|].
  simpl. unfold reapable at 1. destruct (safe_from_deletion n) eqn:Es.
  - destruct (taint_time n) as [ts|]; [|exact IH].
    destruct ((o_soft o <? taint_age e ts) && (node_empty pods n || (o_hard o <? taint_age e ts))); [simpl; rewrite Es; exact IH | exact IH].
  - destruct (taint_time n) as [ts|]; [|exact IH].
    destruct ((o_soft o <? taint_age e ts) && (node_empty pods n || (o_hard o <? taint_age e ts))); [simpl; rewrite Es; simpl; f_equal; exact IH | exact IH].
Qed.
Print Assumptions c10_others_unaffected.

(* classification, hence capacity, tainting and untainting, never reads annotations *)
Theorem c10_still_scaled : forall dry st n annots,
  classify_one dry st {| n_name := n_name n; n_created := n_created n; n_unsched := n_unsched n; n_taints := n_taints n;
                         n_annots := annots; n_labels := n_labels n; n_cpu := n_cpu n; n_mem := n_mem n; n_pid := n_pid n; n_rest := n_rest n |}
  = classify_one dry st n.
Proof. reflexivity. Qed.
Print Assumptions c10_still_scaled.

(* non-vacuity: node 205 (tainted beyond soft, empty, annotated) is not removed while 202 and 203 are; with the
   annotation's value empty it is removed as well *)
Example c10_ex : removal_targets (r_calls (ex_scan ex_opts gstate0 4800))
               = [(Some [105; 51], None); (None, Some 203); (Some [105; 50], None); (None, Some 202)].
Proof. vm_compute. reflexivity. Qed.

(* over a whole RunOnce: the checker evaluated by the correspondence holds of every group journal the model produces
   (group names and cloud group names pairwise distinct) *)
Theorem c10_run_once : forall s, wf_groups s -> for_groups check_C10_group s (run_journals s) = true.
Proof. exact run_passes_C10. Qed.
Print Assumptions c10_run_once.

(* "can be ... untainted like any other node": in every scan (distinct node names) that buys capacity, every protected
   tainted node of the view had been looked up for untainting before the cloud request (C07's reuse rule, restricted to the
   annotated nodes) *)
Theorem c10_untainted_like_any_other : forall now gdry api g a nodes pods,
  let x := ctx_of now gdry api g a nodes pods in
  NoDup (map n_name (x_nodes x)) ->
  check_C10_reuse x (r_calls (scan_of now gdry api g a nodes pods)) = true.
Proof. exact group_passes_C10_reuse. Qed.
Print Assumptions c10_untainted_like_any_other.
