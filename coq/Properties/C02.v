(* C02 — no scaling activity while a cloud scale-up is inside its cool-down.  Theorems only. *)
From Esc Require Import Examples proofs.ScanState.

(* one scan, any pre-scan state: inside the cool-down no write of any kind is issued and the lock is left exactly
   as found; the lock's time changes only by being set to the instant of a scan in which an increase was accepted
   (or, in dry mode, decided); an accepted SetDesiredCapacity always arms the lock at the scan's instant *)
Theorem c02_scan : forall now gdry api g a nodes pods,
  let x := ctx_of now gdry api g a nodes pods in
  let r := scan_of now gdry api g a nodes pods in
  check_C02_group x (r_calls r) (r_state r) = true.
Proof. exact group_passes_C02. Qed.
Print Assumptions c02_scan.

(* the time-based release: at any instant at least cool-down after the lock time the lock reads unlocked,
   whatever its flag says — the lock cannot outlive its cool-down *)
Theorem c02_expires : forall l now cool t, l_time l = Some t -> cool <= sat64 (now - t) -> fst (lock_check l now cool) = false.
Proof.
  intros l now cool t Ht H. rewrite lock_check_fst. unfold lock_since. rewrite Ht. apply Z.ltb_ge. exact H.
Qed.
Print Assumptions c02_expires.

(* and strictly inside the cool-down it reads locked *)
Theorem c02_holds : forall l now cool t, l_time l = Some t -> sat64 (now - t) < cool -> fst (lock_check l now cool) = true.
Proof.
  intros l now cool t Ht H. rewrite lock_check_fst. unfold lock_since. rewrite Ht. apply Z.ltb_lt. exact H.
Qed.
Print Assumptions c02_holds.

(* non-vacuity: the sample world 100 s after an accepted increase, driven below its minimum (min_nodes = 5, two
   untainted nodes) with force-tainted and grace-expired nodes present: no call at all; 700 s after: it acts *)
Definition ex_opts_min5 : opts :=
  {| o_name := 100; o_lkey := 101; o_lval := 102; o_asg := 103; o_min := 5; o_max := 10; o_dry := false; o_starve := false;
     o_lower := 30; o_upper := 45; o_up := 70; o_slow := 1; o_fast := 2;
     o_soft := ns 300; o_hard := ns 900; o_cool := ns 600; o_maxage := 0; o_effect := id_empty |}.
Definition ex_locked (age_s : Z) : gstate :=
  {| g_lock := {| l_locked := true; l_time := Some (ex_now - ns age_s); l_requested := 2 |}; g_delta := 2; g_last_out := None;
     g_cache := (qty0, qty0); g_taint_tracker := []; g_force_tracker := [] |}.
Example c02_ex : r_calls (ex_scan ex_opts_min5 (ex_locked 100) 4800) = [] /\ r_calls (ex_scan ex_opts_min5 (ex_locked 700) 4800) <> [].
Proof. split; vm_compute; [reflexivity | discriminate]. Qed.
