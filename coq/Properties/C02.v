(* C02 — no scaling activity while a cloud scale-up is inside its cool-down.  Theorems only. *)
From Esc Require Import Examples proofs.ScanState proofs.ScanHistory proofs.ScanPrelude.

(* one scan, any pre-scan state: inside the cool-down no write of any kind is issued and the lock is left exactly
   as found; the lock's time changes only by being set to the instant of a scan in which an increase was accepted
   (or, in dry mode, decided); an accepted SetDesiredCapacity always arms the lock at the scan's instant *)
Theorem c02_scan : forall now gdry api g a nodes pods,
  let x := ctx_of now gdry api g a nodes pods in
  let r := scan_of now gdry api g a nodes pods in
  check_C02_group x (r_calls r) (r_state r) = true.
Proof. exact group_passes_C02. Qed.
Print Assumptions c02_scan.

(* the time-based release: at any instant at least cool-down after the lock time the lock reads unlocked,
   whatever its flag says — the lock cannot outlive its cool-down *)
Theorem c02_expires : forall l now cool t, l_time l = Some t -> cool <= sat64 (now - t) -> fst (lock_check l now cool) = false.
Proof.
  intros l now cool t Ht H. rewrite lock_check_fst. unfold lock_since. rewrite Ht. apply Z.ltb_ge. exact H.
Qed.
Print Assumptions c02_expires.

(* and strictly inside the cool-down it reads locked *)
Theorem c02_holds : forall l now cool t, l_time l = Some t -> sat64 (now - t) < cool -> fst (lock_check l now cool) = true.
Proof.
  intros l now cool t Ht H. rewrite lock_check_fst. unfold lock_since. rewrite Ht. apply Z.ltb_lt. exact H.
Qed.
Print Assumptions c02_holds.

(* histories (proofs/ScanHistory.v: the controller's memory is threaded from scan to scan within one lifetime, every
   other input of every scan is arbitrary): after a scan whose increase the cloud completed (SetDesiredCapacity accepted,
   or — fleet mode — CreateFleet accepted and every AttachInstances call accepted: increase_done), every later scan whose
   instant is less than the cool-down after it issues no write of any kind *)
Theorem c02_histories : forall o st pre i mid,
  0 <= o_cool o <= max_int64 ->
  let st_i := state_after o st pre in
  increase_done (r_calls (scan_at o st_i i)) = true ->
  (forall j, In j mid -> 0 <= si_now j - si_now i < o_cool o) ->
  forall q, In q (run_hist o (next_state (scan_at o st_i i)) mid) -> writes (r_calls (snd q)) = [].
Proof. exact c02_history. Qed.
Print Assumptions c02_histories.

(* and the group is acted on again: the first scan at or after lock time + cool-down finds it unlocked *)
Theorem c02_release : forall o st i t, l_time (g_lock st) = Some t -> o_cool o <= sat64 (si_now i - t) ->
  in_cooldown (ctx_at o st i) = false.
Proof. exact c02_history_release. Qed.
Print Assumptions c02_release.

(* non-vacuity: the sample world 100 s after an accepted increase, driven below its minimum (min_nodes = 5, two
   untainted nodes) with force-tainted and grace-expired nodes present: no call at all; 700 s after: it acts *)
Definition ex_opts_min5 : opts :=
  {| o_name := 100; o_lkey := 101; o_lval := 102; o_asg := 103; o_min := 5; o_max := 10; o_dry := false; o_starve := false;
     o_lower := 30; o_upper := 45; o_up := 70; o_slow := 1; o_fast := 2;
     o_soft := ns 300; o_hard := ns 900; o_cool := ns 600; o_maxage := 0; o_effect := id_empty |}.
Definition ex_locked (age_s : Z) : gstate :=
  {| g_lock := {| l_locked := true; l_time := Some (ex_now - ns age_s); l_requested := 2 |}; g_delta := 2; g_last_out := None;
     g_cache := (qty0, qty0); g_taint_tracker := []; g_force_tracker := [] |}.
Example c02_ex : r_calls (ex_scan ex_opts_min5 (ex_locked 100) 4800) = [] /\ r_calls (ex_scan ex_opts_min5 (ex_locked 700) 4800) <> [].
Proof. split; vm_compute; [reflexivity | discriminate]. Qed.

(* a provider rebuild in RunOnce's prelude (after a failed refresh) leaves the controller's per-group memory — the
   scale lock with its time — untouched: the groups scanned afterwards carry the state they had, so the theorems above
   apply across a rebuild; only the cloud groups' clean-up counters are reset *)
Theorem c02_rebuild_keeps_lock : forall ds s, s_groups (after_prelude ds s) = s_groups s.
Proof. exact after_prelude_groups. Qed.
Print Assumptions c02_rebuild_keeps_lock.
