(* C12 — node groups are isolated from each other.  Theorems only. *)
From Esc Require Import Examples proofs.ScanTheorems proofs.ScanRun proofs.ScanRunTheorems proofs.ScanIsolation.

(* every call made while processing a group names a node carrying the group's label, the group's own cloud group,
   an instance of that cloud group, or its launch template *)
Theorem c12_targets : forall now gdry api g a nodes pods, asg_named g a ->
  check_C12_group (ctx_of now gdry api g a nodes pods) (r_calls (scan_of now gdry api g a nodes pods)) = true.
Proof. exact group_passes_C12. Qed.
Print Assumptions c12_targets.

(* a group's scan reads the listed nodes and pods only through its own filters: worlds that agree on the group's
   nodes and pods give the same result, whatever else differs *)
Theorem c12_noninterference : forall e o mn mx st a nodes pods nodes' pods',
  group_nodes o nodes = group_nodes o nodes' -> group_pods o pods = group_pods o pods' ->
  scan_group e o mn mx st a nodes pods = scan_group e o mn mx st a nodes' pods'.
Proof. intros e o mn mx st a nodes pods nodes' pods' Hn Hp. unfold scan_group. rewrite Hn, Hp. reflexivity. Qed.
Print Assumptions c12_noninterference.

(* the node filter keeps exactly the nodes labelled for the group *)
Theorem c12_group_nodes : forall o nodes n, In n (group_nodes o nodes) <-> In n nodes /\ node_in_group (o_lkey o) (o_lval o) n = true.
Proof. intros. unfold group_nodes. apply filter_In. Qed.
Print Assumptions c12_group_nodes.

(* containment: a group whose scan does not end fatally never stops the groups after it *)
Theorem c12_containment : forall s g rest cloud a,
  find_asg cloud (o_asg (gi_opts g)) = Some a ->
  let mm := effective_min_max (gi_opts g) a in
  let e := {| e_now := s_now s; e_dry := s_dry s; e_api := s_api s; e_korc := gi_korc g; e_aorc := gi_aorc g;
              e_descinst_fail := gi_descinst_fail g |} in
  let r := scan_group e (gi_opts g) (fst mm) (snd mm) (gi_state g) (Some a) (s_nodes s) (s_pods s) in
  r_out r <> OutFatal -> r_out r <> OutExit ->
  exists r' cloud', run_groups s (g :: rest) cloud =
                    ((o_name (gi_opts g), r') :: fst (run_groups s rest cloud'), snd (run_groups s rest cloud')).
Proof.
  intros s g rest cloud a Ha mm e r Hf He. simpl. rewrite Ha. fold mm. destruct mm as [mn mx] eqn:Em. simpl fst in *; simpl snd in *.
  fold e. fold r. destruct (r_out r) eqn:Eo; try congruence;
    destruct (run_groups s rest (match r_asg r with Some a' => replace_asg cloud a' | None => cloud end)) as [rs out] eqn:Er;
    eexists; eexists; rewrite Er; reflexivity.
Qed.
Print Assumptions c12_containment.

(* over a whole RunOnce: the checker evaluated by the correspondence holds of every group journal the model produces
   (group names and cloud group names pairwise distinct) *)
Theorem c12_run_once : forall s, wf_groups s -> for_groups check_C12_group s (run_journals s) = true.
Proof. exact run_passes_C12. Qed.
Print Assumptions c12_run_once.

(* a group's scan reads the API server only through the copies of its own nodes *)
Theorem c12_api_isolation : forall e api' o mn mx st a all_nodes all_pods,
  api_agree (e_api e) api' (group_nodes o all_nodes) ->
  scan_group e o mn mx st a all_nodes all_pods = scan_group (env_with_api e api') o mn mx st a all_nodes all_pods.
Proof. exact scan_group_api. Qed.
Print Assumptions c12_api_isolation.

(* two worlds, one RunOnce each: whatever differs outside what group g can see (other groups' nodes, pods, API copies,
   cloud groups, and the other groups' own configuration, memory and oracles), if g is reached in both runs its journal, the memory it leaves and its outcome are the same *)
Theorem c12_run_once_isolated : forall s s' g,
  s_now s = s_now s' -> s_dry s = s_dry s' -> wf_groups s -> wf_groups s' -> In g (s_groups s) -> In g (s_groups s') ->
  group_nodes (gi_opts g) (s_nodes s) = group_nodes (gi_opts g) (s_nodes s') ->
  group_pods (gi_opts g) (s_pods s) = group_pods (gi_opts g) (s_pods s') ->
  api_agree (s_api s) (s_api s') (group_nodes (gi_opts g) (s_nodes s)) ->
  find_asg (s_cloud s) (o_asg (gi_opts g)) = find_asg (s_cloud s') (o_asg (gi_opts g)) ->
  forall r r', In (o_name (gi_opts g), r) (fst (run_once s)) -> In (o_name (gi_opts g), r') (fst (run_once s')) ->
  r_calls r = r_calls r' /\ r_state r = r_state r' /\ r_out r = r_out r'.
Proof. exact run_once_isolated. Qed.
Print Assumptions c12_run_once_isolated.
