(* C08 — scale-down taints the oldest nodes first.  Theorems only. *)
From Esc Require Import Examples proofs.ScanTaint proofs.BaseProofs proofs.ScanRun proofs.ScanRunTheorems.
From Coq Require Import Permutation Sorted.

(* for every scan outside dry mode (node names of the view distinct), every list order, creation times with ties,
   zero values or reversed, every count and every failing get / update: if y received the taint and z of the
   untainted class did not and z was created strictly before y, then z's write was attempted and failed, or the API
   server's copy of z already carried the taint (nothing to write) *)
Theorem c08_oldest_first : forall now gdry api g a nodes pods,
  let x := ctx_of now gdry api g a nodes pods in
  NoDup (map n_name (x_nodes x)) ->
  check_C08_group x (r_calls (scan_of now gdry api g a nodes pods)) = true.
Proof. exact group_passes_C08. Qed.
Print Assumptions c08_oldest_first.

(* the order the loop visits: a sorted permutation of the untainted list *)
Theorem c08_sort_perm : forall l, Permutation (sort_oldest l) l.
Proof. intros l. unfold sort_oldest. apply isort_perm. Qed.
Print Assumptions c08_sort_perm.
Theorem c08_sort_sorted : forall l, StronglySorted (fun a b => n_created a <= n_created b) (sort_oldest l).
Proof.
  intros l. unfold sort_oldest.
  assert (H : StronglySorted (leP (fun a b : node => n_created a <=? n_created b)) (isort (fun a b : node => n_created a <=? n_created b) l)).
  { apply isort_sorted.
    - intros a b. destruct (Z.leb_spec (n_created a) (n_created b)); [left; reflexivity | right; apply Z.leb_le; lia].
    - intros a b c H1 H2. apply Z.leb_le in H1, H2. apply Z.leb_le. lia. }
  induction H as [|h t Hs IH Hall]; constructor; [exact IH|]. eapply Forall_impl; [|exact Hall]. intros y Hy. unfold leP in Hy. apply Z.leb_le. exact Hy.
Qed.
Print Assumptions c08_sort_sorted.

(* the loop visits a prefix of that order and stops after n successes *)
Theorem c08_prefix : forall api o l n count, exists k, map fst (tl_run api o l n count) = firstn k l.
Proof. exact tl_run_prefix. Qed.
Print Assumptions c08_prefix.

(* non-vacuity: of the two untainted sample nodes the older one (207) is tainted, whatever the list order *)
Example c08_ex : taint_ok_targets (ex_ctx ex_opts gstate0 1000) (r_calls (ex_scan ex_opts gstate0 1000)) = [207]
  /\ map n_name (sort_oldest (c_untainted (x_cls (ex_ctx ex_opts gstate0 1000)))) = [207; 201].
Proof. vm_compute. split; reflexivity. Qed.

(* over a whole RunOnce: the checker evaluated by the correspondence holds of every group journal the model produces
   (group names and cloud group names pairwise distinct) *)
Theorem c08_run_once : forall s, wf_groups s -> wf_snapshot s = true -> for_groups check_C08_group s (run_journals s) = true.
Proof. exact run_passes_C08. Qed.
Print Assumptions c08_run_once.
