(* ConstsLifecycle — SUPPLEMENTARY source tie (C17): the strings behind the reserved ids of the two lifecycles are
   aws.LifecycleOnDemand / aws.LifecycleSpot, re-read from the source on every run (coq/Generated.v); the fleet type the
   model names is "instant".  No property's theorems depend on this file; a lost tie is recorded (NOTE + widened search),
   it is not by itself a violation. *)
From Coq Require Import String ZArith List.
From Esc Require Import Base Generated Names Aws.
Open Scope string_scope.

Theorem const_lifecycle_on_demand : name_of_id id_on_demand = Some gen_lifecycle_on_demand.
Proof. reflexivity. Qed.
Theorem const_lifecycle_spot : name_of_id id_spot = Some gen_lifecycle_spot.
Proof. reflexivity. Qed.
Theorem const_instant : name_of_id Aws.id_instant = Some "instant".
Proof. reflexivity. Qed.
