(* ConstsNoDelete — SUPPLEMENTARY source tie (C10): the string behind the reserved id of the no-delete annotation key is
   pkg/controller.NodeEscalatorIgnoreAnnotation, re-read from the source on every run (coq/Generated.v).  No property's
   theorems depend on this file; a lost tie is recorded (NOTE + widened search), it is not by itself a violation. *)
From Coq Require Import String ZArith List.
From Esc Require Import Base Generated Names.
Open Scope string_scope.

Theorem const_nodelete_key : name_of_id id_nodelete = Some gen_nodelete_key.
Proof. reflexivity. Qed.
