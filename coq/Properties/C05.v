(* C05 — the scale-up size is sufficient and at most one above the minimum.  Theorems only. *)
From Coq Require Import ZArith.
From Esc Require Import SpecCalc proofs.CalcProofs.
Open Scope Z_scope.

(* exact twin: with x = n (100 r / (n c) - t) / t = (100 r - t n c) / (t c), n + ceil x is exactly the least m with
   100 r <= t m c — for all positive node sizes c, thresholds t and every n, r *)
Theorem c05_exact : forall r c t n, 0 < c -> 0 < t ->
  n + exact_delta r c t n = nodes_needed_exact r c t /\
  (forall m, holds_at r c t m <-> nodes_needed_exact r c t <= m).
Proof. intros r c t n Hc Ht; split; [exact (exact_delta_spec r c t n Hc Ht)|intro m; exact (nodes_needed_least r c t m Hc Ht)]. Qed.
Print Assumptions c05_exact.

(* above the threshold the exact delta is at least one node *)
Theorem c05_exact_positive : forall r c t n, 0 < c -> 0 < t -> 0 < n -> exceeds r (n * c) t = true -> 0 < exact_delta r c t n.
Proof. exact exact_delta_positive. Qed.
Print Assumptions c05_exact_positive.

(* from zero, exact twin: ceil (r / c / t * 100) is the least sufficient count of cached-size nodes *)
Theorem c05_zero_exact : forall r c t, 0 < c -> 0 < t -> exact_delta r c t 0 = nodes_needed_exact r c t.
Proof. intros r c t Hc Ht; exact (exact_delta_spec r c t 0 Hc Ht). Qed.
Print Assumptions c05_zero_exact.

(* from zero without a cached node size: exactly one node *)
Theorem c05_zero_uncached : forall n cpuPct memPct cpuReq memReq thr ccpu cmem,
  feq cpuPct f_max = true \/ feq memPct f_max = true -> q_num ccpu = 0 \/ q_num cmem = 0 ->
  calc_delta n cpuPct memPct cpuReq memReq thr ccpu cmem = DeltaOk 1.
Proof. exact delta_zero_uncached. Qed.
Print Assumptions c05_zero_uncached.

(* the full statement ("sufficient" at every magnitude) is FALSE of the code: K1.  On the bit-exact model the witness gets
   delta 2282 (2139 + 2282 = 4421 nodes) while 4422 nodes are needed; it lies outside the proved region *)
Theorem c05_refuted : exists a : arith_in,
  c05_normal a = true /\
  exists cp mp, arith_percent a = PctOk cp mp /\ arith_delta a cp mp = DeltaOk 2282
  /\ c05_m_min a = 4422 /\ a_n a + 2282 < c05_m_min a
  /\ ~ holds_at (a_mem_req a) (a_mem_cap a / a_n a) (a_thr a) (a_n a + 2282)
  /\ c05_region a = false.
Proof. exists k1_witness. exact k1_model_short. Qed.
Print Assumptions c05_refuted.

(* the boolean checker evaluated on observed deltas decides the property *)
Theorem c05_checker_sound : forall a d, c05_normal a = true -> check_delta a (Some (d, false)) = true -> P_C05_normal a d.
Proof. exact check_delta_normal_sound. Qed.
Print Assumptions c05_checker_sound.

Theorem c05_checker_complete : forall a d, c05_normal a = true -> P_C05_normal a d -> check_delta a (Some (d, false)) = true.
Proof. exact check_delta_normal_complete. Qed.
Print Assumptions c05_checker_complete.

(* non-vacuity: 10 nodes of 4000 m at threshold 70 with 35 000 m requested need 13 nodes; exact delta 3 *)
Example c05_ex_exact : exceeds 35000 (10 * 4000) 70 = true /\ exact_delta 35000 4000 70 10 = 3 /\ nodes_needed_exact 35000 4000 70 = 13.
Proof. repeat split. Qed.
