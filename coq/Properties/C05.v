(* C05 — the scale-up size is sufficient and at most one above the minimum.  Theorems only. *)
From Coq Require Import ZArith Reals.
From Flocq Require Import Core BinarySingleNaN.
From Esc Require Import SpecCalc proofs.CalcProofs proofs.FloatProofs.
Open Scope Z_scope.

(* exact twin: with x = n (100 r / (n c) - t) / t = (100 r - t n c) / (t c), n + ceil x is exactly the least m with
   100 r <= t m c — for all positive node sizes c, thresholds t and every n, r *)
Theorem c05_exact : forall r c t n, 0 < c -> 0 < t ->
  n + exact_delta r c t n = nodes_needed_exact r c t /\
  (forall m, holds_at r c t m <-> nodes_needed_exact r c t <= m).
Proof. intros r c t n Hc Ht; split; [exact (exact_delta_spec r c t n Hc Ht)|intro m; exact (nodes_needed_least r c t m Hc Ht)]. Qed.
Print Assumptions c05_exact.

(* above the threshold the exact delta is at least one node *)
Theorem c05_exact_positive : forall r c t n, 0 < c -> 0 < t -> 0 < n -> exceeds r (n * c) t = true -> 0 < exact_delta r c t n.
Proof. exact exact_delta_positive. Qed.
Print Assumptions c05_exact_positive.

(* from zero, exact twin: ceil (r / c / t * 100) is the least sufficient count of cached-size nodes *)
Theorem c05_zero_exact : forall r c t, 0 < c -> 0 < t -> exact_delta r c t 0 = nodes_needed_exact r c t.
Proof. intros r c t Hc Ht; exact (exact_delta_spec r c t 0 Hc Ht). Qed.
Print Assumptions c05_zero_exact.

(* from zero without a cached node size: exactly one node *)
Theorem c05_zero_uncached : forall n cpuPct memPct cpuReq memReq thr ccpu cmem,
  feq cpuPct f_max = true \/ feq memPct f_max = true -> q_num ccpu = 0 \/ q_num cmem = 0 ->
  calc_delta n cpuPct memPct cpuReq memReq thr ccpu cmem = DeltaOk 1.
Proof. exact delta_zero_uncached. Qed.
Print Assumptions c05_zero_uncached.

(* the exact real x of the code's formula has exactly that ceiling: x = n (100 r / (n c) - t) / t *)
Theorem c05_exact_real : forall r c t n, 0 < c -> 0 < t -> 0 < n -> Zceil (xr r (n * c) t n) = exact_delta r c t n.
Proof. exact Zceil_xr. Qed.
Print Assumptions c05_exact_real.

(* float analysis.  xt n t p is the code's n * ((p - t) / t) in binary64; pct r C the computed percentage.
   For 1 <= r, C < 2^63 and 1 <= t, n <= 2^31 nothing overflows or underflows (every intermediate is finite) and the value
   before the ceiling is within 8 * 2^-53 * (|x| + n) of the exact x — i.e. 8 * 2^-53 * (x + n) above the threshold *)
Theorem c05_error_bound : forall r C t n, 1 <= r < 2 ^ 63 -> 1 <= C < 2 ^ 63 -> 1 <= t <= 2 ^ 31 -> 1 <= n <= 2 ^ 31 ->
  is_finite (pct r C) = true /\ is_finite (xt n t (pct r C)) = true
  /\ (Rabs (B2R (xt n t (pct r C)) - xr r C t n) <= 8 * u * (Rabs (xr r C t n) + IZR n))%R
  /\ ((0 <= xr r C t n)%R -> (Rabs (B2R (xt n t (pct r C)) - xr r C t n) <= 8 * u * (xr r C t n + IZR n))%R).
Proof. exact delta_error_bound. Qed.
Print Assumptions c05_error_bound.

(* one resource: above the threshold, with requests r = G r' and node size c = G c' sharing a granularity G such that
   800 r' < 2^53, the computed ceiling is not below the exact one *)
Theorem c05_sufficient_one_resource : forall r c t n G r' c',
  1 <= r < 2 ^ 63 -> 0 < c -> 1 <= n * c < 2 ^ 63 -> 1 <= t <= 2 ^ 31 -> 1 <= n <= 2 ^ 31 ->
  0 < G -> r = G * r' -> c = G * c' -> 800 * r' < 2 ^ 53 -> exceeds r (n * c) t = true ->
  nodes_needed_exact r c t <= n + dz r (n * c) t n.
Proof.
  intros r c t n G r' c' Hr Hc HC Ht Hn HG Er Ec H8 Hx.
  rewrite <- (exact_delta_spec r c t n) by lia.
  apply Zplus_le_compat_l. exact (res_sufficient r c t n G r' c' Hr Hc HC Ht Hn HG Er Ec H8 Hx).
Qed.
Print Assumptions c05_sufficient_one_resource.

(* c05_sufficient_partial — the model exactly as scaleNodeGroup calls it (both resources, memory as milli-bytes, math.Max, int()):
   for equal-size nodes above the threshold inside the granularity region c05_region (requests and node size of each resource share
   a granularity G — the greatest common divisor is taken — with 800 * (r / G) < 2^53; int64-range inputs; t, n <= 2^31)
   calcPercentUsage succeeds, calcScaleUpDelta returns DeltaOk d without error, n + d nodes are sufficient, and n + d is at most
   one above the minimum *)
Theorem c05_sufficient_partial : forall a, c05_normal a = true -> c05_region a = true ->
  exists cp mp d, arith_percent a = PctOk cp mp /\ arith_delta a cp mp = DeltaOk d
    /\ c05_m_min a <= a_n a + d <= c05_m_min a + 1.
Proof. exact model_sufficient. Qed.
Print Assumptions c05_sufficient_partial.

(* c05_at_most_one_more — without any granularity assumption: whenever 8 * (minimum) < 2^53 the answer is never more than one
   node above the minimum, and never negative *)
Theorem c05_at_most_one_more : forall a, c05_normal a = true -> c05_ranges a = true -> upper_region (c05_m_min a) = true ->
  exists cp mp d, arith_percent a = PctOk cp mp /\ arith_delta a cp mp = DeltaOk d
    /\ 0 <= d /\ a_n a + d <= c05_m_min a + 1.
Proof. exact model_at_most_one_more. Qed.
Print Assumptions c05_at_most_one_more.

(* hence the observed-value checker cannot fail on the model inside the region (a V failure there with R = [] is impossible) *)
Theorem c05_checker_accepts_model : forall a, c05_normal a = true -> c05_region a = true ->
  exists cp mp d, arith_percent a = PctOk cp mp /\ arith_delta a cp mp = DeltaOk d /\ check_delta a (Some (d, false)) = true.
Proof. exact model_passes_checker. Qed.
Print Assumptions c05_checker_accepts_model.

(* from zero with a cached node size: ceil (r / c / t * 100) per resource — percentages are the MaxFloat64 sentinel, the delta is
   DeltaOk d with 0 <= d <= minimum + 1 whenever 8 * minimum < 2^53, and d >= minimum inside the granularity region *)
Theorem c05_zero_cached : forall a,
  c05_from_zero a = true -> c05_zero_ranges a = true -> 8 * c05_m_zero a < 9007199254740992 ->
  arith_percent a = PctOk f_max f_max
  /\ arith_delta a f_max f_max = DeltaOk (zero_d a)
  /\ 0 <= zero_d a <= c05_m_zero a + 1
  /\ (res_region (a_cpu_req a) (a_ccpu a) = true -> res_region (1000 * a_mem_req a) (1000 * a_cmem a) = true ->
      c05_m_zero a <= zero_d a).
Proof. exact model_from_zero. Qed.
Print Assumptions c05_zero_cached.

(* … so inside the region (c05_region, from-zero branch) the answer is sufficient and at most one above the minimum *)
Theorem c05_zero_cached_region : forall a, c05_from_zero a = true -> c05_cached a = true -> c05_region a = true ->
  arith_percent a = PctOk f_max f_max /\ arith_delta a f_max f_max = DeltaOk (zero_d a)
  /\ c05_m_zero a <= zero_d a <= c05_m_zero a + 1.
Proof. exact model_from_zero_region. Qed.
Print Assumptions c05_zero_cached_region.

(* the full statement ("sufficient" at every magnitude) is FALSE of the code: K1.  On the bit-exact model the witness gets
   delta 2282 (2139 + 2282 = 4421 nodes) while 4422 nodes are needed; it lies outside the proved region *)
Theorem c05_refuted : exists a : arith_in,
  c05_normal a = true /\
  exists cp mp, arith_percent a = PctOk cp mp /\ arith_delta a cp mp = DeltaOk 2282
  /\ c05_m_min a = 4422 /\ a_n a + 2282 < c05_m_min a
  /\ ~ holds_at (a_mem_req a) (a_mem_cap a / a_n a) (a_thr a) (a_n a + 2282)
  /\ c05_region a = false.
Proof. exists k1_witness. exact k1_model_short. Qed.
Print Assumptions c05_refuted.

(* the boolean checker evaluated on observed deltas decides the property *)
Theorem c05_checker_sound : forall a d, c05_normal a = true -> check_delta a (Some (d, false)) = true -> P_C05_normal a d.
Proof. exact check_delta_normal_sound. Qed.
Print Assumptions c05_checker_sound.

Theorem c05_checker_complete : forall a d, c05_normal a = true -> P_C05_normal a d -> check_delta a (Some (d, false)) = true.
Proof. exact check_delta_normal_complete. Qed.
Print Assumptions c05_checker_complete.

(* non-vacuity: 10 nodes of 4000 m at threshold 70 with 35 000 m requested need 13 nodes; exact delta 3 *)
Example c05_ex_exact : exceeds 35000 (10 * 4000) 70 = true /\ exact_delta 35000 4000 70 10 = 3 /\ nodes_needed_exact 35000 4000 70 = 13.
Proof. repeat split. Qed.

(* non-vacuity of the region hypotheses: 100 nodes of 16000 m / 64 GiB at threshold 70, 1 500 000 m and 5 TiB requested
   (10 m and GiB granular) lie inside the region, the model answers 34 more nodes and 134 is the minimum *)
Definition ex_region : arith_in :=
  {| a_cpu_req := 1500000; a_mem_req := 5 * 1099511627776; a_cpu_cap := 100 * 16000; a_mem_cap := 100 * 68719476736;
     a_n := 100; a_thr := 70; a_ccpu := 16000; a_cmem := 68719476736 |}.
Example c05_ex_region : c05_normal ex_region = true /\ c05_region ex_region = true /\ c05_ranges ex_region = true
  /\ upper_region (c05_m_min ex_region) = true /\ c05_m_min ex_region = 134 /\ run_delta ex_region = Some 34.
Proof. repeat split; vm_compute; reflexivity. Qed.

(* from zero: 4 cached-size nodes are needed and asked for *)
Definition ex_zero : arith_in :=
  {| a_cpu_req := 9000; a_mem_req := 1073741824; a_cpu_cap := 0; a_mem_cap := 0; a_n := 0; a_thr := 70; a_ccpu := 4000; a_cmem := 17179869184 |}.
Example c05_ex_zero : c05_from_zero ex_zero = true /\ c05_zero_ranges ex_zero = true /\ c05_m_zero ex_zero = 4 /\ run_delta ex_zero = Some 4.
Proof. repeat split; vm_compute; reflexivity. Qed.
