(* C03Src.v — the structural tie of C03 to the Go source: the decision functions this property rests on, re-derived from
   /repo's source on every run (coq/GeneratedCtl.v, harness gen --out-ctl), are the hand-written model's.  Theorems only.
   This file is SUPPLEMENTARY to the correspondence run: when it stops compiling (the source changed shape or meaning), bin/check
   widens the search for a failing input; the theorems of Properties/C03.v are about the model and are unaffected. *)
From Esc Require Import Examples proofs.ScanTaint proofs.ScanRun proofs.ScanRunTheorems.

(* ---------- the tie to the source: GeneratedCtl.v is re-derived from the Go source on every run (harness gen --out-ctl);
   the decisions this property rests on, as the code states them today, are the model's ---------- *)
From Esc Require Import GeneratedCtl proofs.GenCtlAgree proofs.GenCtlAgree_Down proofs.GenCtlAgree_MinMax.

(* scale_down.go scaleDownTaint: the model's scale_down_taint taints what the code's clamp says, refuses where it refuses *)
Theorem c03_src_clamp : forall e o mn dry st untainted want, 0 <= want ->
  scale_down_taint e o mn dry st untainted want =
  match gen_scaleDownTaint mn untainted want with
  | GCall _ [GL l; GI n] =>
      let '(calls, _, tr) := taint_loop e o dry (sort_oldest l) n 0 (g_taint_tracker st) in (liftK calls, false, with_tracker st tr)
  | _ => ([], true, st)
  end.
Proof. exact gen_scale_down_taint. Qed.
Print Assumptions c03_src_clamp.

(* controller.go RunOnce: the min_nodes a scan runs with is effective_min_max *)
Theorem c03_src_min_max : forall o g,
  (exists mn mx c, gen_RunOnce_minmax o true g = GCall c [GI mn; GI mx] /\ effective_min_max o g = (mn, mx))
  /\ gen_RunOnce_minmax o false g = GRet [GE true].
Proof. exact gen_RunOnce_minmax_agree. Qed.
Print Assumptions c03_src_min_max.
