(* C04 — the cloud target size never exceeds min(max_nodes, cloud group maximum).  Theorems only. *)
From Esc Require Import Examples proofs.ScanState proofs.ScanRun proofs.ScanRunTheorems proofs.ScanExact.

(* every SetDesiredCapacity value v of a scan satisfies desired < v <= min(max_nodes, cloud max), and every fleet
   request d satisfies 0 < d and desired + d <= that bound, where desired is the provider's cached desired size as
   it stands at the call (it follows the scan's own accepted terminations); without a cloud group no request is made *)
Theorem c04_bound : forall now gdry api g a nodes pods,
  check_C04_group (ctx_of now gdry api g a nodes pods) (r_calls (scan_of now gdry api g a nodes pods)) = true.
Proof. exact group_passes_C04. Qed.
Print Assumptions c04_bound.

(* the clamp lands exactly on the bound when the wish exceeds it, and leaves the wish alone otherwise *)
Theorem c04_exact_clamp : forall want target m, m < target + want -> target + nodes_to_add want target m = m.
Proof. intros want target m H. unfold nodes_to_add. apply Z.ltb_lt in H. rewrite H. lia. Qed.
Print Assumptions c04_exact_clamp.
Theorem c04_no_clamp : forall want target m, target + want <= m -> nodes_to_add want target m = want.
Proof. intros want target m H. unfold nodes_to_add. replace (m <? target + want) with false by (symmetry; apply Z.ltb_ge; lia). reflexivity. Qed.
Print Assumptions c04_no_clamp.

(* no headroom: no AWS call *)
Theorem c04_no_headroom : forall e o mx st g tainted want,
  Z.min mx (a_max g) <= a_desired g ->
  forall c, In c (up_calls (scale_up e o mx false st (Some g) tainted want)) -> exists k, c = CK k.
Proof.
  intros e o mx st g tainted want Hm c. unfold scale_up.
  destruct (match tainted with [] => _ | _ => _ end) as [[ucalls ucount] tr].
  assert (HK : In c (liftK ucalls) -> exists k, c = CK k).
  { unfold liftK. intros H. apply in_map_iff in H. destruct H as [k [<- _]]. eauto. }
  destruct (0 <? want - ucount) eqn:E; [|exact HK]. apply Z.ltb_lt in E.
  replace (nodes_to_add (want - ucount) (a_desired g) (Z.min mx (a_max g)) <=? 0) with true; [exact HK|].
  symmetry. apply Z.leb_le. unfold nodes_to_add. destruct (Z.min mx (a_max g) <? a_desired g + (want - ucount)) eqn:E2; [lia|]. apply Z.ltb_ge in E2. lia.
Qed.
Print Assumptions c04_no_headroom.

(* non-vacuity: max_nodes = 8 below the cloud maximum 12, seven instances desired, 300 % utilisation: the request
   lands exactly on 8 *)
Definition ex_opts_max8 : opts :=
  {| o_name := 100; o_lkey := 101; o_lval := 102; o_asg := 103; o_min := 1; o_max := 8; o_dry := false; o_starve := false;
     o_lower := 30; o_upper := 45; o_up := 70; o_slow := 1; o_fast := 2;
     o_soft := ns 300; o_hard := ns 900; o_cool := ns 600; o_maxage := 0; o_effect := id_empty |}.
Example c04_ex : filter is_cloud_increase (r_calls (ex_scan ex_opts_max8 gstate0 24000)) = [CA (ASetDesired 103 8 false true)].
Proof. vm_compute. reflexivity. Qed.

(* over a whole RunOnce: the checker evaluated by the correspondence holds of every group journal the model produces
   (group names and cloud group names pairwise distinct) *)
Theorem c04_run_once : forall s, wf_groups s -> for_groups check_C04_group s (run_journals s) = true.
Proof. exact run_passes_C04. Qed.
Print Assumptions c04_run_once.

(* a need that does not fit under min(max_nodes, cloud max) is clamped to land exactly on the bound, and with no headroom no request is made *)
Theorem c04_lands_on_the_bound : forall now gdry api g a nodes pods,
  let x := ctx_of now gdry api g a nodes pods in
  NoDup (map n_name (x_nodes x)) ->
  check_C04_exact x (r_calls (scan_of now gdry api g a nodes pods)) = true.
Proof. exact group_passes_C04_exact. Qed.
Print Assumptions c04_lands_on_the_bound.
