(* C20 — a scan never panics or wedges on odd objects or failing APIs.  Theorems only.
   The model is a total function: every loop is structural recursion over a listed object or an explicit fuel that is
   proved sufficient (C17/C18); that is the formal content of "never hangs" for the modelled logic.  The partial Go
   operations on Kubernetes-provided data are listed below with the fact that makes each one safe. *)
From Esc Require Import SpecAws Examples proofs.AwsProofs proofs.ScanLemmas proofs.ScanState proofs.ScanTaint proofs.ScanOrder proofs.ScanRun proofs.ScanPrelude.

(* provider-id parsing: total on every byte string; fewer than five '/'-separated parts give the empty instance id,
   for which GetInstance issues no call and returns an error (F4 repair) *)
Theorem c20_pid_total : forall pid ok, pid_instance pid = [] -> get_instance_call pid ok = None.
Proof. intros pid ok H. unfold get_instance_call. rewrite H. reflexivity. Qed.
Print Assumptions c20_pid_total.
(* the unrepaired indexing had no value there: Go panicked with index out of range *)
Theorem c20_pid_unrepaired_refuted : pid_instance_unrepaired [] = None.
Proof. exact pid_instance_unrepaired_refuted. Qed.
Print Assumptions c20_pid_unrepaired_refuted.

(* make([]int, 0, n) in taintOldestN: the loop is entered with n >= 0 only (a negative clamp is an error return) *)
Theorem c20_taint_capacity_nonneg : forall e o mn dry st unt want,
  clamp_n mn unt want < 0 -> scale_down_taint e o mn dry st unt want = ([], true, st).
Proof. intros e o mn dry st unt want H. unfold scale_down_taint. fold (clamp_n mn unt want). apply Z.ltb_lt in H. rewrite H. reflexivity. Qed.
Print Assumptions c20_taint_capacity_nonneg.

(* a group's scan ends fatally only through the documented not-in-group condition met by the reaper, and with the
   process exit only through the third consecutive fleet clean-up; every other problem is an ordinary error *)
Theorem c20_endings : forall e o mn mx st a all_nodes all_pods,
  let r := scan_group e o mn mx st a all_nodes all_pods in
  let dry := e_dry e || o_dry o in
  let nodes := group_nodes o all_nodes in
  let st1 := match nodes with n :: _ => with_cache st (first_alloc n) | [] => st end in
  let cls := filter_nodes dry st1 nodes in
  (r_out r = OutFatal -> exists g1 n, oasg_rel a (Some g1) /\ In n (reap_candidates e o dry (group_pods o all_pods) (c_tainted cls)) /\ belongs g1 (n_pid n) = false) /\
  (r_out r = OutExit -> exists g d, oasg_rel a (Some g) /\ dry = false /\ snd (fst (aws_increase g d (e_aorc e))) = IncExit).
Proof. exact scan_group_out. Qed.
Print Assumptions c20_endings.

(* RunOnce as a whole: it returns nil having processed every configured group, or it stops at the first group whose scan
   ended fatally (not-in-group) or with the process exit (third fleet clean-up), or it returns the ordinary error of a
   configured cloud group that the provider no longer knows; per-group errors never stop it *)
Theorem c20_run_once_ends : forall s,
  let res := run_once s in
  (snd res = OutOk /\ length (fst res) = length (s_groups s)) \/
  (snd res = OutErr /\ (length (fst res) < length (s_groups s))%nat) \/
  (snd res = OutFatal /\ exists nr, In nr (fst res) /\ r_out (snd nr) = OutFatal) \/
  (snd res = OutExit /\ exists nr, In nr (fst res) /\ r_out (snd nr) = OutExit).
Proof. intros s. exact (run_groups_ends s (s_groups s) (s_cloud s)). Qed.
Print Assumptions c20_run_once_ends.

(* RunOnce with its prelude (ds: outcomes of the successive provider refresh / rebuild describes, missing = success):
   the prelude ends the run — RunOnce returns Build's error, the only way besides the three above that RunForever
   returns — exactly when the first refresh fails and a rebuild fails (the first one, or the second one after the first
   rebuilt provider failed to refresh); otherwise the groups are scanned as c20_run_once_ends says, from the snapshot
   after_prelude ds s, whatever the last refresh said.  This is a provider-wide condition (no credentials / no cloud API
   for two calls five seconds apart), modelled as the code has it. *)
Theorem c20_prelude_stops_iff : forall ds,
  prelude ds = PStop <-> (exists t, ds = false :: false :: t) \/ (exists t, ds = false :: true :: false :: false :: t).
Proof. exact prelude_stop_iff. Qed.
Print Assumptions c20_prelude_stops_iff.

Theorem c20_run_once_p_ends : forall ds s,
  let res := run_once_p ds s in
  (prelude ds = PStop /\ res = ([], OutErr)) \/
  (prelude ds <> PStop /\ res = run_once (after_prelude ds s) /\
   ((snd res = OutOk /\ length (fst res) = length (s_groups s)) \/
    (snd res = OutErr /\ (length (fst res) < length (s_groups s))%nat) \/
    (snd res = OutFatal /\ exists nr, In nr (fst res) /\ r_out (snd nr) = OutFatal) \/
    (snd res = OutExit /\ exists nr, In nr (fst res) /\ r_out (snd nr) = OutExit))).
Proof. exact run_once_p_ends. Qed.
Print Assumptions c20_run_once_p_ends.

(* the main loop (RunForever): whatever the ticks bring, no run follows a run that returned an error *)
Theorem c20_main_loop : forall ticks, Forall (fun r => snd r = OutOk) (removelast (run_forever ticks)).
Proof. exact run_forever_prefix_ok. Qed.
Print Assumptions c20_main_loop.

(* a transient refresh failure (one failed describe, then success) does not end the run *)
Example c20_prelude_ex : prelude [false; true; true] = PGo true /\ prelude [false; false] = PStop /\ prelude [false; true; false; true; false] = PGo true.
Proof. repeat split. Qed.

(* no error latch: whatever failed, the only memory a scan leaves is the lock (armed only by an accepted or, in dry
   mode, decided increase; otherwise the lock the scan found, released if expired) — see C02 — so the next scan is the
   scan of the new snapshot from that memory *)
Theorem c20_no_latch : forall now gdry api g a nodes pods,
  let x := ctx_of now gdry api g a nodes pods in
  let r := scan_of now gdry api g a nodes pods in
  check_C02_group x (r_calls r) (r_state r) = true.
Proof. exact group_passes_C02. Qed.
Print Assumptions c20_no_latch.

(* unreadable taint values never raise: the reader is total and rejects everything outside 0 .. year 9999 as "no time" *)
Theorem c20_taint_value_total : forall v, taint_time_of v = None \/ exists ts, taint_time_of v = Some ts /\ ts <= max_taint_ts.
Proof.
  intros v. unfold taint_time_of. destruct (parse_int v) as [ts|]; [|left; reflexivity].
  destruct (max_taint_ts <? ts) eqn:E; [left; reflexivity|]. right. exists ts. split; [reflexivity | apply Z.ltb_ge; exact E].
Qed.
Print Assumptions c20_taint_value_total.

(* non-vacuity: a node with an empty provider id in the post-cool-down registration-lag lookup is skipped *)
Example c20_ex : get_instance_call [] true = None /\ get_instance_call (ex_pid 3) true = Some (ADescribeInstances [105; 51] true).
Proof. vm_compute. split; reflexivity. Qed.
