(* C20 — a scan never panics or wedges on odd objects or failing APIs.  Theorems only.
   The model is a total function: every loop is structural recursion over a listed object or an explicit fuel that is
   proved sufficient (C17/C18); that is the formal content of "never hangs" for the modelled logic.  The partial Go
   operations on Kubernetes-provided data are listed below with the fact that makes each one safe. *)
From Esc Require Import SpecAws Examples proofs.AwsProofs proofs.ScanLemmas proofs.ScanState proofs.ScanTaint proofs.ScanOrder.

(* provider-id parsing: total on every byte string; fewer than five '/'-separated parts give the empty instance id,
   for which GetInstance issues no call and returns an error (F4 repair) *)
Theorem c20_pid_total : forall pid ok, pid_instance pid = [] -> get_instance_call pid ok = None.
Proof. intros pid ok H. unfold get_instance_call. rewrite H. reflexivity. Qed.
Print Assumptions c20_pid_total.
(* the unrepaired indexing had no value there: Go panicked with index out of range *)
Theorem c20_pid_unrepaired_refuted : pid_instance_unrepaired [] = None.
Proof. exact pid_instance_unrepaired_refuted. Qed.
Print Assumptions c20_pid_unrepaired_refuted.

(* make([]int, 0, n) in taintOldestN: the loop is entered with n >= 0 only (a negative clamp is an error return) *)
Theorem c20_taint_capacity_nonneg : forall e o mn dry st unt want,
  clamp_n mn unt want < 0 -> scale_down_taint e o mn dry st unt want = ([], true, st).
Proof. intros e o mn dry st unt want H. unfold scale_down_taint. fold (clamp_n mn unt want). apply Z.ltb_lt in H. rewrite H. reflexivity. Qed.
Print Assumptions c20_taint_capacity_nonneg.

(* a group's scan ends fatally only through the documented not-in-group condition met by the reaper, and with the
   process exit only through the third consecutive fleet clean-up; every other problem is an ordinary error *)
Theorem c20_endings : forall e o mn mx st a all_nodes all_pods,
  let r := scan_group e o mn mx st a all_nodes all_pods in
  let dry := e_dry e || o_dry o in
  let nodes := group_nodes o all_nodes in
  let st1 := match nodes with n :: _ => with_cache st (first_alloc n) | [] => st end in
  let cls := filter_nodes dry st1 nodes in
  (r_out r = OutFatal -> exists g1 n, oasg_rel a (Some g1) /\ In n (reap_candidates e o dry (group_pods o all_pods) (c_tainted cls)) /\ belongs g1 (n_pid n) = false) /\
  (r_out r = OutExit -> exists g d, oasg_rel a (Some g) /\ dry = false /\ snd (fst (aws_increase g d (e_aorc e))) = IncExit).
Proof. exact scan_group_out. Qed.
Print Assumptions c20_endings.

(* no error latch: whatever failed, the only memory a scan leaves is the lock (armed only by an accepted or, in dry
   mode, decided increase; otherwise the lock the scan found, released if expired) — see C02 — so the next scan is the
   scan of the new snapshot from that memory *)
Theorem c20_no_latch : forall now gdry api g a nodes pods,
  let x := ctx_of now gdry api g a nodes pods in
  let r := scan_of now gdry api g a nodes pods in
  check_C02_group x (r_calls r) (r_state r) = true.
Proof. exact group_passes_C02. Qed.
Print Assumptions c20_no_latch.

(* unreadable taint values never raise: the reader is total and rejects everything outside 0 .. year 9999 as "no time" *)
Theorem c20_taint_value_total : forall v, taint_time_of v = None \/ exists ts, taint_time_of v = Some ts /\ ts <= max_taint_ts.
Proof.
  intros v. unfold taint_time_of. destruct (parse_int v) as [ts|]; [|left; reflexivity].
  destruct (max_taint_ts <? ts) eqn:E; [left; reflexivity|]. right. exists ts. split; [reflexivity | apply Z.ltb_ge; exact E].
Qed.
Print Assumptions c20_taint_value_total.

(* non-vacuity: a node with an empty provider id in the post-cool-down registration-lag lookup is skipped *)
Example c20_ex : get_instance_call [] true = None /\ get_instance_call (ex_pid 3) true = Some (ADescribeInstances [105; 51] true).
Proof. vm_compute. split; reflexivity. Qed.
