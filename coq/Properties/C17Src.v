(* C17Src.v — the structural tie of C17 to the Go source: the decision functions this property rests on, re-derived from
   /repo's source on every run (coq/GeneratedCtl.v, harness gen --out-ctl), are the hand-written model's.  Theorems only.
   This file is SUPPLEMENTARY to the correspondence run: when it stops compiling (the source changed shape or meaning), bin/check
   widens the search for a failing input; the theorems of Properties/C17.v are about the model and are unaffected. *)
From Esc Require Import SpecAws proofs.AwsProofs.
From Coq Require Import Permutation.

(* ---------- the tie to the source: GeneratedCtl.v is re-derived from the Go source on every run (harness gen --out-ctl);
   the decisions this property rests on, as the code states them today, are the model's ---------- *)
From Esc Require Import GeneratedCtl proofs.GenCtlAgree proofs.GenCtlAgree_AwsInc.

(* aws.go IncreaseSize refuses exactly when the model's aws_increase does, and otherwise goes on as the model does *)
Theorem c17_src_guard : forall a d o,
  match gen_IncreaseSize_guard a d with
  | GRet [GE true] => exists er, aws_increase a d o = ([], IncErr er, a) /\ (er = ENonPositive \/ er = EBreachMax)
  | GFall [] => (0 < d /\ a_desired a + d <= a_max a /\
                aws_increase a d o =
                (if fleet_mode a then one_shot a d o
                 else if ao_setdesired_fail o then ([ASetDesired (a_name a) (a_desired a + d) false false], IncErr ESetDesired, a)
                 else ([ASetDesired (a_name a) (a_desired a + d) false true], IncOk, a)))%Z
  | _ => False
  end.
Proof. exact gen_IncreaseSize_guard_agree. Qed.
Print Assumptions c17_src_guard.
Theorem c17_src_guard_iff : forall a d, gen_IncreaseSize_guard a d = GRet [GE true] <-> (d <= 0 \/ a_max a < a_desired a + d)%Z.
Proof. exact gen_IncreaseSize_guard_iff. Qed.
Print Assumptions c17_src_guard_iff.
