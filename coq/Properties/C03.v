(* C03 — tainting never leaves fewer than min_nodes schedulable nodes.  Theorems only. *)
From Esc Require Import Examples proofs.ScanTaint proofs.ScanRun proofs.ScanRunTheorems proofs.ScanExact.

(* for every scan (node names of the view distinct): the nodes that receive the taint are distinct members of the
   view's untainted class; if any node is tainted, at least min_nodes of the nodes listed untainted remain so — neither
   written by this scan nor found already tainted when it read them back from the API server (a lagging lister); and
   when the scan sees fewer untainted nodes than the minimum (node count within bounds) it writes no taint at all.  min is the
   effective minimum: the cloud group's own when both options are 0 (effective_min_max). *)
Theorem c03_taint_bound : forall now gdry api g a nodes pods,
  let x := ctx_of now gdry api g a nodes pods in
  NoDup (map n_name (x_nodes x)) ->
  check_C03_group x (r_calls (scan_of now gdry api g a nodes pods)) = true.
Proof. exact group_passes_C03. Qed.
Print Assumptions c03_taint_bound.

(* the clamp of scaleDownTaint: min(rate, untainted - min) *)
Theorem c03_clamp : forall mn unt rate, clamp_n mn unt rate = Z.min rate (zlen unt - mn).
Proof. exact clamp_is_min. Qed.
Print Assumptions c03_clamp.

(* the receivers of one scale-down, for every untainted list, rate and failure oracle *)
Theorem c03_receivers : forall x mn st unt want,
  let T := taint_ok_targets x (fst (fst (scale_down_taint (x_env x) (x_opts x) mn (x_dry x) st unt want))) in
  (forall t, In t T -> exists n, In n unt /\ n_name n = t) /\ (NoDup (map n_name unt) -> NoDup T) /\
  zlen T <= Z.max 0 (clamp_n mn unt want) /\ (T <> [] -> mn <= zlen unt - zlen T).
Proof. exact down_targets. Qed.
Print Assumptions c03_receivers.

(* written plus found-already-tainted stay within the clamp, for every untainted list, rate, API state and oracle *)
Theorem c03_found_counts : forall x mn st unt want,
  let calls := fst (fst (scale_down_taint (x_env x) (x_opts x) mn (x_dry x) st unt want)) in
  taint_ok_targets x calls <> [] -> mn <= zlen unt - zlen (taint_ok_targets x calls) - zlen (found_tainted x calls).
Proof. exact down_found. Qed.
Print Assumptions c03_found_counts.

(* auto-discovery: with min_nodes = max_nodes = 0 the bounds are the cloud group's *)
Theorem c03_autodiscover : forall o a, o_min o = 0 -> o_max o = 0 -> effective_min_max o a = (a_min a, a_max a).
Proof. intros o a H1 H2. unfold effective_min_max. rewrite H1, H2. reflexivity. Qed.
Print Assumptions c03_autodiscover.

(* non-vacuity: fast rate 2 but only one node above the minimum of 1 among the two untainted: exactly one taint *)
Example c03_ex : taint_ok_targets (ex_ctx ex_opts gstate0 1000) (r_calls (ex_scan ex_opts gstate0 1000)) = [207].
Proof. vm_compute. reflexivity. Qed.

(* over a whole RunOnce: the checker evaluated by the correspondence holds of every group journal the model produces
   (group names and cloud group names pairwise distinct) *)
Theorem c03_run_once : forall s, wf_groups s -> wf_snapshot s = true -> for_groups check_C03_group s (run_journals s) = true.
Proof. exact run_passes_C03. Qed.
Print Assumptions c03_run_once.

(* below the minimum the scan untaints first and requests exactly the rest (the exact-remainder and acted-on rules of C07/C06 in that situation) *)
Theorem c03_recovery_requests_the_rest : forall now gdry api g a nodes pods,
  let x := ctx_of now gdry api g a nodes pods in
  NoDup (map n_name (x_nodes x)) ->
  check_C03_recover x (r_calls (scan_of now gdry api g a nodes pods)) = true.
Proof. exact group_passes_C03_recover. Qed.
Print Assumptions c03_recovery_requests_the_rest.
