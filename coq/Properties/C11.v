(* C11 — dry mode performs no writes.  Theorems only. *)
From Esc Require Import Examples proofs.ScanTheorems proofs.ScanChecks proofs.ScanRun proofs.ScanRunTheorems proofs.ScanIsolation.

(* with either dry-mode switch on, no call of the group's journal is a write — attempted writes included *)
Theorem c11_no_writes : forall now gdry api g a nodes pods,
  P_C11 (ctx_of now gdry api g a nodes pods) (r_calls (scan_of now gdry api g a nodes pods)).
Proof. intros. apply check_C11_iff. apply group_passes_C11. Qed.
Print Assumptions c11_no_writes.

Theorem c11_model_passes_checker : forall now gdry api g a nodes pods,
  check_C11_group (ctx_of now gdry api g a nodes pods) (r_calls (scan_of now gdry api g a nodes pods)) = true.
Proof. exact group_passes_C11. Qed.
Print Assumptions c11_model_passes_checker.

Theorem c11_checker_iff : forall x calls, check_C11_group x calls = true <-> P_C11 x calls.
Proof. exact check_C11_iff. Qed.
Print Assumptions c11_checker_iff.

(* stronger: a dry group's journal consists of read-only instance lookups only *)
Theorem c11_reads_only : forall now gdry api g a nodes pods c,
  x_dry (ctx_of now gdry api g a nodes pods) = true -> In c (r_calls (scan_of now gdry api g a nodes pods)) ->
  exists inst ok, c = CA (ADescribeInstances inst ok).
Proof. intros. eapply dry_journal_reads_only; eauto. apply scan_of_sources. Qed.
Print Assumptions c11_reads_only.

(* non-vacuity: the sample world under the group's own dry switch makes no call although the wet scan makes four,
   and records its decision in the tracker *)
Definition ex_opts_dry : opts :=
  {| o_name := 100; o_lkey := 101; o_lval := 102; o_asg := 103; o_min := 1; o_max := 10; o_dry := true; o_starve := false;
     o_lower := 30; o_upper := 45; o_up := 70; o_slow := 1; o_fast := 2;
     o_soft := ns 300; o_hard := ns 900; o_cool := ns 600; o_maxage := 0; o_effect := id_empty |}.
Example c11_ex : r_calls (ex_scan ex_opts_dry gstate0 1000) = [] /\ length (r_calls (ex_scan ex_opts gstate0 1000)) = 6%nat
                 /\ g_taint_tracker (r_state (ex_scan ex_opts_dry gstate0 1000)) = [207; 206].
Proof. vm_compute. repeat split. Qed.

(* over a whole RunOnce: the checker evaluated by the correspondence holds of every group journal the model produces
   (group names and cloud group names pairwise distinct) *)
Theorem c11_run_once : forall s, wf_groups s -> for_groups check_C11_group s (run_journals s) = true.
Proof. exact run_passes_C11. Qed.
Print Assumptions c11_run_once.

(* enabling dry mode on one group does not change the actions taken on another group g: the two runs may differ in
   every other group's configuration (its dry_mode switch included); g's journal, memory and outcome are the same *)
Theorem c11_other_groups_unchanged : forall s s' g,
  s_now s = s_now s' -> s_dry s = s_dry s' -> wf_groups s -> wf_groups s' -> In g (s_groups s) -> In g (s_groups s') ->
  s_nodes s = s_nodes s' -> s_pods s = s_pods s' -> s_api s = s_api s' -> s_cloud s = s_cloud s' ->
  forall r r', In (o_name (gi_opts g), r) (fst (run_once s)) -> In (o_name (gi_opts g), r') (fst (run_once s')) ->
  r_calls r = r_calls r' /\ r_state r = r_state r' /\ r_out r = r_out r'.
Proof.
  intros s s' g Hnow Hdry Hw Hw' Hg Hg' Hn Hp Ha Hc. apply run_once_isolated; auto; try (rewrite ?Hn, ?Hp, ?Hc; reflexivity).
  intros n _. rewrite Ha. reflexivity.
Qed.
Print Assumptions c11_other_groups_unchanged.
