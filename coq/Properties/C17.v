(* C17 — AWS scale-up requests ask for exactly the delta, within ASG bounds.  Theorems only.
   All statements are about coq/Aws.v (aws_increase = NodeGroup.IncreaseSize), for every node group, delta,
   fleet reply of any size, and every oracle of AWS answers. *)
From Esc Require Import SpecAws proofs.AwsProofs.
From Coq Require Import Permutation.

(* a non-positive d, or one that would exceed the ASG maximum, is rejected without any AWS call *)
Theorem c17_reject : forall a d o,
  d <= 0 \/ a_max a < a_desired a + d -> exists e, aws_increase a d o = ([], IncErr e, a).
Proof. exact c17_reject_thm. Qed.
Print Assumptions c17_reject.

(* set-desired mode: exactly one call, SetDesiredCapacity(current + d), which is strictly above current *)
Theorem c17_set_desired : forall a d o,
  0 < d -> a_desired a + d <= a_max a -> fleet_mode a = false ->
  aws_increase a d o =
    ([ASetDesired (a_name a) (a_desired a + d) false (negb (ao_setdesired_fail o))],
     if ao_setdesired_fail o then IncErr ESetDesired else IncOk, a)
  /\ a_desired a < a_desired a + d.
Proof. exact c17_set_desired_thm. Qed.
Print Assumptions c17_set_desired.

(* fleet mode: every CreateFleet call asks for total = min target = d, type instant, the configured lifecycle
   (on-demand by default); at most one is issued; every attach call carries at most attach_batch (= 20) ids;
   desired capacity is never set; on success the attached ids are exactly the acquired ids, each once, in order *)
Theorem c17_fleet : forall a d o calls r a',
  0 < d -> a_desired a + d <= a_max a -> fleet_mode a = true ->
  aws_increase a d o = (calls, r, a') ->
  forallb (fleet_call_ok a d) calls = true /\ (length (fleet_calls calls) <= 1)%nat /\
  attach_sizes_ok calls = true /\
  forallb (fun c => match c with ASetDesired _ _ _ _ | ATermInAsg _ _ _ => false | _ => true end) calls = true /\
  (r = IncOk -> attached_ok calls = reply_ids o /\ acquired o calls = reply_ids o /\ terminated_ids calls = []).
Proof. exact c17_fleet_thm. Qed.
Print Assumptions c17_fleet.

(* the checker evaluated on observed runs holds of the model for every input *)
Theorem c17_model_passes_checker : forall a d o,
  let '(calls, r, _) := aws_increase a d o in check_C17 a d o calls (inc_class r) = true.
Proof. exact model_passes_C17. Qed.
Print Assumptions c17_model_passes_checker.

(* the batch constant the property names *)
Lemma c17_batch_is_20 : attach_batch = 20%nat.
Proof. reflexivity. Qed.

(* non-vacuity: a 41-instance fleet in a group with room is attached in batches of 20, 20, 1 *)
Definition ex_asg : asg := {| a_name := 100; a_min := 0; a_max := 100; a_desired := 3; a_instances := [];
  a_cfg := {| f_template := 101; f_lifecycle := id_spot; f_ntypes := 2 |}; a_tries := 0 |}.
Definition ex_orc (ids : list id) : aorc := {| ao_setdesired_fail := false; ao_describe := DescVpc [115; 49; 44; 115; 50];
  ao_fleet := FleetReply [ids] 0; ao_ready_at := Some 1%nat; ao_deadline := 1; ao_attach_fail := []; ao_term_fail := []; ao_terminasg_fail := [] |}.
Definition ex_ids : list id := map Z.of_nat (seq 200 41).
Example c17_ex_batches :
  let '(calls, r, _) := aws_increase ex_asg 41 (ex_orc ex_ids) in
  r = IncOk /\ map (fun c => match c with AAttach _ ids _ => length ids | _ => 0%nat end) calls = [0; 0; 20; 20; 1]%nat
  /\ attached_ok calls = ex_ids.
Proof. vm_compute. repeat split. Qed.
