(* C10Src.v — the structural tie of C10 to the Go source: the decision functions this property rests on, re-derived from
   /repo's source on every run (coq/GeneratedCtl.v, harness gen --out-ctl), are the hand-written model's.  Theorems only.
   This file is SUPPLEMENTARY to the correspondence run: when it stops compiling (the source changed shape or meaning), bin/check
   widens the search for a failing input; the theorems of Properties/C10.v are about the model and are unaffected. *)
From Esc Require Import Examples proofs.ScanTheorems proofs.ScanRun proofs.ScanRunTheorems.

(* ---------- the tie to the source: GeneratedCtl.v is re-derived from the Go source on every run (harness gen --out-ctl);
   the decisions this property rests on, as the code states them today, are the model's ---------- *)
From Esc Require Import GeneratedCtl proofs.GenCtlAgree proofs.GenCtlAgree_Reap.

(* scale_down.go safeFromDeletion = safe_from_deletion *)
Theorem c10_src_annotation : forall n, annots_ok n -> gen_safeFromDeletion n = safe_from_deletion n.
Proof. exact gen_safeFromDeletion_agree. Qed.
Print Assumptions c10_src_annotation.

(* scale_down.go TryRemoveTaintedNodes: the reaper's candidates are the tainted nodes the code's loop body appends
   (annotation maps have one entry per key) *)
Theorem c10_src_reaper : forall e o pods tainted, Forall annots_ok tainted ->
  reap_candidates e o (e_dry e || o_dry o) pods tainted = filter (gen_TryRemoveTaintedNodes_keep e o pods false) tainted.
Proof. exact gen_reap_candidates. Qed.
Print Assumptions c10_src_reaper.
