(* C04Src.v — the structural tie of C04 to the Go source: the decision functions this property rests on, re-derived from
   /repo's source on every run (coq/GeneratedCtl.v, harness gen --out-ctl), are the hand-written model's.  Theorems only.
   This file is SUPPLEMENTARY to the correspondence run: when it stops compiling (the source changed shape or meaning), bin/check
   widens the search for a failing input; the theorems of Properties/C04.v are about the model and are unaffected. *)
From Esc Require Import Examples proofs.ScanState proofs.ScanRun proofs.ScanRunTheorems.

(* ---------- the tie to the source: GeneratedCtl.v is re-derived from the Go source on every run (harness gen --out-ctl);
   the decisions this property rests on, as the code states them today, are the model's ---------- *)
From Esc Require Import GeneratedCtl proofs.GenCtlAgree proofs.GenCtlAgree_Up proofs.GenCtlAgree_MinMax.

(* scale_up.go calculateNodesToAdd = nodes_to_add *)
Theorem c04_src_clamp : forall want target maxn, gen_calculateNodesToAdd want target maxn = nodes_to_add want target maxn.
Proof. exact gen_calculateNodesToAdd_agree. Qed.
Print Assumptions c04_src_clamp.

(* scale_up.go scaleUpCloudProviderNodeGroup: whenever nodes remain to be added after untainting, the model's scale_up does
   what the code decides — refusal, dry-mode count, or IncreaseSize with the clamped amount *)
Theorem c04_src_scale_up : forall e o maxn st g tainted want,
  let dry := e_dry e || o_dry o in
  let '(ucalls, ucount, tr) :=
    match tainted with [] => ([], 0, g_taint_tracker st) | _ => untaint_loop e dry (sort_newest tainted) want 0 (g_taint_tracker st) end in
  0 < want - ucount ->
  scale_up e o maxn dry st (Some g) tainted want =
  up_after e ucalls ucount (with_tracker st tr) (Some g) (gen_scaleUpCloudProviderNodeGroup e o maxn true g (want - ucount)).
Proof. exact gen_scale_up_cloud. Qed.
Print Assumptions c04_src_scale_up.

(* controller.go RunOnce: the max_nodes (and min_nodes) a scan runs with are effective_min_max *)
Theorem c04_src_min_max : forall o g,
  (exists mn mx c, gen_RunOnce_minmax o true g = GCall c [GI mn; GI mx] /\ effective_min_max o g = (mn, mx))
  /\ gen_RunOnce_minmax o false g = GRet [GE true].
Proof. exact gen_RunOnce_minmax_agree. Qed.
Print Assumptions c04_src_min_max.
