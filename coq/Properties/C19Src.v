(* C19Src.v — the structural tie of C19 to the Go source: the decision functions this property rests on, re-derived from
   /repo's source on every run (coq/GeneratedCtl.v, harness gen --out-ctl), are the hand-written model's.  Theorems only.
   This file is SUPPLEMENTARY to the correspondence run: when it stops compiling (the source changed shape or meaning), bin/check
   widens the search for a failing input; the theorems of Properties/C19.v are about the model and are unaffected. *)
From Esc Require Import SpecAws Examples proofs.AwsProofs proofs.ScanLemmas proofs.ScanOrder proofs.ScanParser proofs.ScanRun proofs.ScanRunTheorems.

(* ---------- the tie to the source: GeneratedCtl.v is re-derived from the Go source on every run (harness gen --out-ctl);
   the decisions this property rests on, as the code states them today, are the model's ---------- *)
From Esc Require Import GeneratedCtl proofs.GenCtlAgree proofs.GenCtlAgree_AwsDel.

(* aws.go DeleteNodes refuses exactly when the model's aws_delete_nodes does, and otherwise runs the model's loop *)
Theorem c19_src_guard : forall a nodes fails,
  match gen_DeleteNodes_guard a nodes with
  | GRet [GE true] => exists er, aws_delete_nodes a nodes fails = ([], er, a) /\ (er = DelErrMin \/ er = DelErrBreach)
  | GFall [] => (a_min a < a_desired a /\ a_min a <= a_desired a - zlen nodes /\ aws_delete_nodes a nodes fails = delete_loop a nodes fails)%Z
  | _ => False
  end.
Proof. exact gen_DeleteNodes_guard_agree. Qed.
Print Assumptions c19_src_guard.
Theorem c19_src_guard_iff : forall a nodes,
  gen_DeleteNodes_guard a nodes = GRet [GE true] <-> (a_desired a <= a_min a \/ a_desired a - zlen nodes < a_min a)%Z.
Proof. exact gen_DeleteNodes_guard_iff. Qed.
Print Assumptions c19_src_guard_iff.
