(* C05, scan side — the state anchor and the composition of a scale-up.  Theorems only. *)
From Esc Require Import SpecScan proofs.ScanLemmas proofs.ScanState proofs.ScanTaint proofs.ScanExact proofs.ScanOrder.

(* the cached node size a scan leaves is the allocatable of the first listed node of that scan, or — when the group lists
   no node — the cache it found: "the last observed node size", for every state and oracle *)
Theorem c05_cache_anchor : forall now gdry api g a nodes pods,
  let x := ctx_of now gdry api g a nodes pods in
  check_C05_cache x (gi_state g) (r_state (scan_of now gdry api g a nodes pods)) = true.
Proof. exact group_cache_C05. Qed.
Print Assumptions c05_cache_anchor.

(* what is asked of the cloud is the clamp of (N - successful untaints): with room below the bound, untaints plus the
   cloud request add up to N exactly *)
Theorem c05_no_clamp_exact : forall want target m, target + want <= m -> nodes_to_add want target m = want.
Proof. intros want target m H. unfold nodes_to_add. replace (m <? target + want) with false by (symmetry; apply Z.ltb_ge; lia). reflexivity. Qed.
Print Assumptions c05_no_clamp_exact.

(* the number of nodes brought into service: when the scan buys capacity, the first cloud request is exactly
   clamp(N - untainted) on top of the desired size left by the scan's own terminations, N being the needed number the
   utilisation arithmetic (or the minimum) gives for the snapshot *)
Theorem c05_exact_remainder : forall now gdry api g a nodes pods,
  let x := ctx_of now gdry api g a nodes pods in
  NoDup (map n_name (x_nodes x)) ->
  check_C07_exact x (r_calls (scan_of now gdry api g a nodes pods)) = true.
Proof. exact group_passes_C07_exact. Qed.
Print Assumptions c05_exact_remainder.
