(* C15 — taint writes are precise and never restart a node's grace period.  Theorems only. *)
From Esc Require Import Examples proofs.ScanTheorems proofs.ScanChecks proofs.ScanRun proofs.ScanRunTheorems.

(* every node update of a scan is either the API server's copy with exactly one taint appended — key
   atlassian.com/escalator, value the scan's Unix second in decimal, the configured effect or NoSchedule — and that
   copy carried no escalator taint; or the API server's copy minus its first escalator taint (order of the others
   may change); labels, annotations, every other taint and every other field are the copy's *)
Theorem c15_updates_precise : forall now gdry api g a nodes pods, asg_named g a ->
  check_C15_group (ctx_of now gdry api g a nodes pods) (r_calls (scan_of now gdry api g a nodes pods)) = true.
Proof. exact group_passes_C15. Qed.
Print Assumptions c15_updates_precise.

(* AddToBeRemovedTaint on a node whose API copy already carries the escalator taint writes nothing: no re-stamp *)
Theorem c15_add_present : forall api o now eff name u,
  api_get api o name = Some u -> has_esc u = true -> add_taint api o now eff name = ([KGet name true], true).
Proof. intros api o now eff name u Hu He. unfold add_taint. rewrite Hu, He. reflexivity. Qed.
Print Assumptions c15_add_present.

(* DeleteToBeRemovedTaint on a node without the taint writes nothing *)
Theorem c15_delete_absent : forall api o name u,
  api_get api o name = Some u -> has_esc u = false -> delete_taint api o name = ([KGet name true], true).
Proof.
  intros api o name u Hu He. unfold delete_taint. rewrite Hu.
  assert (H : remove_swap (n_taints u) = None).
  { unfold has_esc, has_key in He. induction (n_taints u) as [|t l IH]; [reflexivity|]. simpl in *.
    destruct (t_key t =? id_esc_key); [discriminate|]. simpl in He. rewrite (IH He). reflexivity. }
  rewrite H. reflexivity.
Qed.
Print Assumptions c15_delete_absent.

(* the swap-delete keeps every other taint *)
Theorem c15_delete_keeps_others : forall ts ts', remove_swap ts = Some ts' -> Permutation.Permutation ts' (drop_first_esc ts).
Proof. intros ts ts' H. destruct (remove_swap_perm ts ts' H) as [H1 _]. exact H1. Qed.
Print Assumptions c15_delete_keeps_others.

(* no re-stamp, along every history: an update of a node whose API copy already carries the escalator taint can only be
   the removal of that taint — its value is never rewritten, so no later scale-down restarts a grace period *)
Theorem c15_no_restamp : forall x name p u,
  check_update x name p = true -> api_copy x name = Some u -> has_esc u = true ->
  (length (n_taints p) < length (n_taints u))%nat.
Proof. exact check_update_no_restamp. Qed.
Print Assumptions c15_no_restamp.

(* non-vacuity: a scale-down in the sample world appends the stamp to node 207 (oldest) keeping nothing else changed,
   and a node with three taints loses exactly the escalator one on untaint *)
Example c15_ex_add :
  match r_calls (ex_scan ex_opts gstate0 1000) with
  | _ :: _ :: _ :: _ :: CK (KGet 207 true) :: CK (KUpdate 207 p true) :: _ => n_taints p = [esc_taint_at ex_now_s]
  | _ => False end.
Proof. vm_compute. reflexivity. Qed.
Example c15_ex_swap : remove_swap [other_taint; esc_taint_at 5; force_taint; other_taint] = Some [other_taint; other_taint; force_taint].
Proof. vm_compute. reflexivity. Qed.

(* over a whole RunOnce: the checker evaluated by the correspondence holds of every group journal the model produces
   (group names and cloud group names pairwise distinct) *)
Theorem c15_run_once : forall s, wf_groups s -> for_groups check_C15_group s (run_journals s) = true.
Proof. exact run_passes_C15. Qed.
Print Assumptions c15_run_once.
