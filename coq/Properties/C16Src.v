(* C16Src.v — the structural tie of C16 to the Go source: what `harness gen` re-derives from /repo's source on every run
   (coq/Generated.v) against the hand-written validation model and the documentation.  Theorems only.
   This file is SUPPLEMENTARY to the correspondence run: when it stops compiling (the source changed shape, so that the
   translator no longer follows it, or changed meaning), bin/check widens the search for a failing input and prints a
   NOTE; the theorems of Properties/C16.v are about the model and are unaffected. *)
From Coq Require Import String ZArith List.
From Esc Require Import SpecConfig Generated proofs.ConfigProofs proofs.ConfigGenAgree.
Import ListNotations.
Open Scope string_scope.
Open Scope Z_scope.

(* ValidateNodeGroup as the source states it today, checkThat by checkThat in source order, is the model's rule list *)
Theorem c16_src_rules : forall c, map (fun r => r c) gen_rules = map (fun r => r c) model_rules.
Proof. exact gen_rules_agree. Qed.
Print Assumptions c16_src_rules.

Theorem c16_src_validate : forall c, gen_validate c = model_validate c.
Proof. exact gen_validate_agree. Qed.
Print Assumptions c16_src_validate.

Theorem c16_src_problems : forall c, gen_problems c = model_problems c.
Proof. exact gen_problems_agree. Qed.
Print Assumptions c16_src_problems.

(* hence c16_sound read over the source-derived validator *)
Theorem c16_src_sound : forall c, gen_validate c = true -> safe c.
Proof. exact gen_validate_safe. Qed.
Print Assumptions c16_src_sound.

(* no statement of ValidateNodeGroup was left out by the translator (the list is about the rules only: an item of
   Generated.v this file does not speak about — a constant, the default taint effect — may be missing without costing this tie) *)
Example c16_src_complete : gen_rules_untranslated = [].
Proof. reflexivity. Qed.

(* finite domain (the generated tables), decided by computation: every key of the documentation's example block is the
   json name of a field of NodeGroupOptions (resp. AWSNodeGroupOptions), except the keys listed in `known_unhonoured` *)
Theorem c16_keys :
  (forall k, In k gen_documented_keys -> In k gen_json_tags \/ In k known_unhonoured) /\
  (forall k, In k gen_documented_aws_keys -> In k gen_aws_json_tags).
Proof. exact documented_keys_honoured. Qed.
Print Assumptions c16_keys.

(* the yaml struct tag of HardDeleteGracePeriod repeats soft_delete_grace_period; harmless while decoding goes
   YAML -> JSON -> json tags (the C16 run decodes hard_delete_grace_period from YAML and checks the field) *)
Example c16_yaml_tags_note :
  yaml_differs gen_tag_table = [("HardDeleteGracePeriod", ("hard_delete_grace_period", "soft_delete_grace_period"))]
  /\ yaml_differs gen_aws_tag_table = [].
Proof. split; vm_compute; reflexivity. Qed.

(* known finding K2: the one documented key that no field carries *)
Example c16_k2_unhonoured_key :
  unhonoured gen_documented_keys gen_json_tags = ["scale_up_cool_down_timeout"]
  /\ unhonoured gen_documented_aws_keys gen_aws_json_tags = [].
Proof. split; vm_compute; reflexivity. Qed.
