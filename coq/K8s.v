(* K8s.v — Kubernetes objects as the model sees them, the group-attribution filters (node_group.go:247-316,
   k8s/util.go:36-49), the per-pod request and the request / capacity totals (scheduler/types.go, k8s/util.go). *)
From Esc Require Export Base.

(* ---------- quantities ---------- *)
(* An exact rational num/den (den > 0), the value a resource.Quantity denotes. *)
Record qty := { q_num : Z; q_den : Z }.

(* Quantity.Value() / MilliValue() round away from zero (ScaledValue rounds up in magnitude). *)
Definition div_away (a b : Z) : Z :=
  if 0 <=? a then (a + b - 1) / b else - ((- a + b - 1) / b).
Definition q_value (q : qty) : Z := div_away (q_num q) (q_den q).
Definition q_milli (q : qty) : Z := div_away (1000 * q_num q) (q_den q).

Definition oq_value (o : option qty) : Z := match o with Some q => q_value q | None => 0 end.
Definition oq_milli (o : option qty) : Z := match o with Some q => q_milli q | None => 0 end.

(* ---------- taints and nodes ---------- *)
Record taint := { t_key : id; t_val : bytes; t_eff : id; t_extra : Z (* anything else of the taint (timeAdded), hashed *) }.

Record node := {
  n_name    : id;
  n_created : Z;                     (* creation time, unix seconds (Go zero time = -62135596800) *)
  n_unsched : bool;                  (* spec.unschedulable *)
  n_taints  : list taint;
  n_annots  : list (id * id);
  n_labels  : list (id * id);
  n_cpu     : option qty;            (* status.allocatable.cpu, None = absent *)
  n_mem     : option qty;            (* status.allocatable.memory *)
  n_pid     : bytes;                 (* spec.providerID, raw characters *)
  n_rest    : Z                      (* every other field of the object, hashed by the harness; no model function reads it *)
}.

Definition taint_eqb (a b : taint) : bool :=
  (t_key a =? t_key b) && bytes_eqb (t_val a) (t_val b) && (t_eff a =? t_eff b) && (t_extra a =? t_extra b).

Definition qty_eqb (a b : qty) : bool := (q_num a =? q_num b) && (q_den a =? q_den b).
Definition idpair_eqb : id * id -> id * id -> bool := pair_eqb Z.eqb Z.eqb.

Definition node_eqb (a b : node) : bool :=
  (n_name a =? n_name b) && (n_created a =? n_created b) && Bool.eqb (n_unsched a) (n_unsched b)
  && list_eqb taint_eqb (n_taints a) (n_taints b)
  && list_eqb idpair_eqb (n_annots a) (n_annots b) && list_eqb idpair_eqb (n_labels a) (n_labels b)
  && option_eqb qty_eqb (n_cpu a) (n_cpu b) && option_eqb qty_eqb (n_mem a) (n_mem b)
  && bytes_eqb (n_pid a) (n_pid b) && (n_rest a =? n_rest b).

(* ---------- pods ---------- *)
Record ctr := { c_cpu : option qty; c_mem : option qty }.              (* resources.requests of one container *)

Record sexpr := { e_key : id; e_op : id; e_vals : list id }.           (* NodeSelectorRequirement *)
Record sterm := { st_exprs : list sexpr }.                              (* NodeSelectorTerm.MatchExpressions *)
Record affinity := {
  af_node : option (option (list sterm));  (* None: nodeAffinity nil | Some None: required… nil | Some (Some terms) *)
  af_pod  : bool;                          (* podAffinity non-nil *)
  af_anti : bool                           (* podAntiAffinity non-nil *)
}.

Record pod := {
  p_name     : id;
  p_node     : id;                   (* spec.nodeName, id_empty when unassigned *)
  p_ctrs     : list ctr;
  p_inits    : list ctr;
  p_overhead : option ctr;           (* None: spec.overhead nil *)
  p_owners   : list id;              (* ownerReferences[*].kind *)
  p_annots   : list (id * id);
  p_selector : list (id * id);
  p_affinity : option affinity;
  p_phase    : id;
  p_conds    : list (id * id)        (* status.conditions as (type, status) *)
}.

(* ---------- attribution filters ---------- *)
Definition pod_is_daemonset (p : pod) : bool := mem_id id_DaemonSet (p_owners p).

Definition pod_is_static (p : pod) : bool :=
  match assoc id_cfgsrc (p_annots p) with Some v => v =? id_file | None => false end.

Definition required_terms (p : pod) : list sterm :=
  match p_affinity p with
  | Some a => match af_node a with Some (Some ts) => ts | _ => [] end
  | None => []
  end.

Definition expr_matches (k v : id) (e : sexpr) : bool :=
  (e_key e =? k) && (e_op e =? id_In) && mem_id v (e_vals e).

Definition pod_in_group (k v : id) (p : pod) : bool :=
  negb (pod_is_daemonset p) &&
  ((match assoc k (p_selector p) with Some x => x =? v | None => false end)
   || existsb (fun t => existsb (expr_matches k v) (st_exprs t)) (required_terms p)).

Definition pod_in_default (p : pod) : bool :=
  negb (pod_is_daemonset p) && negb (pod_is_static p) &&
  (match p_selector p with [] => true | _ => false end) &&
  (match p_affinity p with
   | None => true
   | Some a => (match af_node a with None => true | Some _ => false end) && negb (af_pod a) && negb (af_anti a)
   end).

Definition node_in_group (k v : id) (n : node) : bool :=
  match assoc k (n_labels n) with Some x => x =? v | None => false end.

(* ---------- per-pod request (ComputePodResourceRequest) ---------- *)
Record res := { r_cpu : Z; r_mem : Z }.        (* scheduler.Resource: MilliCPU, Memory *)
Definition res0 : res := {| r_cpu := 0; r_mem := 0 |}.

(* Resource.Add(ResourceList): only the entries present are added *)
Definition res_add (r : res) (c : ctr) : res :=
  {| r_cpu := r_cpu r + oq_milli (c_cpu c); r_mem := r_mem r + oq_value (c_mem c) |}.

(* Resource.SetMaxResource(ResourceList): only the entries present take part *)
Definition res_setmax (r : res) (c : ctr) : res :=
  {| r_cpu := match c_cpu c with Some q => Z.max (r_cpu r) (q_milli q) | None => r_cpu r end;
     r_mem := match c_mem c with Some q => Z.max (r_mem r) (q_value q) | None => r_mem r end |}.

Definition pod_request (p : pod) : res :=
  let r1 := fold_left res_add (p_ctrs p) res0 in
  let r2 := fold_left res_setmax (p_inits p) r1 in
  match p_overhead p with Some o => res_add r2 o | None => r2 end.

(* ---------- totals (CalculatePodsRequestedUsage / CalculateNodesCapacity) ---------- *)
Record usage := { u_total : res; u_big_mem : res; u_big_cpu : res }.

Definition usage_step (u : usage) (p : pod) : usage :=
  let r := pod_request p in
  let tot := {| r_cpu := r_cpu (u_total u) + r_cpu r; r_mem := r_mem (u_total u) + r_mem r |} in
  if p_phase p =? id_Pending then
    {| u_total := tot;
       u_big_mem := if r_mem (u_big_mem u) <? r_mem r then r else u_big_mem u;
       u_big_cpu := if r_cpu (u_big_cpu u) <? r_cpu r then r else u_big_cpu u |}
  else {| u_total := tot; u_big_mem := u_big_mem u; u_big_cpu := u_big_cpu u |}.

Definition pods_usage (pods : list pod) : usage :=
  fold_left usage_step pods {| u_total := res0; u_big_mem := res0; u_big_cpu := res0 |}.

Definition pod_scheduled (p : pod) : bool :=
  match assoc id_PodScheduled (p_conds p) with Some s => s =? id_True | None => false end.

Definition pod_uses_node (p : pod) : bool :=
  pod_scheduled p && ((p_phase p =? id_Pending) || (p_phase p =? id_Running)).

Definition node_cpu (n : node) : Z := oq_milli (n_cpu n).
Definition node_mem (n : node) : Z := oq_value (n_mem n).

Definition node_available (pods : list pod) (n : node) : res :=
  let mine := filter (fun p => (p_node p =? n_name n) && pod_uses_node p) pods in
  {| r_cpu := node_cpu n - sumZ (map (fun p => r_cpu (pod_request p)) mine);
     r_mem := node_mem n - sumZ (map (fun p => r_mem (pod_request p)) mine) |}.

Record capacity := { k_total : res; k_big_mem : res; k_big_cpu : res }.

Definition capacity_step (pods : list pod) (k : capacity) (n : node) : capacity :=
  let a := node_available pods n in
  {| k_total := {| r_cpu := r_cpu (k_total k) + node_cpu n; r_mem := r_mem (k_total k) + node_mem n |};
     k_big_cpu := if r_cpu (k_big_cpu k) <? r_cpu a then a else k_big_cpu k;
     k_big_mem := if r_mem (k_big_mem k) <? r_mem a then a else k_big_mem k |}.

Definition nodes_capacity (nodes : list node) (pods : list pod) : capacity :=
  fold_left (capacity_step pods) nodes {| k_total := res0; k_big_mem := res0; k_big_cpu := res0 |}.

(* ---------- node -> pods map (CreateNodeNameToInfoMap, NodePodsRemaining, NodeEmpty) ---------- *)
(* number of non-daemonset pods of the (group's) pod list sitting on node n *)
Definition node_pods_remaining (pods : list pod) (n : node) : Z :=
  count_occ_b (fun p => (p_node p =? n_name n) && negb (pod_is_daemonset p)) pods.
Definition node_empty (pods : list pod) (n : node) : bool := node_pods_remaining pods n =? 0.
