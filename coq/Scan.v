(* Scan.v — pkg/controller: filterNodes, the reapers, ScaleDown / ScaleUp, the scale lock, scaleNodeGroup and
   RunOnce, as total functions returning the journal of calls, the outcome and the new in-memory state. *)
From Esc Require Export Taint Aws Calc.
From Flocq Require Import BinarySingleNaN.

(* ---------- configuration and controller memory ---------- *)
Record opts := {
  o_name : id; o_lkey : id; o_lval : id; o_asg : id;
  o_min : Z; o_max : Z;                 (* as configured (0/0 = auto-discover) *)
  o_dry : bool; o_starve : bool;
  o_lower : Z; o_upper : Z; o_up : Z;   (* thresholds, percent *)
  o_slow : Z; o_fast : Z;
  o_soft : Z; o_hard : Z; o_cool : Z; o_maxage : Z;   (* durations in ns, as the Go accessors return them *)
  o_effect : id
}.

Record lock := { l_locked : bool; l_time : option Z (* ns; None = Go zero time *); l_requested : Z }.

Record gstate := {
  g_lock : lock;
  g_delta : Z;                         (* scaleDelta of the previous scan *)
  g_last_out : option Z;               (* lastScaleOut, ns; None = zero time *)
  g_cache : qty * qty;                 (* cached allocatable cpu / memory of one node *)
  g_taint_tracker : list id;
  g_force_tracker : list id
}.

Definition lock0 : lock := {| l_locked := false; l_time := None; l_requested := 0 |}.
Definition gstate0 : gstate :=
  {| g_lock := lock0; g_delta := 0; g_last_out := None; g_cache := (qty0, qty0); g_taint_tracker := []; g_force_tracker := [] |}.

Definition with_lock (s : gstate) (l : lock) : gstate :=
  {| g_lock := l; g_delta := g_delta s; g_last_out := g_last_out s; g_cache := g_cache s;
     g_taint_tracker := g_taint_tracker s; g_force_tracker := g_force_tracker s |}.
Definition with_cache (s : gstate) (c : qty * qty) : gstate :=
  {| g_lock := g_lock s; g_delta := g_delta s; g_last_out := g_last_out s; g_cache := c;
     g_taint_tracker := g_taint_tracker s; g_force_tracker := g_force_tracker s |}.
Definition with_tracker (s : gstate) (t : list id) : gstate :=
  {| g_lock := g_lock s; g_delta := g_delta s; g_last_out := g_last_out s; g_cache := g_cache s;
     g_taint_tracker := t; g_force_tracker := g_force_tracker s |}.
Definition with_last_out (s : gstate) (t : option Z) : gstate :=
  {| g_lock := g_lock s; g_delta := g_delta s; g_last_out := t; g_cache := g_cache s;
     g_taint_tracker := g_taint_tracker s; g_force_tracker := g_force_tracker s |}.
Definition with_delta (s : gstate) (d : Z) : gstate :=
  {| g_lock := g_lock s; g_delta := d; g_last_out := g_last_out s; g_cache := g_cache s;
     g_taint_tracker := g_taint_tracker s; g_force_tracker := g_force_tracker s |}.

(* ---------- the scale lock (scale_lock.go) ---------- *)
Definition lock_since (l : lock) (now : Z) : Z :=
  match l_time l with None => max_int64 | Some t => sat64 (now - t) end.

(* locked(): true while inside the cool-down; otherwise the lock is released (unlock()) and false is returned *)
Definition lock_check (l : lock) (now cool : Z) : bool * lock :=
  if lock_since l now <? cool then (true, l)
  else (false, if l_locked l then {| l_locked := false; l_time := l_time l; l_requested := 0 |} else l).

Definition lock_arm (now : Z) (n : Z) : lock := {| l_locked := true; l_time := Some now; l_requested := n |}.

(* ---------- journal ---------- *)
Inductive call := CK (c : kcall) | CA (c : acall).
Definition call_eqb (x y : call) : bool :=
  match x, y with CK a, CK b => kcall_eqb a b | CA a, CA b => acall_eqb a b | _, _ => false end.
Definition call_is_write (c : call) : bool :=
  match c with CK k => kcall_is_write k | CA a => acall_is_write a end.
Definition liftK (l : list kcall) : list call := map CK l.
Definition liftA (l : list acall) : list call := map CA l.

(* ---------- environment of one scan ---------- *)
Record env := {
  e_now : Z;                 (* the instant of the scan, unix ns *)
  e_dry : bool;              (* the global --drymode flag *)
  e_api : list node;         (* what Get returns for each node (may differ from the listed view) *)
  e_korc : korc;
  e_aorc : aorc;             (* AWS answers for this group's cloud group *)
  e_descinst_fail : bool     (* DescribeInstances fails *)
}.

Definition now_sec (e : env) : Z := e_now e / 1000000000.

(* ---------- classification (filterNodes) ---------- *)
Record classes := { c_untainted : list node; c_tainted : list node; c_forced : list node; c_cordoned : list node }.

Definition classify_one (dry : bool) (st : gstate) (n : node) : Z :=   (* 0 untainted, 1 tainted, 2 forced, 3 cordoned *)
  if dry then
    if mem_id (n_name n) (g_force_tracker st) then 2 else if mem_id (n_name n) (g_taint_tracker st) then 1 else 0
  else if n_unsched n then 3
  else if has_force n then 2 else if has_esc n then 1 else 0.

Definition filter_nodes (dry : bool) (st : gstate) (nodes : list node) : classes :=
  {| c_untainted := filter (fun n => classify_one dry st n =? 0) nodes;
     c_tainted := filter (fun n => classify_one dry st n =? 1) nodes;
     c_forced := filter (fun n => classify_one dry st n =? 2) nodes;
     c_cordoned := filter (fun n => classify_one dry st n =? 3) nodes |}.

(* ---------- removal (scale_down.go) ---------- *)
Definition safe_from_deletion (n : node) : bool :=
  match assoc id_nodelete (n_annots n) with Some v => negb (v =? id_empty) | None => false end.

Definition taint_age (e : env) (ts : Z) : Z := sat64 (e_now e - ts * 1000000000).

(* is this tainted node ready to be deleted by the grace-period reaper? *)
Definition reapable (e : env) (o : opts) (pods : list pod) (n : node) : bool :=
  if safe_from_deletion n then false
  else match taint_time n with
       | None => false
       | Some ts =>
           let age := taint_age e ts in
           (o_soft o <? age) && (node_empty pods n || (o_hard o <? age))
       end.

Definition reap_candidates (e : env) (o : opts) (dry : bool) (pods : list pod) (tainted : list node) : list node :=
  if dry then [] else filter (reapable e o pods) tainted.

Definition force_candidates (dry : bool) (pods : list pod) (forced : list node) : list node :=
  if dry then [] else filter (node_empty pods) forced.

Inductive errk := ErrGeneric | ErrNotInGroup.

(* TryDeleteNodes: cloud termination of the whole batch first, Kubernetes deletes only if the cloud accepted all *)
Definition try_delete_nodes (e : env) (a : option asg) (cands : list node) : list call * option errk * option asg :=
  match cands with
  | [] => ([], None, a)
  | _ =>
    match a with
    | None => ([], Some ErrGeneric, a)
    | Some g =>
      let '(ac, r, g') := aws_delete_nodes g cands (ao_terminasg_fail (e_aorc e)) in
      match r with
      | DelOk =>
          let '(kc, ok) := delete_nodes (e_korc e) (map n_name cands) in
          (liftA ac ++ liftK kc, if ok then None else Some ErrGeneric, Some g')
      | DelNotInGroup _ => (liftA ac, Some ErrNotInGroup, Some g')
      | _ => (liftA ac, Some ErrGeneric, Some g')
      end
    end
  end.

(* ---------- sorting (sort.go) ---------- *)
Definition sort_oldest (l : list node) : list node := isort (fun a b => n_created a <=? n_created b) l.
Definition sort_newest (l : list node) : list node := isort (fun a b => n_created b <=? n_created a) l.

(* ---------- tainting (taintOldestN) ---------- *)
Fixpoint taint_loop (e : env) (o : opts) (dry : bool) (l : list node) (n : Z) (count : Z) (tracker : list id)
  : list kcall * Z * list id :=
  match l with
  | [] => ([], count, tracker)
  | x :: rest =>
    if n <=? count then ([], count, tracker)
    else if dry then taint_loop e o dry rest n (count + 1) (tracker ++ [n_name x])
    else
      let '(calls, ok) := add_taint (e_api e) (e_korc e) (now_sec e) (o_effect o) (n_name x) in
      let '(calls', c', t') := taint_loop e o dry rest n (if ok then count + 1 else count) tracker in
      (calls ++ calls', c', t')
  end.

(* scaleDownTaint: clamp to untainted - min, refuse below the minimum *)
Definition scale_down_taint (e : env) (o : opts) (min : Z) (dry : bool) (st : gstate) (untainted : list node) (want : Z)
  : list call * bool (* error *) * gstate :=
  let u := zlen untainted in
  let n := if u - want <? min then u - min else want in
  if n <? 0 then ([], true, st)
  else let '(calls, _, tr) := taint_loop e o dry (sort_oldest untainted) n 0 (g_taint_tracker st) in
       (liftK calls, false, with_tracker st tr).

(* ---------- untainting (untaintNewestN) ---------- *)
Fixpoint remove_first (x : id) (l : list id) : list id :=
  match l with [] => [] | y :: l' => if y =? x then l' else y :: remove_first x l' end.

Fixpoint untaint_loop (e : env) (dry : bool) (l : list node) (n : Z) (count : Z) (tracker : list id)
  : list kcall * Z * list id :=
  match l with
  | [] => ([], count, tracker)
  | x :: rest =>
    if n <=? count then ([], count, tracker)
    else if dry then
      if mem_id (n_name x) tracker then untaint_loop e dry rest n (count + 1) (remove_first (n_name x) tracker)
      else untaint_loop e dry rest n count tracker
    else if has_esc x then
      let '(calls, ok) := delete_taint (e_api e) (e_korc e) (n_name x) in
      let '(calls', c', t') := untaint_loop e dry rest n (if ok then count + 1 else count) tracker in
      (calls ++ calls', c', t')
    else untaint_loop e dry rest n count tracker
  end.

(* ---------- ScaleUp (scale_up.go, after the F1 repair) ---------- *)
Definition nodes_to_add (want target maxn : Z) : Z := if maxn <? target + want then maxn - target else want.

Inductive outcome := OutOk | OutErr | OutFatal | OutExit.

Record up_result := { up_calls : list call; up_out : outcome; up_ret : Z; up_state : gstate; up_asg : option asg }.

Definition scale_up (e : env) (o : opts) (maxn : Z) (dry : bool) (st : gstate) (a : option asg) (tainted : list node) (want : Z)
  : up_result :=
  let '(ucalls, ucount, tr) :=
    match tainted with
    | [] => ([], 0, g_taint_tracker st)
    | _ => untaint_loop e dry (sort_newest tainted) want 0 (g_taint_tracker st)
    end in
  let st1 := with_tracker st tr in
  let rest := want - ucount in
  if 0 <? rest then
    match a with
    | None => {| up_calls := liftK ucalls; up_out := OutErr; up_ret := 0; up_state := st1; up_asg := a |}
    | Some g =>
      let m := Z.min maxn (a_max g) in
      let add := nodes_to_add rest (a_desired g) m in
      if add <=? 0 then {| up_calls := liftK ucalls; up_out := OutErr; up_ret := 0; up_state := st1; up_asg := a |}
      else if dry then
        {| up_calls := liftK ucalls; up_out := OutOk; up_ret := ucount + add;
           up_state := with_lock st1 (lock_arm (e_now e) add); up_asg := a |}
      else
        let '(ac, r, g') := aws_increase g add (e_aorc e) in
        match r with
        | IncOk => {| up_calls := liftK ucalls ++ liftA ac; up_out := OutOk; up_ret := ucount + add;
                      up_state := with_lock st1 (lock_arm (e_now e) add); up_asg := Some g' |}
        | IncErr _ => {| up_calls := liftK ucalls ++ liftA ac; up_out := OutErr; up_ret := 0; up_state := st1; up_asg := Some g' |}
        | IncExit => {| up_calls := liftK ucalls ++ liftA ac; up_out := OutExit; up_ret := 0; up_state := st1; up_asg := Some g' |}
        end
    end
  else {| up_calls := liftK ucalls; up_out := OutOk; up_ret := ucount; up_state := st1; up_asg := a |}.

(* ---------- triggers ---------- *)
Definition res_empty (r : res) : bool := (r_cpu r =? 0) && (r_mem r =? 0).

Definition scale_on_starve (o : opts) (maxn : Z) (u : usage) (k : capacity) (untainted : list node) : bool :=
  o_starve o
  && ((negb (res_empty (u_big_cpu u)) && (r_cpu (k_big_cpu k) <? r_cpu (u_big_cpu u)))
      || (negb (res_empty (u_big_mem u)) && (r_mem (k_big_mem k) <? r_mem (u_big_mem u))))
  && (zlen untainted <? maxn).

Definition scale_on_max_age (e : env) (o : opts) (min : Z) (untainted tainted : list node) : bool :=
  if o_maxage o <=? 0 then false
  else if negb (zlen untainted =? min) || (zlen untainted =? 0) || (0 <? zlen tainted) then false
  else existsb (fun n => o_maxage o <? sat64 (e_now e - n_created n * 1000000000)) untainted.

(* ---------- registration-lag lookup (calculateNewNodeMetrics) ---------- *)
(* nodeRegTime.Sub(lastScaleOut) > 0, with Go's saturating Sub; a lastScaleOut that was never set is Go's zero time
   (year 1 = unix second -62135596800), so every node with a real creation time is "newer" and a node whose creation
   time is itself the zero value is not *)
Definition go_zero_unix : Z := -62135596800.
Definition newer_than (last : option Z) (n : node) : bool :=
  match last with
  | None => 0 <? sat64 (n_created n * 1000000000 - go_zero_unix * 1000000000)
  | Some t => 0 <? sat64 (n_created n * 1000000000 - t)
  end.

Definition registration_lag_calls (e : env) (st : gstate) (nodes : list node) : list acall :=
  if 0 <? g_delta st then
    concat (map (fun n => match get_instance_call (n_pid n) (negb (e_descinst_fail e)) with Some c => [c] | None => [] end)
                (filter (newer_than (g_last_out st)) nodes))
  else [].

(* ---------- the decision ---------- *)
Definition decide (o : opts) (st : gstate) (cpuP memP : f64) (cpuReq memReq : Z) (untainted : list node) : delta_result :=
  let maxP := fmax cpuP memP in
  if flt maxP (of_Z (o_lower o)) then DeltaOk (- o_fast o)
  else if flt maxP (of_Z (o_upper o)) then DeltaOk (- o_slow o)
  else if fgt maxP (of_Z (o_up o)) then
    calc_delta (zlen untainted) cpuP memP cpuReq memReq (o_up o) (fst (g_cache st)) (snd (g_cache st))
  else DeltaOk 0.

(* ---------- scaleNodeGroup ---------- *)
Record gresult := {
  r_tags : list Z;            (* decision tags, for coverage reports *)
  r_calls : list call;
  r_out : outcome;
  r_ret : Z;                  (* the delta scaleNodeGroup returns (RunOnce stores it as scaleDelta) *)
  r_state : gstate;
  r_asg : option asg
}.

Definition mk (tags : list Z) (calls : list call) (out : outcome) (ret : Z) (st : gstate) (a : option asg) : gresult :=
  {| r_tags := tags; r_calls := calls; r_out := out; r_ret := ret; r_state := st; r_asg := a |}.

(* tags *)
Definition T_both_empty := 1. Definition T_below_min_count := 2. Definition T_above_max := 3.
Definition T_below_min_untainted := 4. Definition T_pct_err := 5. Definition T_locked := 6.
Definition T_fast := 7. Definition T_slow := 8. Definition T_noop := 9. Definition T_up := 10.
Definition T_delta_err := 11. Definition T_starve := 12. Definition T_max_age := 13. Definition T_from_zero := 14.
Definition T_force_removed := 15. Definition T_force_err := 16. Definition T_fatal := 17. Definition T_action_err := 18.
Definition T_reaped := 19. Definition T_exit := 20. Definition T_dry := 21. Definition T_list_err := 22.

Definition group_pods (o : opts) (pods : list pod) : list pod :=
  filter (if o_name o =? id_default then pod_in_default else pod_in_group (o_lkey o) (o_lval o)) pods.
Definition group_nodes (o : opts) (nodes : list node) : list node :=
  filter (node_in_group (o_lkey o) (o_lval o)) nodes.

Definition first_alloc (n : node) : qty * qty :=
  (match n_cpu n with Some q => q | None => qty0 end, match n_mem n with Some q => q | None => qty0 end).

(* the action part of a scan: the decision d0 is known, the triggers may raise it, force removal runs first, then
   the scale-down / scale-up / reaper branch (controller.go:394-459) *)
Definition scan_act (e : env) (o : opts) (mn maxn : Z) (dry : bool) (st2 : gstate) (a : option asg)
           (pods : list pod) (untainted tainted forced : list node) (lag : list call) (tg0 : list Z)
           (us : usage) (cap : capacity) (d0 : Z) (from_zero : bool) : gresult :=
  let starve := scale_on_starve o maxn us cap untainted in
  let d1 := if starve then Z.max d0 1 else d0 in
  let aged := scale_on_max_age e o mn untainted tainted in
  let d2 := if aged then Z.max d1 1 else d1 in
  let tg := (if starve then [T_starve] else []) ++ (if aged then [T_max_age] else [])
            ++ (if from_zero then [T_from_zero] else []) ++ tg0 in
  (* force removal: errors are logged only *)
  let '(fcalls, ferr, a1) := try_delete_nodes e a (force_candidates dry pods forced) in
  let tg := (match ferr with Some _ => [T_force_err] | None => [] end)
            ++ (match fcalls with [] => [] | _ => [T_force_removed] end) ++ tg in
  if d2 <? 0 then
    (* ScaleDown: reap, then taint *)
    let '(rcalls, rerr, a2) := try_delete_nodes e a1 (reap_candidates e o dry pods tainted) in
    match rerr with
    | Some ErrNotInGroup => mk (T_fatal :: tg) (lag ++ fcalls ++ rcalls) OutFatal 0 st2 a2
    | _ =>
      let '(tcalls, terr, st3) := scale_down_taint e o mn dry st2 untainted (- d2) in
      mk ((if d0 =? - o_fast o then T_fast else T_slow) :: (if terr then [T_action_err] else [])
          ++ (match rcalls with [] => [] | _ => [T_reaped] end) ++ tg)
         (lag ++ fcalls ++ rcalls ++ tcalls) OutOk d2 st3 a2
    end
  else if 0 <? d2 then
    let r := scale_up e o maxn dry st2 a1 tainted d2 in
    let st3 := with_last_out (up_state r) (Some (e_now e)) in
    match up_out r with
    | OutExit => mk (T_exit :: tg) (lag ++ fcalls ++ up_calls r) OutExit 0 (up_state r) (up_asg r)   (* log.Fatalf inside ScaleUp: lastScaleOut is never assigned *)
    | OutErr => mk (T_up :: T_action_err :: tg) (lag ++ fcalls ++ up_calls r) OutOk d2 st3 (up_asg r)
    | _ => mk (T_up :: tg) (lag ++ fcalls ++ up_calls r) OutOk d2 st3 (up_asg r)
    end
  else
    let '(rcalls, rerr, a2) := try_delete_nodes e a1 (reap_candidates e o dry pods tainted) in
    match rerr with
    | Some ErrNotInGroup => mk (T_fatal :: tg) (lag ++ fcalls ++ rcalls) OutFatal 0 st2 a2
    | _ => mk (T_noop :: (match rerr with Some _ => [T_action_err] | None => [] end)
               ++ (match rcalls with [] => [] | _ => [T_reaped] end) ++ tg)
              (lag ++ fcalls ++ rcalls) OutOk d2 st2 a2
    end.

(* min / max are the effective values (after auto-discovery) *)
Definition scan_group (e : env) (o : opts) (min maxn : Z) (st : gstate) (a : option asg)
           (all_nodes : list node) (all_pods : list pod) : gresult :=
  let dry := e_dry e || o_dry o in
  let pods := group_pods o all_pods in
  let nodes := group_nodes o all_nodes in
  let st1 := match nodes with n :: _ => with_cache st (first_alloc n) | [] => st end in
  let cls := filter_nodes dry st1 nodes in
  let untainted := c_untainted cls in
  let tainted := c_tainted cls in
  let forced := c_forced cls in
  let tg := if dry then [T_dry] else [] in
  match nodes, pods with
  | [], [] => mk (T_both_empty :: tg) [] OutOk 0 st1 a
  | _, _ =>
    if zlen nodes <? min then mk (T_below_min_count :: tg) [] OutErr 0 st1 a
    else if maxn <? zlen nodes then mk (T_above_max :: tg) [] OutErr 0 st1 a
    else
      let us := pods_usage pods in
      let cap := nodes_capacity untainted pods in
      let lkr := lock_check (g_lock st1) (e_now e) (o_cool o) in
      let locked := fst lkr in
      let lk := snd lkr in
      let st2 := with_lock st1 lk in
      if negb locked && (zlen untainted <? min) then
        let r := scale_up e o maxn dry st2 a tainted (min - zlen untainted) in
        mk (T_below_min_untainted :: tg) (up_calls r) (up_out r) (up_ret r) (up_state r) (up_asg r)
      else
        let cpuReq := r_cpu (u_total us) in
        let memReq := 1000 * r_mem (u_total us) in
        match calc_percent cpuReq memReq (r_cpu (k_total cap)) (1000 * r_mem (k_total cap)) (zlen untainted) with
        | PctErr => mk (T_pct_err :: tg) [] OutErr 0 st2 a
        | PctOk cpuP memP =>
          if locked then mk (T_locked :: tg) [] OutOk (l_requested lk) st2 a
          else
            let lag := liftA (registration_lag_calls e st2 nodes) in
            match decide o st2 cpuP memP cpuReq memReq untainted with
            | DeltaErr d => mk (T_delta_err :: tg) lag OutErr d st2 a
            | DeltaOk d0 => scan_act e o min maxn dry st2 a pods untainted tainted forced lag tg us cap d0 (feq cpuP f_max)
            end
        end
  end.

(* ---------- RunOnce ---------- *)
Record group_in := { gi_opts : opts; gi_state : gstate; gi_aorc : aorc; gi_korc : korc; gi_descinst_fail : bool }.

Definition find_asg (cloud : list asg) (name : id) : option asg := find (fun a => a_name a =? name) cloud.
Fixpoint replace_asg (cloud : list asg) (a : asg) : list asg :=
  match cloud with [] => [] | x :: rest => if a_name x =? a_name a then a :: rest else x :: replace_asg rest a end.

Definition effective_min_max (o : opts) (a : asg) : Z * Z :=
  if (o_min o =? 0) && (o_max o =? 0) then (a_min a, a_max a) else (o_min o, o_max o).

Record snapshot := {
  s_now : Z; s_dry : bool;
  s_groups : list group_in;
  s_nodes : list node; s_pods : list pod;    (* what the listers return *)
  s_api : list node;                         (* what Get returns *)
  s_cloud : list asg                         (* the provider's view after Refresh *)
}.

(* per group: name, result (None: the group was never reached) *)
Fixpoint run_groups (s : snapshot) (gs : list group_in) (cloud : list asg) : list (id * gresult) * outcome :=
  match gs with
  | [] => ([], OutOk)
  | g :: rest =>
    let o := gi_opts g in
    match find_asg cloud (o_asg o) with
    | None => ([], OutErr)                 (* "could not find node group": RunOnce returns that (ordinary) error *)
    | Some a =>
      let '(mn, mx) := effective_min_max o a in
      let e := {| e_now := s_now s; e_dry := s_dry s; e_api := s_api s; e_korc := gi_korc g; e_aorc := gi_aorc g;
                  e_descinst_fail := gi_descinst_fail g |} in
      let r := scan_group e o mn mx (gi_state g) (Some a) (s_nodes s) (s_pods s) in
      let r' := mk (r_tags r) (r_calls r) (r_out r) (r_ret r) (with_delta (r_state r) (r_ret r)) (r_asg r) in
      match r_out r with
      | OutFatal => ([(o_name o, r')], OutFatal)
      | OutExit => ([(o_name o, r')], OutExit)
      | _ =>
        let cloud' := match r_asg r with Some a' => replace_asg cloud a' | None => cloud end in
        let '(rs, out) := run_groups s rest cloud' in
        ((o_name o, r') :: rs, out)
      end
    end
  end.

Definition run_once (s : snapshot) : list (id * gresult) * outcome := run_groups s (s_groups s) (s_cloud s).

(* ---------- RunOnce's prelude: refresh the provider, rebuilding it while the refresh fails ---------- *)
(* err := Refresh(); for i := 0; i < 2 && err != nil; i++ { sleep; provider, err = Build(); if err != nil { return err };
   err = provider.Refresh() }; the groups are scanned whatever err is then.  Refresh and Build both come down to one
   DescribeAutoScalingGroups call (Build: RegisterNodeGroups): ds lists the outcomes of the successive calls, a
   missing entry meaning success.  A rebuilt provider starts with fresh NodeGroup objects: the clean-up counters are 0. *)
Inductive prelude_result := PGo (rebuilt : bool) | PStop.

Fixpoint prelude_rounds (i : nat) (ds : list bool) : prelude_result :=
  match i with
  | O => PGo true
  | S i' =>
    match ds with
    | [] => PGo true
    | built :: ds' =>
      if built then
        match ds' with
        | [] => PGo true
        | refreshed :: ds'' => if refreshed then PGo true else prelude_rounds i' ds''
        end
      else PStop
    end
  end.

Definition prelude (ds : list bool) : prelude_result :=
  match ds with
  | [] => PGo false
  | refreshed :: ds' => if refreshed then PGo false else prelude_rounds 2 ds'
  end.

Definition reset_tries (s : snapshot) : snapshot :=
  {| s_now := s_now s; s_dry := s_dry s; s_groups := s_groups s; s_nodes := s_nodes s; s_pods := s_pods s; s_api := s_api s;
     s_cloud := map (fun a => set_tries a 0) (s_cloud s) |}.

(* the snapshot the groups are scanned from *)
Definition after_prelude (ds : list bool) (s : snapshot) : snapshot :=
  match prelude ds with PGo true => reset_tries s | _ => s end.

Definition run_once_p (ds : list bool) (s : snapshot) : list (id * gresult) * outcome :=
  match prelude ds with
  | PStop => ([], OutErr)          (* RunOnce returns Build's error: RunForever returns it and the process ends *)
  | PGo _ => run_once (after_prelude ds s)
  end.

(* ---------- RunForever: one run per tick until a run returns an error ---------- *)
(* for { <-ticker; err := RunOnce(); if err != nil { return err } }: every error RunOnce returns ends the loop (and, in
   cmd/main.go, the process).  Each tick comes with the refresh outcomes and the snapshot of that moment. *)
Fixpoint run_forever (ticks : list (list bool * snapshot)) : list (list (id * gresult) * outcome) :=
  match ticks with
  | [] => []
  | (ds, s) :: rest =>
    let r := run_once_p ds s in
    match snd r with OutOk => r :: run_forever rest | _ => [r] end
  end.
