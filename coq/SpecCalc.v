(* SpecCalc.v — C13 (utilisation definition) and C05 (scale-up size): the documented definitions written
   independently of the fold-based model (K8s.v / Calc.v), the Prop statements, and the boolean checkers that are
   evaluated on OBSERVED behaviour of the Go code.  Definitions only; proofs in proofs/CalcProofs.v, proofs/FloatProofs.v. *)
From Esc Require Export Calc.

(* ====================================================================================================== *)
(* C13 — definition of a pod's request                                                                    *)
(* ====================================================================================================== *)

(* the entries that are PRESENT in a list of containers (a missing request contributes nothing) *)
Definition present_cpu (cs : list ctr) : list Z :=
  flat_map (fun c => match c_cpu c with Some q => [q_milli q] | None => [] end) cs.
Definition present_mem (cs : list ctr) : list Z :=
  flat_map (fun c => match c_mem c with Some q => [q_value q] | None => [] end) cs.

(* the largest of b and the members of l *)
Definition zmax_list (b : Z) (l : list Z) : Z := fold_right Z.max b l.

(* m is the maximum of the base value b and the members of l (declarative: an upper bound that is attained) *)
Definition is_max_of (b : Z) (l : list Z) (m : Z) : Prop :=
  (m = b \/ In m l) /\ b <= m /\ Forall (fun v => v <= m) l.

Definition overhead_cpu (p : pod) : Z := match p_overhead p with Some o => oq_milli (c_cpu o) | None => 0 end.
Definition overhead_mem (p : pod) : Z := match p_overhead p with Some o => oq_value (c_mem o) | None => 0 end.

(* "max(sum of the containers, largest init container) + overhead", per resource *)
Definition spec_pod_cpu (p : pod) : Z :=
  zmax_list (sumZ (present_cpu (p_ctrs p))) (present_cpu (p_inits p)) + overhead_cpu p.
Definition spec_pod_mem (p : pod) : Z :=
  zmax_list (sumZ (present_mem (p_ctrs p))) (present_mem (p_inits p)) + overhead_mem p.

(* the same as a relation (no function in it that the model could share) *)
Definition P_pod_request (p : pod) (r : res) : Prop :=
  exists mc mm,
    is_max_of (sumZ (present_cpu (p_ctrs p))) (present_cpu (p_inits p)) mc /\
    is_max_of (sumZ (present_mem (p_ctrs p))) (present_mem (p_inits p)) mm /\
    r_cpu r = mc + overhead_cpu p /\ r_mem r = mm + overhead_mem p.

(* ---------- totals ---------- *)
Definition pod_pending (p : pod) : bool := p_phase p =? id_Pending.

Definition spec_req_cpu (pods : list pod) : Z := sumZ (map spec_pod_cpu pods).
Definition spec_req_mem (pods : list pod) : Z := sumZ (map spec_pod_mem pods).
(* largest pending request, as read by isScaleOnStarve: the maximum over pending pods, never below 0 *)
Definition spec_pend_cpu (pods : list pod) : Z := zmax_list 0 (map spec_pod_cpu (filter pod_pending pods)).
Definition spec_pend_mem (pods : list pod) : Z := zmax_list 0 (map spec_pod_mem (filter pod_pending pods)).

Definition spec_cap_cpu (nodes : list node) : Z := sumZ (map node_cpu nodes).
Definition spec_cap_mem (nodes : list node) : Z := sumZ (map node_mem nodes).

Definition pod_on (n : node) (p : pod) : bool := (p_node p =? n_name n) && pod_uses_node p.
Definition spec_avail_cpu (pods : list pod) (n : node) : Z :=
  node_cpu n - sumZ (map spec_pod_cpu (filter (pod_on n) pods)).
Definition spec_avail_mem (pods : list pod) (n : node) : Z :=
  node_mem n - sumZ (map spec_pod_mem (filter (pod_on n) pods)).
Definition spec_big_avail_cpu (nodes : list node) (pods : list pod) : Z := zmax_list 0 (map (spec_avail_cpu pods) nodes).
Definition spec_big_avail_mem (nodes : list node) (pods : list pod) : Z := zmax_list 0 (map (spec_avail_mem pods) nodes).

(* what isScaleOnStarve reads of the two results (the feature switch and the max-nodes test aside) *)
Definition starve_cond (u : usage) (k : capacity) : bool :=
  (negb ((r_cpu (u_big_cpu u) =? 0) && (r_mem (u_big_cpu u) =? 0)) && (r_cpu (k_big_cpu k) <? r_cpu (u_big_cpu u)))
  || (negb ((r_cpu (u_big_mem u) =? 0) && (r_mem (u_big_mem u) =? 0)) && (r_mem (k_big_mem k) <? r_mem (u_big_mem u))).
(* … which is a function of four numbers only (proved: starve_cond_numbers) *)
Definition starve_numbers (pend_cpu pend_mem avail_cpu avail_mem : Z) : bool :=
  (negb (pend_cpu =? 0) && (avail_cpu <? pend_cpu)) || (negb (pend_mem =? 0) && (avail_mem <? pend_mem)).

(* ====================================================================================================== *)
(* C13 — percent: exact-rational reading of a float view                                                  *)
(* ====================================================================================================== *)
Definition view := (Z * bool * Z * Z)%type.

(* value of a finite view as num/den with den > 0; None for infinities and NaN *)
Definition view_num_den (v : view) : option (Z * Z) :=
  let '(k, s, m, e) := v in
  if k =? 0 then Some (0, 1)
  else if k =? 1 then
    let m' := if s then - m else m in
    Some (if 0 <=? e then (m' * 2 ^ e, 1) else (m', 2 ^ (- e)))
  else None.

Definition two53 : Z := 9007199254740992.
Definition two63 : Z := 9223372036854775808.
Definition two31 : Z := 2147483648.

(* |v - 100 r / C| <= 5 * 2^-53 * (100 r / C), in integers (0 <= r, 0 < C) *)
Definition pct_close (v : view) (r C : Z) : bool :=
  match view_num_den v with
  | Some (a, b) => Z.abs (a * C - 100 * r * b) * two53 <=? 500 * r * b
  | None => false
  end.

Definition view_zero : view := (0, false, 0, 0).
Definition view_max : view := (1, false, 9007199254740991, 971).

(* the property of the percentages, for an observed answer (None = the error return) *)
Definition check_percent (cpuReq memReq cpuCap memCap n : Z) (obs : option (view * view)) : bool :=
  if (cpuReq =? 0) && (memReq =? 0) && (cpuCap =? 0) && (memCap =? 0) && (n =? 0) then
    match obs with Some (c, m) => view_eqb c view_zero && view_eqb m view_zero | None => false end
  else if (cpuCap =? 0) || (memCap =? 0) then
    if n =? 0 then match obs with Some (c, m) => view_eqb c view_max && view_eqb m view_max | None => false end
    else match obs with None => true | Some _ => false end
  else
    match obs with
    | None => false
    | Some (c, m) =>
        (if (0 <=? cpuReq) && (cpuReq <? two63) && (0 <? cpuCap) && (cpuCap <? two63) then pct_close c cpuReq cpuCap else true)
        && (if (0 <=? memReq) && (memReq <? two63) && (0 <? memCap) && (memCap <? two63) then pct_close m memReq memCap else true)
    end.

(* ====================================================================================================== *)
(* C05 — scale-up size                                                                                    *)
(* ====================================================================================================== *)
(* utilisation r / C strictly above t percent, decided exactly *)
Definition exceeds (r C t : Z) : bool := t * C <? 100 * r.

(* m nodes of size c hold r at or below t percent *)
Definition holds_at (r c t m : Z) : Prop := 100 * r <= t * m * c.

(* least number of equal-size nodes (cpu size cc, memory size cm) that hold both requests at or below t percent *)
Definition m_min (rc rm cc cm t : Z) : Z := Z.max (nodes_needed_exact rc cc t) (nodes_needed_exact rm cm t).

(* the exact rational formula of the code: n + ceil (n * (100 r / (n c) - t) / t) *)
Definition exact_delta (r c t n : Z) : Z := ceil_div (100 * r - t * n * c) (t * c).

(* magnitude region in which "sufficient" is proved for one resource: requests r and node size c share a
   granularity G (any common divisor; the checker takes the greatest) with 800 * (r / G) < 2^53 *)
Definition res_region (r c : Z) : bool := (r =? 0) || (800 * (r / Z.gcd r c) <? two53).
(* magnitude region in which "at most one more" is proved *)
Definition upper_region (m : Z) : bool := 8 * m <? two53.

(* one arithmetic case: the numbers scaleNodeGroup hands to calcPercentUsage / calcScaleUpDelta *)
Record arith_in := {
  a_cpu_req : Z;   (* requested milli-CPU                        *)
  a_mem_req : Z;   (* requested memory, bytes                    *)
  a_cpu_cap : Z;   (* capacity milli-CPU of the untainted nodes  *)
  a_mem_cap : Z;   (* capacity memory, bytes                     *)
  a_n       : Z;   (* number of untainted nodes                  *)
  a_thr     : Z;   (* scale_up_threshold_percent                 *)
  a_ccpu    : Z;   (* cached node size: milli-CPU                *)
  a_cmem    : Z    (* cached node size: bytes                    *)
}.

(* the model on one arithmetic case, called as scaleNodeGroup calls it (memory as milli-bytes; cache as quantities) *)
Definition arith_percent (a : arith_in) : pct_result :=
  calc_percent (a_cpu_req a) (1000 * a_mem_req a) (a_cpu_cap a) (1000 * a_mem_cap a) (a_n a).

Definition arith_delta (a : arith_in) (cp mp : f64) : delta_result :=
  calc_delta (a_n a) cp mp (a_cpu_req a) (1000 * a_mem_req a) (a_thr a)
             {| q_num := a_ccpu a; q_den := 1000 |} {| q_num := a_cmem a; q_den := 1 |}.

(* normal branch applies: equal-size nodes, positive sizes, some resource above the threshold *)
Definition c05_normal (a : arith_in) : bool :=
  (0 <? a_n a) && (0 <? a_thr a) && (0 <? a_cpu_cap a) && (0 <? a_mem_cap a)
  && (a_cpu_cap a mod a_n a =? 0) && (a_mem_cap a mod a_n a =? 0)
  && (0 <=? a_cpu_req a) && (0 <=? a_mem_req a)
  && (exceeds (a_cpu_req a) (a_cpu_cap a) (a_thr a) || exceeds (a_mem_req a) (a_mem_cap a) (a_thr a)).

(* scale-up from zero: no untainted node, no capacity, something requested *)
Definition c05_from_zero (a : arith_in) : bool :=
  (a_n a =? 0) && ((a_cpu_cap a =? 0) || (a_mem_cap a =? 0))
  && negb ((a_cpu_req a =? 0) && (a_mem_req a =? 0) && (a_cpu_cap a =? 0) && (a_mem_cap a =? 0)).
Definition c05_cached (a : arith_in) : bool := negb ((a_ccpu a =? 0) || (a_cmem a =? 0)).

Definition c05_m_min (a : arith_in) : Z :=
  m_min (a_cpu_req a) (a_mem_req a) (a_cpu_cap a / a_n a) (a_mem_cap a / a_n a) (a_thr a).
Definition c05_m_zero (a : arith_in) : Z :=
  m_min (a_cpu_req a) (a_mem_req a) (a_ccpu a) (a_cmem a) (a_thr a).

Definition in_range63 (lo z : Z) : bool := (lo <=? z) && (z <? two63).

(* input ranges of the error analysis, on the numbers as the code sees them (memory in milli-bytes) *)
Definition c05_ranges (a : arith_in) : bool :=
  in_range63 0 (a_cpu_req a) && in_range63 0 (1000 * a_mem_req a)
  && in_range63 1 (a_cpu_cap a) && in_range63 1 (1000 * a_mem_cap a)
  && (a_thr a <=? two31) && (a_n a <=? two31).

(* the proved "sufficient" region *)
Definition c05_region (a : arith_in) : bool :=
  if c05_normal a then
    c05_ranges a
    && res_region (a_cpu_req a) (a_cpu_cap a / a_n a)
    && res_region (1000 * a_mem_req a) (1000 * a_mem_cap a / a_n a)
  else if c05_from_zero a && c05_cached a then
    in_range63 0 (a_cpu_req a) && in_range63 0 (1000 * a_mem_req a)
    && in_range63 1 (a_ccpu a) && in_range63 1 (1000 * a_cmem a)
    && (1 <=? a_thr a) && (a_thr a <=? two31)
    && res_region (a_cpu_req a) (a_ccpu a)
    && res_region (1000 * a_mem_req a) (1000 * a_cmem a)
  else true.

(* the property, for an observed delta (d, error flag); None = calcScaleUpDelta was not reached (percent error) *)
Definition check_delta (a : arith_in) (obs : option (Z * bool)) : bool :=
  if c05_normal a then
    match obs with
    | Some (d, false) =>
        let m := c05_m_min a in
        (m <=? a_n a + d) && (if upper_region m then a_n a + d <=? m + 1 else true)
    | _ => false
    end
  else if c05_from_zero a then
    if c05_cached a then
      if (0 <? a_thr a) && (0 <? a_ccpu a) && (0 <? a_cmem a) && (0 <=? a_cpu_req a) && (0 <=? a_mem_req a) then
        match obs with
        | Some (d, false) =>
            let m := c05_m_zero a in
            (m <=? d) && (if upper_region m then d <=? m + 1 else true)
        | _ => false
        end
      else true
    else match obs with Some (d, false) => d =? 1 | _ => false end
  else true.
