(* Examples.v — a small concrete world used by the non-vacuity Examples of the property files. *)
From Esc Require Export SpecScan.

Definition ex_now_s : Z := 1790000000.
Definition ex_now : Z := ex_now_s * 1000000000.
Definition ns (s : Z) : Z := s * 1000000000.

Definition ex_opts : opts :=
  {| o_name := 100; o_lkey := 101; o_lval := 102; o_asg := 103; o_min := 1; o_max := 10; o_dry := false; o_starve := false;
     o_lower := 30; o_upper := 45; o_up := 70; o_slow := 1; o_fast := 2;
     o_soft := ns 300; o_hard := ns 900; o_cool := ns 600; o_maxage := 0; o_effect := id_empty |}.

Definition ex_pid (k : Z) : bytes := [97; 119; 115; 58; 47; 47; 47; 122; 47; 105; 48 + k].   (* aws:///z/i<k> *)
Definition ex_inst (k : Z) : instance := {| i_az := [122]; i_id := [105; 48 + k] |}.

Definition esc_taint_at (sec : Z) : taint := {| t_key := id_esc_key; t_val := print_dec sec; t_eff := id_NoSchedule; t_extra := 0 |}.
Definition force_taint : taint := {| t_key := id_force_key; t_val := []; t_eff := id_NoSchedule; t_extra := 0 |}.
Definition other_taint : taint := {| t_key := 400; t_val := [118]; t_eff := id_NoExecute; t_extra := 0 |}.

Definition ex_node (k : Z) (created : Z) (unsched : bool) (taints : list taint) (annots : list (id * id)) : node :=
  {| n_name := 200 + k; n_created := created; n_unsched := unsched; n_taints := taints; n_annots := annots;
     n_labels := [(101, 102)]; n_cpu := Some {| q_num := 4; q_den := 1 |}; n_mem := Some {| q_num := 16000000000; q_den := 1 |};
     n_pid := ex_pid k; n_rest := 7 |}.

(* n1 untainted; n2 tainted beyond the hard period and busy; n3 force-tainted and empty; n4 cordoned, tainted beyond hard;
   n5 tainted beyond soft, empty, annotated no-delete; n6 tainted 10 s ago; n7 untainted, older *)
Definition ex_nodes : list node :=
  [ ex_node 1 (ex_now_s - 5000) false [other_taint] [];
    ex_node 2 (ex_now_s - 6000) false [other_taint; esc_taint_at (ex_now_s - 1000)] [];
    ex_node 3 (ex_now_s - 7000) false [force_taint] [];
    ex_node 4 (ex_now_s - 8000) true [esc_taint_at (ex_now_s - 5000)] [];
    ex_node 5 (ex_now_s - 9000) false [esc_taint_at (ex_now_s - 400)] [(id_nodelete, 300)];
    ex_node 6 (ex_now_s - 9500) false [esc_taint_at (ex_now_s - 10)] [];
    ex_node 7 (ex_now_s - 9900) false [] [] ].

Definition ex_pod (k : Z) (node : id) (cpu_milli : Z) : pod :=
  {| p_name := 500 + k; p_node := node; p_ctrs := [ {| c_cpu := Some {| q_num := cpu_milli; q_den := 1000 |}; c_mem := Some {| q_num := 1000000000; q_den := 1 |} |} ];
     p_inits := []; p_overhead := None; p_owners := []; p_annots := []; p_selector := [(101, 102)]; p_affinity := None;
     p_phase := id_Running; p_conds := [(id_PodScheduled, id_True)] |}.

Definition ex_asg : asg :=
  {| a_name := 103; a_min := 0; a_max := 12; a_desired := 7; a_instances := map ex_inst [1; 2; 3; 4; 5; 6; 7];
     a_cfg := {| f_template := id_empty; f_lifecycle := id_empty; f_ntypes := 0 |}; a_tries := 0 |}.

Definition ex_korc : korc := {| ko_get_fail := []; ko_update_fail := []; ko_delete_fail := [] |}.
Definition ex_aorc : aorc :=
  {| ao_setdesired_fail := false; ao_describe := DescVpc [115; 49]; ao_fleet := FleetFail; ao_ready_at := Some 1%nat; ao_deadline := 1;
     ao_attach_fail := []; ao_term_fail := []; ao_terminasg_fail := [] |}.

Definition ex_group (o : opts) (st : gstate) : group_in :=
  {| gi_opts := o; gi_state := st; gi_aorc := ex_aorc; gi_korc := ex_korc; gi_descinst_fail := false |}.

(* utilisation of the two untainted nodes (8000 m): pods of total `milli` *)
Definition ex_pods (milli : Z) : list pod := [ex_pod 1 201 (milli - 500); ex_pod 2 202 500].

Definition ex_scan (o : opts) (st : gstate) (milli : Z) : gresult :=
  scan_of ex_now false ex_nodes (ex_group o st) (Some ex_asg) ex_nodes (ex_pods milli).
Definition ex_ctx (o : opts) (st : gstate) (milli : Z) : gctx :=
  ctx_of ex_now false ex_nodes (ex_group o st) (Some ex_asg) ex_nodes (ex_pods milli).

Definition removal_targets (calls : list call) : list (option bytes * option id) :=
  concat (map (fun c => match c with
                        | CA (ATermInAsg inst _ _) => [(Some inst, None)]
                        | CK (KDelete n _) => [(None, Some n)]
                        | _ => [] end) calls).
