(* Base.v — small executable utilities shared by the whole model: association lists over interned ids,
   decimal printing / strconv.ParseInt-style parsing on byte lists, string split, saturating int64,
   stable insertion sort.  Definitions only; proofs live in proofs/. *)
From Coq Require Export List ZArith Bool Lia.
Export ListNotations.
Open Scope Z_scope.

Definition id := Z.

(* ---- reserved interned ids: the harness's intern table maps exactly these strings to these numbers ---- *)
Definition id_empty        : id := 0.   (* ""                              *)
Definition id_DaemonSet    : id := 1.   (* "DaemonSet"                     *)
Definition id_file         : id := 2.   (* "file"                          *)
Definition id_In           : id := 3.   (* "In"                            *)
Definition id_cfgsrc       : id := 4.   (* "kubernetes.io/config.source"   *)
Definition id_NoSchedule   : id := 5.   (* "NoSchedule"                    *)
Definition id_esc_key      : id := 6.   (* "atlassian.com/escalator"       *)
Definition id_force_key    : id := 7.   (* "atlassian.com/escalator-force" *)
Definition id_nodelete     : id := 8.   (* "atlassian.com/no-delete"       *)
Definition id_Pending      : id := 9.   (* "Pending"                       *)
Definition id_Running      : id := 10.  (* "Running"                       *)
Definition id_PodScheduled : id := 11.  (* "PodScheduled"                  *)
Definition id_True         : id := 12.  (* "True"                          *)
Definition id_default      : id := 13.  (* "default"                       *)
Definition id_on_demand    : id := 14.  (* "on-demand"                     *)
Definition id_spot         : id := 15.  (* "spot"                          *)
Definition id_NoExecute    : id := 16.  (* "NoExecute"                     *)
Definition id_PreferNoSchedule : id := 17. (* "PreferNoSchedule"           *)

(* ---- association lists (Go maps with unique keys; first match = the match) ---- *)
Fixpoint assoc {A : Type} (k : id) (m : list (id * A)) : option A :=
  match m with
  | [] => None
  | (k', v) :: m' => if k' =? k then Some v else assoc k m'
  end.

Definition mem_id (x : id) (l : list id) : bool := existsb (fun y => y =? x) l.

Fixpoint list_eqb {A : Type} (eqb : A -> A -> bool) (a b : list A) : bool :=
  match a, b with
  | [], [] => true
  | x :: a', y :: b' => eqb x y && list_eqb eqb a' b'
  | _, _ => false
  end.

Definition bytes := list Z.
Definition bytes_eqb : bytes -> bytes -> bool := list_eqb Z.eqb.

Definition option_eqb {A : Type} (eqb : A -> A -> bool) (a b : option A) : bool :=
  match a, b with
  | None, None => true
  | Some x, Some y => eqb x y
  | _, _ => false
  end.

Definition pair_eqb {A B : Type} (ea : A -> A -> bool) (eb : B -> B -> bool) (a b : A * B) : bool :=
  ea (fst a) (fst b) && eb (snd a) (snd b).

(* ---- int64 ---- *)
Definition max_int64 : Z := 9223372036854775807.
Definition min_int64 : Z := -9223372036854775808.
Definition in_int64 (z : Z) : bool := (min_int64 <=? z) && (z <=? max_int64).
(* two's complement wrap-around of a mathematical integer into int64 *)
Definition wrap64 (z : Z) : Z := ((z + 9223372036854775808) mod 18446744073709551616) - 9223372036854775808.
(* saturation, as time.Time.Sub does *)
Definition sat64 (z : Z) : Z := if z <? min_int64 then min_int64 else if max_int64 <? z then max_int64 else z.

(* ---- decimal printing (fmt.Sprint of an int64) ---- *)
Definition ch_minus : Z := 45.
Definition ch_plus  : Z := 43.
Definition ch_0     : Z := 48.
Definition ch_slash : Z := 47.

(* digits of a non-negative number, most significant first; fuel = number of digits available *)
Fixpoint digits_fuel (fuel : nat) (z : Z) (acc : bytes) : bytes :=
  match fuel with
  | O => acc
  | S f => if z <? 10 then (ch_0 + z) :: acc
           else digits_fuel f (z / 10) ((ch_0 + z mod 10) :: acc)
  end.

(* enough fuel for any |z| < 10^40 *)
Definition print_nat_dec (z : Z) : bytes := digits_fuel 40 z [].

Definition print_dec (z : Z) : bytes :=
  if z <? 0 then ch_minus :: print_nat_dec (- z) else print_nat_dec z.

(* ---- strconv.ParseInt(s, 10, 64): optional sign, one or more ASCII digits, value within int64 ---- *)
Definition is_digit (c : Z) : bool := (48 <=? c) && (c <=? 57).

(* accumulate digits; None on a non-digit.  The accumulator is capped so that huge inputs stay cheap:
   once beyond 2^64 it can never come back into range. *)
Fixpoint parse_digits (s : bytes) (acc : Z) : option Z :=
  match s with
  | [] => Some acc
  | c :: s' => if is_digit c
               then parse_digits s' (let a := acc * 10 + (c - 48) in if 18446744073709551616 <? a then 18446744073709551616 else a)
               else None
  end.

Definition parse_int (s : bytes) : option Z :=
  let '(neg, body) :=
    match s with
    | c :: s' => if c =? ch_minus then (true, s') else if c =? ch_plus then (false, s') else (false, s)
    | [] => (false, [])
    end in
  match body with
  | [] => None
  | _ => match parse_digits body 0 with
         | None => None
         | Some m => let v := if neg then - m else m in
                     if in_int64 v then Some v else None
         end
  end.

(* ---- strings.Split(s, "/") ---- *)
Fixpoint split_on (sep : Z) (s : bytes) (cur : bytes) : list bytes :=
  match s with
  | [] => [rev cur]
  | c :: s' => if c =? sep then rev cur :: split_on sep s' [] else split_on sep s' (c :: cur)
  end.
Definition split_slash (s : bytes) : list bytes := split_on ch_slash s [].

(* ---- stable insertion sort on a key; `le a b = true` keeps a before b ---- *)
Section Sort.
  Context {A : Type} (le : A -> A -> bool).
  Fixpoint insert_sorted (x : A) (l : list A) : list A :=
    match l with
    | [] => [x]
    | y :: l' => if le x y then x :: l else y :: insert_sorted x l'
    end.
  (* foldr keeps stability: elements are inserted right-to-left and an element goes before equal ones *)
  Definition isort (l : list A) : list A := fold_right insert_sorted [] l.
End Sort.

(* ---- misc ---- *)
Fixpoint count_occ_b {A : Type} (f : A -> bool) (l : list A) : Z :=
  match l with [] => 0 | x :: l' => (if f x then 1 else 0) + count_occ_b f l' end.

Definition zlen {A : Type} (l : list A) : Z := Z.of_nat (length l).

Fixpoint sumZ (l : list Z) : Z := match l with [] => 0 | x :: l' => x + sumZ l' end.

(* indices (0-based) of the list elements satisfying f *)
Fixpoint indices_where {A : Type} (f : A -> bool) (l : list A) (i : nat) : list nat :=
  match l with
  | [] => []
  | x :: l' => if f x then i :: indices_where f l' (S i) else indices_where f l' (S i)
  end.
