(* Config.v — the node-group options record (controller.NodeGroupOptions) as the validator sees it, and the
   primitives the validation rules — the hand-written model (`model_rules`, SpecConfig.v) and the list re-derived
   from ValidateNodeGroup on every run (`gen_rules`, Generated.v) — are written in.  Definitions only; nothing here is generated and nothing here is proved.

   What is modelled by hand here and tied to the code by the C16 differential grid:
     * `dur_value`   = the lazily caching accessors SoftDeleteGracePeriodDuration() / HardDeleteGracePeriodDuration() /
                       ScaleUpCoolDownPeriodDuration(): 0 when time.ParseDuration fails, the parsed value otherwise (so
                       a parsed value of exactly 0, "0s", also gives 0).  The translator checks the SHAPE of each accessor
                       (parse field F, return 0 on error, cache) before mapping a call to `dur_value`.
     * `str_map_get` = indexing a Go map[string-like]bool that is a package-level composite literal: missing key = false.
     * `slen`        = len(s) of a Go string (bytes).
   What is NOT modelled: time.ParseDuration.  Its result is an input of the model (`d_parse`, None = error), supplied by
   the harness with every case from the real function. *)
From Coq Require Export String.
From Esc Require Export Base.
Open Scope Z_scope.

Definition slen (s : string) : Z := Z.of_nat (String.length s).

(* What an ITEM of coq/Generated.v (a constant, a tag table, the documented keys, the default taint effect, the rule
   list) is defined as when `harness gen` could not derive it from the source: the rest of the file is produced
   normally, and no statement about the missing item typechecks (same idea as `gen_untranslated_marker` of GenCtlBase.v).
   The names of the missing items and the translator's messages are listed in `gen_untranslated`. *)
Inductive gen_item_untranslated := GenItemUntranslated.

(* a duration-valued option: the raw text of the option and what time.ParseDuration returns for it *)
Record dur := { d_raw : string; d_parse : option Z }.

Definition dur_value (d : dur) : Z := match d_parse d with Some z => z | None => 0 end.
Definition dur_parse_ok (d : dur) : bool := match d_parse d with Some _ => true | None => false end.

(* Go: m[k] on a map[K]bool literal with string-like keys *)
Fixpoint str_map_get (m : list (string * bool)) (k : string) : bool :=
  match m with
  | [] => false
  | (k', v) :: m' => if String.eqb k' k then v else str_map_get m' k
  end.

Record cfg := {
  c_name         : string;   (* Name                               *)
  c_label_key    : string;   (* LabelKey                           *)
  c_label_value  : string;   (* LabelValue                         *)
  c_cloud_group  : string;   (* CloudProviderGroupName             *)
  c_min          : Z;        (* MinNodes                           *)
  c_max          : Z;        (* MaxNodes                           *)
  c_lower        : Z;        (* TaintLowerCapacityThresholdPercent *)
  c_upper        : Z;        (* TaintUpperCapacityThresholdPercent *)
  c_up           : Z;        (* ScaleUpThresholdPercent            *)
  c_slow         : Z;        (* SlowNodeRemovalRate                *)
  c_fast         : Z;        (* FastNodeRemovalRate                *)
  c_soft         : dur;      (* SoftDeleteGracePeriod              *)
  c_hard         : dur;      (* HardDeleteGracePeriod              *)
  c_cooldown     : dur;      (* ScaleUpCoolDownPeriod              *)
  c_max_node_age : dur;      (* MaxNodeAge                         *)
  c_taint_effect : string;   (* TaintEffect                        *)
  c_lifecycle    : string;   (* AWS.Lifecycle                      *)
  c_dry          : bool;     (* DryMode                            *)
  c_starve       : bool      (* ScaleOnStarve                      *)
}.
