#!/bin/sh
# usage: run.sh <mutant dir name> [props...] — correspondence of the scan properties against a mutated copy of /repo
export GOFLAGS=-mod=mod GOPROXY=off GOSUMDB=off GOTOOLCHAIN=local CGO_ENABLED=0
W=/tmp/vw/gen-mut
m=$1; shift
props="$@"
[ -z "$props" ] && props="C01 C02 C03 C04 C06 C07 C08 C09 C10 C11 C12 C15 C19 C20"
cd $W/harness && cp /tmp/vw/mut/$m/go.sum go.sum && go mod edit -replace github.com/atlassian/escalator=/tmp/vw/mut/$m && go build -tags verif -o bin/harness . || { echo "$m BUILD-FAILED"; exit 1; }
cd $W
for p in $props; do
  out=$(bin/corr $p quick 1 2>&1 | grep -v WARNING)
  python3 - "$m" "$p" <<PY
import sys,re,json
out='''$out'''
m=re.search(r"R (\[.*?\]) V (\[.*?\]) W", out)
ev=re.search(r"evaluations (\d+)", out)
if not m: print(sys.argv[1], sys.argv[2], "ERROR", out[-300:]); sys.exit()
R=eval(m.group(1)); V=eval(m.group(2))
extra=json.load(open("/tmp/vw/gen-mut/work/corr_%s/summary.json"%sys.argv[2])).get("extra",{})
nv=len(extra.get("violations",[]))
verdict = "VIOLATION(V: failing input)" if (V or nv) else ("VIOLATION(R only: no-failing-input-found)" if R else "quiet")
print("%s %s evals=%s R=%d V=%d pairviol=%d -> %s  firstV=%s firstR=%s" % (sys.argv[1], sys.argv[2], ev.group(1), len(R), len(V), nv, verdict, V[:1], R[:1]))
PY
done
