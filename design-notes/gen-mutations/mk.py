#!/usr/bin/env python3
# builds /tmp/vw/mut/M<k> = copy of /repo with one hand-edited mutation each
import shutil, os, sys
M = {
 "M01_grace_off_by_one": ("pkg/controller/scale_down.go",
    "if now.Sub(*taintedTime) > opts.nodeGroup.Opts.SoftDeleteGracePeriodDuration() {",
    "if now.Sub(*taintedTime) >= opts.nodeGroup.Opts.SoftDeleteGracePeriodDuration() {"),
 "M02_dry_guard_dropped": ("pkg/controller/scale_down.go",
    "\t\t\t\tif !drymode {\n\t\t\t\t\ttoBeDeleted = append(toBeDeleted, candidate)\n\t\t\t\t}",
    "\t\t\t\ttoBeDeleted = append(toBeDeleted, candidate)"),
 "M03_clamp_wrong_list": ("pkg/controller/scale_down.go",
    "if len(opts.untaintedNodes)-nodesToRemove < opts.nodeGroup.Opts.MinNodes {\n\t\t// Set the delta to maximum amount we can remove without going over\n\t\tnodesToRemove = len(opts.untaintedNodes) - opts.nodeGroup.Opts.MinNodes",
    "if len(opts.nodes)-nodesToRemove < opts.nodeGroup.Opts.MinNodes {\n\t\tnodesToRemove = len(opts.nodes) - opts.nodeGroup.Opts.MinNodes"),
 "M04_stale_nodeinfo_map": ("pkg/controller/controller.go",
    "\tnodeGroup.NodeInfoMap = k8s.CreateNodeNameToInfoMap(pods, allNodes)",
    "\tif nodeGroup.NodeInfoMap == nil {\n\t\tnodeGroup.NodeInfoMap = k8s.CreateNodeNameToInfoMap(pods, allNodes)\n\t}"),
 "M05_sort_direction": ("pkg/controller/scale_down.go",
    "sorted := make(nodesByOldestCreationTime, 0, len(nodes))",
    "sorted := make(nodesByNewestCreationTime, 0, len(nodes))"),
 "M06_cordon_check_moved": ("pkg/controller/controller.go",
    "\t\t\tif node.Spec.Unschedulable {\n\t\t\t\tcordonedNodes = append(cordonedNodes, node)\n\t\t\t\tcontinue\n\t\t\t}\n\n\t\t\t_, forceTainted = k8s.GetToBeForceRemovedTaint(node)\n\t\t\t_, tainted = k8s.GetToBeRemovedTaint(node)\n",
    "\t\t\t_, forceTainted = k8s.GetToBeForceRemovedTaint(node)\n\t\t\t_, tainted = k8s.GetToBeRemovedTaint(node)\n\t\t\tif node.Spec.Unschedulable && !tainted && !forceTainted {\n\t\t\t\tcordonedNodes = append(cordonedNodes, node)\n\t\t\t\tcontinue\n\t\t\t}\n"),
 "M07_lock_stale_time": ("pkg/controller/scale_lock.go",
    "\tl.lockTime = time.Now()",
    "\tif l.lockTime.IsZero() {\n\t\tl.lockTime = time.Now()\n\t}"),
 "M08_annotation_one_branch": ("pkg/controller/scale_down.go",
    "\t\tif why, ok := safeFromDeletion(candidate); ok {",
    "\t\tif why, ok := safeFromDeletion(candidate); ok && !k8s.NodeEmpty(candidate, opts.nodeGroup.NodeInfoMap) {"),
 "M09_buy_before_reuse": ("pkg/controller/scale_up.go",
    "\tif len(opts.taintedNodes) == 0 {",
    "\tif len(opts.taintedNodes) < nodesToAdd {"),
 "M10_clamp_cloud_max_only": ("pkg/controller/scale_up.go",
    "\tif int64(opts.nodeGroup.Opts.MaxNodes) < maxNodes {\n\t\tmaxNodes = int64(opts.nodeGroup.Opts.MaxNodes)\n\t}\n",
    ""),
 "M11_taint_write_drops_others": ("pkg/k8s/taint.go",
    "\tupdatedNode.Spec.Taints = append(updatedNode.Spec.Taints, apiv1.Taint{",
    "\tupdatedNode.Spec.Taints = append(updatedNode.Spec.Taints[:0], apiv1.Taint{"),
 "M12_k8s_delete_before_cloud": ("pkg/controller/scale_down.go",
    "\t\terr := cloudProviderNodeGroup.DeleteNodes(toBeDeleted...)\n",
    "\t\t_ = k8s.DeleteNodes(toBeDeleted, c.Client)\n\t\terr := cloudProviderNodeGroup.DeleteNodes(toBeDeleted...)\n"),
 "M13_below_min_before_lock": ("pkg/controller/controller.go",
    "\tif !locked && len(untaintedNodes) < nodeGroup.Opts.MinNodes {",
    "\tif len(untaintedNodes) < nodeGroup.Opts.MinNodes {"),
 "M14_autodiscover_only_at_start": ("pkg/controller/controller.go",
    "\t\tif nodeGroupOpts.autoDiscoverMinMaxNodeOptions() {\n\t\t\tstate.Opts.MinNodes = int(cloudProviderNodeGroup.MinSize())",
    "\t\tif nodeGroupOpts.autoDiscoverMinMaxNodeOptions() && state.Opts.MaxNodes == 0 {\n\t\t\tstate.Opts.MinNodes = int(cloudProviderNodeGroup.MinSize())"),
 "M15_untaint_oldest_first": ("pkg/controller/scale_up.go",
    "sorted := make(nodesByNewestCreationTime, 0, len(nodes))",
    "sorted := make(nodesByOldestCreationTime, 0, len(nodes))"),
 "M16_error_ends_scan": ("pkg/controller/controller.go",
    "\t\t\tdefault:\n\t\t\t\tlog.Warn(err)\n\t\t\t}\n",
    "\t\t\tdefault:\n\t\t\t\tlog.Warn(err)\n\t\t\t\treturn err\n\t\t\t}\n"),
 "M17_hard_grace_ignores_pods_early": ("pkg/controller/scale_down.go",
    "if k8s.NodeEmpty(candidate, opts.nodeGroup.NodeInfoMap) || now.Sub(*taintedTime) > opts.nodeGroup.Opts.HardDeleteGracePeriodDuration() {",
    "if k8s.NodeEmpty(candidate, opts.nodeGroup.NodeInfoMap) || now.Sub(*taintedTime) >= opts.nodeGroup.Opts.HardDeleteGracePeriodDuration() {"),
 "M18_restamp_on_scale_down": ("pkg/k8s/taint.go",
    "\tif taintExists {\n\t\tlog.Debugf(\"%v already present on node %v\", ToBeRemovedByAutoscalerKey, updatedNode.Name)\n\t\treturn updatedNode, nil\n\t}\n",
    "\tif taintExists {\n\t\tfor i := range updatedNode.Spec.Taints {\n\t\t\tif updatedNode.Spec.Taints[i].Key == ToBeRemovedByAutoscalerKey {\n\t\t\t\tupdatedNode.Spec.Taints[i].Value = fmt.Sprint(time.Now().Unix())\n\t\t\t}\n\t\t}\n\t\treturn client.CoreV1().Nodes().Update(context.TODO(), updatedNode, metav1.UpdateOptions{})\n\t}\n"),
}
only = sys.argv[1:]
for name,(f,old,new) in M.items():
    if only and name not in only: continue
    d = "/tmp/vw/mut/"+name
    if os.path.exists(d): shutil.rmtree(d)
    shutil.copytree("/tmp/vw/mut/base", d)
    p = os.path.join(d,f); s = open(p).read()
    assert s.count(old)==1, (name, s.count(old))
    open(p,"w").write(s.replace(old,new))
    print("built", name)
