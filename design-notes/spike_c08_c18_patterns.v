From Coq Require Import ZArith List Bool Lia Permutation Sorted.
Import ListNotations. Open Scope Z_scope.

(* ---- C08 pattern: stable insertion sort + "taint first n successes" loop with a failure oracle ---- *)
Record node := { n_name : Z; n_created : Z }.

Fixpoint insert (x : node) (l : list node) : list node :=
  match l with
  | [] => [x]
  | y :: r => if n_created y <=? n_created x then y :: insert x r else x :: l   (* stable: after equals *)
  end.
Definition sort_oldest (l : list node) : list node := fold_right insert [] l.

Definition le_created a b := n_created a <= n_created b.

Lemma insert_perm x l : Permutation (x :: l) (insert x l).
Proof. induction l as [|y r IH]; simpl; [reflexivity|]. destruct (_ <=? _); [|reflexivity].
  rewrite perm_swap. now apply perm_skip. Qed.
Lemma sort_perm l : Permutation l (sort_oldest l).
Proof. induction l as [|x l IH]; simpl; [constructor|]. rewrite <- insert_perm. now constructor. Qed.

Lemma insert_sorted x l : StronglySorted le_created l -> StronglySorted le_created (insert x l).
Proof.
  induction 1 as [|y r Hs IH Hall]; simpl; [repeat constructor|].
  destruct (Z.leb_spec (n_created y) (n_created x)).
  - constructor; [exact IH|]. rewrite <- (insert_perm x r). constructor; [exact H|exact Hall].
  - constructor; [constructor; assumption|]. constructor; [unfold le_created; lia|].
    eapply Forall_impl; [|exact Hall]. unfold le_created; intros; lia.
Qed.
Lemma sort_sorted l : StronglySorted le_created (sort_oldest l).
Proof. induction l; simpl; [constructor|now apply insert_sorted]. Qed.

(* fails : name -> bool is the oracle; returns (tainted names, failed names), attempts in order *)
Fixpoint taint_loop (fails : Z -> bool) (cands : list node) (n : nat) : list node * list node :=
  match n, cands with
  | O, _ => ([], [])
  | _, [] => ([], [])
  | S n', c :: rest =>
      if fails (n_name c)
      then let '(t, f) := taint_loop fails rest n in (t, c :: f)
      else let '(t, f) := taint_loop fails rest n' in (c :: t, f)
  end.

Lemma loop_inv fails cands : forall n t f,
  taint_loop fails cands n = (t, f) ->
  StronglySorted le_created cands ->
  forall x y, In y t -> In x cands -> ~ In x t -> n_created x < n_created y -> In x f.
Proof.
  induction cands as [|c rest IH]; intros n t f H Hs x y Hy Hx Hnx Hlt.
  - destruct n; inversion H; subst; contradiction.
  - destruct n as [|n']; [inversion H; subst; contradiction|].
    simpl in H. inversion Hs as [|? ? Hs' Hall]; subst.
    destruct (fails (n_name c)) eqn:Hf.
    + destruct (taint_loop fails rest (S n')) as [t' f'] eqn:E. inversion H; subst.
      destruct Hx as [->|Hx]; [left; reflexivity|]. right. eapply IH; eauto.
    + destruct (taint_loop fails rest n') as [t' f'] eqn:E. inversion H; subst.
      destruct Hx as [->|Hx]; [exfalso; apply Hnx; left; reflexivity|].
      destruct Hy as [<-|Hy].
      * rewrite Forall_forall in Hall. specialize (Hall _ Hx). unfold le_created in Hall. lia.
      * eapply IH; eauto. intro; apply Hnx; right; assumption.
Qed.

Theorem c08_oldest_first fails (untainted : list node) (n : nat) t f :
  taint_loop fails (sort_oldest untainted) n = (t, f) ->
  forall x y, In y t -> In x untainted -> ~ In x t -> n_created x < n_created y -> In x f.
Proof.
  intros H x y Hy Hx. eapply loop_inv; eauto using sort_sorted.
  eapply Permutation_in; [apply sort_perm|exact Hx].
Qed.
Print Assumptions c08_oldest_first.

(* ---- C18 pattern: batching partitions the list, every batch <= size ---- *)
Fixpoint chunks_fuel (fuel : nat) (k : nat) (l : list Z) : list (list Z) :=
  match fuel with
  | O => []
  | S fu => match l with [] => [] | _ => firstn k l :: chunks_fuel fu k (skipn k l) end
  end.
Definition chunks k l := chunks_fuel (length l) k l.

Lemma chunks_fuel_concat k : (0 < k)%nat -> forall fuel l, (length l <= fuel)%nat -> concat (chunks_fuel fuel k l) = l.
Proof.
  intros Hk; induction fuel as [|fu IH]; intros l Hl.
  - destruct l; [reflexivity|simpl in Hl; lia].
  - destruct l as [|a l']; [reflexivity|]. cbn [chunks_fuel concat].
    rewrite IH. apply firstn_skipn.
    rewrite skipn_length. cbn [length] in *. lia.
Qed.
Theorem chunks_partition k l : (0 < k)%nat -> concat (chunks k l) = l.
Proof. intros; apply chunks_fuel_concat; auto. Qed.
Theorem chunks_bound k l : Forall (fun b => (length b <= k)%nat) (chunks k l).
Proof.
  unfold chunks. generalize (length l) as fuel. intros fuel; revert l.
  induction fuel as [|fu IH]; intros l; [constructor|].
  destruct l; [constructor|]. cbn [chunks_fuel]. constructor; [apply firstn_le_length|apply IH].
Qed.
Print Assumptions chunks_partition.
Eval vm_compute in map (@length Z) (chunks 1000 (map Z.of_nat (seq 0 2500))).
