From Coq Require Import ZArith Reals Lra Lia Psatz.
From Flocq Require Import Core.
From Flocq Require Import BinarySingleNaN.
From Flocq Require Import Relative.
Open Scope R_scope.

Definition prec := 53%Z.
Definition emax := 1024%Z.
#[local] Instance Hprec : Prec_gt_0 prec. Proof. unfold Prec_gt_0, prec; lia. Qed.
#[local] Instance Hmax : Prec_lt_emax prec emax. Proof. unfold Prec_lt_emax, prec, emax; lia. Qed.
Definition f64 := binary_float prec emax.
Definition fdiv : f64 -> f64 -> f64 := Bdiv mode_NE.
Notation fexp := (SpecFloat.fexp prec emax).
Notation rnd := (round radix2 fexp ZnearestE).
Definition u := / 9007199254740992.

Lemma fexp_FLT : forall e, fexp e = FLT_exp (-1074) 53 e.
Proof. intros; unfold SpecFloat.fexp, FLT_exp, SpecFloat.emin, prec, emax; lia. Qed.

Lemma rnd_rel x :
  bpow radix2 (-1022) <= Rabs x ->
  exists eps, Rabs eps <= u /\ rnd x = x * (1 + eps).
Proof.
  intros Hx.
  destruct (relative_error_N_FLT_ex radix2 (-1074) 53 ltac:(lia) (fun z => negb (Z.even z)) x) as [eps [He Hr]].
  { simpl. replace (-1074 + 53 - 1)%Z with (-1022)%Z by lia. exact Hx. }
  exists eps; split.
  - unfold u. replace (-53+1)%Z with (-52)%Z in He by lia.
    replace (/ 9007199254740992) with (/2 * bpow radix2 (-52)); [exact He|].
    simpl; lra.
  - rewrite <- Hr. unfold round, scaled_mantissa, cexp. now rewrite fexp_FLT.
Qed.

Lemma fdiv_rel (x y : f64) :
  is_finite x = true -> is_finite y = true -> B2R y <> 0 ->
  bpow radix2 (-1022) <= Rabs (B2R x / B2R y) -> Rabs (B2R x / B2R y) <= bpow radix2 1000 ->
  exists eps, Rabs eps <= u /\ B2R (fdiv x y) = B2R x / B2R y * (1 + eps) /\ is_finite (fdiv x y) = true.
Proof.
  intros Fx Fy Hy Hlo Hhi.
  destruct (rnd_rel _ Hlo) as [eps [He Hr]].
  generalize (Bdiv_correct prec emax Hprec Hmax mode_NE x y Hy).
  rewrite Rlt_bool_true.
  - intros [H1 [H2 _]]. exists eps; repeat split; try assumption.
    + unfold fdiv. rewrite H1. simpl round_mode. exact Hr.
    + unfold fdiv. rewrite H2. exact Fx.
  - simpl round_mode. rewrite Hr. rewrite Rabs_mult.
    assert (Rabs (1+eps) <= 2).
    { apply Rabs_le. unfold u in He. apply Rabs_le_inv in He. lra. }
    apply Rle_lt_trans with (bpow radix2 1000 * 2).
    + apply Rmult_le_compat; try apply Rabs_pos; assumption.
    + change 2 with (bpow radix2 1). rewrite <- bpow_plus. apply bpow_lt. unfold emax; lia.
Qed.
Print Assumptions fdiv_rel.
