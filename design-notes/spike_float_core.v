From Coq Require Import Reals Lra Lia Psatz.
From Interval Require Import Tactic.
Open Scope R_scope.

Definition u := / 9007199254740992. (* 2^-53 *)

Lemma theta_bound e1 e2 e3 e4 :
  Rabs e1 <= u -> Rabs e2 <= u -> Rabs e3 <= u -> Rabs e4 <= u ->
  Rabs ((1+e1)*(1+e3)*(1+e4)/(1+e2) - 1) <= 41/10 * u.
Proof.
  unfold u; intros H1 H2 H3 H4.
  interval with (i_prec 200).
Qed.

Lemma eta_bound d5 d6 d7 :
  Rabs d5 <= u -> Rabs d6 <= u -> Rabs d7 <= u ->
  Rabs ((1+d5)*(1+d6)*(1+d7) - 1) <= 31/10 * u.
Proof.
  unfold u; intros H1 H2 H3.
  interval with (i_prec 200).
Qed.

(* algebraic core: x~ - x in terms of theta, eta *)
Lemma core p t n th et :
  0 < p -> 1 <= t -> 1 <= n ->
  Rabs th <= 41/10*u -> Rabs et <= 31/10*u ->
  t < p*(1+th) ->
  Rabs (n * ((p*(1+th) - t) * (1+et)) / t - n * (p - t) / t) <= 8 * u * (n * p / t).
Proof.
  intros Hp Ht Hn Hth Het Hgt.
  assert (Hu : 0 < u) by (unfold u; lra).
  replace (n * ((p*(1+th) - t) * (1+et)) / t - n * (p - t) / t)
    with ((n / t) * (p*th + (p*(1+th) - t)*et)) by (field; lra).
  rewrite Rabs_mult.
  assert (Hnt : 0 < n / t) by (apply Rdiv_lt_0_compat; lra).
  rewrite (Rabs_pos_eq (n/t)) by lra.
  replace (8 * u * (n * p / t)) with ((n/t) * (8*u*p)) by (field; lra).
  apply Rmult_le_compat_l; [lra|].
  eapply Rle_trans; [apply Rabs_triang|].
  rewrite !Rabs_mult.
  rewrite (Rabs_pos_eq p) by lra.
  assert (H1 : p * Rabs th <= p * (41/10*u)) by (apply Rmult_le_compat_l; lra).
  assert (H0 : 0 <= p*(1+th) - t) by lra.
  rewrite (Rabs_pos_eq (p*(1+th) - t)) by lra.
  assert (H2 : (p*(1+th) - t) * Rabs et <= (p*(1+th)) * (31/10*u)).
  { apply Rmult_le_compat; try lra. apply Rabs_pos. }
  assert (Hth' : th <= 41/10*u) by (eapply Rle_trans; [apply Rle_abs|exact Hth]).
  assert (H3 : p*(1+th) <= p*(1+41/10*u)) by (apply Rmult_le_compat_l; lra).
  assert (Hsmall : 41/10*u <= 1/1000) by (unfold u; lra).
  assert (H4 : p*(1+th)*(31/10*u) <= p*(1+1/1000)*(31/10*u)).
  { apply Rmult_le_compat_r; [lra|]. apply Rmult_le_compat_l; lra. }
  nra.
Qed.
Print Assumptions core.
