package main

// Histories: several scans of ONE controller instance over one evolving world.  Every scan is emitted as its own
// scan_case whose snapshot is the ACTUAL pre-scan state (controller memory read through VerifGetState, the simulated
// ASGs = what Refresh will see, the API store, the listed objects), so the single-scan model and checkers apply
// unchanged while everything the real controller carries between scans is exercised.

import (
	"encoding/json"
	"fmt"
	"sort"
	"strconv"
	"time"

	awsprov "github.com/atlassian/escalator/pkg/cloudprovider/aws"
	v1 "k8s.io/api/core/v1"
	metav1 "k8s.io/apimachinery/pkg/apis/meta/v1"
)

// hEdit is one thing the environment does between two scans.
//
//	where: "" = the API server and the lister both see it; "api" = only the API server (the lister lags);
//	       "listed" = only the listed copy (the lister shows something the API server does not hold)
type hEdit struct {
	Op      string   `json:"op"`
	Node    string   `json:"node,omitempty"`
	Pod     string   `json:"pod,omitempty"`
	Obj     *v1.Node `json:"obj,omitempty"`     // add_node
	PodObj  *v1.Pod  `json:"pod_obj,omitempty"` // add_pod
	Key     string   `json:"key,omitempty"`
	Val     string   `json:"val,omitempty"`
	Effect  string   `json:"effect,omitempty"`
	AgeSec  *int64   `json:"age_sec,omitempty"` // taint: value = scan second - age; add_node: creation = scan second - age
	Front   bool     `json:"front,omitempty"`   // taint: put it in front of the existing taints
	Where   string   `json:"where,omitempty"`
	ASG     string   `json:"asg,omitempty"`
	Min     *int64   `json:"min,omitempty"`
	Max     *int64   `json:"max,omitempty"`
	Desired *int64   `json:"desired,omitempty"`
	Inst    *SimInst `json:"inst,omitempty"`
}

type stepOracle struct {
	Aws *AwsOracle `json:"aws,omitempty"`
	K8s *korcSpec  `json:"k8s,omitempty"`
}

type histStep struct {
	AdvanceSec int64                 `json:"advance_sec"`       // virtual time that passes before this scan
	OffsetNs   int64                 `json:"offset_ns"`         // sub-second part of the scan instant
	Restart    bool                  `json:"restart,omitempty"` // a new Controller (and provider) over the same world
	SleepMs    int64                 `json:"sleep_ms,omitempty"` // REAL time that passes before this scan (things stamped with the real clock)
	NoShift    bool                  `json:"no_shift,omitempty"` // time is the real clock only: stored timestamps are left as they are (values keep their identity from scan to scan)
	Lag        []string              `json:"lag,omitempty"`     // nodes whose listed copy is NOT refreshed from the API server ("*": all)
	Edits      []hEdit               `json:"edits,omitempty"`
	Oracle     map[string]stepOracle `json:"oracle,omitempty"` // by node group name; absent = no failure
	RefreshSeq []bool                `json:"refresh_seq,omitempty"` // outcomes of this scan's provider refresh / rebuild describes (missing = ok)
	Note       string                `json:"note,omitempty"`
}

type histSpec struct {
	History  bool       `json:"history"`
	Init     *scanSpec  `json:"init"`
	Steps    []histStep `json:"steps"`
	EmitOnly *int       `json:"emit_only,omitempty"` // replay: emit only this scan
	Note     string     `json:"note,omitempty"`
	Known    string     `json:"known_finding,omitempty"`
	Shape    string     `json:"shape,omitempty"`
	Fleet    bool       `json:"fleet,omitempty"` // a fleet-mode group is present: wider real-clock margins
}

// genCase is one generated input: a single scan or a history.
type genCase struct {
	Single *scanSpec
	Hist   *histSpec
	Pair   string // C12 metamorphic pairs: cases with the same non-empty Pair are compared (see scan_pairs.go)
	Varied string // the node group the two worlds of a pair differ in
}

func isHistoryJSON(raw json.RawMessage) bool {
	var probe struct {
		History bool `json:"history"`
	}
	return json.Unmarshal(raw, &probe) == nil && probe.History
}

// ---------- the evolving world ----------

type histWorld struct {
	w      *world
	init   *scanSpec
	order  []string            // registration order of node names (the lister's order)
	listed map[string]*v1.Node // what the lister returns (pristine: the state the informer was last told)
	// the informer cache's own objects, handed to the controller by pointer: replaced only when the informer is told a new
	// state of the node, so anything the controller writes into them survives from scan to scan like in the real cache
	live   map[string]*v1.Node
	liveRV map[string]string
	pods   []*v1.Pod
	// virtual-time bookkeeping (seconds), for the deterministic margin validator
	vnow       float64
	vArm, vOut map[string]*float64 // virtual instant the lock was armed / of the last scale-out; nil = zero time
}

func shiftNodeTimes(n *v1.Node, dSec int64, refSec int64) {
	if !n.CreationTimestamp.IsZero() {
		n.CreationTimestamp = metav1.NewTime(n.CreationTimestamp.Add(-time.Duration(dSec) * time.Second))
	}
	for i := range n.Spec.Taints {
		if n.Spec.Taints[i].Key == escKey {
			n.Spec.Taints[i].Value = shiftTaintValue(n.Spec.Taints[i].Value, -dSec, refSec)
		}
	}
}

// shift lets dSec seconds of virtual time pass: every stored timestamp moves dSec into the past.
func (h *histWorld) shift(dSec int64, refSec int64) {
	if dSec == 0 {
		return
	}
	h.w.ctl.VerifShiftClock(time.Duration(dSec) * time.Second)
	h.w.api.mu.Lock()
	for _, n := range h.w.api.store {
		shiftNodeTimes(n, dSec, refSec)
	}
	h.w.api.mu.Unlock()
	for name, n := range h.listed {
		current := h.live[name] != nil && h.liveRV[name] == contentRV(n)
		shiftNodeTimes(n, dSec, refSec)
		if h.live[name] != nil {
			shiftNodeTimes(h.live[name], dSec, refSec)
			if current {
				h.liveRV[name] = contentRV(n)
			}
		}
	}
}

// deliver returns the cache objects for the given (pristine) listing: a node whose state the informer already holds keeps its object.
func (h *histWorld) deliver(nodes []*v1.Node) []*v1.Node {
	if h.live == nil {
		h.live, h.liveRV = map[string]*v1.Node{}, map[string]string{}
	}
	out := make([]*v1.Node, 0, len(nodes))
	seen := map[string]bool{}
	for _, p := range nodes {
		rv := contentRV(p)
		if h.live[p.Name] == nil || h.liveRV[p.Name] != rv || seen[p.Name] {
			h.live[p.Name], h.liveRV[p.Name] = stampRV(p), rv
		}
		seen[p.Name] = true
		out = append(out, h.live[p.Name])
	}
	for name := range h.live {
		if !seen[name] {
			delete(h.live, name)
			delete(h.liveRV, name)
		}
	}
	return out
}

// syncLister: the informer catches up with the API server, except for the lagging nodes.
func (h *histWorld) syncLister(lag []string) {
	lagAll := false
	lagSet := map[string]bool{}
	for _, n := range lag {
		if n == "*" {
			lagAll = true
		}
		lagSet[n] = true
	}
	if lagAll {
		return
	}
	h.w.api.mu.Lock()
	defer h.w.api.mu.Unlock()
	known := map[string]bool{}
	for _, name := range h.order {
		known[name] = true
		if lagSet[name] {
			continue
		}
		if n, ok := h.w.api.store[name]; ok {
			h.listed[name] = n.DeepCopy()
		} else {
			delete(h.listed, name)
		}
	}
	fresh := []string{}
	for name := range h.w.api.store {
		if !known[name] {
			fresh = append(fresh, name)
		}
	}
	sort.Strings(fresh)
	for _, name := range fresh {
		h.order = append(h.order, name)
		h.listed[name] = h.w.api.store[name].DeepCopy()
	}
}

func (h *histWorld) listedNodes() []*v1.Node {
	out := []*v1.Node{}
	for _, name := range h.order {
		if n, ok := h.listed[name]; ok {
			out = append(out, n.DeepCopy())
		}
	}
	return out
}

func (h *histWorld) forCopies(name, where string, f func(n *v1.Node)) {
	if where == "" || where == "api" {
		h.w.api.mu.Lock()
		if n, ok := h.w.api.store[name]; ok {
			f(n)
		}
		h.w.api.mu.Unlock()
	}
	if where == "" || where == "listed" {
		if n, ok := h.listed[name]; ok {
			f(n)
		}
	}
}

func (h *histWorld) apply(e hEdit, baseSec int64) error {
	switch e.Op {
	case "add_pod":
		h.pods = append(h.pods, e.PodObj.DeepCopy())
	case "del_pod":
		out := h.pods[:0:0]
		for _, p := range h.pods {
			if p.Name != e.Pod {
				out = append(out, p)
			}
		}
		h.pods = out
	case "move_pod": // the pod runs on Node now ("" = it is pending again)
		for i, p := range h.pods {
			if p.Name == e.Pod {
				c := p.DeepCopy()
				c.Spec.NodeName = e.Node
				if e.Node == "" {
					c.Status.Phase = v1.PodPending
					c.Status.Conditions = nil
				} else {
					c.Status.Phase = v1.PodRunning
					c.Status.Conditions = []v1.PodCondition{{Type: v1.PodScheduled, Status: v1.ConditionTrue}}
				}
				h.pods[i] = c
			}
		}
	case "add_node":
		n := e.Obj.DeepCopy()
		if e.AgeSec != nil {
			n.CreationTimestamp = metav1.NewTime(time.Unix(baseSec-*e.AgeSec, 0))
		}
		if e.Where == "" || e.Where == "api" {
			h.w.api.mu.Lock()
			h.w.api.store[n.Name] = n.DeepCopy()
			h.w.api.mu.Unlock()
		}
		if e.Where == "" || e.Where == "listed" {
			if _, ok := h.listed[n.Name]; !ok {
				seen := false
				for _, o := range h.order {
					if o == n.Name {
						seen = true
					}
				}
				if !seen {
					h.order = append(h.order, n.Name)
				}
			}
			h.listed[n.Name] = n.DeepCopy()
		}
	case "del_node":
		if e.Where == "" || e.Where == "api" {
			h.w.api.mu.Lock()
			delete(h.w.api.store, e.Node)
			h.w.api.mu.Unlock()
		}
		if e.Where == "" || e.Where == "listed" {
			delete(h.listed, e.Node)
		}
	case "cordon":
		h.forCopies(e.Node, e.Where, func(n *v1.Node) { n.Spec.Unschedulable = true })
	case "uncordon":
		h.forCopies(e.Node, e.Where, func(n *v1.Node) { n.Spec.Unschedulable = false })
	case "taint":
		val := e.Val
		if e.AgeSec != nil {
			val = strconv.FormatInt(baseSec-*e.AgeSec, 10)
		}
		eff := v1.TaintEffect(e.Effect)
		if eff == "" {
			eff = v1.TaintEffectNoSchedule
		}
		h.forCopies(e.Node, e.Where, func(n *v1.Node) {
			t := v1.Taint{Key: e.Key, Value: val, Effect: eff}
			if e.Front {
				n.Spec.Taints = append([]v1.Taint{t}, n.Spec.Taints...)
			} else {
				n.Spec.Taints = append(n.Spec.Taints, t)
			}
		})
	case "untaint": // removes every taint with the key
		h.forCopies(e.Node, e.Where, func(n *v1.Node) {
			out := n.Spec.Taints[:0:0]
			for _, t := range n.Spec.Taints {
				if t.Key != e.Key {
					out = append(out, t)
				}
			}
			n.Spec.Taints = out
		})
	case "annotate":
		h.forCopies(e.Node, e.Where, func(n *v1.Node) {
			if n.Annotations == nil {
				n.Annotations = map[string]string{}
			}
			n.Annotations[e.Key] = e.Val
		})
	case "unannotate":
		h.forCopies(e.Node, e.Where, func(n *v1.Node) { delete(n.Annotations, e.Key) })
	case "asg":
		h.w.sim.mu.Lock()
		if g, ok := h.w.sim.groups[e.ASG]; ok {
			if e.Min != nil {
				g.Min = *e.Min
			}
			if e.Max != nil {
				g.Max = *e.Max
			}
			if e.Desired != nil {
				g.Desired = *e.Desired
			}
		}
		h.w.sim.mu.Unlock()
	case "add_instance":
		h.w.sim.mu.Lock()
		if g, ok := h.w.sim.groups[e.ASG]; ok {
			g.Instances = append(g.Instances, *e.Inst)
		}
		h.w.sim.mu.Unlock()
	case "del_instance":
		h.w.sim.mu.Lock()
		if g, ok := h.w.sim.groups[e.ASG]; ok {
			out := g.Instances[:0:0]
			for _, i := range g.Instances {
				if i.ID != e.Inst.ID {
					out = append(out, i)
				}
			}
			g.Instances = out
		}
		h.w.sim.mu.Unlock()
	default:
		return fmt.Errorf("unknown history edit %q", e.Op)
	}
	return nil
}

// effective builds the spec of the scan that is about to run from the ACTUAL state of the world and the controller.
func (h *histWorld) effective(baseSec, offsetNs int64, st *histStep, realNow time.Time) *scanSpec {
	es := &scanSpec{BaseSec: baseSec, OffsetNs: offsetNs, GlobalDry: h.init.GlobalDry, Tries: map[string]int{}}
	for _, g := range h.init.Groups {
		cs := h.w.ctl.VerifGetState(g.Opts.Name)
		ss := stateSpec{Locked: cs.Locked, Requested: cs.Requested, ScaleDelta: cs.ScaleDelta, CacheCPU: cs.CPUCapMilli, CacheMem: cs.MemCapBytes,
			TaintTracker: cs.TaintTracker, ForceTracker: cs.ForceTaintTracker}
		if !cs.LockTime.IsZero() {
			ss.LockAgeNs = i64p(int64(realNow.Sub(cs.LockTime)))
		}
		if !cs.LastScaleOut.IsZero() {
			ss.LastOutAgeNs = i64p(int64(realNow.Sub(cs.LastScaleOut)))
		}
		gs := groupSpec{Opts: g.Opts, State: ss, Aws: defaultAwsOracle()}
		gs.Aws.VPC, gs.Aws.ReadyAt, gs.Aws.DeadlinePolls = g.Aws.VPC, g.Aws.ReadyAt, g.Aws.DeadlinePolls // fixed at provider construction
		if so, ok := st.Oracle[g.Opts.Name]; ok {
			if so.Aws != nil {
				gs.Aws = *so.Aws
				gs.Aws.DeadlinePolls = g.Aws.DeadlinePolls // a property of the provider's configuration, not of one scan
			}
			if so.K8s != nil {
				gs.K8s = *so.K8s
			}
		}
		es.Groups = append(es.Groups, gs)
		if ngi, ok := h.w.prov.GetNodeGroup(g.Opts.CloudProviderGroupName); ok {
			es.Tries[g.Opts.CloudProviderGroupName] = ngi.(*awsprov.NodeGroup).VerifTerminateTries()
		}
	}
	es.RefreshSeq = st.RefreshSeq
	es.Nodes = h.listedNodes()
	for _, p := range h.pods {
		es.Pods = append(es.Pods, p.DeepCopy())
	}
	h.w.api.mu.Lock()
	names := []string{}
	for name := range h.w.api.store {
		names = append(names, name)
	}
	sort.Strings(names)
	es.API = []*v1.Node{}
	for _, name := range names {
		es.API = append(es.API, h.w.api.store[name].DeepCopy())
	}
	h.w.api.mu.Unlock()
	h.w.sim.mu.Lock()
	es.Cloud = h.w.sim.snapshotGroups()
	h.w.sim.mu.Unlock()
	return es
}

// marginsOK: every comparison that reads the REAL clock is at least `m` seconds away from its boundary, judged on
// virtual time (deterministic), and at least 1.2 s on the actual values.
func (h *histWorld) marginsOK(es *scanSpec, m float64) (bool, string) {
	far := func(x, bound float64, mm float64) bool { d := x - bound; return d >= mm || d <= -mm }
	for _, g := range es.Groups {
		o := g.Opts
		name := o.Name
		cool := o.ScaleUpCoolDownPeriodDuration().Seconds()
		if va := h.vArm[name]; va != nil && !far(h.vnow-*va, cool, m) {
			return false, "lock age within margin of the cool-down (virtual)"
		}
		if g.State.LockAgeNs != nil && !far(float64(*g.State.LockAgeNs)/1e9, cool, 1.2) {
			return false, "lock age within margin of the cool-down (real)"
		}
		var grpNodes []*v1.Node
		for _, n := range es.Nodes {
			if n.Labels[o.LabelKey] == o.LabelValue {
				grpNodes = append(grpNodes, n)
			}
		}
		if g.State.ScaleDelta > 0 {
			if vo := h.vOut[name]; vo != nil {
				outAge := h.vnow - *vo
				for _, n := range grpNodes {
					if n.CreationTimestamp.IsZero() {
						continue
					}
					nodeAge := float64(es.BaseSec - n.CreationTimestamp.Unix())
					if !far(nodeAge, outAge, m) {
						return false, "node creation within margin of the last scale-out (virtual)"
					}
				}
			}
			if g.State.LastOutAgeNs != nil {
				for _, n := range grpNodes {
					if n.CreationTimestamp.IsZero() {
						continue
					}
					nodeAge := float64(es.BaseSec - n.CreationTimestamp.Unix())
					if !far(nodeAge, float64(*g.State.LastOutAgeNs)/1e9, 1.2) {
						return false, "node creation within margin of the last scale-out (real)"
					}
				}
			}
		}
		if ma := o.MaxNodeAgeDuration().Seconds(); ma > 0 {
			for _, n := range grpNodes {
				if n.CreationTimestamp.IsZero() {
					continue
				}
				if !far(float64(es.BaseSec-n.CreationTimestamp.Unix()), ma, m) {
					return false, "node age within margin of max_node_age"
				}
			}
		}
	}
	return true, ""
}

// canonStamps rewrites escalator taint values written during the last scan (the real clock's second, or the next)
// to the scan's own second, in the API store.
func (h *histWorld) canonStamps(baseSec int64) {
	h.w.api.mu.Lock()
	defer h.w.api.mu.Unlock()
	for _, n := range h.w.api.store {
		for i := range n.Spec.Taints {
			t := &n.Spec.Taints[i]
			if t.Key != escKey {
				continue
			}
			if v, err := strconv.ParseInt(t.Value, 10, 64); err == nil && v > baseSec && v <= baseSec+3 && strconv.FormatInt(v, 10) == t.Value {
				t.Value = strconv.FormatInt(baseSec, 10)
			}
		}
	}
}

type histScan struct {
	Spec    *scanSpec
	Obs     scanObs
	Skipped string // non-empty: not emitted (a real-clock comparison too close to its boundary)
}

// runHistory executes the history; one histScan per step.
func runHistory(hs *histSpec) ([]histScan, error) {
	scanMu.Lock()
	defer scanMu.Unlock()
	init := hs.Init
	base0 := time.Now().Unix()
	init.rebase(base0)
	w, err := newWorld(init)
	if err != nil {
		return nil, err
	}
	h := &histWorld{w: w, init: init, listed: map[string]*v1.Node{}, vArm: map[string]*float64{}, vOut: map[string]*float64{}}
	for _, n := range init.Nodes {
		h.order = append(h.order, n.Name)
		h.listed[n.Name] = n.DeepCopy()
	}
	for _, p := range init.Pods {
		h.pods = append(h.pods, p.DeepCopy())
	}
	w.setStates(time.Now())
	for _, g := range init.Groups {
		if g.State.LockAgeNs != nil {
			v := -float64(*g.State.LockAgeNs) / 1e9
			h.vArm[g.Opts.Name] = &v
		}
		if g.State.LastOutAgeNs != nil {
			v := -float64(*g.State.LastOutAgeNs) / 1e9
			h.vOut[g.Opts.Name] = &v
		}
	}
	margin := 3.0
	if hs.Fleet {
		margin = 20.0
	}
	prevBase := base0
	out := []histScan{}
	for k := range hs.Steps {
		st := &hs.Steps[k]
		if st.SleepMs > 0 {
			time.Sleep(time.Duration(st.SleepMs) * time.Millisecond)
		}
		baseSec := time.Now().Unix()
		// virtual time: the stored timestamps age by AdvanceSec, whatever the real clock did meanwhile
		if st.NoShift {
			st.AdvanceSec = baseSec - prevBase
		} else {
			h.shift(st.AdvanceSec-(baseSec-prevBase), baseSec)
		}
		h.vnow += float64(st.AdvanceSec)
		prevBase = baseSec
		if st.Restart {
			if err := w.build(); err != nil {
				return nil, err
			}
			h.vArm, h.vOut = map[string]*float64{}, map[string]*float64{}
			h.live, h.liveRV = nil, nil // a new process starts with a fresh informer cache
		}
		h.syncLister(st.Lag)
		for _, e := range st.Edits {
			if err := h.apply(e, baseSec); err != nil {
				return nil, err
			}
		}
		es := h.effective(baseSec, st.OffsetNs, st, time.Now())
		es.Note = fmt.Sprintf("%s step %d %s", hs.Shape, k, st.Note)
		w.spec = es
		w.pods.pods = es.Pods
		w.nodes.nodes = h.deliver(es.Nodes)
		ok, why := h.marginsOK(es, margin)
		obs := w.scanOnce(false)
		hsn := histScan{Spec: es, Obs: obs}
		if !ok {
			hsn.Skipped = why
		} else if time.Since(time.Unix(baseSec, 0)) > slowLimit(es)+time.Second {
			hsn.Skipped = "slow scan: the real clock ran away from the scan's second (machine under load)"
		}
		out = append(out, hsn)
		h.canonStamps(baseSec)
		// bookkeeping of the real-clock timestamps in virtual time
		for _, g := range obs.Groups {
			if !g.State.LockTime.Equal(obs.PreLock[g.Name]) {
				v := h.vnow
				h.vArm[g.Name] = &v
			}
			if !g.State.LastScaleOut.Equal(obs.PreOut[g.Name]) {
				v := h.vnow
				h.vOut[g.Name] = &v
			}
		}
		if obs.Out >= 1 { // an error returned by RunOnce (the main loop returns it and the process ends), exit or panic: the process would have ended here
			break
		}
	}
	return out, nil
}

// truncated returns the spec that replays exactly scan k of the history.
func (hs *histSpec) truncated(k int) *histSpec {
	c := *hs
	c.Steps = hs.Steps[:k+1]
	c.EmitOnly = &k
	return &c
}
