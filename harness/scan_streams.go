package main

// Per-property boundary-directed streams of the scan engine (run first), then histories, then random worlds.

import (
	"fmt"
	"math/rand"
	"time"

	v1 "k8s.io/api/core/v1"
)

type streamCtx struct {
	rng      *rand.Rand
	base     int64
	thorough bool
	shapeMap map[string]func(v int) *histSpec // every history shape by name (set by histShapes)
}

var nsOffsets = []int64{0, 1, 999999999}

// sample keeps every case in the thorough tier and about `keep` of them (evenly spread, plus a random few) in quick.
func (c *streamCtx) sample(cases []genCase, keep int) []genCase {
	if c.thorough || len(cases) <= keep {
		return cases
	}
	out := []genCase{}
	step := float64(len(cases)) / float64(keep)
	for i := 0; i < keep; i++ {
		j := int(float64(i)*step) + c.rng.Intn(int(step)+1)
		if j >= len(cases) {
			j = len(cases) - 1
		}
		out = append(out, cases[j])
	}
	return out
}

// genScanCases: the property's directed stream, then histories, then free-combination random worlds.
func genScanCases(prop, tier string, rng *rand.Rand) []genCase {
	c := &streamCtx{rng: rng, base: time.Now().Unix(), thorough: tier == "thorough"}
	cases := []genCase{}
	directed := map[string]func() []genCase{
		"C01": c.dirC01, "C02": c.dirC02, "C03": c.dirC03C06, "C04": c.dirC04, "C06": c.dirC03C06, "C07": c.dirC07, "C08": c.dirC08,
		"C09": func() []genCase { return c.dirBranches("cordon") }, "C10": func() []genCase { return c.dirBranches("annot") },
		"C11": func() []genCase { return c.dirBranches("dry") }, "C12": c.dirC12, "C15": c.dirC15, "C19": c.dirC19, "C20": c.dirC20, "C05S": c.dirC05S,
		"C18S": c.dirC18S,
		"C13S": func() []genCase { return append(c.dirBranches("cordon"), c.sampleN(c.dirC03C06(), 150)...) },
	}
	nRandom, nHist := 150, 14
	if c.thorough {
		nRandom, nHist = 4000, 250
	}
	if prop == "SCAN" {
		per := 45
		if c.thorough {
			per = 100000
		}
		for _, p := range scanProps {
			if p == "C06" {
				continue // same stream as C03
			}
			cases = append(cases, c.sample(directed[p](), per)...)
		}
		nHist = 30
		if c.thorough {
			nHist = 500
		}
	} else if f, ok := directed[prop]; ok {
		cases = append(cases, f()...)
	}
	if prop == "SCAN" || prop == "C20" {
		cases = append(cases, c.dirRare()...)
	}
	cases = append(cases, c.histories(prop, nHist)...)
	for i := 0; i < nRandom; i++ {
		cfg := worldCfg{Fail: 1, Big: i%10 == 0, Malformed: i%4 == 0 || prop == "C20", Fleet: prop == "SCAN" && i%70 == 5}
		if c.thorough {
			cfg.Fail = 2
			cfg.Fleet = i%400 == 5
		}
		cfg.Ties = prop == "C07" || prop == "C08" || prop == "SCAN"
		switch prop {
		case "C11":
			cfg.Dry = true
		case "C12":
			cfg.Groups = 2 + i%2
		}
		g := &wgen{rng: rng, base: c.base, cfg: cfg}
		w := g.world()
		w.Note = "random world"
		cases = append(cases, genCase{Single: w})
	}
	return cases
}

// ---------- occupancy of a node under test ----------
const (
	occNone = iota
	occDaemonSet
	occGroupPod
	occForeignPod
	occPendingScheduled
	occDaemonSetAndPod
	occKinds
)

func occupy(b *gbuild, n *v1.Node, kind int) {
	switch kind {
	case occDaemonSet:
		b.pod(n.Name, 100, 100<<20, daemonset())
	case occGroupPod:
		b.pod(n.Name, 100, 100<<20)
	case occForeignPod:
		b.foreignPod(n.Name)
	case occPendingScheduled:
		p := b.pod(n.Name, 100, 100<<20)
		p.Status.Phase = v1.PodPending
	case occDaemonSetAndPod:
		b.pod(n.Name, 100, 100<<20, daemonset())
		b.pod(n.Name, 100, 100<<20)
	}
}

var annotVariants = []*string{nil, strp(""), strp("true"), strp("do not delete: batch job 42 is still running on this node")}

func strp(s string) *string { return &s }

// applyAnnot sets the no-delete annotation; every annotated node also carries well-known annotations of other tools with
// values that mean "off" there (what protects a node is escalator's own key and nothing else; map iteration order is random)
func applyAnnot(n *v1.Node, a *string) {
	if a != nil {
		annotated(noDeleteKey, *a)(n)
		annotated("cluster-autoscaler.kubernetes.io/scale-down-disabled", "false")(n)
		annotated("node.alpha.kubernetes.io/ttl", "0")(n)
		annotated("atlassian.com/no-delete-reason", "")(n)
	}
}

// graceAges: the taint ages (seconds) around both grace periods.
func graceAges(soft, hard int64) []int64 {
	return []int64{soft - 1, soft, soft + 1, hard - 1, hard, hard + 1}
}

var oddTaintValues = []string{"", "abc", "+5", " 5", "5 ", "1e3", "0x10", "1_000", "0", "-1", "-5", "1", "-62135596800", "-62135596801", "253402300799", "253402300800",
	"9223372036854775807", "9223372036854775808", "99999999999999999999", "-9223372036854775808", "-9223372036854775809", "9223371974719179008", "true", "-", "+", "--5", "١٢٣"}

// ---------- C01 (also the removal side of C10, C19) ----------
func (c *streamCtx) dirC01() []genCase {
	out := []genCase{}
	base := c.base
	idx := 0
	world := func(off int64, pct int64, build func(b *gbuild)) *scanSpec {
		s := newSpec(base, off)
		b := s.group("g1")
		b.o.MinNodes = 0
		b.node(0, 7200)
		b.node(1, 7300)
		build(b)
		b.util(pct, 0, true, false)
		b.done()
		return s
	}
	// age x emptiness (packed: one node per occupancy kind) x cordon x annotation, alternating no-op and scale-down bands
	for _, cord := range []bool{false, true} {
		for _, an := range annotVariants[:3] {
			for _, age := range graceAges(300, 900) {
				for _, off := range nsOffsets {
					idx++
					pct := []int64{55, 20, 40}[idx%3]
					s := world(off, pct, func(b *gbuild) {
						for k := 0; k < occKinds; k++ {
							n := b.node(2+k, 8000+int64(k), escAge(base, age))
							n.Spec.Unschedulable = cord
							applyAnnot(n, an)
							occupy(b, n, k)
						}
					})
					out = append(out, single(s, fmt.Sprintf("C01 grid age=%d off=%d cordon=%v annot=%v band=%d", age, off, cord, an != nil, pct)))
				}
			}
		}
	}
	if c.thorough { // the same grid, one node under test per world, other grace periods
		for _, d := range durGrid[2:6] {
			soft, hard := int64(durOf(d.soft)/time.Second), int64(durOf(d.hard)/time.Second)
			for _, age := range graceAges(soft, hard) {
				for _, off := range nsOffsets {
					for k := 0; k < occKinds; k++ {
						s := newSpec(base, off)
						b := s.group("g1")
						b.o.MinNodes, b.o.SoftDeleteGracePeriod, b.o.HardDeleteGracePeriod = 0, d.soft, d.hard
						b.node(0, 7200)
						n := b.node(1, 8000, escAge(base, age))
						occupy(b, n, k)
						b.util(55, 0, true, false)
						b.done()
						out = append(out, single(s, fmt.Sprintf("C01 single soft=%s hard=%s age=%d off=%d occ=%d", d.soft, d.hard, age, off, k)))
					}
				}
			}
		}
	}
	// sub-second grace periods: the boundary sits inside a second
	for _, off := range []int64{0, 1, 499999999, 500000000, 500000001, 999999999} {
		for _, age := range []int64{1, 2, 3} {
			s := newSpec(base, off)
			b := s.group("g1")
			b.o.MinNodes, b.o.SoftDeleteGracePeriod, b.o.HardDeleteGracePeriod = 0, "1500ms", "2500ms"
			b.node(0, 7200)
			n1 := b.node(1, 8000, escAge(base, age))
			n2 := b.node(2, 8001, escAge(base, age))
			occupy(b, n2, occGroupPod)
			_ = n1
			b.util(55, 0, true, false)
			b.done()
			out = append(out, single(s, fmt.Sprintf("C01 sub-second grace age=%d off=%d", age, off)))
		}
	}
	// taint values that are not a plain recent unix time
	vals := append([]string{}, oddTaintValues...)
	vals = append(vals, "+"+fmt.Sprint(base-901), "000"+fmt.Sprint(base-901), fmt.Sprint(base-901)+".0", fmt.Sprint(base+3600), fmt.Sprint(base+2))
	for i, v := range vals {
		s := world(nsOffsets[i%3], []int64{55, 20}[i%2], func(b *gbuild) {
			b.node(2, 8000, escVal(v))
			n := b.node(3, 8001, escVal(v))
			occupy(b, n, occGroupPod)
		})
		out = append(out, single(s, fmt.Sprintf("C01 taint value %q", v)))
	}
	// force taint (alone and next to the escalator taint) x emptiness x cordon x annotation
	for _, cord := range []bool{false, true} {
		for _, an := range annotVariants[:3] {
			for _, both := range []int64{-1, 10, 301, 901} {
				idx++
				s := world(nsOffsets[idx%3], []int64{55, 20, 100}[idx%3], func(b *gbuild) {
					for k := 0; k < occKinds; k++ {
						opts := []nodeOpt{forced()}
						if both >= 0 {
							if k%2 == 0 {
								opts = append(opts, escAge(base, both))
							} else {
								opts = append([]nodeOpt{escAge(base, both)}, opts...)
							}
						}
						n := b.node(2+k, 8000+int64(k), opts...)
						n.Spec.Unschedulable = cord
						applyAnnot(n, an)
						occupy(b, n, k)
					}
				})
				out = append(out, single(s, fmt.Sprintf("C01 force taint both=%d cordon=%v annot=%v", both, cord, an != nil)))
			}
		}
	}
	// dry mode: candidates are only logged
	for i, gl := range []bool{false, true} {
		s := newSpec(base, nsOffsets[i])
		s.GlobalDry = gl
		b := s.group("g1")
		b.o.MinNodes, b.o.DryMode = 0, !gl
		b.node(0, 7200)
		b.node(1, 7300)
		b.node(2, 8000, escAge(base, 1000))
		b.node(3, 8001, forced())
		b.st.TaintTracker, b.st.ForceTracker = []string{b.nodeName(2)}, []string{b.nodeName(3)}
		b.util(55, 0, true, false)
		b.done()
		out = append(out, single(s, "C01 dry mode"))
	}
	// the k-th terminate / delete of a batch fails; the cloud group's minimum forbids the batch
	for k := 0; k < 3; k++ {
		for _, what := range []string{"terminate", "delete", "get-unrelated"} {
			for _, path := range []string{"reap", "force"} {
				s := world(0, 55, func(b *gbuild) {
					for i := 0; i < 3; i++ {
						if path == "reap" {
							b.node(2+i, 8000+int64(i), escAge(base, 1000))
						} else {
							b.node(2+i, 8000+int64(i), forced())
						}
					}
					switch what {
					case "terminate":
						b.aws.TermInAsgFail = []string{b.instanceOf(2 + k)}
						b.aws.ErrCode = []string{"", "ValidationError", "Throttling"}[(k+len(out))%3]
					case "delete":
						b.k8s.DeleteFail = []string{b.nodeName(2 + k)}
					default:
						b.k8s.GetFail = []string{b.nodeName(2 + k)}
					}
				})
				out = append(out, single(s, fmt.Sprintf("C01 %s: %s #%d fails", path, what, k)))
			}
		}
	}
	for _, dd := range []int64{0, 1, 2, 3, 4} { // desired - 3 candidates against ASG min 2: refused below, accepted from desired = 5
		s := newSpec(base, 0)
		b := s.group("g1")
		b.o.MinNodes = 0
		b.node(0, 7200)
		b.node(1, 7300)
		for i := 0; i < 3; i++ {
			b.node(2+i, 8000+int64(i), escAge(base, 1000))
		}
		b.asgMin, b.desiredDelta = 2, dd-3
		b.util(55, 0, true, false)
		b.done()
		out = append(out, single(s, fmt.Sprintf("C01 ASG minimum: desired=%d min=2 batch=3", 5+dd-3)))
	}
	return out
}

// ---------- C02 ----------
func (c *streamCtx) dirC02() []genCase {
	out := []genCase{}
	base := c.base
	type need struct {
		name  string
		build func(b *gbuild)
		pct   int64
	}
	needs := []need{
		{"below-minimum", func(b *gbuild) {
			b.o.MinNodes = 4
			b.node(2, 8000, escAge(base, 100))
			b.node(3, 8100, escAge(base, 1000))
			b.node(4, 8200, cordoned())
		}, 55},
		{"force-tainted empty", func(b *gbuild) { b.node(2, 8000, forced()) }, 55},
		{"grace expired", func(b *gbuild) { b.node(2, 8000, escAge(base, 1000)) }, 55},
		{"overload", func(b *gbuild) { b.node(2, 8000, escAge(base, 100)) }, 150},
		{"idle", func(b *gbuild) { b.node(2, 8000) }, 5},
		{"below-minimum, nothing to untaint", func(b *gbuild) { b.o.MinNodes = 3; b.node(2, 8000, cordoned()); b.node(3, 8100, forced()) }, 55},
		{"from zero", func(b *gbuild) {
			b.nodes = nil
			b.o.MinNodes = 0
			b.st.CacheCPU, b.st.CacheMem = 4000, 16*gib
			b.pod("", 3000, gib)
		}, -1},
	}
	for _, cool := range []string{"10m", "45s", "1h"} {
		cs := int64(durOf(cool) / time.Second)
		type lk struct {
			name   string
			locked bool
			age    *int64
		}
		locks := []lk{{"never armed", false, nil}, {"flag without time", true, nil}, {"just armed", true, i64p(3)}, {"mid", true, i64p(cs / 2)},
			{"about to expire", true, i64p(cs - 3)}, {"just expired", true, i64p(cs + 3)}, {"long expired", true, i64p(cs + 3600)},
			{"stale time, flag clear, inside", false, i64p(cs / 2)}, {"stale time, flag clear, outside", false, i64p(cs + 60)}}
		for _, l := range locks {
			for ni, nd := range needs {
				if !c.thorough && cool != "10m" && ni%3 != 0 {
					continue
				}
				s := newSpec(base, nsOffsets[(ni+len(l.name))%3])
				b := s.group("g1")
				b.o.ScaleUpCoolDownPeriod = cool
				b.node(0, 7200)
				b.node(1, 7300)
				nd.build(b)
				b.st.Locked, b.st.Requested = l.locked, 2
				if l.age != nil {
					b.st.LockAgeNs = i64p(sec(*l.age))
				}
				if nd.pct >= 0 {
					b.util(nd.pct, 0, true, false)
				}
				b.done()
				out = append(out, single(s, fmt.Sprintf("C02 cool=%s lock=%s need=%s", cool, l.name, nd.name)))
				// the provider refresh fails first: RunOnce sleeps, rebuilds the provider and must still honour the lock it holds
				if cool == "10m" && (l.name == "mid" || l.name == "never armed") && (ni == 0 || ni == 3 || (c.thorough && ni < 5)) {
					s2 := cloneSpec(s)
					s2.RefreshFails = 1
					if c.thorough && ni == 3 && l.name == "mid" {
						s2.RefreshFails = 2
					}
					out = append(out, single(s2, fmt.Sprintf("C02 refresh fails %dx cool=%s lock=%s need=%s", s2.RefreshFails, cool, l.name, nd.name)))
				}
			}
		}
	}
	// arming: accepted, refused and failing increases; dry mode arms too
	for i, v := range []string{"ok", "setdesired fails", "at max", "dry"} {
		s := newSpec(base, nsOffsets[i%3])
		b := s.group("g1")
		b.node(0, 7200)
		b.node(1, 7300)
		switch v {
		case "setdesired fails":
			b.aws.SetDesiredFail = true
		case "at max":
			b.o.MaxNodes = 2
		case "dry":
			b.o.DryMode = true
		}
		b.util(150, 0, true, false)
		b.done()
		out = append(out, single(s, "C02 arming: "+v))
	}
	return out
}

// ---------- C03 / C06: class sizes x bounds x rates x utilisation band ----------
type gridP struct {
	U, T, K, F   int
	min, max     int
	fast, slow   int
	th           [3]int
	band         int // index into bands
	cpuBound     bool
	off          int64
	taintAge     int64
	fail         int // 0 none, 1 update of the oldest untainted fails, 2 get fails
	starve, aged bool
	dry          int // 0 off, 1 group, 2 global
	auto         bool
	lag          bool
}

type bandP struct {
	th  int
	off int64
} // th: 0 lower, 1 upper, 2 up; -1: absolute percentage in off

var bands = []bandP{{0, -1}, {0, 0}, {0, 1}, {1, -1}, {1, 0}, {1, 1}, {2, -1}, {2, 0}, {2, 1}, {-1, 0}, {-1, 400}, {-1, 3}}

func (c *streamCtx) gridWorld(p gridP) *scanSpec {
	base := c.base
	s := newSpec(base, p.off)
	s.GlobalDry = p.dry == 2
	b := s.group("g1")
	b.o.DryMode = p.dry == 1
	b.o.MinNodes, b.o.MaxNodes, b.o.FastNodeRemovalRate, b.o.SlowNodeRemovalRate = p.min, p.max, p.fast, p.slow
	b.o.TaintLowerCapacityThresholdPercent, b.o.TaintUpperCapacityThresholdPercent, b.o.ScaleUpThresholdPercent = p.th[0], p.th[1], p.th[2]
	b.o.ScaleOnStarve = p.starve
	if p.aged {
		b.o.MaxNodeAge = "1h"
	}
	i := 0
	for k := 0; k < p.U; k++ {
		age := int64(1000 + 100*k) // younger than max_node_age unless aged
		if p.aged && k == 0 {
			age = 7200
		}
		b.node(i, age)
		i++
	}
	for k := 0; k < p.T; k++ {
		n := b.node(i, int64(5000+100*k), escAge(base, p.taintAge))
		if p.dry != 0 {
			b.st.TaintTracker = append(b.st.TaintTracker, n.Name)
		}
		i++
	}
	for k := 0; k < p.K; k++ {
		b.node(i, int64(6000+100*k), cordoned())
		i++
	}
	for k := 0; k < p.F; k++ {
		n := b.node(i, int64(7000+100*k), forced())
		if p.dry != 0 {
			b.st.ForceTracker = append(b.st.ForceTracker, n.Name)
		}
		i++
	}
	if p.auto {
		b.asgMin, b.asgMax = int64(p.min), int64(p.max)
		b.o.MinNodes, b.o.MaxNodes = 0, 0
	} else {
		b.asgMax = int64(p.max) + 5
	}
	bd := bands[p.band]
	if bd.th >= 0 {
		b.util(int64(p.th[bd.th]), bd.off, p.cpuBound, false)
	} else {
		b.util(bd.off, 0, p.cpuBound, false)
	}
	if p.starve {
		b.pod("", 4001, gib) // does not fit any node
	}
	if p.fail > 0 && p.U > 0 {
		// the oldest untainted node is the first taint candidate
		oldest := b.nodeName(p.U - 1)
		if p.aged {
			oldest = b.nodeName(0)
		}
		if p.fail == 1 {
			b.k8s.UpdateFail = []string{oldest}
		} else {
			b.k8s.GetFail = []string{oldest}
		}
	}
	b.done()
	if p.lag && p.U > 0 { // the API server already shows the oldest untainted node tainted
		s.API = []*v1.Node{}
		for _, n := range s.Nodes {
			cp := n.DeepCopy()
			if cp.Name == b.nodeName(p.U-1) {
				cp.Spec.Taints = append(cp.Spec.Taints, v1.Taint{Key: escKey, Value: fmt.Sprint(base - 20), Effect: v1.TaintEffectNoSchedule})
			}
			s.API = append(s.API, cp)
		}
	}
	return s
}

func (c *streamCtx) dirC03C06() []genCase {
	out := []genCase{}
	rng := c.rng
	n := 420
	if c.thorough {
		n = 6000
	}
	for i := 0; i < n; i++ {
		p := gridP{U: []int{0, 1, 2, 3, 5, 8}[rng.Intn(6)], T: []int{0, 0, 1, 2, 3}[rng.Intn(5)], K: []int{0, 0, 1, 2}[rng.Intn(4)], F: []int{0, 0, 1}[rng.Intn(3)]}
		p.th = thresholdGrid[rng.Intn(len(thresholdGrid))]
		p.band = i % len(bands)
		p.cpuBound = rng.Intn(2) == 0
		p.off = nsOffsets[rng.Intn(3)]
		total := p.U + p.T + p.K + p.F
		switch rng.Intn(6) {
		case 0:
			p.min = 0
		case 1:
			p.min = p.U
		case 2:
			p.min = p.U + 1
		case 3:
			if p.U > 0 {
				p.min = p.U - 1
			}
		case 4:
			p.min = total
		default:
			p.min = rng.Intn(p.U + 1)
		}
		p.max = total + []int{0, 0, 1, 5, -1}[rng.Intn(5)]
		if p.max <= p.min {
			p.max = p.min + 1
		}
		p.fast = []int{0, 1, 2, 3, 50}[rng.Intn(5)]
		p.slow = rng.Intn(p.fast + 1)
		if p.slow > 3 {
			p.slow = rng.Intn(4)
		}
		p.taintAge = []int64{10, 299, 301, 1000}[rng.Intn(4)]
		p.fail = []int{0, 0, 0, 1, 2}[rng.Intn(5)]
		p.starve = rng.Intn(8) == 0
		p.aged = rng.Intn(8) == 0
		p.dry = []int{0, 0, 0, 0, 0, 1, 2}[rng.Intn(7)]
		p.auto = rng.Intn(6) == 0
		p.lag = rng.Intn(10) == 0
		out = append(out, single(c.gridWorld(p), fmt.Sprintf("C03/C06 grid %+v", p)))
	}
	// threshold triples and removal rates that validation must refuse (the scan is still compared with the model, which
	// follows the code's order of tests; the engine also puts each such configuration to the real validator)
	for i, th := range [][3]int{{30, 80, 70}, {10, 96, 95}, {45, 30, 70}, {30, 70, 70}, {0, 45, 70}, {30, 30, 70}} {
		for _, bi := range []int{3, 7, 10} {
			p := gridP{U: 5, T: 1, min: 1, max: 9, fast: 2, slow: 1, th: th, band: bi, cpuBound: i%2 == 0, off: nsOffsets[i%3], taintAge: 10}
			out = append(out, single(c.gridWorld(p), fmt.Sprintf("C06 invalid thresholds %v band %d", th, bi)))
		}
	}
	for i, r := range [][2]int{{3, 2}, {-1, 2}, {-3, -2}} {
		p := gridP{U: 5, T: 0, min: 1, max: 9, fast: r[1], slow: r[0], th: [3]int{30, 45, 70}, band: 4, cpuBound: true, off: nsOffsets[i%3], taintAge: 10}
		out = append(out, single(c.gridWorld(p), fmt.Sprintf("C06 invalid rates slow=%d fast=%d", r[0], r[1])))
	}
	return out
}

// ---------- C04: (max_nodes, cloud max, desired, nodes) ----------
func (c *streamCtx) dirC04() []genCase {
	out := []genCase{}
	base := c.base
	idx := 0
	for _, maxNodes := range []int{6, 9} {
		for _, cloudMaxD := range []int64{-2, 0, 3} {
			cloudMax := int64(maxNodes) + cloudMaxD
			m := cloudMax
			if int64(maxNodes) < m {
				m = int64(maxNodes)
			}
			for _, dOff := range []int64{-3, -2, -1, 0, 1} { // desired relative to the effective bound M
				for _, demand := range []string{"+1", "large", "below-min", "below-min-large", "tainted-mix", "from-zero"} {
					for _, auto := range []bool{false, true} {
						if auto && (cloudMaxD != 0 || demand == "tainted-mix") {
							continue
						}
						idx++
						s := newSpec(base, nsOffsets[idx%3])
						b := s.group("g1")
						b.o.MaxNodes = maxNodes
						nn := 3
						desired := m + dOff
						if demand == "from-zero" {
							nn = 0
							b.o.MinNodes = 0
							b.st.CacheCPU, b.st.CacheMem = 4000, 16*gib
						}
						for i := 0; i < nn; i++ {
							b.node(i, int64(7200+i))
						}
						switch demand {
						case "+1":
							b.util(75, 0, true, false)
						case "large":
							b.util(400, 0, idx%2 == 0, false)
						case "below-min":
							b.o.MinNodes = 4
							b.util(55, 0, true, false)
						case "below-min-large":
							b.o.MinNodes = maxNodes - 1
							b.util(55, 0, true, false)
						case "tainted-mix":
							b.node(3, 8000, escAge(base, 100))
							b.node(4, 8001, escAge(base, 100))
							b.util(400, 0, true, false)
						case "from-zero":
							b.pod("", 30000, gib)
						}
						b.asgMax = cloudMax
						b.desiredDelta = desired - int64(len(b.nodes))
						if auto {
							b.asgMin = int64(b.o.MinNodes)
							b.o.MinNodes, b.o.MaxNodes = 0, 0
						}
						// desired below the instance count is expressed through extra instances / delta
						if desired < 0 {
							continue
						}
						b.done()
						out = append(out, single(s, fmt.Sprintf("C04 max_nodes=%d cloud_max=%d desired=%d demand=%s auto=%v", maxNodes, cloudMax, desired, demand, auto)))
					}
				}
			}
		}
	}
	// the scan's own terminations lower the cached desired size before the increase (force removal, then scale-up)
	for _, dOff := range []int64{-1, 0, 1} {
		s := newSpec(base, 0)
		b := s.group("g1")
		b.o.MaxNodes = 6
		for i := 0; i < 3; i++ {
			b.node(i, int64(7200+i))
		}
		b.node(3, 8000, forced())
		b.node(4, 8001, forced())
		b.asgMax = 6
		b.desiredDelta = 6 + dOff - 5
		b.util(400, 0, true, false)
		b.done()
		out = append(out, single(s, fmt.Sprintf("C04 force removal before the increase, desired=%d", 6+dOff)))
	}
	res := c.sample(out, 330)
	// force removals of which one is refused, then a scale-up (small need: no clamp; large need: clamp binding) in set-desired
	// and in fleet mode: the request builds on the desired size as it REALLY stands after the accepted terminations
	for i, v := range []struct {
		pct    int64
		max    int
		fleet  bool
		failAt int
	}{{80, 20, false, 1}, {80, 20, false, 2}, {400, 7, false, 1}, {400, 7, true, 1}, {80, 20, true, 2}, {400, 8, false, 0}} {
		if v.fleet && !c.thorough && i > 3 {
			continue
		}
		s := newSpec(base, nsOffsets[i%3])
		b := s.group("g1")
		b.o.MaxNodes, b.asgMax = v.max, int64(v.max)+3
		for k := 0; k < 4; k++ {
			b.node(k, int64(7200+k))
		}
		for k := 0; k < 3; k++ {
			b.node(4+k, int64(8000+k), forced())
		}
		if v.fleet {
			b.template = "lt-g1"
			b.aws.FleetInstances = [][]string{mkIDs("i-fleet-", 8)}
		}
		b.aws.TermInAsgFail = []string{b.instanceOf(4 + v.failAt)}
		b.aws.ErrCode = []string{"", "Throttling"}[i%2]
		b.util(v.pct, 0, true, false)
		b.done()
		res = append(res, single(s, fmt.Sprintf("C04 %d-th of three force removals refused, then a scale-up (band %d, max %d, fleet %v)", v.failAt+1, v.pct, v.max, v.fleet)))
	}
	return res
}

// ---------- C07: reuse of tainted nodes ----------
func (c *streamCtx) dirC07() []genCase {
	out := []genCase{}
	base := c.base
	idx := 0
	type ord struct {
		name string
		ages []int64
	}
	orders := []ord{{"ascending", []int64{5000, 5100, 5200, 5300}}, {"descending", []int64{5300, 5200, 5100, 5000}}, {"mixed", []int64{5100, 5300, 5000, 5200}},
		{"ties", []int64{5100, 5100, 5000, 5100}}, {"all tied", []int64{5000, 5000, 5000, 5000}}}
	for _, od := range orders {
		oname, ages := od.name, od.ages
		for T := 0; T <= 4; T++ {
			for _, want := range []int{1, 2, 3, 5} {
				for _, entry := range []string{"overload", "below-min"} {
					for fail := -1; fail < T; fail++ {
						for _, fk := range []string{"get", "update"} {
							if fail < 0 && fk == "update" {
								continue
							}
							idx++
							s := newSpec(base, nsOffsets[idx%3])
							b := s.group("g1")
							b.o.MaxNodes = 12
							U := 2
							for i := 0; i < U; i++ {
								b.node(i, int64(7200+i))
							}
							for k := 0; k < T; k++ {
								b.node(U+k, ages[k], escAge(base, []int64{10, 400, 1000}[k%3]))
							}
							if entry == "below-min" {
								b.o.MinNodes = U + want
								b.util(55, 0, true, false)
							} else {
								// delta = ceil(U * (pct - 70) / 70): pct = 70 + 35*want gives want
								b.util(int64(70+35*want), 0, true, false)
							}
							if fail >= 0 {
								// the k-th attempt in newest-first order
								name := b.nodeName(U + fail)
								if fk == "get" {
									b.k8s.GetFail = []string{name}
								} else {
									b.k8s.UpdateFail = []string{name}
								}
							}
							b.asgMax = 12
							b.done()
							out = append(out, single(s, fmt.Sprintf("C07 order=%s tainted=%d want=%d entry=%s fail=%s#%d", oname, T, want, entry, fk, fail)))
						}
					}
				}
			}
		}
	}
	out = c.sample(out, 260)
	// force removal in the same scan (the provider's cached desired size must follow its own terminations), cordoned and
	// annotated tainted nodes, API copies that lost or gained the taint, a second escalator-key taint
	for _, v := range []string{"force-removal", "cordoned-tainted", "annotated-tainted", "api-lost-taint", "double-esc", "dry", "setdesired-fails", "at-max"} {
		for _, want := range []int{1, 3} {
			s := newSpec(base, 0)
			b := s.group("g1")
			b.o.MaxNodes = 12
			b.node(0, 7200)
			b.node(1, 7201)
			t1 := b.node(2, 5000, escAge(base, 100))
			t2 := b.node(3, 5100, escAge(base, 400))
			switch v {
			case "force-removal":
				b.node(4, 8000, forced())
			case "cordoned-tainted":
				t2.Spec.Unschedulable = true
			case "annotated-tainted":
				applyAnnot(t2, strp("true"))
			case "double-esc":
				t2.Spec.Taints = append(t2.Spec.Taints, v1.Taint{Key: escKey, Value: "1", Effect: v1.TaintEffectNoExecute})
			case "dry":
				b.o.DryMode = true
				b.st.TaintTracker = []string{t1.Name, "gone", t2.Name}
			case "setdesired-fails":
				b.aws.SetDesiredFail = true
			case "at-max":
				b.o.MaxNodes = 4
			}
			b.util(int64(70+35*want), 0, true, false)
			b.asgMax = 12
			b.done()
			if v == "api-lost-taint" {
				s.API = []*v1.Node{}
				for _, n := range s.Nodes {
					cp := n.DeepCopy()
					if cp.Name == t2.Name {
						cp.Spec.Taints = nil
					}
					s.API = append(s.API, cp)
				}
			}
			out = append(out, single(s, fmt.Sprintf("C07 %s want=%d", v, want)))
		}
	}
	// the exact remainder after several removals: 2-3 force-tainted empty nodes are terminated in the same scan as a
	// scale-up with room below the maximum, 0-2 tainted nodes are reused first; the request must sit on the desired size
	// lowered by EVERY accepted termination.  Variants: the last termination refused (the accepted ones still count),
	// one untaint write failing (not counted), a fleet request.
	for F := 2; F <= 3; F++ {
		for T := 0; T <= 2; T++ {
			for _, want := range []int{1, 3, 4} {
				for _, v := range []string{"plain", "last-termination-fails", "update-fails", "fleet"} {
					if v == "update-fails" && T == 0 {
						continue
					}
					if !c.thorough && v != "plain" && (F+T+want)%2 == 0 {
						continue
					}
					s := newSpec(base, nsOffsets[(F+T+want)%3])
					b := s.group("g1")
					b.o.MaxNodes = 20
					U := 2
					for i := 0; i < U; i++ {
						b.node(i, int64(7200+i))
					}
					for k := 0; k < T; k++ {
						b.node(U+k, int64(5000+100*k), escAge(base, []int64{10, 400}[k%2]))
					}
					for k := 0; k < F; k++ {
						b.node(U+T+k, int64(8000+k), forced())
					}
					switch v {
					case "last-termination-fails":
						b.aws.TermInAsgFail = []string{b.instanceOf(U + T + F - 1)}
					case "update-fails":
						b.k8s.UpdateFail = []string{b.nodeName(U)}
					case "fleet":
						// refused by the fleet API before any wait: the request itself is journaled
						b.template = "lt-g1"
						b.aws.FleetInstances, b.aws.FleetErrors = nil, 2
					}
					b.util(int64(70+35*want), 0, true, false)
					b.asgMax = 20
					b.done()
					out = append(out, single(s, fmt.Sprintf("C07 exact remainder: forced=%d tainted=%d want=%d %s", F, T, want, v)))
				}
			}
		}
	}
	return out
}

// ---------- C08: oldest first ----------
func scanPermutations(n int) [][]int {
	if n == 0 {
		return [][]int{{}}
	}
	out := [][]int{}
	for _, p := range scanPermutations(n - 1) {
		for i := 0; i <= len(p); i++ {
			q := append(append(append([]int{}, p[:i]...), n-1), p[i:]...)
			out = append(out, q)
		}
	}
	return out
}

func (c *streamCtx) dirC08() []genCase {
	out := []genCase{}
	base := c.base
	const Z = int64(-1) // zero creation time
	multisets := [][]int64{{100, 200, 300}, {100, 100, 200}, {100, 100, 100}, {Z, 100, 200}, {Z, Z, 100}, {100, 200, 300, 400}, {100, 100, 200, 200}, {Z, 100, 100, 200},
		{100, 200, 300, 400, 500}, {100, 100, 100, 200, 300}, {Z, Z, 100, 100, 200}, {100, 200, 300, 400, 500, 600}, {100, 100, 200, 200, 300, 300}, {Z, 100, 100, 100, 200, 300}, {-3600, 100, 200, -7200}}
	idx := 0
	all := []genCase{}
	for _, ms := range multisets {
		k := len(ms)
		for _, perm := range scanPermutations(k) {
			// skip permutations that only exchange equal timestamps
			dup := false
			for i := 0; i < k && !dup; i++ {
				for j := i + 1; j < k; j++ {
					if ms[perm[i]] == ms[perm[j]] && perm[i] > perm[j] {
						dup = true
					}
				}
			}
			if dup {
				continue
			}
			for _, nTaint := range []int{1, 2, k} {
				for fail := -1; fail < k; fail++ {
					fkinds := []string{"get", "update"}
					if fail < 0 {
						fkinds = []string{"-"}
					}
					for _, fk := range fkinds {
						idx++
						s := newSpec(base, nsOffsets[idx%3])
						b := s.group("g1")
						b.o.MinNodes, b.o.FastNodeRemovalRate = 0, nTaint
						for i, pi := range perm {
							a := ms[pi]
							if a == Z {
								b.node(i, 0, zeroCreated())
							} else {
								b.node(i, 86400-a) // a larger value = created later
							}
						}
						if fail >= 0 {
							if fk == "get" {
								b.k8s.GetFail = []string{b.nodeName(fail)}
							} else {
								b.k8s.UpdateFail = []string{b.nodeName(fail)}
							}
						}
						b.util(5, 0, true, false)
						b.done()
						all = append(all, single(s, fmt.Sprintf("C08 times=%v perm=%v n=%d fail=%s#%d", ms, perm, nTaint, fk, fail)))
					}
				}
			}
		}
	}
	out = append(out, c.sample(all, 380)...)
	if c.thorough && len(out) > 9000 {
		out = c.sampleN(out, 9000)
	}
	// long lists: Go's pdqsort path (distinct creation times), with interleaved classes and minimum clamps
	sizes := []int{13, 20, 33, 60}
	for si, n := range sizes {
		for rep := 0; rep < 3; rep++ {
			s := newSpec(base, 0)
			b := s.group("g1")
			b.o.MinNodes, b.o.MaxNodes, b.o.FastNodeRemovalRate = []int{0, 5, n - 2}[rep], n+5, []int{3, 7, 50}[rep]
			ages := c.rng.Perm(n)
			for i := 0; i < n; i++ {
				opts := []nodeOpt{}
				if i%7 == 3 {
					opts = append(opts, cordoned())
				}
				if i%9 == 4 {
					opts = append(opts, escAge(base, 100))
				}
				b.node(i, int64(3600+37*ages[i]), opts...)
			}
			if rep == 1 {
				b.k8s.UpdateFail = []string{b.nodeName(si), b.nodeName(si + 5)}
			}
			b.util(5, 0, true, false)
			b.done()
			out = append(out, single(s, fmt.Sprintf("C08 long list n=%d rep=%d", n, rep)))
		}
	}
	return out
}

func (c *streamCtx) sampleN(cases []genCase, keep int) []genCase {
	out := []genCase{}
	step := float64(len(cases)) / float64(keep)
	for i := 0; i < keep; i++ {
		out = append(out, cases[int(float64(i)*step)])
	}
	return out
}
