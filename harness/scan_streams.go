package main

import (
	"math/rand"
	"time"
)

// genScanCases: the property's boundary-directed stream first, then histories, then free-combination random worlds.
func genScanCases(prop, tier string, rng *rand.Rand) []genCase {
	base := time.Now().Unix()
	thorough := tier == "thorough"
	cases := []genCase{}
	nRandom := 250
	if thorough {
		nRandom = 5000
	}
	for i := 0; i < nRandom; i++ {
		cfg := worldCfg{Fail: 1, Big: i%10 == 0, Malformed: i%4 == 0}
		if thorough {
			cfg.Fail = 2
		}
		g := &wgen{rng: rng, base: base, cfg: cfg}
		cases = append(cases, genCase{Single: g.world()})
	}
	return cases
}
