package main

// C12, metamorphic pairs: two worlds that are equal except inside one node group are both scanned; every OTHER
// group's journal, post-state and provider-side numbers must be equal (as long as no earlier group ended the scan).
// Differences are reported through EngineResult.Extra["violations"].

import (
	"encoding/json"
	"fmt"
	"sort"
	"strconv"

	v1 "k8s.io/api/core/v1"
)

type pairSide struct {
	spec   *scanSpec
	obs    scanObs
	varied string
	raw    json.RawMessage
}

// relNode: a node with its times relative to the scan's second (the two worlds of a pair run at different instants).
func relNode(n *v1.Node, base int64, added bool) string {
	type rt struct {
		K, V, E string
	}
	ts := []rt{}
	for _, t := range n.Spec.Taints {
		val := t.Value
		if v, err := strconv.ParseInt(val, 10, 64); err == nil && v > base-20*365*86400 && v < base+20*365*86400 {
			d := v - base
			if added && d >= 0 && d <= 3 {
				d = 0 // a fresh stamp: this second or one of the next
			}
			val = fmt.Sprintf("@%d", d)
		}
		ts = append(ts, rt{t.Key, val, string(t.Effect)})
	}
	created := int64(-1 << 62)
	if !n.CreationTimestamp.IsZero() {
		created = n.CreationTimestamp.Unix() - base
	}
	lk := []string{}
	for k, v := range n.Labels {
		lk = append(lk, "l:"+k+"="+v)
	}
	for k, v := range n.Annotations {
		lk = append(lk, "a:"+k+"="+v)
	}
	sort.Strings(lk)
	b, _ := json.Marshal([]interface{}{n.Name, created, n.Spec.Unschedulable, ts, lk, n.Spec.ProviderID, n.Status.Allocatable})
	return string(b)
}

func relGroup(s *scanSpec, obs *scanObs, g groupObs) []string {
	out := []string{}
	for _, e := range reorderLag(g.Calls, s.Nodes) {
		if e.K8s != nil {
			p := ""
			if e.K8s.Payload != nil {
				p = relNode(e.K8s.Payload, s.BaseSec, e.K8s.Added)
			}
			out = append(out, fmt.Sprintf("k8s %s %s %v %s", e.K8s.Verb, e.K8s.Name, e.K8s.OK, p))
		} else if e.Aws != nil {
			out = append(out, fmt.Sprintf("aws %+v", *e.Aws))
		}
	}
	lock := "kept"
	if !g.State.LockTime.Equal(obs.PreLock[g.Name]) {
		lock = "fresh"
	}
	lastOut := "kept"
	if !g.State.LastScaleOut.Equal(obs.PreOut[g.Name]) {
		lastOut = "fresh"
	}
	out = append(out, fmt.Sprintf("state locked=%v lock=%s req=%d delta=%d out=%s cache=%d/%d tt=%v ft=%v desired=%d tries=%d",
		g.State.Locked, lock, g.State.Requested, g.State.ScaleDelta, lastOut, g.State.CPUCapMilli, g.State.MemCapBytes,
		g.State.TaintTracker, g.State.ForceTaintTracker, g.Desired, g.Tries))
	return out
}

func comparePairs(pairs map[string][]pairSide) []interface{} {
	viol := []interface{}{}
	ids := []string{}
	for id := range pairs {
		ids = append(ids, id)
	}
	sort.Strings(ids)
	for _, id := range ids {
		ps := pairs[id]
		if len(ps) != 2 {
			continue
		}
		a, b := ps[0], ps[1]
		for gi := range a.obs.Groups {
			if gi >= len(b.obs.Groups) {
				break
			}
			ga, gb := a.obs.Groups[gi], b.obs.Groups[gi]
			if ga.Name == a.varied {
				// (a panic — outcome 4 — is no legitimate end of a scan: the later groups are still compared, and reported as
				// reached in one world only)
				if (a.obs.Out >= 2 && a.obs.Out != 4) || (b.obs.Out >= 2 && b.obs.Out != 4) {
					// the varied group (or an earlier one) may have ended one of the scans: later groups are not comparable
					if !(ga.Reached && gb.Reached) {
						break
					}
					endedHere := func(o scanObs) bool {
						last := -1
						for i, g := range o.Groups {
							if g.Reached {
								last = i
							}
						}
						return o.Out >= 2 && o.Out != 4 && last == gi
					}
					if endedHere(a.obs) || endedHere(b.obs) {
						break
					}
				}
				continue
			}
			if ga.Reached != gb.Reached {
				viol = append(viol, map[string]interface{}{"kind": "C12 metamorphic pair: group reached in one world only", "pair": id, "group": ga.Name,
					"varied": a.varied, "cases": []json.RawMessage{a.raw, b.raw}})
				continue
			}
			if !ga.Reached {
				continue
			}
			ra, rb := relGroup(a.spec, &a.obs, ga), relGroup(b.spec, &b.obs, gb)
			same := len(ra) == len(rb)
			for i := 0; same && i < len(ra); i++ {
				same = ra[i] == rb[i]
			}
			if !same {
				viol = append(viol, map[string]interface{}{"kind": "C12 metamorphic pair: a change inside one group altered another group's scan", "pair": id,
					"group": ga.Name, "varied": a.varied, "world_a": ra, "world_b": rb, "cases": []json.RawMessage{a.raw, b.raw}})
			}
		}
	}
	return viol
}
