package main

// config_engine.go — engine "C16": configuration validation, decoding and the start-up gate.
//
//  1. Differential grid: a valid base configuration (the documentation's example) with every 1- and 2-field perturbation
//     over boundary values; each configuration goes through the REAL controller.ValidateNodeGroup and is written as a Coq
//     case (configuration, results of the real time.ParseDuration, number of problems reported).  Coq evaluates the
//     GENERATED rule list (R) and the property's checker `check_C16` on the observed verdict (V).
//  2. Decoder: every documented key and every json tag is set, one at a time, to a distinctive typed value in a YAML and in
//     a JSON document; both go through the REAL controller.UnmarshalNodeGroupOptions; results must agree with each other
//     and the one field that changed must be the one carrying that json tag.
//  3. Start-up gate: the real `escalator` binary is built from the tree and run on a sample of the grid (YAML and JSON);
//     its `Validating options: [PASS]/[FAIL]` lines, problem count and exit are compared with the validator's verdicts.

import (
	"bufio"
	"bytes"
	"context"
	"crypto/sha256"
	"encoding/json"
	"fmt"
	"io/fs"
	"math"
	"math/rand"
	"os"
	"os/exec"
	"path/filepath"
	"reflect"
	"sort"
	"strings"
	"sync"
	"time"

	"github.com/atlassian/escalator/pkg/controller"
	v1 "k8s.io/api/core/v1"
)

func init() { engines["C16"] = configEngine }

type cfgSpec struct {
	Opts         controller.NodeGroupOptions `json:"opts"`
	Class        string                      `json:"class"`
	Perturbed    []string                    `json:"perturbed,omitempty"`
	KnownFinding string                      `json:"known_finding,omitempty"`
}

func verifRepo() string {
	if r := os.Getenv("VERIF_REPO"); r != "" {
		return r
	}
	return "/repo"
}

// the documentation's example (docs/configuration/nodegroup.md), typed
func cfgBaseOpts() controller.NodeGroupOptions {
	return controller.NodeGroupOptions{
		Name: "shared", LabelKey: "customer", LabelValue: "shared", CloudProviderGroupName: "shared-nodes",
		MinNodes: 1, MaxNodes: 30, DryMode: false, ScaleOnStarve: false,
		TaintUpperCapacityThresholdPercent: 40, TaintLowerCapacityThresholdPercent: 10,
		SlowNodeRemovalRate: 2, FastNodeRemovalRate: 5, ScaleUpThresholdPercent: 70,
		ScaleUpCoolDownPeriod: "2m", SoftDeleteGracePeriod: "1m", HardDeleteGracePeriod: "10m",
		TaintEffect: v1.TaintEffectNoExecute, MaxNodeAge: "24h",
		AWS: controller.AWSNodeGroupOptions{FleetInstanceReadyTimeout: "1m", LaunchTemplateID: "lt-1a2b3c4d", LaunchTemplateVersion: "1",
			Lifecycle: "on-demand", InstanceTypeOverrides: []string{"t2.large", "t3.large"}, ResourceTagging: false},
	}
}

// one perturbation of the base configuration
type atom struct {
	fields []string // option names touched (two atoms touching the same option are not combined)
	kind   string   // bucket
	label  string
	apply  func(o *controller.NodeGroupOptions)
}

const hugeInt = math.MaxInt64

func intAtoms(thorough bool) []atom {
	type iv struct {
		v    int
		kind string
	}
	set := func(name string, f func(o *controller.NodeGroupOptions) *int, vals []iv) []atom {
		out := []atom{}
		for _, x := range vals {
			x := x
			out = append(out, atom{[]string{name}, x.kind, fmt.Sprintf("%s=%d", name, x.v), func(o *controller.NodeGroupOptions) { *f(o) = x.v }})
		}
		return out
	}
	neg, zero, huge := iv{-1, "int-negative"}, iv{0, "int-zero"}, iv{hugeInt, "int-huge"}
	near := func(v int) iv { return iv{v, "int-near-neighbour"} }
	eq := func(v int) iv { return iv{v, "int-equal-neighbour"} }
	extra := func(l []iv) []iv {
		l = append(l, iv{100, "int-other"}, iv{-1000, "int-negative"})
		if thorough {
			l = append(l, iv{math.MinInt64, "int-negative"}, iv{101, "int-other"}, iv{1 << 40, "int-huge"}, iv{hugeInt - 1, "int-huge"})
		}
		return l
	}
	var out []atom
	out = append(out, set("min_nodes", func(o *controller.NodeGroupOptions) *int { return &o.MinNodes },
		extra([]iv{neg, zero, {2, "int-other"}, near(29), eq(30), near(31), huge, {math.MinInt64, "int-negative"}}))...)
	out = append(out, set("max_nodes", func(o *controller.NodeGroupOptions) *int { return &o.MaxNodes },
		extra([]iv{neg, zero, eq(1), near(2), huge}))...)
	out = append(out, set("taint_lower_capacity_threshold_percent", func(o *controller.NodeGroupOptions) *int { return &o.TaintLowerCapacityThresholdPercent },
		extra([]iv{neg, zero, {1, "int-other"}, near(39), eq(40), near(41), huge}))...)
	out = append(out, set("taint_upper_capacity_threshold_percent", func(o *controller.NodeGroupOptions) *int { return &o.TaintUpperCapacityThresholdPercent },
		extra([]iv{neg, zero, near(9), eq(10), near(11), near(69), eq(70), near(71), huge}))...)
	out = append(out, set("scale_up_threshold_percent", func(o *controller.NodeGroupOptions) *int { return &o.ScaleUpThresholdPercent },
		extra([]iv{neg, zero, near(39), eq(40), near(41), huge}))...)
	out = append(out, set("slow_node_removal_rate", func(o *controller.NodeGroupOptions) *int { return &o.SlowNodeRemovalRate },
		extra([]iv{{-3, "int-negative"}, neg, zero, near(4), eq(5), near(6), huge}))...)
	out = append(out, set("fast_node_removal_rate", func(o *controller.NodeGroupOptions) *int { return &o.FastNodeRemovalRate },
		extra([]iv{{-2, "int-negative"}, neg, zero, near(1), eq(2), near(3), huge}))...)
	return out
}

func otherAtoms(thorough bool) []atom {
	var out []atom
	str := func(name string, f func(o *controller.NodeGroupOptions) *string, vals map[string]string) {
		keys := make([]string, 0, len(vals))
		for k := range vals {
			keys = append(keys, k)
		}
		sort.Strings(keys)
		for _, v := range keys {
			v, kind := v, vals[v]
			out = append(out, atom{[]string{name}, kind, fmt.Sprintf("%s=%q", name, v), func(o *controller.NodeGroupOptions) { *f(o) = v }})
		}
	}
	names := map[string]string{"": "string-empty", " ": "string-odd"}
	if thorough {
		names["n\u00e4m\u00e9"] = "string-odd"
		names[`a"b\c`] = "string-odd"
	}
	str("name", func(o *controller.NodeGroupOptions) *string { return &o.Name }, names)
	str("label_key", func(o *controller.NodeGroupOptions) *string { return &o.LabelKey }, names)
	str("label_value", func(o *controller.NodeGroupOptions) *string { return &o.LabelValue }, names)
	str("cloud_provider_group_name", func(o *controller.NodeGroupOptions) *string { return &o.CloudProviderGroupName }, names)

	durs := map[string]string{
		"": "dur-empty", "5": "dur-unparsable", "abc": "dur-unparsable", "-1m": "dur-negative", "0s": "dur-zero", "0": "dur-zero",
		"1h30m": "dur-ok", "1m": "dur-ok", "10m": "dur-ok", "59s": "dur-ok", "600s": "dur-ok", "10m1ns": "dur-ok", "1ns": "dur-ok",
		"9999999h": "dur-unparsable", // overflows int64 nanoseconds: time.ParseDuration reports an error
	}
	if thorough {
		durs["2562047h"] = "dur-ok"
		durs["1.5m"] = "dur-ok"
		durs[" 1m"] = "dur-unparsable"
		durs["1m "] = "dur-unparsable"
		durs["-0s"] = "dur-zero"
		durs["1d"] = "dur-unparsable"
		durs["60000000000"] = "dur-unparsable"
	}
	str("soft_delete_grace_period", func(o *controller.NodeGroupOptions) *string { return &o.SoftDeleteGracePeriod }, durs)
	str("hard_delete_grace_period", func(o *controller.NodeGroupOptions) *string { return &o.HardDeleteGracePeriod }, durs)
	str("scale_up_cool_down_period", func(o *controller.NodeGroupOptions) *string { return &o.ScaleUpCoolDownPeriod }, durs)
	str("max_node_age", func(o *controller.NodeGroupOptions) *string { return &o.MaxNodeAge },
		map[string]string{"": "age-empty", "0": "age-zero", "0s": "age-zero", "12h": "age-ok", "-1h": "age-negative", "x": "age-unparsable", "24": "age-unparsable"})

	effects := map[string]string{"": "effect-valid", "NoSchedule": "effect-valid", "PreferNoSchedule": "effect-valid",
		"noschedule": "effect-case-variant", "Bogus": "effect-unknown", " ": "effect-unknown", "NoExecute ": "effect-near-miss"}
	for v, kind := range enumVariants([]string{"NoSchedule", "NoExecute", "PreferNoSchedule"}, "effect", thorough) {
		effects[v] = kind
	}
	for v, kind := range effects {
		v, kind := v, kind
		out = append(out, atom{[]string{"taint_effect"}, kind, fmt.Sprintf("taint_effect=%q", v), func(o *controller.NodeGroupOptions) { o.TaintEffect = v1.TaintEffect(v) }})
	}
	lifecycles := map[string]string{"": "lifecycle-valid", "spot": "lifecycle-valid", "Spot": "lifecycle-case-variant", "ondemand": "lifecycle-near-miss",
		"reserved": "lifecycle-unknown", "on-demand ": "lifecycle-near-miss"}
	for v, kind := range enumVariants([]string{"on-demand", "spot"}, "lifecycle", thorough) {
		lifecycles[v] = kind
	}
	for v, kind := range lifecycles {
		v, kind := v, kind
		out = append(out, atom{[]string{"aws.lifecycle"}, kind, fmt.Sprintf("aws.lifecycle=%q", v), func(o *controller.NodeGroupOptions) { o.AWS.Lifecycle = v }})
	}
	out = append(out, atom{[]string{"dry_mode"}, "bool", "dry_mode=true", func(o *controller.NodeGroupOptions) { o.DryMode = true }})
	out = append(out, atom{[]string{"scale_on_starve"}, "bool", "scale_on_starve=true", func(o *controller.NodeGroupOptions) { o.ScaleOnStarve = true }})

	// swapped neighbours
	out = append(out,
		atom{[]string{"taint_lower_capacity_threshold_percent", "taint_upper_capacity_threshold_percent"}, "swapped", "lower<->upper", func(o *controller.NodeGroupOptions) {
			o.TaintLowerCapacityThresholdPercent, o.TaintUpperCapacityThresholdPercent = o.TaintUpperCapacityThresholdPercent, o.TaintLowerCapacityThresholdPercent
		}},
		atom{[]string{"taint_upper_capacity_threshold_percent", "scale_up_threshold_percent"}, "swapped", "upper<->scale_up", func(o *controller.NodeGroupOptions) {
			o.TaintUpperCapacityThresholdPercent, o.ScaleUpThresholdPercent = o.ScaleUpThresholdPercent, o.TaintUpperCapacityThresholdPercent
		}},
		atom{[]string{"min_nodes", "max_nodes"}, "swapped", "min<->max", func(o *controller.NodeGroupOptions) { o.MinNodes, o.MaxNodes = o.MaxNodes, o.MinNodes }},
		atom{[]string{"slow_node_removal_rate", "fast_node_removal_rate"}, "swapped", "slow<->fast", func(o *controller.NodeGroupOptions) {
			o.SlowNodeRemovalRate, o.FastNodeRemovalRate = o.FastNodeRemovalRate, o.SlowNodeRemovalRate
		}},
		atom{[]string{"soft_delete_grace_period", "hard_delete_grace_period"}, "swapped", "soft<->hard", func(o *controller.NodeGroupOptions) {
			o.SoftDeleteGracePeriod, o.HardDeleteGracePeriod = o.HardDeleteGracePeriod, o.SoftDeleteGracePeriod
		}},
	)
	// deterministic order (maps above are iterated): sort by label
	sort.SliceStable(out, func(i, j int) bool { return out[i].label < out[j].label })
	return out
}

// titleCase capitalises the first letter of every '-'-separated part ("on-demand" -> "On-Demand", "spot" -> "Spot")
func titleCase(s string) string {
	parts := strings.Split(strings.ToLower(s), "-")
	for i, p := range parts {
		if p != "" {
			parts[i] = strings.ToUpper(p[:1]) + p[1:]
		}
	}
	return strings.Join(parts, "-")
}

// enumVariants: for every documented value of an enumerated string option, the spellings a validator that compares
// loosely (case-insensitively, after trimming, by prefix) would let through although the rest of the program compares
// exactly: case variants (upper, lower, capitalised) and near-misses (surrounding blanks; thorough: '_' for '-', a
// dropped last character, a doubled one).  Values equal to a documented one are left out.  kind = "<what>-case-variant" /
// "<what>-near-miss" (the buckets appear in the evidence's input distribution).
func enumVariants(valid []string, what string, thorough bool) map[string]string {
	isValid := map[string]bool{}
	for _, v := range valid {
		isValid[v] = true
	}
	out := map[string]string{}
	add := func(v, kind string) {
		if !isValid[v] && v != "" {
			if _, seen := out[v]; !seen {
				out[v] = what + "-" + kind
			}
		}
	}
	for _, v := range valid {
		add(strings.ToUpper(v), "case-variant")
		add(strings.ToLower(v), "case-variant")
		add(titleCase(v), "case-variant")
		add(v+" ", "near-miss")
		if thorough {
			add(" "+v, "near-miss")
			add(strings.ToLower(v[:1])+v[1:], "case-variant")
			add(strings.ReplaceAll(v, "-", "_"), "near-miss")
			add(strings.ReplaceAll(v, "-", ""), "near-miss")
			add(v[:len(v)-1], "near-miss")
			add(v+v[len(v)-1:], "near-miss")
		}
	}
	return out
}

func disjoint(a, b atom) bool {
	for _, x := range a.fields {
		for _, y := range b.fields {
			if x == y {
				return false
			}
		}
	}
	return true
}

func applyAtoms(as ...atom) cfgSpec {
	o := cfgBaseOpts()
	kinds, labels := []string{}, []string{}
	for _, a := range as {
		a.apply(&o)
		kinds = append(kinds, a.kind)
		labels = append(labels, a.label)
	}
	sort.Strings(kinds)
	class := "base"
	if len(as) > 0 {
		class = strings.Join(kinds, " + ")
	}
	return cfgSpec{Opts: o, Class: class, Perturbed: labels}
}

func randomOpts(rng *rand.Rand) cfgSpec {
	ints := []int{math.MinInt64, -1000, -3, -2, -1, 0, 1, 2, 3, 4, 5, 6, 9, 10, 11, 29, 30, 31, 39, 40, 41, 69, 70, 71, 100, 1 << 40, hugeInt}
	strs := []string{"", "", "x", "shared", "customer", " ", "n\u00e4m\u00e9", `a"b\c`, "default"}
	durs := []string{"", "0", "0s", "1ns", "59s", "1m", "2m", "10m", "600s", "10m1ns", "1h30m", "-1m", "5", "abc", "9999999h", "2562047h", "1.5m"}
	effs := []string{"", "NoSchedule", "NoExecute", "PreferNoSchedule", "noschedule", "Bogus", "NOSCHEDULE", "NoSchedule ", "noexecute", "Prefernoschedule"}
	lcs := []string{"", "on-demand", "spot", "Spot", "reserved", "SPOT", "On-Demand", "ON-DEMAND", "spot ", " on-demand"}
	pi := func() int { return ints[rng.Intn(len(ints))] }
	ps := func(l []string) string { return l[rng.Intn(len(l))] }
	o := controller.NodeGroupOptions{
		Name: ps(strs), LabelKey: ps(strs), LabelValue: ps(strs), CloudProviderGroupName: ps(strs),
		MinNodes: pi(), MaxNodes: pi(), DryMode: rng.Intn(2) == 0, ScaleOnStarve: rng.Intn(2) == 0,
		TaintUpperCapacityThresholdPercent: pi(), TaintLowerCapacityThresholdPercent: pi(), ScaleUpThresholdPercent: pi(),
		SlowNodeRemovalRate: pi(), FastNodeRemovalRate: pi(),
		SoftDeleteGracePeriod: ps(durs), HardDeleteGracePeriod: ps(durs), ScaleUpCoolDownPeriod: ps(durs),
		TaintEffect: v1.TaintEffect(ps(effs)), MaxNodeAge: ps(durs),
		AWS: controller.AWSNodeGroupOptions{Lifecycle: ps(lcs)},
	}
	return cfgSpec{Opts: o, Class: "random (malformed stream)"}
}

// ---- Coq emission ----

func cstr(s string) string { return `"` + strings.ReplaceAll(s, `"`, `""`) + `"` }

func cdur(raw string) string {
	d, err := time.ParseDuration(raw) // the REAL parser: its result is an input of the model
	if err != nil {
		return fmt.Sprintf("(Build_dur %s None)", cstr(raw))
	}
	return fmt.Sprintf("(Build_dur %s (Some %s))", cstr(raw), cz(int64(d)))
}

func ccfg(o controller.NodeGroupOptions) string {
	return fmt.Sprintf("(Build_cfg %s %s %s %s %s %s %s %s %s %s %s %s %s %s %s %s %s %s %s)",
		cstr(o.Name), cstr(o.LabelKey), cstr(o.LabelValue), cstr(o.CloudProviderGroupName),
		cz(int64(o.MinNodes)), cz(int64(o.MaxNodes)), cz(int64(o.TaintLowerCapacityThresholdPercent)), cz(int64(o.TaintUpperCapacityThresholdPercent)),
		cz(int64(o.ScaleUpThresholdPercent)), cz(int64(o.SlowNodeRemovalRate)), cz(int64(o.FastNodeRemovalRate)),
		cdur(o.SoftDeleteGracePeriod), cdur(o.HardDeleteGracePeriod), cdur(o.ScaleUpCoolDownPeriod), cdur(o.MaxNodeAge),
		cstr(string(o.TaintEffect)), cstr(o.AWS.Lifecycle), cbool(o.DryMode), cbool(o.ScaleOnStarve))
}

func printable(s string) bool {
	for i := 0; i < len(s); i++ {
		if s[i] < 0x20 || s[i] == 0x7f {
			return false
		}
	}
	return true
}

// ---- the engine ----

func configEngine(prop, tier string, rng *rand.Rand, replay []json.RawMessage) (*EngineResult, error) {
	thorough := tier == "thorough"
	var specs []cfgSpec
	if replay != nil {
		for _, r := range replay {
			var s cfgSpec
			if err := json.Unmarshal(r, &s); err != nil {
				return nil, err
			}
			specs = append(specs, s)
		}
	} else {
		atoms := append(intAtoms(thorough), otherAtoms(thorough)...)
		specs = append(specs, applyAtoms())
		for _, a := range atoms {
			specs = append(specs, applyAtoms(a))
		}
		for i := range atoms {
			for j := i + 1; j < len(atoms); j++ {
				if disjoint(atoms[i], atoms[j]) {
					specs = append(specs, applyAtoms(atoms[i], atoms[j]))
				}
			}
		}
		// beyond the grid: random 3..5-field perturbations and fully random option tuples
		nk, nr := 600, 400
		if thorough {
			nk, nr = 60000, 40000
		}
		for n := 0; n < nk; n++ {
			k := 3 + rng.Intn(3)
			var pick []atom
			for tries := 0; len(pick) < k && tries < 50; tries++ {
				a := atoms[rng.Intn(len(atoms))]
				ok := true
				for _, b := range pick {
					if !disjoint(a, b) {
						ok = false
					}
				}
				if ok {
					pick = append(pick, a)
				}
			}
			s := applyAtoms(pick...)
			s.Class = fmt.Sprintf("random %d-field perturbation", len(pick))
			specs = append(specs, s)
		}
		for n := 0; n < nr; n++ {
			specs = append(specs, randomOpts(rng))
		}
	}

	res := &EngineResult{Import: "CorrConfig", CaseType: "config_case", PerShard: 400,
		Evals: []EvalDef{{"R", "mismatches_C16"}, {"V", "propfail_C16"}, {"T", "tags_C16"}, {"Trules", "rule_fail_counts_C16"}},
		Rule: "valid base configuration (the documentation's example) with every single perturbation and every pair of perturbations of distinct options over " +
			"{negative, 0, equal to / one either side of the neighbouring option, swapped neighbours, huge, empty or odd string, unparsable / negative / zero / overflowing durations, " +
			"unknown effect, unknown lifecycle, case variants (upper / lower / capitalised: Spot, SPOT, On-Demand, noschedule, …) and near-misses (trailing blank, …) of every documented taint effect and lifecycle, max_node_age in {\"\", 0, 0s, 12h, -1h, x, 24}}, plus seeded random 3-5-field perturbations and fully random option tuples; " +
			"each goes through the real ValidateNodeGroup (number of problems recorded); distinct = distinct (options, problem count); every case is non-trivial " +
			"(the model must reproduce the exact problem count); the decoder and the start-up gate are exercised separately (see harness_extra)",
		Extra: map[string]interface{}{}}
	accepted, rejected := 0, 0
	verdicts := make([]int, len(specs))
	for i, s := range specs {
		for _, str := range []string{s.Opts.Name, s.Opts.LabelKey, s.Opts.LabelValue, s.Opts.CloudProviderGroupName, s.Opts.SoftDeleteGracePeriod,
			s.Opts.HardDeleteGracePeriod, s.Opts.ScaleUpCoolDownPeriod, s.Opts.MaxNodeAge, string(s.Opts.TaintEffect), s.Opts.AWS.Lifecycle} {
			if !printable(str) {
				return nil, fmt.Errorf("case %d: control character in an option string (not representable in the case file)", i)
			}
		}
		errs := controller.ValidateNodeGroup(s.Opts) // the REAL validator
		verdicts[i] = len(errs)
		if len(errs) == 0 {
			accepted++
		} else {
			rejected++
		}
		coq := fmt.Sprintf("(Build_config_case %s %d)", ccfg(s.Opts), len(errs))
		sp, _ := json.Marshal(s)
		class := s.Class
		if len(errs) == 0 {
			class += " => accepted"
		} else {
			class += " => rejected"
		}
		res.Cases = append(res.Cases, CaseOut{Coq: coq, Spec: sp, Key: fmt.Sprintf("%x/%d", hashJSON(s.Opts), len(errs)), Nontrivial: true, Class: class})
	}
	res.Extra["accepted"] = accepted
	res.Extra["rejected"] = rejected
	if replay != nil {
		return res, nil
	}

	violations := []string{}
	known := []string{}

	// ---- decoder ----
	dv, dk, dinfo := decoderCheck()
	violations = append(violations, dv...)
	known = append(known, dk...)
	for k, v := range dinfo {
		res.Extra[k] = v
	}

	// ---- start-up gate ----
	nfiles := 40
	if thorough {
		nfiles = 400
	}
	gv, ginfo, err := gateCheck(specs, verdicts, nfiles, rng)
	if err != nil {
		return nil, err
	}
	if len(gv) > 0 {
		// one line for the gate: the first disagreement, and how many there are
		violations = append(violations, fmt.Sprintf("%s (start-up gate: %d disagreement(s) in %v runs)", gv[0], len(gv), ginfo["gate_runs"]))
	}
	for k, v := range ginfo {
		res.Extra[k] = v
	}

	if len(known) > 0 {
		res.Extra["known_reproduced"] = known
	}
	if len(violations) > 0 {
		if len(violations) > 20 {
			violations = append(violations[:20], fmt.Sprintf("… and %d more", len(violations)-20))
		}
		res.Extra["violations"] = violations
	}
	return res, nil
}

// ---------------------------------------------------------------------------------------------------------------------
// decoder

// the documentation's example as a generic document (typed values)
func baseDoc() map[string]interface{} {
	return map[string]interface{}{
		"name": "shared", "label_key": "customer", "label_value": "shared", "cloud_provider_group_name": "shared-nodes",
		"min_nodes": 1, "max_nodes": 30, "dry_mode": false, "scale_on_starve": false,
		"taint_upper_capacity_threshold_percent": 40, "taint_lower_capacity_threshold_percent": 10,
		"slow_node_removal_rate": 2, "fast_node_removal_rate": 5, "scale_up_threshold_percent": 70,
		"scale_up_cool_down_period": "2m", "scale_up_cool_down_timeout": "10m",
		"soft_delete_grace_period": "1m", "hard_delete_grace_period": "10m", "taint_effect": "NoExecute", "max_node_age": "24h",
		"aws": map[string]interface{}{"fleet_instance_ready_timeout": "1m", "launch_template_id": "lt-1a2b3c4d", "launch_template_version": "1",
			"lifecycle": "on-demand", "instance_type_overrides": []interface{}{"t2.large", "t3.large"}, "resource_tagging": false},
	}
}

func copyDoc(d map[string]interface{}) map[string]interface{} {
	out := map[string]interface{}{}
	for k, v := range d {
		if m, ok := v.(map[string]interface{}); ok {
			out[k] = copyDoc(m)
		} else {
			out[k] = v
		}
	}
	return out
}

func yamlScalar(v interface{}) string {
	switch x := v.(type) {
	case string:
		b, _ := json.Marshal(x) // a JSON string is a valid YAML double-quoted scalar
		return string(b)
	case []interface{}:
		items := []string{}
		for _, e := range x {
			items = append(items, yamlScalar(e))
		}
		return "[" + strings.Join(items, ", ") + "]"
	default:
		return fmt.Sprint(x)
	}
}

func renderYAMLGroup(b *strings.Builder, d map[string]interface{}) {
	keys := make([]string, 0, len(d))
	for k := range d {
		keys = append(keys, k)
	}
	sort.Strings(keys)
	first := true
	for _, k := range keys {
		prefix := "    "
		if first {
			prefix = "  - "
			first = false
		}
		if m, ok := d[k].(map[string]interface{}); ok {
			fmt.Fprintf(b, "%s%s:\n", prefix, k)
			sub := make([]string, 0, len(m))
			for sk := range m {
				sub = append(sub, sk)
			}
			sort.Strings(sub)
			for _, sk := range sub {
				fmt.Fprintf(b, "        %s: %s\n", sk, yamlScalar(m[sk]))
			}
			continue
		}
		fmt.Fprintf(b, "%s%s: %s\n", prefix, k, yamlScalar(d[k]))
	}
}

func renderYAML(groups []map[string]interface{}) string {
	var b strings.Builder
	b.WriteString("node_groups:\n")
	for _, g := range groups {
		renderYAMLGroup(&b, g)
	}
	return b.String()
}

func renderJSON(groups []map[string]interface{}) string {
	out, _ := json.MarshalIndent(map[string]interface{}{"node_groups": groups}, "", "  ")
	return string(out)
}

// exported fields that differ between two option values, as json-tag paths ("aws.lifecycle")
func changedFields(a, b interface{}, prefix string) []string {
	var out []string
	va, vb := reflect.ValueOf(a), reflect.ValueOf(b)
	t := va.Type()
	for i := 0; i < t.NumField(); i++ {
		f := t.Field(i)
		if !f.IsExported() {
			continue
		}
		tag := strings.Split(f.Tag.Get("json"), ",")[0]
		if tag == "" {
			tag = f.Name
		}
		if f.Type.Kind() == reflect.Struct {
			out = append(out, changedFields(va.Field(i).Interface(), vb.Field(i).Interface(), prefix+tag+".")...)
			continue
		}
		if !reflect.DeepEqual(va.Field(i).Interface(), vb.Field(i).Interface()) {
			out = append(out, prefix+tag)
		}
	}
	return out
}

// json tags of the COMPILED option structs (reflect): path -> kind of value to write
func compiledTags(t reflect.Type, prefix string, out map[string]reflect.Type) {
	for i := 0; i < t.NumField(); i++ {
		f := t.Field(i)
		if !f.IsExported() {
			continue
		}
		tag := strings.Split(f.Tag.Get("json"), ",")[0]
		if tag == "-" {
			continue
		}
		if tag == "" {
			tag = f.Name
		}
		if f.Type.Kind() == reflect.Struct {
			compiledTags(f.Type, prefix+tag+".", out)
			continue
		}
		out[prefix+tag] = f.Type
	}
}

func distinctive(t reflect.Type, base interface{}) interface{} {
	if t == nil {
		return "7m13s" // a key no field carries: the documentation writes such values as strings
	}
	switch t.Kind() {
	case reflect.Int:
		return 7919
	case reflect.Bool:
		b, _ := base.(bool)
		return !b
	case reflect.Slice:
		return []interface{}{"zz1.large", "zz2.large"}
	case reflect.String:
		if t.Name() == "TaintEffect" {
			return "PreferNoSchedule"
		}
		return "7m13s"
	}
	return "7m13s"
}

func decodeOne(text string) (controller.NodeGroupOptions, error) {
	gs, err := controller.UnmarshalNodeGroupOptions(strings.NewReader(text)) // the REAL decoder
	if err != nil {
		return controller.NodeGroupOptions{}, err
	}
	if len(gs) != 1 {
		return controller.NodeGroupOptions{}, fmt.Errorf("decoded %d groups, expected 1", len(gs))
	}
	return gs[0], nil
}

func decoderCheck() (violations, known []string, info map[string]interface{}) {
	info = map[string]interface{}{}
	repo := verifRepo()
	tags := map[string]reflect.Type{}
	compiledTags(reflect.TypeOf(controller.NodeGroupOptions{}), "", tags)

	// the translator's view of the same tables (what c16_keys is proved about) must agree with the compiled structs
	tr, err := newTranslator(repo)
	var docTop, docAws []string
	if err == nil {
		docTop, docAws, err = tr.documentedKeys()
	}
	if err != nil {
		return []string{"cannot read the documented keys: " + err.Error()}, nil, info
	}
	trTags := map[string]bool{}
	for _, x := range []struct{ typ, prefix string }{{optsType, ""}, {awsOptsType, "aws."}} {
		rows, err := tr.tags(x.typ)
		if err != nil {
			return []string{"cannot read the struct tags: " + err.Error()}, nil, info
		}
		for _, r := range rows {
			if x.typ == optsType && r.field == "AWS" {
				continue
			}
			trTags[x.prefix+r.json] = true
		}
	}
	for k := range tags {
		if !trTags[k] {
			violations = append(violations, fmt.Sprintf("translator/compiled disagreement: compiled struct has json tag %q, Generated.v does not", k))
		}
	}
	for k := range trTags {
		if _, ok := tags[k]; !ok {
			violations = append(violations, fmt.Sprintf("translator/compiled disagreement: Generated.v has json tag %q, the compiled struct does not", k))
		}
	}

	documented := map[string]bool{}
	keys := []string{}
	for _, k := range docTop {
		if k == "aws" {
			continue
		}
		documented[k] = true
		keys = append(keys, k)
	}
	for _, k := range docAws {
		documented["aws."+k] = true
		keys = append(keys, "aws."+k)
	}
	for k := range tags {
		if !documented[k] {
			keys = append(keys, k)
		}
	}
	sort.Strings(keys)

	base := baseDoc()
	baseY, errY := decodeOne(renderYAML([]map[string]interface{}{base}))
	baseJ, errJ := decodeOne(renderJSON([]map[string]interface{}{base}))
	if errY != nil || errJ != nil {
		return append(violations, fmt.Sprintf("the base document does not decode: yaml=%v json=%v", errY, errJ)), nil, info
	}
	if !reflect.DeepEqual(baseY, baseJ) {
		violations = append(violations, fmt.Sprintf("base document: YAML and JSON decode differently: %+v vs %+v", baseY, baseJ))
	}
	// the base document is the documentation's example: it should be what cfgBaseOpts() says and pass validation
	if ch := changedFields(baseY, cfgBaseOpts(), ""); len(ch) > 0 {
		violations = append(violations, fmt.Sprintf("decoding the documentation's example does not give the documented values; differing options: %v", ch))
	}
	info["docs_example_problems"] = len(controller.ValidateNodeGroup(baseY))

	honoured, undocumented := 0, []string{}
	for _, key := range keys {
		doc := copyDoc(base)
		var val interface{}
		if strings.HasPrefix(key, "aws.") {
			sub := doc["aws"].(map[string]interface{})
			val = distinctive(tags[key], sub[strings.TrimPrefix(key, "aws.")])
			sub[strings.TrimPrefix(key, "aws.")] = val
		} else {
			val = distinctive(tags[key], doc[key])
			doc[key] = val
		}
		y, errY := decodeOne(renderYAML([]map[string]interface{}{doc}))
		j, errJ := decodeOne(renderJSON([]map[string]interface{}{doc}))
		if errY != nil || errJ != nil {
			violations = append(violations, fmt.Sprintf("key %s: document does not decode: yaml=%v json=%v", key, errY, errJ))
			continue
		}
		if !reflect.DeepEqual(y, j) {
			violations = append(violations, fmt.Sprintf("key %s = %v: YAML and JSON decode to different options (differing: %v)", key, val, changedFields(y, j, "")))
			continue
		}
		ch := changedFields(baseY, y, "")
		switch {
		case len(ch) == 0 && key == "scale_up_cool_down_timeout":
			known = append(known, "K2")
		case len(ch) == 0 && documented[key]:
			violations = append(violations, fmt.Sprintf("documented key %s is not decoded into any option (setting it to %v changes nothing)", key, val))
		case len(ch) == 0:
			violations = append(violations, fmt.Sprintf("json tag %s is not honoured by the decoder (setting it to %v changes nothing)", key, val))
		case len(ch) != 1 || ch[0] != key:
			violations = append(violations, fmt.Sprintf("key %s = %v changes option(s) %v instead of the one carrying that json tag", key, val, ch))
		default:
			// the value arrived intact?
			got := fieldByTag(y, key)
			want := val
			if !sameValue(got, want) {
				violations = append(violations, fmt.Sprintf("key %s: wrote %v, decoded %v", key, want, got))
			} else {
				honoured++
			}
		}
		if !documented[key] {
			undocumented = append(undocumented, key)
		}
	}
	info["decoder_keys_checked"] = len(keys)
	info["decoder_keys_honoured"] = honoured
	info["json_tags_not_in_the_documented_example"] = undocumented
	return violations, known, info
}

func fieldByTag(o interface{}, path string) interface{} {
	v := reflect.ValueOf(o)
	parts := strings.Split(path, ".")
	for _, p := range parts {
		t := v.Type()
		found := false
		for i := 0; i < t.NumField(); i++ {
			tag := strings.Split(t.Field(i).Tag.Get("json"), ",")[0]
			if tag == "" {
				tag = t.Field(i).Name
			}
			if tag == p && t.Field(i).IsExported() {
				v = v.Field(i)
				found = true
				break
			}
		}
		if !found {
			return nil
		}
	}
	return v.Interface()
}

func sameValue(got, want interface{}) bool {
	switch w := want.(type) {
	case []interface{}:
		g, ok := got.([]string)
		if !ok || len(g) != len(w) {
			return false
		}
		for i := range g {
			if g[i] != w[i] {
				return false
			}
		}
		return true
	case string:
		return fmt.Sprint(got) == w
	default:
		return reflect.DeepEqual(got, want)
	}
}

// ---------------------------------------------------------------------------------------------------------------------
// start-up gate: the real binary

func sourceHash(repo string) string {
	h := sha256.New()
	for _, d := range []string{"cmd", "pkg"} {
		filepath.WalkDir(filepath.Join(repo, d), func(p string, e fs.DirEntry, err error) error {
			if err != nil || e.IsDir() || !strings.HasSuffix(p, ".go") || strings.HasSuffix(p, "_test.go") {
				return nil
			}
			data, _ := os.ReadFile(p)
			fmt.Fprintf(h, "%s %d\n", p, len(data))
			h.Write(data)
			return nil
		})
	}
	for _, f := range []string{"go.mod", "go.sum"} {
		data, _ := os.ReadFile(filepath.Join(repo, f))
		h.Write(data)
	}
	return fmt.Sprintf("%x", h.Sum(nil))[:16]
}

func buildEscalator(repo string) (string, error) {
	dir := filepath.Join(os.TempDir(), "verif-c16-"+sourceHash(repo))
	bin := filepath.Join(dir, "escalator")
	if st, err := os.Stat(bin); err == nil && st.Mode().IsRegular() {
		return bin, nil
	}
	if err := os.MkdirAll(dir, 0o755); err != nil {
		return "", err
	}
	tmp := fmt.Sprintf("%s.%d", bin, os.Getpid())
	cmd := exec.Command("go", "build", "-ldflags", "-s -w", "-o", tmp, "./cmd")
	cmd.Dir = repo
	env := []string{}
	for _, e := range os.Environ() {
		if !strings.HasPrefix(e, "GOFLAGS=") {
			env = append(env, e)
		}
	}
	// offline; -mod=readonly: the build must not touch the repository's go.mod / go.sum
	cmd.Env = append(env, "GOFLAGS=-mod=readonly", "GOPROXY=off", "GOSUMDB=off", "GOTOOLCHAIN=local", "CGO_ENABLED=0")
	out, err := cmd.CombinedOutput()
	if err != nil {
		return "", fmt.Errorf("go build ./cmd in %s failed: %v\n%s", repo, err, out)
	}
	if err := os.Rename(tmp, bin); err != nil {
		return "", err
	}
	// binaries of other source states (earlier runs) are not needed again; leave recent ones to concurrent runs
	if old, err := filepath.Glob(filepath.Join(os.TempDir(), "verif-c16-????????????????")); err == nil {
		for _, d := range old {
			if st, err := os.Stat(d); err == nil && d != dir && time.Since(st.ModTime()) > 10*time.Minute {
				os.RemoveAll(d)
			}
		}
	}
	return bin, nil
}

// every option of the group explicitly, with its type (YAML would otherwise read `5` or `yes` differently from JSON), under
// the json names of the COMPILED structs (so a renamed tag is followed and does not disturb the gate comparison)
func structDoc(v reflect.Value) map[string]interface{} {
	out := map[string]interface{}{}
	t := v.Type()
	for i := 0; i < t.NumField(); i++ {
		f := t.Field(i)
		if !f.IsExported() {
			continue
		}
		tag := strings.Split(f.Tag.Get("json"), ",")[0]
		if tag == "-" {
			continue
		}
		if tag == "" {
			tag = f.Name
		}
		fv := v.Field(i)
		switch fv.Kind() {
		case reflect.Struct:
			out[tag] = structDoc(fv)
		case reflect.String:
			out[tag] = fv.String()
		case reflect.Int, reflect.Int64:
			out[tag] = int(fv.Int())
		case reflect.Bool:
			out[tag] = fv.Bool()
		case reflect.Slice:
			if fv.Len() == 0 {
				continue // absent and empty decode differently (nil vs empty slice); the options compare them as given
			}
			l := []interface{}{}
			for k := 0; k < fv.Len(); k++ {
				l = append(l, fmt.Sprint(fv.Index(k).Interface()))
			}
			out[tag] = l
		}
	}
	return out
}

func optsDoc(o controller.NodeGroupOptions) map[string]interface{} {
	return structDoc(reflect.ValueOf(o))
}

type gateLine struct {
	Level     string `json:"level"`
	Msg       string `json:"msg"`
	NodeGroup string `json:"nodegroup"`
}

type gateObs struct {
	verdicts  []string // "PASS"/"FAIL" in order
	problems  int      // number of "failed check" lines
	wentOn    bool     // reached "Using in cluster config"
	exit      int
	timedOut  bool
	firstLine string
}

func runGate(bin, file string) gateObs {
	ctx, cancel := context.WithTimeout(context.Background(), 10*time.Second)
	defer cancel()
	cmd := exec.CommandContext(ctx, bin, "--nodegroups", file, "--logfmt", "json")
	env := []string{}
	for _, e := range os.Environ() {
		if strings.HasPrefix(e, "KUBERNETES_") || strings.HasPrefix(e, "KUBECONFIG=") || strings.HasPrefix(e, "AWS_") {
			continue
		}
		env = append(env, e)
	}
	cmd.Env = env
	var buf bytes.Buffer
	cmd.Stdout = &buf
	cmd.Stderr = &buf
	err := cmd.Run()
	obs := gateObs{}
	if ctx.Err() != nil {
		obs.timedOut = true
	}
	if err != nil {
		if ee, ok := err.(*exec.ExitError); ok {
			obs.exit = ee.ExitCode()
		} else {
			obs.exit = -1
		}
	}
	sc := bufio.NewScanner(&buf)
	sc.Buffer(make([]byte, 1<<20), 1<<20)
	for sc.Scan() {
		var l gateLine
		if json.Unmarshal(sc.Bytes(), &l) != nil {
			continue
		}
		if obs.firstLine == "" {
			obs.firstLine = l.Msg
		}
		switch {
		case l.Msg == "Validating options: [PASS]":
			obs.verdicts = append(obs.verdicts, "PASS")
		case l.Msg == "Validating options: [FAIL]":
			obs.verdicts = append(obs.verdicts, "FAIL")
		case l.Msg == "failed check":
			obs.problems++
		case l.Msg == "Using in cluster config" || l.Msg == "Using out of cluster config":
			obs.wentOn = true
		}
	}
	return obs
}

func gateCheck(specs []cfgSpec, verdicts []int, nfiles int, rng *rand.Rand) (violations []string, info map[string]interface{}, err error) {
	info = map[string]interface{}{}
	bin, err := buildEscalator(verifRepo())
	if err != nil {
		return nil, nil, err
	}
	dir, err := os.MkdirTemp("", "verif-c16-gate-")
	if err != nil {
		return nil, nil, err
	}
	defer os.RemoveAll(dir)

	// sample: the base, then alternately accepted and rejected configurations; every fifth file carries three groups
	var acc, rej []int
	for i, v := range verdicts {
		if v == 0 {
			acc = append(acc, i)
		} else {
			rej = append(rej, i)
		}
	}
	pick := func(l []int) int { return l[rng.Intn(len(l))] }
	type gfile struct {
		groups []int
	}
	files := []gfile{{[]int{0}}}
	for len(files) < nfiles {
		n := 1
		if len(files)%5 == 4 {
			n = 3
		}
		g := []int{}
		for k := 0; k < n; k++ {
			if (len(acc) > 0 && (len(files)+k)%2 == 0) || len(rej) == 0 {
				g = append(g, pick(acc))
			} else {
				g = append(g, pick(rej))
			}
		}
		files = append(files, gfile{g})
	}

	type job struct {
		idx    int
		syntax string
		path   string
		groups []int
	}
	jobs := []job{}
	for i, f := range files {
		docs := []map[string]interface{}{}
		for _, g := range f.groups {
			docs = append(docs, optsDoc(specs[g].Opts))
		}
		for _, syn := range []string{"yaml", "json"} {
			text := renderYAML(docs)
			if syn == "json" {
				text = renderJSON(docs)
			}
			p := filepath.Join(dir, fmt.Sprintf("ng_%03d.%s", i, syn))
			if err := os.WriteFile(p, []byte(text), 0o644); err != nil {
				return nil, nil, err
			}
			// the document must mean the same options to the in-process decoder, else the comparison below is void
			dec, derr := controller.UnmarshalNodeGroupOptions(strings.NewReader(text))
			if derr != nil || len(dec) != len(f.groups) {
				violations = append(violations, fmt.Sprintf("gate file %d (%s): does not decode to %d groups: %v", i, syn, len(f.groups), derr))
				continue
			}
			same := true
			for k, g := range f.groups {
				want := specs[g].Opts
				if len(changedFields(dec[k], want, "")) > 0 {
					same = false
					violations = append(violations, fmt.Sprintf("gate file %d (%s): group %d decodes to different options (differing: %v)", i, syn, k, changedFields(dec[k], want, "")))
				}
			}
			if same {
				jobs = append(jobs, job{i, syn, p, f.groups})
			}
		}
	}
	obs := make([]gateObs, len(jobs))
	var wg sync.WaitGroup
	sem := make(chan struct{}, 8)
	for i := range jobs {
		wg.Add(1)
		go func(i int) {
			defer wg.Done()
			sem <- struct{}{}
			obs[i] = runGate(bin, jobs[i].path)
			<-sem
		}(i)
	}
	wg.Wait()

	pass, fail := 0, 0
	for i, j := range jobs {
		o := obs[i]
		// expected: PASS for every group before the first invalid one, FAIL there, and nothing further
		want := []string{}
		wantProblems, invalid := 0, false
		for _, g := range j.groups {
			if verdicts[g] == 0 {
				want = append(want, "PASS")
			} else {
				want = append(want, "FAIL")
				wantProblems = verdicts[g]
				invalid = true
				break
			}
		}
		desc := func() string {
			labels := []string{}
			for _, g := range j.groups {
				labels = append(labels, fmt.Sprintf("{%s: validator reports %d problem(s)}", strings.Join(specs[g].Perturbed, ", "), verdicts[g]))
			}
			return fmt.Sprintf("start-up gate, file %d (%s) groups %s", j.idx, j.syntax, strings.Join(labels, " "))
		}
		switch {
		case o.timedOut:
			violations = append(violations, desc()+": the process did not exit within 10 s")
		case strings.Join(o.verdicts, ",") != strings.Join(want, ","):
			violations = append(violations, fmt.Sprintf("%s: binary logged %v, validator says %v", desc(), o.verdicts, want))
		case invalid && (o.wentOn || o.exit == 0):
			violations = append(violations, fmt.Sprintf("%s: invalid group but the process went on (continued=%v exit=%d)", desc(), o.wentOn, o.exit))
		case invalid && o.problems != wantProblems:
			violations = append(violations, fmt.Sprintf("%s: binary logged %d failed checks, validator reports %d", desc(), o.problems, wantProblems))
		case !invalid && !o.wentOn:
			violations = append(violations, fmt.Sprintf("%s: every group valid but the process did not proceed to the cluster client (exit=%d)", desc(), o.exit))
		}
		if invalid {
			fail++
		} else {
			pass++
		}
	}
	info["gate_runs"] = len(jobs)
	info["gate_files_all_valid"] = pass
	info["gate_files_with_invalid_group"] = fail
	return violations, info, nil
}
