package main

import (
	"context"
	"encoding/json"
	"fmt"
	"sort"
	"strings"
	"strconv"
	"sync"
	"time"

	"github.com/atlassian/escalator/pkg/cloudprovider"
	awsprov "github.com/atlassian/escalator/pkg/cloudprovider/aws"
	"github.com/atlassian/escalator/pkg/controller"
	"github.com/stephanos/clock"
	v1 "k8s.io/api/core/v1"
	apierrors "k8s.io/apimachinery/pkg/api/errors"
	metav1 "k8s.io/apimachinery/pkg/apis/meta/v1"
	"k8s.io/apimachinery/pkg/labels"
	"k8s.io/apimachinery/pkg/runtime"
	"k8s.io/apimachinery/pkg/runtime/schema"
	"k8s.io/client-go/kubernetes/fake"
	v1lister "k8s.io/client-go/listers/core/v1"
	k8stesting "k8s.io/client-go/testing"
)

// ---------- spec of one scan ----------

type stateSpec struct {
	Locked       bool     `json:"locked,omitempty"`
	LockAgeNs    *int64   `json:"lock_age_ns,omitempty"` // nil: Go zero time
	Requested    int      `json:"requested,omitempty"`
	ScaleDelta   int      `json:"scale_delta,omitempty"`
	LastOutAgeNs *int64   `json:"last_out_age_ns,omitempty"`
	CacheCPU     int64    `json:"cache_cpu_milli,omitempty"`
	CacheMem     int64    `json:"cache_mem_bytes,omitempty"`
	TaintTracker []string `json:"taint_tracker,omitempty"`
	ForceTracker []string `json:"force_tracker,omitempty"`
}

type korcSpec struct {
	GetFail    []string `json:"get_fail,omitempty"`
	UpdateFail []string `json:"update_fail,omitempty"`
	Conflict   []string `json:"conflict,omitempty"` // the node's first update is rejected with 409 after another writer changed it
	DeleteFail []string `json:"delete_fail,omitempty"`
}

type groupSpec struct {
	Opts  controller.NodeGroupOptions `json:"opts"`
	State stateSpec                   `json:"state"`
	Aws   AwsOracle                   `json:"aws"`
	K8s   korcSpec                    `json:"k8s"`
}

type scanSpec struct {
	BaseSec   int64       `json:"base_sec"`  // the unix second all absolute times in this spec are relative to
	OffsetNs  int64       `json:"offset_ns"` // sub-second part of the scan instant (mock clock)
	GlobalDry bool        `json:"global_dry,omitempty"`
	Groups    []groupSpec `json:"groups"`
	Nodes     []*v1.Node  `json:"nodes"`
	Pods      []*v1.Pod   `json:"pods"`
	API       []*v1.Node  `json:"api,omitempty"` // nil: same objects as Nodes
	Cloud     []SimASG    `json:"cloud"`
	Tries     map[string]int `json:"tries,omitempty"`
	// RefreshFails: the first k provider refreshes of the scan fail (RunOnce sleeps 5 s and rebuilds the provider after each)
	RefreshFails int      `json:"refresh_fails,omitempty"`
	// RefreshSeq: explicit outcomes of the successive refresh / rebuild describes (overrides RefreshFails)
	RefreshSeq []bool     `json:"refresh_seq,omitempty"`
	// Forever: the scan is started through RunForever(true) (scan interval 40 ms) instead of RunOnce; only for worlds whose
	// first RunOnce returns an error, so that the loop must end there (outcome 5: it went on)
	Forever bool          `json:"forever,omitempty"`
	Note      string      `json:"note,omitempty"`
	Known     string      `json:"known_finding,omitempty"`
}

// refreshPlan: the outcomes of the DescribeAutoScalingGroups calls of RunOnce's prelude (Refresh, then Build and Refresh per retry).
func (s *scanSpec) refreshPlan() []bool {
	if s.RefreshSeq != nil {
		return append([]bool{}, s.RefreshSeq...)
	}
	out := []bool{}
	for i := 0; i < s.RefreshFails; i++ {
		out = append(out, false)
	}
	return out
}

// preludeSleeps: how many 5 s sleeps RunOnce's retry loop takes under the plan (mirrors the loop's control flow only to size
// the harness's real-time tolerances).
func (s *scanSpec) preludeSleeps() int {
	plan := s.refreshPlan()
	next := func() bool {
		if len(plan) == 0 {
			return true
		}
		v := plan[0]
		plan = plan[1:]
		return v
	}
	if next() {
		return 0
	}
	n := 0
	for i := 0; i < 2; i++ {
		n++
		if !next() { // Build fails: RunOnce returns
			return n
		}
		if next() {
			return n
		}
	}
	return n
}

// rebase moves every absolute time of the spec from BaseSec to newBase.
func (s *scanSpec) rebase(newBase int64) {
	d := newBase - s.BaseSec
	if d == 0 {
		return
	}
	fix := func(n *v1.Node) {
		if !n.CreationTimestamp.IsZero() {
			n.CreationTimestamp = metav1.NewTime(n.CreationTimestamp.Add(time.Duration(d) * time.Second))
		}
		for i := range n.Spec.Taints {
			n.Spec.Taints[i].Value = shiftTaintValue(n.Spec.Taints[i].Value, d, s.BaseSec)
		}
	}
	for _, n := range s.Nodes {
		fix(n)
	}
	for _, n := range s.API {
		fix(n)
	}
	s.BaseSec = newBase
}

// ---------- journal shared by the simulated API server and the simulated AWS ----------

type JEntry struct {
	K8s     *K8sCall
	Aws     *AwsCall
	Marker  bool // start of a node group's scan (the pod lister was consulted)
}

type K8sCall struct {
	Verb    string
	Name    string
	OK      bool
	Payload *v1.Node
	Added   bool // update: the payload carries more taints than the stored copy (a taint was appended)
}

type Journal struct {
	mu      sync.Mutex
	entries []JEntry
}

func (j *Journal) add(e JEntry) {
	j.mu.Lock()
	j.entries = append(j.entries, e)
	j.mu.Unlock()
}

// ---------- listers ----------

type snapPodLister struct {
	pods   []*v1.Pod
	j      *Journal
	onList func() // called at the start of every node group's scan
}

func (l *snapPodLister) List(sel labels.Selector) ([]*v1.Pod, error) {
	l.j.add(JEntry{Marker: true})
	if l.onList != nil {
		l.onList()
	}
	return append([]*v1.Pod(nil), l.pods...), nil
}
func (l *snapPodLister) Pods(ns string) v1lister.PodNamespaceLister { return nil }

type snapNodeLister struct{ nodes []*v1.Node }

// List returns the cache's own objects, as an informer does: the same pointers on every call until the cache is refreshed
// (set), so whatever the controller writes into them stays there.
func (l *snapNodeLister) List(sel labels.Selector) ([]*v1.Node, error) {
	return append([]*v1.Node(nil), l.nodes...), nil
}

// set fills the cache with delivered copies of the given objects (resource version stamped).
func (l *snapNodeLister) set(nodes []*v1.Node) {
	l.nodes = make([]*v1.Node, 0, len(nodes))
	for _, n := range nodes {
		l.nodes = append(l.nodes, stampRV(n))
	}
}

// contentRV: the resource version of a node object is a function of its content, so that a listed copy and the API server's
// copy carry the same version exactly when they are the same object state (histories edit both stores directly).
func contentRV(n *v1.Node) string {
	c := n.DeepCopy()
	c.ResourceVersion = ""
	c.ManagedFields = nil
	h := hashJSON(c)
	if h < 0 {
		h = -h
	}
	return strconv.FormatInt(h%1000000000000, 10)
}

func stampRV(n *v1.Node) *v1.Node {
	c := n.DeepCopy()
	c.ResourceVersion = contentRV(n)
	return c
}
func (l *snapNodeLister) Get(name string) (*v1.Node, error) { return nil, nil }

// ---------- simulated API server (nodes only) ----------

type apiSim struct {
	mu    sync.Mutex
	store map[string]*v1.Node
	orc   map[string]*korcSpec // by node name -> the oracle of the group that owns it is not known here, so a union is used
	get, update, del map[string]bool
	conflict map[string]bool // a concurrent writer changes the node just before escalator's first update of it: 409
	j     *Journal
}

func newAPISim(nodes []*v1.Node, j *Journal) *apiSim {
	a := &apiSim{store: map[string]*v1.Node{}, get: map[string]bool{}, update: map[string]bool{}, del: map[string]bool{}, j: j}
	for _, n := range nodes {
		a.store[n.Name] = n.DeepCopy()
	}
	return a
}

var nodeGR = schema.GroupResource{Resource: "nodes"}

func (a *apiSim) react(action k8stesting.Action) (bool, runtime.Object, error) {
	a.mu.Lock()
	defer a.mu.Unlock()
	switch action.GetVerb() {
	case "get":
		act := action.(k8stesting.GetAction)
		name := act.GetName()
		n, ok := a.store[name]
		if a.get[name] || !ok {
			a.j.add(JEntry{K8s: &K8sCall{Verb: "get", Name: name, OK: false}})
			if !ok {
				return true, nil, apierrors.NewNotFound(nodeGR, name)
			}
			return true, nil, errInjected
		}
		a.j.add(JEntry{K8s: &K8sCall{Verb: "get", Name: name, OK: true}})
		return true, stampRV(n), nil
	case "update":
		act := action.(k8stesting.UpdateAction)
		obj := act.GetObject().(*v1.Node)
		name := obj.Name
		old, ok := a.store[name]
		if ok && a.conflict[name] {
			// the other writer: drops the node's first taint that is not escalator's (the lifecycle controller clearing
			// not-ready), or touches a label when there is none
			delete(a.conflict, name)
			dropped := false
			for i, t := range old.Spec.Taints {
				if t.Key != "atlassian.com/escalator" {
					old.Spec.Taints = append(append([]v1.Taint{}, old.Spec.Taints[:i]...), old.Spec.Taints[i+1:]...)
					dropped = true
					break
				}
			}
			if !dropped {
				if old.Labels == nil {
					old.Labels = map[string]string{}
				}
				old.Labels["verif/touched"] = "1"
			}
		}
		stale := ok && obj.ResourceVersion != contentRV(old)
		fail := a.update[name] || !ok || stale
		added := !ok || len(obj.Spec.Taints) > len(old.Spec.Taints)
		a.j.add(JEntry{K8s: &K8sCall{Verb: "update", Name: name, OK: !fail, Payload: obj.DeepCopy(), Added: added}})
		if stale {
			return true, nil, apierrors.NewConflict(nodeGR, name, fmt.Errorf("the object has been modified; please apply your changes to the latest version and try again"))
		}
		if fail {
			return true, nil, errInjected
		}
		a.store[name] = obj.DeepCopy()
		return true, stampRV(obj), nil
	case "delete":
		act := action.(k8stesting.DeleteAction)
		name := act.GetName()
		fail := a.del[name]
		a.j.add(JEntry{K8s: &K8sCall{Verb: "delete", Name: name, OK: !fail}})
		if fail {
			return true, nil, errInjected
		}
		delete(a.store, name)
		return true, nil, nil
	}
	return false, nil, nil
}

// ---------- builder returning the simulated provider ----------

type simBuilder struct {
	build func() (cloudprovider.CloudProvider, error)
}

func (b simBuilder) Build() (cloudprovider.CloudProvider, error) { return b.build() }

// ---------- observation ----------

type groupObs struct {
	Name    string
	Calls   []JEntry
	State   controller.VerifGroupState
	Desired int64
	Tries   int
	Reached bool
}

type scanObs struct {
	Groups  []groupObs
	Out     int // 0 RunOnce returned nil, 1 returned another error, 2 returned NodeNotInNodeGroup, 3 exit, 4 panic
	Panic   string
	NowNs   int64 // the scan instant (mock clock), unix ns
	Start   time.Time
	End     time.Time
	PreLock map[string]time.Time
	PreOut  map[string]time.Time
}

var scanMu sync.Mutex // the mock clock is a package variable of stephanos/clock: scans run one at a time

func quantityString(q int64, milli bool) string {
	if milli {
		return fmt.Sprintf("%dm", q)
	}
	return fmt.Sprintf("%d", q)
}

// world is a controller over simulated services that can run several scans (histories).
type world struct {
	spec   *scanSpec
	j      *Journal
	api    *apiSim
	sim    *AwsSim
	prov   *awsprov.CloudProvider
	ctl    *controller.Controller
	pods   *snapPodLister
	nodes  *snapNodeLister
}

func newWorld(s *scanSpec) (*world, error) {
	w := &world{spec: s, j: &Journal{}}
	apiNodes := s.API
	if apiNodes == nil {
		apiNodes = s.Nodes
	}
	w.api = newAPISim(apiNodes, w.j)
	w.sim = NewAwsSim(s.Cloud)
	w.sim.journalSink = w.j
	w.pods = &snapPodLister{pods: s.Pods, j: w.j}
	w.nodes = &snapNodeLister{}
	w.nodes.set(s.Nodes)
	// the simulated AWS attributes calls about instances it does not know to the group being scanned
	w.pods.onList = func() {
		w.sim.mu.Lock()
		w.sim.curIdx++
		w.sim.describeAsRefresh = 0 // the prelude is over: later describes belong to createTemplateOverrides
		w.sim.mu.Unlock()
	}
	w.sim.curGroup = func() string {
		i := w.sim.curIdx - 1
		if i >= 0 && i < len(w.spec.Groups) {
			return w.spec.Groups[i].Opts.CloudProviderGroupName
		}
		return ""
	}
	if err := w.build(); err != nil {
		return nil, err
	}
	return w, nil
}

// build constructs a fresh cloud provider and a fresh Controller over the world's services (also: a restart).
func (w *world) build() error {
	s := w.spec
	configs := []cloudprovider.NodeGroupConfig{}
	opts := []controller.NodeGroupOptions{}
	w.sim.mu.Lock()
	cloud := w.sim.snapshotGroups()
	w.sim.mu.Unlock()
	for i := range s.Groups {
		g := &s.Groups[i]
		o := g.Aws
		w.sim.oracle[g.Opts.CloudProviderGroupName] = &o
		for _, a := range cloud {
			if a.Name == g.Opts.CloudProviderGroupName {
				c := groupConfig(a, o)
				c.Name = g.Opts.Name
				configs = append(configs, c)
			}
		}
		opts = append(opts, g.Opts)
	}
	prov, err := awsprov.VerifNewCloudProvider(simAutoscaling{s: w.sim}, simEC2{s: w.sim}, configs...)
	if err != nil {
		return err
	}
	w.prov = prov
	cs := fake.NewSimpleClientset()
	cs.PrependReactor("*", "nodes", w.api.react)
	interval := time.Minute
	if s.Forever {
		interval = 40 * time.Millisecond
	}
	copts := controller.Opts{K8SClient: cs, NodeGroups: opts, DryMode: s.GlobalDry, ScanInterval: interval,
		// like aws.Builder.Build: a new provider over the same services, registering the node groups (one describe)
		CloudProviderBuilder: simBuilder{build: func() (cloudprovider.CloudProvider, error) {
			np, err := awsprov.VerifNewCloudProvider(simAutoscaling{s: w.sim}, simEC2{s: w.sim}, configs...)
			if err != nil {
				return nil, err
			}
			w.prov = np
			return np, nil
		}}}
	ctl, err := controller.VerifNewController(copts, prov, w.pods, w.nodes)
	if err != nil {
		return err
	}
	w.ctl = ctl
	return nil
}

// setOracles installs the per-group API failure oracles (union over groups: node names are unique per case).
func (w *world) setOracles() {
	w.api.get, w.api.update, w.api.del = map[string]bool{}, map[string]bool{}, map[string]bool{}
	w.api.conflict = map[string]bool{}
	for _, g := range w.spec.Groups {
		for _, n := range g.K8s.GetFail {
			w.api.get[n] = true
		}
		for _, n := range g.K8s.UpdateFail {
			w.api.update[n] = true
		}
		for _, n := range g.K8s.Conflict {
			w.api.conflict[n] = true
		}
		for _, n := range g.K8s.DeleteFail {
			w.api.del[n] = true
		}
		o := g.Aws
		w.sim.oracle[g.Opts.CloudProviderGroupName] = &o
	}
}

func (w *world) setStates(now time.Time) (map[string]time.Time, map[string]time.Time) {
	preLock, preOut := map[string]time.Time{}, map[string]time.Time{}
	for _, g := range w.spec.Groups {
		st := controller.VerifGroupState{Locked: g.State.Locked, Requested: g.State.Requested, ScaleDelta: g.State.ScaleDelta,
			CPUCapMilli: g.State.CacheCPU, MemCapBytes: g.State.CacheMem, TaintTracker: g.State.TaintTracker, ForceTaintTracker: g.State.ForceTracker}
		if g.State.LockAgeNs != nil {
			st.LockTime = now.Add(-time.Duration(*g.State.LockAgeNs))
		}
		if g.State.LastOutAgeNs != nil {
			st.LastScaleOut = now.Add(-time.Duration(*g.State.LastOutAgeNs))
		}
		w.ctl.VerifSetState(g.Opts.Name, st)
		preLock[g.Opts.Name] = st.LockTime
		preOut[g.Opts.Name] = st.LastScaleOut
		if ngi, ok := w.prov.GetNodeGroup(g.Opts.CloudProviderGroupName); ok {
			ngi.(*awsprov.NodeGroup).VerifSetTerminateTries(w.spec.Tries[g.Opts.CloudProviderGroupName])
		}
	}
	return preLock, preOut
}

// scanOnce runs RunOnce at the instant base+offset and returns what happened.
func (w *world) scanOnce(setState bool) scanObs {
	s := w.spec
	obs := scanObs{}
	mock := clock.NewMock()
	mockNow := time.Unix(s.BaseSec, s.OffsetNs)
	mock.FreezeAt(mockNow)
	clock.Work = mock
	defer func() { clock.Work = clock.New() }()
	obs.NowNs = mockNow.UnixNano()
	w.setOracles()
	realNow := time.Now()
	if setState {
		obs.PreLock, obs.PreOut = w.setStates(realNow)
	} else {
		obs.PreLock, obs.PreOut = map[string]time.Time{}, map[string]time.Time{}
		for _, g := range s.Groups {
			st := w.ctl.VerifGetState(g.Opts.Name)
			obs.PreLock[g.Opts.Name], obs.PreOut[g.Opts.Name] = st.LockTime, st.LastScaleOut
		}
	}
	w.j.mu.Lock()
	w.j.entries = nil
	w.j.mu.Unlock()
	w.sim.mu.Lock()
	w.sim.ResetCounters()
	w.sim.record = true
	w.sim.describeAsRefresh = 1000 // every describe before the first group's scan is a provider refresh (or rebuild)
	w.sim.refreshPlan = s.refreshPlan()
	w.sim.curIdx = 0
	w.sim.mu.Unlock()
	obs.Start = time.Now()
	func() {
		defer func() {
			if r := recover(); r != nil {
				if _, ok := r.(exitSentinel); ok {
					obs.Out = 3
				} else {
					obs.Out = 4
					obs.Panic = fmt.Sprint(r)
				}
			}
		}()
		classify := func(err error) int {
			if err == nil {
				return 0
			}
			if _, ok := err.(*cloudprovider.NodeNotInNodeGroup); ok {
				return 2
			}
			return 1
		}
		if !s.Forever {
			// watchdog: a scan that is still running long after every wait it can legitimately take (the prelude's sleeps, a fleet
			// readiness deadline of a few seconds) is reported as hung (outcome 6); its goroutine is abandoned
			type res struct {
				out   int
				panic string
			}
			done := make(chan res, 1)
			go func() {
				defer func() {
					if r := recover(); r != nil {
						if _, ok := r.(exitSentinel); ok {
							done <- res{out: 3}
						} else {
							done <- res{out: 4, panic: fmt.Sprint(r)}
						}
					}
				}()
				done <- res{out: classify(w.ctl.RunOnce())}
			}()
			select {
			case r := <-done:
				obs.Out, obs.Panic = r.out, r.panic
			case <-time.After(3*slowLimit(s) + 20*time.Second):
				obs.Out = 6
			}
			return
		}
		// the main loop: it must return the first error a run returns
		stop := make(chan struct{})
		w.ctl.VerifSetStopChan(stop)
		type ended struct {
			out   int
			panic string
		}
		done := make(chan ended, 1)
		go func() {
			defer func() {
				if r := recover(); r != nil {
					if _, ok := r.(exitSentinel); ok {
						done <- ended{out: 3}
					} else {
						done <- ended{out: 4, panic: fmt.Sprint(r)}
					}
				}
			}()
			done <- ended{out: classify(w.ctl.RunForever(true))}
		}()
		limit := time.Duration(s.preludeSleeps())*5200*time.Millisecond + 1500*time.Millisecond
		select {
		case e := <-done:
			obs.Out, obs.Panic = e.out, e.panic
		case <-time.After(limit):
			close(stop)
			select {
			case e := <-done:
				if e.out == 4 || e.out == 3 {
					obs.Out, obs.Panic = e.out, e.panic
				} else {
					obs.Out = 5
				}
			case <-time.After(15 * time.Second):
				obs.Out = 5
			}
		}
	}()
	obs.End = time.Now()
	w.sim.mu.Lock()
	w.sim.record = false
	w.sim.mu.Unlock()
	// split the journal per group at the lister markers
	w.j.mu.Lock()
	entries := append([]JEntry(nil), w.j.entries...)
	w.j.mu.Unlock()
	segs := [][]JEntry{}
	for _, e := range entries {
		if e.Marker {
			segs = append(segs, []JEntry{})
			continue
		}
		if len(segs) == 0 {
			segs = append(segs, []JEntry{}) // calls before any group (should not happen)
		}
		segs[len(segs)-1] = append(segs[len(segs)-1], e)
	}
	for i, g := range s.Groups {
		go_ := groupObs{Name: g.Opts.Name, State: w.ctl.VerifGetState(g.Opts.Name)}
		if i < len(segs) {
			go_.Calls = segs[i]
			go_.Reached = true
		}
		if ngi, ok := w.prov.GetNodeGroup(g.Opts.CloudProviderGroupName); ok {
			ng := ngi.(*awsprov.NodeGroup)
			go_.Desired = ng.TargetSize()
			go_.Tries = ng.VerifTerminateTries()
		}
		obs.Groups = append(obs.Groups, go_)
	}
	return obs
}

// slowLimit: how much real time a scan may take before its real-clock tolerances (taint stamp within 3 s, margins of
// 3 s around lock / max_node_age / lastScaleOut comparisons) are in doubt: 1.5 s, plus 2.5 s per fleet-mode group.
// preludeSleepsMax: the most 5 s sleeps any retry loop of that shape can take under the plan (two tries, one sleep per failed
// describe at most): the "machine under load" limit must not cut off an implementation that retries where today's code gives up.
func (s *scanSpec) preludeSleepsMax() int {
	n := 0
	for _, ok := range s.refreshPlan() {
		if !ok {
			n++
		}
	}
	if n > 2 {
		n = 2
	}
	if m := s.preludeSleeps(); m > n {
		n = m
	}
	return n
}

func slowLimit(s *scanSpec) time.Duration {
	d := 1500*time.Millisecond + time.Duration(s.preludeSleepsMax())*5200*time.Millisecond
	for _, a := range s.Cloud {
		if a.Template != "" {
			d += 2500 * time.Millisecond
		}
	}
	return d
}

var slowRetries int

func runScanSpec(s *scanSpec) (scanObs, error) {
	scanMu.Lock()
	defer scanMu.Unlock()
	for attempt := 0; ; attempt++ {
		t0 := time.Now()
		s.rebase(t0.Unix())
		w, err := newWorld(s)
		if err != nil {
			return scanObs{}, err
		}
		obs := w.scanOnce(true)
		// a stalled process (machine under load) breaks the harness's own timing assumptions: run the case again
		if time.Since(t0) > slowLimit(s) && attempt < 4 {
			slowRetries++
			continue
		}
		return obs, nil
	}
}

// ---------- emission ----------

func durNs(d time.Duration) int64 { return int64(d) }

func (in *Interner) copts(o controller.NodeGroupOptions) string {
	oo := o
	return fmt.Sprintf("(Build_opts %s %s %s %s %s %s %s %s %s %s %s %s %s %s %s %s %s %s)",
		cz(in.ID(o.Name)), cz(in.ID(o.LabelKey)), cz(in.ID(o.LabelValue)), cz(in.ID(o.CloudProviderGroupName)),
		cz(int64(o.MinNodes)), cz(int64(o.MaxNodes)), cbool(o.DryMode), cbool(o.ScaleOnStarve),
		cz(int64(o.TaintLowerCapacityThresholdPercent)), cz(int64(o.TaintUpperCapacityThresholdPercent)), cz(int64(o.ScaleUpThresholdPercent)),
		cz(int64(o.SlowNodeRemovalRate)), cz(int64(o.FastNodeRemovalRate)),
		cz(durNs(oo.SoftDeleteGracePeriodDuration())), cz(durNs(oo.HardDeleteGracePeriodDuration())),
		cz(durNs(oo.ScaleUpCoolDownPeriodDuration())), cz(durNs(oo.MaxNodeAgeDuration())), cz(in.ID(string(o.TaintEffect))))
}

func coptZ(v *int64) string {
	if v == nil {
		return "None"
	}
	return csome(cz(*v))
}

func (in *Interner) cgstate(locked bool, lockTime *int64, requested int, delta int, lastOut *int64, cpuMilli, memBytes int64, tt, ft []string) string {
	return fmt.Sprintf("(Build_gstate (Build_lock %s %s %s) %s %s (Build_qty %s 1000, Build_qty %s 1) %s %s)",
		cbool(locked), coptZ(lockTime), cz(int64(requested)), cz(int64(delta)), coptZ(lastOut), cz(cpuMilli), cz(memBytes), in.cids(tt), in.cids(ft))
}

func (in *Interner) cnodes(ns []*v1.Node) string {
	items := make([]string, 0, len(ns))
	for _, n := range ns {
		items = append(items, in.cnode(n))
	}
	return clist(items)
}

func (in *Interner) cpods(ps []*v1.Pod) string {
	items := make([]string, 0, len(ps))
	for _, p := range ps {
		items = append(items, in.cpod(p))
	}
	return clist(items)
}

// canonTaintStamp rewrites a freshly written escalator taint value (the real clock's second) to the scan's second.
func canonTaintStamp(n *v1.Node, nowSec int64, slack int64) {
	if len(n.Spec.Taints) == 0 {
		return
	}
	t := &n.Spec.Taints[len(n.Spec.Taints)-1]
	if t.Key != "atlassian.com/escalator" {
		return
	}
	if v, err := strconv.ParseInt(t.Value, 10, 64); err == nil && v >= nowSec && v <= nowSec+3+slack && strconv.FormatInt(v, 10) == t.Value {
		t.Value = strconv.FormatInt(nowSec, 10)
	}
}

func (in *Interner) ccall(e JEntry, nowSec int64, preTaintCount map[string]int) string {
	if e.Aws != nil {
		return "(CA " + in.cacall(*e.Aws) + ")"
	}
	k := e.K8s
	switch k.Verb {
	case "get":
		return fmt.Sprintf("(CK (KGet %s %s))", cz(in.ID(k.Name)), cbool(k.OK))
	case "update":
		p := k.Payload.DeepCopy()
		if k.Added { // only a freshly appended stamp reads the real clock
			canonTaintStamp(p, nowSec, in.stampSlack)
		}
		return fmt.Sprintf("(CK (KUpdate %s %s %s))", cz(in.ID(k.Name)), in.cnode(p), cbool(k.OK))
	case "delete":
		return fmt.Sprintf("(CK (KDelete %s %s))", cz(in.ID(k.Name)), cbool(k.OK))
	}
	panic("unknown verb " + k.Verb)
}

// reorderLag puts the DescribeInstances calls (whose order follows Go map iteration) into node-list order.
func reorderLag(calls []JEntry, nodes []*v1.Node) []JEntry {
	idx := map[string]int{}
	for i, n := range nodes {
		// the harness's own reading of aws:///<zone>/<instance> (bookkeeping must not depend on the function under test)
		id := ""
		if parts := strings.Split(n.Spec.ProviderID, "/"); len(parts) >= 5 {
			id = parts[4]
		}
		idx[id] = i
	}
	lag := []JEntry{}
	rest := []JEntry{}
	for _, e := range calls {
		if e.Aws != nil && e.Aws.Kind == "DescribeInstances" {
			lag = append(lag, e)
		} else {
			rest = append(rest, e)
		}
	}
	sort.SliceStable(lag, func(a, b int) bool { return idx[lag[a].Aws.Inst] < idx[lag[b].Aws.Inst] })
	return append(lag, rest...)
}

func canonTime(post, pre time.Time, preModel *int64, obs *scanObs) *int64 {
	if post.Equal(pre) {
		return preModel
	}
	if !post.Before(obs.Start.Add(-time.Millisecond)) && !post.After(obs.End.Add(time.Millisecond)) {
		v := obs.NowNs
		return &v
	}
	v := int64(-1) // neither unchanged nor fresh: will not match any model value
	return &v
}

func emitScanCase(s *scanSpec, obs *scanObs) (string, string, bool, string) {
	in := NewInterner()
	in.stampSlack = 6 * int64(s.preludeSleepsMax())
	nowNs := obs.NowNs
	nowSec := s.BaseSec
	groups := []string{}
	for _, g := range s.Groups {
		var lockT, lastOut *int64
		if g.State.LockAgeNs != nil {
			v := nowNs - *g.State.LockAgeNs
			lockT = &v
		}
		if g.State.LastOutAgeNs != nil {
			v := nowNs - *g.State.LastOutAgeNs
			lastOut = &v
		}
		st := in.cgstate(g.State.Locked, lockT, g.State.Requested, g.State.ScaleDelta, lastOut, g.State.CacheCPU, g.State.CacheMem, g.State.TaintTracker, g.State.ForceTracker)
		k := fmt.Sprintf("(Build_korc %s %s %s)", in.cids(g.K8s.GetFail), in.cids(append(append([]string{}, g.K8s.UpdateFail...), g.K8s.Conflict...)), in.cids(g.K8s.DeleteFail))
		groups = append(groups, fmt.Sprintf("(Build_group_in %s %s %s %s %s)", in.copts(g.Opts), st, in.caorc(g.Aws), k, cbool(g.Aws.DescInstFail)))
	}
	api := s.API
	if api == nil {
		api = s.Nodes
	}
	cloud := []string{}
	for _, a := range s.Cloud {
		cloud = append(cloud, in.casg(a, s.Tries[a.Name]))
	}
	snap := fmt.Sprintf("(Build_snapshot %s %s %s %s %s %s %s)", cz(nowNs), cbool(s.GlobalDry), clist(groups), in.cnodes(s.Nodes), in.cpods(s.Pods), in.cnodes(api), clist(cloud))

	og := []string{}
	keyParts := ""
	nontrivial := false
	ncalls := 0
	lastReached := -1
	for gi, g := range obs.Groups {
		if g.Reached {
			lastReached = gi
		}
	}
	for gi, g := range obs.Groups {
		if !g.Reached {
			continue
		}
		spec := s.Groups[gi]
		calls := reorderLag(g.Calls, s.Nodes)
		cs := []string{}
		for _, e := range calls {
			c := in.ccall(e, nowSec, nil)
			cs = append(cs, c)
			keyParts += c
		}
		ncalls += len(calls)
		var preLockM, preOutM *int64
		if spec.State.LockAgeNs != nil {
			v := nowNs - *spec.State.LockAgeNs
			preLockM = &v
		}
		if spec.State.LastOutAgeNs != nil {
			v := nowNs - *spec.State.LastOutAgeNs
			preOutM = &v
		}
		lockT := canonTime(g.State.LockTime, obs.PreLock[g.Name], preLockM, obs)
		lastOut := canonTime(g.State.LastScaleOut, obs.PreOut[g.Name], preOutM, obs)
		// (Until main's Scan.v stopped assigning lastScaleOut on OutExit the harness reported the scan instant here for a group
		// that ended in log.Fatalf; the observed value is emitted as is now.  corpus/exit_last_scale_out.json is the regression input.)
		_ = lastReached
		st := in.cgstate(g.State.Locked, lockT, g.State.Requested, g.State.ScaleDelta, lastOut, g.State.CPUCapMilli, g.State.MemCapBytes, g.State.TaintTracker, g.State.ForceTaintTracker)
		og = append(og, fmt.Sprintf("(Build_obs_group %s %s %s %s %s)", cz(in.ID(g.Name)), clist(cs), st, cz(g.Desired), cz(int64(g.Tries))))
		keyParts += fmt.Sprintf("|%d|%v|%d", g.State.ScaleDelta, g.State.Locked, g.Desired)
	}
	nontrivial = ncalls > 0
	plan := []string{}
	for _, b := range s.refreshPlan() {
		plan = append(plan, cbool(b))
	}
	coq := fmt.Sprintf("(Build_scan_case %s %s %s %s)", snap, clist(plan), clist(og), cz(int64(obs.Out)))
	key := fmt.Sprintf("%x|%d", hashJSON(keyParts), obs.Out)
	cls := fmt.Sprintf("groups=%d out=%d calls<=%d", len(s.Groups), obs.Out, bucket(ncalls))
	return coq, key, nontrivial, cls
}

var _ = context.TODO
var _ = json.Marshal
